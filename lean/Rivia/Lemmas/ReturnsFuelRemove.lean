/- COPY of Rivia/Lemmas/FuelRemove.lean in the namespace `Rivia.Lemmas.Ret` (nothing else changed): the original
   cannot be imported together with Rivia/Lemmas/CopyMove.lean (the C01R / C01C family), both declare
   `Rivia.Lemmas.alLookup_of_mem`, `WfKey`, ….  Used by Props/C12R only. -/
/-
  Rivia.Lemmas.FuelRemove — `remove_all` never exhausts its fuel on a well-formed state.

  Potential of a loop state (entries `l`, worklist `W`, target `p0`):
    Φ = #(worklist items that do not exist)
      + Σ over entries at/under `p0` of (2 if the entry still has listed children and none of its
        strict descendants is on the worklist ("not expanded yet"), else 1)
  Every iteration of `removeAllLoop` that does not exit with an error decreases Φ by at least one.
-/
import Rivia.Model.MemfsOps
import Rivia.Spec.MemfsJudge
import Rivia.Lemmas.Total

namespace Rivia.Lemmas.Ret
open Rivia Rivia.Memfs Rivia.Memfs.M Rivia.File

abbrev Ents := List (FsPath × Entry)

/-! ### association lists -/

theorem alLookup_eq_none {β} {k : FsPath} {l : List (FsPath × β)} :
    alLookup k l = none ↔ k ∉ l.map (·.1) := by
  induction l with
  | nil => simp [alLookup]
  | cons kv l ih =>
    obtain ⟨k', v⟩ := kv
    simp only [alLookup, List.map_cons, List.mem_cons, not_or]
    split
    · rename_i h; simp [h]
    · rename_i h
      rw [ih]
      constructor
      · intro h2; exact ⟨fun h3 => h h3.symm, h2⟩
      · intro h2; exact h2.2

theorem alLookup_some_mem {β} {k : FsPath} {v : β} {l : List (FsPath × β)}
    (h : alLookup k l = some v) : (k, v) ∈ l := by
  induction l with
  | nil => simp [alLookup] at h
  | cons kv l ih =>
    obtain ⟨k', v'⟩ := kv
    simp only [alLookup] at h
    split at h
    · rename_i hk; cases h; subst hk; exact List.mem_cons_self
    · exact List.mem_cons_of_mem _ (ih h)

theorem alLookup_of_mem {β} {k : FsPath} {v : β} {l : List (FsPath × β)}
    (nd : (l.map (·.1)).Nodup) (h : (k, v) ∈ l) : alLookup k l = some v := by
  induction l with
  | nil => cases h
  | cons kv l ih =>
    obtain ⟨k', v'⟩ := kv
    simp only [List.map_cons, List.nodup_cons] at nd
    simp only [alLookup]
    rcases List.mem_cons.1 h with h | h
    · cases h; simp
    · have : k' ≠ k := by
        intro hk; subst hk
        exact nd.1 (List.mem_map.2 ⟨(k', v), h, rfl⟩)
      rw [if_neg this]
      exact ih nd.2 h

theorem alErase_eq_filter {β} {k : FsPath} {l : List (FsPath × β)} (nd : (l.map (·.1)).Nodup) :
    alErase k l = l.filter (fun kv => kv.1 ≠ k) := by
  induction l with
  | nil => rfl
  | cons kv l ih =>
    obtain ⟨k', v'⟩ := kv
    simp only [List.map_cons, List.nodup_cons] at nd
    simp only [alErase]
    split
    · rename_i hk; subst hk
      rw [List.filter_cons_of_neg (by simp)]
      symm
      rw [List.filter_eq_self]
      intro a ha
      have : a.1 ≠ k' := fun h => nd.1 (h ▸ List.mem_map.2 ⟨a, ha, rfl⟩)
      simpa using this
    · rename_i hk
      rw [List.filter_cons_of_pos (by simpa using hk), ih nd.2]

theorem alInsert_eq_map {β} {k : FsPath} (v : β) {l : List (FsPath × β)} (nd : (l.map (·.1)).Nodup)
    (hk : k ∈ l.map (·.1)) :
    alInsert k v l = l.map (fun kv => if kv.1 = k then (k, v) else kv) := by
  induction l with
  | nil => simp at hk
  | cons kv l ih =>
    obtain ⟨k', v'⟩ := kv
    simp only [List.map_cons, List.nodup_cons] at nd
    simp only [alInsert, List.map_cons]
    split
    · rename_i h; subst h
      congr 1
      have : l.map (fun kv => if kv.1 = k' then (k', v) else kv) = l.map id := by
        apply List.map_congr_left
        intro a ha
        have : a.1 ≠ k' := fun h => nd.1 (h ▸ List.mem_map.2 ⟨a, ha, rfl⟩)
        simp [this]
      rw [this, List.map_id]
    · rename_i h
      congr 1
      apply ih nd.2
      simp only [List.map_cons, List.mem_cons] at hk
      rcases hk with hk | hk
      · exact absurd hk.symm h
      · exact hk

end Rivia.Lemmas.Ret

namespace Rivia.Lemmas.Ret
open Rivia Rivia.Memfs Rivia.Memfs.M Rivia.File

/-! ### one iteration of `removeAllLoop` -/

/-- listed child names -/
def names (e : Entry) : List Str := e.files.getD []

def dropName (b : Str) (e : Entry) : Entry := { e with files := e.files.map (·.filter (· ≠ b)) }

theorem bindM_def {α β} (m : M α) (f : α → M β) : (m >>= f) = M.bind m f := rfl
theorem pureM_def {α} (a : α) : (Pure.pure a : M α) = M.pure a := rfl

theorem removeChild_dir {pe : Entry} (h : pe.dir = true) (b : Str) :
    pe.removeChild b = .ok (dropName b pe) := by
  unfold Entry.removeChild dropName
  rw [if_neg (by simp [h])]
  cases hf : pe.files with
  | none => simp only [Option.map_none]; cases pe; simp_all
  | some fs => simp

theorem removeChild_not_dir {pe : Entry} (h : ¬ pe.dir = true) (b : Str) :
    pe.removeChild b = .err .isNotDir := by
  unfold Entry.removeChild
  rw [if_pos (by simpa using h)]

/-- the key-preserving map used by `eraseLeaf` -/
def dropAt (d : FsPath) (b : Str) (kv : FsPath × Entry) : FsPath × Entry :=
  if kv.1 = d then (kv.1, dropName b kv.2) else kv

/-- the entry map after erasing the leaf `p`: removed from its parent's child list, then erased -/
def eraseLeaf (p : FsPath) (l : Ents) : Ents :=
  (l.map (dropAt p.dropLast (baseName p))).filter (fun kv => kv.1 ≠ p)

theorem dropAt_fst (d : FsPath) (b : Str) (kv : FsPath × Entry) : (dropAt d b kv).1 = kv.1 := by
  unfold dropAt; split <;> rfl

theorem map_dropAt_keys (d : FsPath) (b : Str) (l : Ents) :
    (l.map (dropAt d b)).map (·.1) = l.map (·.1) := by
  rw [List.map_map]; apply List.map_congr_left; intro a _; exact dropAt_fst d b a

theorem alInsert_dropName {l : Ents} (nd : (l.map (·.1)).Nodup) {d : FsPath} {pe : Entry}
    (hd : alLookup d l = some pe) (b : Str) :
    alInsert d (dropName b pe) l = l.map (dropAt d b) := by
  rw [alInsert_eq_map _ nd (List.mem_map.2 ⟨(d, pe), alLookup_some_mem hd, rfl⟩)]
  apply List.map_congr_left
  intro a ha
  unfold dropAt
  split
  · rename_i h
    have : alLookup a.1 l = some a.2 := alLookup_of_mem nd ha
    rw [h, hd] at this
    cases this
    rw [h]
  · rfl

theorem rl_nil (f : Nat) (s : State) : removeAllLoop (f + 1) [] s = (.ok (), s) := by
  simp only [removeAllLoop]; rfl

theorem rl_missing {f : Nat} {p : FsPath} {work : List FsPath} {s : State}
    (hp : alLookup p s.entries = none) :
    removeAllLoop (f + 1) (p :: work) s = removeAllLoop f work s := by
  simp only [removeAllLoop, bindM_def, M.bind, getEntry, hp]

theorem rl_expand {f : Nat} {p : FsPath} {work : List FsPath} {s : State} {e : Entry} {n : Str}
    {ns : List Str} (hp : alLookup p s.entries = some e) (hf : e.files = some (n :: ns)) :
    removeAllLoop (f + 1) (p :: work) s =
      removeAllLoop f (((n :: ns).map (fun x => p ++ [x])).reverse ++ p :: work) s := by
  simp only [removeAllLoop, bindM_def, M.bind, getEntry, hp, hf]

theorem rl_erase {f : Nat} {p : FsPath} {work : List FsPath} {s : State} {e : Entry}
    (nd : (s.entries.map (·.1)).Nodup)
    (hp : alLookup p s.entries = some e) (hn : names e = []) :
    (∃ k, (removeAllLoop (f + 1) (p :: work) s).1 = .err k) ∨
    ∃ s', s'.entries = eraseLeaf p s.entries ∧
      removeAllLoop (f + 1) (p :: work) s = removeAllLoop f work s' := by
  have hfiles : e.files = none ∨ e.files = some [] := by
    unfold names at hn
    cases hf : e.files with
    | none => exact .inl rfl
    | some fs => rw [hf] at hn; simp at hn; subst hn; exact .inr rfl
  simp only [removeAllLoop, bindM_def, M.bind, getEntry, hp]
  have hmatch : ∀ (A B : M Unit), (match e.files with
      | some (n :: ns) => A
      | _ => B) = B := by
    intro A B; rcases hfiles with h | h <;> rw [h]
  by_cases hp0 : p = []
  · left
    rcases hfiles with h | h <;> rw [h] <;> simp [Memfs.dirOf, M.bind, M.fail, hp0]
  · cases hd : alLookup p.dropLast s.entries with
    | none =>
      right
      refine ⟨{ s with files := alErase p s.files, entries := alErase p s.entries }, ?_, ?_⟩
      · simp only [eraseLeaf]
        rw [alErase_eq_filter nd]
        congr 1
        have : s.entries.map (dropAt p.dropLast (baseName p)) = s.entries.map id := by
          apply List.map_congr_left
          intro a ha
          have : a.1 ≠ p.dropLast := fun h =>
            (alLookup_eq_none.1 hd) (h ▸ List.mem_map.2 ⟨a, ha, rfl⟩)
          simp [dropAt, this]
        rw [this, List.map_id]
      · rcases hfiles with h | h <;> rw [h] <;>
          simp [Memfs.dirOf, M.bind, M.pure, hp0, hd, removeFile, removeEntry, getEntry]
    | some pe =>
      by_cases hdir : pe.dir = true
      · right
        refine ⟨{ s with files := alErase p s.files,
                         entries := alErase p (alInsert p.dropLast (dropName (baseName p) pe) s.entries) }, ?_, ?_⟩
        · simp only [eraseLeaf]
          rw [alInsert_dropName nd hd, alErase_eq_filter (by rw [map_dropAt_keys]; exact nd)]
        · rcases hfiles with h | h <;> rw [h] <;>
            simp [Memfs.dirOf, M.bind, M.pure, hp0, hd, removeFile, removeEntry, getEntry, setEntry,
              M.liftO, M.modify, removeChild_dir hdir]
      · left
        rcases hfiles with h | h <;> rw [h] <;>
          simp [Memfs.dirOf, M.bind, M.pure, hp0, hd, getEntry, M.liftO, removeChild_not_dir hdir]

end Rivia.Lemmas.Ret

namespace Rivia.Lemmas.Ret
open Rivia Rivia.Memfs Rivia.Memfs.M Rivia.File

/-! ### invariant and potential -/

/-- strict prefix -/
def SPre (a b : FsPath) : Prop := a <+: b ∧ a ≠ b

instance (a b : FsPath) : Decidable (SPre a b) := by unfold SPre; infer_instance

theorem spre_snoc (k : FsPath) (n : Str) : SPre k (k ++ [n]) :=
  ⟨List.prefix_append _ _, fun h => by simpa using congrArg List.length h⟩

theorem snoc_inj {k k' : FsPath} {n n' : Str} (h : k ++ [n] = k' ++ [n']) : k = k' ∧ n = n' := by
  have := List.append_inj' h rfl
  exact ⟨this.1, by simpa using this.2⟩

theorem snoc_eq_dropLast {k p : FsPath} {n : Str} (h : k ++ [n] = p) :
    k = p.dropLast ∧ n = baseName p := by
  subst h
  simp [baseName]

structure RInv (p0 : FsPath) (l : Ents) (W : List FsPath) : Prop where
  nodup : (l.map (·.1)).Nodup
  listed : ∀ k e, (k, e) ∈ l → ∀ n ∈ names e, (k ++ [n]) ∈ l.map (·.1)
  namesNodup : ∀ k e, (k, e) ∈ l → (names e).Nodup
  expanded : ∀ k e, (k, e) ∈ l → p0 <+: k → (∃ w ∈ W, SPre k w) → ∀ n ∈ names e, k ++ [n] ∈ W
  order : W.Pairwise (fun a b => ¬ a <+: b)
  under : ∀ w ∈ W, p0 <+: w

def heavy (W : List FsPath) (kv : FsPath × Entry) : Prop :=
  names kv.2 ≠ [] ∧ ∀ w ∈ W, ¬ SPre kv.1 w

instance (W : List FsPath) (kv : FsPath × Entry) : Decidable (heavy W kv) := by
  unfold heavy; infer_instance

def wt (p0 : FsPath) (W : List FsPath) (kv : FsPath × Entry) : Nat :=
  if p0 <+: kv.1 then (if heavy W kv then 2 else 1) else 0

def miss (l : Ents) (W : List FsPath) : Nat := (W.filter (fun w => (alLookup w l).isNone)).length

def Phi (p0 : FsPath) (l : Ents) (W : List FsPath) : Nat := miss l W + (l.map (wt p0 W)).sum

theorem wt_le_two (p0 : FsPath) (W : List FsPath) (kv : FsPath × Entry) : wt p0 W kv ≤ 2 := by
  unfold wt; split <;> try split
  all_goals omega

theorem sum_map_le {α} (f g : α → Nat) (l : List α) (h : ∀ x ∈ l, f x ≤ g x) :
    (l.map f).sum ≤ (l.map g).sum := by
  induction l with
  | nil => simp
  | cons a l ih =>
    simp only [List.map_cons, List.sum_cons]
    have := h a List.mem_cons_self
    have := ih (fun x hx => h x (List.mem_cons_of_mem _ hx))
    omega

theorem sum_map_lt {α} (f g : α → Nat) (l : List α) (h : ∀ x ∈ l, f x ≤ g x)
    {a : α} (ha : a ∈ l) (hlt : f a < g a) : (l.map f).sum < (l.map g).sum := by
  induction l with
  | nil => cases ha
  | cons b l ih =>
    simp only [List.map_cons, List.sum_cons]
    have hb := h b List.mem_cons_self
    have hl : ∀ x ∈ l, f x ≤ g x := fun x hx => h x (List.mem_cons_of_mem _ hx)
    rcases List.mem_cons.1 ha with rfl | ha'
    · have := sum_map_le f g l hl
      omega
    · have := ih hl ha'
      omega

theorem sum_map_filter {α} (F : α → Nat) (q : α → Bool) (l : List α) :
    ((l.filter q).map F).sum = (l.map (fun x => if q x then F x else 0)).sum := by
  induction l with
  | nil => rfl
  | cons a l ih =>
    simp only [List.filter_cons, List.map_cons, List.sum_cons]
    split <;> simp [ih]

theorem sum_map_const {α} (c : Nat) (l : List α) : (l.map (fun _ => c)).sum = c * l.length := by
  induction l with
  | nil => rfl
  | cons a l ih =>
    simp only [List.map_cons, List.sum_cons, List.length_cons, ih, Nat.mul_succ]; omega

theorem phi_init_le (p0 : FsPath) (l : Ents) (p : FsPath) : Phi p0 l [p] ≤ 1 + 2 * l.length := by
  unfold Phi miss
  have h1 : ([p].filter (fun w => (alLookup w l).isNone)).length ≤ 1 := by
    have := (List.filter_sublist (p := fun w => (alLookup w l).isNone) (l := [p])).length_le
    simpa using this
  have h2 : (l.map (wt p0 [p])).sum ≤ (l.map (fun _ => 2)).sum :=
    sum_map_le _ _ _ (fun x _ => wt_le_two _ _ _)
  have h3 := sum_map_const (α := FsPath × Entry) 2 l
  omega

/-- less worklist → heavier -/
theorem mem_keys_of_mem {l : Ents} {k : FsPath} {e : Entry} (h : (k, e) ∈ l) : k ∈ l.map (·.1) :=
  List.mem_map.2 ⟨(k, e), h, rfl⟩

theorem lookup_isSome_of_mem_keys {l : Ents} {k : FsPath} (h : k ∈ l.map (·.1)) :
    (alLookup k l).isNone = false := by
  cases hl : alLookup k l with
  | none => exact absurd h (alLookup_eq_none.1 hl)
  | some v => rfl

/-! #### (a) the top of the worklist does not exist -/

theorem step_missing {p0 : FsPath} {l : Ents} {p : FsPath} {W : List FsPath}
    (inv : RInv p0 l (p :: W)) (hp : alLookup p l = none) :
    RInv p0 l W ∧ Phi p0 l W < Phi p0 l (p :: W) := by
  have hpk : p ∉ l.map (·.1) := alLookup_eq_none.1 hp
  have hexp : ∀ k e, (k, e) ∈ l → p0 <+: k → (∃ w ∈ p :: W, SPre k w) → ∀ n ∈ names e, k ++ [n] ∈ W := by
    intro k e hke hu hw n hn
    have := inv.expanded k e hke hu hw n hn
    rcases List.mem_cons.1 this with h | h
    · exact absurd (h ▸ inv.listed k e hke n hn) hpk
    · exact h
  refine ⟨⟨inv.nodup, inv.listed, inv.namesNodup, ?_, (List.pairwise_cons.1 inv.order).2,
    fun w hw => inv.under w (List.mem_cons_of_mem _ hw)⟩, ?_⟩
  · intro k e hke hu ⟨w, hw, hs⟩
    exact hexp k e hke hu ⟨w, List.mem_cons_of_mem _ hw, hs⟩
  · unfold Phi
    have hm : miss l (p :: W) = miss l W + 1 := by
      unfold miss
      rw [List.filter_cons_of_pos (by simp [hp])]
      rfl
    have hs : (l.map (wt p0 W)).sum ≤ (l.map (wt p0 (p :: W))).sum := by
      apply sum_map_le
      intro kv hkv
      obtain ⟨k, e⟩ := kv
      unfold wt
      split
      · rename_i hu
        by_cases hh : heavy W (k, e)
        · have : heavy (p :: W) (k, e) := by
            refine ⟨hh.1, ?_⟩
            intro w hw
            rcases List.mem_cons.1 hw with rfl | hw
            · intro hsp
              obtain ⟨n, hn⟩ := List.exists_mem_of_ne_nil _ hh.1
              have := hexp k e hkv hu ⟨w, List.mem_cons_self, hsp⟩ n hn
              exact hh.2 _ this (spre_snoc k n)
            · exact hh.2 w hw
          rw [if_pos hh, if_pos this]; exact Nat.le_refl _
        · rw [if_neg hh]; split <;> omega
      · omega
    omega

/-! #### (b) the top of the worklist is a directory with listed children: they are pushed -/

theorem heavy_mono {W W' : List FsPath} (h : ∀ w ∈ W, w ∈ W') {kv : FsPath × Entry}
    (hh : heavy W' kv) : heavy W kv :=
  ⟨hh.1, fun w hw => hh.2 w (h w hw)⟩

theorem wt_mono (p0 : FsPath) {W W' : List FsPath} (h : ∀ w ∈ W, w ∈ W') (kv : FsPath × Entry) :
    wt p0 W' kv ≤ wt p0 W kv := by
  unfold wt
  split
  · by_cases hh : heavy W' kv
    · rw [if_pos hh, if_pos (heavy_mono h hh)]; exact Nat.le_refl _
    · rw [if_neg hh]; split <;> omega
  · omega

theorem step_expand {p0 : FsPath} {l : Ents} {p : FsPath} {W : List FsPath} {e : Entry}
    (inv : RInv p0 l (p :: W)) (hpe : (p, e) ∈ l) (hne : names e ≠ []) :
    RInv p0 l (((names e).map (fun x => p ++ [x])).reverse ++ p :: W) ∧
    Phi p0 l (((names e).map (fun x => p ++ [x])).reverse ++ p :: W) < Phi p0 l (p :: W) := by
  have hord := List.pairwise_cons.1 inv.order
  have hpu : p0 <+: p := inv.under p List.mem_cons_self
  have hsub : ∀ w ∈ p :: W, w ∈ ((names e).map (fun x => p ++ [x])).reverse ++ p :: W :=
    fun w hw => List.mem_append_right _ hw
  have hkid : ∀ n ∈ names e, p ++ [n] ∈ ((names e).map (fun x => p ++ [x])).reverse ++ p :: W := by
    intro n hn
    apply List.mem_append_left
    rw [List.mem_reverse]
    exact List.mem_map.2 ⟨n, hn, rfl⟩
  refine ⟨⟨inv.nodup, inv.listed, inv.namesNodup, ?_, ?_, ?_⟩, ?_⟩
  · -- expanded
    intro k e' hke hu ⟨w, hw, hs⟩ n hn
    rcases List.mem_append.1 hw with hw | hw
    · rw [List.mem_reverse] at hw
      obtain ⟨x, hx, rfl⟩ := List.mem_map.1 hw
      rcases List.prefix_concat_iff.1 hs.1 with h | h
      · exact absurd h hs.2
      · by_cases hkp : k = p
        · subst hkp
          have : e' = e := by
            have h1 := alLookup_of_mem inv.nodup hke
            have h2 := alLookup_of_mem inv.nodup hpe
            rw [h1] at h2; exact Option.some.inj h2
          subst this
          exact hkid n hn
        · exact hsub _ (inv.expanded k e' hke hu ⟨p, List.mem_cons_self, h, hkp⟩ n hn)
    · exact hsub _ (inv.expanded k e' hke hu ⟨w, hw, hs⟩ n hn)
  · -- order
    rw [List.pairwise_append]
    refine ⟨?_, inv.order, ?_⟩
    · rw [List.pairwise_reverse, List.pairwise_map]
      have := List.nodup_iff_pairwise_ne.1 (inv.namesNodup p e hpe)
      refine this.imp ?_
      intro a b hab hpre
      have := hpre.eq_of_length (by simp)
      exact hab (snoc_inj this).2.symm
    · intro a ha b hb hpre
      rw [List.mem_reverse] at ha
      obtain ⟨x, hx, rfl⟩ := List.mem_map.1 ha
      rcases List.mem_cons.1 hb with rfl | hb
      · have := hpre.length_le
        simp at this
        omega
      · exact hord.1 b hb ((List.prefix_append p [x]).trans hpre)
  · -- under
    intro w hw
    rcases List.mem_append.1 hw with hw | hw
    · rw [List.mem_reverse] at hw
      obtain ⟨x, hx, rfl⟩ := List.mem_map.1 hw
      exact hpu.trans (List.prefix_append _ _)
    · exact inv.under w hw
  · -- potential
    unfold Phi
    have hm : miss l (((names e).map (fun x => p ++ [x])).reverse ++ p :: W) = miss l (p :: W) := by
      unfold miss
      rw [List.filter_append]
      have : ((names e).map (fun x => p ++ [x])).reverse.filter (fun w => (alLookup w l).isNone) = [] := by
        rw [List.filter_eq_nil_iff]
        intro a ha
        rw [List.mem_reverse] at ha
        obtain ⟨x, hx, rfl⟩ := List.mem_map.1 ha
        simp [lookup_isSome_of_mem_keys (inv.listed p e hpe x hx)]
      rw [this]; rfl
    have hs : (l.map (wt p0 (((names e).map (fun x => p ++ [x])).reverse ++ p :: W))).sum
        < (l.map (wt p0 (p :: W))).sum := by
      apply sum_map_lt _ _ _ (fun kv _ => wt_mono p0 hsub kv) hpe
      have h1 : heavy (p :: W) (p, e) := by
        refine ⟨hne, ?_⟩
        intro w hw hsp
        rcases List.mem_cons.1 hw with rfl | hw
        · exact hsp.2 rfl
        · exact hord.1 w hw hsp.1
      have h2 : ¬ heavy (((names e).map (fun x => p ++ [x])).reverse ++ p :: W) (p, e) := by
        intro hh
        obtain ⟨n, hn⟩ := List.exists_mem_of_ne_nil _ hne
        exact hh.2 _ (hkid n hn) (spre_snoc p n)
      unfold wt
      rw [if_pos hpu, if_pos hpu, if_pos h1, if_neg h2]
      omega
    omega

/-! #### (c) the top of the worklist has no listed children: it is erased -/

theorem names_dropName (b : Str) (e : Entry) : names (dropName b e) = (names e).filter (· ≠ b) := by
  unfold names dropName
  cases e.files <;> simp

theorem names_dropAt {d : FsPath} {b : Str} {k : FsPath} {e : Entry} {n : Str}
    (h : n ∈ names (dropAt d b (k, e)).2) : n ∈ names e ∧ (k = d → n ≠ b) := by
  unfold dropAt at h
  split at h
  · simp only [names_dropName, List.mem_filter] at h
    exact ⟨h.1, fun _ => by simpa using h.2⟩
  · rename_i hk; exact ⟨h, fun hd => absurd hd hk⟩

theorem mem_eraseLeaf {p : FsPath} {l : Ents} {k : FsPath} {e' : Entry} :
    (k, e') ∈ eraseLeaf p l ↔
      k ≠ p ∧ ∃ e, (k, e) ∈ l ∧ e' = (dropAt p.dropLast (baseName p) (k, e)).2 := by
  unfold eraseLeaf
  simp only [List.mem_filter, List.mem_map]
  constructor
  · rintro ⟨⟨⟨k0, e0⟩, hm, heq⟩, hk⟩
    have h1 : k0 = k := by
      have := congrArg Prod.fst heq
      rw [dropAt_fst] at this; exact this
    subst h1
    exact ⟨by simpa using hk, e0, hm, by rw [heq]⟩
  · rintro ⟨hk, e, hm, rfl⟩
    refine ⟨⟨(k, e), hm, ?_⟩, by simpa using hk⟩
    apply Prod.ext
    · exact dropAt_fst _ _ _
    · rfl

theorem keys_eraseLeaf (p : FsPath) (l : Ents) :
    (eraseLeaf p l).map (·.1) = (l.map (·.1)).filter (· ≠ p) := by
  unfold eraseLeaf
  conv => rhs; rw [← map_dropAt_keys p.dropLast (baseName p) l, List.filter_map]
  rfl

theorem mem_keys_eraseLeaf {p : FsPath} {l : Ents} {k : FsPath} :
    k ∈ (eraseLeaf p l).map (·.1) ↔ k ≠ p ∧ k ∈ l.map (·.1) := by
  rw [keys_eraseLeaf, List.mem_filter]
  constructor
  · rintro ⟨h1, h2⟩; exact ⟨by simpa using h2, h1⟩
  · rintro ⟨h1, h2⟩; exact ⟨h2, by simpa using h1⟩

theorem step_erase {p0 : FsPath} {l : Ents} {p : FsPath} {W : List FsPath} {e : Entry}
    (inv : RInv p0 l (p :: W)) (hpe : (p, e) ∈ l) :
    RInv p0 (eraseLeaf p l) W ∧ Phi p0 (eraseLeaf p l) W < Phi p0 l (p :: W) := by
  have hord := List.pairwise_cons.1 inv.order
  have hpu : p0 <+: p := inv.under p List.mem_cons_self
  have hpW : p ∉ W := fun h => hord.1 p h (List.prefix_refl p)
  -- a listed child of a surviving entry is never `p` itself
  have hchild : ∀ k e0 n, n ∈ names (dropAt p.dropLast (baseName p) (k, e0)).2 → k ++ [n] ≠ p := by
    intro k e0 n hn heq
    obtain ⟨h1, h2⟩ := snoc_eq_dropLast heq
    exact (names_dropAt hn).2 h1 h2
  have hexp : ∀ k e0, (k, e0) ∈ l → p0 <+: k → (∃ w ∈ p :: W, SPre k w) →
      ∀ n ∈ names (dropAt p.dropLast (baseName p) (k, e0)).2, k ++ [n] ∈ W := by
    intro k e0 hke hu hw n hn
    have := inv.expanded k e0 hke hu hw n (names_dropAt hn).1
    rcases List.mem_cons.1 this with h | h
    · exact absurd h (hchild k e0 n hn)
    · exact h
  refine ⟨⟨?_, ?_, ?_, ?_, hord.2, fun w hw => inv.under w (List.mem_cons_of_mem _ hw)⟩, ?_⟩
  · rw [keys_eraseLeaf]
    exact List.Nodup.sublist List.filter_sublist inv.nodup
  · intro k e' hke n hn
    obtain ⟨hkp, e0, hm, rfl⟩ := mem_eraseLeaf.1 hke
    rw [mem_keys_eraseLeaf]
    exact ⟨hchild k e0 n hn, inv.listed k e0 hm n (names_dropAt hn).1⟩
  · intro k e' hke
    obtain ⟨hkp, e0, hm, rfl⟩ := mem_eraseLeaf.1 hke
    unfold dropAt
    split
    · rw [names_dropName]
      exact List.Nodup.sublist List.filter_sublist (inv.namesNodup k e0 hm)
    · exact inv.namesNodup k e0 hm
  · intro k e' hke hu ⟨w, hw, hs⟩ n hn
    obtain ⟨hkp, e0, hm, rfl⟩ := mem_eraseLeaf.1 hke
    exact hexp k e0 hm hu ⟨w, List.mem_cons_of_mem _ hw, hs⟩ n hn
  · unfold Phi
    have hm : miss (eraseLeaf p l) W = miss l (p :: W) := by
      unfold miss
      rw [List.filter_cons_of_neg (by simp [lookup_isSome_of_mem_keys (mem_keys_of_mem hpe)])]
      congr 1
      apply List.filter_congr
      intro w hw
      have hwp : w ≠ p := fun h => hpW (h ▸ hw)
      cases h1 : alLookup w l with
      | none =>
        have : w ∉ (eraseLeaf p l).map (·.1) := fun h =>
          (alLookup_eq_none.1 h1) (mem_keys_eraseLeaf.1 h).2
        rw [alLookup_eq_none.2 this]
      | some v =>
        have : w ∈ (eraseLeaf p l).map (·.1) :=
          mem_keys_eraseLeaf.2 ⟨hwp, mem_keys_of_mem (alLookup_some_mem h1)⟩
        rw [lookup_isSome_of_mem_keys this]; rfl
    have hs : ((eraseLeaf p l).map (wt p0 W)).sum < (l.map (wt p0 (p :: W))).sum := by
      unfold eraseLeaf
      rw [sum_map_filter, List.map_map]
      apply sum_map_lt _ _ _ _ hpe
      · simp only [Function.comp, dropAt_fst]
        unfold wt
        rw [if_pos hpu]
        simp only [ne_eq, not_true_eq_false, decide_false, Bool.false_eq_true, if_false]
        split <;> omega
      · intro kv hkv
        obtain ⟨k, e0⟩ := kv
        simp only [Function.comp, dropAt_fst]
        split
        · rename_i hkp
          have hkp : k ≠ p := by simpa using hkp
          unfold wt
          rw [dropAt_fst]
          split
          · rename_i hu
            by_cases hh : heavy W (dropAt p.dropLast (baseName p) (k, e0))
            · have : heavy (p :: W) (k, e0) := by
                obtain ⟨n, hn⟩ := List.exists_mem_of_ne_nil _ hh.1
                refine ⟨List.ne_nil_of_mem (names_dropAt hn).1, ?_⟩
                intro w hw hsp
                rcases List.mem_cons.1 hw with rfl | hw
                · have := hexp k e0 hkv hu ⟨w, List.mem_cons_self, hsp⟩ n hn
                  have h2 := hh.2 _ this
                  rw [dropAt_fst] at h2
                  exact h2 (spre_snoc k n)
                · have h2 := hh.2 w hw
                  rw [dropAt_fst] at h2
                  exact h2 hsp
              rw [if_pos hh, if_pos this]; exact Nat.le_refl _
            · rw [if_neg hh]; split <;> omega
          · omega
        · omega
    omega

/-! ### the loop -/

theorem names_eq_nil_or (e : Entry) : names e = [] ∨ ∃ n ns, e.files = some (n :: ns) := by
  unfold names
  cases h : e.files with
  | none => exact .inl rfl
  | some fs =>
    cases fs with
    | nil => exact .inl rfl
    | cons n ns => exact .inr ⟨n, ns, rfl⟩

theorem removeAllLoop_no_hang (p0 : FsPath) : ∀ (f : Nat) (s : State) (W : List FsPath),
    RInv p0 s.entries W → Phi p0 s.entries W < f → (removeAllLoop f W s).1 ≠ .hang := by
  intro f
  induction f with
  | zero => intro s W _ h; omega
  | succ f ih =>
    intro s W inv hphi
    cases W with
    | nil => rw [rl_nil]; simp
    | cons p work =>
      cases hp : alLookup p s.entries with
      | none =>
        rw [rl_missing hp]
        obtain ⟨inv', hlt⟩ := step_missing inv hp
        exact ih s work inv' (by omega)
      | some e =>
        have hpe := alLookup_some_mem hp
        rcases names_eq_nil_or e with hn | ⟨n, ns, hf⟩
        · rcases rl_erase (f := f) (work := work) inv.nodup hp hn with ⟨k, hk⟩ | ⟨s', hs', heq⟩
          · rw [hk]; simp
          · rw [heq]
            obtain ⟨inv', hlt⟩ := step_erase inv hpe
            rw [← hs'] at inv' hlt
            exact ih s' work inv' (by omega)
        · rw [rl_expand hp hf]
          have hnames : names e = n :: ns := by unfold names; rw [hf]; rfl
          obtain ⟨inv', hlt⟩ := step_expand inv hpe (by rw [hnames]; simp)
          rw [hnames] at inv' hlt
          exact ih s _ inv' (by omega)

/-! ### from the C03 invariant -/

/-- the clauses of `Spec.Inv` in usable form -/
structure InvFacts (s : State) : Prop where
  nodup : (s.entries.map (·.1)).Nodup
  parent : ∀ k e, (k, e) ∈ s.entries → k ≠ [] → ∃ pe, alLookup k.dropLast s.entries = some pe ∧
    pe.dir = true ∧ pe.link = false ∧ baseName k ∈ names pe
  listed : ∀ k e, (k, e) ∈ s.entries → ∀ n ∈ names e, (k ++ [n]) ∈ s.entries.map (·.1)
  pathField : ∀ k e, (k, e) ∈ s.entries → e.path = k
  filesDir : ∀ k e, (k, e) ∈ s.entries → e.files.isSome = e.dir
  namesNodup : ∀ k e, (k, e) ∈ s.entries → (names e).Nodup

theorem inv_facts {s : State} (h : Spec.Inv s) : InvFacts s := by
  unfold Spec.Inv Spec.invViolation at h
  simp only at h
  split at h
  · cases h
  rename_i h1
  split at h
  · cases h
  rename_i h2
  split at h
  · cases h
  rename_i h3
  split at h
  · cases h
  rename_i h4
  split at h
  · cases h
  rename_i h5
  split at h
  · cases h
  rename_i h6
  split at h
  · cases h
  rename_i h7
  split at h
  · cases h
  rename_i h8
  split at h
  · cases h
  rename_i h9
  split at h
  · cases h
  rename_i h10
  split at h
  · cases h
  rename_i h11
  rw [List.find?_eq_none] at h4 h5 h9 h10 h11
  refine ⟨by simpa using h1, ?_, ?_, ?_, ?_, ?_⟩
  · intro k e hke hk
    have := h4 (k, e) hke
    simp only [ne_eq, hk, not_false_eq_true, decide_true, Bool.true_and] at this
    cases hl : alLookup k.dropLast s.entries with
    | none => rw [hl] at this; simp at this
    | some pe =>
      rw [hl] at this
      simp only at this
      refine ⟨pe, rfl, ?_⟩
      unfold names
      cases hf : pe.files with
      | none => rw [hf] at this; simp at this
      | some fs =>
        rw [hf] at this
        simp at this
        simpa [and_assoc] using this
  · intro k e hke n hn
    have := h5 (k, e) hke
    unfold names at hn
    cases hf : e.files with
    | none => rw [hf] at hn; simp at hn
    | some fs =>
      rw [hf] at hn this
      simp only [Option.getD_some] at hn
      simp only [List.any_eq_true, not_exists, not_and] at this
      have h2 := this n hn
      cases hl : alLookup (k ++ [n]) s.entries with
      | none => rw [hl] at h2; simp at h2
      | some v => exact mem_keys_of_mem (alLookup_some_mem hl)
  · intro k e hke
    have := h9 (k, e) hke
    simpa using this
  · intro k e hke
    have := h10 (k, e) hke
    simpa using this
  · intro k e hke
    have := h11 (k, e) hke
    unfold names
    cases hf : e.files with
    | none => simp
    | some fs => rw [hf] at this; simpa using this

theorem rinv_init {s : State} (h : InvFacts s) (p : FsPath) : RInv p s.entries [p] := by
  refine ⟨h.nodup, h.listed, h.namesNodup, ?_, by simp, by simp⟩
  intro k e _ hu ⟨w, hw, hs⟩
  rw [List.mem_singleton] at hw
  subst hw
  exact absurd (hs.1.eq_of_length_le hu.length_le) hs.2

/-- `absM` does not touch the state -/
theorem absM_state (env : Env) (path : Str) (s : State) : (absM env path s).2 = s := by
  unfold Memfs.absM; split <;> rfl

theorem removeAllM_no_hang (env : Env) (path : Str) (s : State) (h : Spec.Inv s) :
    (removeAllM env path s).1 ≠ .hang := by
  have hf := inv_facts h
  unfold Memfs.removeAllM
  simp only [bindM_def, M.bind]
  have hfine := (Safe.absM env path).out s
  have hst := absM_state env path s
  split
  · rename_i a s' heq
    rw [heq] at hst
    simp only at hst
    subst hst
    simp only [M.get]
    apply removeAllLoop_no_hang a _ _ _ (rinv_init hf a)
    have := phi_init_le a s'.entries a
    omega
  · simp
  · simp
  · rename_i heq; rw [heq] at hfine; exact absurd rfl hfine.2

theorem mapVal_ne_hang {α} (f : α → Val) (m : M α) (s : State) (h : (m s).1 ≠ .hang) :
    (mapVal f m s).1 ≠ .hang := by
  unfold mapVal
  split <;> simp_all

theorem step_removeAll_no_hang (env : Env) (path : Str) (s : State) (h : Spec.Inv s) :
    (step env s (.removeAll path)).1 ≠ .hang := by
  simp only [step]
  exact mapVal_ne_hang _ _ _ (removeAllM_no_hang env path s h)

end Rivia.Lemmas.Ret
