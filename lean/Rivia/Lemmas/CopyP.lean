/-
  Rivia.Lemmas.CopyP — `copy` / `copy_b` on the Memfs model: the per-entry body `copyStep`,
  the single-file case in full, and the frame property of a whole copy.
-/
import Rivia.Lemmas.MoveRefine
import Rivia.Spec.CopySpec
import Rivia.Lemmas.ModeBits

set_option linter.unusedSimpArgs false

namespace Rivia.Lemmas
open Rivia Rivia.Str Rivia.Memfs Rivia.Spec Rivia.Spec.TreeFs Rivia.Memfs.M

/-! ### traversal of a single non-directory entry -/

theorem doFollow_false (e : Entry) : e.doFollow false = e := by
  unfold Entry.doFollow; simp

/-- the traversal options `_copy` uses -/
def copyOpts (follow : Bool) : Opts := { follow := follow }

theorem process_nondir {σ} (snap : Snap) (preOp : Entry → σ → Outcome Unit × σ) (st : ISt) (e : Entry)
    (w : σ) (hd : e.dir = false) :
    process snap (copyOpts false) preOp st e w = (some (.ok e), st, w) := by
  unfold process
  simp [hd, copyOpts]

theorem copyOpts_follow (b : Bool) : (copyOpts b).follow = b := rfl
theorem copyOpts_cf (b : Bool) : (copyOpts b).contentsFirst = false := rfl

theorem runIter_single {σ} (snap : Snap) (rootE : Entry) (hd : rootE.dir = false)
    (step : Entry → σ → Outcome Unit × σ) (n : Nat) (w : σ) :
    runIter snap (copyOpts false) noPre rootE step (n + 2) {} w =
      match step rootE w with
      | (.ok (), w') => (.ok (), w')
      | r => r := by
  rw [runIter]
  simp only [nextE, copyOpts_follow, doFollow_false, Bool.not_false, if_true, process_nondir _ _ _ _ _ hd]
  cases hs : step rootE w with
  | mk r w' =>
    cases r with
    | ok u =>
      cases u
      simp only
      rw [runIter]
      simp only [nextE, Bool.not_true, Bool.false_eq_true, if_false, nextLoop, copyOpts_cf, false_and]
    | err k => rfl
    | panic => rfl
    | hang => rfl

/-! ### the per-entry body of `_copy`, named -/

def copyDirMode (c : CopyOpts) : Option Nat :=
  match c.mode with | some x => if c.cdirs ∨ !c.cfiles then some x else none | none => none

def copyFileMode (c : CopyOpts) : Option Nat :=
  match c.mode with | some x => if c.cfiles ∨ !c.cdirs then some x else none | none => none

/-- what `_copy` does for one yielded entry (`rootPath` = path of the traversal root,
    `copyInto` = the destination was an existing real directory when the call started) -/
def copyStep (dstRoot : FsPath) (c : CopyOpts) (copyInto : Bool) (rootPath : FsPath) :
    Entry → State → Outcome Unit × State := fun e st =>
  let dirMode := copyDirMode c
  let fileMode := copyFileMode c
  let body : M Unit := do
    let pre ← if copyInto then dirOf rootPath else M.pure rootPath
    let dstPath := dstOf dstRoot e.path pre
    if !c.follow ∧ e.link then
      let _ ← symlinkAbs dstPath (e.alt.getD [])
    else
      let srcE ← match (← getEntry e.path) with
        | some x => M.pure x
        | none => fail .doesNotExist
      if srcE.dir then
        mkdirM dstPath (some (dirMode.getD srcE.mode))
      else
        let dd ← dirOf dstPath
        if (← getEntry dd).isNone then
          let pm ← match dirMode with
            | some x => M.pure x
            | none => do
              let sd ← dirOf srcE.path
              match (← getEntry sd) with
              | some x => M.pure x.mode
              | none => fail .doesNotExist
          mkdirM dd (some pm)
        let dstE := ({ srcE with path := dstPath }).setMode (fileMode.getD srcE.mode)
        let _ ← add dstE
        if !srcE.link then
          if (← getFile dstPath).isNone then fail .isNotFile
          if !srcE.file then fail .isNotFile
          match (← getFile srcE.path) with
          | some b => setFile dstPath b
          | none => fail .doesNotExist
  body st

/-- `_copy` after argument resolution: one traversal of the snapshot with `copyStep` -/
theorem copyM_resolved {env : Env} {a b : Str} {c : CopyOpts} {s : State} {sk dk : FsPath}
    {rootE0 travRoot : Entry} {snap : Snap}
    (ha : absM env a s = (.ok sk, s)) (hb : absM env b s = (.ok dk, s)) (hne : sk ≠ dk)
    (hsrc : alLookup sk s.entries = some rootE0)
    (hent : entriesOf s (rootE0.doFollow c.follow).path = .ok (travRoot, snap)) :
    copyM env a b c s =
      runIter snap (copyOpts c.follow) noPre travRoot
        (copyStep dk c (isDirP s dk) (rootE0.doFollow c.follow).path) (travFuel snap) {} s := by
  unfold copyM
  rw [bind_ok ha, bind_ok hb]
  simp only [hne, if_false, get_bind_apply, hsrc, mpure_bind, hent, liftO_ok_bind]
  rfl

/-! ### a regular file as the source -/

theorem entriesOf_leaf {s : State} {k : FsPath} {e : Entry} (he : alLookup k s.entries = some e)
    (hf : e.files = none) (hl : e.link = false) :
    entriesOf s k = .ok (e, [(e.path, e)]) := by
  have hfuel : ∃ m, 4 * (s.entries.length + 1) * (s.entries.length + 1) = m + 2 := by
    have h1 : 1 ≤ (s.entries.length + 1) * (s.entries.length + 1) :=
      Nat.mul_pos (Nat.succ_pos _) (Nat.succ_pos _)
    rw [Nat.mul_assoc]
    generalize (s.entries.length + 1) * (s.entries.length + 1) = X at h1
    exact ⟨4 * X - 2, by omega⟩
  obtain ⟨m, hm⟩ := hfuel
  unfold entriesOf cloneEntries
  rw [he, hm]
  simp only [cloneLoop, he, hf, hl, alInsert, List.reverse_nil, List.nil_append]
  have h2 : ∀ acc, cloneLoop s.entries (m + 1) [] acc = .ok acc := fun acc => by rw [cloneLoop]
  cases e.alt <;> simp [h2]

/-- `copyStep` on a regular file whose destination slot is free and whose destination parent is an
    existing real directory: one new entry, one new data record, one more name in the parent -/
theorem copyStep_file_new {dk rootPath pre D : FsPath} {c : CopyOpts} {ci : Bool} {st : State}
    {e pe : Entry} {fs : List Str} {bytes : File.Bytes}
    (hfollow : c.follow = false)
    (hpre : if ci = true then rootPath ≠ [] ∧ pre = rootPath.dropLast else pre = rootPath)
    (hD : dstOf dk e.path pre = D) (hDne : D ≠ [])
    (he : alLookup e.path st.entries = some e)
    (hfile : e.file = true) (hlink : e.link = false) (hdir : e.dir = false)
    (hdata : alLookup e.path st.files = some bytes)
    (hpar : alLookup D.dropLast st.entries = some pe) (hped : pe.dir = true) (hpel : pe.link = false)
    (hpefs : pe.files = some fs) (hfree : alLookup D st.entries = none) (hname : baseName D ∉ fs)
    (hsd : e.path ≠ D) :
    copyStep dk c ci rootPath e st = (.ok (),
      { st with
        entries := alInsert D.dropLast { pe with files := some (insertName (baseName D) fs).2 }
          (alInsert D (({ e with path := D }).setMode ((copyFileMode c).getD e.mode)) st.entries)
        files := alInsert D bytes (alInsert D [] st.files) }) := by
  let dstE : Entry := ({ e with path := D }).setMode ((copyFileMode c).getD e.mode)
  have hadd := add_new (s := st) (e := dstE) (d := pe) (fs := fs) hDne hpar hped hpel hpefs hfree hname
  have hdl : dstE.link = false := hlink
  have hdf : dstE.file = true := hfile
  have hcond : (!dstE.link && dstE.file) = true := by rw [hdl, hdf]; rfl
  rw [if_pos hcond] at hadd
  have hpath : dstE.path = D := rfl
  simp only [hpath] at hadd
  have hne' : D ≠ e.path := fun h => hsd h.symm
  have hlink' : (e.link = true) = False := by simp [hlink]
  have hdir' : (e.dir = true) = False := by simp [hdir]
  have hnl : (!e.link) = true := by simp [hlink]
  have hnf : (!e.file) = false := by simp [hfile]
  unfold copyStep
  cases ci with
  | true =>
    simp only [if_true] at hpre
    obtain ⟨h1, h2⟩ := hpre
    rw [h2] at hD
    simp only [if_true, dirOf_ne_nil h1, mpure_bind, hD, hfollow, hlink', Bool.not_false,
      Bool.false_eq_true, and_false, if_false, getEntry_bind_apply, he, hdir', dirOf_ne_nil hDne, hpar,
      Option.isNone_some]
    rw [bind_ok hadd]
    simp only [getFile_bind_apply, alLookup_alInsert_self, Option.isNone_some, Bool.false_eq_true,
      if_false, hnl, hnf, alLookup_alInsert_ne hne', hdata, setFile_apply, pure_bind', if_true]
    rfl
  | false =>
    simp only [Bool.false_eq_true, if_false] at hpre
    rw [hpre] at hD
    simp only [Bool.false_eq_true, if_false, mpure_bind, hD, hfollow, hlink', Bool.not_false,
      and_false, getEntry_bind_apply, he, hdir', dirOf_ne_nil hDne, hpar,
      Option.isNone_some]
    rw [bind_ok hadd]
    simp only [getFile_bind_apply, alLookup_alInsert_self, Option.isNone_some, Bool.false_eq_true,
      if_false, hnl, hnf, alLookup_alInsert_ne hne', hdata, setFile_apply, pure_bind', if_true]
    rfl

/-- destination root of a copy: `dk/<name>` when `dk` is an existing real directory, else `dk` -/
def copyDst (s : State) (sk dk : FsPath) : FsPath :=
  if isDirP s dk = true then dk ++ [baseName sk] else dk

/-- the state after copying one regular file to a free slot -/
def fileCopied (s : State) (D : FsPath) (c : CopyOpts) (srcE pe : Entry) (fs : List Str)
    (bytes : File.Bytes) : State :=
  { s with
    entries := alInsert D.dropLast { pe with files := some (insertName (baseName D) fs).2 }
      (alInsert D (({ srcE with path := D }).setMode ((copyFileMode c).getD srcE.mode)) s.entries)
    files := alInsert D bytes (alInsert D [] s.files) }

/-- **the single-file case in full** (concrete form) -/
theorem copyM_file {env : Env} {a b : Str} {c : CopyOpts} {s : State} {sk dk : FsPath}
    {srcE pe : Entry} (hi : InvF s) (hk : KeysWf s) (hdk : WfKey dk)
    (ha : absM env a s = (.ok sk, s)) (hb : absM env b s = (.ok dk, s)) (hne : sk ≠ dk)
    (hfollow : c.follow = false)
    (hsrc : alLookup sk s.entries = some srcE) (hfile : srcE.file = true) (hlink : srcE.link = false)
    (hdir : srcE.dir = false)
    (hDne : copyDst s sk dk ≠ [])
    (hfree : alLookup (copyDst s sk dk) s.entries = none)
    (hpar : alLookup (copyDst s sk dk).dropLast s.entries = some pe) (hped : pe.dir = true)
    (hpel : pe.link = false) :
    ∃ fs bytes, pe.files = some fs ∧ alLookup sk s.files = some bytes ∧
      copyM env a b c s = (.ok (), fileCopied s (copyDst s sk dk) c srcE pe fs bytes) := by
  have hskne : sk ≠ [] := by
    intro h; subst h
    obtain ⟨e, he, hed, _⟩ := hi.root
    rw [hsrc] at he; cases he
    rw [hdir] at hed; cases hed
  have hp : srcE.path = sk := hi.path sk srcE hsrc
  have hwsk : WfKey sk := hk.key hsrc
  have hnofiles : srcE.files = none := by
    have := hi.childset sk srcE hsrc
    rw [hdir] at this
    cases hf : srcE.files with
    | none => rfl
    | some x => rw [hf] at this; cases this
  obtain ⟨fs, hfs⟩ : ∃ fs, pe.files = some fs := by
    have := hi.childset _ pe hpar
    rw [hped] at this
    cases hf : pe.files with
    | none => rw [hf] at this; cases this
    | some x => exact ⟨x, rfl⟩
  obtain ⟨bytes, hbytes⟩ : ∃ bytes, alLookup sk s.files = some bytes := by
    have := hi.data sk srcE hsrc
    rw [hfile, hlink] at this
    cases hf : alLookup sk s.files with
    | none => rw [hf] at this; cases this
    | some x => exact ⟨x, rfl⟩
  refine ⟨fs, bytes, hfs, hbytes, ?_⟩
  have hent : entriesOf s (srcE.doFollow c.follow).path = .ok (srcE, [(sk, srcE)]) := by
    rw [hfollow, doFollow_false, hp]
    have := entriesOf_leaf hsrc hnofiles hlink
    rw [hp] at this; exact this
  rw [copyM_resolved ha hb hne hsrc hent, hfollow, doFollow_false, hp]
  have hfuel : travFuel [(sk, srcE)] = 574 + 2 := by simp [travFuel]
  rw [hfuel, runIter_single _ _ hdir]
  -- the destination key as the code computes it
  have hD : dstOf dk srcE.path (if isDirP s dk = true then sk.dropLast else sk) = copyDst s sk dk := by
    rw [hp]
    unfold copyDst
    cases isDirP s dk with
    | false => simp only [Bool.false_eq_true, if_false]; exact dstOf_self hdk
    | true =>
      simp only [if_true]
      have h1 : sk = sk.dropLast ++ [baseName sk] := (dropLast_append_baseName hskne).symm
      have h2 : WfKey [baseName sk] := by
        intro n hn; simp at hn; subst hn; exact hwsk _ (baseName_mem hskne)
      conv => lhs; arg 2; rw [h1]
      exact dstOf_append hdk h2
  have hname : baseName (copyDst s sk dk) ∉ fs := by
    intro hmem
    obtain ⟨x, hx⟩ := hi.child _ pe fs _ hpar hfs hmem
    rw [dropLast_append_baseName hDne, hfree] at hx
    cases hx
  have hsd : srcE.path ≠ copyDst s sk dk := by
    rw [hp]; intro h; rw [← h, hsrc] at hfree; cases hfree
  have hstep := copyStep_file_new (dk := dk) (rootPath := sk) (c := c) (ci := isDirP s dk) (st := s)
    (e := srcE) (pe := pe) (fs := fs) (bytes := bytes) hfollow
    (pre := if isDirP s dk = true then sk.dropLast else sk)
    (by cases isDirP s dk <;> simp [hskne]) hD hDne (by rw [hp]; exact hsrc) hfile hlink hdir
    (by rw [hp]; exact hbytes) hpar hped hpel hfs hfree hname hsd
  rw [hstep]
  rfl

theorem or_sub_typebit {x : Nat} (h : x < 0o100000) : (x ||| 0o100000) - 0o100000 = x := by
  have h1 : (0o100000 : Nat) = 2 ^ 15 * 1 := by decide
  have h2 := Nat.two_pow_add_eq_or_of_lt (i := 15) (b := x) (by simpa using h) 1
  rw [Nat.or_comm, h1, ← h2]
  omega

/-- the abstract node of the new file -/
def copiedFileNode (c : CopyOpts) (srcE : Entry) (bytes : File.Bytes) : Node :=
  { kind := .file, perm := ((copyFileMode c).getD srcE.mode) &&& 0o7777,
    uid := srcE.uid, gid := srcE.gid, target := none, data := bytes }

/-- **the single-file case, abstractly**: exactly one node is new, everything else is as before -/
theorem nodeAt_fileCopied {s : State} {D : FsPath} {c : CopyOpts} {srcE pe : Entry} {fs : List Str}
    {bytes : File.Bytes} (hDne : D ≠ []) (hpar : alLookup D.dropLast s.entries = some pe)
    (hfile : srcE.file = true) (hlink : srcE.link = false) (hdir : srcE.dir = false) (k : FsPath) :
    nodeAt (fileCopied s D c srcE pe fs bytes) k =
      if D = k then some (copiedFileNode c srcE bytes) else nodeAt s k := by
  have hdd : D.dropLast ≠ D := dropLast_ne_self hDne
  unfold nodeAt fileCopied
  simp only [alLookup_alInsert]
  by_cases hk : D = k
  · subst hk
    rw [if_neg hdd, if_pos rfl, if_pos rfl]
    simp only [Option.map_some, absNode, kindOf, Entry.setMode, ModeBits.optsMode_some, hlink, hfile,
      hdir, alLookup_alInsert_self, copiedFileNode, Bool.false_eq_true, if_false, if_true, typeBits,
      Option.getD_some,
      or_sub_typebit (Nat.lt_trans (ModeBits.and_perm_lt _) (by decide : 0o10000 < 0o100000))]
  · simp only [if_neg hk]
    by_cases hk2 : D.dropLast = k
    · subst hk2
      simp only [if_true, hpar, Option.map_some]
      refine congrArg some (absNode_eq_of rfl rfl rfl rfl rfl rfl ?_)
      simp only [alLookup_alInsert, if_neg hk]
    · simp only [if_neg hk2]
      cases alLookup k s.entries with
      | none => rfl
      | some e =>
        refine congrArg some (absNode_eq_of rfl rfl rfl rfl rfl rfl ?_)
        simp only [alLookup_alInsert, if_neg hk]

/-! ### the reference copy of a single file -/

theorem filter_unique {β : Type} {l : List (FsPath × β)} (hn : (l.map (·.1)).Nodup) {k : FsPath} {v : β}
    (hk : alLookup k l = some v) (p : FsPath → Bool) (hp : p k = true)
    (huniq : ∀ k' v', alLookup k' l = some v' → p k' = true → k' = k) :
    l.filter (fun kv => p kv.1) = [(k, v)] := by
  induction l with
  | nil => simp [alLookup] at hk
  | cons x r ih =>
    obtain ⟨k1, v1⟩ := x
    simp only [List.map_cons, List.nodup_cons] at hn
    have hlift : ∀ k' v', alLookup k' r = some v' → alLookup k' ((k1, v1) :: r) = some v' := by
      intro k' v' h
      have hne : k1 ≠ k' := by
        intro e; subst e
        exact hn.1 (alLookup_isSome_iff_mem_keys.1 (by rw [h]; rfl))
      simp only [alLookup, hne, if_false]; exact h
    by_cases h1 : k1 = k
    · subst h1
      have hv : v1 = v := by simpa [alLookup] using hk
      subst hv
      simp only [List.filter_cons, hp, if_true]
      congr 1
      rw [List.filter_eq_nil_iff]
      intro kv hkv hpkv
      have hl := alLookup_of_mem hn.2 (show (kv.1, kv.2) ∈ r from hkv)
      have := huniq kv.1 kv.2 (hlift _ _ hl) hpkv
      exact hn.1 (this ▸ List.mem_map.2 ⟨kv, hkv, rfl⟩)
    · have hk' : alLookup k r = some v := by simpa [alLookup, h1] using hk
      have hp1 : p k1 = false := by
        cases h : p k1 with
        | false => rfl
        | true => exact absurd (huniq k1 v1 (by simp [alLookup]) h) h1
      simp only [List.filter_cons, hp1, Bool.false_eq_true, if_false]
      exact ih hn.2 hk' (fun k' v' h hp' => huniq k' v' (hlift _ _ h) hp')

theorem prefixes_dropLast (p : FsPath) :
    (prefixes p).dropLast = (List.range p.length).map (fun n => p.take n) := by
  unfold prefixes
  rw [List.range_succ, List.map_append]
  exact List.dropLast_concat

theorem proper_prefix_of_mem {p q : FsPath} (h : q ∈ (prefixes p).dropLast) :
    ∃ c, p.dropLast = q ++ c := by
  rw [prefixes_dropLast, List.mem_map] at h
  obtain ⟨i, hi, rfl⟩ := h
  rw [List.mem_range] at hi
  refine ⟨p.dropLast.drop i, ?_⟩
  have h1 : p.dropLast = p.take (p.length - 1) := List.dropLast_eq_take
  have h2 : p.take i = p.dropLast.take i := by
    rw [h1, List.take_take]
    congr 1
    omega
  rw [h2, List.take_append_drop]

/-- all proper ancestors of a key whose parent is an existing real directory are real directories -/
theorem ancestors_are_dirs {s : State} (hi : InvF s) {D : FsPath} {pe : Entry}
    (hpar : alLookup D.dropLast s.entries = some pe) (hped : pe.dir = true) (hpel : pe.link = false) :
    ∀ q ∈ (prefixes D).dropLast, ∃ x, alLookup q s.entries = some x ∧ x.dir = true ∧ x.link = false := by
  intro q hq
  obtain ⟨c, hc⟩ := proper_prefix_of_mem hq
  by_cases hc0 : c = []
  · subst hc0
    rw [List.append_nil] at hc
    exact ⟨pe, by rw [← hc]; exact hpar, hped, hpel⟩
  · rw [hc] at hpar
    exact ancestor_is_dir hi c q pe hpar hc0

theorem mkAncestors_noop (perm : Nat) (t : T) :
    ∀ anc : List FsPath, (∀ q ∈ anc, ∃ n, TreeFs.get t q = some n) → mkAncestors perm anc t = t := by
  intro anc
  induction anc with
  | nil => intro _; rfl
  | cons q r ih =>
    intro h
    obtain ⟨n, hn⟩ := h q (by simp)
    unfold mkAncestors
    simp only [List.foldl_cons, hn]
    exact ih (fun q' hq' => h q' (List.mem_cons_of_mem _ hq'))

theorem get_put (t : T) (p : FsPath) (n : Node) (k : FsPath) :
    TreeFs.get (put t p n) k = if p = k then some n else TreeFs.get t k := by
  unfold TreeFs.get put
  exact alLookup_alInsert k p n t.nodes

/-- the reference copy of a regular file onto a free slot whose parent is an existing directory:
    one new node, a copy of the source node up to the perm rule -/
theorem copySpec_file {s : State} {sk dk : FsPath} {srcE pe : Entry} (hi : InvF s)
    (hsrc : alLookup sk s.entries = some srcE) (hlink : srcE.link = false) (hdir : srcE.dir = false)
    (hne : sk ≠ dk) (hDne : copyDst s sk dk ≠ [])
    (hfree : alLookup (copyDst s sk dk) s.entries = none)
    (hpar : alLookup (copyDst s sk dk).dropLast s.entries = some pe) (hped : pe.dir = true)
    (hpel : pe.link = false) (mode : Option Nat) (cdirs cfiles : Bool) :
    copySpec (absS s) sk dk mode cdirs cfiles =
      (.ok (), put (absS s) (copyDst s sk dk)
        { absNode s sk srcE with
          perm := (filePerm mode cdirs cfiles).getD (absNode s sk srcE).perm }) := by
  have hskne : sk ≠ [] := by
    intro h; subst h
    obtain ⟨e, he, hed, _⟩ := hi.root
    rw [hsrc] at he; cases he
    rw [hdir] at hed; cases hed
  have hget : TreeFs.get (absS s) sk = some (absNode s sk srcE) := by
    rw [get_absS]; unfold nodeAt; rw [hsrc]; rfl
  have hroot : (if isDir (absS s) dk = true then dk ++ [baseName sk] else dk) = copyDst s sk dk := by
    rw [isDir_absS]; rfl
  generalize hDdef : copyDst s sk dk = D at *
  -- nothing lives below a non-directory
  have hleaf : ∀ r, r ≠ [] → alLookup (sk ++ r) s.entries = none :=
    fun r hr => nothing_below hi (Or.inr ⟨srcE, hsrc, hdir⟩) hr
  -- source and destination do not overlap
  have hinc1 : isPrefixOrEq sk D = false := by
    rw [isPrefixOrEq_false_iff]
    intro c hc
    by_cases hc0 : c = []
    · subst hc0; rw [List.append_nil] at hc; rw [hc, hsrc] at hfree; cases hfree
    · have hdl : D.dropLast = sk ++ c.dropLast := by rw [hc, List.dropLast_append_of_ne_nil hc0]
      rw [hdl] at hpar
      by_cases hc1 : c.dropLast = []
      · rw [hc1, List.append_nil, hsrc] at hpar
        cases hpar; rw [hdir] at hped; cases hped
      · rw [hleaf _ hc1] at hpar; cases hpar
  have hinc2 : isPrefixOrEq D sk = false := by
    rw [isPrefixOrEq_false_iff]
    intro c hc
    by_cases hc0 : c = []
    · subst hc0; rw [List.append_nil] at hc; rw [← hc, hsrc] at hfree; cases hfree
    · rw [hc] at hsrc
      obtain ⟨x, hx, _⟩ := ancestor_is_dir hi c D srcE hsrc hc0
      rw [hfree] at hx; cases hx
  -- the source subtree is the source node alone
  have hsub : (absS s).nodes.filter (fun kv => isPrefixOrEq sk kv.1) = [(sk, absNode s sk srcE)] := by
    refine filter_unique ?_ hget (fun k => isPrefixOrEq sk k) (isPrefixOrEq_append sk [] ▸ by simp) ?_
    · show ((s.entries.map (fun kv => (kv.1, absNode s kv.1 kv.2))).map (·.1)).Nodup
      rw [List.map_map]
      exact hi.nodup
    · intro k' v' hk' hp'
      obtain ⟨r, rfl⟩ := (isPrefixOrEq_iff _ _).1 hp'
      by_cases hr : r = []
      · subst hr; simp
      · have : TreeFs.get (absS s) (sk ++ r) = some v' := hk'
        rw [get_absS] at this
        unfold nodeAt at this
        rw [hleaf r hr] at this
        cases this
  have hgetD : TreeFs.get (absS s) D = none := by
    rw [get_absS]; unfold nodeAt; rw [hfree]; rfl
  have hkind : (absNode s sk srcE).kind = Kind.file := (kindOf_file_iff srcE).2 ⟨hdir, hlink⟩
  have hanc := ancestors_are_dirs hi hpar hped hpel
  have hancget : ∀ q ∈ (prefixes D).dropLast, ∃ n, TreeFs.get (absS s) q = some n ∧ n.kind = Kind.dir := by
    intro q hq
    obtain ⟨x, hx, hxd, hxl⟩ := hanc q hq
    refine ⟨absNode s q x, ?_, (kindOf_dir_iff x).2 ⟨hxd, hxl⟩⟩
    rw [get_absS]; unfold nodeAt; rw [hx]; rfl
  unfold copySpec
  simp only [hne, if_false, hget, hskne, hroot, hinc1, hinc2, Bool.or_self, Bool.false_eq_true, hsub,
    List.map_cons, List.map_nil, List.drop_length, List.append_nil, hgetD]
  have hone : copyOne (dirPerm mode cdirs cfiles) (filePerm mode cdirs cfiles) (absNode s sk srcE) none =
      .ok { absNode s sk srcE with perm := (filePerm mode cdirs cfiles).getD (absNode s sk srcE).perm } := by
    unfold copyOne
    simp only [hkind]
  simp only [hone, List.any_cons, List.any_nil, R.isUnspecified, R.isErr, Bool.or_self,
    Bool.false_eq_true, if_false]
  rw [mkAncestors_noop _ _ _ (fun q hq => by obtain ⟨n, hn, _⟩ := hancget q hq; exact ⟨n, hn⟩)]
  rw [if_neg]
  · rfl
  · intro h
    rw [List.any_eq_true] at h
    obtain ⟨q, hq, hq2⟩ := h
    obtain ⟨n, hn, hk⟩ := hancget q hq
    simp [hn, hk] at hq2

theorem copyFileMode_eq (c : CopyOpts) : copyFileMode c = filePerm c.mode c.cdirs c.cfiles := by
  unfold copyFileMode filePerm
  cases c.mode <;> cases c.cfiles <;> cases c.cdirs <;> simp

theorem copyDirMode_eq (c : CopyOpts) : copyDirMode c = dirPerm c.mode c.cdirs c.cfiles := by
  unfold copyDirMode dirPerm
  cases c.mode <;> cases c.cfiles <;> cases c.cdirs <;> simp


/-- a stored mode in canonical form (permission bits plus the type bits `T`): its permission part -/
theorem canon_sub {m T : Nat} (hT : ∀ x, x < 0o10000 → (x ||| T) - T = x)
    (hmode : (m &&& 0o7777) ||| T = m) : m - T = m &&& 0o7777 := by
  have := hT _ (ModeBits.and_perm_lt m)
  rw [hmode] at this
  exact this

/-- the permission bits `set_mode`/`mkdir_m` keep of the given-or-source mode are the reference's
    given-or-source permission (source mode canonical, given mode a permission value) -/
theorem getD_perm_eq' {m T : Nat} (o : Option Nat) (hT : ∀ x, x < 0o10000 → (x ||| T) - T = x)
    (hmode : (m &&& 0o7777) ||| T = m)
    (hperm : ∀ x, o = some x → x < 0o10000) :
    o.getD m &&& 0o7777 = o.getD (m - T) := by
  cases o with
  | none =>
    show m &&& 0o7777 = m - T
    exact (canon_sub hT hmode).symm
  | some x =>
    show x &&& 0o7777 = x
    exact ModeBits.and_perm_of_lt x (hperm x rfl)

theorem getD_perm_eq {m : Nat} (o : Option Nat) (hmode : (m &&& 0o7777) ||| 0o100000 = m)
    (hperm : ∀ x, o = some x → x < 0o10000) :
    o.getD m &&& 0o7777 = o.getD (m - 0o100000) :=
  getD_perm_eq' o (fun _ hx => or_sub_typebit (Nat.lt_trans hx (by decide))) hmode hperm

theorem typeBits_file : typeBits Kind.file = 0o100000 := rfl

/-- the new abstract node is the reference's copy of the source node.  `hmode`: the source mode is
    canonical (permission bits plus the file type bit — what every `optsMode` result is); `hperm`: a
    given mode is a permission value (the reference stores it uninterpreted, Memfs masks it) -/
theorem copiedFileNode_eq {s : State} {sk : FsPath} {c : CopyOpts} {srcE : Entry} {bytes : File.Bytes}
    (hlink : srcE.link = false) (hdir : srcE.dir = false)
    (hbytes : alLookup sk s.files = some bytes)
    (hmode : (srcE.mode &&& 0o7777) ||| 0o100000 = srcE.mode)
    (hperm : ∀ x, c.mode = some x → x < 0o10000) :
    copiedFileNode c srcE bytes =
      { absNode s sk srcE with
        perm := (filePerm c.mode c.cdirs c.cfiles).getD (absNode s sk srcE).perm } := by
  have hk : kindOf srcE = Kind.file := (kindOf_file_iff srcE).2 ⟨hdir, hlink⟩
  have hp := getD_perm_eq (m := srcE.mode) (copyFileMode c) hmode (by
    intro x hx
    apply hperm
    rw [copyFileMode_eq] at hx
    unfold filePerm at hx
    split at hx
    · exact hx
    · cases hx)
  unfold copiedFileNode absNode
  rw [hk, typeBits_file, hp, copyFileMode_eq, hlink, hbytes]
  rfl

/-- **the single-file case against the reference**: the copy succeeds, so does the reference copy,
    and the abstraction of the post-state is the reference's post-state -/
theorem copy_file_refines {env : Env} {a b : Str} {c : CopyOpts} {s : State} {sk dk : FsPath}
    {srcE pe : Entry} (hi : InvF s) (hk : KeysWf s) (hdk : WfKey dk)
    (ha : absM env a s = (.ok sk, s)) (hb : absM env b s = (.ok dk, s)) (hne : sk ≠ dk)
    (hfollow : c.follow = false)
    (hsrc : alLookup sk s.entries = some srcE) (hfile : srcE.file = true) (hlink : srcE.link = false)
    (hdir : srcE.dir = false)
    (hDne : copyDst s sk dk ≠ [])
    (hfree : alLookup (copyDst s sk dk) s.entries = none)
    (hpar : alLookup (copyDst s sk dk).dropLast s.entries = some pe) (hped : pe.dir = true)
    (hpel : pe.link = false)
    (hmode : (srcE.mode &&& 0o7777) ||| 0o100000 = srcE.mode)
    (hperm : ∀ x, c.mode = some x → x < 0o10000) :
    ∃ s', copyM env a b c s = (.ok (), s') ∧
      (copySpec (absS s) sk dk c.mode c.cdirs c.cfiles).1 = .ok () ∧
      TEquiv (absS s') (copySpec (absS s) sk dk c.mode c.cdirs c.cfiles).2 := by
  obtain ⟨fs, bytes, hfs, hbytes, hrun⟩ :=
    copyM_file (c := c) hi hk hdk ha hb hne hfollow hsrc hfile hlink hdir hDne hfree hpar hped hpel
  refine ⟨_, hrun, ?_, ?_⟩
  · rw [copySpec_file hi hsrc hlink hdir hne hDne hfree hpar hped hpel]
  · rw [copySpec_file hi hsrc hlink hdir hne hDne hfree hpar hped hpel]
    refine ⟨rfl, ?_⟩
    intro k
    rw [get_absS, nodeAt_fileCopied hDne hpar hfile hlink hdir, get_put, get_absS,
      copiedFileNode_eq (s := s) (sk := sk) hlink hdir hbytes hmode hperm]

/-! ### frame calculus: which keys an operation can touch -/

/-- `m` changes the entry map and the data map only at keys satisfying `C`, and never the cwd -/
def Frame {α : Type} (C : FsPath → Prop) (m : M α) : Prop :=
  ∀ st, (∀ k, ¬ C k → alLookup k (m st).2.entries = alLookup k st.entries ∧
                       alLookup k (m st).2.files = alLookup k st.files) ∧ (m st).2.cwd = st.cwd

section
variable {α β : Type} {C : FsPath → Prop}

theorem frame_of_state_eq {m : M α} (h : ∀ st, (m st).2 = st) : Frame C m := by
  intro st; rw [h st]; exact ⟨fun _ _ => ⟨rfl, rfl⟩, rfl⟩

theorem frame_pure (a : α) : Frame C (Pure.pure a : M α) := frame_of_state_eq (fun _ => rfl)
theorem frame_mpure (a : α) : Frame C (M.pure a : M α) := frame_of_state_eq (fun _ => rfl)
theorem frame_fail (k : ErrKind) : Frame C (M.fail k : M α) := frame_of_state_eq (fun _ => rfl)
theorem frame_liftO (o : Outcome α) : Frame C (M.liftO o) := frame_of_state_eq (fun _ => rfl)
theorem frame_getEntry (p : FsPath) : Frame C (getEntry p) := frame_of_state_eq (fun _ => rfl)
theorem frame_getFile (p : FsPath) : Frame C (getFile p) := frame_of_state_eq (fun _ => rfl)
theorem frame_dirOf (p : FsPath) : Frame C (dirOf p) := by
  unfold dirOf; split
  · exact frame_fail _
  · exact frame_mpure _

theorem frame_setEntry {p : FsPath} (hp : C p) (e : Entry) : Frame C (setEntry p e) := by
  intro st
  refine ⟨fun k hk => ⟨?_, rfl⟩, rfl⟩
  show alLookup k (alInsert p e st.entries) = _
  exact alLookup_alInsert_ne (fun h => hk (by rw [← h]; exact hp)) _ _

theorem frame_setFile {p : FsPath} (hp : C p) (b : File.Bytes) : Frame C (setFile p b) := by
  intro st
  refine ⟨fun k hk => ⟨rfl, ?_⟩, rfl⟩
  show alLookup k (alInsert p b st.files) = _
  exact alLookup_alInsert_ne (fun h => hk (by rw [← h]; exact hp)) _ _

theorem frame_bind {m : M α} {f : α → M β} (hm : Frame C m) (hf : ∀ a, Frame C (f a)) :
    Frame C (m >>= f) := by
  intro st
  rw [bind_apply]
  have h1 := hm st
  cases hr : m st with
  | mk r s' =>
    rw [hr] at h1
    cases r with
    | ok a =>
      have h2 := hf a s'
      refine ⟨fun k hk => ?_, h2.2.trans h1.2⟩
      exact ⟨((h2.1 k hk).1).trans (h1.1 k hk).1, ((h2.1 k hk).2).trans (h1.1 k hk).2⟩
    | err k => exact h1
    | panic => exact h1
    | hang => exact h1

theorem frame_forM {γ : Type} (l : List γ) (f : γ → M PUnit) (h : ∀ a ∈ l, Frame C (f a)) :
    Frame C (l.forM f) := by
  induction l with
  | nil => exact frame_pure _
  | cons a r ih =>
    show Frame C (f a >>= fun _ => r.forM f)
    exact frame_bind (h a (by simp)) (fun _ => ih (fun b hb => h b (List.mem_cons_of_mem _ hb)))

end

macro "frame_step" : tactic => `(tactic| first
  | exact frame_pure _ | exact frame_mpure _ | exact frame_fail _ | exact frame_liftO _
  | exact frame_getEntry _ | exact frame_getFile _ | exact frame_dirOf _
  | (apply frame_setEntry; assumption) | (apply frame_setFile; assumption)
  | (refine frame_bind ?_ (fun _ => ?_))
  | split)

/-- `_add` touches the new key and its parent only -/
theorem frame_add {C : FsPath → Prop} (e : Entry) (h1 : C e.path) (h2 : C e.path.dropLast) :
    Frame C (add e) := by
  unfold add
  simp only []
  repeat frame_step

theorem frame_mkdirM {C : FsPath → Prop} (p : FsPath) (mode : Option Nat)
    (h : ∀ q ∈ prefixes p, C q ∧ C q.dropLast) : Frame C (mkdirM p mode) := by
  unfold mkdirM
  apply frame_forM
  intro q hq
  have h1 : C (mkDirEntry q mode).path := (h q hq).1
  have h2 : C (mkDirEntry q mode).path.dropLast := (h q hq).2
  exact frame_bind (frame_add _ h1 h2) (fun _ => frame_pure _)

theorem frame_symlinkAbs {C : FsPath → Prop} (l t : FsPath) (h1 : C l) (h2 : C l.dropLast) :
    Frame C (symlinkAbs l t) := by
  unfold symlinkAbs
  refine frame_bind (frame_getEntry _) (fun o => ?_)
  split
  · exact frame_fail _
  · refine frame_bind (frame_dirOf _) (fun ldir => ?_)
    refine frame_bind (frame_getEntry _) (fun o2 => ?_)
    exact frame_bind (frame_add _ h1 h2) (fun _ => frame_pure _)

/-- `k` is an ancestor of `D`, `D` itself, or below `D` -/
def Cmp (D k : FsPath) : Prop := k <+: D ∨ D <+: k

theorem cmp_ext (D r : FsPath) : Cmp D (D ++ r) := Or.inr (List.prefix_append _ _)

theorem cmp_dropLast {D k : FsPath} (h : Cmp D k) : Cmp D k.dropLast := by
  rcases h with h | ⟨r, rfl⟩
  · exact Or.inl ((List.dropLast_prefix k).trans h)
  · by_cases hr : r = []
    · subst hr; rw [List.append_nil]; exact Or.inl (List.dropLast_prefix D)
    · rw [List.dropLast_append_of_ne_nil hr]; exact cmp_ext _ _

theorem cmp_prefix {D r q : FsPath} (h : q <+: D ++ r) : Cmp D q := by
  rcases List.prefix_or_prefix_of_prefix h (List.prefix_append D r) with h | h
  · exact Or.inl h
  · exact Or.inr h

theorem mem_prefixes {p q : FsPath} (h : q ∈ prefixes p) : q <+: p := by
  unfold prefixes at h
  rw [List.mem_map] at h
  obtain ⟨n, _, rfl⟩ := h
  exact List.take_prefix _ _

theorem cmp_prefixes {D p : FsPath} (hp : Cmp D p) :
    ∀ q ∈ prefixes p, Cmp D q ∧ Cmp D q.dropLast := by
  intro q hq
  have hqp := mem_prefixes hq
  have : Cmp D q := by
    rcases hp with hp | ⟨r, rfl⟩
    · exact Or.inl (hqp.trans hp)
    · exact cmp_prefix hqp
  exact ⟨this, cmp_dropLast this⟩

macro "frame_step'" : tactic => `(tactic| first
  | exact frame_pure _ | exact frame_mpure _ | exact frame_fail _ | exact frame_liftO _
  | exact frame_getEntry _ | exact frame_getFile _ | exact frame_dirOf _
  | (apply frame_setEntry; assumption) | (apply frame_setFile; assumption)
  | (apply frame_mkdirM; assumption)
  | (apply frame_symlinkAbs <;> assumption)
  | (apply frame_add <;> assumption)
  | (refine frame_bind ?_ (fun _ => ?_))
  | split)

theorem frame_dirOf_bind {β : Type} {C : FsPath → Prop} {p : FsPath} {f : FsPath → M β}
    (h : p ≠ [] → Frame C (f p.dropLast)) : Frame C (dirOf p >>= f) := by
  by_cases hp : p = []
  · subst hp; rw [dirOf_nil, fail_bind]; exact frame_fail _
  · rw [dirOf_ne_nil hp, mpure_bind]; exact h hp

/-- the per-entry body of `_copy` touches only keys comparable with the destination root -/
theorem frame_copyStep {dk rootPath D : FsPath} {c : CopyOpts} {ci : Bool} (e : Entry)
    (hD : ∀ pre, (if ci = true then rootPath ≠ [] ∧ pre = rootPath.dropLast else pre = rootPath) →
      ∃ r, dstOf dk e.path pre = D ++ r) :
    Frame (Cmp D) (copyStep dk c ci rootPath e) := by
  unfold copyStep
  extract_lets dm fm d body
  clear_value dm fm
  have key : ∀ pre, (∃ r, dstOf dk e.path pre = D ++ r) → Frame (Cmp D) (d pre) := by
    intro pre ⟨r, hr⟩
    simp -zeta only [d]
    extract_lets dstPath jp1
    have hdp : dstPath = D ++ r := hr
    have h1 : Cmp D dstPath := hdp ▸ cmp_ext D r
    have h2 : Cmp D dstPath.dropLast := cmp_dropLast h1
    have h3 := cmp_prefixes h1
    have h4 := cmp_prefixes h2
    split
    · exact frame_bind (frame_symlinkAbs _ _ h1 h2) (fun _ => frame_pure _)
    · refine frame_bind (frame_getEntry _) (fun lift => ?_)
      have hjp1 : ∀ srcE, Frame (Cmp D) (jp1 srcE) := by
        intro srcE
        simp -zeta only [jp1]
        split
        · exact frame_mkdirM _ _ h3
        · refine frame_dirOf_bind (fun _ => ?_)
          refine frame_bind (frame_getEntry _) (fun lift2 => ?_)
          extract_lets dstE jpA jpB jpC jpD
          have hA : ∀ u, Frame (Cmp D) (jpA u) := by
            intro u
            simp -zeta only [jpA]
            refine frame_bind (frame_getFile _) (fun lift4 => ?_)
            split
            · exact frame_setFile h1 _
            · exact frame_fail _
          have hB : ∀ u, Frame (Cmp D) (jpB u) := by
            intro u
            simp -zeta only [jpB]
            split
            · exact frame_bind (frame_fail _) (fun r => hA r)
            · exact hA ()
          have hC : ∀ u, Frame (Cmp D) (jpC u) := by
            intro u
            simp -zeta only [jpC]
            refine frame_bind (frame_add dstE h1 h2) (fun _ => ?_)
            split
            · refine frame_bind (frame_getFile _) (fun lift3 => ?_)
              split
              · exact frame_bind (frame_fail _) (fun r => hB r)
              · exact hB ()
            · exact frame_pure _
          have hD' : ∀ pm, Frame (Cmp D) (jpD pm) := by
            intro pm
            simp -zeta only [jpD]
            exact frame_bind (frame_mkdirM _ _ h4) (fun r => hC r)
          split
          · split
            · exact frame_bind (frame_mpure _) (fun pm => hD' pm)
            · refine frame_bind (frame_dirOf _) (fun sd => ?_)
              refine frame_bind (frame_getEntry _) (fun lift5 => ?_)
              split
              · exact frame_bind (frame_mpure _) (fun pm => hD' pm)
              · exact frame_bind (frame_fail _) (fun pm => hD' pm)
          · exact hC ()
      split
      · exact frame_bind (frame_mpure _) (fun x => hjp1 x)
      · exact frame_bind (frame_fail _) (fun x => hjp1 x)
  show Frame (Cmp D) body
  simp -zeta only [body]
  cases ci with
  | true =>
    simp only [if_true]
    by_cases hr : rootPath = []
    · subst hr
      rw [dirOf_nil, fail_bind]
      exact frame_fail _
    · rw [dirOf_ne_nil hr, mpure_bind]
      exact key _ (hD _ (by simp [hr]))
  | false =>
    simp only [Bool.false_eq_true, if_false, mpure_bind]
    exact key _ (hD _ (by simp))

end Rivia.Lemmas
