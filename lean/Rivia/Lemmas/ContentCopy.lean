/-
  Rivia.Lemmas.ContentCopy — `copy` / `move_p` of a single regular file onto a fresh path, reduced to
  the file branch of the loop body (`copyFileAt`) and analysed with the content lemmas.
-/
import Rivia.Lemmas.Content
import Rivia.Lemmas.MovedEntry
import Rivia.Lemmas.Relative
import Rivia.Lemmas.Components

namespace Rivia.Lemmas
open Rivia Rivia.Memfs Rivia.File Rivia.Memfs.M

/-! ### the traversal of a one-entry snapshot -/

theorem cloneLoop_nil (ents : List (FsPath × Entry)) (f : Nat) (acc : Snap) :
    cloneLoop ents f [] acc = .ok acc := by
  cases f <;> rfl

theorem cloneEntries_file {s : State} {k : FsPath} {e : Entry} (he : alLookup k s.entries = some e)
    (hl : e.link = false) (hfs : e.files = none) :
    cloneEntries s k = .ok [(e.path, e)] := by
  unfold cloneEntries
  have : ∃ f, 4 * (s.entries.length + 1) * (s.entries.length + 1) = f + 1 := by
    refine ⟨4 * (s.entries.length + 1) * (s.entries.length + 1) - 1, ?_⟩
    have : 0 < 4 * (s.entries.length + 1) * (s.entries.length + 1) :=
      Nat.mul_pos (Nat.mul_pos (by decide) (Nat.succ_pos _)) (Nat.succ_pos _)
    omega
  obtain ⟨f, hf⟩ := this
  rw [hf]
  simp only [cloneLoop, he, hfs, hl]
  cases e.alt <;> simp [cloneLoop_nil, alInsert]

theorem entriesOf_file {s : State} {k : FsPath} {e : Entry} (he : alLookup k s.entries = some e)
    (hl : e.link = false) (hfs : e.files = none) :
    entriesOf s k = .ok (e, [(e.path, e)]) := by
  unfold entriesOf
  rw [he]
  simp only [cloneEntries_file he hl hfs]

/-- traversal of a single non-directory root with the default options: the consumer sees exactly
    the root -/
theorem runIter_single {σ} (snap : Snap) (e : Entry) (hd : e.dir = false)
    (stp : Entry → σ → Outcome Unit × σ) (f : Nat) (w : σ) :
    runIter snap {} noPre e stp (f + 2) {} w = stp e w := by
  have hdf : e.doFollow false = e := by simp [Entry.doFollow]
  have hp : process snap {} (noPre (σ := σ)) { started := true } e w = (some (.ok e), { started := true }, w) := by
    simp [process, hd]
  simp only [runIter, nextE, hdf, hp]
  simp only [Bool.not_false, if_true]
  split
  · rename_i w' h
    simp [h, nextLoop]
  · rfl

/-- the file branch of the `_copy` loop body, for source entry `e` stored under `sk` and
    destination key `dk` -/
def copyFileAt (sk dk : FsPath) (e : Entry) : M Unit := do
  let _ ← add (({ e with path := dk } : Entry).setMode e.mode)
  if (← getFile dk).isNone then fail .isNotFile
  match (← getFile sk) with
  | some b => setFile dk b
  | none => fail .doesNotExist

theorem travFuel_single (x : FsPath × Entry) : travFuel [x] = 574 + 2 := by simp [travFuel]

theorem copyM_file {env : Env} {src dst : Str} {s : State} {sk dk : FsPath} {e pd : Entry}
    (hsrc : absM env src s = (.ok sk, s)) (hdst : absM env dst s = (.ok dk, s))
    (hne : sk ≠ dk)
    (he : alLookup sk s.entries = some e) (hpath : e.path = sk)
    (hf : e.file = true) (hl : e.link = false) (hd : e.dir = false) (hfs : e.files = none)
    (hisdir : isDirP s dk = false) (hdk0 : dk ≠ [])
    (hpar : alLookup dk.dropLast s.entries = some pd)
    (hdstOf : dstOf dk sk sk = dk) :
    copyM env src dst {} s = copyFileAt sk dk e s := by
  have hdf : e.doFollow false = e := by simp [Entry.doFollow]
  have hents : entriesOf s sk = .ok (e, [(sk, e)]) := by
    rw [entriesOf_file he hl hfs, hpath]
  unfold copyM
  rw [bind_ok hsrc]
  simp only []
  rw [bind_ok hdst]
  simp only [hne, if_false, get_bind, he, mpure_bind_apply, hdf, hpath, hents, liftO_ok_bind,
    travFuel_single, runIter_single _ _ hd, hisdir, Bool.false_eq_true]
  simp only [Bool.not_false, hl, Bool.false_eq_true, and_false, if_false, getEntry_bind, he,
    mpure_bind_apply, hd, hdstOf, dirOf, hdk0, hpar, Option.isNone_some, Option.getD_none,
    Bool.not_true, hf, hpath, copyFileAt, if_true]
  rfl

/-- the entry `_copy` adds at the destination -/
def dstEntry (e : Entry) (dk : FsPath) : Entry := ({ e with path := dk } : Entry).setMode e.mode

theorem copyFileAt_def (sk dk : FsPath) (e : Entry) :
    copyFileAt sk dk e = (do
      let _ ← add (dstEntry e dk)
      if (← getFile dk).isNone then fail .isNotFile
      match (← getFile sk) with
      | some b => setFile dk b
      | none => fail .doesNotExist) := rfl

theorem copyFileAt_of_add_ok {sk dk : FsPath} {e : Entry} {s s1 : State} {v : FsPath}
    (h : add (dstEntry e dk) s = (.ok v, s1)) :
    copyFileAt sk dk e s = if (alLookup dk s1.files).isNone then (.err .isNotFile, s1)
      else match alLookup sk s1.files with
        | some b => (.ok (), { s1 with files := alInsert dk b s1.files })
        | none => (.err .doesNotExist, s1) := by
  rw [copyFileAt_def, bind_ok h]
  simp only [getFile_bind]
  cases hd : alLookup dk s1.files with
  | none => simp
  | some b0 =>
    simp only [Option.isNone_some, Bool.false_eq_true, if_false, getFile_bind]
    cases alLookup sk s1.files <;> rfl

theorem copyFileAt_of_add_err {sk dk : FsPath} {e : Entry} {s s1 : State} {kind : ErrKind}
    (h : add (dstEntry e dk) s = (.err kind, s1)) : copyFileAt sk dk e s = (.err kind, s1) := by
  rw [copyFileAt_def, bind_err h]

/-- a successful single-file copy onto a fresh key: the destination holds a copy of the source
    bytes, the source and every other key keep theirs -/
theorem copyFileAt_ok {sk dk : FsPath} {e : Entry} {s s' : State} {u : Unit}
    (hne : sk ≠ dk) (hf : e.file = true) (hl : e.link = false) (hd : e.dir = false)
    (h : copyFileAt sk dk e s = (.ok u, s')) :
    (∃ b, content s sk = some b ∧ content s' dk = some b) ∧
    (∀ q, q ≠ dk → content s' q = content s q) ∧ s'.cwd = s.cwd := by
  have hf' : (dstEntry e dk).file = true := hf
  have hl' : (dstEntry e dk).link = false := hl
  have hd' : (dstEntry e dk).dir = false := hd
  have hp' : (dstEntry e dk).path = dk := rfl
  rcases add_regular (dstEntry e dk) hf' hl' hd' s with ⟨hk, ha⟩ | ⟨_, kind, ha⟩ |
      ⟨_, x, hx, _, ha⟩ | ⟨_, _, o, ents', ha, _, ho, _⟩
  · -- destination is the root key: `add` did nothing
    rw [hp'] at hk ha
    rw [copyFileAt_of_add_ok ha] at h
    split at h
    · simp at h
    · cases hb : alLookup sk s.files with
      | none => simp [hb] at h
      | some b =>
        simp only [hb, Prod.mk.injEq, true_and] at h
        rw [← h]
        exact ⟨⟨b, hb, alLookup_alInsert_self _ _ _⟩,
          fun q hq => alLookup_alInsert_ne hq _ _, rfl⟩
  · rw [copyFileAt_of_add_err ha] at h; simp at h
  · -- destination exists and is a file: `add` did nothing, the data is overwritten
    rw [hp'] at ha
    rw [copyFileAt_of_add_ok ha] at h
    split at h
    · simp at h
    · cases hb : alLookup sk s.files with
      | none => simp [hb] at h
      | some b =>
        simp only [hb, Prod.mk.injEq, true_and] at h
        rw [← h]
        exact ⟨⟨b, hb, alLookup_alInsert_self _ _ _⟩,
          fun q hq => alLookup_alInsert_ne hq _ _, rfl⟩
  · rw [hp'] at ha ho
    rcases ho with ho | ho
    · subst ho
      rw [copyFileAt_of_add_ok ha] at h
      simp only [alLookup_alInsert_self, Option.isNone_some, Bool.false_eq_true, if_false,
        alLookup_alInsert_ne hne] at h
      cases hb : alLookup sk s.files with
      | none => simp [hb] at h
      | some b =>
        simp only [hb, Prod.mk.injEq, true_and] at h
        rw [← h]
        refine ⟨⟨b, hb, alLookup_alInsert_self _ _ _⟩, fun q hq => ?_, rfl⟩
        show alLookup q (alInsert dk b (alInsert dk [] s.files)) = alLookup q s.files
        rw [alLookup_alInsert_ne hq, alLookup_alInsert_ne hq]
    · subst ho
      rw [copyFileAt_of_add_err ha] at h; simp at h

/-! ### the destination of the traversal root -/

section
open Rivia.Str

theorem renderP_eq_bufOf (k : FsPath) : renderP k = bufOf true k := rfl

theorem trimPrefix_self (x : Str) : trimPrefix x x = [] := by
  simp [trimPrefix]

theorem components_append_slash {x : Str} (h : isRooted x = true) :
    components (x ++ ['/']) = components x := by
  cases x with
  | nil => simp [isRooted] at h
  | cons c cs =>
    have hc : c = '/' := by simpa [isRooted_cons] using h
    subst hc
    have h2 : isRooted ('/' :: cs ++ ['/']) = true := rfl
    unfold components
    rw [h, show isRooted ('/' :: cs ++ ['/']) = true from rfl]
    simp only [if_true]
    have : splitSlash ('/' :: cs ++ ['/']) = splitSlash ('/' :: cs) ++ [[]] := by
      unfold splitSlash
      exact splitOn_append_cons_sep '/' ('/' :: cs) []
    rw [this, List.filterMap_append]
    simp [bodyComp_nil]

theorem toPath_renderP {k : FsPath} (h : ∀ n ∈ k, Wf n) : toPath (renderP k) = k := by
  cases k with
  | nil => decide
  | cons a as =>
    have hb : ∀ p ∈ a :: as, BodyPiece p := fun p hp => (h p hp).bodyPiece
    unfold toPath
    rw [renderP_eq_bufOf, splitSlash_bufOf (by simp) hb]
    simp only [if_true, List.cons_append, List.nil_append]
    rw [List.filter_cons_of_neg (by simp)]
    exact List.filter_eq_self.2 (fun n hn => by simpa using (h n hn).1)

theorem mash_renderP_nil {k : FsPath} (h : ∀ n ∈ k, Wf n) : mash (renderP k) [] = renderP k := by
  unfold mash
  have hs : stripSlashes [] = [] := rfl
  rw [hs]
  have hc : components (push (renderP k) []) = .root :: k.map Comp.normal := by
    have hr : isRooted (renderP k) = true := rfl
    unfold push
    simp only [show isRooted ([] : Str) = false from rfl, Bool.false_eq_true, if_false]
    split
    · rw [components_append_slash hr, renderP_eq_bufOf, components_abs h]
    · rw [List.append_nil, renderP_eq_bufOf, components_abs h]
  rw [hc, render_root_normals h]; rfl

/-- for well-formed keys the destination computed by `_copy`/`move_p` for the root entry of the
    traversal is the destination root itself -/
theorem dstOf_self {dk : FsPath} (sk : FsPath) (h : ∀ n ∈ dk, Wf n) : dstOf dk sk sk = dk := by
  unfold dstOf
  rw [trimPrefix_self, mash_renderP_nil h, toPath_renderP h]

end

/-! ### `move_p` of a single entry without children -/

@[simp] theorem removeEntry_bind {β} (p : FsPath) (f : Option Entry → M β) (s : State) :
    (removeEntry p >>= f) s = f (alLookup p s.entries) { s with entries := alErase p s.entries } := rfl
@[simp] theorem removeFile_bind {β} (p : FsPath) (f : Option Bytes → M β) (s : State) :
    (removeFile p >>= f) s = f (alLookup p s.files) { s with files := alErase p s.files } := rfl

/-- a computation that never touches the data map or the working directory -/
def KeepsFiles {α} (m : M α) : Prop := ∀ s, (m s).2.files = s.files ∧ (m s).2.cwd = s.cwd

theorem keeps_bind {α β} {m : M α} {f : α → M β} (hm : KeepsFiles m) (hf : ∀ a, KeepsFiles (f a)) :
    KeepsFiles (m >>= f) := by
  intro s
  rw [bind_apply]
  have h1 := hm s
  rcases hr : m s with ⟨o, s1⟩
  rw [hr] at h1
  cases o with
  | ok a => have h2 := hf a s1; exact ⟨h2.1.trans h1.1, h2.2.trans h1.2⟩
  | err k => exact h1
  | panic => exact h1
  | hang => exact h1

theorem keeps_pure {α} (a : α) : KeepsFiles (Pure.pure a : M α) := fun _ => ⟨rfl, rfl⟩
theorem keeps_mpure {α} (a : α) : KeepsFiles (M.pure a : M α) := fun _ => ⟨rfl, rfl⟩
theorem keeps_fail {α} (k : ErrKind) : KeepsFiles (M.fail k : M α) := fun _ => ⟨rfl, rfl⟩
theorem keeps_liftO {α} (o : Outcome α) : KeepsFiles (M.liftO o) := fun _ => ⟨rfl, rfl⟩
theorem keeps_getEntry (p : FsPath) : KeepsFiles (getEntry p) := fun _ => ⟨rfl, rfl⟩
theorem keeps_setEntry (p : FsPath) (e : Entry) : KeepsFiles (setEntry p e) := fun _ => ⟨rfl, rfl⟩
theorem keeps_dirOf (p : FsPath) : KeepsFiles (dirOf p) := by
  unfold dirOf; split
  · exact keeps_fail _
  · exact keeps_mpure _
theorem keeps_moveLoop_nil (a b : FsPath) (c : Bool) (f : Nat) : KeepsFiles (moveLoop a b c f []) := by
  cases f
  · exact fun _ => ⟨rfl, rfl⟩
  · exact keeps_mpure _

def moveRest (sk dk : FsPath) (f : Nat) : M Unit := do
  let sd ← dirOf sk
  match (← getEntry sd) with
  | some oldParent =>
    let op' ← liftO (oldParent.removeChild (baseName sk))
    setEntry sd op'
    let dd ← dirOf dk
    match (← getEntry dd) with
    | some newParent =>
      let (_, np') ← liftO (newParent.addChild (baseName dk))
      setEntry dd np'
    | none => fail .parentNotFound
  | none => M.pure ()
  moveLoop sk dk false (f + 1) []

theorem keeps_moveRest (sk dk : FsPath) (f : Nat) : KeepsFiles (moveRest sk dk f) := by
  unfold moveRest
  refine keeps_bind (keeps_dirOf _) (fun sd => keeps_bind (keeps_getEntry _) (fun o => ?_))
  cases o with
  | none => exact keeps_bind (keeps_mpure _) (fun _ => keeps_moveLoop_nil _ _ _ _)
  | some op =>
    refine keeps_bind (keeps_liftO _) (fun _ => keeps_bind (keeps_setEntry _ _) (fun _ =>
      keeps_bind (keeps_dirOf _) (fun _ => keeps_bind (keeps_getEntry _) (fun o2 => ?_))))
    cases o2 with
    | none => exact keeps_bind (keeps_fail _) (fun _ => keeps_moveLoop_nil _ _ _ _)
    | some np =>
      exact keeps_bind (keeps_liftO _) (fun _ => keeps_bind (keeps_setEntry _ _)
        (fun _ => keeps_moveLoop_nil _ _ _ _))

theorem moveLoop_single {s : State} {sk dk : FsPath} {e : Entry} (f : Nat)
    (he : alLookup sk s.entries = some e)
    (hfs : e.files = none)
    (hdstOf : dstOf dk sk sk = dk) (hdk0 : dk ≠ []) :
    moveLoop sk dk false (f + 2) [sk] s =
      moveRest sk dk f
        { s with entries := alInsert dk (movedEntry e dk) (alErase sk s.entries),
                 files := match alLookup sk s.files with
                   | some b => alInsert dk b (alErase sk s.files)
                   | none => alErase sk s.files } := by
  rw [show f + 2 = (f + 1) + 1 from rfl, moveLoop_succ_cons]
  simp only [Bool.false_eq_true, if_false, mpure_bind_apply, hdstOf, removeEntry_bind, he,
    movedRelM_eq_pure (movedOk_of_ne hdk0), setEntry_bind, removeFile_bind]
  cases hb : alLookup sk s.files with
  | none =>
    simp only [mpure_bind_apply, hfs, movedEntry, List.reverse_nil, List.nil_append]
    rfl
  | some b =>
    simp only [setFile_bind, hfs, movedEntry, List.reverse_nil, List.nil_append]
    rfl

theorem moveM_file {env : Env} {src dst : Str} {s : State} {sk dk : FsPath} {e pd : Entry}
    (hsrc : absM env src s = (.ok sk, s)) (hdst : absM env dst s = (.ok dk, s))
    (hne : sk ≠ dk) (hnp : sk.isPrefixOf dk = false)
    (he : alLookup sk s.entries = some e)
    (hisdir : isDirP s dk = false) (hdk0 : dk ≠ [])
    (hpar : alLookup dk.dropLast s.entries = some pd) :
    moveM env src dst s =
      if (pd.dir && !pd.link) = true then
        (match alLookup dk s.entries with
         | some x =>
           if (x.file && !x.link && e.file && !e.link) = true then
             moveLoop sk dk false (8 * (s.entries.length + 2)) [sk] s
           else (.err .existsAlready, s)
         | none => moveLoop sk dk false (8 * (s.entries.length + 2)) [sk] s)
      else (.err .isNotDir, s) := by
  unfold moveM
  rw [bind_ok hsrc]
  simp only []
  rw [bind_ok hdst]
  simp only [get_bind, hisdir, getEntry_bind, he, mpure_bind_apply, Bool.false_eq_true, if_false,
    Ne.symm hne, hnp, dirOf, hdk0, hpar]
  by_cases hp : (pd.dir && !pd.link) = true
  · simp only [hp, if_true, mpure_bind_apply, getEntry_bind]
    cases alLookup dk s.entries with
    | none => simp only [mpure_bind_apply]
    | some x =>
      by_cases hc : (x.file && !x.link && e.file && !e.link) = true
      · simp only [hc, if_true, mpure_bind_apply]
      · simp only [hc, Bool.false_eq_true, if_false, fail_bind_apply]
  · simp only [hp, Bool.false_eq_true, if_false, fail_bind_apply]

theorem moveM_prefix_fails {env : Env} {src dst : Str} {s : State} {sk dk : FsPath} {e : Entry}
    (hsrc : absM env src s = (.ok sk, s)) (hdst : absM env dst s = (.ok dk, s))
    (hne : sk ≠ dk) (hnp : sk.isPrefixOf dk = true)
    (he : alLookup sk s.entries = some e) (hisdir : isDirP s dk = false) :
    moveM env src dst s = (.err .ioInvalidInput, s) := by
  unfold moveM
  rw [bind_ok hsrc]
  simp only []
  rw [bind_ok hdst]
  simp only [get_bind, hisdir, getEntry_bind, he, mpure_bind_apply, Bool.false_eq_true, if_false,
    Ne.symm hne, hnp, if_true, fail_bind_apply]

theorem alLookup_alErase_ne {β} {k q : FsPath} (h : q ≠ k) (l : List (FsPath × β)) :
    alLookup q (alErase k l) = alLookup q l := by
  induction l with
  | nil => rfl
  | cons x r ih =>
    obtain ⟨k', v'⟩ := x
    by_cases h' : k' = k
    · subst h'; simp [alErase, alLookup, Ne.symm h]
    · by_cases h2 : k' = q
      · subst h2; simp [alErase, alLookup, h']
      · simp [alErase, alLookup, h', h2, ih]

theorem alLookup_eq_none_of_not_mem {β} {k : FsPath} {l : List (FsPath × β)}
    (h : k ∉ l.map (·.1)) : alLookup k l = none := by
  induction l with
  | nil => rfl
  | cons x r ih =>
    obtain ⟨k', v'⟩ := x
    simp only [List.map_cons, List.mem_cons, not_or] at h
    simp [alLookup, Ne.symm h.1, ih h.2]

theorem alLookup_alErase_self {β} {k : FsPath} {l : List (FsPath × β)} (h : (l.map (·.1)).Nodup) :
    alLookup k (alErase k l) = none := by
  induction l with
  | nil => rfl
  | cons x r ih =>
    obtain ⟨k', v'⟩ := x
    simp only [List.map_cons, List.nodup_cons] at h
    by_cases h' : k' = k
    · subst h'; simp only [alErase, if_true]; exact alLookup_eq_none_of_not_mem h.1
    · simp [alErase, alLookup, h', ih h.2]

/-- a successful `move_p` of a single entry without children onto a fresh key: the data map after
    the call, in closed form -/
theorem moveM_file_ok {env : Env} {src dst : Str} {s s' : State} {sk dk : FsPath} {e pd : Entry}
    {u : Unit}
    (hsrc : absM env src s = (.ok sk, s)) (hdst : absM env dst s = (.ok dk, s))
    (hne : sk ≠ dk) (he : alLookup sk s.entries = some e) (hfs : e.files = none)
    (hisdir : isDirP s dk = false) (hdk0 : dk ≠ [])
    (hpar : alLookup dk.dropLast s.entries = some pd)
    (hdstOf : dstOf dk sk sk = dk) (h : moveM env src dst s = (.ok u, s')) :
    s'.files = (match alLookup sk s.files with
      | some b => alInsert dk b (alErase sk s.files)
      | none => alErase sk s.files) ∧ s'.cwd = s.cwd := by
  cases hnp : sk.isPrefixOf dk with
  | true => rw [moveM_prefix_fails hsrc hdst hne hnp he hisdir] at h; simp at h
  | false =>
    have h8 : 8 * (s.entries.length + 2) = (8 * s.entries.length + 14) + 2 := by omega
    have hk := keeps_moveRest sk dk (8 * s.entries.length + 14)
      { s with entries := alInsert dk (movedEntry e dk) (alErase sk s.entries),
               files := match alLookup sk s.files with
                 | some b => alInsert dk b (alErase sk s.files)
                 | none => alErase sk s.files }
    rw [← moveLoop_single _ he hfs hdstOf hdk0, ← h8] at hk
    rw [moveM_file hsrc hdst hne hnp he hisdir hdk0 hpar] at h
    split at h
    · split at h
      · split at h
        · rw [h] at hk; exact hk
        · simp at h
      · rw [h] at hk; exact hk
    · simp at h

theorem moveM_file_content {env : Env} {src dst : Str} {s s' : State} {sk dk : FsPath} {e pd : Entry}
    {u : Unit} {b : Bytes}
    (hsrc : absM env src s = (.ok sk, s)) (hdst : absM env dst s = (.ok dk, s))
    (hne : sk ≠ dk) (he : alLookup sk s.entries = some e) (hfs : e.files = none)
    (hisdir : isDirP s dk = false) (hdk0 : dk ≠ [])
    (hpar : alLookup dk.dropLast s.entries = some pd)
    (hdstOf : dstOf dk sk sk = dk) (hb : content s sk = some b)
    (h : moveM env src dst s = (.ok u, s')) :
    content s' dk = some b ∧
    (∀ q, q ≠ dk → q ≠ sk → content s' q = content s q) ∧
    ((s.files.map (·.1)).Nodup → content s' sk = none) := by
  have h1 := (moveM_file_ok hsrc hdst hne he hfs hisdir hdk0 hpar hdstOf h).1
  have hb' : alLookup sk s.files = some b := hb
  rw [hb'] at h1
  simp only at h1
  unfold content
  rw [h1]
  refine ⟨alLookup_alInsert_self _ _ _, fun q hq1 hq2 => ?_, fun hnd => ?_⟩
  · rw [alLookup_alInsert_ne hq1, alLookup_alErase_ne hq2]
  · rw [alLookup_alInsert_ne hne, alLookup_alErase_self hnd]

end Rivia.Lemmas
