/-
  Rivia.Lemmas.RefineCLines — C01, group C (part 1): the line helpers
  `read_lines`, `write_lines`, `append_lines`, `append_line` refine the reference.

  * `read_lines` is `read_all` followed by the line splitter: the model's `splitLines` (transcribed from
    `BufRead::lines`) and the reference's `specLines` (written from the documentation) are the same
    function (`splitLines_eq_specLines`);
  * the three writers are `write_all` / `append_all` of the joined bytes whenever the joined text is not
    empty, i.e. outside the finding class `empty_lines_noop`.
-/
import Rivia.Lemmas.RefineA
import Rivia.Lemmas.Lines

namespace Rivia.Lemmas.RefineC
open Rivia Rivia.Memfs Rivia.File Rivia.Spec Rivia.Spec.TreeFs Rivia.Lemmas.RefineA

/-! ### the two line splitters agree -/

theorem getLast?_eq_head?_reverse {α} (l : List α) : l.getLast? = l.reverse.head? := by
  rw [List.head?_reverse]

theorem stripCr_eq (l : Str) :
    Lemmas.stripCr l = if l.getLast? = some '\r' then l.dropLast else l := by
  unfold Lemmas.stripCr
  rw [getLast?_eq_head?_reverse]
  have hd : l.dropLast = l.reverse.tail.reverse := by
    rw [List.tail_reverse, List.reverse_reverse]
  rw [hd]
  generalize l.reverse = r
  cases r with
  | nil => simp
  | cons c r =>
    by_cases hc : c = '\r'
    · subst hc; simp
    · simp only [List.head?_cons, Option.some.injEq, hc, if_false]
      split
      · rename_i r' heq; cases heq; exact absurd rfl hc
      · rfl

theorem take_length_sub_one {α} (l : List α) : l.take (l.length - 1) = l.dropLast := by
  rw [List.dropLast_eq_take]

theorem splitLines_eq_specLines (s : Str) : splitLines s = specLines s := by
  rw [splitLines_eq]
  unfold specLines
  simp only
  have hfun : (fun l : Str => if l.getLast? = some '\r' then l.dropLast else l) = Lemmas.stripCr := by
    funext l; exact (stripCr_eq l).symm
  rw [hfun]
  generalize Str.splitOn '\n' s = ps
  rw [take_length_sub_one]
  rcases List.eq_nil_or_concat ps with rfl | ⟨init, lastp, rfl⟩
  · rfl
  · simp only [List.concat_eq_append, List.getLast?_append, List.getLast?_singleton, Option.some_or,
      List.dropLast_concat, List.reverse_append, List.reverse_cons, List.reverse_nil, List.nil_append,
      List.singleton_append, List.reverse_reverse]
    cases lastp with
    | nil => simp
    | cons c cs => simp

/-! ### `read_lines` -/

variable (env : Env) (s : State)

theorem sim_readLines (p : Str) (hI : InvFacts s) (hOk : EntriesOk s) : Sim (step env s (.readLines p))
    (withPath env (absS s) p fun a =>
      match TreeFs.get (absS s) a with
      | none => (.err (some .doesNotExist), absS s)
      | some n => if n.kind = .file then
          (match decodeUtf8 n.data with | some x => (.ok (.strs (specLines x)), absS s) | none => (.err none, absS s))
        else if n.kind = .dir then (.err (some .isNotFile), absS s) else (.err none, absS s)) := by
  simp only [step, readLinesM, cloneFileM_eq, mapVal, M_bind_apply, absM_eq, withPath]
  cases hr : resolve env (absS s) p with
  | err e => exact sim_same (by simp)
  | panic => exact sim_unspec _ _
  | hang => exact sim_unspec _ _
  | ok a =>
    obtain ⟨o, h1, h2⟩ := cloneK_spec s hI hOk a
    simp only [h1]
    cases hg : TreeFs.get (absS s) a with
    | none => rw [hg] at h2; subst h2; exact sim_same (by simp)
    | some n =>
      rw [hg] at h2
      simp only at h2 ⊢
      by_cases hk : n.kind = .file
      · rw [if_pos hk] at h2 ⊢; subst h2
        simp only
        cases decodeUtf8 n.data with
        | none => exact sim_same (by simp)
        | some x => exact sim_same (by simp [splitLines_eq_specLines])
      · rw [if_neg hk] at h2 ⊢
        by_cases hk2 : n.kind = .dir
        · rw [if_pos hk2] at h2 ⊢; subst h2; exact sim_same (by simp)
        · rw [if_neg hk2] at h2 ⊢; obtain ⟨k, rfl⟩ := h2; exact sim_same (by simp)

/-! ### the writers -/

theorem joinLines_of_isSome {ls : List Str} (h : (joinLines ls).isNone = false) :
    joinLines ls = some (ls.flatMap (fun l => utf8 l ++ [nl])) := by
  by_cases hj : Str.joinWith '\n' ls = []
  · rw [joinLines_eq, if_pos hj] at h; cases h
  · exact joinLines_of_ne hj

theorem step_writeLines {p : Str} {ls : List Str} (h : (joinLines ls).isNone = false) :
    step env s (.writeLines p ls) = step env s (.writeAll p (ls.flatMap (fun l => utf8 l ++ [nl]))) := by
  simp only [step, writeLinesM, joinLines_of_isSome h]

theorem step_appendLines {p : Str} {ls : List Str} (h : (joinLines ls).isNone = false) :
    step env s (.appendLines p ls) = step env s (.appendAll p (ls.flatMap (fun l => utf8 l ++ [nl]))) := by
  simp only [step, appendLinesM, joinLines_of_isSome h]

theorem step_appendLine {p : Str} {l : Str} (h : l ≠ []) :
    step env s (.appendLine p l) = step env s (.appendAll p (utf8 l ++ [nl])) := by
  simp only [step, appendLineM, if_neg h]

theorem sim_writeLines (hI : InvFacts s) (hOk : EntriesOk s) (p : Str) (ls : List Str)
    (h : (joinLines ls).isNone = false) :
    Sim (step env s (.writeLines p ls))
      (withPath env (absS s) p fun a => liftR (fun _ => .unit)
        (writeAll (absS s) a (ls.flatMap (fun l => utf8 l ++ [10])) false)) := by
  rw [step_writeLines env s h]
  exact sim_writeAll env s hI hOk p _

theorem sim_appendLines (hI : InvFacts s) (hOk : EntriesOk s) (p : Str) (ls : List Str)
    (h : (joinLines ls).isNone = false) :
    Sim (step env s (.appendLines p ls))
      (withPath env (absS s) p fun a => liftR (fun _ => .unit)
        (writeAll (absS s) a (ls.flatMap (fun l => utf8 l ++ [10])) true)) := by
  rw [step_appendLines env s h]
  exact sim_appendAll env s hI hOk p _

theorem sim_appendLine (hI : InvFacts s) (hOk : EntriesOk s) (p : Str) (l : Str) (h : l ≠ []) :
    Sim (step env s (.appendLine p l))
      (withPath env (absS s) p fun a => liftR (fun _ => .unit) (writeAll (absS s) a (utf8 l ++ [10]) true)) := by
  rw [step_appendLine env s h]
  exact sim_appendAll env s hI hOk p _

end Rivia.Lemmas.RefineC
