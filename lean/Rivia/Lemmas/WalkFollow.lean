/-
  Rivia.Lemmas.WalkFollow — the traversal stack machine of the model against the recursive walk
  `Spec.walkF` with links followed (property C08, `follow = true`).

  Part A: names and sorting (`sortEntries nameLe` = stable `mergeSort nameLeq`, commutes with filters)
  Part B: `follow = false`: `walkF` is `walk`
  Part C: the directory iterator `mkIter` lists `childrenF`
  Part D: fuel irrelevance of `walkF` (measure `mu`)
  Part E: the machine as a one-level loop `drive`, and `runIter` follows `drive`
  Part F: `drive` against `walkF` (parents first / contents first), exactness with the fuel bound `fuelNeed`
  Part G: termination for every option combination with `OrdOk` (potential argument)
  Part H: consumers collecting an image of the entries (`travM` / `step (.entries ..)` collect paths)
-/
import Rivia.Spec.WalkFollow
import Rivia.Lemmas.Walk
import Rivia.Model.MemfsOps

namespace Rivia.Lemmas.WalkF
open Rivia Rivia.Memfs Rivia.Spec Rivia.Lemmas.Walk

/-! ## Part A: names and sorting -/

theorem strLt_iff_lt : ∀ a b : Str, strLt a b = true ↔ a < b
  | [], [] => by simp [strLt]
  | [], _ :: _ => by simp [strLt]
  | _ :: _, [] => by simp [strLt]
  | a :: as, b :: bs => by
    refine ⟨strLt_imp_lt _ _, fun h => ?_⟩
    rw [List.cons_lt_cons_iff] at h
    unfold strLt
    rcases h with h | ⟨rfl, h⟩
    · rw [if_pos (Char.lt_def.mp h)]
    · rw [if_neg (by exact UInt32.lt_irrefl _), if_neg (by exact UInt32.lt_irrefl _)]
      exact (strLt_iff_lt as bs).mpr h

theorem strLe_eq (x y : Str) : strLe x y = decide (x ≤ y) := by
  unfold strLe
  by_cases h : y < x
  · rw [(strLt_iff_lt y x).mpr h]
    have : ¬ x ≤ y := List.not_le.mpr h
    simp [this]
  · have h' : strLt y x = false := by
      cases hs : strLt y x
      · rfl
      · exact absurd ((strLt_iff_lt y x).mp hs) h
    rw [h']
    have : x ≤ y := List.not_lt.mp h
    simp [this]

theorem nameLe_eq (a b : Entry) : nameLe a b = nameLeq a b := by
  simp only [nameLe, nameLeq, Spec.fileName]
  cases a.path.getLast? <;> cases b.path.getLast? <;> simp [strLe_eq]

theorem nameLe_eq' : nameLe = nameLeq := funext fun a => funext fun b => nameLe_eq a b

theorem nameLeq_trans (a b c : Entry) : nameLeq a b = true → nameLeq b c = true → nameLeq a c = true := by
  simp only [nameLeq, Spec.fileName]
  cases a.path.getLast? <;> cases b.path.getLast? <;> cases c.path.getLast? <;> simp
  exact fun h1 h2 => List.le_trans h1 h2

theorem nameLeq_total (a b : Entry) : (nameLeq a b || nameLeq b a) = true := by
  simp only [nameLeq, Spec.fileName]
  cases a.path.getLast? <;> cases b.path.getLast? <;> simp
  exact List.le_total (α := Char) _ _

section sort
variable {le : Entry → Entry → Bool}

theorem insertSorted_of_le : ∀ (x : Entry) (l : List Entry), (∀ z ∈ l, le x z = true) → insertSorted le x l = x :: l
  | _, [], _ => rfl
  | x, y :: ys, h => by simp [insertSorted, h y List.mem_cons_self]

theorem insertSorted_split (x : Entry) : ∀ (l1 l2 : List Entry), (∀ b ∈ l1, le x b = false) →
    (∀ b ∈ l2, le x b = true) → insertSorted le x (l1 ++ l2) = l1 ++ x :: l2
  | [], l2, _, h2 => insertSorted_of_le x l2 h2
  | y :: l1, l2, h1, h2 => by
    have := insertSorted_split x l1 l2 (fun b hb => h1 b (List.mem_cons_of_mem _ hb)) h2
    simp [insertSorted, h1 y List.mem_cons_self, this]

theorem sortEntries_eq_mergeSort (trans : ∀ a b c, le a b = true → le b c = true → le a c = true)
    (total : ∀ a b, (le a b || le b a) = true) : ∀ l : List Entry, sortEntries le l = l.mergeSort le
  | [] => by simp [sortEntries]
  | x :: l => by
    have ih := sortEntries_eq_mergeSort trans total l
    obtain ⟨l1, l2, h1, h2, h3⟩ := List.mergeSort_cons (le := le) trans total x l
    have hp := List.pairwise_mergeSort (le := le) trans total (x :: l)
    rw [h1] at hp
    have hx2 : ∀ b ∈ l2, le x b = true := by
      have := (List.pairwise_append.mp hp).2.1
      exact fun b hb => (List.pairwise_cons.mp this).1 b hb
    have : sortEntries le (x :: l) = insertSorted le x (sortEntries le l) := rfl
    rw [this, ih, h2, h1]
    exact insertSorted_split x l1 l2 (fun b hb => by simpa using h3 b hb) hx2

theorem filter_insertSorted (trans : ∀ a b c, le a b = true → le b c = true → le a c = true)
    (p : Entry → Bool) (x : Entry) : ∀ l : List Entry, l.Pairwise (fun a b => le a b = true) →
      (insertSorted le x l).filter p = if p x then insertSorted le x (l.filter p) else l.filter p
  | [], _ => by cases h : p x <;> simp [insertSorted, h]
  | y :: ys, hs => by
    have ih := filter_insertSorted trans p x ys (List.pairwise_cons.mp hs).2
    by_cases hxy : le x y = true
    · have hall : ∀ z ∈ (y :: ys).filter p, le x z = true := by
        intro z hz
        have hz' := (List.mem_filter.mp hz).1
        rcases List.mem_cons.mp hz' with rfl | hz''
        · exact hxy
        · exact trans _ _ _ hxy ((List.pairwise_cons.mp hs).1 z hz'')
      rw [insertSorted_of_le x _ hall]
      simp only [insertSorted, hxy, if_true, List.filter_cons]
    · have h1 : insertSorted le x (y :: ys) = y :: insertSorted le x ys := by simp [insertSorted, hxy]
      rw [h1, List.filter_cons, ih, List.filter_cons]
      cases hy : p y <;> cases hx : p x <;> simp [insertSorted, hxy]

theorem filter_sortEntries (trans : ∀ a b c, le a b = true → le b c = true → le a c = true)
    (total : ∀ a b, (le a b || le b a) = true) (p : Entry → Bool) :
    ∀ l : List Entry, (sortEntries le l).filter p = sortEntries le (l.filter p)
  | [] => rfl
  | x :: l => by
    have ih := filter_sortEntries trans total p l
    have hs : (sortEntries le l).Pairwise (fun a b => le a b = true) := by
      rw [sortEntries_eq_mergeSort trans total]; exact List.pairwise_mergeSort trans total l
    have h1 : sortEntries le (x :: l) = insertSorted le x (sortEntries le l) := rfl
    rw [h1, filter_insertSorted trans p x _ hs, ih, List.filter_cons]
    cases p x <;> rfl

end sort

/-- what the model's `mkIter` does to the presented items = what the spec prescribes -/
theorem model_order {o : Opts} (hord : OrdOk o) (items : List Entry) :
    (if o.sorted then
      if o.dirsFirst then sortEntries nameLe (items.filter (·.dir)) ++ sortEntries nameLe (items.filter (fun x => !x.dir))
      else if o.filesFirst then sortEntries nameLe (items.filter (fun x => !x.dir)) ++ sortEntries nameLe (items.filter (·.dir))
      else sortEntries nameLe items
     else items) = groupKinds o (orderEntries o items) := by
  have hS : ∀ l, sortEntries nameLeq l = l.mergeSort nameLeq :=
    sortEntries_eq_mergeSort nameLeq_trans nameLeq_total
  have hF := fun p l => filter_sortEntries (le := nameLeq) nameLeq_trans nameLeq_total p l
  rw [nameLe_eq']
  unfold groupKinds orderEntries
  by_cases hs : o.sorted = true
  · simp only [hs, if_true]
    split
    · rw [← hS, hF, hF]
    · split
      · rw [← hS, hF, hF]
      · rw [hS]
  · rcases hord with h | ⟨h1, h2⟩
    · exact absurd h hs
    · simp [hs, h1, h2]

/-! ## presented entries -/

theorem doFollow_link (e : Entry) (f : Bool) : (e.doFollow f).link = e.link := by
  unfold Entry.doFollow; split <;> rfl
theorem doFollow_dir (e : Entry) (f : Bool) : (e.doFollow f).dir = e.dir := by
  unfold Entry.doFollow; split <;> rfl
theorem doFollow_idem (e : Entry) (f : Bool) : (e.doFollow f).doFollow f = e.doFollow f := by
  unfold Entry.doFollow
  split
  · simp
  · simp
theorem doFollow_of_not_link {e : Entry} (f : Bool) (h : e.link = false) : e.doFollow f = e := by
  simp [Entry.doFollow, h]

/-- the entry is a snapshot entry as the traversal presents it -/
def PresOk (snap : Snap) (o : Opts) (x : Entry) : Prop := ∃ raw, InSnap snap raw ∧ x = present o raw

theorem PresOk.inSnap {snap : Snap} {o : Opts} {x : Entry} (h : PresOk snap o x) (hl : followed o x = false) :
    InSnap snap x := by
  obtain ⟨raw, hr, rfl⟩ := h
  simp only [followed, present, doFollow_link] at hl
  have : raw.doFollow o.follow = raw := by
    unfold Entry.doFollow
    rw [if_neg]
    rintro ⟨h1, h2, _⟩
    simp [h1, h2] at hl
  rw [present, this]; exact hr

theorem PresOk.present_self {snap : Snap} {o : Opts} {x : Entry} (h : PresOk snap o x) : x.doFollow o.follow = x := by
  obtain ⟨raw, _, rfl⟩ := h
  exact doFollow_idem raw o.follow

theorem mem_childrenF {snap : Snap} {o : Opts} {x : Entry} {kids : List Entry} (h : childrenF snap o x = some kids)
    {c : Entry} (hc : c ∈ kids) : ∃ n raw, alLookup (x.path ++ [n]) snap = some raw ∧ c = present o raw := by
  unfold childrenF at h
  cases hl : listingNames snap o x with
  | none => rw [hl] at h; cases h
  | some ns =>
    rw [hl] at h
    simp only [Option.map_some, Option.some.injEq] at h
    subst h
    rw [mem_groupKinds] at hc
    have hc' : c ∈ (ns.filterMap (fun n => alLookup (x.path ++ [n]) snap)).map (present o) := by
      unfold orderEntries at hc
      split at hc
      · exact List.mem_mergeSort.mp hc
      · exact hc
    obtain ⟨raw, hraw, rfl⟩ := List.mem_map.mp hc'
    obtain ⟨n, _, hn⟩ := List.mem_filterMap.mp hraw
    exact ⟨n, raw, hn, rfl⟩

theorem presOk_child {snap : Snap} (hwf : SnapWf snap) {o : Opts} {x : Entry} {kids : List Entry}
    (h : childrenF snap o x = some kids) {c : Entry} (hc : c ∈ kids) : PresOk snap o c := by
  obtain ⟨n, raw, hl, rfl⟩ := mem_childrenF h hc
  exact ⟨raw, inSnap_of_lookup hwf hl, rfl⟩

/-! ## Part B: `follow = false` -/

theorem seqF_pure (f : Entry → WalkRes) (g : Entry → List Entry) : ∀ kids : List Entry,
    (∀ c ∈ kids, f c = (g c, none)) → seqF f kids = (kids.flatMap g, none)
  | [], _ => rfl
  | c :: cs, h => by
    have ih := seqF_pure f g cs (fun y hy => h y (List.mem_cons_of_mem _ hy))
    simp [seqF, h c List.mem_cons_self, ih]

theorem seqF_congr {f g : Entry → WalkRes} : ∀ {kids : List Entry}, (∀ c ∈ kids, f c = g c) → seqF f kids = seqF g kids
  | [], _ => rfl
  | c :: cs, h => by
    have ih := seqF_congr (fun y hy => h y (List.mem_cons_of_mem _ hy))
    simp only [seqF, h c List.mem_cons_self, ih]

theorem childrenF_no_follow {snap : Snap} (hwf : SnapWf snap) {o : Opts} (hfol : o.follow = false) {e : Entry}
    (he : InSnap snap e) : childrenF snap o e = some (children snap o e) := by
  have hp : present o = id := funext fun x => by simp [present, hfol, doFollow_false]
  have hs : orderEntries o (kidsRaw snap e) = kidsRaw snap e := by
    unfold orderEntries
    split
    · apply List.mergeSort_of_pairwise
      exact (kidsRaw_nameLe hwf he).imp (fun h => by rw [← nameLe_eq]; exact h)
    · rfl
  rw [children_eq hwf o he]
  simp only [childrenF, listingNames, followed, hfol, Bool.false_and, Bool.false_eq_true, if_false, Option.map_some, hp,
    List.map_id]
  exact congrArg some (congrArg (groupKinds o) hs)

theorem walkF_no_follow {snap : Snap} (hwf : SnapWf snap) {o : Opts} (hfol : o.follow = false) :
    ∀ (k : Nat) (chain : List FsPath) (e : Entry) (d : Nat), InSnap snap e →
      walkF snap o k chain e d = (walk snap o k e d, none)
  | 0, _, _, _, _ => rfl
  | k + 1, chain, e, d, he => by
    have hl : loopsF o chain e = false := by simp [loopsF, followed, hfol]
    have hen : entersF o e d = descends o e d := by simp [entersF, descends, hfol]
    have hk := seqF_pure (fun c => walkF snap o k (e.path :: chain) c (d + 1)) (fun c => walk snap o k c (d + 1))
      (children snap o e) (fun c hc => walkF_no_follow hwf hfol k _ c _ (mem_children hwf he hc).choose_spec.2.2.2)
    simp only [walkF, walk, hl, hen, childrenF_no_follow hwf hfol he, hk, Bool.false_eq_true, if_false]
    cases descends o e d <;> cases (o.contentsFirst && e.dir) <;> simp

/-! ## Part C: the directory iterator lists `childrenF` -/

theorem mkIter_lookup {snap : Snap} (hwf : SnapWf snap) {o : Opts} (hord : OrdOk o) {p : FsPath} {te : Entry}
    (h : alLookup p snap = some te) :
    mkIter snap o p = .ok ⟨p, o.sorted, groupKinds o (orderEntries o
      (((te.files.getD []).filterMap (fun n => alLookup (p ++ [n]) snap)).map (present o)))⟩ := by
  have hkids : ∀ kids, kids = (te.files.getD []).map (fun n => p ++ [n]) →
      ((kids.map (fun k => alLookup k snap)).takeWhile Option.isSome).filterMap id =
        (te.files.getD []).filterMap (fun n => alLookup (p ++ [n]) snap) := by
    intro kids hk; subst hk; rw [List.map_map]; exact takeWhile_filterMap _ _ (wf_lookup hwf h).2.2
  rw [← model_order hord]
  unfold mkIter
  rw [h]
  simp only []
  rw [hkids _ (by cases te.files <;> rfl)]
  have hp : (fun x : Entry => x.doFollow o.follow) = present o := rfl
  rw [hp]
  cases o.sorted <;> cases o.dirsFirst <;> cases o.filesFirst <;> rfl

theorem mkIter_missing {snap : Snap} {o : Opts} {p : FsPath} (h : alLookup p snap = none) :
    mkIter snap o p = .err .doesNotExist := by
  unfold mkIter; rw [h]

theorem childrenF_mkIter {snap : Snap} (hwf : SnapWf snap) {o : Opts} (hord : OrdOk o) {x : Entry}
    (hx : PresOk snap o x) :
    (childrenF snap o x = none ∧ mkIter snap o x.path = .err .doesNotExist) ∨
    (∃ kids, childrenF snap o x = some kids ∧ mkIter snap o x.path = .ok ⟨x.path, o.sorted, kids⟩) := by
  cases hf : followed o x with
  | true =>
    cases hl : alLookup x.path snap with
    | none => exact Or.inl ⟨by simp [childrenF, listingNames, hf, hl], mkIter_missing hl⟩
    | some te =>
      exact Or.inr ⟨_, by simp [childrenF, listingNames, hf, hl], mkIter_lookup hwf hord hl⟩
  | false =>
    have hin := hx.inSnap hf
    exact Or.inr ⟨_, by simp [childrenF, listingNames, hf], mkIter_lookup hwf hord hin⟩

/-! ## Part D: fuel irrelevance of `walkF` -/

/-- number of snapshot keys not among the paths `L` -/
def notIn (snap : Snap) (L : List FsPath) : Nat := (snap.filter (fun kv => !L.contains kv.1)).length

theorem notIn_le (snap : Snap) (L : List FsPath) : notIn snap L ≤ snap.length := List.length_filter_le _ _

theorem notIn_cons_le (snap : Snap) (p : FsPath) (L : List FsPath) : notIn snap (p :: L) ≤ notIn snap L := by
  apply filter_length_le
  intro kv _ h
  simp only [List.contains_cons, Bool.not_eq_true', Bool.or_eq_false_iff] at h ⊢
  simpa using h.2

theorem notIn_cons_lt {snap : Snap} {p : FsPath} {L : List FsPath} {te : Entry} (hk : alLookup p snap = some te)
    (hp : L.contains p = false) : notIn snap (p :: L) < notIn snap L := by
  apply filter_length_lt
  · intro kv _ h
    simp only [List.contains_cons, Bool.not_eq_true', Bool.or_eq_false_iff] at h ⊢
    simpa using h.2
  · have hp' : ¬ p ∈ L := by simpa using hp
    exact ⟨(p, te), alLookup_mem hk, by simp [hp'], by simp⟩

/-- the walk of `e` goes below `e` -/
def recurses (snap : Snap) (o : Opts) (chain : List FsPath) (e : Entry) (d : Nat) : Bool :=
  !loopsF o chain e && entersF o e d && (match childrenF snap o e with | some (_ :: _) => true | _ => false)

/-- the measure that bounds the recursion depth of `walkF` -/
def mu (snap : Snap) (o : Opts) (chain : List FsPath) (e : Entry) (d : Nat) : Nat :=
  if recurses snap o chain e d then notIn snap (e.path :: chain) * (snap.length + 1) + pot snap e.path else 0

theorem mu_lt_fuelF (snap : Snap) (o : Opts) (chain : List FsPath) (e : Entry) (d : Nat) :
    mu snap o chain e d < fuelF snap := by
  unfold mu fuelF
  split
  · have h1 := notIn_le snap (e.path :: chain)
    have h2 := pot_le snap e.path
    have h3 := Nat.mul_le_mul_right (snap.length + 1) h1
    have h4 : (snap.length + 1) * (snap.length + 1) = snap.length * (snap.length + 1) + (snap.length + 1) :=
      Nat.succ_mul _ _
    omega
  · omega

theorem mu_child {snap : Snap} (hwf : SnapWf snap) {o : Opts} {chain : List FsPath} {x : Entry} {d : Nat}
    {kids : List Entry} (hk : childrenF snap o x = some kids) {c : Entry} (hc : c ∈ kids) :
    mu snap o (x.path :: chain) c (d + 1) < notIn snap (x.path :: chain) * (snap.length + 1) + pot snap x.path := by
  obtain ⟨n, raw, hl, hcr⟩ := mem_childrenF hk hc
  have hpot := pot_child hl
  unfold mu
  split
  · rename_i hrec
    simp only [recurses, Bool.and_eq_true, Bool.not_eq_true'] at hrec
    obtain ⟨⟨hloop, hent⟩, hch⟩ := hrec
    cases hf : followed o c with
    | true =>
      have hdir : c.dir = true := by simp only [entersF, Bool.and_eq_true] at hent; exact hent.1.1
      have hnot : (x.path :: chain).contains c.path = false := by
        simpa [loopsF, hf, hdir] using hloop
      obtain ⟨te, hte⟩ : ∃ te, alLookup c.path snap = some te := by
        cases hl' : alLookup c.path snap with
        | none => simp [childrenF, listingNames, hf, hl'] at hch
        | some te => exact ⟨te, rfl⟩
      have h1 := notIn_cons_lt hte hnot
      have h2 := pot_le snap c.path
      have h3 := Nat.mul_le_mul_right (snap.length + 1) (Nat.succ_le_of_lt h1)
      have h4 := Nat.succ_mul (notIn snap (c.path :: x.path :: chain)) (snap.length + 1)
      omega
    | false =>
      have hcraw : c = raw := by
        rw [hcr] at hf ⊢
        simp only [followed, present, doFollow_link] at hf
        unfold present Entry.doFollow
        rw [if_neg]
        rintro ⟨h1, h2, _⟩
        simp [h1, h2] at hf
      have hp : c.path = x.path ++ [n] := by rw [hcraw]; exact (wf_lookup hwf hl).1
      rw [hp]
      have h1 := notIn_cons_le snap (x.path ++ [n]) (x.path :: chain)
      have h3 := Nat.mul_le_mul_right (snap.length + 1) h1
      omega
  · omega

theorem walkF_fuel_irrel {snap : Snap} (hwf : SnapWf snap) (o : Opts) :
    ∀ (k k' : Nat) (chain : List FsPath) (e : Entry) (d : Nat),
      mu snap o chain e d < k → mu snap o chain e d < k' → walkF snap o k chain e d = walkF snap o k' chain e d
  | 0, _, _, _, _, h, _ => by omega
  | _ + 1, 0, _, _, _, _, h => by omega
  | k + 1, k' + 1, chain, e, d, h, h' => by
    simp only [walkF]
    split
    · rfl
    · rename_i hloop
      split
      · rename_i hent
        cases hch : childrenF snap o e with
        | none => rfl
        | some kids =>
          have hk : seqF (fun c => walkF snap o k (e.path :: chain) c (d + 1)) kids =
              seqF (fun c => walkF snap o k' (e.path :: chain) c (d + 1)) kids := by
            cases kids with
            | nil => rfl
            | cons c0 cs =>
              have hrec : recurses snap o chain e d = true := by simp [recurses, hloop, hent, hch]
              have hmu : mu snap o chain e d =
                  notIn snap (e.path :: chain) * (snap.length + 1) + pot snap e.path := by simp [mu, hrec]
              apply seqF_congr
              intro c hc
              have := mu_child hwf (chain := chain) (d := d) hch hc
              exact walkF_fuel_irrel hwf o k k' _ c _ (by omega) (by omega)
          simp only [hk]
      · rfl

/-! ## Part E: the machine as a one-level loop -/

/-- the `descend` part of `process` (with `noPre`), without the consumer's state -/
def descP (snap : Snap) (o : Opts) (st : ISt) (e : Entry) : Option (Outcome Entry) × ISt :=
  if e.dir ∧ (!e.link ∨ o.follow) then
    if e.link ∧ st.iters.any (fun x => x.path = e.path) then (some (.err .linkLooping), st)
    else if st.iters.length < o.maxDepth then
      match mkIter snap o e.path with
      | .ok it =>
        if o.sorted ∨ st.openDesc + 1 > o.maxDesc then
          (none, { st with iters := { it with cached := true } :: st.iters })
        else (none, { st with iters := it :: st.iters, openDesc := st.openDesc + 1 })
      | .err k => (some (.err k), st)
      | .panic => (some .panic, st)
      | .hang => (some .hang, st)
    else (none, st)
  else (none, st)

/-- the yield decision of `process` -/
def finP (o : Opts) (depth : Nat) (e : Entry) (st' : ISt) : Option (Outcome Entry) × ISt :=
  if depth < o.minDepth then (none, st')
  else if (o.files ∧ !e.file) ∨ (!o.files ∧ o.dirs ∧ !e.dir) then (none, st')
  else if e.dir ∧ o.contentsFirst then (none, { st' with deferred := (depth, e) :: st'.deferred })
  else (some (.ok e), st')

def procP (snap : Snap) (o : Opts) (st : ISt) (e : Entry) : Option (Outcome Entry) × ISt :=
  match descP snap o st e with
  | (some r, st') => (some r, st')
  | (none, st') => finP o st.iters.length e st'

theorem process_w {σ} (snap : Snap) (o : Opts) (st : ISt) (e : Entry) (w : σ) :
    process snap o noPre st e w = ((procP snap o st e).1, (procP snap o st e).2, w) := by
  unfold procP descP finP process
  simp only [noPre]
  by_cases h1 : e.dir = true ∧ ((!e.link) = true ∨ o.follow = true)
  · simp only [if_pos h1]
    by_cases h2 : e.link = true ∧ (st.iters.any (fun x => x.path = e.path)) = true
    · simp only [if_pos h2]
    · simp only [if_neg h2]
      by_cases h3 : st.iters.length < o.maxDepth
      · simp only [if_pos h3]
        cases hm : mkIter snap o e.path with
        | ok it =>
          by_cases h4 : (o.sorted = true ∨ st.openDesc + 1 > o.maxDesc)
          · simp only [if_pos h4]; (repeat' split) <;> rfl
          · simp only [if_neg h4]; (repeat' split) <;> rfl
        | err k => simp only []
        | panic => simp only []
        | hang => simp only []
      · simp only [if_neg h3]; (repeat' split) <;> rfl
  · simp only [if_neg h1]; (repeat' split) <;> rfl

theorem descP_started (snap : Snap) (o : Opts) (st : ISt) (e : Entry) :
    (descP snap o st e).2.started = st.started := by
  unfold descP
  repeat' split
  all_goals rfl

theorem procP_started (snap : Snap) (o : Opts) (st : ISt) (e : Entry) :
    (procP snap o st e).2.started = st.started := by
  have := descP_started snap o st e
  unfold procP finP
  split
  · rename_i h; rw [h] at this; exact this
  · rename_i h; rw [h] at this
    repeat' split
    all_goals exact this

/-- the consumer of `collectEntries` -/
def stepCons : Entry → List Entry → Outcome Unit × List Entry := fun e acc => (.ok (), e :: acc)

/-- the whole iteration as ONE loop: every turn of `nextLoop`'s `while` is one step, a yield hands
    the entry to the consumer and goes on -/
def drive (snap : Snap) (o : Opts) : Nat → ISt → List Entry → Outcome Unit × List Entry
  | 0, _, acc => (.hang, acc)
  | n + 1, st, acc =>
    match st.iters with
    | [] =>
      if o.contentsFirst then
        match st.deferred with
        | d :: ds => drive snap o n { st with deferred := ds } (d.2 :: acc)
        | [] => (.ok (), acc)
      else (.ok (), acc)
    | top :: below =>
      if o.contentsFirst ∧ deferredReady st.iters.length st.deferred then
        match st.deferred with
        | d :: ds => drive snap o n { st with deferred := ds } (d.2 :: acc)
        | [] => (.ok (), acc)
      else
        match top.items with
        | x :: xs =>
          match procP snap o { st with iters := { top with items := xs } :: below } (x.doFollow o.follow) with
          | (some (.ok e), st2) => drive snap o n st2 (e :: acc)
          | (some (.err k), _) => (.err k, acc)
          | (some .panic, _) => (.panic, acc)
          | (some .hang, _) => (.hang, acc)
          | (none, st2) => drive snap o n st2 acc
        | [] =>
          drive snap o n { st with iters := below, openDesc := if top.cached then st.openDesc else st.openDesc - 1 } acc

/-- what one call of `nextLoop` does, in terms of `drive` -/
def NextOk (snap : Snap) (o : Opts) (n : Nat) (st : ISt) (acc : List Entry) (r : Outcome Unit) (acc' : List Entry) :
    Option (Outcome Entry) × ISt × List Entry → Prop
  | (none, _, w) => r = .ok () ∧ acc' = acc ∧ w = acc
  | (some (.ok e), st', w) => w = acc ∧ st'.started = st.started ∧ ∃ n', n' < n ∧ drive snap o n' st' (e :: acc) = (r, acc')
  | (some (.err k), _, w) => r = .err k ∧ acc' = acc ∧ w = acc
  | (some .panic, _, w) => r = .panic ∧ acc' = acc ∧ w = acc
  | (some .hang, _, _) => False

theorem nextLoop_drive (snap : Snap) (o : Opts) : ∀ (n : Nat) (st : ISt) (acc : List Entry) (r : Outcome Unit)
    (acc' : List Entry), drive snap o n st acc = (r, acc') → r ≠ .hang → ∀ g, n ≤ g →
      NextOk snap o n st acc r acc' (nextLoop snap o noPre g st acc)
  | 0, _, _, _, _, h, hr, _, _ => by simp [drive] at h; exact absurd h.1.symm hr
  | n + 1, st, acc, r, acc', h, hr, 0, hg => by omega
  | n + 1, st, acc, r, acc', h, hr, g + 1, hg => by
    obtain ⟨started, openDesc, iters, deferred⟩ := st
    cases iters with
    | nil =>
      by_cases hcf : o.contentsFirst = true
      · cases deferred with
        | nil =>
          have hn : nextLoop snap o noPre (g + 1) ⟨started, openDesc, [], []⟩ acc =
              (none, ⟨started, openDesc, [], []⟩, acc) := by simp only [nextLoop, hcf, if_true]
          rw [hn]
          simp only [drive, hcf, if_true] at h
          cases h
          exact ⟨rfl, rfl, rfl⟩
        | cons d ds =>
          have hn : nextLoop snap o noPre (g + 1) ⟨started, openDesc, [], d :: ds⟩ acc =
              (some (.ok d.2), ⟨started, openDesc, [], ds⟩, acc) := by simp only [nextLoop, hcf, if_true]
          rw [hn]
          simp only [drive, hcf, if_true] at h
          exact ⟨rfl, rfl, n, Nat.lt_succ_self _, h⟩
      · have hn : nextLoop snap o noPre (g + 1) ⟨started, openDesc, [], deferred⟩ acc =
            (none, ⟨started, openDesc, [], deferred⟩, acc) := by
          simp only [nextLoop, hcf, Bool.false_eq_true, if_false]
        rw [hn]
        simp only [drive, hcf, Bool.false_eq_true, if_false] at h
        cases h
        exact ⟨rfl, rfl, rfl⟩
    | cons top below =>
      by_cases hdef : o.contentsFirst = true ∧ deferredReady (top :: below).length deferred = true
      · cases deferred with
        | nil => simp [deferredReady] at hdef
        | cons d ds =>
          have hn : nextLoop snap o noPre (g + 1) ⟨started, openDesc, top :: below, d :: ds⟩ acc =
              (some (.ok d.2), ⟨started, openDesc, top :: below, ds⟩, acc) := by
            simp only [nextLoop, hdef, and_self, if_true]
          rw [hn]
          simp only [drive, hdef, and_self, if_true] at h
          exact ⟨rfl, rfl, n, Nat.lt_succ_self _, h⟩
      · obtain ⟨tp, tc, items⟩ := top
        cases items with
        | nil =>
          have hn : nextLoop snap o noPre (g + 1) ⟨started, openDesc, ⟨tp, tc, []⟩ :: below, deferred⟩ acc =
              nextLoop snap o noPre g ⟨started, if tc then openDesc else openDesc - 1, below, deferred⟩ acc := by
            simp only [nextLoop, hdef, if_false]
          rw [hn]
          simp only [drive, hdef, if_false] at h
          have ih := nextLoop_drive snap o n _ acc r acc' h hr g (by omega)
          revert ih
          generalize nextLoop snap o noPre g _ acc = R
          obtain ⟨ro, st', w⟩ := R
          cases ro with
          | none => exact id
          | some oc =>
            cases oc with
            | ok e => rintro ⟨a, b, n', c, d⟩; exact ⟨a, b, n', by omega, d⟩
            | err k => exact id
            | panic => exact id
            | hang => exact id
        | cons x xs =>
          have hn : nextLoop snap o noPre (g + 1) ⟨started, openDesc, ⟨tp, tc, x :: xs⟩ :: below, deferred⟩ acc =
              match procP snap o ⟨started, openDesc, ⟨tp, tc, xs⟩ :: below, deferred⟩ (x.doFollow o.follow) with
              | (some r, st2) => (some r, st2, acc)
              | (none, st2) => nextLoop snap o noPre g st2 acc := by
            simp only [nextLoop, hdef, if_false, process_w]
            generalize procP snap o ⟨started, openDesc, ⟨tp, tc, xs⟩ :: below, deferred⟩ (x.doFollow o.follow) = P
            obtain ⟨ro, st2⟩ := P
            cases ro <;> rfl
          rw [hn]
          simp only [drive, hdef, if_false] at h
          have hst := procP_started snap o ⟨started, openDesc, ⟨tp, tc, xs⟩ :: below, deferred⟩ (x.doFollow o.follow)
          revert h hst
          generalize procP snap o ⟨started, openDesc, ⟨tp, tc, xs⟩ :: below, deferred⟩ (x.doFollow o.follow) = P
          obtain ⟨ro, st2⟩ := P
          intro h hst
          cases ro with
          | none =>
            simp only [] at h ⊢
            have ih := nextLoop_drive snap o n st2 acc r acc' h hr g (by omega)
            revert ih
            generalize nextLoop snap o noPre g st2 acc = R
            obtain ⟨ro, st', w⟩ := R
            cases ro with
            | none => exact id
            | some oc =>
              cases oc with
              | ok e => rintro ⟨a, b, n', c, d⟩; exact ⟨a, b.trans hst, n', by omega, d⟩
              | err k => exact id
              | panic => exact id
              | hang => exact id
          | some oc =>
            cases oc with
            | ok e => simp only [] at h ⊢; exact ⟨rfl, hst, n, Nat.lt_succ_self _, h⟩
            | err k => simp only [] at h ⊢; cases h; exact ⟨rfl, rfl, rfl⟩
            | panic => simp only [] at h ⊢; cases h; exact ⟨rfl, rfl, rfl⟩
            | hang => simp only [] at h; cases h; exact absurd rfl hr

theorem runIter_drive (snap : Snap) (o : Opts) (rootE : Entry) : ∀ (n : Nat) (st : ISt) (acc : List Entry)
    (r : Outcome Unit) (acc' : List Entry), st.started = true → drive snap o n st acc = (r, acc') → r ≠ .hang →
      ∀ f, n ≤ f → runIter snap o noPre rootE stepCons f st acc = (r, acc') := by
  intro n
  induction n using Nat.strongRecOn with
  | _ n ih =>
    intro st acc r acc' hs h hr f hf
    cases f with
    | zero =>
      have : n = 0 := by omega
      subst this
      simp [drive] at h; exact absurd h.1.symm hr
    | succ g =>
      have hN := nextLoop_drive snap o n st acc r acc' h hr (g + 1) hf
      unfold runIter
      have hne : nextE snap o noPre rootE (g + 1) st acc = nextLoop snap o noPre (g + 1) st acc := by
        simp [nextE, hs]
      rw [hne]
      revert hN
      generalize nextLoop snap o noPre (g + 1) st acc = R
      obtain ⟨ro, st', w⟩ := R
      cases ro with
      | none => rintro ⟨a, b, c⟩; subst a b c; rfl
      | some oc =>
        cases oc with
        | ok e =>
          rintro ⟨a, b, n', c, d⟩
          rw [a]
          simp only [stepCons]
          exact ih n' c st' (e :: acc) r acc' (b.trans hs) d hr g (by omega)
        | err k => rintro ⟨a, b, c⟩; subst a b c; rfl
        | panic => rintro ⟨a, b, c⟩; subst a b c; rfl
        | hang => intro h; exact h.elim

theorem loops_iff {o : Opts} (hfol : o.follow = true) (x : Entry) (its : List EIter) :
    ((x.dir = true ∧ ((!x.link) = true ∨ o.follow = true)) ∧
      (x.link = true ∧ (its.any (fun i => decide (i.path = x.path))) = true)) ↔
      loopsF o (its.map (·.path)) x = true := by
  simp only [loopsF, followed, hfol, Bool.true_and, Bool.and_eq_true, List.contains_iff_mem, List.mem_map,
    List.any_eq_true, decide_eq_true_eq, or_true, and_true]
  constructor
  · rintro ⟨h1, h2, i, hi, hp⟩; exact ⟨⟨h2, h1⟩, i, hi, hp⟩
  · rintro ⟨⟨h2, h1⟩, i, hi, hp⟩; exact ⟨h1, h2, i, hi, hp⟩

theorem descP_spec {snap : Snap} (hwf : SnapWf snap) {o : Opts} (hfol : o.follow = true) (hord : OrdOk o)
    {x : Entry} (hx : PresOk snap o x) (b : Bool) (od : Nat) (its : List EIter) (D : List (Nat × Entry)) :
    descP snap o ⟨b, od, its, D⟩ x =
      if loopsF o (its.map (·.path)) x then (some (.err .linkLooping), ⟨b, od, its, D⟩)
      else if entersF o x its.length then
        match childrenF snap o x with
        | none => (some (.err .doesNotExist), ⟨b, od, its, D⟩)
        | some kids =>
          (none, if o.sorted = true ∨ od + 1 > o.maxDesc then ⟨b, od, ⟨x.path, true, kids⟩ :: its, D⟩
                 else ⟨b, od + 1, ⟨x.path, o.sorted, kids⟩ :: its, D⟩)
      else (none, ⟨b, od, its, D⟩) := by
  unfold descP
  by_cases hl : loopsF o (its.map (·.path)) x = true
  · have := (loops_iff hfol x its).mpr hl
    simp only [if_pos this.1, if_pos this.2, if_pos hl]
  · have hl' := mt (loops_iff hfol x its).mp hl
    simp only [if_neg hl]
    by_cases h1 : x.dir = true ∧ ((!x.link) = true ∨ o.follow = true)
    · have h2 : ¬ (x.link = true ∧ (its.any (fun i => decide (i.path = x.path))) = true) := fun h => hl' ⟨h1, h⟩
      simp only [if_pos h1, if_neg h2]
      by_cases h3 : its.length < o.maxDepth
      · have he : entersF o x its.length = true := by simp [entersF, h1.1, hfol, h3]
        simp only [if_pos h3, if_pos he]
        rcases childrenF_mkIter hwf hord hx with ⟨hc, hm⟩ | ⟨kids, hc, hm⟩
        · simp only [hc, hm]
        · simp only [hc, hm]
          split <;> rfl
      · have he : ¬ entersF o x its.length = true := by simp [entersF, h3]
        simp only [if_neg h3, if_neg he]
    · have he : ¬ entersF o x its.length = true := by
        simp only [hfol, or_true, and_true] at h1
        simp [entersF, h1]
      simp only [if_neg h1, if_neg he]

/-! ## Part F: `drive` against `walkF` -/

/-- continue after `process` -/
def after (snap : Snap) (o : Opts) (n : Nat) (P : Option (Outcome Entry) × ISt) (acc : List Entry) :
    Outcome Unit × List Entry :=
  match P with
  | (some (.ok e), st2) => drive snap o n st2 (e :: acc)
  | (some (.err k), _) => (.err k, acc)
  | (some .panic, _) => (.panic, acc)
  | (some .hang, _) => (.hang, acc)
  | (none, st2) => drive snap o n st2 acc

/-- the deferred stack against a stack of `n` open directories, while their contents are being
    processed: every deferred directory was found at a depth below `n` (it owns one of the open
    frames, or an enclosing directory does) -/
def DA (o : Opts) (n : Nat) (D : List (Nat × Entry)) : Prop :=
  o.contentsFirst = true → ∀ d ∈ D, d.1 < n

theorem DA.notReady {o : Opts} {n : Nat} {D : List (Nat × Entry)} (h : DA o (n + 1) D) :
    ¬ (o.contentsFirst = true ∧ deferredReady (n + 1) D = true) := by
  rintro ⟨hcf, hr⟩
  cases D with
  | nil => simp [deferredReady] at hr
  | cons d ds =>
    obtain ⟨dd, de⟩ := d
    have := h hcf (dd, de) List.mem_cons_self
    simp only [deferredReady, decide_eq_true_eq] at hr this
    omega

theorem drive_cons {snap : Snap} {o : Opts} (n : Nat) (b : Bool) (od : Nat)
    (tp : FsPath) (tc : Bool) (x : Entry) (xs : List Entry) (below : List EIter) (D : List (Nat × Entry)) (acc : List Entry)
    (hD : DA o (below.length + 1) D) :
    drive snap o (n + 1) ⟨b, od, ⟨tp, tc, x :: xs⟩ :: below, D⟩ acc =
      after snap o n (procP snap o ⟨b, od, ⟨tp, tc, xs⟩ :: below, D⟩ (x.doFollow o.follow)) acc := by
  have hnd : ¬ (o.contentsFirst = true ∧ deferredReady (⟨tp, tc, x :: xs⟩ :: below : List EIter).length D = true) := by
    simpa using hD.notReady
  simp only [drive, hnd, if_false]
  unfold after
  generalize procP snap o ⟨b, od, ⟨tp, tc, xs⟩ :: below, D⟩ (x.doFollow o.follow) = P
  obtain ⟨ro, st2⟩ := P
  cases ro with
  | none => rfl
  | some oc => cases oc <;> rfl

theorem drive_pop {snap : Snap} {o : Opts} (n : Nat) (b : Bool) (od : Nat)
    (tp : FsPath) (tc : Bool) (below : List EIter) (D : List (Nat × Entry)) (acc : List Entry)
    (hD : DA o (below.length + 1) D) :
    drive snap o (n + 1) ⟨b, od, ⟨tp, tc, []⟩ :: below, D⟩ acc =
      drive snap o n ⟨b, if tc then od else od - 1, below, D⟩ acc := by
  have hnd : ¬ (o.contentsFirst = true ∧ deferredReady (⟨tp, tc, []⟩ :: below : List EIter).length D = true) := by
    simpa using hD.notReady
  simp only [drive, hnd, if_false]

theorem drive_end {snap : Snap} {o : Opts} (n : Nat) (b : Bool) (od : Nat) (acc : List Entry) :
    drive snap o (n + 1) ⟨b, od, [], []⟩ acc = (.ok (), acc) := by
  simp only [drive]
  split <;> rfl

/-- a deferred directory found at the depth of the current stack is released at once -/
theorem drive_def {snap : Snap} {o : Opts} (hcf : o.contentsFirst = true) (n : Nat) (b : Bool) (od : Nat)
    (its : List EIter) (d : Entry) (ds : List (Nat × Entry)) (acc : List Entry) :
    drive snap o (n + 1) ⟨b, od, its, (its.length, d) :: ds⟩ acc = drive snap o n ⟨b, od, its, ds⟩ (d :: acc) := by
  cases its with
  | nil => simp only [drive, hcf, if_true]
  | cons top below =>
    have hd : o.contentsFirst = true ∧ deferredReady (top :: below).length (((top :: below).length, d) :: ds) = true :=
      ⟨hcf, by simp [deferredReady]⟩
    simp only [drive, hd, and_self, if_true]

/-- the option domain of the exactness theorem (as `ExactDom`, with links followed) -/
def DomF (o : Opts) : Prop :=
  (o.contentsFirst = false ∧ KindOk o) ∨
  (o.contentsFirst = true ∧ o.minDepth = 0 ∧ o.files = false ∧ o.dirs = false)

/-- the option domain after the repairs of `process` / `next` (a directory is deferred only if it
    passed the kind filter and the depth window; it is released when the stack of open directories
    is back at the depth it was found at): only the exclusiveness of the kind filters is left -/
def DomFW (o : Opts) : Prop := KindOk o

theorem DomF.toW {o : Opts} (h : DomF o) : DomFW o := by
  rcases h with h | ⟨_, _, h3, _⟩
  · exact h.2
  · unfold DomFW KindOk; simp [h3]

theorem finP_pf {o : Opts} (hcf : o.contentsFirst = false) (hk : KindOk o) (d : Nat) (x : Entry) (s : ISt) :
    finP o d x s = (if selected o x d then some (.ok x) else none, s) := by
  unfold finP
  have hsel := selected_model hk x d
  by_cases hs : selected o x d = true
  · obtain ⟨ha, hb⟩ := hsel.mpr hs
    simp only [hs, if_true, ha, if_false, hcf, Bool.false_eq_true, and_false, hb]
  · have := mt hsel.mp hs
    simp only [hs, if_false, hcf, Bool.false_eq_true, and_false]
    split
    · rfl
    · split
      · rfl
      · rename_i ha hb; exact absurd ⟨ha, hb⟩ this

theorem finP_cf {o : Opts} (hcf : o.contentsFirst = true) (hk : KindOk o)
    (d : Nat) (x : Entry) (s : ISt) :
    finP o d x s = if selected o x d then
        (if x.dir then (none, { s with deferred := (d, x) :: s.deferred }) else (some (.ok x), s))
      else (none, s) := by
  unfold finP
  have hsel := selected_model hk x d
  by_cases hs : selected o x d = true
  · obtain ⟨ha, hb⟩ := hsel.mpr hs
    simp only [hs, if_true, ha, if_false, hb, hcf, and_true]
  · have := mt hsel.mp hs
    simp only [hs, Bool.false_eq_true, if_false]
    split
    · rfl
    · split
      · rfl
      · rename_i ha hb; exact absurd ⟨ha, hb⟩ this

theorem after_fin (snap : Snap) (o : Opts) (m : Nat) (c : Bool) (x : Entry) (s : ISt) (acc : List Entry) :
    after snap o m (if c then some (.ok x) else none, s) acc =
      drive snap o m s ((if c then [x] else []).reverse ++ acc) := by
  cases c <;> simp [after]

/-- an entry that is not entered: yielded or not, at most one extra step (the deferred yield) -/
theorem fin_leaf {snap : Snap} {o : Opts} (hdom : DomFW o) (b : Bool) (od : Nat) (its : List EIter) (D : List (Nat × Entry))
    (_hD : DA o its.length D) (x : Entry) :
    ∃ T, T ≤ 1 ∧ ∀ n acc, after snap o (n + T) (finP o its.length x ⟨b, od, its, D⟩) acc =
      drive snap o n ⟨b, od, its, D⟩ ((if selected o x its.length then [x] else []).reverse ++ acc) := by
  cases hcf : o.contentsFirst with
  | false => exact ⟨0, by omega, fun n acc => by rw [finP_pf hcf hdom, after_fin]; rfl⟩
  | true =>
    rw [finP_cf hcf hdom]
    cases hsel : selected o x its.length with
    | false => exact ⟨0, by omega, fun n acc => by simp [after]⟩
    | true =>
      cases hxd : x.dir with
      | true =>
        refine ⟨1, by omega, fun n acc => ?_⟩
        simp only [if_true, after]
        rw [drive_def hcf]
        simp
      | false => exact ⟨0, by omega, fun n acc => by simp [after]⟩

/-- an entry that is entered: what happens before its contents (`pre`) and after them (`post`) -/
theorem fin_enter {snap : Snap} {o : Opts} (hdom : DomFW o) (b : Bool) (its : List EIter) (D : List (Nat × Entry))
    (hD : DA o its.length D) (x : Entry) (hxd : x.dir = true) :
    ∃ (D' : List (Nat × Entry)) (pre post : List Entry), DA o (its.length + 1) D' ∧ post.length ≤ 1 ∧
      (∀ od1 fr m acc, after snap o m (finP o its.length x ⟨b, od1, fr :: its, D⟩) acc =
        drive snap o m ⟨b, od1, fr :: its, D'⟩ (pre.reverse ++ acc)) ∧
      (∀ od2 n acc, drive snap o (n + post.length) ⟨b, od2, its, D'⟩ acc =
        drive snap o n ⟨b, od2, its, D⟩ (post.reverse ++ acc)) ∧
      (∀ below : List Entry, (if o.contentsFirst && x.dir then below ++ (if selected o x its.length then [x] else [])
          else (if selected o x its.length then [x] else []) ++ below) = pre ++ below ++ post) ∧
      (∀ below : List Entry, (if o.contentsFirst && x.dir then below
          else (if selected o x its.length then [x] else []) ++ below) = pre ++ below) := by
  cases hcf : o.contentsFirst with
  | false =>
    refine ⟨D, if selected o x its.length then [x] else [], [], (fun h => by rw [hcf] at h; cases h), by simp, ?_, ?_, ?_, ?_⟩
    · intro od1 fr m acc; rw [finP_pf hcf hdom, after_fin]
    · intro od2 n acc; rfl
    · intro below; simp
    · intro below; simp
  | true =>
    have hD0 := hD hcf
    cases hsel : selected o x its.length with
    | false =>
      refine ⟨D, [], [], (fun _ d hd => by have := hD0 d hd; omega), by simp, ?_, ?_, ?_, ?_⟩
      · intro od1 fr m acc
        rw [finP_cf hcf hdom]
        simp [hsel, after]
      · intro od2 n acc; rfl
      · intro below; simp [hxd]
      · intro below; simp [hxd]
    | true =>
      refine ⟨(its.length, x) :: D, [], [x], ?_, by simp, ?_, ?_, ?_, ?_⟩
      · intro _ d hd
        rcases List.mem_cons.mp hd with rfl | hd
        · simp
        · have := hD0 d hd; omega
      · intro od1 fr m acc
        rw [finP_cf hcf hdom]
        simp [hsel, hxd, after]
      · intro od2 n acc
        rw [List.length_singleton, drive_def hcf]
        simp
      · intro below; simp [hxd]
      · intro below; simp [hxd]

/-- number of entries the full walk visits (an upper bound when an error cuts it short) -/
def sizeF (snap : Snap) (o : Opts) : Nat → List FsPath → Entry → Nat → Nat
  | 0, _, _, _ => 1
  | k + 1, chain, e, d =>
    1 + (if loopsF o chain e then 0
         else if entersF o e d then
           match childrenF snap o e with
           | none => 0
           | some kids => (kids.map (fun c => sizeF snap o k (e.path :: chain) c (d + 1))).sum
         else 0)

def SubOk (snap : Snap) (o : Opts) (P : Option (Outcome Entry) × ISt) (b : Bool) (its : List EIter) (D : List (Nat × Entry))
    (B : Nat) : WalkRes → Prop
  | (ys, none) => ∃ T od', T + 1 ≤ B ∧
      ∀ n acc, after snap o (n + T) P acc = drive snap o n ⟨b, od', its, D⟩ (ys.reverse ++ acc)
  | (ys, some e) => ∃ T, T + 1 ≤ B ∧ ∀ n acc, after snap o (n + T) P acc = (.err e, ys.reverse ++ acc)

def SeqOk (snap : Snap) (o : Opts) (s : ISt) (b : Bool) (tp : FsPath) (tc : Bool) (below : List EIter) (D : List (Nat × Entry))
    (B : Nat) : WalkRes → Prop
  | (ys, none) => ∃ T od', T ≤ B ∧ ∀ n acc,
      drive snap o (n + T) s acc = drive snap o n ⟨b, od', ⟨tp, tc, []⟩ :: below, D⟩ (ys.reverse ++ acc)
  | (ys, some e) => ∃ T, T ≤ B ∧ ∀ n acc, drive snap o (n + T) s acc = (.err e, ys.reverse ++ acc)

section sim
variable {snap : Snap} {o : Opts}

theorem seq_sim (k : Nat) (b : Bool) (tp : FsPath) (tc : Bool) (below : List EIter)
    (D : List (Nat × Entry)) (hD : DA o (below.length + 1) D)
    (ih : ∀ (x : Entry) (od : Nat) (its : List EIter), DA o its.length D →
      PresOk snap o x → mu snap o (its.map (·.path)) x its.length < k →
      SubOk snap o (procP snap o ⟨b, od, its, D⟩ x) b its D (3 * sizeF snap o k (its.map (·.path)) x its.length)
        (walkF snap o k (its.map (·.path)) x its.length)) :
    ∀ (items : List Entry) (od : Nat),
      (∀ x ∈ items, PresOk snap o x ∧ mu snap o (tp :: below.map (·.path)) x (below.length + 1) < k) →
      SeqOk snap o ⟨b, od, ⟨tp, tc, items⟩ :: below, D⟩ b tp tc below D
        (3 * (items.map (fun c => sizeF snap o k (tp :: below.map (·.path)) c (below.length + 1))).sum)
        (seqF (fun c => walkF snap o k (tp :: below.map (·.path)) c (below.length + 1)) items)
  | [], od, _ => ⟨0, od, by simp, fun n acc => by simp⟩
  | x :: xs, od, h => by
    obtain ⟨hx, hmu⟩ := h x List.mem_cons_self
    have h1 := ih x od (⟨tp, tc, xs⟩ :: below) (by simpa using hD) hx (by simpa using hmu)
    simp only [List.map_cons, List.length_cons] at h1
    have hdc : ∀ m acc, drive snap o (m + 1) ⟨b, od, ⟨tp, tc, x :: xs⟩ :: below, D⟩ acc =
        after snap o m (procP snap o ⟨b, od, ⟨tp, tc, xs⟩ :: below, D⟩ x) acc := by
      intro m acc; rw [drive_cons _ _ _ _ _ _ _ _ _ _ hD, hx.present_self]
    simp only [seqF, List.map_cons, List.sum_cons]
    revert h1
    generalize walkF snap o k (tp :: below.map (·.path)) x (below.length + 1) = R
    obtain ⟨ys, r⟩ := R
    cases r with
    | some e =>
      rintro ⟨T, hB, hT⟩
      exact ⟨T + 1, by omega, fun n acc => by rw [← Nat.add_assoc, hdc, hT]⟩
    | none =>
      rintro ⟨T, od1, hB, hT⟩
      have h2 := seq_sim k b tp tc below D hD ih xs od1 (fun y hy => h y (List.mem_cons_of_mem _ hy))
      revert h2
      generalize seqF (fun c => walkF snap o k (tp :: below.map (·.path)) c (below.length + 1)) xs = R2
      obtain ⟨zs, r2⟩ := R2
      cases r2 with
      | some e =>
        rintro ⟨T2, hB2, hT2⟩
        refine ⟨T2 + T + 1, by omega, fun n acc => ?_⟩
        rw [← Nat.add_assoc, hdc, ← Nat.add_assoc, hT, hT2]
        simp
      | none =>
        rintro ⟨T2, od2, hB2, hT2⟩
        refine ⟨T2 + T + 1, od2, by omega, fun n acc => ?_⟩
        rw [← Nat.add_assoc, hdc, ← Nat.add_assoc, hT, hT2]
        simp

theorem sub_sim (hwf : SnapWf snap) (hfol : o.follow = true) (hord : OrdOk o) (hdom : DomFW o) (b : Bool) :
    ∀ (k : Nat) (D : List (Nat × Entry)) (x : Entry) (od : Nat) (its : List EIter),
      DA o its.length D → PresOk snap o x →
      mu snap o (its.map (·.path)) x its.length < k →
      SubOk snap o (procP snap o ⟨b, od, its, D⟩ x) b its D (3 * sizeF snap o k (its.map (·.path)) x its.length)
        (walkF snap o k (its.map (·.path)) x its.length)
  | 0, _, _, _, _, _, _, h => by omega
  | k + 1, D, x, od, its, hD, hx, hmu => by
    have hproc : procP snap o ⟨b, od, its, D⟩ x =
        match descP snap o ⟨b, od, its, D⟩ x with
        | (some r, st') => (some r, st')
        | (none, st') => finP o its.length x st' := rfl
    rw [hproc, descP_spec hwf hfol hord hx]
    simp only [walkF, sizeF]
    by_cases hl : loopsF o (its.map (·.path)) x = true
    · simp only [hl, if_true]
      exact ⟨0, by omega, fun n acc => by simp [after]⟩
    · simp only [hl, if_false, Bool.false_eq_true]
      by_cases he : entersF o x its.length = true
      · simp only [he, if_true]
        have hxd : x.dir = true := by simp only [entersF, Bool.and_eq_true] at he; exact he.1.1
        cases hc : childrenF snap o x with
        | none =>
          simp only []
          exact ⟨0, by omega, fun n acc => by simp [after]⟩
        | some kids =>
          simp only []
          obtain ⟨od1, c1, hs1⟩ : ∃ od1 c1, (if o.sorted = true ∨ od + 1 > o.maxDesc then
              (⟨b, od, ⟨x.path, true, kids⟩ :: its, D⟩ : ISt) else ⟨b, od + 1, ⟨x.path, o.sorted, kids⟩ :: its, D⟩) =
              ⟨b, od1, ⟨x.path, c1, kids⟩ :: its, D⟩ := by
            split
            · exact ⟨_, _, rfl⟩
            · exact ⟨_, _, rfl⟩
          rw [hs1]
          obtain ⟨D', pre, post, hD', hpost, hpre, hclose, hcomb, hcombE⟩ := fin_enter (snap := snap) hdom b its D hD x hxd
          have hkids : ∀ c ∈ kids, PresOk snap o c ∧
              mu snap o (x.path :: its.map (·.path)) c (its.length + 1) < k := by
            intro c hcm
            refine ⟨presOk_child hwf hc hcm, ?_⟩
            have hrec : recurses snap o (its.map (·.path)) x its.length = true := by
              cases kids with
              | nil => cases hcm
              | cons _ _ => simp [recurses, hl, he, hc]
            have h1 := mu_child hwf (chain := its.map (·.path)) (d := its.length) hc hcm
            have h2 : mu snap o (its.map (·.path)) x its.length =
                notIn snap (x.path :: its.map (·.path)) * (snap.length + 1) + pot snap x.path := by
              simp [mu, hrec]
            omega
          have hseq := seq_sim k b x.path c1 its D' hD'
            (fun y od' its' hD'' hy hm => sub_sim hwf hfol hord hdom b k D' y od' its' hD'' hy hm) kids od1 hkids
          revert hseq
          generalize seqF (fun c => walkF snap o k (x.path :: its.map (·.path)) c (its.length + 1)) kids = R
          obtain ⟨bs, r⟩ := R
          cases r with
          | some e =>
            rintro ⟨T, hB, hT⟩
            simp only [hcombE]
            exact ⟨T, by omega, fun n acc => by rw [hpre, hT]; simp⟩
          | none =>
            rintro ⟨T, od2, hB, hT⟩
            simp only [hcomb]
            refine ⟨post.length + 1 + T, if c1 then od2 else od2 - 1, by omega, fun n acc => ?_⟩
            rw [hpre, ← Nat.add_assoc, hT, ← Nat.add_assoc, drive_pop _ _ _ _ _ _ _ _ hD', hclose]
            simp
      · simp only [he, if_false, Bool.false_eq_true]
        obtain ⟨T, hT1, hT⟩ := fin_leaf (snap := snap) hdom b od its D hD x
        exact ⟨T, od, by omega, hT⟩

end sim

/-! ### the whole iteration -/

def specOutcome : Option ErrKind → Outcome Unit
  | none => .ok ()
  | some k => .err k

theorem run_start (snap : Snap) (o : Opts) (rootE : Entry) (n : Nat) (r : Outcome Unit) (acc' : List Entry)
    (h : after snap o n (procP snap o ⟨true, 0, [], []⟩ (rootE.doFollow o.follow)) [] = (r, acc')) (hr : r ≠ .hang) :
    ∀ f, n + 1 ≤ f → runIter snap o noPre rootE stepCons f {} [] = (r, acc') := by
  intro f hf
  cases f with
  | zero => omega
  | succ g =>
    have hst := procP_started snap o ⟨true, 0, [], []⟩ (rootE.doFollow o.follow)
    have hne : nextE snap o noPre rootE (g + 1) {} ([] : List Entry) =
        match procP snap o ⟨true, 0, [], []⟩ (rootE.doFollow o.follow) with
        | (some r, st') => (some r, st', [])
        | (none, st') => nextLoop snap o noPre (g + 1) st' [] := by
      simp only [nextE, Bool.not_false, if_true, process_w]
      generalize procP snap o ⟨true, 0, [], []⟩ (rootE.doFollow o.follow) = P
      obtain ⟨ro, st2⟩ := P
      cases ro <;> rfl
    revert h hst hne
    generalize procP snap o ⟨true, 0, [], []⟩ (rootE.doFollow o.follow) = P
    obtain ⟨ro, st2⟩ := P
    intro h hst hne
    cases ro with
    | none =>
      simp only [after] at h
      have hst' : st2.started = true := hst
      have : runIter snap o noPre rootE stepCons (g + 1) {} [] = runIter snap o noPre rootE stepCons (g + 1) st2 [] := by
        unfold runIter
        rw [hne]
        simp [nextE, hst']
      rw [this]
      exact runIter_drive snap o rootE n st2 [] r acc' hst' h hr (g + 1) (by omega)
    | some oc =>
      unfold runIter
      rw [hne]
      cases oc with
      | ok e =>
        simp only [after] at h
        simp only [stepCons]
        exact runIter_drive snap o rootE n st2 [e] r acc' hst h hr g (by omega)
      | err k => simp only [after] at h; cases h; rfl
      | panic => simp only [after] at h; cases h; rfl
      | hang => simp only [after] at h; cases h; exact absurd rfl hr

/-- an upper bound of the fuel the model needs (computable) -/
def fuelNeed (snap : Snap) (o : Opts) (rootE : Entry) : Nat :=
  3 * sizeF snap o (fuelF snap) [] (present o rootE) 0 + 1

/-- links followed: with enough fuel (`fuelNeed`) the machine yields exactly the recursive walk, and
    ends with the walk's error (if any) -/
theorem runIter_exact {snap : Snap} (hwf : SnapWf snap) {o : Opts} (hfol : o.follow = true)
    (hord : OrdOk o) (hdom : DomFW o) {rootE : Entry} (hr : InSnap snap rootE) :
    ∀ f, fuelNeed snap o rootE ≤ f → runIter snap o noPre rootE stepCons f {} [] =
      (specOutcome (entriesSpecF snap o rootE).2, (entriesSpecF snap o rootE).1.reverse) := by
  have hx : PresOk snap o (present o rootE) := ⟨rootE, hr, rfl⟩
  have hsub := sub_sim hwf hfol hord hdom true (fuelF snap) [] (present o rootE) 0 [] (fun _ d hd => by cases hd) hx
    (mu_lt_fuelF _ _ _ _ _)
  simp only [List.map_nil, List.length_nil] at hsub
  unfold entriesSpecF fuelNeed
  revert hsub
  generalize walkF snap o (fuelF snap) [] (present o rootE) 0 = R
  obtain ⟨ys, r⟩ := R
  cases r with
  | some e =>
    rintro ⟨T, hB, hT⟩ f hf
    refine run_start snap o rootE T _ _ ?_ (by simp [specOutcome]) f (by omega)
    have := hT 0 []
    simpa [present, specOutcome] using this
  | none =>
    rintro ⟨T, od', hB, hT⟩ f hf
    refine run_start snap o rootE (1 + T) _ _ ?_ (by simp [specOutcome]) f (by omega)
    have := hT 1 []
    rw [drive_end] at this
    simpa [present, specOutcome] using this

/-- `collectEntries` (fuel `travFuel`) when `travFuel` is enough -/
theorem collectEntries_exactF {snap : Snap} (hwf : SnapWf snap) {o : Opts} (hfol : o.follow = true)
    (hord : OrdOk o) (hdom : DomFW o) {rootE : Entry} (hr : InSnap snap rootE)
    (hfuel : fuelNeed snap o rootE ≤ travFuel snap) :
    collectEntries snap o rootE =
      match entriesSpecF snap o rootE with
      | (ys, none) => .ok ys
      | (_, some k) => .err k := by
  have h := runIter_exact hwf hfol hord hdom hr (travFuel snap) hfuel
  unfold collectEntries
  have hs : (fun e (acc : List Entry) => ((.ok () : Outcome Unit), e :: acc)) = stepCons := rfl
  rw [hs, h]
  generalize entriesSpecF snap o rootE = R
  obtain ⟨ys, r⟩ := R
  cases r <;> simp [specOutcome]

/-! ### corollaries used by Props/C08F -/

instance (o : Opts) : Decidable (DomF o) := by unfold DomF; infer_instance
instance (o : Opts) : Decidable (DomFW o) := by unfold DomFW; infer_instance

theorem fuelF_gt (snap : Snap) : snap.length + 1 < fuelF snap := by
  unfold fuelF
  have : (snap.length + 1) * 1 ≤ (snap.length + 1) * (snap.length + 1) := Nat.mul_le_mul_left _ (by omega)
  omega

theorem entriesSpecF_no_follow {snap : Snap} (hwf : SnapWf snap) {o : Opts} (hfol : o.follow = false) {e : Entry}
    (he : InSnap snap e) : entriesSpecF snap o e = (entriesSpec snap o e, none) := by
  have hp : present o e = e := by simp [present, hfol, doFollow_false]
  unfold entriesSpecF entriesSpec
  rw [hp, walkF_no_follow hwf hfol _ _ e 0 he]
  have := fuelF_gt snap
  have hpot := pot_le snap e.path
  rw [walk_fuel_irrel hwf o (fuelF snap) (snap.length + 1) e 0 he (by omega) (by omega)]

theorem seqF_err {f : Entry → WalkRes} {P : ErrKind → Prop} : ∀ {kids : List Entry},
    (∀ c ∈ kids, ∀ k, (f c).2 = some k → P k) → ∀ k, (seqF f kids).2 = some k → P k
  | [], _, k, h => by simp [seqF] at h
  | c :: cs, hk, k, h => by
    have hc := hk c List.mem_cons_self
    have ih := seqF_err (f := f) (P := P) (kids := cs) (fun y hy => hk y (List.mem_cons_of_mem _ hy))
    simp only [seqF] at h
    revert hc h
    generalize f c = R
    obtain ⟨ys, r⟩ := R
    cases r with
    | some e => intro h hc; exact hc k h
    | none => intro h _; exact ih k h

/-- the only errors of the walk -/
theorem walkF_err (snap : Snap) (o : Opts) : ∀ (k : Nat) (chain : List FsPath) (e : Entry) (d : Nat) (kk : ErrKind),
    (walkF snap o k chain e d).2 = some kk → kk = .linkLooping ∨ kk = .doesNotExist
  | 0, _, _, _, _, h => by simp [walkF] at h
  | k + 1, chain, e, d, kk, h => by
    simp only [walkF] at h
    split at h
    · simp at h; exact Or.inl h.symm
    · split at h
      · cases hc : childrenF snap o e with
        | none => rw [hc] at h; simp at h; exact Or.inr h.symm
        | some kids =>
          rw [hc] at h
          simp only [] at h
          have hs := seqF_err (f := fun c => walkF snap o k (e.path :: chain) c (d + 1))
            (P := fun kk => kk = .linkLooping ∨ kk = .doesNotExist) (kids := kids)
            (fun c _ k' hk' => walkF_err snap o k _ c _ k' hk')
          revert hs h
          generalize seqF (fun c => walkF snap o k (e.path :: chain) c (d + 1)) kids = R
          obtain ⟨bs, r⟩ := R
          cases r with
          | some e' => intro h hs; simp at h; exact hs kk (by simp [h])
          | none => intro h; simp at h
      · simp at h

/-! ### what the walk yields -/

theorem mem_seqF {f : Entry → WalkRes} {y : Entry} : ∀ {kids : List Entry}, y ∈ (seqF f kids).1 → ∃ c ∈ kids, y ∈ (f c).1
  | [], h => by simp [seqF] at h
  | c :: cs, h => by
    simp only [seqF] at h
    revert h
    cases hc : f c with
    | mk ys r =>
      cases r with
      | some e => intro h; exact ⟨c, List.mem_cons_self, by rw [hc]; exact h⟩
      | none =>
        intro h
        simp only [List.mem_append] at h
        rcases h with h | h
        · exact ⟨c, List.mem_cons_self, by rw [hc]; exact h⟩
        · obtain ⟨c', hc', hy⟩ := mem_seqF h
          exact ⟨c', List.mem_cons_of_mem _ hc', hy⟩

/-- everything the walk yields is the root of the walk or a presented snapshot entry, and is
    selected by the depth window and the kind filter at the depth it was met -/
theorem mem_walkF {snap : Snap} (o : Opts) : ∀ (k : Nat) (chain : List FsPath) (e : Entry) (d : Nat) (y : Entry),
    y ∈ (walkF snap o k chain e d).1 →
      (y = e ∨ ∃ p n raw, alLookup (p ++ [n]) snap = some raw ∧ y = present o raw) ∧
      ∃ dy, d ≤ dy ∧ (dy = d ∨ dy ≤ o.maxDepth) ∧ selected o y dy = true
  | 0, _, _, _, _, h => by simp [walkF] at h
  | k + 1, chain, e, d, y, h => by
    have hself : y ∈ (if selected o e d then [e] else []) →
        (y = e ∨ ∃ p n raw, alLookup (p ++ [n]) snap = some raw ∧ y = present o raw) ∧
        ∃ dy, d ≤ dy ∧ (dy = d ∨ dy ≤ o.maxDepth) ∧ selected o y dy = true := by
      intro hy
      split at hy
      · rename_i hs
        rw [List.mem_singleton] at hy; subst hy
        exact ⟨Or.inl rfl, d, Nat.le_refl _, Or.inl rfl, hs⟩
      · cases hy
    simp only [walkF] at h
    split at h
    · cases h
    · split at h
      · rename_i hent
        have hmax : d < o.maxDepth := by simp only [entersF, Bool.and_eq_true, decide_eq_true_eq] at hent; exact hent.2
        cases hc : childrenF snap o e with
        | none => rw [hc] at h; cases h
        | some kids =>
          rw [hc] at h
          simp only [] at h
          have hbelow : y ∈ (seqF (fun c => walkF snap o k (e.path :: chain) c (d + 1)) kids).1 →
              (y = e ∨ ∃ p n raw, alLookup (p ++ [n]) snap = some raw ∧ y = present o raw) ∧
              ∃ dy, d ≤ dy ∧ (dy = d ∨ dy ≤ o.maxDepth) ∧ selected o y dy = true := by
            intro hy
            obtain ⟨c, hcm, hyc⟩ := mem_seqF hy
            obtain ⟨h1, dy, h2, h3, h4⟩ := mem_walkF o k _ c _ y hyc
            refine ⟨Or.inr ?_, dy, by omega, Or.inr (by omega), h4⟩
            rcases h1 with rfl | h1
            · obtain ⟨n, raw, hl, hr⟩ := mem_childrenF hc hcm
              exact ⟨e.path, n, raw, hl, hr⟩
            · exact h1
          revert h hbelow
          generalize seqF (fun c => walkF snap o k (e.path :: chain) c (d + 1)) kids = R
          obtain ⟨bs, r⟩ := R
          cases r with
          | some e' =>
            intro h hbelow
            simp only [] at h
            split at h
            · exact hbelow h
            · rcases List.mem_append.mp h with h | h
              · exact hself h
              · exact hbelow h
          | none =>
            intro h hbelow
            simp only [] at h
            split at h
            · rcases List.mem_append.mp h with h | h
              · exact hbelow h
              · exact hself h
            · rcases List.mem_append.mp h with h | h
              · exact hself h
              · exact hbelow h
      · exact hself h

/-! ## Part G: termination for every option combination (potential argument) -/

theorem sizeF_fuel_irrel {snap : Snap} (hwf : SnapWf snap) (o : Opts) :
    ∀ (k k' : Nat) (chain : List FsPath) (e : Entry) (d : Nat),
      mu snap o chain e d < k → mu snap o chain e d < k' → sizeF snap o k chain e d = sizeF snap o k' chain e d
  | 0, _, _, _, _, h, _ => by omega
  | _ + 1, 0, _, _, _, _, h => by omega
  | k + 1, k' + 1, chain, e, d, h, h' => by
    simp only [sizeF]
    congr 1
    split
    · rfl
    · rename_i hloop
      split
      · rename_i hent
        cases hch : childrenF snap o e with
        | none => rfl
        | some kids =>
          simp only []
          congr 1
          cases kids with
          | nil => rfl
          | cons c0 cs =>
            have hrec : recurses snap o chain e d = true := by simp [recurses, hloop, hent, hch]
            have hmu : mu snap o chain e d =
                notIn snap (e.path :: chain) * (snap.length + 1) + pot snap e.path := by simp [mu, hrec]
            apply List.map_congr_left
            intro c hc
            have := mu_child hwf (chain := chain) (d := d) hch hc
            exact sizeF_fuel_irrel hwf o k k' _ c _ (by omega) (by omega)
      · rfl

/-- the size of the walk of `x` with a canonical (sufficient) amount of fuel -/
def SZ (snap : Snap) (o : Opts) (chain : List FsPath) (x : Entry) (d : Nat) : Nat :=
  sizeF snap o (mu snap o chain x d + 1) chain x d

theorem sizeF_eq_SZ {snap : Snap} (hwf : SnapWf snap) (o : Opts) {k : Nat} {chain : List FsPath} {x : Entry} {d : Nat}
    (hk : mu snap o chain x d < k) : sizeF snap o k chain x d = SZ snap o chain x d :=
  sizeF_fuel_irrel hwf o _ _ _ _ _ hk (Nat.lt_succ_self _)

theorem SZ_pos (snap : Snap) (o : Opts) (chain : List FsPath) (x : Entry) (d : Nat) : 1 ≤ SZ snap o chain x d := by
  unfold SZ; simp only [sizeF]; omega

theorem SZ_enter {snap : Snap} (hwf : SnapWf snap) (o : Opts) {chain : List FsPath} {x : Entry} {d : Nat}
    (hl : ¬ loopsF o chain x = true) (he : entersF o x d = true) {kids : List Entry}
    (hc : childrenF snap o x = some kids) :
    SZ snap o chain x d = 1 + (kids.map (fun c => SZ snap o (x.path :: chain) c (d + 1))).sum := by
  have h0 : SZ snap o chain x d =
      1 + (kids.map (fun c => sizeF snap o (mu snap o chain x d) (x.path :: chain) c (d + 1))).sum := by
    show sizeF snap o (mu snap o chain x d + 1) chain x d = _
    simp only [sizeF, hl, he, hc, if_true, Bool.false_eq_true, if_false]
  rw [h0]
  congr 2
  apply List.map_congr_left
  intro c hcm
  show _ = sizeF snap o (mu snap o (x.path :: chain) c (d + 1) + 1) (x.path :: chain) c (d + 1)
  have hrec : recurses snap o chain x d = true := by
    cases kids with
    | nil => cases hcm
    | cons _ _ => simp [recurses, hl, he, hc]
  have h1 := mu_child hwf (chain := chain) (d := d) hc hcm
  have h2 : mu snap o chain x d = notIn snap (x.path :: chain) * (snap.length + 1) + pot snap x.path := by
    simp [mu, hrec]
  exact sizeF_fuel_irrel hwf o _ _ _ c _ (by omega) (Nat.lt_succ_self _)

/-- potential of the stack of directory iterators -/
def potF (snap : Snap) (o : Opts) : List EIter → Nat
  | [] => 0
  | fr :: below =>
    1 + 3 * (fr.items.map (fun c => SZ snap o (fr.path :: below.map (·.path)) c (below.length + 1))).sum +
      potF snap o below

def potSt (snap : Snap) (o : Opts) (st : ISt) : Nat := st.deferred.length + potF snap o st.iters

def FramesOkF (snap : Snap) (o : Opts) (its : List EIter) : Prop := ∀ fr ∈ its, ∀ x ∈ fr.items, PresOk snap o x

theorem finP_cases (o : Opts) (d : Nat) (x : Entry) (s : ISt) :
    ∃ r D', finP o d x s = (r, { s with deferred := D' }) ∧ (r = none ∨ r = some (.ok x)) ∧
      D'.length ≤ s.deferred.length + 1 := by
  unfold finP
  split
  · exact ⟨none, s.deferred, rfl, Or.inl rfl, by omega⟩
  · split
    · exact ⟨none, s.deferred, rfl, Or.inl rfl, by omega⟩
    · split
      · exact ⟨none, (d, x) :: s.deferred, rfl, Or.inl rfl, by simp⟩
      · exact ⟨some (.ok x), s.deferred, rfl, Or.inr rfl, by omega⟩

/-- one `process`: an error, or a state of smaller potential (by at least one after the item is
    taken from its frame) -/
theorem procP_pot {snap : Snap} (hwf : SnapWf snap) {o : Opts} (hfol : o.follow = true) (hord : OrdOk o)
    {x : Entry} (hx : PresOk snap o x) (b : Bool) (od : Nat) (its : List EIter) (D : List (Nat × Entry))
    (hok : FramesOkF snap o its) :
    (∃ k s', procP snap o ⟨b, od, its, D⟩ x = (some (.err k), s')) ∨
    (∃ r st2, procP snap o ⟨b, od, its, D⟩ x = (r, st2) ∧ (r = none ∨ r = some (.ok x)) ∧
      FramesOkF snap o st2.iters ∧
      potSt snap o st2 + 1 ≤ D.length + 3 * SZ snap o (its.map (·.path)) x its.length + potF snap o its) := by
  have hproc : procP snap o ⟨b, od, its, D⟩ x =
      match descP snap o ⟨b, od, its, D⟩ x with
      | (some r, st') => (some r, st')
      | (none, st') => finP o its.length x st' := rfl
  rw [hproc, descP_spec hwf hfol hord hx]
  have hpos := SZ_pos snap o (its.map (·.path)) x its.length
  by_cases hl : loopsF o (its.map (·.path)) x = true
  · simp only [hl, if_true]; exact Or.inl ⟨_, _, rfl⟩
  · simp only [hl, if_false, Bool.false_eq_true]
    by_cases he : entersF o x its.length = true
    · simp only [he, if_true]
      cases hc : childrenF snap o x with
      | none => simp only []; exact Or.inl ⟨_, _, rfl⟩
      | some kids =>
        simp only []
        obtain ⟨od1, c1, hs1⟩ : ∃ od1 c1, (if o.sorted = true ∨ od + 1 > o.maxDesc then
            (⟨b, od, ⟨x.path, true, kids⟩ :: its, D⟩ : ISt) else ⟨b, od + 1, ⟨x.path, o.sorted, kids⟩ :: its, D⟩) =
            ⟨b, od1, ⟨x.path, c1, kids⟩ :: its, D⟩ := by
          split
          · exact ⟨_, _, rfl⟩
          · exact ⟨_, _, rfl⟩
        rw [hs1]
        obtain ⟨r, D', h1, h2, h3⟩ := finP_cases o its.length x ⟨b, od1, ⟨x.path, c1, kids⟩ :: its, D⟩
        refine Or.inr ⟨r, _, h1, h2, ?_, ?_⟩
        · intro fr hfr y hy
          rcases List.mem_cons.mp hfr with rfl | hfr
          · exact presOk_child hwf hc hy
          · exact hok fr hfr y hy
        · have hsz := SZ_enter hwf o hl he hc
          simp only [potSt, potF] at h3 ⊢
          omega
    · simp only [he, if_false, Bool.false_eq_true]
      obtain ⟨r, D', h1, h2, h3⟩ := finP_cases o its.length x ⟨b, od, its, D⟩
      refine Or.inr ⟨r, _, h1, h2, hok, ?_⟩
      simp only [potSt] at h3 ⊢
      omega

theorem drive_term {snap : Snap} (hwf : SnapWf snap) {o : Opts} (hfol : o.follow = true) (hord : OrdOk o) :
    ∀ (n : Nat) (st : ISt) (acc : List Entry), FramesOkF snap o st.iters → potSt snap o st < n →
      ∃ r acc', drive snap o n st acc = (r, acc') ∧ r ≠ .hang
  | 0, _, _, _, h => by omega
  | n + 1, st, acc, hok, hpot => by
    obtain ⟨b, od, iters, D⟩ := st
    cases iters with
    | nil =>
      by_cases hcf : o.contentsFirst = true
      · cases D with
        | nil => simp only [drive, hcf, if_true]; exact ⟨_, _, rfl, by simp⟩
        | cons d ds =>
          simp only [drive, hcf, if_true]
          exact drive_term hwf hfol hord n _ _ hok (by simp only [potSt, List.length_cons] at hpot ⊢; omega)
      · simp only [drive, hcf, Bool.false_eq_true, if_false]; exact ⟨_, _, rfl, by simp⟩
    | cons top below =>
      by_cases hdef : o.contentsFirst = true ∧ deferredReady (top :: below).length D = true
      · cases D with
        | nil => simp [deferredReady] at hdef
        | cons d ds =>
          simp only [drive, hdef, and_self, if_true]
          exact drive_term hwf hfol hord n _ _ hok (by simp only [potSt, List.length_cons] at hpot ⊢; omega)
      · obtain ⟨tp, tc, items⟩ := top
        cases items with
        | nil =>
          simp only [drive, hdef, if_false]
          refine drive_term hwf hfol hord n _ _ (fun fr hfr => hok fr (List.mem_cons_of_mem _ hfr)) ?_
          simp only [potSt, potF] at hpot ⊢; omega
        | cons x xs =>
          have hx : PresOk snap o x := hok _ List.mem_cons_self x List.mem_cons_self
          have hok1 : FramesOkF snap o (⟨tp, tc, xs⟩ :: below) := by
            intro fr hfr y hy
            rcases List.mem_cons.mp hfr with rfl | hfr
            · exact hok _ List.mem_cons_self y (List.mem_cons_of_mem _ hy)
            · exact hok fr (List.mem_cons_of_mem _ hfr) y hy
          simp only [drive, hdef, if_false, hx.present_self]
          rcases procP_pot hwf hfol hord hx b od (⟨tp, tc, xs⟩ :: below) D hok1 with ⟨k, s', hp⟩ | ⟨r, st2, hp, hr, hok2, hpot2⟩
          · rw [hp]; exact ⟨_, _, rfl, by simp⟩
          · rw [hp]
            have hlt : potSt snap o st2 < n := by
              simp only [potSt, potF, List.map_cons, List.sum_cons, List.length_cons] at hpot hpot2 ⊢
              omega
            rcases hr with rfl | rfl
            · exact drive_term hwf hfol hord n st2 acc hok2 hlt
            · exact drive_term hwf hfol hord n st2 (x :: acc) hok2 hlt

theorem fuelNeed_eq {snap : Snap} (hwf : SnapWf snap) (o : Opts) (rootE : Entry) :
    fuelNeed snap o rootE = 3 * SZ snap o [] (present o rootE) 0 + 1 := by
  unfold fuelNeed
  rw [sizeF_eq_SZ hwf o (mu_lt_fuelF _ _ _ _ _)]

/-- links followed, EVERY option combination with `OrdOk` (kind filters, depth window,
    `contents_first` with filters, any cap): the machine ends — never `.hang` — once the fuel covers
    the size of the walk -/
theorem runIter_term {snap : Snap} (hwf : SnapWf snap) {o : Opts} (hfol : o.follow = true) (hord : OrdOk o)
    {rootE : Entry} (hr : InSnap snap rootE) :
    ∀ f, fuelNeed snap o rootE ≤ f → (runIter snap o noPre rootE stepCons f {} []).1 ≠ .hang := by
  intro f hf
  rw [fuelNeed_eq hwf] at hf
  have hx : PresOk snap o (present o rootE) := ⟨rootE, hr, rfl⟩
  have hp := procP_pot hwf hfol hord hx true 0 [] [] (fun _ h => by cases h)
  simp only [List.map_nil, List.length_nil, potF, Nat.zero_add, Nat.add_zero] at hp
  rcases hp with ⟨k, s', hp⟩ | ⟨r, st2, hp, hr', hok2, hpot2⟩
  · have := run_start snap o rootE 0 (.err k) [] (by rw [show rootE.doFollow o.follow = present o rootE from rfl, hp]; rfl)
      (by simp) f (by omega)
    rw [this]; simp
  · have hlt : potSt snap o st2 < 3 * SZ snap o [] (present o rootE) 0 := by omega
    rcases hr' with rfl | rfl
    · obtain ⟨r', acc', hd, hne⟩ := drive_term hwf hfol hord _ st2 [] hok2 hlt
      have := run_start snap o rootE _ r' acc'
        (by rw [show rootE.doFollow o.follow = present o rootE from rfl, hp]; exact hd) hne f (by omega)
      rw [this]; exact hne
    · obtain ⟨r', acc', hd, hne⟩ := drive_term hwf hfol hord _ st2 [present o rootE] hok2 hlt
      have := run_start snap o rootE _ r' acc'
        (by rw [show rootE.doFollow o.follow = present o rootE from rfl, hp]; exact hd) hne f (by omega)
      rw [this]; exact hne

/-! ## Part H: other collecting consumers (`travM` collects paths) -/

theorem nextLoop_w {σ} (snap : Snap) (o : Opts) : ∀ (g : Nat) (st : ISt) (w : σ),
    nextLoop snap o noPre g st w =
      ((nextLoop snap o noPre g st ()).1, (nextLoop snap o noPre g st ()).2.1, w)
  | 0, _, _ => rfl
  | g + 1, st, w => by
    obtain ⟨started, openDesc, iters, deferred⟩ := st
    cases iters with
    | nil =>
      simp only [nextLoop]
      split
      · split <;> rfl
      · rfl
    | cons top below =>
      by_cases hdef : o.contentsFirst = true ∧ deferredReady (top :: below).length deferred = true
      · cases deferred with
        | nil => simp [deferredReady] at hdef
        | cons d ds => simp only [nextLoop, hdef, and_self, if_true]
      · obtain ⟨tp, tc, items⟩ := top
        cases items with
        | nil =>
          simp only [nextLoop, hdef, if_false]
          exact nextLoop_w snap o g _ w
        | cons x xs =>
          simp only [nextLoop, hdef, if_false, process_w]
          generalize procP snap o ⟨started, openDesc, ⟨tp, tc, xs⟩ :: below, deferred⟩ (x.doFollow o.follow) = P
          obtain ⟨ro, st2⟩ := P
          cases ro with
          | none => exact nextLoop_w snap o g st2 w
          | some r => rfl

theorem nextE_w {σ} (snap : Snap) (o : Opts) (rootE : Entry) (g : Nat) (st : ISt) (w : σ) :
    nextE snap o noPre rootE g st w =
      ((nextE snap o noPre rootE g st ()).1, (nextE snap o noPre rootE g st ()).2.1, w) := by
  unfold nextE
  split
  · simp only [process_w]
    generalize procP snap o { st with started := true } (rootE.doFollow o.follow) = P
    obtain ⟨ro, st2⟩ := P
    cases ro with
    | none => exact nextLoop_w snap o g st2 w
    | some r => rfl
  · exact nextLoop_w snap o g st w

/-- a consumer that collects `h e` instead of `e` sees the image of what `stepCons` sees -/
theorem runIter_map {β} (h : Entry → β) (snap : Snap) (o : Opts) (rootE : Entry) :
    ∀ (f : Nat) (st : ISt) (acc : List Entry),
      runIter snap o noPre rootE (fun e (a : List β) => (.ok (), h e :: a)) f st (acc.map h) =
        ((runIter snap o noPre rootE stepCons f st acc).1, (runIter snap o noPre rootE stepCons f st acc).2.map h)
  | 0, _, _ => rfl
  | f + 1, st, acc => by
    unfold runIter
    rw [nextE_w snap o rootE (f + 1) st (acc.map h), nextE_w snap o rootE (f + 1) st acc]
    generalize nextE snap o noPre rootE (f + 1) st () = R
    obtain ⟨ro, st', u⟩ := R
    cases ro with
    | none => rfl
    | some oc =>
      cases oc with
      | ok e =>
        simp only [stepCons]
        exact runIter_map h snap o rootE f st' (e :: acc)
      | err k => rfl
      | panic => rfl
      | hang => rfl

theorem travM_exact {env : Env} {p : Str} {r : TravReq} {s : State} {k : FsPath} {rootE : Entry} {snap : Snap}
    (habs : absM env p s = (.ok k, s)) (hent : entriesOf s k = .ok (rootE, snap))
    (hwf : SnapWf snap) (hroot : InSnap snap rootE) (hfol : r.opts.follow = true) (hord : OrdOk r.opts)
    (hdom : DomFW r.opts) (hfuel : fuelNeed snap r.opts rootE ≤ travFuel snap) :
    travM env p r s =
      (.ok (.trav ((entriesSpecF snap r.opts rootE).1.map (·.path)) (entriesSpecF snap r.opts rootE).2), s) := by
  have hrun := runIter_exact hwf hfol hord hdom hroot (travFuel snap) hfuel
  have hmap := runIter_map (fun e => e.path) snap r.opts rootE (travFuel snap) {} []
  rw [hrun] at hmap
  simp only [List.map_nil] at hmap
  unfold travM
  simp only [bind, M.bind, habs, M.get, M.liftO, hent, hmap]
  cases (entriesSpecF snap r.opts rootE).2 <;> simp [specOutcome, pure, M.pure, List.map_reverse]

end Rivia.Lemmas.WalkF
