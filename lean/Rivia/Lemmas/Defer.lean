/-
  Rivia.Lemmas.Defer — invariants of the defer-guard machine `Rivia.Defer.exec` and of its ghost
  instrumentation `execI` (scope ids).
-/
import Rivia.Model.Defer

namespace Rivia.Defer

/-! ## pending guards after each kind of step -/

theorem pending_reg (s : DState) :
    ({ s with next := s.next + 1, cur := s.cur ++ [s.next] } : DState).pending = s.next :: s.pending := by
  simp [DState.pending, unwindScopes]

theorem pending_open (s : DState) :
    ({ s with cur := [], outer := s.cur :: s.outer } : DState).pending = s.pending := by
  simp [DState.pending, unwindScopes]

theorem pending_close (s : DState) (t : List Nat) (ss : List (List Nat)) (h : s.outer = t :: ss) :
    s.pending = s.cur.reverse ++
      ({ s with cur := t, outer := ss, log := s.log ++ s.cur.reverse } : DState).pending := by
  simp [DState.pending, unwindScopes, h]

/-! ## the invariant: every label below `next` is either logged once or pending once, and the
pending guards would run in strictly decreasing order -/

structure Inv (s : DState) : Prop where
  cnt : ∀ k, s.log.count k + s.pending.count k = if k < s.next then 1 else 0
  dec : s.pending.Pairwise (· > ·)

theorem inv_init : Inv DState.init := by
  constructor
  · intro k; simp [DState.init, DState.pending, unwindScopes]
  · simp [DState.init, DState.pending, unwindScopes]

theorem Inv.pending_lt {s : DState} (h : Inv s) {y : Nat} (hy : y ∈ s.pending) : y < s.next := by
  have h1 := h.cnt y
  have h2 : 0 < s.pending.count y := List.count_pos_iff.mpr hy
  split at h1 <;> omega

theorem inv_reg {s : DState} (h : Inv s) :
    Inv { s with next := s.next + 1, cur := s.cur ++ [s.next] } := by
  constructor
  · intro k
    rw [pending_reg]
    have h1 := h.cnt k
    simp only [List.count_cons]
    by_cases hk : k = s.next
    · subst hk; simp at h1 ⊢; omega
    · have e1 : (s.next == k) = false := by simp; omega
      have e2 : (k < s.next + 1) ↔ (k < s.next) := by omega
      simp only [e1, e2, Bool.false_eq_true, if_false, Nat.add_zero]
      exact h1
  · rw [pending_reg]
    exact List.pairwise_cons.mpr ⟨fun y hy => h.pending_lt hy, h.dec⟩

theorem inv_open {s : DState} (h : Inv s) :
    Inv { s with cur := [], outer := s.cur :: s.outer } := by
  constructor
  · intro k; rw [pending_open]; exact h.cnt k
  · rw [pending_open]; exact h.dec

theorem inv_close {s : DState} (h : Inv s) {t : List Nat} {ss : List (List Nat)}
    (ho : s.outer = t :: ss) :
    Inv { s with cur := t, outer := ss, log := s.log ++ s.cur.reverse } := by
  have hp := pending_close s t ss ho
  constructor
  · intro k
    have h1 := h.cnt k
    rw [hp] at h1
    simp only [List.count_append] at h1 ⊢
    simpa [Nat.add_assoc] using h1
  · have := h.dec
    rw [hp] at this
    exact (List.pairwise_append.mp this).2.1

theorem exec_inv (prog : List DItem) : ∀ {s : DState}, Inv s → Inv (exec s prog).1 := by
  induction prog with
  | nil => intro s h; exact h
  | cons i r ih =>
    intro s h
    cases i with
    | reg => exact ih (inv_reg h)
    | openS => exact ih (inv_open h)
    | closeS =>
      simp only [exec]
      split
      · exact h
      · next t ss ho => exact ih (inv_close h ho)
    | ret => exact h
    | pan => exact h

/-! ## how many guards were created -/

@[simp] theorem executedRegs_nil : executedRegs [] = 0 := rfl
@[simp] theorem executedRegs_reg (r : List DItem) : executedRegs (.reg :: r) = executedRegs r + 1 := by
  simp +decide [executedRegs, livePart]
@[simp] theorem executedRegs_openS (r : List DItem) : executedRegs (.openS :: r) = executedRegs r := by
  simp +decide [executedRegs, livePart]
@[simp] theorem executedRegs_closeS (r : List DItem) : executedRegs (.closeS :: r) = executedRegs r := by
  simp +decide [executedRegs, livePart]
@[simp] theorem executedRegs_ret (r : List DItem) : executedRegs (.ret :: r) = 0 := by
  simp +decide [executedRegs, livePart]
@[simp] theorem executedRegs_pan (r : List DItem) : executedRegs (.pan :: r) = 0 := by
  simp +decide [executedRegs, livePart]

theorem exec_next (prog : List DItem) : ∀ (s : DState), balancedAt s.outer.length prog = true →
    (exec s prog).1.next = s.next + executedRegs prog := by
  induction prog with
  | nil => intro s _; simp [exec]
  | cons i r ih =>
    intro s hb
    cases i with
    | reg =>
      simp only [exec, executedRegs_reg]
      rw [ih _ (by simpa [balancedAt] using hb)]; simp only []; omega
    | openS =>
      simp only [exec, executedRegs_openS]
      rw [ih _ (by simpa [balancedAt] using hb)]
    | closeS =>
      simp only [exec, executedRegs_closeS]
      split
      · next ho => simp [ho, balancedAt] at hb
      · next t ss ho =>
        rw [ih _ (by simpa [ho, balancedAt] using hb)]
    | ret => simp [exec]
    | pan => simp [exec]

/-! ## the ending is irrelevant for the log -/

theorem exec_append_exit (pre post : List DItem) (x : DItem) (hx : x = .ret ∨ x = .pan) :
    ∀ s : DState, (exec s (pre ++ x :: post)).1 = (exec s pre).1 := by
  induction pre with
  | nil => intro s; rcases hx with rfl | rfl <;> simp [exec]
  | cons i r ih =>
    intro s
    cases i with
    | reg => simp only [List.cons_append, exec]; exact ih _
    | openS => simp only [List.cons_append, exec]; exact ih _
    | closeS =>
      simp only [List.cons_append, exec]
      split
      · rfl
      · exact ih _
    | ret => simp [exec]
    | pan => simp [exec]

/-- a prefix without exits that never closes the function scope is run to its end -/
def noExit (prog : List DItem) : Bool := prog.all (fun i => i != .ret && i != .pan)

/-- block depth never drops below zero, starting at depth `d` -/
def prefixOk : Nat → List DItem → Bool
  | _, [] => true
  | d, .openS :: r => prefixOk (d + 1) r
  | 0, .closeS :: _ => false
  | d + 1, .closeS :: r => prefixOk d r
  | d, _ :: r => prefixOk d r

theorem exec_append_noExit (pre rest : List DItem) (hne : noExit pre = true) :
    ∀ s : DState, prefixOk s.outer.length pre = true →
      exec s (pre ++ rest) = exec (exec s pre).1 rest := by
  induction pre with
  | nil => intro s _; simp [exec]
  | cons i r ih =>
    have hr : noExit r = true := by
      simp only [noExit, List.all_cons, Bool.and_eq_true] at hne; exact hne.2
    intro s hp
    cases i with
    | reg => simp only [List.cons_append, exec]; exact ih hr _ (by simpa [prefixOk] using hp)
    | openS => simp only [List.cons_append, exec]; exact ih hr _ (by simpa [prefixOk] using hp)
    | closeS =>
      simp only [List.cons_append, exec]
      split
      · next ho => simp [ho, prefixOk] at hp
      · next t ss ho => exact ih hr _ (by simpa [ho, prefixOk] using hp)
    | ret => simp [noExit] at hne
    | pan => simp [noExit] at hne

/-! ## positions in a strictly decreasing list -/

theorem idxOf_lt_of_pairwise_gt {P : List Nat} (hP : P.Pairwise (· > ·)) {a b : Nat}
    (ha : a ∈ P) (hb : b ∈ P) (hab : a < b) : P.idxOf b < P.idxOf a := by
  induction P with
  | nil => simp at ha
  | cons x P ih =>
    have hx := List.pairwise_cons.mp hP
    simp only [List.idxOf_cons]
    by_cases hbx : x = b
    · subst hbx
      have : (x == a) = false := by simp; omega
      simp [this]
    · have hbP : b ∈ P := by
        rcases List.mem_cons.mp hb with h | h
        · exact absurd h.symm hbx
        · exact h
      have hax : x ≠ a := by
        intro h; subst h; have := hx.1 b hbP; omega
      have haP : a ∈ P := by
        rcases List.mem_cons.mp ha with h | h
        · exact absurd h.symm hax
        · exact h
      have h1 : (x == b) = false := by simpa using hbx
      have h2 : (x == a) = false := by simpa using hax
      simp only [h1, h2]
      have := ih hx.2 haP hbP
      simpa using this

theorem noExit_iff (pre : List DItem) : noExit pre = true ↔ ∀ i ∈ pre, i ≠ .ret ∧ i ≠ .pan := by
  simp [noExit, List.all_eq_true]

theorem balancedAt_prefixOk (pre rest : List DItem) : ∀ d : Nat,
    balancedAt d (pre ++ rest) = true → prefixOk d pre = true := by
  induction pre with
  | nil => intro d _; rfl
  | cons i r ih =>
    intro d h
    cases i with
    | openS => exact ih (d + 1) (by simpa [balancedAt] using h)
    | closeS =>
      cases d with
      | zero => simp [balancedAt] at h
      | succ d => exact ih d (by simpa [balancedAt] using h)
    | reg => exact ih d (by simpa [balancedAt] using h)
    | ret => exact ih d (by simpa [balancedAt] using h)
    | pan => exact ih d (by simpa [balancedAt] using h)

/-- the state in which a run of `prog` leaves the function -/
theorem exitState_inv (prog : List DItem) : Inv (exec .init prog).1 := exec_inv prog inv_init

theorem Inv.not_mem_log {s : DState} (h : Inv s) {a : Nat} (ha : a ∈ s.pending) : a ∉ s.log := by
  intro hl
  have h1 := h.cnt a
  have h2 : 0 < s.pending.count a := List.count_pos_iff.mpr ha
  have h3 : 0 < s.log.count a := List.count_pos_iff.mpr hl
  split at h1 <;> omega

theorem Inv.count_final {s : DState} (h : Inv s) (k : Nat) :
    (s.log ++ s.pending).count k = if k < s.next then 1 else 0 := by
  rw [List.count_append]; exact h.cnt k


/-! ## ghost scope ids -/

def IState.erase (s : IState) : DState :=
  ⟨s.next, s.cur.map (·.2), s.outer.map (fun o => o.2.map (·.2)), s.log.map (·.2)⟩

theorem unwindScopesI_map (l : List (List (Nat × Nat))) :
    (unwindScopesI l).map (·.2) = unwindScopes (l.map (fun sc => sc.map (·.2))) := by
  induction l with
  | nil => rfl
  | cons sc l ih => simp [unwindScopesI, unwindScopes, ih]

theorem pendingI_erase (s : IState) : s.pending.map (·.2) = s.erase.pending := by
  simp [IState.pending, DState.pending, IState.erase, unwindScopesI_map, List.map_map,
    Function.comp_def]

theorem execI_erase (prog : List DItem) : ∀ s : IState,
    (execI s prog).1.erase = (exec s.erase prog).1 ∧ (execI s prog).2 = (exec s.erase prog).2 := by
  induction prog with
  | nil => intro s; simp [execI, exec]
  | cons i r ih =>
    intro s
    cases i with
    | reg =>
      simp only [execI, exec]
      have := ih { s with next := s.next + 1, cur := s.cur ++ [(s.curSid, s.next)] }
      simpa [IState.erase] using this
    | openS =>
      simp only [execI, exec]
      have := ih { s with nextSid := s.nextSid + 1, curSid := s.nextSid, cur := [],
                          outer := (s.curSid, s.cur) :: s.outer }
      simpa [IState.erase] using this
    | closeS =>
      simp only [execI, exec]
      cases ho : s.outer with
      | nil => simp [IState.erase, ho]
      | cons t ss =>
        have := ih { s with curSid := t.1, cur := t.2, outer := ss, log := s.log ++ s.cur.reverse }
        simpa [IState.erase, ho] using this
    | ret => simp [execI, exec]
    | pan => simp [execI, exec]

theorem runDeferI_erase (prog : List DItem) : (runDeferI prog).map (·.2) = (runDefer prog).log := by
  have h := (execI_erase prog IState.init).1
  have h0 : IState.init.erase = DState.init := rfl
  simp only [runDeferI, runDefer, finish, List.map_append, pendingI_erase, h, h0]
  rw [← h0, ← h]; rfl

/-- same scope instance ⇒ later created runs first -/
abbrev SameScopeRev (x y : Nat × Nat) : Prop := x.1 = y.1 → x.2 > y.2

def IState.openSids (s : IState) : List Nat := s.curSid :: s.outer.map (·.1)

structure IInv (s : IState) : Prop where
  base : Inv s.erase
  hlog : s.log.Pairwise SameScopeRev
  hfresh : ∀ x ∈ s.log, x.1 < s.nextSid ∧ x.1 ∉ s.openSids
  hcur : ∀ x ∈ s.cur, x.1 = s.curSid
  houter : ∀ o ∈ s.outer, ∀ x ∈ o.2, x.1 = o.1
  hnodup : s.openSids.Nodup
  hlt : ∀ i ∈ s.openSids, i < s.nextSid

theorem iinv_init : IInv IState.init := by
  refine ⟨inv_init, ?_, ?_, ?_, ?_, ?_, ?_⟩ <;> simp [IState.init, IState.openSids]

theorem mem_unwindScopesI {y : Nat × Nat} {l : List (List (Nat × Nat))} :
    y ∈ unwindScopesI l ↔ ∃ sc ∈ l, y ∈ sc := by
  induction l with
  | nil => simp [unwindScopesI]
  | cons sc l ih => simp [unwindScopesI, ih]

theorem IInv.pending_sid {s : IState} (h : IInv s) {y : Nat × Nat} (hy : y ∈ s.pending) :
    y.1 ∈ s.openSids := by
  simp only [IState.pending, mem_unwindScopesI, List.mem_cons, List.mem_map] at hy
  obtain ⟨sc, hsc | ⟨o, ho, rfl⟩, hy⟩ := hy
  · subst hsc; simp [IState.openSids, h.hcur y hy]
  · simp only [IState.openSids, List.mem_cons, List.mem_map]
    exact Or.inr ⟨o, ho, (h.houter o ho y hy).symm⟩

theorem pairwise_sameScopeRev_of_dec {l : List (Nat × Nat)} (h : (l.map (·.2)).Pairwise (· > ·)) :
    l.Pairwise SameScopeRev :=
  List.Pairwise.imp (S := SameScopeRev) (fun hxy _ => hxy) (List.pairwise_map.mp h)

theorem iinv_reg {s : IState} (h : IInv s) :
    IInv { s with next := s.next + 1, cur := s.cur ++ [(s.curSid, s.next)] } := by
  refine ⟨?_, h.hlog, h.hfresh, ?_, h.houter, h.hnodup, h.hlt⟩
  · have := inv_reg h.base
    simpa [IState.erase] using this
  · intro x hx
    rcases List.mem_append.mp hx with hx | hx
    · exact h.hcur x hx
    · simp at hx; subst hx; rfl

theorem iinv_open {s : IState} (h : IInv s) :
    IInv { s with nextSid := s.nextSid + 1, curSid := s.nextSid, cur := [],
                  outer := (s.curSid, s.cur) :: s.outer } := by
  refine ⟨?_, h.hlog, ?_, ?_, ?_, ?_, ?_⟩
  · have := inv_open h.base
    simpa [IState.erase] using this
  · intro x hx
    have := h.hfresh x hx
    refine ⟨by simp only []; omega, ?_⟩
    simp only [IState.openSids, List.map_cons, List.mem_cons, not_or]
    refine ⟨by omega, ?_⟩
    simpa [IState.openSids, not_or] using this.2
  · simp
  · intro o ho x hx
    rcases List.mem_cons.mp ho with rfl | ho
    · exact h.hcur x hx
    · exact h.houter o ho x hx
  · simp only [IState.openSids, List.map_cons]
    refine List.nodup_cons.mpr ⟨?_, h.hnodup⟩
    intro hm
    have := h.hlt _ hm
    omega
  · intro i hi
    simp only [IState.openSids, List.map_cons, List.mem_cons] at hi
    rcases hi with rfl | hi
    · simp
    · have := h.hlt i (by simpa [IState.openSids] using hi)
      simp only []; omega

theorem iinv_close {s : IState} (h : IInv s) {t : Nat × List (Nat × Nat)}
    {ss : List (Nat × List (Nat × Nat))} (ho : s.outer = t :: ss) :
    IInv { s with curSid := t.1, cur := t.2, outer := ss, log := s.log ++ s.cur.reverse } := by
  have hopen : s.openSids = s.curSid :: t.1 :: ss.map (·.1) := by simp [IState.openSids, ho]
  have hnd := h.hnodup
  rw [hopen] at hnd
  have hnd' := List.nodup_cons.mp hnd
  refine ⟨?_, ?_, ?_, ?_, ?_, ?_, ?_⟩
  · have := inv_close h.base (t := t.2.map (·.2)) (ss := ss.map (fun o => o.2.map (·.2)))
      (by simp [IState.erase, ho])
    simpa [IState.erase] using this
  · refine List.pairwise_append.mpr ⟨h.hlog, ?_, ?_⟩
    · apply pairwise_sameScopeRev_of_dec
      have hd := h.base.dec
      rw [← pendingI_erase] at hd
      simp only [IState.pending, unwindScopesI, List.map_append] at hd
      exact (List.pairwise_append.mp hd).1
    · intro x hx y hy hxy
      have hy' := h.hcur y (List.mem_reverse.mp hy)
      have := (h.hfresh x hx).2
      simp only [hopen, List.mem_cons, not_or] at this
      omega
  · intro x hx
    simp only [IState.openSids]
    rcases List.mem_append.mp hx with hx | hx
    · have := h.hfresh x hx
      rw [hopen] at this
      refine ⟨this.1, ?_⟩
      intro hm
      exact this.2 (List.mem_cons_of_mem _ hm)
    · have hx' := h.hcur x (List.mem_reverse.mp hx)
      refine ⟨?_, ?_⟩
      · rw [hx']; exact h.hlt _ (by simp [IState.openSids])
      · rw [hx']; exact hnd'.1
  · intro x hx
    exact h.houter t (by simp [ho]) x hx
  · intro o hoo x hx
    exact h.houter o (by simp [ho, hoo]) x hx
  · exact hnd'.2
  · intro i hi
    exact h.hlt i (by rw [hopen]; exact List.mem_cons_of_mem _ hi)

theorem execI_iinv (prog : List DItem) : ∀ {s : IState}, IInv s → IInv (execI s prog).1 := by
  induction prog with
  | nil => intro s h; exact h
  | cons i r ih =>
    intro s h
    cases i with
    | reg => exact ih (iinv_reg h)
    | openS => exact ih (iinv_open h)
    | closeS =>
      simp only [execI]
      split
      · exact h
      · next t ss ho => exact ih (iinv_close h ho)
    | ret => exact h
    | pan => exact h

theorem IInv.final {s : IState} (h : IInv s) : (s.log ++ s.pending).Pairwise SameScopeRev := by
  refine List.pairwise_append.mpr ⟨h.hlog, ?_, ?_⟩
  · apply pairwise_sameScopeRev_of_dec
    rw [pendingI_erase]; exact h.base.dec
  · intro x hx y hy hxy
    have := (h.hfresh x hx).2
    rw [hxy] at this
    exact absurd (h.pending_sid hy) this

/-! ## the guards of one scope instance run as one contiguous block -/

/-- between two entries of the same scope instance there are only entries of that instance -/
def Contig (L : List (Nat × Nat)) : Prop :=
  ∀ (i j k : Nat) (_ : i < j) (_ : j < k) (hk : k < L.length), L[i].1 = L[k].1 → L[j].1 = L[k].1

theorem contig_append_block {L B : List (Nat × Nat)} {s : Nat} (hL : Contig L)
    (hLs : ∀ x ∈ L, x.1 ≠ s) (hB : ∀ y ∈ B, y.1 = s) : Contig (L ++ B) := by
  intro i j k hij hjk hk h
  by_cases hkL : k < L.length
  · rw [List.getElem_append_left hkL] at h ⊢
    rw [List.getElem_append_left (by omega)] at h ⊢
    exact hL i j k hij hjk hkL h
  · have hkB : (L ++ B)[k].1 = s := by
      rw [List.getElem_append_right (by omega)]; exact hB _ (List.getElem_mem _)
    rw [hkB] at h ⊢
    have hiL : ¬ i < L.length := by
      intro hi
      rw [List.getElem_append_left hi] at h
      exact hLs _ (List.getElem_mem _) h
    rw [List.getElem_append_right (by omega)]; exact hB _ (List.getElem_mem _)

theorem contig_unwind (scs : List (Nat × List (Nat × Nat))) : ∀ L : List (Nat × Nat), Contig L →
    (∀ o ∈ scs, ∀ x ∈ o.2, x.1 = o.1) → (scs.map (·.1)).Nodup →
    (∀ x ∈ L, x.1 ∉ scs.map (·.1)) → Contig (L ++ unwindScopesI (scs.map (·.2))) := by
  induction scs with
  | nil => intro L hL _ _ _; simpa [unwindScopesI] using hL
  | cons o scs ih =>
    intro L hL hsc hnd hfr
    simp only [List.map_cons, unwindScopesI, ← List.append_assoc]
    have hnd' := List.nodup_cons.mp hnd
    refine ih (L ++ o.2.reverse) ?_ (fun o' ho' => hsc o' (List.mem_cons_of_mem _ ho')) hnd'.2 ?_
    · refine contig_append_block (s := o.1) hL ?_ ?_
      · intro x hx he; exact hfr x hx (by simp [he])
      · intro y hy; exact hsc o (by simp) y (List.mem_reverse.mp hy)
    · intro x hx
      rcases List.mem_append.mp hx with hx | hx
      · intro hm; exact hfr x hx (List.mem_cons_of_mem _ hm)
      · rw [hsc o (by simp) x (List.mem_reverse.mp hx)]; exact hnd'.1

theorem execI_contig (prog : List DItem) : ∀ {s : IState}, IInv s → Contig s.log →
    Contig (execI s prog).1.log := by
  induction prog with
  | nil => intro s _ h; exact h
  | cons i r ih =>
    intro s h hc
    cases i with
    | reg => exact ih (iinv_reg h) hc
    | openS => exact ih (iinv_open h) hc
    | closeS =>
      simp only [execI]
      split
      · exact hc
      · next t ss ho =>
        refine ih (iinv_close h ho) (contig_append_block (s := s.curSid) hc ?_ ?_)
        · intro x hx he
          exact (h.hfresh x hx).2 (by simp [IState.openSids, he])
        · intro y hy; exact h.hcur y (List.mem_reverse.mp hy)
    | ret => exact hc
    | pan => exact hc

theorem contig_nil : Contig [] := by
  intro i j k _ _ hk; simp at hk

theorem runDeferI_contig (prog : List DItem) : Contig (runDeferI prog) := by
  have h := execI_iinv prog iinv_init
  have hc := execI_contig prog iinv_init contig_nil
  have := contig_unwind (((execI .init prog).1.curSid, (execI .init prog).1.cur) :: (execI .init prog).1.outer)
    _ hc ?_ h.hnodup (fun x hx => (h.hfresh x hx).2)
  · simpa [runDeferI, IState.pending] using this
  · intro o ho x hx
    rcases List.mem_cons.mp ho with rfl | ho
    · exact h.hcur x hx
    · exact h.houter o ho x hx

end Rivia.Defer
