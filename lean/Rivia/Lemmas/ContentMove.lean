/-
  Rivia.Lemmas.ContentMove — what a successful `move_p` does to the DATA map: the relocation loop of
  Lemmas/MoveP.lean re-read at the level of `State.files` (the abstraction `nodeAt` used there reads
  the data through `getD []` and cannot tell "no data" from "empty data").
-/
import Rivia.Lemmas.MoveRefine

set_option linter.unusedSimpArgs false

namespace Rivia.Lemmas.CT
open Rivia Rivia.Str Rivia.Memfs Rivia.Spec Rivia.Memfs.M Rivia.Lemmas

/-! ### the data map after one relocation -/

theorem relocate_files_src {σ : State} (hn : (σ.files.map (·.1)).Nodup) {w dst : FsPath} (e : Entry)
    (hne : w ≠ dst) : alLookup w (relocate σ w dst e).files = none := by
  rw [relocate_files hn]
  cases alLookup w σ.files <;> simp [Ne.symm hne]

theorem relocate_files_dst {σ : State} (hn : (σ.files.map (·.1)).Nodup) {w dst : FsPath} (e : Entry)
    (hne : w ≠ dst) :
    alLookup dst (relocate σ w dst e).files = (alLookup w σ.files).or (alLookup dst σ.files) := by
  rw [relocate_files hn]
  cases alLookup w σ.files <;> simp [hne]

theorem relocate_files_other {σ : State} (hn : (σ.files.map (·.1)).Nodup) {w dst k : FsPath} (e : Entry)
    (h1 : w ≠ k) (h2 : dst ≠ k) : alLookup k (relocate σ w dst e).files = alLookup k σ.files := by
  rw [relocate_files hn]
  cases alLookup w σ.files <;> simp [h1, h2]

/-! ### the relocation loop below the source root, data map -/

theorem moveLoop_children_files {sk dk D pre : FsPath} {ci : Bool}
    (hpre : if ci = true then sk ≠ [] ∧ pre = sk.dropLast else pre = sk)
    (hinc : ∀ r r', sk ++ r ≠ D ++ r')
    (hdst : ∀ r, WfKey r → dstOf dk (sk ++ r) pre = D ++ r) :
    ∀ (f : Nat) (σ : State) (W : List FsPath), ChildInv sk D σ W →
      keyCount (fun k => sk.isPrefixOf k) σ.entries < f →
      ∃ σ', moveLoop sk dk ci f W σ = (.ok (), σ') ∧
        (∀ r, alLookup (sk ++ r) σ'.files = none) ∧
        (∀ r, alLookup (D ++ r) σ'.files = (alLookup (sk ++ r) σ.files).or (alLookup (D ++ r) σ.files)) ∧
        (∀ k, (∀ r, k ≠ sk ++ r) → (∀ r, k ≠ D ++ r) → alLookup k σ'.files = alLookup k σ.files) := by
  intro f
  induction f with
  | zero => intro σ W _ hc; omega
  | succ f ih =>
    intro σ W h hc
    cases W with
    | nil =>
      have hnd : ∀ r, alLookup (sk ++ r) σ.files = none := by
        intro r
        cases hb : alLookup (sk ++ r) σ.files with
        | none => rfl
        | some b =>
          obtain ⟨e, he⟩ := h.data r b hb
          rw [childInv_nil_no_keys h r] at he; cases he
      refine ⟨σ, by rw [moveLoop]; rfl, hnd, ?_, fun _ _ _ => rfl⟩
      intro r
      rw [hnd r]; rfl
    | cons w W =>
      obtain ⟨r0, e, hw, hr0, hpar0, he⟩ := h.work w (by simp)
      subst hw
      have hnE := h.nodupE
      have hnF := h.nodupF
      obtain ⟨hwf0, _, _, _, hfreeE0, hfreeF0⟩ := h.keys r0 e he
      have hne : sk ++ r0 ≠ [] := by simp [hr0]
      have hdl : (sk ++ r0).dropLast = sk ++ r0.dropLast := List.dropLast_append_of_ne_nil hr0
      have hstep := moveLoop_child (sk := sk) (dk := dk) (ci := ci) f W hpre he hne (hdst r0 hwf0)
        (movedOk_of_ne (by simp [hr0]))
        (by
          rw [hdl, relocate_entries hnE, if_neg (fun hh => hinc _ _ hh.symm), hpar0]
          simp)
      have hinv' := childInv_step hinc h rfl hr0 he
      have hcount : keyCount (fun k => sk.isPrefixOf k) (relocate σ (sk ++ r0) (D ++ r0) e).entries < f := by
        have h1 := keyCount_alInsert_false (p := fun k => sk.isPrefixOf k) (k := D ++ r0)
          (isPrefixOf_false_of_inc hinc r0) (movedEntry e (D ++ r0)) (alErase (sk ++ r0) σ.entries)
        have h2 := keyCount_alErase_true (p := fun k => sk.isPrefixOf k) (k := sk ++ r0)
          (isPrefixOf_append sk r0) (l := σ.entries)
          (alLookup_isSome_iff_mem_keys.1 (by rw [he]; rfl))
        show keyCount _ (alInsert (D ++ r0) _ (alErase (sk ++ r0) σ.entries)) < f
        rw [h1]; omega
      obtain ⟨σ', hrun, hnone, hview, hother⟩ := ih _ _ hinv' hcount
      refine ⟨σ', by rw [hstep, hrun], hnone, ?_, ?_⟩
      · intro r
        rw [hview r]
        by_cases hr : r0 = r
        · subst hr
          rw [relocate_files_src hnF e (hinc r0 r0), relocate_files_dst hnF e (hinc r0 r0)]
          rfl
        · have h1 : sk ++ r0 ≠ sk ++ r := fun hh => hr (List.append_cancel_left hh)
          have h2 : D ++ r0 ≠ D ++ r := fun hh => hr (List.append_cancel_left hh)
          rw [relocate_files_other hnF e h1 (fun hh => hinc r r0 hh.symm),
            relocate_files_other hnF e (hinc r0 r) h2]
      · intro k hk1 hk2
        rw [hother k hk1 hk2]
        exact relocate_files_other hnF e (fun hh => hk1 r0 hh.symm) (fun hh => hk2 r0 hh.symm)

/-- **`move_p` after validation, data map**: the loop succeeds; no data is left at or below the
    source key, the data of every `sk ++ r` is found at `D ++ r`, every other key keeps its data -/
theorem moveLoop_files {s0 : State} {sk dk D pre : FsPath} {srcE : Entry} (hi : InvF s0)
    (hk : KeysWf s0) (hs : MoveSetup s0 sk dk D pre srcE) :
    ∃ σ', moveLoop sk dk (isDirP s0 dk) (8 * (s0.entries.length + 2)) [sk] s0 = (.ok (), σ') ∧
      (∀ r, alLookup (sk ++ r) σ'.files = none) ∧
      (∀ r, alLookup (D ++ r) σ'.files = alLookup (sk ++ r) s0.files) ∧
      (∀ k, (∀ r, k ≠ sk ++ r) → (∀ r, k ≠ D ++ r) → alLookup k σ'.files = alLookup k s0.files) := by
  obtain ⟨op, np, hop, hopd, hnp, hnpd, hinv, hnode, hcount⟩ := root_establishes hi hk hs
  have hinc := hs.hinc
  have hnF := hi.fnodup
  have hfuel : 8 * (s0.entries.length + 2) = (8 * (s0.entries.length + 2) - 1) + 1 := by omega
  have hdst0 : dstOf dk sk pre = D := by
    have := hs.hdst [] (by intro n hn; simp at hn)
    simpa using this
  rw [hfuel, moveLoop_root _ [] hs.hpre hs.src hs.skne hs.dne hdst0 hop hopd hnp hnpd, List.append_nil]
  have hc : keyCount (fun k => sk.isPrefixOf k) (rootStep s0 sk D srcE op np).entries <
      8 * (s0.entries.length + 2) - 1 := by
    have := keyCount_le (fun k => sk.isPrefixOf k) s0.entries
    omega
  obtain ⟨σ', hrun, hnone, hview, hother⟩ :=
    moveLoop_children_files hs.hpre hinc hs.hdst _ _ _ hinv hc
  have hfiles : (rootStep s0 sk D srcE op np).files = (relocate s0 sk D srcE).files := rfl
  have hbelow : ∀ r, r ≠ [] → alLookup (D ++ r) s0.files = none := by
    intro r hr
    apply no_data_without_entry hi
    apply nothing_below hi ?_ hr
    rcases hs.dfree with h | ⟨x, hx, hxd, _⟩
    · exact Or.inl h
    · exact Or.inr ⟨x, hx, hxd⟩
  have hskD : sk ≠ D := fun h => hinc [] [] (by simp [h])
  refine ⟨σ', hrun, hnone, ?_, ?_⟩
  · intro r
    rw [hview r, hfiles]
    by_cases hr : r = []
    · subst hr
      simp only [List.append_nil]
      rw [relocate_files_src hnF srcE hskD, relocate_files_dst hnF srcE hskD]
      rcases hs.dfree with h | ⟨x, hx, _, _, _, hf, hl⟩
      · rw [no_data_without_entry hi h]; simp
      · have := hi.data sk srcE hs.src
        rw [hf, hl] at this
        cases hb : alLookup sk s0.files with
        | none => rw [hb] at this; simp at this
        | some b => simp
    · have h1 : sk ≠ sk ++ r := by
        intro h
        have := congrArg List.length h
        simp at this
        exact hr this
      have h2 : D ≠ D ++ r := by
        intro h
        have := congrArg List.length h
        simp at this
        exact hr this
      rw [relocate_files_other hnF srcE h1 (fun h => hinc r [] (by rw [List.append_nil]; exact h.symm)),
        relocate_files_other hnF srcE (fun h => hinc [] r (by rw [List.append_nil]; exact h)) h2,
        hbelow r hr, Option.or_none]
  · intro k hk1 hk2
    rw [hother k hk1 hk2, hfiles]
    refine relocate_files_other hnF srcE ?_ ?_
    · intro h; exact hk1 [] (by rw [List.append_nil]; exact h.symm)
    · intro h; exact hk2 [] (by rw [List.append_nil]; exact h.symm)

/-- **content after a successful `move_p`**: either source and final destination coincide and the
    state is unchanged, or (with `D = moveDst s sk dk`) the data of every `sk ++ r` is now at
    `D ++ r`, no key at or below `sk` has data, and every other key keeps its data -/
theorem moveM_content {env : Env} {a b : Str} {s s' : State} (hinv : Spec.Inv s) (hk : KeysWf s)
    (hkind : KindWf s) (hrun : moveM env a b s = (.ok (), s')) :
    ∃ sk dk srcE, absM env a s = (.ok sk, s) ∧ absM env b s = (.ok dk, s) ∧
      alLookup sk s.entries = some srcE ∧
      ((moveDst s sk dk = sk ∧ s' = s) ∨
       (MoveValid s sk dk srcE ∧
        (∀ r, alLookup (sk ++ r) s'.files = none) ∧
        (∀ r, alLookup (moveDst s sk dk ++ r) s'.files = alLookup (sk ++ r) s.files) ∧
        (∀ k, (∀ r, k ≠ sk ++ r) → (∀ r, k ≠ moveDst s sk dk ++ r) →
          alLookup k s'.files = alLookup k s.files))) := by
  have hi := invF_of_inv hinv
  have hdk : ResolvesWf env s b := resolvesWf_of_keysWf hk env b
  rcases moveM_cases env a b s with ⟨r, hr, hne⟩ | ⟨sk, dk, srcE, ha, hb, hsrc, hsame, hr⟩ |
    ⟨sk, dk, srcE, ha, hb, hv, hloop⟩
  · rw [hr] at hrun
    cases r with
    | ok u => exact absurd rfl (hne u)
    | err k => cases hrun
    | panic => cases hrun
    | hang => cases hrun
  · rw [hr] at hrun
    cases hrun
    exact ⟨sk, dk, srcE, ha, hb, hsrc, Or.inl ⟨hsame, rfl⟩⟩
  · have hs := moveSetup_of_valid hi hk hkind (hdk dk hb) hv
    obtain ⟨σ', hl, h1, h2, h3⟩ := moveLoop_files hi hk hs
    rw [hloop, hl] at hrun
    cases hrun
    exact ⟨sk, dk, srcE, ha, hb, hv.src, Or.inr ⟨hv, h1, h2, h3⟩⟩

end Rivia.Lemmas.CT
