/-
  Rivia.Lemmas.InvBAbs — C03 (group B), the string side:
  * every key produced by `absM` has well-formed names (given a well-formed cwd)
  * `dstOf dstRoot (pre ++ r) pre = dstRoot ++ r` on well-formed keys
-/
import Rivia.Lemmas.InvBBase
import Rivia.Lemmas.User
import Rivia.Lemmas.Relative

namespace Rivia.Lemmas.InvB
open Rivia Rivia.Str Rivia.Memfs Rivia.File Rivia.Spec Rivia.Lemmas

/-- `a` is the string form of a key with well-formed names -/
def AbsKey (a : Str) : Prop := ∃ ps : List Str, (∀ p ∈ ps, BodyPiece p) ∧ a = bufOf true ps

theorem renderP_eq (k : FsPath) : renderP k = bufOf true k := by
  simp [renderP, bufOf]

theorem toPath_bufOf {ps : List Str} (h : ∀ p ∈ ps, BodyPiece p) : toPath (bufOf true ps) = ps := by
  unfold toPath
  by_cases hne : ps = []
  · subst hne; decide
  · rw [splitSlash_bufOf hne h]
    simp only [if_true, List.singleton_append, ne_eq, decide_not]
    rw [List.filter_cons_of_neg (by simp)]
    apply List.filter_eq_self.2
    intro p hp
    simpa using (h p hp).1

theorem toPath_renderP {k : FsPath} (h : ∀ p ∈ k, BodyPiece p) : toPath (renderP k) = k := by
  rw [renderP_eq, toPath_bufOf h]

theorem absKey_renderP {k : FsPath} (h : ∀ p ∈ k, BodyPiece p) : AbsKey (renderP k) :=
  ⟨k, h, renderP_eq k⟩

theorem AbsKey.rooted {a : Str} (h : AbsKey a) : isRooted a = true := by
  obtain ⟨ps, hps, rfl⟩ := h
  exact isRooted_bufOf hps

theorem AbsKey.toPath_wf {a : Str} (h : AbsKey a) : ∀ n ∈ toPath a, BodyPiece n := by
  obtain ⟨ps, hps, rfl⟩ := h
  rw [toPath_bufOf hps]; exact hps

theorem isRooted_stripSlashes' (p : Str) : isRooted (stripSlashes p) = false := by
  induction p with
  | nil => rfl
  | cons c cs ih =>
    by_cases h : c = '/'
    · subst h; simpa [stripSlashes] using ih
    · have : stripSlashes (c :: cs) = c :: cs := by
        unfold stripSlashes
        split
        · next heq => simp only [List.cons.injEq] at heq; exact absurd heq.1 h
        · rfl
      rw [this, isRooted_cons]; simp [h]

theorem isRooted_push {d q : Str} (hd : isRooted d = true) (hq : isRooted q = false) :
    isRooted (push d q) = true := by
  have hne : d ≠ [] := by rintro rfl; simp [isRooted] at hd
  unfold push
  rw [hq]
  simp only [Bool.false_eq_true, if_false]
  split
  · rw [isRooted_append hne]; exact hd
  · rw [isRooted_append hne]; exact hd

/-- re-collecting the components of a rooted string gives the string form of a well-formed key -/
theorem absKey_render_components {x : Str} (hx : isRooted x = true) : AbsKey (render (components x)) := by
  have hc : components x = .root :: (splitSlash x).filterMap bodyComp := by
    unfold components; rw [hx]; rfl
  have hb : ∀ c ∈ (splitSlash x).filterMap bodyComp, BodyCU c := bodyCU_filterMap (not_mem_of_mem_splitOn '/' x)
  rw [hc, render_root_body hb]
  exact ⟨_, bodyPiece_map_str hb, rfl⟩

theorem absKey_mash {d p : Str} (hd : isRooted d = true) : AbsKey (mash d p) := by
  unfold mash
  exact absKey_render_components (isRooted_push hd (isRooted_stripSlashes' p))

theorem absKey_clean {x c : Str} (h : cleanO x = some c) (ha : isAbsolute c = true) : AbsKey c := by
  rw [cleanO_eq_goClean] at h
  cases h
  have hr : isRooted x = true := by rw [← goClean_rooted]; exact ha
  rw [goClean_eq] at ha ⊢
  split
  · next h0 => rw [if_pos h0] at ha; cases ha
  · rw [hr]; exact ⟨_, goStack_rev_bodyPiece x, rfl⟩

theorem absKey_dir {curr d : Str} (hc : AbsKey curr) (h : dir curr = .ok d) : AbsKey d := by
  obtain ⟨ps, hps, rfl⟩ := hc
  unfold dir at h
  cases hp : parentStr (bufOf true ps) with
  | none => rw [hp] at h; cases h
  | some q =>
    rw [hp] at h; cases h
    rcases eq_nil_or_snoc ps with rfl | ⟨mid, t, rfl⟩
    · have : parentStr (bufOf true []) = none := by decide
      rw [this] at hp; cases hp
    · have := pop_bufOf (rooted := true) hps
      unfold pop at this
      rw [hp] at this
      exact ⟨mid, fun q hq => hps q (by simp [hq]), this⟩

theorem absKey_absLoop : ∀ (f : Nat) (curr p a : Str), AbsKey curr → absLoop f curr p = .ok a → AbsKey a := by
  intro f
  induction f with
  | zero => intro curr p a hc h; simp only [absLoop] at h; cases h; exact hc
  | succ f ih =>
    intro curr p a hc h
    rw [absLoop] at h
    split at h
    · cases h; exact hc
    · exact ih _ _ _ hc h
    · split at h
      · cases h
      · split at h
        · next d hd => exact ih _ _ _ (absKey_dir hc hd) h
        · cases h
        · cases h
        · cases h
    · cases h; exact absKey_mash hc.rooted

theorem absKey_absWith {env : Env} {cwd s a : Str} (hc : AbsKey cwd) (h : absWith env cwd s = .ok a) : AbsKey a := by
  unfold absWith at h
  split at h
  · cases h
  · split at h
    · split at h
      · cases h
      · next c hcl =>
        split at h
        · next ha => cases h; exact absKey_clean hcl ha
        · exact absKey_absLoop _ _ _ _ hc h
    · cases h
    · cases h
    · cases h

/-- `_abs` relative to a well-formed cwd only returns well-formed keys -/
theorem absWith_wf {env : Env} {cwd : FsPath} {raw a : Str} (hc : ∀ n ∈ cwd, BodyPiece n)
    (h : absWith env (renderP cwd) raw = .ok a) : ∀ n ∈ toPath a, BodyPiece n :=
  (absKey_absWith (absKey_renderP hc) h).toPath_wf

/-- every key that comes out of `absM` has well-formed names -/
theorem absM_wf {env : Env} {str : Str} {s s' : State} {p : FsPath} (h : absM env str s = (.ok p, s'))
    (hc : ∀ n ∈ s.cwd, BodyPiece n) : ∀ n ∈ p, BodyPiece n := by
  unfold absM at h
  split at h
  · next a ha =>
    cases h
    exact (absKey_absWith (absKey_renderP hc) ha).toPath_wf
  · cases h
  · cases h
  · cases h


/-! ### `mash` / `dstOf` on well-formed keys -/

theorem stripSlashes_of_not_rooted {s : Str} (h : isRooted s = false) : stripSlashes s = s := by
  cases s with
  | nil => rfl
  | cons c cs =>
    rw [isRooted_cons] at h
    have hc : c ≠ '/' := by simpa using h
    unfold stripSlashes
    split
    · next heq => simp only [List.cons.injEq] at heq; exact absurd heq.1 hc
    · rfl

theorem trimPrefix_append (a b : Str) : trimPrefix (a ++ b) a = b := by
  unfold trimPrefix
  rw [if_pos (by simp)]
  simp

theorem map_str_filterMap_bodyComp {l : List Str} (h : ∀ p ∈ l, BodyPiece p) :
    (l.filterMap bodyComp).map Comp.str = l := by
  induction l with
  | nil => rfl
  | cons a r ih =>
    have ha := h a (by simp)
    rw [List.filterMap_cons, bodyComp_of_bodyPiece ha]
    simp only [List.map_cons]
    rw [ih (fun p hp => h p (by simp [hp]))]
    congr 1
    split
    · next h2 => rw [h2]; rfl
    · rfl

theorem toPath_render_components_bufOf {l : List Str} (h : ∀ p ∈ l, BodyPiece p) {y : Str}
    (hy : components y = components (bufOf true l)) : toPath (render (components y)) = l := by
  have hb : ∀ c ∈ l.filterMap bodyComp, BodyCU c := bodyCU_filterMap (fun p hp => (h p hp).2.2)
  rw [hy, components_bufOf h]
  simp only [if_true, List.singleton_append]
  rw [render_root_body hb, map_str_filterMap_bodyComp h, toPath_bufOf h]

theorem components_append_slash (x : Str) (hx : x ≠ []) : components (x ++ ['/']) = components x := by
  rw [components_eq_compsOf, components_eq_compsOf, isRooted_append hx]
  unfold splitSlash
  rw [splitOn_append_sep', splitOn_nil, compsOf_snoc_nil _ (splitOn_ne_nil _ _)]

/-- `mash` of a well-formed key with a relative path made of well-formed names -/
theorem toPath_mash_key {d r : FsPath} (hd : ∀ p ∈ d, BodyPiece p) (hr : ∀ p ∈ r, BodyPiece p) {t : Str}
    (ht : stripSlashes t = bufOf false r) : toPath (mash (renderP d) t) = d ++ r := by
  have hdr : ∀ p ∈ d ++ r, BodyPiece p := by
    intro p hp; rcases List.mem_append.1 hp with hp | hp
    · exact hd p hp
    · exact hr p hp
  unfold mash
  rw [ht, renderP_eq]
  apply toPath_render_components_bufOf hdr
  by_cases hne : r = []
  · subst hne
    rw [List.append_nil]
    have h0 : bufOf false ([] : List Str) = [] := by decide
    rw [h0]
    rcases eq_nil_or_snoc d with rfl | ⟨mid, t0, rfl⟩
    · decide
    · have ht0 : BodyPiece t0 := hd t0 (by simp)
      have h1 : bufOf true (mid ++ [t0]) ≠ [] := bufOf_snoc_ne_nil ht0.1
      have h2 : endsWithSlash (bufOf true (mid ++ [t0])) = false := endsWithSlash_bufOf_snoc ht0
      have : push (bufOf true (mid ++ [t0])) [] = bufOf true (mid ++ [t0]) ++ ['/'] := by
        unfold push
        simp [h1, h2, isRooted]
      rw [this, components_append_slash _ h1]
  · rw [push_abs_rel hd hr hne]

theorem bufOf_false_not_rooted {r : List Str} (hr : ∀ p ∈ r, BodyPiece p) : isRooted (bufOf false r) = false :=
  isRooted_bufOf hr

/-- the destination key of `move_p` / `_copy` on well-formed keys -/
theorem dstOf_append {D pre r : FsPath} (hD : ∀ p ∈ D, BodyPiece p) (hpre : ∀ p ∈ pre, BodyPiece p)
    (hr : ∀ p ∈ r, BodyPiece p) : dstOf D (pre ++ r) pre = D ++ r := by
  unfold dstOf
  apply toPath_mash_key hD hr
  by_cases h1 : pre = []
  · subst h1
    have : renderP ([] ++ r) = renderP [] ++ bufOf false r := by simp [renderP, bufOf, joinWith]
    rw [this, trimPrefix_append, stripSlashes_of_not_rooted (bufOf_false_not_rooted hr)]
  · by_cases h2 : r = []
    · subst h2
      have : renderP (pre ++ []) = renderP pre ++ [] := by simp
      rw [this, trimPrefix_append]; decide
    · have : renderP (pre ++ r) = renderP pre ++ '/' :: bufOf false r := by
        simp [renderP, bufOf, joinWith_append '/' h1 h2]
      rw [this, trimPrefix_append]
      show stripSlashes (bufOf false r) = _
      exact stripSlashes_of_not_rooted (bufOf_false_not_rooted hr)

/-- `dst.mash(src.base())` on well-formed keys -/
theorem toPath_mash_baseName {d s : FsPath} (hd : ∀ p ∈ d, BodyPiece p) (hs : ∀ p ∈ s, BodyPiece p)
    (hne : s ≠ []) : toPath (mash (renderP d) (baseName s)) = d ++ [baseName s] := by
  have hb : BodyPiece (baseName s) := by
    rcases eq_nil_or_snoc s with rfl | ⟨mid, t, rfl⟩
    · exact absurd rfl hne
    · have : baseName (mid ++ [t]) = t := by simp [baseName]
      rw [this]; exact hs t (by simp)
  apply toPath_mash_key hd (r := [baseName s]) (by simpa using hb)
  have : bufOf false [baseName s] = baseName s := by simp [bufOf, joinWith]
  rw [this]
  exact stripSlashes_of_not_rooted (isRooted_of_not_mem hb.2.2)

end Rivia.Lemmas.InvB
