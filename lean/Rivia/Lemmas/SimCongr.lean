/-
  Rivia.Lemmas.SimCongr — the reference filesystem respects extensional equality of its states.

  `TEquiv a b` (same cwd, same `get`) is what the refinement theorems of C01 deliver for the post-state.
  To chain them along ONE run of the reference, every reference operation must give equal results and
  `TEquiv` post-states on `TEquiv` arguments.  All of them read the node list through `get` only, except
  * `del` (`alErase` removes the FIRST occurrence of a key) — used by `remove`,
  * the listings (the selected keys are sorted, duplicates would stay),
  which need `NodupK` (no key occurs twice in the node list) on both sides.
-/
import Rivia.Lemmas.RefineB
import Rivia.Lemmas.RefineA

namespace Rivia.Lemmas.Sim
open Rivia Rivia.Memfs Rivia.File Rivia.Spec Rivia.Spec.TreeFs
open Rivia.Lemmas.RefineB (TEquiv alLookup_alInsert alLookup_alErase nodup_alErase nodup_alInsert
  alLookup_map alLookup_filter_key alLookup_of_mem_nodup alLookup_some_mem alLookup_isSome_iff
  alLookup_eq_none_iff)

/-- no key occurs twice in the node list -/
def NodupK (t : T) : Prop := (t.nodes.map (·.1)).Nodup

instance (t : T) : Decidable (NodupK t) := by unfold NodupK; infer_instance

theorem TEquiv.symm {a b : T} (h : TEquiv a b) : TEquiv b a := ⟨h.1.symm, fun k => (h.2 k).symm⟩
theorem TEquiv.trans {a b c : T} (h : TEquiv a b) (h' : TEquiv b c) : TEquiv a c :=
  ⟨h.1.trans h'.1, fun k => (h.2 k).trans (h'.2 k)⟩

/-- results equal, post-states equivalent -/
def Rel {α} (x y : R α × T) : Prop := x.1 = y.1 ∧ TEquiv x.2 y.2

theorem rel_mk {α} {r : R α} {a b : T} (h : TEquiv a b) : Rel (r, a) (r, b) := ⟨rfl, h⟩

variable {a b : T}

theorem get_eq (h : TEquiv a b) : get a = get b := funext h.2

theorem isDir_eq (h : TEquiv a b) : isDir a = isDir b := by
  funext p; unfold isDir; rw [h.2]
theorem isFile_eq (h : TEquiv a b) : isFile a = isFile b := by
  funext p; unfold isFile; rw [h.2]
theorem isLink_eq (h : TEquiv a b) : isLink a = isLink b := by
  funext p; unfold isLink; rw [h.2]
theorem isLinkToDir_eq (h : TEquiv a b) : isLinkToDir a = isLinkToDir b := by
  funext p; unfold isLinkToDir; rw [h.2]
theorem parentCheck_eq (h : TEquiv a b) : parentCheck a = parentCheck b := by
  funext p; unfold parentCheck; rw [h.2]

theorem get_put (t : T) (p : FsPath) (n : Node) (k : FsPath) :
    get (put t p n) k = if p = k then some n else get t k := RefineA.get_put t p n k

theorem put_congr (h : TEquiv a b) (p : FsPath) (n : Node) : TEquiv (put a p n) (put b p n) :=
  ⟨h.1, fun k => by rw [get_put, get_put, h.2]⟩

theorem nodupK_put {t : T} (h : NodupK t) (p : FsPath) (n : Node) : NodupK (put t p n) :=
  nodup_alInsert h

/-- case analysis on the (now syntactically equal) tests of both sides -/
local macro "rel_splits" h:ident : tactic =>
  `(tactic| repeat' (first | exact rel_mk $h | exact rel_mk (put_congr $h _ _) | exact $h | split))

/-! ### creators -/

theorem mkfile_congr (h : TEquiv a b) (p : FsPath) : Rel (mkfile a p) (mkfile b p) := by
  unfold mkfile
  rw [parentCheck_eq h, h.2 p]
  rel_splits h

theorem nodupK_mkfile {t : T} (h : NodupK t) (p : FsPath) : NodupK (mkfile t p).2 := by
  unfold mkfile
  repeat' (first | exact h | exact nodupK_put h _ _ | split)

theorem writeAll_congr (h : TEquiv a b) (p : FsPath) (d : Bytes) (ap : Bool) :
    Rel (writeAll a p d ap) (writeAll b p d ap) := by
  unfold writeAll
  rw [parentCheck_eq h, h.2 p]
  rel_splits h

theorem nodupK_writeAll {t : T} (h : NodupK t) (p : FsPath) (d : Bytes) (ap : Bool) :
    NodupK (writeAll t p d ap).2 := by
  unfold writeAll
  repeat' (first | exact h | exact nodupK_put h _ _ | split)

theorem symlink_congr (h : TEquiv a b) (l tg : FsPath) : Rel (symlink a l tg) (symlink b l tg) := by
  unfold symlink
  rw [parentCheck_eq h, h.2 l, h.2 tg]
  rel_splits h

theorem nodupK_symlink {t : T} (h : NodupK t) (l tg : FsPath) : NodupK (symlink t l tg).2 := by
  unfold symlink
  repeat' (first | exact h | exact nodupK_put h _ _ | split)

theorem setCwd_congr (h : TEquiv a b) (p : FsPath) : Rel (setCwd a p) (setCwd b p) := by
  unfold setCwd
  rw [h.2 p]
  repeat' (first | exact rel_mk h | exact rel_mk ⟨rfl, h.2⟩ | split)

theorem nodupK_setCwd {t : T} (h : NodupK t) (p : FsPath) : NodupK (setCwd t p).2 := by
  unfold setCwd
  repeat' (first | exact h | split)

theorem mkdirLoop_congr (perm : Nat) : ∀ (qs : List FsPath) {a b : T}, TEquiv a b →
    (mkdirLoop perm qs a).1 = (mkdirLoop perm qs b).1 ∧
      TEquiv (mkdirLoop perm qs a).2 (mkdirLoop perm qs b).2 := by
  intro qs
  induction qs with
  | nil => intro a b h; exact ⟨rfl, h⟩
  | cons q qs ih =>
    intro a b h
    unfold mkdirLoop
    rw [h.2 q]
    split
    · split
      · exact ih h
      · exact ⟨rfl, h⟩
    · exact ih (put_congr h _ _)

theorem nodupK_mkdirLoop (perm : Nat) : ∀ (qs : List FsPath) {t : T}, NodupK t →
    NodupK (mkdirLoop perm qs t).2 := by
  intro qs
  induction qs with
  | nil => intro t h; exact h
  | cons q qs ih =>
    intro t h
    unfold mkdirLoop
    split
    · split
      · exact ih h
      · exact h
    · exact ih (nodupK_put h _ _)

theorem mkdir_congr (h : TEquiv a b) (p : FsPath) (perm : Nat) : Rel (mkdir a p perm) (mkdir b p perm) := by
  unfold mkdir
  rw [isLinkToDir_eq h, get_eq h]
  have hl := mkdirLoop_congr perm (prefixes p) h
  split
  · exact rel_mk h
  · simp only
    split
    · exact rel_mk h
    · rcases h1 : mkdirLoop perm (prefixes p) a with ⟨o1, t1⟩
      rcases h2 : mkdirLoop perm (prefixes p) b with ⟨o2, t2⟩
      rw [h1, h2] at hl
      obtain ⟨hl1, hl2⟩ := hl
      simp only at hl1 hl2
      subst hl1
      cases o1 with
      | none => exact rel_mk hl2
      | some e => exact rel_mk h

theorem nodupK_mkdir {t : T} (h : NodupK t) (p : FsPath) (perm : Nat) : NodupK (mkdir t p perm).2 := by
  unfold mkdir
  have hl := nodupK_mkdirLoop perm (prefixes p) h
  split
  · exact h
  · simp only
    split
    · exact h
    · rcases h1 : mkdirLoop perm (prefixes p) t with ⟨o1, t1⟩
      rw [h1] at hl
      cases o1 with
      | none => exact hl
      | some e => exact h

/-! ### `remove`, `remove_all` -/

theorem mem_keys_iff (t : T) (k : FsPath) : k ∈ t.nodes.map (·.1) ↔ (get t k).isSome :=
  (alLookup_isSome_iff k t.nodes).symm

theorem keys_iff (h : TEquiv a b) (k : FsPath) : k ∈ a.nodes.map (·.1) ↔ k ∈ b.nodes.map (·.1) := by
  rw [mem_keys_iff, mem_keys_iff, h.2]

theorem below_isEmpty_iff (t : T) (p : FsPath) :
    (below t p).isEmpty = true ↔ ∀ k, (get t k).isSome → isProperPrefix p k = false := by
  unfold below
  rw [List.isEmpty_iff, List.filter_eq_nil_iff]
  constructor
  · intro hx k hk
    have := hx k ((mem_keys_iff t k).2 hk)
    simpa using this
  · intro hx k hk
    rw [hx k ((mem_keys_iff t k).1 hk)]
    simp

theorem below_isEmpty_eq (h : TEquiv a b) (p : FsPath) : (below a p).isEmpty = (below b p).isEmpty := by
  apply Bool.eq_iff_iff.2
  rw [below_isEmpty_iff, below_isEmpty_iff]
  simp only [h.2]

theorem get_del {t : T} (hn : NodupK t) (p k : FsPath) :
    get (del t p) k = if p = k then none else get t k := alLookup_alErase hn

theorem del_congr (h : TEquiv a b) (ha : NodupK a) (hb : NodupK b) (p : FsPath) :
    TEquiv (del a p) (del b p) :=
  ⟨h.1, fun k => by rw [get_del ha, get_del hb, h.2]⟩

theorem nodupK_del {t : T} (h : NodupK t) (p : FsPath) : NodupK (del t p) := nodup_alErase h

theorem remove_congr (h : TEquiv a b) (ha : NodupK a) (hb : NodupK b) (p : FsPath) :
    Rel (remove a p) (remove b p) := by
  unfold remove
  rw [h.2 p, h.2 p.dropLast, below_isEmpty_eq h]
  repeat' (first | exact rel_mk h | exact rel_mk (del_congr h ha hb _) | split)

theorem nodupK_remove {t : T} (h : NodupK t) (p : FsPath) : NodupK (remove t p).2 := by
  unfold remove
  repeat' (first | exact h | exact nodupK_del h _ | split)

theorem nodupK_filter {t : T} (h : NodupK t) (f : FsPath × Node → Bool) :
    NodupK { t with nodes := t.nodes.filter f } :=
  List.Nodup.sublist (List.Sublist.map _ List.filter_sublist) h

theorem get_filter_key (t : T) (P : FsPath → Bool) (k : FsPath) :
    get { t with nodes := t.nodes.filter (fun kv => P kv.1) } k = if P k then get t k else none :=
  alLookup_filter_key k P t.nodes

theorem removeAll_congr (h : TEquiv a b) (p : FsPath) : Rel (removeAll a p) (removeAll b p) := by
  unfold removeAll
  split
  · exact rel_mk h
  · refine ⟨rfl, h.1, fun k => ?_⟩
    rw [get_filter_key a (fun q => !(isPrefixOrEq p q)), get_filter_key b (fun q => !(isPrefixOrEq p q)),
      h.2]

theorem nodupK_removeAll {t : T} (h : NodupK t) (p : FsPath) : NodupK (removeAll t p).2 := by
  unfold removeAll
  split
  · exact h
  · exact nodupK_filter h _

/-! ### `chmod` (octal), `chown` -/

open Rivia.Lemmas.RefineB (selB permFn chmodOctal_eq alLookup_map_if)

theorem selB_eq (h : TEquiv a b) (p : FsPath) (rec : Bool) : selB a p rec = selB b p rec := by
  funext k; unfold selB; rw [isDir_eq h]

theorem get_map_if (t : T) (P : FsPath → Bool) (f : Node → Node) (k : FsPath) :
    get { t with nodes := t.nodes.map (fun kv => if P kv.1 then (kv.1, f kv.2) else kv) } k =
      (get t k).map (fun v => if P k then f v else v) := alLookup_map_if P f k t.nodes

theorem nodupK_map_if {t : T} (h : NodupK t) (P : FsPath → Bool) (f : Node → Node) :
    NodupK { t with nodes := t.nodes.map (fun kv => if P kv.1 then (kv.1, f kv.2) else kv) } := by
  unfold NodupK at h ⊢
  have : (t.nodes.map (fun kv => if P kv.1 then (kv.1, f kv.2) else kv)).map (·.1) = t.nodes.map (·.1) := by
    rw [List.map_map]
    apply List.map_congr_left
    intro kv _
    simp only [Function.comp]
    split <;> rfl
  rw [this]; exact h

theorem chmodOctal_congr (h : TEquiv a b) (p : FsPath) (dP fP : Option Nat) (rec : Bool) :
    Rel (chmodOctal a p dP fP rec) (chmodOctal b p dP fP rec) := by
  rw [chmodOctal_eq, chmodOctal_eq, h.2 p, selB_eq h]
  split
  · exact rel_mk h
  · refine ⟨rfl, h.1, fun k => ?_⟩
    rw [get_map_if, get_map_if, h.2]

theorem nodupK_chmodOctal {t : T} (h : NodupK t) (p : FsPath) (dP fP : Option Nat) (rec : Bool) :
    NodupK (chmodOctal t p dP fP rec).2 := by
  rw [chmodOctal_eq]
  split
  · exact h
  · exact nodupK_map_if h _ _

def ownFn (uid gid : Option Nat) (n : Node) : Node :=
  { n with uid := uid.getD n.uid, gid := gid.getD n.gid }

theorem chown_eq (t : T) (p : FsPath) (uid gid : Option Nat) (rec : Bool) :
    chown t p uid gid rec = match get t p with
      | none => (.err (some .doesNotExist), t)
      | some _ => (.ok (), { t with nodes := t.nodes.map (fun kv =>
          if selB t p rec kv.1 then (kv.1, ownFn uid gid kv.2) else kv) }) := by
  unfold chown
  cases get t p <;> rfl

theorem chown_congr (h : TEquiv a b) (p : FsPath) (uid gid : Option Nat) (rec : Bool) :
    Rel (chown a p uid gid rec) (chown b p uid gid rec) := by
  rw [chown_eq, chown_eq, h.2 p, selB_eq h]
  split
  · exact rel_mk h
  · refine ⟨rfl, h.1, fun k => ?_⟩
    rw [get_map_if, get_map_if, h.2]

theorem nodupK_chown {t : T} (h : NodupK t) (p : FsPath) (uid gid : Option Nat) (rec : Bool) :
    NodupK (chown t p uid gid rec).2 := by
  rw [chown_eq]
  split
  · exact h
  · exact nodupK_map_if h _ _

/-! ### `move_p` -/

open Rivia.Lemmas.RefineB (moveP_eq movedNodes get_movedNodes okDstOf emptyOntoOf isPrefixOrEq_iff)

theorem okDstOf_eq (h : TEquiv a b) : okDstOf a = okDstOf b := by
  funext sn dst; unfold okDstOf; rw [h.2]

theorem emptyOntoOf_eq (h : TEquiv a b) : emptyOntoOf a = emptyOntoOf b := by
  funext sn dst; unfold emptyOntoOf; rw [h.2, below_isEmpty_eq h]

theorem movedNodes_congr (h : TEquiv a b) (s dst : FsPath) :
    TEquiv (movedNodes a s dst) (movedNodes b s dst) :=
  ⟨h.1, fun k => by rw [get_movedNodes, get_movedNodes]; simp only [h.2]⟩

theorem moveP_congr (h : TEquiv a b) (s d : FsPath) : Rel (moveP a s d) (moveP b s d) := by
  rw [moveP_eq, moveP_eq, h.2 s, isDir_eq h, okDstOf_eq h, emptyOntoOf_eq h]
  repeat' (first | exact rel_mk h | exact rel_mk (movedNodes_congr h _ _) | split)

/-- every proper ancestor of a key is a directory (a `get`-determined part of well-formedness) -/
def AncDir (t : T) : Prop := ∀ p x r, (get t (p ++ x :: r)).isSome → isDir t p = true

theorem ancDir_congr (h : TEquiv a b) (ha : AncDir a) : AncDir b := by
  intro p x r hk
  rw [← h.2] at hk
  rw [← isDir_eq h]
  exact ha p x r hk

theorem mem_moved_keys (s dst : FsPath) (l : List (FsPath × Node)) (k : FsPath) :
    k ∈ (l.filterMap (fun kv => if isPrefixOrEq s kv.1 then some (dst ++ kv.1.drop s.length, kv.2)
        else none)).map (·.1) ↔ ∃ r, k = dst ++ r ∧ s ++ r ∈ l.map (·.1) := by
  simp only [List.mem_map, List.mem_filterMap]
  constructor
  · rintro ⟨kv', ⟨kv, hkv, hif⟩, rfl⟩
    by_cases hp : isPrefixOrEq s kv.1 = true
    · rw [if_pos hp] at hif
      cases hif
      obtain ⟨r, hr⟩ := (isPrefixOrEq_iff s kv.1).1 hp
      refine ⟨r, ?_, kv, hkv, hr.symm⟩
      simp only [← hr, List.drop_left]
    · rw [if_neg hp] at hif; cases hif
  · rintro ⟨r, rfl, kv, hkv, hr⟩
    refine ⟨(dst ++ r, kv.2), ⟨kv, hkv, ?_⟩, rfl⟩
    have hp : isPrefixOrEq s kv.1 = true := (isPrefixOrEq_iff s kv.1).2 (hr ▸ List.prefix_append _ _)
    rw [if_pos hp, hr, List.drop_left]

theorem nodup_moved_keys (s dst : FsPath) : ∀ (l : List (FsPath × Node)), (l.map (·.1)).Nodup →
    ((l.filterMap (fun kv => if isPrefixOrEq s kv.1 then some (dst ++ kv.1.drop s.length, kv.2)
        else none)).map (·.1)).Nodup := by
  intro l
  induction l with
  | nil => intro _; exact List.nodup_nil
  | cons x xs ih =>
    intro hn
    rw [List.map_cons, List.nodup_cons] at hn
    rw [List.filterMap_cons]
    by_cases hp : isPrefixOrEq s x.1 = true
    · simp only [hp, if_true, List.map_cons, List.nodup_cons]
      refine ⟨?_, ih hn.2⟩
      intro hm
      obtain ⟨r, hr, hmem⟩ := (mem_moved_keys s dst xs _).1 hm
      obtain ⟨r0, hr0⟩ := (isPrefixOrEq_iff s x.1).1 hp
      rw [← hr0, List.drop_left] at hr
      have : r0 = r := List.append_cancel_left hr
      subst this
      rw [hr0] at hmem
      exact hn.1 hmem
    · have hp' : isPrefixOrEq s x.1 = false := by cases h : isPrefixOrEq s x.1 <;> simp_all
      simp only [hp', Bool.false_eq_true, if_false]
      exact ih hn.2

theorem nodupK_movedNodes {t : T} (hn : NodupK t) (s dst : FsPath)
    (hfree : ∀ x r, (get t (dst ++ x :: r)).isSome → s <+: dst ++ x :: r) :
    NodupK (movedNodes t s dst) := by
  unfold NodupK movedNodes
  simp only [List.map_append]
  rw [List.nodup_append]
  refine ⟨List.Nodup.sublist (List.Sublist.map _ List.filter_sublist) hn, nodup_moved_keys s dst _ hn, ?_⟩
  intro k hk1 k' hk2 hkk
  subst hkk
  obtain ⟨kv, hkv, rfl⟩ := List.mem_map.1 hk1
  rw [List.mem_filter] at hkv
  obtain ⟨hmem, hcond⟩ := hkv
  simp only [Bool.and_eq_true, Bool.not_eq_true', decide_eq_true_eq] at hcond
  obtain ⟨r, hr, hsr⟩ := (mem_moved_keys s dst _ _).1 hk2
  cases r with
  | nil => exact hcond.2 (by simpa using hr)
  | cons x r =>
    have hsome : (get t (dst ++ x :: r)).isSome := by
      rw [← hr]; exact (mem_keys_iff t _).1 (List.mem_map.2 ⟨kv, hmem, rfl⟩)
    have := (isPrefixOrEq_iff s _).2 (hfree x r hsome)
    rw [← hr, hcond.1] at this
    cases this

theorem nodupK_moved_ok {t : T} (hn : NodupK t) (hA : AncDir t) (s dst : FsPath) (sn : Node)
    (hok : okDstOf t sn dst = true) : NodupK (movedNodes t s dst) := by
  apply nodupK_movedNodes hn
  intro x r hsome
  exfalso
  have hd := hA _ x r hsome
  unfold okDstOf at hok
  unfold isDir at hd
  cases hg : get t dst with
  | none => rw [hg] at hd; cases hd
  | some dn =>
    rw [hg] at hd hok
    simp only [decide_eq_true_eq] at hd
    simp [hd] at hok

theorem nodupK_moveP {t : T} (hn : NodupK t) (hA : AncDir t) (s d : FsPath) : NodupK (moveP t s d).2 := by
  rw [moveP_eq]
  generalize (if isDir t d = true then d ++ [baseName s] else d) = dst
  split
  · exact hn
  · rename_i sn _
    repeat' (first | exact hn | split)
    rename_i hok
    exact nodupK_moved_ok hn hA s dst sn (by simpa using hok)

end Rivia.Lemmas.Sim
