/-
  Rivia.Lemmas.SnapshotFuel — the potential of the snapshot worklist (`_clone_entries`, model
  `cloneLoop`), on top of the CopyMove association-list lemmas.

  This is the argument of Rivia/Lemmas/FuelClone.lean (`clone_step`, `cloneLoop_fuel`) restated in
  the namespace `Rivia.Lemmas.Snap`: the `Fuel*` files and the `CopyMove` family both declare
  `Rivia.Lemmas.alLookup_alInsert` / `alLookup_of_mem`, so they cannot be imported into one file;
  the snapshot theorem is needed next to the copy theorems (C09), hence this self-contained copy.

  Potential: Φ(W, acc) = Σ over the worklist of the number of entries at/under that path
                        + (n+1) · #(entries not yet in the snapshot).
-/
import Rivia.Lemmas.CopyMove

namespace Rivia.Lemmas.Snap
open Rivia Rivia.Memfs Rivia.Lemmas

abbrev Ents := List (FsPath × Entry)

/-- the child names of an entry -/
def names (e : Entry) : List Str := e.files.getD []

/-! ### sums -/

theorem sum_map_le {α} (f g : α → Nat) (l : List α) (h : ∀ x ∈ l, f x ≤ g x) :
    (l.map f).sum ≤ (l.map g).sum := by
  induction l with
  | nil => simp
  | cons a l ih =>
    simp only [List.map_cons, List.sum_cons]
    have := h a List.mem_cons_self
    have := ih (fun x hx => h x (List.mem_cons_of_mem _ hx))
    omega

theorem sum_map_lt {α} (f g : α → Nat) (l : List α) (h : ∀ x ∈ l, f x ≤ g x)
    {a : α} (ha : a ∈ l) (hlt : f a < g a) : (l.map f).sum < (l.map g).sum := by
  induction l with
  | nil => cases ha
  | cons b l ih =>
    simp only [List.map_cons, List.sum_cons]
    have hb := h b List.mem_cons_self
    have hl : ∀ x ∈ l, f x ≤ g x := fun x hx => h x (List.mem_cons_of_mem _ hx)
    rcases List.mem_cons.1 ha with rfl | ha'
    · have := sum_map_le f g l hl
      omega
    · have := ih hl ha'
      omega

theorem sum_map_const {α} (c : Nat) (l : List α) : (l.map (fun _ => c)).sum = c * l.length := by
  induction l with
  | nil => rfl
  | cons a l ih =>
    simp only [List.map_cons, List.sum_cons, List.length_cons, ih, Nat.mul_succ]; omega

theorem sum_map_add {α} (a b : α → Nat) (N : List α) :
    (N.map (fun n => a n + b n)).sum = (N.map a).sum + (N.map b).sum := by
  induction N with
  | nil => rfl
  | cons n N ih => simp only [List.map_cons, List.sum_cons, ih]; omega

theorem sum_map_zero {α} (f : α → Nat) (N : List α) (h : ∀ n ∈ N, f n = 0) : (N.map f).sum = 0 := by
  induction N with
  | nil => rfl
  | cons n N ih =>
    simp only [List.map_cons, List.sum_cons, h n List.mem_cons_self,
      ih (fun n hn => h n (List.mem_cons_of_mem _ hn))]

theorem sum_reverse (L : List Nat) : L.reverse.sum = L.sum := by
  induction L with
  | nil => rfl
  | cons a L ih => simp [ih]; omega

/-! ### counting the keys under a path -/

/-- number of keys at or under `x` -/
def cnt (l : Ents) (x : FsPath) : Nat := l.countP (fun kv => x <+: kv.1)

theorem snoc_inj {k k' : FsPath} {n n' : Str} (h : k ++ [n] = k' ++ [n']) : k = k' ∧ n = n' := by
  have := List.append_inj' h rfl
  exact ⟨this.1, by simpa using this.2⟩

/-- number of listed children of `w` that are a prefix of `k` -/
def kidHits (w : FsPath) (N : List Str) (k : FsPath) : Nat :=
  (N.map (fun n => if w ++ [n] <+: k then 1 else 0)).sum

/-- at most one child of `w` is a prefix of a given key -/
theorem kidHits_le_one (w k : FsPath) (N : List Str) (nd : N.Nodup) : kidHits w N k ≤ 1 := by
  unfold kidHits
  induction N with
  | nil => simp
  | cons n N ih =>
    rw [List.nodup_cons] at nd
    simp only [List.map_cons, List.sum_cons]
    split
    · rename_i hn
      have : (N.map (fun n => if w ++ [n] <+: k then 1 else 0)).sum = 0 := by
        apply sum_map_zero
        intro n' hn'
        rw [if_neg]
        intro hn2
        have := List.prefix_of_prefix_length_le hn hn2 (by simp)
        have := (snoc_inj (this.eq_of_length (by simp))).2
        exact nd.1 (this ▸ hn')
      omega
    · have := ih nd.2
      omega

theorem kidHits_zero {w k : FsPath} (N : List Str) (h : ¬ w <+: k ∨ k = w) : kidHits w N k = 0 := by
  unfold kidHits
  apply sum_map_zero
  intro n _
  rw [if_neg]
  intro h3
  rcases h with h | h
  · exact h ((List.prefix_append w [n]).trans h3)
  · subst h
    have := h3.length_le
    simp at this
    omega

theorem kids_count_le (l : Ents) (w : FsPath) (N : List Str) (nd : N.Nodup) :
    (N.map (fun n => cnt l (w ++ [n]))).sum + l.countP (fun kv => kv.1 = w) ≤ cnt l w := by
  induction l with
  | nil => simp [cnt, sum_map_zero]
  | cons kv l ih =>
    have hsplit : (N.map (fun n => cnt (kv :: l) (w ++ [n]))).sum =
        kidHits w N kv.1 + (N.map (fun n => cnt l (w ++ [n]))).sum := by
      unfold kidHits
      rw [← sum_map_add]
      congr 1
      apply List.map_congr_left
      intro n _
      unfold cnt
      rw [List.countP_cons]
      simp only [decide_eq_true_eq]
      omega
    have h3 : cnt (kv :: l) w = cnt l w + (if w <+: kv.1 then 1 else 0) := by
      unfold cnt; rw [List.countP_cons]; simp only [decide_eq_true_eq]
    have h4 : (kv :: l).countP (fun kv => kv.1 = w) =
        l.countP (fun kv => kv.1 = w) + (if kv.1 = w then 1 else 0) := by
      rw [List.countP_cons]; simp only [decide_eq_true_eq]
    rw [hsplit, h3, h4]
    have h1 := kidHits_le_one w kv.1 N nd
    by_cases hw : kv.1 = w
    · rw [kidHits_zero N (.inr hw), if_pos hw, if_pos (hw ▸ List.prefix_refl _)]
      omega
    · rw [if_neg hw]
      by_cases hp : w <+: kv.1
      · rw [if_pos hp]; omega
      · rw [kidHits_zero N (.inl hp), if_neg hp]; omega

theorem kids_count_lt (l : Ents) (w : FsPath) (N : List Str) (nd : N.Nodup) {e : Entry}
    (hw : (w, e) ∈ l) : (N.map (fun n => cnt l (w ++ [n]))).sum < cnt l w := by
  have h1 := kids_count_le l w N nd
  have h2 : 0 < l.countP (fun kv => kv.1 = w) :=
    List.countP_pos_iff.2 ⟨(w, e), hw, by simp⟩
  omega

theorem cnt_le_length (ents : Ents) (x : FsPath) : cnt ents x ≤ ents.length :=
  List.countP_le_length

theorem cnt_pos {ents : Ents} {p : FsPath} {e : Entry} (h : (p, e) ∈ ents) : 0 < cnt ents p :=
  List.countP_pos_iff.2 ⟨(p, e), h, by simp⟩

/-! ### one iteration of the loop -/

/-- one iteration of `cloneLoop` on an existing entry: new worklist and snapshot -/
def cloneNext (ents : Ents) (e : Entry) (work : List FsPath) (acc : Snap) : List FsPath × Snap :=
  let acc := alInsert e.path e acc
  let work := ((names e).map (fun n => e.path ++ [n])).reverse ++ work
  let work := match e.alt with
    | some a => if e.link ∧ (alLookup a ents).isSome ∧ (alLookup a acc).isNone then a :: work else work
    | none => work
  (work, acc)

theorem cloneLoop_succ (ents : Ents) (f : Nat) (p : FsPath) (work : List FsPath) (acc : Snap) :
    cloneLoop ents (f + 1) (p :: work) acc =
      match alLookup p ents with
      | none => .err .doesNotExist
      | some e => cloneLoop ents f (cloneNext ents e work acc).1 (cloneNext ents e work acc).2 := by
  rw [cloneLoop]
  cases alLookup p ents with
  | none => rfl
  | some e =>
    simp only [cloneNext, names]
    cases e.files <;> rfl

theorem cloneNext_snd (ents : Ents) (e : Entry) (W : List FsPath) (acc : Snap) :
    (cloneNext ents e W acc).2 = alInsert e.path e acc := rfl

/-- everything that was on the worklist, and every child, is on the new worklist -/
theorem cloneNext_fst_sup (ents : Ents) (e : Entry) (W : List FsPath) (acc : Snap) (x : FsPath)
    (h : x ∈ ((names e).map (fun n => e.path ++ [n])) ∨ x ∈ W) : x ∈ (cloneNext ents e W acc).1 := by
  have hx : x ∈ ((names e).map (fun n => e.path ++ [n])).reverse ++ W := by
    rw [List.mem_append, List.mem_reverse]; exact h
  unfold cloneNext
  simp only
  cases e.alt with
  | none => exact hx
  | some a =>
    simp only
    split
    · exact List.mem_cons_of_mem _ hx
    · exact hx

/-- the new worklist holds the old one, the children, and possibly the existing target of a link -/
theorem cloneNext_fst_sub (ents : Ents) (e : Entry) (W : List FsPath) (acc : Snap) (x : FsPath)
    (h : x ∈ (cloneNext ents e W acc).1) :
    x ∈ ((names e).map (fun n => e.path ++ [n])) ∨ x ∈ W ∨ (alLookup x ents).isSome = true := by
  unfold cloneNext at h
  simp only at h
  have key : x ∈ ((names e).map (fun n => e.path ++ [n])).reverse ++ W →
      x ∈ ((names e).map (fun n => e.path ++ [n])) ∨ x ∈ W ∨ (alLookup x ents).isSome = true := by
    intro hx
    rw [List.mem_append, List.mem_reverse] at hx
    rcases hx with hx | hx
    · exact .inl hx
    · exact .inr (.inl hx)
  cases halt : e.alt with
  | none => rw [halt] at h; exact key h
  | some a =>
    rw [halt] at h
    simp only at h
    split at h
    · rename_i hc
      rcases List.mem_cons.1 h with h | h
      · subst h; exact .inr (.inr hc.2.1)
      · exact key h
    · exact key h

structure EntsOK (ents : Ents) : Prop where
  nodup : (ents.map (·.1)).Nodup
  path : ∀ k e, (k, e) ∈ ents → e.path = k
  namesNodup : ∀ k e, (k, e) ∈ ents → (names e).Nodup
  linkNoKids : ∀ k e, (k, e) ∈ ents → e.link = true → names e = []

theorem entsOK_of_invF {s : State} (hf : InvF s) : EntsOK s.entries := by
  refine ⟨hf.nodup, fun k e h => hf.path k e (alLookup_of_mem hf.nodup h), ?_, ?_⟩
  · intro k e hke
    unfold names
    cases hfs : e.files with
    | none => simp
    | some fs => exact hf.childnodup k e fs (alLookup_of_mem hf.nodup hke) hfs
  · intro k e hke hl
    have hlk := alLookup_of_mem hf.nodup hke
    unfold names
    cases hfs : e.files with
    | none => rfl
    | some fs =>
      cases fs with
      | nil => rfl
      | cons n ns =>
        exfalso
        obtain ⟨c, hc⟩ := hf.child k e (n :: ns) n hlk hfs List.mem_cons_self
        obtain ⟨pe, _, hpe, _, hlink, _⟩ := hf.parent (k ++ [n]) c hc (by simp)
        rw [List.dropLast_concat, hlk] at hpe
        cases hpe
        rw [hl] at hlink
        cases hlink

/-! ### potential -/

/-- number of entries that are not yet in the snapshot -/
def unseen (ents : Ents) (acc : Snap) : Nat :=
  (ents.map (fun kv => if (alLookup kv.1 acc).isNone then 1 else 0)).sum

def PhiC (ents : Ents) (W : List FsPath) (acc : Snap) : Nat :=
  (W.map (cnt ents)).sum + (ents.length + 1) * unseen ents acc

theorem unseen_le (ents : Ents) (acc : Snap) : unseen ents acc ≤ ents.length := by
  unfold unseen
  have := sum_map_le (fun kv : FsPath × Entry => if (alLookup kv.1 acc).isNone then 1 else 0)
    (fun _ => 1) ents (fun _ _ => by split <;> omega)
  rw [sum_map_const] at this
  omega

theorem unseen_insert_le (ents : Ents) (acc : Snap) (p : FsPath) (e : Entry) :
    unseen ents (alInsert p e acc) ≤ unseen ents acc := by
  unfold unseen
  apply sum_map_le
  intro kv _
  rw [alLookup_alInsert]
  split
  · simp
  · exact Nat.le_refl _

theorem unseen_insert_lt {ents : Ents} {acc : Snap} {p : FsPath} {e e' : Entry}
    (hm : (p, e') ∈ ents) (hnew : (alLookup p acc).isNone = true) :
    unseen ents (alInsert p e acc) < unseen ents acc := by
  unfold unseen
  apply sum_map_lt _ _ _ _ hm
  · simp only [alLookup_alInsert, if_true, hnew]
    simp
  · intro kv _
    rw [alLookup_alInsert]
    split
    · simp
    · exact Nat.le_refl _

/-! ### the link invariant -/

/-- every link already in the snapshot has its (existing) target in the snapshot or on top of the
    worklist -/
def CI (ents : Ents) (W : List FsPath) (acc : Snap) : Prop :=
  ∀ l e a, (alLookup l acc).isSome = true → alLookup l ents = some e → e.link = true →
    e.alt = some a → (alLookup a ents).isSome = true →
    (alLookup a acc).isSome = true ∨ W.head? = some a

theorem isSome_alInsert {β : Type} (k k0 : FsPath) (v0 : β) (l : List (FsPath × β)) :
    (alLookup k (alInsert k0 v0 l)).isSome = true ↔ k0 = k ∨ (alLookup k l).isSome = true := by
  rw [alLookup_alInsert]
  split
  · rename_i h; simp [h]
  · rename_i h; simp [h]

theorem clone_step {ents : Ents} (ok : EntsOK ents) {p : FsPath} {W : List FsPath} {acc : Snap}
    {e : Entry} (ci : CI ents (p :: W) acc) (hp : alLookup p ents = some e) :
    CI ents (cloneNext ents e W acc).1 (cloneNext ents e W acc).2 ∧
    PhiC ents (cloneNext ents e W acc).1 (cloneNext ents e W acc).2 < PhiC ents (p :: W) acc := by
  have hm := alLookup_mem hp
  have hpath : e.path = p := ok.path p e hm
  -- old snapshot members other than `p` keep their guarantee
  have hold : ∀ l e' a, l ≠ p → (alLookup l (alInsert p e acc)).isSome = true →
      alLookup l ents = some e' → e'.link = true → e'.alt = some a → (alLookup a ents).isSome = true →
      (alLookup a (alInsert p e acc)).isSome = true := by
    intro l e' a hne hl he' hlk halt ha
    rcases (isSome_alInsert l p e acc).1 hl with h | h
    · exact absurd h.symm hne
    · rcases ci l e' a h he' hlk halt ha with h2 | h2
      · exact (isSome_alInsert a p e acc).2 (.inr h2)
      · simp only [List.head?_cons, Option.some.injEq] at h2
        exact (isSome_alInsert a p e acc).2 (.inl h2)
  have hun := unseen_insert_le ents acc p e
  have hcp := cnt_pos hm
  unfold cloneNext
  simp only [hpath]
  by_cases hlink : e.link = true
  · -- a link: no children
    have hnk := ok.linkNoKids p e hm hlink
    simp only [hnk, List.map_nil, List.reverse_nil, List.nil_append]
    cases halt : e.alt with
    | none =>
      simp only
      constructor
      · intro l e' a hl he' hlk halt' ha
        by_cases hlp : l = p
        · subst hlp; rw [hp] at he'; cases he'; rw [halt] at halt'; cases halt'
        · exact .inl (hold l e' a hlp hl he' hlk halt' ha)
      · unfold PhiC
        simp only [List.map_cons, List.sum_cons]
        have := Nat.mul_le_mul_left (ents.length + 1) hun
        omega
    | some a =>
      simp only
      split
      · -- the target is pushed
        rename_i hcond
        constructor
        · intro l e' a' hl he' hlk halt' ha
          by_cases hlp : l = p
          · subst hlp; rw [hp] at he'; cases he'; rw [halt] at halt'; cases halt'
            exact .inr rfl
          · exact .inl (hold l e' a' hlp hl he' hlk halt' ha)
        · -- `p` was not in the snapshot yet
          have hnew : (alLookup p acc).isNone = true := by
            cases hpa : alLookup p acc with
            | none => rfl
            | some v =>
              exfalso
              have hnone := hcond.2.2
              rcases ci p e a (by rw [hpa]; rfl) hp hlink halt hcond.2.1 with h | h
              · have := (isSome_alInsert a p e acc).2 (.inr h)
                cases hx : alLookup a (alInsert p e acc) <;> simp_all
              · simp only [List.head?_cons, Option.some.injEq] at h
                have := (isSome_alInsert a p e acc).2 (.inl h)
                cases hx : alLookup a (alInsert p e acc) <;> simp_all
          have hlt := unseen_insert_lt (e := e) hm hnew
          unfold PhiC
          simp only [List.map_cons, List.sum_cons]
          have hca := cnt_le_length ents a
          have := Nat.mul_le_mul_left (ents.length + 1) (Nat.succ_le_of_lt hlt)
          rw [Nat.mul_succ] at this
          omega
      · -- the target is already there (or does not exist)
        rename_i hcond
        constructor
        · intro l e' a' hl he' hlk halt' ha
          by_cases hlp : l = p
          · subst hlp; rw [hp] at he'; cases he'; rw [halt] at halt'; cases halt'
            left
            cases hx : alLookup a (alInsert l e acc) with
            | some v => rfl
            | none => exact absurd ⟨hlink, ha, by rw [hx]; rfl⟩ hcond
          · exact .inl (hold l e' a' hlp hl he' hlk halt' ha)
        · unfold PhiC
          simp only [List.map_cons, List.sum_cons]
          have := Nat.mul_le_mul_left (ents.length + 1) hun
          omega
  · -- not a link: the children are pushed, never the target
    have hW : (match e.alt with
        | some a => if e.link = true ∧ (alLookup a ents).isSome = true ∧
            (alLookup a (alInsert p e acc)).isNone = true then
              a :: (((names e).map (fun n => p ++ [n])).reverse ++ W)
            else ((names e).map (fun n => p ++ [n])).reverse ++ W
        | none => ((names e).map (fun n => p ++ [n])).reverse ++ W) =
        ((names e).map (fun n => p ++ [n])).reverse ++ W := by
      cases e.alt with
      | none => rfl
      | some a => simp only; rw [if_neg (fun h => hlink h.1)]
    rw [hW]
    constructor
    · intro l e' a' hl he' hlk halt' ha
      by_cases hlp : l = p
      · subst hlp; rw [hp] at he'; cases he'; exact absurd hlk hlink
      · exact .inl (hold l e' a' hlp hl he' hlk halt' ha)
    · unfold PhiC
      simp only [List.map_cons, List.sum_cons, List.map_append, List.sum_append, List.map_reverse,
        sum_reverse, List.map_map]
      have h3 := kids_count_lt ents p (names e) (ok.namesNodup p e hm) hm
      have h4 : ((names e).map (cnt ents ∘ fun n => p ++ [n])).sum =
          ((names e).map (fun n => cnt ents (p ++ [n]))).sum := rfl
      have := Nat.mul_le_mul_left (ents.length + 1) hun
      omega

theorem phiC_init_lt (ents : Ents) (abs : FsPath) :
    PhiC ents [abs] [] < 4 * (ents.length + 1) * (ents.length + 1) := by
  unfold PhiC
  have h1 := cnt_le_length ents abs
  have h2 := unseen_le ents []
  have h3 := Nat.mul_le_mul_left (ents.length + 1) h2
  have h4 : 4 * (ents.length + 1) * (ents.length + 1) =
      4 * ((ents.length + 1) * ents.length) + 4 * (ents.length + 1) := by
    rw [Nat.mul_assoc, ← Nat.mul_add, Nat.mul_succ]
  simp only [List.map_cons, List.map_nil, List.sum_cons, List.sum_nil]
  omega

theorem ci_init (ents : Ents) (abs : FsPath) : CI ents [abs] [] := by
  intro l e a hl
  simp [alLookup] at hl

end Rivia.Lemmas.Snap
