/-
  Rivia.Lemmas.User — helper lemmas for C18 (XDG directories, getrids):
  `components` of `push` / `render` / `mash`, `homeOr`, `listOr`, `parseU32`.
-/
import Rivia.Model.User
import Rivia.Lemmas.PathBasics
import Rivia.Lemmas.Clean
import Rivia.Lemmas.Relative

namespace Rivia.Lemmas
open Rivia Rivia.Str Rivia.User

/-! ### components as a function of rootedness and the `/`-pieces -/

def compsOf (r : Bool) (ps : List Str) : List Comp :=
  if r then .root :: ps.filterMap bodyComp
  else (if ps.head? = some ['.'] then [.cur] else []) ++ ps.filterMap bodyComp

theorem components_eq_compsOf (s : Str) : components s = compsOf (isRooted s) (splitSlash s) := by
  unfold components compsOf
  cases isRooted s <;> simp

theorem head?_append_ne_nil {α} {l : List α} (h : l ≠ []) (m : List α) : (l ++ m).head? = l.head? := by
  cases l with
  | nil => exact absurd rfl h
  | cons a t => rfl

theorem compsOf_snoc_wf (r : Bool) {ps : List Str} (hne : ps ≠ []) {b : Str} (hb : Wf b) :
    compsOf r (ps ++ [b]) = compsOf r ps ++ [.normal b] := by
  unfold compsOf
  rw [List.filterMap_append, head?_append_ne_nil hne]
  simp only [List.filterMap_cons, List.filterMap_nil, bodyComp_of_wf hb]
  cases r <;> simp

theorem compsOf_snoc_nil (r : Bool) {ps : List Str} (hne : ps ≠ []) :
    compsOf r (ps ++ [[]]) = compsOf r ps := by
  unfold compsOf
  rw [List.filterMap_append, head?_append_ne_nil hne]
  have : bodyComp [] = none := by decide
  simp [this]

theorem splitOn_append_sep' (sep : Char) (a r : Str) :
    splitOn sep (a ++ sep :: r) = splitOn sep a ++ splitOn sep r := by
  induction a with
  | nil => simp [splitOn_cons_sep, splitOn_nil]
  | cons c cs ih =>
    by_cases h : c = sep
    · subst h
      simp [splitOn_cons_sep, ih]
    · obtain ⟨hd, tl, e1, e2⟩ := splitOn_cons_of_ne h (cs ++ sep :: r)
      obtain ⟨hd', tl', e1', e2'⟩ := splitOn_cons_of_ne h cs
      rw [List.cons_append, e2, e2']
      rw [ih, e1'] at e1
      simp only [List.cons_append, List.cons.injEq] at e1
      rw [← e1.1, ← e1.2]
      simp

theorem endsWithSlash_true {d : Str} (h : endsWithSlash d = true) : ∃ d', d = d' ++ ['/'] := by
  rcases eq_nil_or_snoc d with rfl | ⟨mid, t, rfl⟩
  · simp [endsWithSlash] at h
  · rw [endsWithSlash_append mid (by simp)] at h
    simp [endsWithSlash] at h
    subst h
    exact ⟨mid, rfl⟩

/-- (A) pushing a well-formed name appends one `Normal` component -/
theorem components_push_wf {d b : Str} (hd : d ≠ []) (hb : Wf b) :
    components (push d b) = components d ++ [.normal b] := by
  have hnr : isRooted b = false := isRooted_of_not_mem hb.2.1
  have hsb : splitOn '/' b = [b] := splitOn_of_not_mem hb.2.1
  unfold push
  rw [hnr]
  simp only [Bool.false_eq_true, if_false, hd, ne_eq, not_false_eq_true, true_and]
  cases he : endsWithSlash d with
  | false =>
    simp only [if_true]
    rw [components_eq_compsOf, components_eq_compsOf, isRooted_append hd]
    unfold splitSlash
    rw [splitOn_append_sep', hsb, compsOf_snoc_wf _ (splitOn_ne_nil _ _) hb]
  | true =>
    simp only [Bool.true_eq_false, if_false]
    obtain ⟨d', rfl⟩ := endsWithSlash_true he
    rw [components_eq_compsOf, components_eq_compsOf, isRooted_append hd]
    unfold splitSlash
    rw [List.append_assoc, List.singleton_append, splitOn_append_sep', hsb, splitOn_append_sep',
      splitOn_nil, compsOf_snoc_wf _ (splitOn_ne_nil _ _) hb, compsOf_snoc_nil _ (splitOn_ne_nil _ _)]

/-! ### (B) re-collecting components is the identity on component lists -/

/-- a body component as produced by `components`: `..` or a proper `Normal` -/
def BodyCU (c : Comp) : Prop := c = .parent ∨ ∃ p, c = .normal p ∧ BodyPiece p ∧ p ≠ ['.', '.']

theorem BodyCU.bodyPiece {c : Comp} (h : BodyCU c) : BodyPiece c.str := by
  rcases h with rfl | ⟨p, rfl, hp, _⟩
  · exact bodyPiece_dotdot
  · exact hp

theorem BodyCU.bodyComp_str {c : Comp} (h : BodyCU c) : bodyComp c.str = some c := by
  rcases h with rfl | ⟨p, rfl, hp, hne⟩
  · decide
  · show bodyComp p = _
    rw [bodyComp_of_bodyPiece hp, if_neg hne]

theorem bodyCU_of_bodyComp {p : Str} {c : Comp} (hp : '/' ∉ p) (hc : bodyComp p = some c) : BodyCU c := by
  have hb := bodyPiece_of_bodyComp hp hc
  rw [bodyComp_of_bodyPiece hb] at hc
  by_cases h : p = ['.', '.']
  · rw [if_pos h] at hc; exact Or.inl (Option.some.inj hc).symm
  · rw [if_neg h] at hc; exact Or.inr ⟨p, (Option.some.inj hc).symm, hb, h⟩

theorem bodyCU_filterMap {ps : List Str} (h : ∀ p ∈ ps, '/' ∉ p) : ∀ c ∈ ps.filterMap bodyComp, BodyCU c := by
  intro c hc
  obtain ⟨p, hp, hpc⟩ := List.mem_filterMap.1 hc
  exact bodyCU_of_bodyComp (h p hp) hpc

theorem filterMap_map_str {body : List Comp} (h : ∀ c ∈ body, BodyCU c) :
    (body.map Comp.str).filterMap bodyComp = body := by
  induction body with
  | nil => rfl
  | cons c cs ih =>
    rw [List.map_cons, List.filterMap_cons, (h c (by simp)).bodyComp_str]
    simp only
    rw [ih (fun c' hc' => h c' (by simp [hc']))]

/-- the three shapes of `components s` -/
theorem components_shape (s : Str) : ∃ body, (∀ c ∈ body, BodyCU c) ∧
    (components s = .root :: body ∨ components s = .cur :: body ∨ components s = body) := by
  refine ⟨(splitSlash s).filterMap bodyComp, bodyCU_filterMap (not_mem_of_mem_splitOn '/' s), ?_⟩
  unfold components
  cases isRooted s
  · by_cases h : (splitSlash s).head? = some ['.'] <;> simp [h]
  · simp

theorem components_bufOf {r : Bool} {ps : List Str} (h : ∀ p ∈ ps, BodyPiece p) :
    components (bufOf r ps) = (if r then [.root] else []) ++ ps.filterMap bodyComp := by
  cases ps with
  | nil => cases r <;> decide
  | cons a as =>
    rw [components_eq_compsOf, isRooted_bufOf h, splitSlash_bufOf (by simp) h]
    unfold compsOf
    cases r
    · have : a ≠ ['.'] := (h a (by simp)).2.1
      simp [this]
    · have : bodyComp [] = none := by decide
      simp [this]

theorem bodyPiece_map_str {body : List Comp} (h : ∀ c ∈ body, BodyCU c) :
    ∀ q ∈ body.map Comp.str, BodyPiece q := by
  intro q hq
  obtain ⟨c, hc, rfl⟩ := List.mem_map.1 hq
  exact (h c hc).bodyPiece

theorem push_prefix (pre : Str) {X p : Str} (hX : X ≠ []) (hp : isRooted p = false) :
    push (pre ++ X) p = pre ++ push X p := by
  unfold push
  rw [hp, endsWithSlash_append pre hX]
  simp [hX]
  split <;> simp

theorem push_ne_nil {X : Str} (hX : X ≠ []) (p : Str) (hp : isRooted p = false) : push X p ≠ [] := by
  unfold push
  rw [hp]
  simp [hX]
  split <;> simp [hX]

theorem foldl_push_prefix (pre : Str) (cs : List Comp) (hcs : ∀ c ∈ cs, isRooted c.str = false) :
    ∀ X : Str, X ≠ [] →
      cs.foldl (fun b c => push b c.str) (pre ++ X) = pre ++ cs.foldl (fun b c => push b c.str) X := by
  induction cs with
  | nil => intro X _; rfl
  | cons c cs ih =>
    intro X hX
    have hc := hcs c (by simp)
    rw [List.foldl_cons, List.foldl_cons, push_prefix pre hX hc,
      ih (fun c' hc' => hcs c' (by simp [hc'])) _ (push_ne_nil hX _ hc)]

theorem render_body {body : List Comp} (h : ∀ c ∈ body, BodyCU c) :
    render body = bufOf false (body.map Comp.str) := by
  unfold render
  have h0 : ([] : Str) = bufOf false [] := by decide
  rw [h0, foldl_push_bufOf false body [] (by simp) (fun c hc => (h c hc).bodyPiece)]
  simp

theorem render_root_body {body : List Comp} (h : ∀ c ∈ body, BodyCU c) :
    render (.root :: body) = bufOf true (body.map Comp.str) := by
  unfold render
  rw [List.foldl_cons]
  have h0 : push [] Comp.root.str = bufOf true [] := by decide
  rw [h0, foldl_push_bufOf true body [] (by simp) (fun c hc => (h c hc).bodyPiece)]
  simp

theorem render_cur_body {b : Comp} {body : List Comp} (h : ∀ c ∈ b :: body, BodyCU c) :
    render (.cur :: b :: body) = ['.', '/'] ++ bufOf false ((b :: body).map Comp.str) := by
  have hb := (h b (by simp)).bodyPiece
  unfold render
  rw [List.foldl_cons, List.foldl_cons]
  have h0 : push (push [] Comp.cur.str) b.str = ['.', '/'] ++ bufOf false [b.str] := by
    have : push [] Comp.cur.str = ['.'] := by decide
    rw [this, push_of_not_endsWithSlash hb.2.2 (by simp) (by decide)]
    simp [bufOf, joinWith]
  rw [h0, foldl_push_prefix _ body (fun c hc => isRooted_of_not_mem (h c (by simp [hc])).bodyPiece.2.2)
    _ (by simp [bufOf, joinWith, hb.1]),
    foldl_push_bufOf false body [b.str] (by simpa using hb)
      (fun c hc => (h c (by simp [hc])).bodyPiece)]
  simp

/-- (B) -/
theorem components_render_components (s : Str) : components (render (components s)) = components s := by
  obtain ⟨body, hbody, h | h | h⟩ := components_shape s
  · rw [h, render_root_body hbody, components_bufOf (bodyPiece_map_str hbody), filterMap_map_str hbody]
    simp
  · rw [h]
    cases body with
    | nil => decide
    | cons b body =>
      rw [render_cur_body hbody]
      have hps := bodyPiece_map_str hbody
      have hs : splitSlash (['.', '/'] ++ bufOf false ((b :: body).map Comp.str))
          = ['.'] :: ((b :: body).map Comp.str) := by
        unfold splitSlash
        have := splitOn_append_sep (sep := '/') (x := ['.']) (by decide)
          (bufOf false ((b :: body).map Comp.str))
        simp only [List.cons_append, List.nil_append] at this ⊢
        rw [this]
        have h2 := splitSlash_bufOf (rooted := false) (ps := (b :: body).map Comp.str) (by simp) hps
        unfold splitSlash at h2
        rw [h2]; simp
      rw [components_eq_compsOf, hs]
      have hr : isRooted (['.', '/'] ++ bufOf false ((b :: body).map Comp.str)) = false := rfl
      rw [hr]
      unfold compsOf
      have : bodyComp ['.'] = none := by decide
      simp only [Bool.false_eq_true, if_false, List.head?_cons, if_true, List.filterMap_cons, this]
      rw [filterMap_map_str hbody]
      rfl
  · rw [h, render_body hbody, components_bufOf (bodyPiece_map_str hbody), filterMap_map_str hbody]
    simp

/-! ### mash -/

theorem stripSlashes_of_not_mem {b : Str} (h : '/' ∉ b) : stripSlashes b = b := by
  cases b with
  | nil => rfl
  | cons c cs =>
    have hc : c ≠ '/' := fun e => h (by simp [e])
    unfold stripSlashes
    split
    · next heq => simp only [List.cons.injEq] at heq; exact absurd heq.1 hc
    · rfl

theorem components_mash_wf {d b : Str} (hd : d ≠ []) (hb : Wf b) :
    components (mash d b) = components d ++ [.normal b] := by
  unfold mash
  rw [stripSlashes_of_not_mem hb.2.1, components_render_components, components_push_wf hd hb]

theorem mash_wf_ne_nil {d b : Str} (hd : d ≠ []) (hb : Wf b) : mash d b ≠ [] := by
  intro h
  have := components_mash_wf hd hb
  rw [h] at this
  have h0 : components [] = [] := by decide
  rw [h0] at this
  simp at this

/-! ### homeOr / listOr -/

theorem homeOr_set {env : Env} {var : String} {x : Str} (d : Str → Str)
    (h : env var.toList = some x) : homeOr env var d = .ok x := by
  unfold homeOr v
  rw [h]

theorem homeOr_unset {env : Env} {var : String} {hm : Str} (d : Str → Str)
    (h : env var.toList = none) (hh : env "HOME".toList = some hm) : homeOr env var d = .ok (d hm) := by
  unfold homeOr v homeDir proto
  rw [h, hh]

theorem homeOr_err_iff (env : Env) (var : String) (d : Str → Str) :
    (∃ k, homeOr env var d = .err k) ↔ (env var.toList = none ∧ env "HOME".toList = none) := by
  unfold homeOr v homeDir proto
  cases h1 : env var.toList with
  | some x => simp
  | none =>
    cases h2 : env "HOME".toList with
    | some y => simp
    | none => simp

theorem listOr_eq (env : Env) (var : String) (dflt : List Str) :
    listOr env var dflt = match env var.toList with
      | some x => if (splitOn ':' x).filter (fun s => s ≠ []) = [] then dflt
                  else (splitOn ':' x).filter (fun s => s ≠ [])
      | none => dflt := by
  unfold listOr v parsePaths
  cases env var.toList with
  | none => rfl
  | some x =>
    simp only [List.isEmpty_iff]

theorem listOr_ne_nil (env : Env) (var : String) (dflt : List Str) (hd : ∀ d ∈ dflt, d ≠ []) :
    ∀ d ∈ listOr env var dflt, d ≠ [] := by
  rw [listOr_eq]
  cases env var.toList with
  | none => exact hd
  | some x =>
    simp only
    split
    · exact hd
    · intro d hd'
      have := (List.mem_filter.1 hd').2
      simpa using this

/-! ### vfsConfigDir (repaired code) -/

theorem homeOr_eq (env : Env) (var : String) (d : Str → Str) :
    homeOr env var d = match env var.toList with
      | some x => .ok x
      | none => match env "HOME".toList with
        | some h => .ok (d h)
        | none => .err .var := by
  unfold homeOr v homeDir proto
  cases env var.toList with
  | some x => rfl
  | none => cases env "HOME".toList <;> rfl

/-- the user directory as a 0/1-element list, straight from the environment -/
theorem userDirs_eq (env : Env) (var : String) (d : Str → Str) :
    (match homeOr env var d with | .ok c => [c] | _ => []) =
      match env var.toList with
      | some x => [x]
      | none => match env "HOME".toList with
        | some h => [d h]
        | none => [] := by
  rw [homeOr_eq]
  cases env var.toList with
  | some x => rfl
  | none => cases env "HOME".toList <;> rfl

theorem vfsConfigDir_eq (env : Env) (ex : Str → Bool) (name : Str) :
    vfsConfigDir env ex name =
      ((match configDir env with | .ok c => [c] | _ => []) ++ sysConfigDirs env).find?
        (fun d => ex (mash d name)) := by
  unfold vfsConfigDir
  cases configDir env <;> rfl

theorem find?_some_iff_split {α} (p : α → Bool) (l : List α) (d : α) :
    l.find? p = some d ↔
      ∃ pre post, l = pre ++ d :: post ∧ p d = true ∧ ∀ d' ∈ pre, p d' = false := by
  rw [List.find?_eq_some_iff_append]
  constructor
  · rintro ⟨h1, pre, post, h2, h3⟩
    exact ⟨pre, post, h2, h1, fun d' hd' => by simpa using h3 d' hd'⟩
  · rintro ⟨pre, post, h2, h1, h3⟩
    exact ⟨h1, pre, post, h2, fun d' hd' => by simpa using h3 d' hd'⟩

theorem find?_none_iff_all_false {α} (p : α → Bool) (l : List α) :
    l.find? p = none ↔ ∀ d ∈ l, p d = false := by
  rw [List.find?_eq_none]
  constructor
  · intro h d hd; simpa using h d hd
  · intro h d hd; simpa using h d hd

/-! ### parseU32 -/

def digitsVal (ds : Str) : Nat := ds.foldl (fun acc c => acc * 10 + (c.toNat - 48)) 0

def stripPlus (s : Str) : Str := match s with | '+' :: r => r | _ => s

def parseDigits (ds : Str) : Option Nat :=
  if ds = [] ∨ !ds.all Char.isDigit then none
  else if digitsVal ds < 2 ^ 32 then some (digitsVal ds) else none

theorem parseU32_eq (s : Str) : parseU32 s = parseDigits (stripPlus s) := rfl

theorem stripPlus_noplus {s : Str} (hs : s.head? ≠ some '+') : stripPlus s = s := by
  unfold stripPlus
  split
  · simp at hs
  · rfl

theorem parseDigits_iff (r : Str) (n : Nat) :
    parseDigits r = some n ↔ (r ≠ [] ∧ (∀ c ∈ r, c.isDigit = true) ∧ digitsVal r = n ∧ n < 2 ^ 32) := by
  unfold parseDigits
  by_cases h1 : r = []
  · simp [h1]
  · by_cases h2 : r.all Char.isDigit = true
    · have h2' := List.all_eq_true.1 h2
      simp only [h1, h2, Bool.not_true, Bool.false_eq_true, or_self, if_false]
      split
      · next hlt =>
        simp only [Option.some.injEq]
        constructor
        · rintro rfl; exact ⟨h1, h2', rfl, hlt⟩
        · rintro ⟨_, _, e, _⟩; exact e
      · next hlt =>
        simp only [reduceCtorEq, false_iff]
        rintro ⟨_, _, e, hn⟩
        exact hlt (e ▸ hn)
    · have : ¬ ∀ c ∈ r, c.isDigit = true := fun hh => h2 (List.all_eq_true.2 hh)
      simp [h1, h2, this]

theorem parseU32_plus (r : Str) (n : Nat) :
    parseU32 ('+' :: r) = some n ↔ (r ≠ [] ∧ (∀ c ∈ r, c.isDigit = true) ∧ digitsVal r = n ∧ n < 2 ^ 32) := by
  rw [parseU32_eq]
  exact parseDigits_iff r n

theorem parseU32_noplus {s : Str} (hs : s.head? ≠ some '+') (n : Nat) :
    parseU32 s = some n ↔ (s ≠ [] ∧ (∀ c ∈ s, c.isDigit = true) ∧ digitsVal s = n ∧ n < 2 ^ 32) := by
  rw [parseU32_eq, stripPlus_noplus hs]
  exact parseDigits_iff s n

theorem parseU32_iff (s : Str) (n : Nat) :
    parseU32 s = some n ↔
      ∃ ds : Str, (s = ds ∨ s = '+' :: ds) ∧ ds ≠ [] ∧ (∀ c ∈ ds, c.isDigit = true) ∧
        ds.foldl (fun acc c => acc * 10 + (c.toNat - 48)) 0 = n ∧ n < 2 ^ 32 := by
  by_cases hp : s.head? = some '+'
  · obtain ⟨r, rfl⟩ : ∃ r, s = '+' :: r := by
      cases s with
      | nil => simp at hp
      | cons c cs => simp at hp; exact ⟨cs, by rw [hp]⟩
    rw [parseU32_plus]
    constructor
    · intro h; exact ⟨r, Or.inr rfl, h⟩
    · rintro ⟨ds, h | h, h1, h2, h3⟩
      · subst h
        have := h2 '+' (by simp)
        exact absurd this (by decide)
      · simp only [List.cons.injEq, true_and] at h; subst h; exact ⟨h1, h2, h3⟩
  · rw [parseU32_noplus hp]
    constructor
    · intro h; exact ⟨s, Or.inl rfl, h⟩
    · rintro ⟨ds, h | h, h1, h2, h3⟩
      · subst h; exact ⟨h1, h2, h3⟩
      · subst h; simp at hp

end Rivia.Lemmas
