/-
  Rivia.Lemmas.StdfsOps — C02 §4: one simulation lemma per covered operation
  (`Stdfs.step env t op` against `Spec.specStep env t op` on a well-formed tree with disciplined links).
-/
import Rivia.Lemmas.Stdfs

namespace Rivia.Lemmas.StdfsL
open Rivia Rivia.Memfs Rivia.File Rivia.Spec Rivia.Spec.TreeFs Rivia.Posix Rivia.Stdfs
open Rivia.Lemmas.RefineA (TEquiv ResMatch get_put alLookup_alInsert mem_of_alLookup)

/-- the state hypotheses shared by every lemma -/
structure Ctx (env : Env) (t : T) : Prop where
  wf : WfFacts t
  links : LinksOk t
  text : linkTextOkB env t = true
  cwd : isDir t t.cwd = true

variable {env : Env} {t : T}

/-! ### queries -/

theorem sim_cwd (h : Ctx env t) : Sim (Stdfs.step env t .cwd) (.ok (.path t.cwd), t) := by
  simp only [Stdfs.step, getcwd, h.cwd, if_true]
  exact sim_same (by simp)

theorem sim_root : Sim (Stdfs.step env t .root) (.ok (.path []), t) := sim_same (by simp)

theorem sim_abs (h : Ctx env t) (p : Str) :
    Sim (Stdfs.step env t (.abs p)) (withPath env t p fun a => (.ok (.path a), t)) := by
  unfold withPath
  simp only [Stdfs.step, Stdfs.mapVal, Stdfs.absM, absK_eq h.cwd]
  cases resolve env t p with
  | ok a => exact sim_same (by simp)
  | err e => exact sim_err _ _ (TEquiv.refl _)
  | panic => exact sim_unspec _ _
  | hang => exact sim_unspec _ _

/-- the `match Stdfs::abs(p) { Ok(k) => F(k), Err(_) => false }` queries -/
theorem sim_boolK (h : Ctx env t) (p : Str) (F G : FsPath → Bool)
    (hFG : ∀ a, resolve env t p = .ok a → F a = G a) :
    Sim ((match absK env t p with
          | .ok k => .ok (.bool (F k)) | .panic => .panic | _ => .ok (.bool false)), t)
        (boolQ env t p G) := by
  unfold boolQ
  rw [absK_eq h.cwd]
  cases hr : resolve env t p with
  | ok a => exact sim_same (by simp [hFG a hr])
  | err e => exact sim_same (by simp)
  | panic => exact sim_unspec _ _
  | hang => exact sim_unspec _ _

theorem sim_exists (h : Ctx env t) (p : Str) :
    Sim (Stdfs.step env t (.exists p)) (boolQ env t p fun a => (get t a).isSome) := by
  simp only [Stdfs.step]
  exact sim_boolK h p _ _ (fun a _ => exists_eq_isSome h.wf h.links a)

/-- `is_exec` / `is_readonly` go through `fs::metadata`, which follows links: they agree with the
    reference on everything that is not a link -/
theorem sim_statBool (h : Ctx env t) (p : Str) (f : Node → Bool)
    (hnl : ∀ a, resolve env t p = .ok a → isLink t a = false) :
    Sim (statBool env t p f, t) (boolQ env t p fun a => match get t a with | some n => f n | none => false) := by
  unfold statBool
  refine sim_boolK h p _ _ ?_
  intro a ha
  have hl := hnl a ha
  cases hg : get t a with
  | none => obtain ⟨e, he⟩ := stat_missing hg; rw [he]
  | some n =>
    have : isLinkKind n.kind = false := by
      unfold isLink at hl; rw [hg] at hl
      cases hk : n.kind <;> simp_all [isLinkKind]
    rw [stat_nonlink h.wf hg this]

/-- the `match Stdfs::abs(p)? … fs::…metadata(k)? …` value queries -/
theorem sim_nodeK {α} (h : Ctx env t) (p : Str) (sys : T → FsPath → Except Errno Node) (f : Node → α)
    (v : α → Val) (g : Node → Val)
    (hsys : ∀ a, resolve env t p = .ok a →
      match get t a with
      | some n => ∃ m, sys t a = .ok m ∧ v (f m) = g n
      | none => ∃ e, sys t a = .error e) :
    Sim (Stdfs.mapVal v (do let k ← Stdfs.absM env p; let n ← SM.qry (sys · k); return f n) t)
        (nodeQ env t p g) := by
  unfold nodeQ
  refine sim_withPath h.cwd p v _ _ ?_
  intro a ha
  have := hsys a ha
  ssimp
  cases hg : get t a with
  | none =>
    rw [hg] at this; obtain ⟨e, he⟩ := this
    simp only [he]
    exact sim_err _ _ (TEquiv.refl _)
  | some n =>
    rw [hg] at this; obtain ⟨m, hm, hv⟩ := this
    simp only [hm]
    exact sim_same (by simp [hv])

theorem sim_mode (h : Ctx env t) (p : Str) :
    Sim (Stdfs.step env t (.mode p)) (nodeQ env t p fun n => .nat n.mode) := by
  simp only [Stdfs.step]
  refine sim_nodeK h p lstat (·.mode) .nat _ ?_
  intro a _
  cases hg : get t a with
  | none => exact lstat_of_none hg
  | some n => exact ⟨n, lstat_of_get h.wf hg, rfl⟩

theorem stat_cases (h : Ctx env t) (a : FsPath) (hl : isLink t a = false) :
    match get t a with
    | some n => stat t a = .ok n
    | none => ∃ e, stat t a = .error e := by
  cases hg : get t a with
  | none => exact stat_missing hg
  | some n =>
    have : isLinkKind n.kind = false := by
      unfold isLink at hl; rw [hg] at hl
      cases hk : n.kind <;> simp_all [isLinkKind]
    exact stat_nonlink h.wf hg this

theorem sim_uid (h : Ctx env t) (p : Str) (hnl : ∀ a, resolve env t p = .ok a → isLink t a = false) :
    Sim (Stdfs.step env t (.uid p)) (nodeQ env t p fun n => .nat n.uid) := by
  simp only [Stdfs.step]
  refine sim_nodeK h p stat (·.uid) .nat _ ?_
  intro a ha
  have := stat_cases h a (hnl a ha)
  cases hg : get t a with
  | none => rw [hg] at this; exact this
  | some n => rw [hg] at this; exact ⟨n, this, rfl⟩

theorem sim_gid (h : Ctx env t) (p : Str) (hnl : ∀ a, resolve env t p = .ok a → isLink t a = false) :
    Sim (Stdfs.step env t (.gid p)) (nodeQ env t p fun n => .nat n.gid) := by
  simp only [Stdfs.step]
  refine sim_nodeK h p stat (·.gid) .nat _ ?_
  intro a ha
  have := stat_cases h a (hnl a ha)
  cases hg : get t a with
  | none => rw [hg] at this; exact this
  | some n => rw [hg] at this; exact ⟨n, this, rfl⟩

theorem sim_owner (h : Ctx env t) (p : Str) (hnl : ∀ a, resolve env t p = .ok a → isLink t a = false) :
    Sim (Stdfs.step env t (.owner p)) (nodeQ env t p fun n => .pair n.uid n.gid) := by
  simp only [Stdfs.step]
  refine sim_nodeK h p stat (fun n => (n.uid, n.gid)) (fun x => .pair x.1 x.2) _ ?_
  intro a ha
  have := stat_cases h a (hnl a ha)
  cases hg : get t a with
  | none => rw [hg] at this; exact this
  | some n => rw [hg] at this; exact ⟨n, this, rfl⟩

/-! ### `StdfsEntry::from` -/

theorem root_not_link (h : Ctx env t) {n : Node} (hg : get t [] = some n) : n.kind = .dir := by
  obtain ⟨m, hm, hk⟩ := isDir_iff.1 h.wf.root
  rw [hg] at hm; cases hm; exact hk

theorem linkText_lookup (h : Ctx env t) {k : FsPath} {n : Node} {b : Bool} {tg : FsPath}
    (hg : get t k = some n) (hk : n.kind = .link b) (ht : n.target = some tg) :
    absK env t (if isAbsolute (linkText k tg) then linkText k tg
                else mash (renderP k.dropLast) (linkText k tg)) = .ok tg := by
  have := h.text
  unfold linkTextOkB at this
  rw [List.all_eq_true] at this
  have := this _ (mem_of_alLookup hg)
  simp only [hk, ht] at this
  split at this
  · rename_i a ha; simp only [decide_eq_true_eq] at this; rw [ha, this]
  · simp at this

theorem entryFrom_missing (h : Ctx env t) {p : Str} {a : FsPath} (ha : resolve env t p = .ok a)
    (hg : get t a = none) : entryFrom env t p = .err .doesNotExist := by
  unfold entryFrom
  rw [absK_eq h.cwd, ha]
  simp only [exists_eq_isSome h.wf h.links, hg, Option.isSome_none, Bool.not_false, if_true]

theorem entryFrom_nonlink (h : Ctx env t) {p : Str} {a : FsPath} {n : Node} (ha : resolve env t p = .ok a)
    (hg : get t a = some n) (hk : isLinkKind n.kind = false) :
    entryFrom env t p = .ok ⟨a, [], n.kind = .dir, n.kind = .file, false, n.mode⟩ := by
  unfold entryFrom
  rw [absK_eq h.cwd, ha]
  simp only [exists_eq_isSome h.wf h.links, hg, Option.isSome_some, Bool.not_true, Bool.false_eq_true,
    if_false, lstat_of_get h.wf hg]
  cases hkk : n.kind with
  | link b => simp [hkk, isLinkKind] at hk
  | dir => rfl
  | file => rfl

theorem entryFrom_link (h : Ctx env t) {p : Str} {a : FsPath} {n : Node} {b : Bool}
    (ha : resolve env t p = .ok a) (hg : get t a = some n) (hk : n.kind = .link b) :
    ∃ alt m tg, n.target = some tg ∧ toPath alt = tg ∧ get t tg = some m ∧
      entryFrom env t p = .ok ⟨a, alt, b, !b, true, m.mode⟩ := by
  obtain ⟨tg, m, h1, h2, h3, h4, h5⟩ := stat_link h.wf h.links hg hk
  have hne : a ≠ [] := by
    intro h0; subst h0
    have := root_not_link h hg; rw [hk] at this; cases this
  have htext := linkText_lookup h hg hk h1
  unfold absK at htext
  cases hp : absP env t (if isAbsolute (linkText a tg) then linkText a tg
                else mash (renderP a.dropLast) (linkText a tg)) with
  | ok alt =>
    rw [hp] at htext
    simp only [Outcome.ok.injEq] at htext
    refine ⟨alt, m, tg, h1, htext, h2, ?_⟩
    unfold entryFrom
    rw [absK_eq h.cwd, ha]
    simp only [exists_eq_isSome h.wf h.links, hg, Option.isSome_some, Bool.not_true, Bool.false_eq_true,
      if_false, lstat_of_get h.wf hg, hk, readlink, h1, hne, hp, h5]
    have hfile : decide (m.kind = Kind.file) = !b := by
      rw [h4]
      cases hm : m.kind with
      | link c => simp [hm, isLinkKind] at h3
      | dir => simp
      | file => simp
    rw [hfile, ← h4]
  | err e => rw [hp] at htext; cases htext
  | panic => rw [hp] at htext; cases htext
  | hang => rw [hp] at htext; cases htext

/-- the `match StdfsEntry::from(p) { Ok(x) => f(x), _ => false }` queries -/
theorem sim_entryBool (h : Ctx env t) (p : Str) (f : SEntry → Bool) (g : FsPath → Bool)
    (hnl : ∀ a n, get t a = some n → isLinkKind n.kind = false →
      f ⟨a, [], n.kind = .dir, n.kind = .file, false, n.mode⟩ = g a)
    (hlk : ∀ a n b alt md, get t a = some n → n.kind = .link b → f ⟨a, alt, b, !b, true, md⟩ = g a)
    (hno : ∀ a, get t a = none → g a = false) :
    Sim (entryBool env t p f, t) (boolQ env t p g) := by
  unfold entryBool boolQ
  cases hr : resolve env t p with
  | ok a =>
    cases hg : get t a with
    | none => rw [entryFrom_missing h hr hg]; exact sim_same (by simp [hno a hg])
    | some n =>
      cases hk : n.kind with
      | link b =>
        obtain ⟨alt, m, tg, _, _, _, he⟩ := entryFrom_link h hr hg hk
        rw [he]; exact sim_same (by simp [hlk a n b alt m.mode hg hk])
      | dir =>
        rw [entryFrom_nonlink h hr hg (by simp [hk, isLinkKind])]
        exact sim_same (by simp [← hnl a n hg (by simp [hk, isLinkKind]), hk])
      | file =>
        rw [entryFrom_nonlink h hr hg (by simp [hk, isLinkKind])]
        exact sim_same (by simp [← hnl a n hg (by simp [hk, isLinkKind]), hk])
  | err e =>
    have : entryFrom env t p = .err e := by unfold entryFrom; rw [absK_eq h.cwd, hr]
    rw [this]; exact sim_same (by simp)
  | panic => exact sim_unspec _ _
  | hang => exact sim_unspec _ _

theorem sim_isSymlink (h : Ctx env t) (p : Str) :
    Sim (Stdfs.step env t (.isSymlink p)) (boolQ env t p (isLink t)) := by
  simp only [Stdfs.step]
  refine sim_entryBool h p _ _ ?_ ?_ ?_
  · intro a n hg hk; unfold isLink; rw [hg]; cases hkk : n.kind <;> simp_all [isLinkKind]
  · intro a n b alt md hg hk; unfold isLink; simp only [hg, hk]
  · intro a hg; unfold isLink; rw [hg]

theorem sim_isSymlinkDir (h : Ctx env t) (p : Str) :
    Sim (Stdfs.step env t (.isSymlinkDir p))
      (boolQ env t p fun a => match get t a with | some n => n.kind = .link true | none => false) := by
  simp only [Stdfs.step]
  refine sim_entryBool h p _ _ ?_ ?_ ?_
  · intro a n hg hk; simp only [hg]; cases hkk : n.kind <;> simp_all [isLinkKind]
  · intro a n b alt md hg hk; simp only [hg, hk]; cases b <;> simp
  · intro a hg; simp only [hg]

theorem sim_isSymlinkFile (h : Ctx env t) (p : Str) :
    Sim (Stdfs.step env t (.isSymlinkFile p))
      (boolQ env t p fun a => match get t a with | some n => n.kind = .link false | none => false) := by
  simp only [Stdfs.step]
  refine sim_entryBool h p _ _ ?_ ?_ ?_
  · intro a n hg hk; simp only [hg]; cases hkk : n.kind <;> simp_all [isLinkKind]
  · intro a n b alt md hg hk; simp only [hg, hk]; cases b <;> simp
  · intro a hg; simp only [hg]

theorem sim_isExec (h : Ctx env t) (p : Str) (hnl : ∀ a, resolve env t p = .ok a → isLink t a = false) :
    Sim (Stdfs.step env t (.isExec p))
      (boolQ env t p fun a => match get t a with | some n => n.mode &&& 0o111 != 0 | none => false) := by
  simp only [Stdfs.step]
  exact sim_statBool h p _ hnl

theorem sim_isReadonly (h : Ctx env t) (p : Str) (hnl : ∀ a, resolve env t p = .ok a → isLink t a = false) :
    Sim (Stdfs.step env t (.isReadonly p))
      (boolQ env t p fun a => match get t a with | some n => n.mode &&& 0o222 == 0 | none => false) := by
  simp only [Stdfs.step]
  exact sim_statBool h p _ hnl

theorem sim_isDir (h : Ctx env t) (p : Str) :
    Sim (Stdfs.step env t (.isDir p)) (boolQ env t p (isDir t)) := by
  simp only [Stdfs.step]
  exact sim_boolK h p _ _ (fun a _ => isDirK_eq h.wf a)

theorem sim_isFile (h : Ctx env t) (p : Str) :
    Sim (Stdfs.step env t (.isFile p)) (boolQ env t p (isFile t)) := by
  simp only [Stdfs.step]
  exact sim_boolK h p _ _ (fun a _ => isFileK_eq h.wf a)

/-! ### links -/

theorem sim_readlink (h : Ctx env t) (p : Str) :
    Sim (Stdfs.step env t (.readlink p)) (withPath env t p fun a =>
      match get t a with
      | some n => (match n.kind, n.target with
        | .link _, some tg => (.ok (.str (relative (renderP tg) (renderP a.dropLast))), t)
        | _, _ => (.err none, t))
      | none => (.err none, t)) := by
  simp only [Stdfs.step, Stdfs.readlinkS]
  refine sim_withPath h.cwd p _ _ _ ?_
  intro a _
  ssimp [readlink]
  cases hg : get t a with
  | none =>
    obtain ⟨e, he⟩ := lstat_of_none hg
    simp only [he]; exact sim_err _ _ (TEquiv.refl _)
  | some n =>
    simp only [lstat_of_get h.wf hg]
    cases hk : n.kind with
    | link b =>
      cases ht : n.target with
      | none => exact sim_err _ _ (TEquiv.refl _)
      | some tg => exact sim_same (by simp [linkText])
    | dir => exact sim_err _ _ (TEquiv.refl _)
    | file => exact sim_err _ _ (TEquiv.refl _)

theorem sim_readlinkAbs (h : Ctx env t) (p : Str) :
    Sim (Stdfs.step env t (.readlinkAbs p)) (withPath env t p fun a =>
      match get t a with
      | some n => (match n.kind, n.target with
        | .link _, some tg => (.ok (.path tg), t)
        | _, _ => (.err none, t))
      | none => (.err none, t)) := by
  simp only [Stdfs.step, Stdfs.readlinkAbs]
  unfold withPath
  cases hr : resolve env t p with
  | ok a =>
    dsimp only
    cases hg : get t a with
    | none => rw [entryFrom_missing h hr hg]; exact sim_err _ _ (TEquiv.refl _)
    | some n =>
      cases hk : n.kind with
      | link b =>
        obtain ⟨alt, m, tg, h1, h2, _, he⟩ := entryFrom_link h hr hg hk
        rw [he]; simp only [h1, hk, if_true]
        exact sim_same (by simp [h2])
      | dir =>
        rw [entryFrom_nonlink h hr hg (by simp [hk, isLinkKind])]
        simp only [hk, Bool.false_eq_true, if_false]
        exact sim_err _ _ (TEquiv.refl _)
      | file =>
        rw [entryFrom_nonlink h hr hg (by simp [hk, isLinkKind])]
        simp only [hk, Bool.false_eq_true, if_false]
        exact sim_err _ _ (TEquiv.refl _)
  | err e =>
    have : entryFrom env t p = .err e := by unfold entryFrom; rw [absK_eq h.cwd, hr]
    rw [this]; exact sim_err _ _ (TEquiv.refl _)
  | panic => exact sim_unspec _ _
  | hang => exact sim_unspec _ _

/-! ### content -/

theorem readFile_of_file (h : Ctx env t) {a : FsPath} {n : Node} (hg : get t a = some n)
    (hk : n.kind = .file) : readFile t a = .ok n.data := by
  unfold readFile
  rw [stat_nonlink h.wf hg (by simp [hk, isLinkKind])]
  simp [hk]

theorem sim_readAll (h : Ctx env t) (p : Str) :
    Sim (Stdfs.step env t (.readAll p)) (withPath env t p fun a =>
      match get t a with
      | none => (.err (some .doesNotExist), t)
      | some n => if n.kind = .file then
          (match decodeUtf8 n.data with | some s => (.ok (.str s), t) | none => (.err none, t))
        else if n.kind = .dir then (.err (some .isNotFile), t) else (.err none, t)) := by
  simp only [Stdfs.step, Stdfs.readAll]
  refine sim_withPath h.cwd p _ _ _ ?_
  intro a _
  ssimp
  cases hg : get t a with
  | none =>
    obtain ⟨e, he⟩ := lstat_of_none hg
    simp only [he]; exact sim_err _ _ (TEquiv.refl _)
  | some n =>
    simp only [lstat_of_get h.wf hg]
    by_cases hk : n.kind = .file
    · ssimp [hk, readFile_of_file h hg hk, ne_eq, not_true_eq_false]
      cases decodeUtf8 n.data with
      | some s => exact sim_same (by simp)
      | none => exact sim_err _ _ (TEquiv.refl _)
    · ssimp [hk, ne_eq, not_false_eq_true]
      split <;> exact sim_err _ _ (TEquiv.refl _)

theorem sim_read (h : Ctx env t) (p : Str) :
    Sim (Stdfs.step env t (.read p)) (withPath env t p fun a =>
      match get t a with
      | none => (.err (some .doesNotExist), t)
      | some n => if n.kind = .file then (.ok (.bytes n.data), t)
        else if n.kind = .dir then (.err (some .isNotFile), t) else (.err none, t)) := by
  simp only [Stdfs.step, Stdfs.read]
  refine sim_withPath h.cwd p _ _ _ ?_
  intro a _
  ssimp [exists_eq_isSome h.wf h.links, isFileK_eq h.wf]
  cases hg : get t a with
  | none => ssimp [Option.isSome_none]; exact sim_err _ _ (TEquiv.refl _)
  | some n =>
    by_cases hk : n.kind = .file
    · have hf : isFile t a = true := by unfold isFile; simp [hg, hk]
      ssimp [Option.isSome_some, hf, hk, readFile_of_file h hg hk]
      exact sim_same (by simp)
    · have hf : isFile t a = false := by unfold isFile; simp [hg, hk]
      ssimp [Option.isSome_some, hf, hk]
      split <;> exact sim_err _ _ (TEquiv.refl _)

end Rivia.Lemmas.StdfsL
