/-
  Rivia.Lemmas.StdfsChmod — C02 §4 (continued): octal `chmod` / `chmod_b` (no `follow`, no symbolic
  expression) against the reference `chmodOctal`.
-/
import Rivia.Lemmas.StdfsWalk

namespace Rivia.Lemmas.StdfsL
open Rivia Rivia.Memfs Rivia.File Rivia.Spec Rivia.Spec.TreeFs Rivia.Posix Rivia.Stdfs
open Rivia.Lemmas.RefineA (TEquiv ResMatch get_put alLookup_alInsert mem_of_alLookup)
open Rivia.Stdfs.SM

variable {env : Env} {t : T}

set_option linter.unusedSimpArgs false

/-! ### modes -/

theorem mode_big (n : Node) : 0o40000 ≤ n.mode := by
  unfold Node.mode
  have h1 : 0o40000 ≤ typeBits n.kind := by cases n.kind <;> simp [typeBits]
  exact Nat.le_trans h1 Nat.left_le_or

theorem entryFrom_key_big (h : Ctx env t) (hrt : keysRT env t = true) {k : FsPath} {n : Node}
    (hg : get t k = some n) :
    ∃ e, entryFrom env t (renderP k) = .ok e ∧ EntryFor k n e ∧ 0o40000 ≤ e.mode := by
  obtain ⟨e, he, hef⟩ := entryFrom_key h hrt hg
  refine ⟨e, he, hef, ?_⟩
  have ha := keysRT_lookup hrt hg
  cases hk : n.kind with
  | dir =>
    rw [entryFrom_nonlink h ha hg (by simp [hk, isLinkKind])] at he
    cases he; exact mode_big n
  | file =>
    rw [entryFrom_nonlink h ha hg (by simp [hk, isLinkKind])] at he
    cases he; exact mode_big n
  | link b =>
    obtain ⟨alt, m, tg, _, _, _, he'⟩ := entryFrom_link h ha hg hk
    rw [he'] at he
    cases he; exact mode_big m

/-- the cached iterator over a real directory, with the size of the recorded modes -/
theorem childEntries_dir_big (h : Ctx env t) (hrt : keysRT env t = true) {a : FsPath} (hd : isDir t a = true) :
    ∃ es, childEntries env t a = .ok es ∧ es.map (·.path) = (childNodes t a).map (·.1) ∧
      ∀ e ∈ es, ∃ kv ∈ childNodes t a, EntryFor kv.1 kv.2 e ∧ 0o40000 ≤ e.mode := by
  unfold childEntries
  rw [readDir_dir h hd]
  simp only [List.map_map]
  apply sequenceO_map _ (fun kv : FsPath × Node => kv.1) (·.path)
    (fun kv e => EntryFor kv.1 kv.2 e ∧ 0o40000 ≤ e.mode)
  intro kv hkv
  obtain ⟨hm, x, hx⟩ := mem_childNodes.1 hkv
  have hg : get t kv.1 = some kv.2 := alLookup_of_mem_nodup h.wf.nodup hm
  obtain ⟨e, he, hef, hbig⟩ := entryFrom_key_big h hrt hg
  refine ⟨e, ?_, hef.path, hef, hbig⟩
  simp only [Function.comp, hx, baseName_snoc]
  rw [← hx]; exact he

/-! ### the rewrite -/

/-- what an octal `chmod` does to one node: directories get `dm`, files `fm`, links nothing -/
def permG (dm fm : Option Nat) (n : Node) : Node :=
  match n.kind with
  | .dir => (match dm with | some m => { n with perm := m } | none => n)
  | .file => (match fm with | some m => { n with perm := m } | none => n)
  | .link _ => n

theorem permG_ok (dm fm : Option Nat) : GOk (permG dm fm) := by
  refine ⟨?_, ?_, ?_⟩ <;> intro n <;> unfold permG <;> cases hk : n.kind <;> cases dm <;> cases fm <;> simp [hk]

/-- `0` means "not given" -/
def oct (x : Nat) : Option Nat := if x = 0 then none else some x

theorem gMap_add_fixed (g : Node → Node) (S : FsPath → Bool) {t : T} (hn : (t.nodes.map (·.1)).Nodup)
    {k : FsPath} {n : Node} (hk : get t k = some n) (hfix : g n = n) :
    gMap g (fun q => S q || q == k) t = gMap g S t := by
  unfold gMap
  congr 1
  apply List.map_congr_left
  intro kv hkv
  by_cases h0 : kv.1 = k
  · have : kv.2 = n := by
      have := alLookup_of_mem_nodup hn hkv
      rw [h0] at this
      unfold TreeFs.get at hk; rw [hk] at this; cases this; rfl
    by_cases hs : S kv.1 = true
    · simp [hs]
    · have hs' : S kv.1 = false := by simpa using hs
      simp only [hs', h0, beq_self_eq_true, Bool.or_true, if_true, Bool.false_eq_true, if_false]
      rw [this, hfix, ← this, ← h0, if_neg hs]
  · simp [h0]

/-- `fs::set_permissions` on a node of the rewritten tree -/
theorem setPerm_gMap (h : Ctx env t) {g : Node → Node} (hg : GOk g) (S : FsPath → Bool) {k : FsPath} {n : Node}
    (hk : get t k = some n) (hnl : isLinkKind n.kind = false) (m : Nat) (hm : m < 0o10000)
    (hgn : ∀ n' : Node, n'.kind = n.kind → ({ n' with perm := m } : Node) = g n' ) :
    setPerm (gMap g S t) k m = (.ok (), gMap g (fun q => S q || q == k) t) := by
  have hc := ctx_gMap hg S h
  have hgk : get (gMap g S t) k = some (if S k then g n else n) := by rw [get_gMap, hk]; rfl
  have hnl' : isLinkKind (if S k then g n else n).kind = false := by rw [kind_gnode hg]; exact hnl
  simp only [setPerm, Posix.chmod, linkFuel]
  rw [followFinal_nonlink hc.wf hgk hnl']
  simp only [hgk, and_7777 hm]
  have : ({ (if S k = true then g n else n) with perm := m } : Node) = g n := by
    by_cases hs : S k = true
    · simp only [hs, if_true]
      rw [hgn (g n) (hg.kind n), hg.idem]
    · simp only [hs, Bool.false_eq_true, if_false]
      exact hgn n rfl
  rw [this, put_gMap _ S h.wf.nodup hk]

/-! ### `pre_op` and the loop body of `_chmod`, octal -/

/-- octal options without `follow` and with storable modes -/
structure OctalOpts (c : ChmodOpts) : Prop where
  sym : c.sym = []
  follow : c.follow = false
  dirs : c.dirs < 0o10000
  files : c.files < 0o10000

theorem chmode_nil (k : Chmod.EKind) (cur o : Nat) : Chmod.mode k cur o [] = .ok o := by
  unfold Chmod.mode
  by_cases ho : o = 0
  · simp [ho]
  · simp [ho]

theorem permG_dir_some {dm fm : Option Nat} {m : Nat} (hdm : dm = some m) (n' : Node) (hk : n'.kind = .dir) :
    ({ n' with perm := m } : Node) = permG dm fm n' := by
  unfold permG; simp [hk, hdm]
theorem permG_file_some {dm fm : Option Nat} {m : Nat} (hfm : fm = some m) (n' : Node) (hk : n'.kind = .file) :
    ({ n' with perm := m } : Node) = permG dm fm n' := by
  unfold permG; simp [hk, hfm]

theorem oct_zero : oct 0 = none := rfl
theorem oct_ne {x : Nat} (h : x ≠ 0) : oct x = some x := by simp [oct, h]

theorem chmodPost_gMap (h : Ctx env t) {c : ChmodOpts} (ho : OctalOpts c) (S : FsPath → Bool)
    {k : FsPath} {n : Node} {e : SEntry} (hk : get t k = some n) (he : EntryFor k n e) (hbig : 0o40000 ≤ e.mode) :
    chmodPost c e (gMap (permG (oct c.dirs) (oct c.files)) S t) =
      (.ok (), gMap (permG (oct c.dirs) (oct c.files)) (fun q => S q || q == k) t) := by
  have hg := permG_ok (oct c.dirs) (oct c.files)
  have hnoop : ∀ (hfix : permG (oct c.dirs) (oct c.files) n = n),
      ((.ok (), gMap (permG (oct c.dirs) (oct c.files)) S t) : Outcome Unit × T) =
        (.ok (), gMap (permG (oct c.dirs) (oct c.files)) (fun q => S q || q == k) t) := by
    intro hfix; rw [gMap_add_fixed _ S h.wf.nodup hk hfix]
  unfold chmodPost
  simp only [ho.sym, chmode_nil, ho.follow, Bool.or_false, he.path]
  cases hkk : n.kind with
  | dir =>
    have hd : e.dir = true := by rw [he.dir]; simp [hkk]
    have hl : e.link = false := by rw [he.link]; simp [hkk, isLinkKind]
    simp only [hd, if_true, hl, Bool.not_false, Bool.true_and]
    by_cases h0 : c.dirs = 0
    · have hz : decide (c.dirs ≠ 0) = false := by simp [h0]
      simp only [hz, Bool.and_false, Bool.false_eq_true, if_false]
      apply hnoop; unfold permG; simp [hkk, h0, oct_zero]
    · have hne : c.dirs ≠ e.mode := by have := ho.dirs; omega
      simp only [ne_eq, hne, not_false_eq_true, decide_true, h0, Bool.and_self, if_true]
      exact setPerm_gMap h hg S hk (by simp [hkk, isLinkKind]) c.dirs ho.dirs
        (fun n' hn' => permG_dir_some (oct_ne h0) n' (by rw [hn', hkk]))
  | file =>
    have hd : e.dir = false := by rw [he.dir]; simp [hkk]
    have hfi : e.file = true := by rw [he.file]; simp [hkk]
    have hl : e.link = false := by rw [he.link]; simp [hkk, isLinkKind]
    simp only [hd, Bool.false_eq_true, if_false, hfi, if_true, hl, Bool.not_false, Bool.true_and]
    by_cases h0 : c.files = 0
    · have hz : decide (c.files ≠ 0) = false := by simp [h0]
      simp only [hz, Bool.and_false, Bool.false_eq_true, if_false]
      apply hnoop; unfold permG; simp [hkk, h0, oct_zero]
    · have hne : c.files ≠ e.mode := by have := ho.files; omega
      simp only [ne_eq, hne, not_false_eq_true, decide_true, h0, Bool.and_self, if_true]
      exact setPerm_gMap h hg S hk (by simp [hkk, isLinkKind]) c.files ho.files
        (fun n' hn' => permG_file_some (oct_ne h0) n' (by rw [hn', hkk]))
  | link b =>
    have hl : e.link = true := by rw [he.link]; simp [hkk, isLinkKind]
    have hfix : permG (oct c.dirs) (oct c.files) n = n := by unfold permG; simp [hkk]
    cases hd : e.dir <;> cases hfi : e.file <;>
      simp only [hl, Bool.not_true, Bool.false_and, Bool.false_eq_true, if_false, if_true] <;>
      exact hnoop hfix

theorem chmodPre_gMap (h : Ctx env t) {c : ChmodOpts} (ho : OctalOpts c) (S : FsPath → Bool)
    {k : FsPath} {n : Node} {e : SEntry} (hk : get t k = some n) (he : EntryFor k n e) :
    ∃ b : Bool, chmodPre c e (gMap (permG (oct c.dirs) (oct c.files)) S t) =
      (.ok (), gMap (permG (oct c.dirs) (oct c.files)) (fun q => S q || (b && q == k)) t) := by
  have hg := permG_ok (oct c.dirs) (oct c.files)
  unfold chmodPre
  simp only [ho.sym, chmode_nil, ho.follow, Bool.or_false, he.path]
  by_cases hcond : (!e.link && e.dir && decide (c.dirs ≠ 0) && !Chmod.revokingMode e.mode c.dirs &&
      decide (e.mode ≠ c.dirs)) = true
  · refine ⟨true, ?_⟩
    simp only [hcond, if_true, Bool.true_and]
    simp only [Bool.and_eq_true, Bool.not_eq_true', decide_eq_true_eq] at hcond
    obtain ⟨⟨⟨⟨hl, hd⟩, h0⟩, _⟩, _⟩ := hcond
    have hkk : n.kind = .dir := by
      have := entry_real_dir he
      rw [hd, hl] at this
      simpa using this.symm
    exact setPerm_gMap h hg S hk (by simp [hkk, isLinkKind]) c.dirs ho.dirs
      (fun n' hn' => permG_dir_some (oct_ne h0) n' (by rw [hn', hkk]))
  · refine ⟨false, ?_⟩
    simp only [hcond, Bool.false_eq_true, if_false, Bool.false_and, Bool.or_false]

theorem chmodVisit_succ (c : ChmodOpts) (M : Option Nat) (f d : Nat) (e : SEntry) (t : T) :
    chmodVisit env c M (f + 1) d e t =
      if e.dir && !e.link && belowMax d M then
        match chmodPre c e t with
        | (.ok (), t1) =>
          match childEntries env t1 e.path with
          | .ok kids =>
            let ordered := sortByName (kids.filter (·.dir)) ++ sortByName (kids.filter (fun x => !x.dir))
            match ordered.foldl (visitStep (chmodVisit env c M f (d + 1))) ((.ok (), t1) : Outcome Unit × T) with
            | (.ok (), t2) => chmodPost c e t2
            | r => r
          | .err k => (.err k, t1)
          | .panic => (.panic, t1)
          | .hang => (.hang, t1)
        | r => r
      else chmodPost c e t := by
  rw [chmodVisit]
  rfl

theorem childKeys_gMap (g : Node → Node) (S : FsPath → Bool) (t : T) (a : FsPath) :
    (childNodes (gMap g S t) a).map (·.1) = (childNodes t a).map (·.1) := by
  unfold childNodes gMap
  simp only [List.filter_map, List.map_map]
  have hf : (fun kv : FsPath × Node => decide (kv.1.length = a.length + 1) && isProperPrefix a kv.1) ∘
      (fun kv : FsPath × Node => if S kv.1 = true then (kv.1, g kv.2) else kv) =
      (fun kv : FsPath × Node => decide (kv.1.length = a.length + 1) && isProperPrefix a kv.1) := by
    funext kv
    simp only [Function.comp]
    split <;> rfl
  rw [hf]
  apply List.map_congr_left
  intro kv _
  simp only [Function.comp]
  split <;> rfl

theorem mem_childNodes_gMap {g : Node → Node} {S : FsPath → Bool} {t : T} {a : FsPath} {kv' : FsPath × Node}
    (h : kv' ∈ childNodes (gMap g S t) a) :
    ∃ kv ∈ childNodes t a, kv'.1 = kv.1 ∧ kv'.2 = (if S kv.1 then g kv.2 else kv.2) := by
  obtain ⟨hm, x, hx⟩ := mem_childNodes.1 h
  obtain ⟨kv, hkv, h1, h2⟩ := mem_gMap hm
  exact ⟨kv, mem_childNodes.2 ⟨hkv, x, by rw [← h1]; exact hx⟩, h1, h2⟩

/-- the contents-first walk of `_chmod` with octal modes: every visited node ends up rewritten -/
theorem chmodVisit_gMap (h : Ctx env t) (hrt : keysRT env t = true) {c : ChmodOpts} (ho : OctalOpts c) :
    ∀ (f d : Nat) (a : FsPath) (n : Node) (e : SEntry) (S : FsPath → Bool), get t a = some n → EntryFor a n e →
      0o40000 ≤ e.mode →
      (∀ k m, get t k = some m → isProperPrefix a k = true → k.length ≤ a.length + f) →
      chmodVisit env c (recDepth c.recursive) (f + 1) d e (gMap (permG (oct c.dirs) (oct c.files)) S t) =
        (.ok (), gMap (permG (oct c.dirs) (oct c.files)) (fun k => S k || vis t c.recursive a k) t) := by
  have hg := permG_ok (oct c.dirs) (oct c.files)
  -- the two ways of not descending
  have hstop : ∀ (d : Nat) (a : FsPath) (n : Node) (e : SEntry) (S : FsPath → Bool), get t a = some n →
      EntryFor a n e → 0o40000 ≤ e.mode → ¬ (n.kind = .dir ∧ c.recursive = true) →
      chmodPost c e (gMap (permG (oct c.dirs) (oct c.files)) S t) =
        (.ok (), gMap (permG (oct c.dirs) (oct c.files)) (fun k => S k || vis t c.recursive a k) t) := by
    intro d a n e S hg' he hbig hgo
    rw [chmodPost_gMap h ho S hg' he hbig]
    congr 1
    apply gMap_congr
    intro kv _
    unfold vis
    have : (c.recursive && isDir t a) = false := by
      by_cases hk : n.kind = .dir
      · cases hrc : c.recursive with
        | true => exact absurd ⟨hk, hrc⟩ hgo
        | false => simp
      · rw [isDir_false_of_kind hg' hk]; simp
    simp [this]
  intro f
  induction f with
  | zero =>
    intro d a n e S hg' he hbig hfuel
    rw [chmodVisit_succ]
    simp only [entry_real_dir he, belowMax_recDepth]
    by_cases hgo : n.kind = .dir ∧ c.recursive = true
    · obtain ⟨hk, hrc⟩ := hgo
      have hd : isDir t a = true := isDir_of_get hg' hk
      have hnone : childNodes t a = [] := by
        cases hc : childNodes t a with
        | nil => rfl
        | cons kv r =>
          exfalso
          have hkv : kv ∈ childNodes t a := by rw [hc]; exact List.mem_cons_self
          obtain ⟨hgc, x, hx⟩ := child_get h hkv
          have := hfuel kv.1 kv.2 hgc (by rw [hx]; exact isProperPrefix_append a (by simp))
          rw [hx] at this; simp at this; omega
      obtain ⟨b, hpre⟩ := chmodPre_gMap h ho S hg' he
      obtain ⟨es, hes, hpaths, _⟩ := childEntries_dir_big (ctx_gMap hg (fun q => S q || (b && q == a)) h)
        (keysRT_gMap _ _ hrt) (a := a) (by rw [isDir_gMap hg]; exact hd)
      rw [childKeys_gMap, hnone] at hpaths
      have hes0 : es = [] := by
        cases es with
        | nil => rfl
        | cons x r => simp at hpaths
      subst hes0
      simp only [hk, hrc, decide_true, Bool.and_self, if_true, hpre, he.path, hes, List.filter_nil,
        sortByName, List.foldr_nil, List.append_nil, List.foldl_nil]
      rw [chmodPost_gMap h ho _ hg' he hbig]
      congr 1
      apply gMap_congr
      intro kv hkv
      unfold vis
      by_cases hp : isProperPrefix a kv.1 = true
      · exfalso
        have hgk := alLookup_of_mem_nodup h.wf.nodup hkv
        have := hfuel kv.1 kv.2 hgk hp
        obtain ⟨x, hx, he'⟩ := (isProperPrefix_iff a kv.1).1 hp
        have hl : 0 < x.length := List.length_pos_iff.mpr hx
        rw [he'] at this; simp at this; omega
      · cases b <;> simp [hp]
    · have hcond : (decide (n.kind = Kind.dir) && c.recursive) = false := by
        by_cases hk : n.kind = .dir
        · cases hrc : c.recursive with
          | true => exact absurd ⟨hk, hrc⟩ hgo
          | false => simp
        · simp [hk]
      simp only [hcond, Bool.false_eq_true, if_false]
      exact hstop d a n e S hg' he hbig hgo
  | succ f ih =>
    intro d a n e S hg' he hbig hfuel
    rw [chmodVisit_succ]
    simp only [entry_real_dir he, belowMax_recDepth]
    by_cases hgo : n.kind = .dir ∧ c.recursive = true
    · obtain ⟨hk, hrc⟩ := hgo
      have hd : isDir t a = true := isDir_of_get hg' hk
      obtain ⟨b, hpre⟩ := chmodPre_gMap h ho S hg' he
      obtain ⟨es, hes, hpaths, hents⟩ := childEntries_dir_big (ctx_gMap hg (fun q => S q || (b && q == a)) h)
        (keysRT_gMap _ _ hrt) (a := a) (by rw [isDir_gMap hg]; exact hd)
      rw [childKeys_gMap] at hpaths
      -- every cached entry is the entry of a child node of the ORIGINAL tree
      have hents' : ∀ e' ∈ es, ∃ kv ∈ childNodes t a, EntryFor kv.1 kv.2 e' ∧ 0o40000 ≤ e'.mode := by
        intro e' he'
        obtain ⟨kv', hkv', hef, hb'⟩ := hents e' he'
        obtain ⟨kv, hkv, h1, h2⟩ := mem_childNodes_gMap hkv'
        rw [h1, h2] at hef
        exact ⟨kv, hkv, entryFor_gnode hg _ hef, hb'⟩
      have hmemord : ∀ c', c' ∈ sortByName (es.filter (·.dir)) ++ sortByName (es.filter (fun x => !x.dir)) ↔ c' ∈ es := by
        intro c'
        simp only [List.mem_append, mem_sortByName, List.mem_filter]
        constructor
        · rintro (⟨h1, _⟩ | ⟨h1, _⟩) <;> exact h1
        · intro h1
          cases hcd : c'.dir with
          | true => exact Or.inl ⟨h1, rfl⟩
          | false => exact Or.inr ⟨h1, by simp [hcd]⟩
      -- the loop over the cached entries
      have hfold : ∀ (L : List SEntry), (∀ c' ∈ L, ∃ kv ∈ childNodes t a, EntryFor kv.1 kv.2 c' ∧ 0o40000 ≤ c'.mode) →
          ∀ S1 : FsPath → Bool,
          L.foldl (visitStep (chmodVisit env c (recDepth c.recursive) (f + 1) (d + 1)))
              ((.ok (), gMap (permG (oct c.dirs) (oct c.files)) S1 t) : Outcome Unit × T) =
            (.ok (), gMap (permG (oct c.dirs) (oct c.files))
              (fun k => S1 k || L.any (fun c' => vis t c.recursive c'.path k)) t) := by
        intro L
        induction L with
        | nil =>
          intro _ S1
          simp only [List.foldl_nil, List.any_nil, Bool.or_false]
        | cons c' L ihL =>
          intro hall S1
          obtain ⟨kv, hkv, hef, hb'⟩ := hall c' List.mem_cons_self
          obtain ⟨hgc, x, hx⟩ := child_get h hkv
          have hwalk := ih (d + 1) kv.1 kv.2 c' S1 hgc hef hb'
            (by
              intro k m hm hp
              obtain ⟨z, hz, hkz⟩ := (isProperPrefix_iff kv.1 k).1 hp
              have := hfuel k m hm (by rw [hkz, hx, List.append_assoc]; exact isProperPrefix_append a (by simp))
              rw [hx]; simp only [List.length_append, List.length_cons, List.length_nil]; omega)
          simp only [List.foldl_cons, visitStep, hwalk]
          rw [ihL (fun c'' hc'' => hall c'' (List.mem_cons_of_mem _ hc''))]
          congr 1
          apply gMap_congr
          intro kv' _
          simp only [List.any_cons, Bool.or_assoc, hef.path]
      have hord := hfold (sortByName (es.filter (·.dir)) ++ sortByName (es.filter (fun x => !x.dir)))
        (fun c' hc' => hents' c' ((hmemord c').1 hc')) (fun q => S q || (b && q == a))
      simp only [hk, hrc, decide_true, Bool.and_self, if_true, hpre, he.path, hes]
      rw [hrc] at hord
      rw [hord]
      dsimp only
      rw [chmodPost_gMap h ho _ hg' he hbig]
      congr 1
      apply gMap_congr
      intro kv' hkv'
      have hgk := alLookup_of_mem_nodup h.wf.nodup hkv'
      -- the entries' paths are exactly the child keys
      have hany : (sortByName (es.filter (·.dir)) ++ sortByName (es.filter (fun x => !x.dir))).any
            (fun c' => vis t true c'.path kv'.1) =
          (childNodes t a).any (fun kv => vis t true kv.1 kv'.1) := by
        rw [Bool.eq_iff_iff, List.any_eq_true, List.any_eq_true]
        constructor
        · rintro ⟨c', hc', hv⟩
          obtain ⟨kv, hkv, hef, _⟩ := hents' c' ((hmemord c').1 hc')
          exact ⟨kv, hkv, by rw [← hef.path]; exact hv⟩
        · rintro ⟨kv, hkv, hv⟩
          have : kv.1 ∈ es.map (·.path) := by rw [hpaths]; exact List.mem_map.2 ⟨kv, hkv, rfl⟩
          rw [List.mem_map] at this
          obtain ⟨c', hc', hcp⟩ := this
          exact ⟨c', (hmemord c').2 hc', by rw [hcp]; exact hv⟩
      rw [hany, any_child_vis h hgk]
      unfold vis
      simp only [hrc, hd, Bool.true_and]
      cases b <;> cases S kv'.1 <;> cases (kv'.1 == a) <;> cases isProperPrefix a kv'.1 <;> rfl
    · have hcond : (decide (n.kind = Kind.dir) && c.recursive) = false := by
        by_cases hk : n.kind = .dir
        · cases hrc : c.recursive with
          | true => exact absurd ⟨hk, hrc⟩ hgo
          | false => simp
        · simp [hk]
      simp only [hcond, Bool.false_eq_true, if_false]
      exact hstop d a n e S hg' he hbig hgo

/-! ### chmod, octal -/

theorem sim_chmodK (h : Ctx env t) (p : Str) {c : ChmodOpts} (ho : OctalOpts c)
    (hok : chmodOkB env t p = true) :
    Sim (Stdfs.mapVal (fun _ => .unit) (Stdfs.chmod env p c) t)
      (withPath env t p fun a => liftR (fun _ => .unit)
        (TreeFs.chmodOctal t a (oct c.dirs) (oct c.files) c.recursive)) := by
  unfold chmodOkB at hok
  rw [Bool.and_eq_true] at hok
  obtain ⟨hrt, hok2⟩ := hok
  unfold Stdfs.chmod withPath Stdfs.mapVal
  simp only [ho.follow, Bool.false_eq_true, if_false, absK_eq h.cwd]
  cases hr : resolve env t p with
  | ok a =>
    rw [hr] at hok2
    simp only [decide_eq_true_eq] at hok2
    unfold TreeFs.chmodOctal
    dsimp only
    cases hg : get t a with
    | none =>
      rw [entryFrom_missing h hok2 hg]
      simp only [liftR]
      exact sim_err _ _ (TEquiv.refl _)
    | some n =>
      obtain ⟨e, he, hef, hbig⟩ := entryFrom_key_big h hrt hg
      obtain ⟨f, hf, _⟩ := walkFuel_ok hg
      have hfuel : ∀ k m, get t k = some m → isProperPrefix a k = true → k.length ≤ a.length + f := by
        intro k m hm _
        obtain ⟨f', hf', hmax'⟩ := walkFuel_ok hm
        rw [hf] at hf'; have : f = f' := by omega
        omega
      have hwalk := chmodVisit_gMap h hrt ho f 0 a n e (fun _ => false) hg hef hbig hfuel
      rw [gMap_none] at hwalk
      have hdep : (if c.recursive = true then none else some 0 : Option Nat) = recDepth c.recursive := rfl
      simp only [he, hf, hdep, hwalk, liftR]
      refine ⟨by simp, fun _ => ?_⟩
      have : gMap (permG (oct c.dirs) (oct c.files)) (fun k => false || vis t c.recursive a k) t =
          { t with nodes := t.nodes.map (fun kv =>
              if (decide (kv.1 = a) || (c.recursive && isProperPrefix a kv.1 && isDir t a)) = true
              then (match kv.2.kind, oct c.dirs, oct c.files with
                | .dir, some m, _ => (kv.1, { kv.2 with perm := m })
                | .file, _, some m => (kv.1, { kv.2 with perm := m })
                | _, _, _ => kv)
              else kv) } := by
        unfold gMap
        congr 1
        apply List.map_congr_left
        intro kv _
        have hb : (false || vis t c.recursive a kv.1) =
            (decide (kv.1 = a) || (c.recursive && isProperPrefix a kv.1 && isDir t a)) := by
          unfold vis
          by_cases h1 : kv.1 = a
          · simp [h1]
          · have hbe : (kv.1 == a) = false := by simp [h1]
            rw [hbe]; simp only [h1, decide_false, Bool.false_or]
            cases c.recursive <;> cases isDir t a <;> cases isProperPrefix a kv.1 <;> rfl
        show (if (false || vis t c.recursive a kv.1) = true then _ else _) = _
        rw [hb]
        have hnode : (kv.1, permG (oct c.dirs) (oct c.files) kv.2) =
            (match kv.2.kind, oct c.dirs, oct c.files with
              | .dir, some m, _ => (kv.1, { kv.2 with perm := m })
              | .file, _, some m => (kv.1, { kv.2 with perm := m })
              | _, _, _ => kv) := by
          unfold permG
          cases hk : kv.2.kind <;> cases oct c.dirs <;> cases oct c.files <;> simp [hk]
        rw [hnode]
      rw [this]
      exact TEquiv.refl _
  | err e => exact sim_err _ _ (TEquiv.refl _)
  | panic => exact sim_unspec _ _
  | hang => exact sim_unspec _ _

end Rivia.Lemmas.StdfsL
