/-
  Rivia.Lemmas.WalkCF — the option domains of the exactness theorems after the two repairs of
  `EntriesIter` (`process` filters before it defers; the deferred stack records depths and a
  directory is released when the stack of open directories is back at its depth).

  * `ExactDom3` / `ExactDomF3`: `OrdOk ∧ KindOk`, nothing else — `contents_first` with any depth
    window and kind filter is exact (`collectEntries_post` in Lemmas/Walk.lean, `runIter_exact` in
    Lemmas/WalkFollow.lean, whose domain `DomFW` is now `KindOk`);
  * `ExactDom2` / `ExactDomF2` (after the first repair only: `min_depth = 0`) and the side condition
    `FlagsOkFor` are kept for the theorems stated with them; the side condition is no longer used.
  * the `*_cfOff` lemmas (with `files()` and exclusive kind flags nothing is ever deferred, the run
    equals the run without `contents_first`) are kept as facts about the machine; the exactness
    theorems do not depend on them any more.
-/
import Rivia.Lemmas.Walk
import Rivia.Lemmas.WalkFollow

namespace Rivia.Lemmas.WalkCF
open Rivia Rivia.Memfs Rivia.Spec
open Rivia.Lemmas.Walk Rivia.Lemmas.WalkF

/-- no snapshot entry carries both kind flags (decidable). Every constructor of the
    implementation sets exactly one of `dir` / `file`; the model's `Entry` keeps them as two
    independent fields and neither `SnapWf` nor `Spec.Inv` records their exclusiveness. -/
def FlagsExcl (snap : Snap) : Prop := ∀ kv ∈ snap, kv.2.dir = true → kv.2.file = false

instance (snap : Snap) : Decidable (FlagsExcl snap) := by unfold FlagsExcl; infer_instance

/-- the entry does not carry both kind flags -/
def QE (e : Entry) : Prop := e.dir = true → e.file = false

theorem QE_doFollow {e : Entry} (b : Bool) (h : QE e) : QE (e.doFollow b) := by
  unfold QE Entry.doFollow at *
  split <;> exact h

theorem QE_of_lookup {snap : Snap} (hs : FlagsExcl snap) {k : FsPath} {e : Entry} (h : alLookup k snap = some e) :
    QE e := hs (k, e) (alLookup_mem h)

/-- the options with `contents_first` switched off -/
def cfOff (o : Opts) : Opts := { o with contentsFirst := false }

@[simp] theorem cfOff_follow (o : Opts) : (cfOff o).follow = o.follow := rfl
@[simp] theorem cfOff_files (o : Opts) : (cfOff o).files = o.files := rfl
@[simp] theorem cfOff_dirs (o : Opts) : (cfOff o).dirs = o.dirs := rfl
@[simp] theorem cfOff_minDepth (o : Opts) : (cfOff o).minDepth = o.minDepth := rfl
@[simp] theorem cfOff_maxDepth (o : Opts) : (cfOff o).maxDepth = o.maxDepth := rfl
@[simp] theorem cfOff_maxDesc (o : Opts) : (cfOff o).maxDesc = o.maxDesc := rfl
@[simp] theorem cfOff_sorted (o : Opts) : (cfOff o).sorted = o.sorted := rfl
@[simp] theorem cfOff_cf (o : Opts) : (cfOff o).contentsFirst = false := rfl

theorem mkIter_cfOff (snap : Snap) (o : Opts) (p : FsPath) : mkIter snap (cfOff o) p = mkIter snap o p := rfl

theorem kindOk_cfOff {o : Opts} (h : KindOk o) : KindOk (cfOff o) := h
theorem ordOk_cfOff {o : Opts} (h : OrdOk o) : OrdOk (cfOff o) := h

/-! ### the items of a directory iterator are snapshot entries (presented) -/

theorem mem_insertSorted {le : Entry → Entry → Bool} {x y : Entry} :
    ∀ {l : List Entry}, y ∈ insertSorted le x l → y = x ∨ y ∈ l
  | [], h => by simpa [insertSorted] using h
  | z :: l, h => by
    unfold insertSorted at h
    split at h
    · simpa using h
    · rcases List.mem_cons.mp h with h | h
      · exact Or.inr (by simp [h])
      · rcases mem_insertSorted h with h | h
        · exact Or.inl h
        · exact Or.inr (List.mem_cons_of_mem _ h)

theorem mem_sortEntries {le : Entry → Entry → Bool} {y : Entry} :
    ∀ {l : List Entry}, y ∈ sortEntries le l → y ∈ l
  | [], h => by simp [sortEntries] at h
  | x :: l, h => by
    have h' : y ∈ insertSorted (fun a b => le a b) x (sortEntries le l) := h
    rcases mem_insertSorted h' with h | h
    · simp [h]
    · exact List.mem_cons_of_mem _ (mem_sortEntries h)

theorem mkIter_items {snap : Snap} (hs : FlagsExcl snap) {o : Opts} {p : FsPath} {it : EIter}
    (h : mkIter snap o p = .ok it) : ∀ x ∈ it.items, QE x := by
  unfold mkIter at h
  split at h
  · cases h
  · rename_i e _
    simp only [] at h
    have hraw : ∀ (kids : List FsPath), ∀ x ∈ (((kids.map (fun k => alLookup k snap)).takeWhile Option.isSome).filterMap id).map
        (fun x => x.doFollow o.follow), QE x := by
      intro kids x hx
      obtain ⟨y, hy, rfl⟩ := List.mem_map.mp hx
      obtain ⟨oy, hoy, hid⟩ := List.mem_filterMap.mp hy
      simp only [id] at hid
      subst hid
      obtain ⟨k, _, hk⟩ := List.mem_map.mp ((List.takeWhile_sublist _).subset hoy)
      exact QE_doFollow _ (QE_of_lookup hs hk)
    intro x hx
    repeat' split at h
    all_goals (cases h; simp only [] at hx)
    all_goals first
      | exact hraw _ x hx
      | exact hraw _ x (mem_sortEntries hx)
      | (rcases List.mem_append.mp hx with hx | hx <;>
          exact hraw _ x (List.mem_filter.mp (mem_sortEntries hx)).1)

/-! ### the machine: with `files()` nothing is deferred -/

/-- nothing deferred, every waiting item has exclusive kind flags -/
def NoDef (st : ISt) : Prop := st.deferred = [] ∧ ∀ it ∈ st.iters, ∀ x ∈ it.items, QE x

theorem finP_cfOff {o : Opts} (hf : o.files = true) (d : Nat) {e : Entry} (hq : QE e) (st : ISt) :
    finP o d e st = finP (cfOff o) d e st := by
  unfold finP QE at *
  simp only [cfOff_minDepth, cfOff_files, cfOff_dirs, cfOff_cf]
  cases hd : e.dir <;> cases hfl : e.file <;> simp_all

theorem procP_cfOff (snap : Snap) {o : Opts} (hf : o.files = true) (st : ISt) {e : Entry} (hq : QE e) :
    procP snap o st e = procP snap (cfOff o) st e := by
  have hd : descP snap (cfOff o) st e = descP snap o st e := rfl
  unfold procP
  rw [hd]
  split
  · rfl
  · exact finP_cfOff hf _ hq _

theorem process_cfOff {σ} (snap : Snap) {o : Opts} (hf : o.files = true)
    (st : ISt) {e : Entry} (hq : QE e) (w : σ) :
    process snap o noPre st e w = process snap (cfOff o) noPre st e w := by
  rw [process_w, process_w, procP_cfOff snap hf st hq]

theorem descP_noDef {snap : Snap} (hs : FlagsExcl snap) (o : Opts) (st : ISt) (e : Entry) (hst : NoDef st) :
    NoDef (descP snap o st e).2 := by
  unfold descP
  repeat' split
  all_goals first
    | exact hst
    | (rename_i it hit _
       refine ⟨hst.1, ?_⟩
       intro it' hit'
       rcases List.mem_cons.mp hit' with h | h
       · subst h; exact fun x hx => mkIter_items hs hit x hx
       · exact hst.2 it' h)

theorem procP_noDef {snap : Snap} (hs : FlagsExcl snap) {o : Opts} (hcf : o.contentsFirst = false) (st : ISt)
    (e : Entry) (hst : NoDef st) : NoDef (procP snap o st e).2 := by
  have h := descP_noDef hs o st e hst
  unfold procP
  split
  · rename_i heq; rw [heq] at h; exact h
  · rename_i heq; rw [heq] at h
    unfold finP
    simp only [hcf, Bool.false_eq_true, and_false, if_false]
    repeat' split
    all_goals exact h

theorem deferredReady_nil (n : Nat) : deferredReady n [] = false := rfl

theorem nextLoop_cfOff {σ} {snap : Snap} (hs : FlagsExcl snap) {o : Opts} (hf : o.files = true) :
    ∀ (f : Nat) (st : ISt) (w : σ), NoDef st →
      nextLoop snap o noPre f st w = nextLoop snap (cfOff o) noPre f st w ∧
      NoDef (nextLoop snap (cfOff o) noPre f st w).2.1
  | 0, st, w, hst => ⟨rfl, hst⟩
  | f + 1, st, w, hst => by
    obtain ⟨started, openDesc, iters, deferred⟩ := st
    obtain ⟨hd, hit⟩ := hst
    simp only [] at hd hit
    subst hd
    cases iters with
    | nil =>
      refine ⟨?_, ?_⟩
      · simp only [nextLoop, ite_self]
      · simp only [nextLoop, ite_self]
        exact ⟨rfl, hit⟩
    | cons top below =>
      obtain ⟨tp, tc, items⟩ := top
      cases items with
      | nil =>
        have hst1 : NoDef ⟨started, if tc then openDesc else openDesc - 1, below, []⟩ :=
          ⟨rfl, fun it h => hit it (List.mem_cons_of_mem _ h)⟩
        have ih := nextLoop_cfOff hs hf f ⟨started, if tc then openDesc else openDesc - 1, below, []⟩ w hst1
        simp only [nextLoop, deferredReady_nil, Bool.false_eq_true, and_false, if_false]
        exact ih
      | cons x xs =>
        have hx : QE (x.doFollow o.follow) :=
          QE_doFollow _ (hit ⟨tp, tc, x :: xs⟩ List.mem_cons_self x List.mem_cons_self)
        have hst1 : NoDef ⟨started, openDesc, ⟨tp, tc, xs⟩ :: below, []⟩ := by
          refine ⟨rfl, ?_⟩
          intro it h
          rcases List.mem_cons.mp h with h | h
          · subst h
            intro y hy
            exact hit ⟨tp, tc, x :: xs⟩ List.mem_cons_self y (List.mem_cons_of_mem _ hy)
          · exact hit it (List.mem_cons_of_mem _ h)
        have hp := process_cfOff snap hf ⟨started, openDesc, ⟨tp, tc, xs⟩ :: below, []⟩ hx w
        have hn := procP_noDef hs (cfOff_cf o) ⟨started, openDesc, ⟨tp, tc, xs⟩ :: below, []⟩ (x.doFollow o.follow) hst1
        simp only [nextLoop, deferredReady_nil, Bool.false_eq_true, and_false, if_false, cfOff_follow, hp]
        rw [process_w]
        revert hn
        generalize procP snap (cfOff o) ⟨started, openDesc, ⟨tp, tc, xs⟩ :: below, []⟩ (x.doFollow o.follow) = P
        obtain ⟨ro, st2⟩ := P
        intro hn
        cases ro with
        | none => exact nextLoop_cfOff hs hf f st2 w hn
        | some r => exact ⟨rfl, hn⟩

theorem nextE_cfOff {σ} {snap : Snap} (hs : FlagsExcl snap) {o : Opts} (hf : o.files = true) {rootE : Entry}
    (hr : QE rootE) (f : Nat) (st : ISt) (w : σ) (hst : NoDef st) :
    nextE snap o noPre rootE f st w = nextE snap (cfOff o) noPre rootE f st w ∧
    NoDef (nextE snap (cfOff o) noPre rootE f st w).2.1 := by
  unfold nextE
  split
  · have hx : QE (rootE.doFollow o.follow) := QE_doFollow _ hr
    have hst1 : NoDef { st with started := true } := hst
    have hp := process_cfOff snap hf { st with started := true } hx w
    have hn := procP_noDef hs (cfOff_cf o) { st with started := true } (rootE.doFollow o.follow) hst1
    simp only [cfOff_follow, hp]
    rw [process_w]
    revert hn
    generalize procP snap (cfOff o) { st with started := true } (rootE.doFollow o.follow) = P
    obtain ⟨ro, st2⟩ := P
    intro hn
    cases ro with
    | none => exact nextLoop_cfOff hs hf f st2 w hn
    | some r => exact ⟨rfl, hn⟩
  · exact nextLoop_cfOff hs hf f st w hst

/-- with `files()` (and exclusive kind flags) `contents_first` changes nothing: whatever the
    consumer, the run is the run without it -/
theorem runIter_cfOff {σ} {snap : Snap} (hs : FlagsExcl snap) {o : Opts} (hf : o.files = true) {rootE : Entry}
    (hr : QE rootE) (step : Entry → σ → Outcome Unit × σ) :
    ∀ (f : Nat) (st : ISt) (w : σ), NoDef st →
      runIter snap o noPre rootE step f st w = runIter snap (cfOff o) noPre rootE step f st w
  | 0, _, _, _ => rfl
  | f + 1, st, w, hst => by
    unfold runIter
    obtain ⟨h1, h2⟩ := nextE_cfOff hs hf hr (f + 1) st w hst
    rw [h1]
    revert h2
    generalize nextE snap (cfOff o) noPre rootE (f + 1) st w = R
    obtain ⟨ro, st', w'⟩ := R
    intro h2
    cases ro with
    | none => rfl
    | some oc =>
      cases oc with
      | ok e =>
        simp only []
        cases hse : step e w' with
        | mk r2 w3 =>
          cases r2 with
          | ok u => cases u; exact runIter_cfOff hs hf hr step f st' w3 h2
          | err k => rfl
          | panic => rfl
          | hang => rfl
      | err k => rfl
      | panic => rfl
      | hang => rfl

theorem noDef_init : NoDef {} := ⟨rfl, fun _ h => by cases h⟩

theorem collectEntries_cfOff {snap : Snap} (hs : FlagsExcl snap) {o : Opts} (hf : o.files = true) {rootE : Entry}
    (hr : QE rootE) : collectEntries snap o rootE = collectEntries snap (cfOff o) rootE := by
  unfold collectEntries
  rw [runIter_cfOff hs hf hr _ _ _ _ noDef_init]

/-! ### the specification walks: with `files()` no directory is selected -/

theorem selected_dir_files {o : Opts} (hf : o.files = true) {e : Entry} (hq : QE e) (hd : e.dir = true) (d : Nat) :
    selected o e d = false := by
  simp [selected, hf, hq hd]

theorem QE_children {snap : Snap} (hs : FlagsExcl snap) {o : Opts} {e c : Entry} (h : c ∈ children snap o e) : QE c := by
  unfold children at h
  rw [mem_groupKinds] at h
  obtain ⟨n, _, hn⟩ := List.mem_filterMap.mp h
  exact QE_of_lookup hs hn

theorem walk_cfOff {snap : Snap} (hs : FlagsExcl snap) {o : Opts} (hf : o.files = true) :
    ∀ (k : Nat) (e : Entry) (d : Nat), QE e → walk snap o k e d = walk snap (cfOff o) k e d
  | 0, _, _, _ => rfl
  | k + 1, e, d, hq => by
    have hch : children snap (cfOff o) e = children snap o e := rfl
    have hsel : selected (cfOff o) e d = selected o e d := rfl
    have hdes : descends (cfOff o) e d = descends o e d := rfl
    have hbelow : (children snap o e).flatMap (fun c => walk snap o k c (d + 1)) =
        (children snap o e).flatMap (fun c => walk snap (cfOff o) k c (d + 1)) :=
      flatMap_congr' (fun c hc => walk_cfOff hs hf k c (d + 1) (QE_children hs hc))
    simp only [walk, hch, hsel, hdes, cfOff_cf, Bool.false_and, Bool.false_eq_true, if_false, hbelow]
    by_cases hc : (o.contentsFirst && e.dir) = true
    · have hd : e.dir = true := by simp only [Bool.and_eq_true] at hc; exact hc.2
      simp [hc, selected_dir_files hf hq hd]
    · simp [hc]

theorem entriesSpec_cfOff {snap : Snap} (hs : FlagsExcl snap) {o : Opts} (hf : o.files = true) {rootE : Entry}
    (hr : QE rootE) : entriesSpec snap o rootE = entriesSpec snap (cfOff o) rootE :=
  walk_cfOff hs hf _ rootE 0 hr

theorem QE_childrenF {snap : Snap} (hs : FlagsExcl snap) {o : Opts} {e : Entry} {kids : List Entry}
    (hk : childrenF snap o e = some kids) {c : Entry} (h : c ∈ kids) : QE c := by
  unfold childrenF at hk
  obtain ⟨ns, _, hns⟩ := Option.map_eq_some_iff.mp hk
  subst hns
  rw [mem_groupKinds] at h
  have h2 : c ∈ (ns.filterMap (fun n => alLookup (e.path ++ [n]) snap)).map (present o) := by
    unfold orderEntries at h
    split at h
    · exact (List.mem_mergeSort).mp h
    · exact h
  obtain ⟨y, hy, rfl⟩ := List.mem_map.mp h2
  obtain ⟨n, _, hn⟩ := List.mem_filterMap.mp hy
  exact QE_doFollow _ (QE_of_lookup hs hn)

theorem seqF_congr_mem {f g : Entry → WalkRes} {kids : List Entry} (h : ∀ c ∈ kids, f c = g c) :
    seqF f kids = seqF g kids := seqF_congr h

theorem walkF_cfOff {snap : Snap} (hs : FlagsExcl snap) {o : Opts} (hf : o.files = true) :
    ∀ (k : Nat) (chain : List FsPath) (e : Entry) (d : Nat), QE e →
      walkF snap o k chain e d = walkF snap (cfOff o) k chain e d
  | 0, _, _, _, _ => rfl
  | k + 1, chain, e, d, hq => by
    have hch : childrenF snap (cfOff o) e = childrenF snap o e := rfl
    have hsel : selected (cfOff o) e d = selected o e d := rfl
    have hent : entersF (cfOff o) e d = entersF o e d := rfl
    have hlp : loopsF (cfOff o) chain e = loopsF o chain e := rfl
    simp only [walkF, hch, hsel, hent, hlp, cfOff_cf, Bool.false_and, Bool.false_eq_true, if_false]
    split
    · rfl
    · split
      · cases hk : childrenF snap o e with
        | none => rfl
        | some kids =>
          simp only []
          rw [seqF_congr_mem (f := fun c => walkF snap o k (e.path :: chain) c (d + 1))
            (g := fun c => walkF snap (cfOff o) k (e.path :: chain) c (d + 1))
            (fun c hc => walkF_cfOff hs hf k (e.path :: chain) c (d + 1) (QE_childrenF hs hk hc))]
          by_cases hc : (o.contentsFirst && e.dir) = true
          · have hd : e.dir = true := by simp only [Bool.and_eq_true] at hc; exact hc.2
            simp only [hc, if_true, selected_dir_files hf hq hd, Bool.false_eq_true, if_false, List.nil_append,
              List.append_nil]
          · simp only [hc, Bool.false_eq_true, if_false]
      · rfl

theorem entriesSpecF_cfOff {snap : Snap} (hs : FlagsExcl snap) {o : Opts} (hf : o.files = true) {rootE : Entry}
    (hr : QE rootE) : entriesSpecF snap o rootE = entriesSpecF snap (cfOff o) rootE :=
  walkF_cfOff hs hf _ [] _ 0 (QE_doFollow _ hr)

theorem sizeF_cfOff (snap : Snap) (o : Opts) : ∀ (k : Nat) (chain : List FsPath) (e : Entry) (d : Nat),
    sizeF snap (cfOff o) k chain e d = sizeF snap o k chain e d
  | 0, _, _, _ => rfl
  | k + 1, chain, e, d => by
    have hch : childrenF snap (cfOff o) e = childrenF snap o e := rfl
    have hent : entersF (cfOff o) e d = entersF o e d := rfl
    have hlp : loopsF (cfOff o) chain e = loopsF o chain e := rfl
    have hfun : (fun c => sizeF snap (cfOff o) k (e.path :: chain) c (d + 1)) =
        (fun c => sizeF snap o k (e.path :: chain) c (d + 1)) :=
      funext fun c => sizeF_cfOff snap o k (e.path :: chain) c (d + 1)
    simp only [sizeF, hch, hent, hlp, hfun]

theorem fuelNeed_cfOff (snap : Snap) (o : Opts) (rootE : Entry) :
    fuelNeed snap (cfOff o) rootE = fuelNeed snap o rootE := by
  unfold fuelNeed
  rw [sizeF_cfOff]
  rfl

/-! ### the wider option domains -/

/-- the option combinations for which the repaired implementation is exact (decidable), links not
    followed: as `ExactDom`, but `contents_first` (with `min_depth = 0`) may be combined with a
    kind filter -/
def ExactDom2 (o : Opts) : Prop :=
  o.follow = false ∧ OrdOk o ∧
    ((o.contentsFirst = false ∧ KindOk o) ∨ (o.contentsFirst = true ∧ o.minDepth = 0 ∧ KindOk o))

instance (o : Opts) : Decidable (ExactDom2 o) := by unfold ExactDom2; infer_instance

theorem ExactDom.to2 {o : Opts} (h : ExactDom o) : ExactDom2 o := by
  obtain ⟨h1, h2, h3 | ⟨h3, h4, h5, h6⟩⟩ := h
  · exact ⟨h1, h2, Or.inl h3⟩
  · exact ⟨h1, h2, Or.inr ⟨h3, h4, by unfold KindOk; simp [h5]⟩⟩

/-- as `DomF` (links followed), `contents_first` with `min_depth = 0` and any exclusive filter -/
def DomF2 (o : Opts) : Prop :=
  (o.contentsFirst = false ∧ KindOk o) ∨ (o.contentsFirst = true ∧ o.minDepth = 0 ∧ KindOk o)

instance (o : Opts) : Decidable (DomF2 o) := by unfold DomF2; infer_instance

theorem DomF.to2 {o : Opts} (h : DomF o) : DomF2 o := by
  rcases h with h | ⟨h3, h4, h5, h6⟩
  · exact Or.inl h
  · exact Or.inr ⟨h3, h4, by unfold KindOk; simp [h5]⟩

/-- the wider domain of the exactness theorems with links followed -/
def ExactDomF2 (o : Opts) : Prop := o.follow = true ∧ OrdOk o ∧ DomF2 o

instance (o : Opts) : Decidable (ExactDomF2 o) := by unfold ExactDomF2; infer_instance

/-- the option combinations for which the implementation is exact after BOTH repairs (decidable),
    links not followed: no restriction on `contents_first` or the depth window at all — only
    exclusive kind filters (`KindOk`) and grouping with a sort (`OrdOk`) -/
def ExactDom3 (o : Opts) : Prop := o.follow = false ∧ OrdOk o ∧ KindOk o

instance (o : Opts) : Decidable (ExactDom3 o) := by unfold ExactDom3; infer_instance

theorem ExactDom2.to3 {o : Opts} (h : ExactDom2 o) : ExactDom3 o := by
  obtain ⟨h1, h2, h3 | ⟨_, _, h3⟩⟩ := h
  · exact ⟨h1, h2, h3.2⟩
  · exact ⟨h1, h2, h3⟩

theorem ExactDom.to3 {o : Opts} (h : ExactDom o) : ExactDom3 o := (ExactDom.to2 h).to3

/-- the same with links followed -/
def ExactDomF3 (o : Opts) : Prop := o.follow = true ∧ OrdOk o ∧ KindOk o

instance (o : Opts) : Decidable (ExactDomF3 o) := by unfold ExactDomF3; infer_instance

theorem DomF2.kindOk {o : Opts} (h : DomF2 o) : KindOk o := by
  rcases h with h | ⟨_, _, h⟩
  · exact h.2
  · exact h

theorem ExactDomF2.to3 {o : Opts} (h : ExactDomF2 o) : ExactDomF3 o := ⟨h.1, h.2.1, h.2.2.kindOk⟩

/-- the side condition of the `files().contents_first()` case: exclusive kind flags -/
def FlagsOkFor (snap : Snap) (o : Opts) : Prop := o.contentsFirst = true → o.files = true → FlagsExcl snap

instance (snap : Snap) (o : Opts) : Decidable (FlagsOkFor snap o) := by unfold FlagsOkFor; infer_instance

/-- exactness for EVERY option combination with `follow = false`, `OrdOk`, `KindOk`
    (no side condition: the depth-tagged deferred stack makes `FlagsOkFor` unnecessary) -/
theorem collectEntries_exact3 {snap : Snap} (hwf : SnapWf snap) {o : Opts} (hdom : ExactDom3 o)
    {rootE : Entry} (hr : InSnap snap rootE) :
    collectEntries snap o rootE = .ok (entriesSpec snap o rootE) := by
  obtain ⟨hfol, hord, hk⟩ := hdom
  cases hcf : o.contentsFirst with
  | false => exact collectEntries_pre hwf hfol hcf hord hk hr
  | true => exact collectEntries_post hwf hfol hcf hk hord hr

theorem collectEntries_exact2 {snap : Snap} (hwf : SnapWf snap) {o : Opts} (hdom : ExactDom2 o)
    (_hx : FlagsOkFor snap o) {rootE : Entry} (hr : InSnap snap rootE) :
    collectEntries snap o rootE = .ok (entriesSpec snap o rootE) :=
  collectEntries_exact3 hwf hdom.to3 hr

theorem es_eq_of_exact3 {snap : Snap} {o : Opts} {rootE : Entry} {es : List Entry}
    (hwf : SnapWf snap) (hroot : InSnap snap rootE) (hdom : ExactDom3 o)
    (h : collectEntries snap o rootE = .ok es) : es = entriesSpec snap o rootE := by
  rw [collectEntries_exact3 hwf hdom hroot] at h
  exact (Outcome.ok.inj h).symm

theorem es_eq_of_exact2 {snap : Snap} {o : Opts} {rootE : Entry} {es : List Entry}
    (hwf : SnapWf snap) (hroot : InSnap snap rootE) (hdom : ExactDom2 o) (_hx : FlagsOkFor snap o)
    (h : collectEntries snap o rootE = .ok es) : es = entriesSpec snap o rootE :=
  es_eq_of_exact3 hwf hroot hdom.to3 h

/-- exactness with links followed for EVERY option combination with `OrdOk`, `KindOk` -/
theorem runIter_exact3 {snap : Snap} (hwf : SnapWf snap) {o : Opts} (hfol : o.follow = true)
    (hord : OrdOk o) (hk : KindOk o) {rootE : Entry} (hr : InSnap snap rootE) :
    ∀ f, fuelNeed snap o rootE ≤ f → runIter snap o noPre rootE stepCons f {} [] =
      (specOutcome (entriesSpecF snap o rootE).2, (entriesSpecF snap o rootE).1.reverse) :=
  runIter_exact hwf hfol hord hk hr

theorem runIter_exact2 {snap : Snap} (hwf : SnapWf snap) {o : Opts} (hfol : o.follow = true)
    (hord : OrdOk o) (hdom : DomF2 o) (_hx : FlagsOkFor snap o) {rootE : Entry} (hr : InSnap snap rootE) :
    ∀ f, fuelNeed snap o rootE ≤ f → runIter snap o noPre rootE stepCons f {} [] =
      (specOutcome (entriesSpecF snap o rootE).2, (entriesSpecF snap o rootE).1.reverse) :=
  runIter_exact3 hwf hfol hord hdom.kindOk hr

theorem collectEntries_exactF3 {snap : Snap} (hwf : SnapWf snap) {o : Opts} (hfol : o.follow = true)
    (hord : OrdOk o) (hk : KindOk o) {rootE : Entry} (hr : InSnap snap rootE)
    (hfuel : fuelNeed snap o rootE ≤ travFuel snap) :
    collectEntries snap o rootE =
      match entriesSpecF snap o rootE with
      | (ys, none) => .ok ys
      | (_, some k) => .err k :=
  collectEntries_exactF hwf hfol hord hk hr hfuel

theorem collectEntries_exactF2 {snap : Snap} (hwf : SnapWf snap) {o : Opts} (hfol : o.follow = true)
    (hord : OrdOk o) (hdom : DomF2 o) (_hx : FlagsOkFor snap o) {rootE : Entry} (hr : InSnap snap rootE)
    (hfuel : fuelNeed snap o rootE ≤ travFuel snap) :
    collectEntries snap o rootE =
      match entriesSpecF snap o rootE with
      | (ys, none) => .ok ys
      | (_, some k) => .err k :=
  collectEntries_exactF3 hwf hfol hord hdom.kindOk hr hfuel

theorem travM_exact3 {env : Env} {p : Str} {r : TravReq} {s : State} {k : FsPath} {rootE : Entry} {snap : Snap}
    (habs : absM env p s = (.ok k, s)) (hent : entriesOf s k = .ok (rootE, snap))
    (hwf : SnapWf snap) (hroot : InSnap snap rootE) (hfol : r.opts.follow = true) (hord : OrdOk r.opts)
    (hk : KindOk r.opts) (hfuel : fuelNeed snap r.opts rootE ≤ travFuel snap) :
    travM env p r s =
      (.ok (.trav ((entriesSpecF snap r.opts rootE).1.map (·.path)) (entriesSpecF snap r.opts rootE).2), s) :=
  travM_exact habs hent hwf hroot hfol hord hk hfuel

theorem travM_exact2 {env : Env} {p : Str} {r : TravReq} {s : State} {k : FsPath} {rootE : Entry} {snap : Snap}
    (habs : absM env p s = (.ok k, s)) (hent : entriesOf s k = .ok (rootE, snap))
    (hwf : SnapWf snap) (hroot : InSnap snap rootE) (hfol : r.opts.follow = true) (hord : OrdOk r.opts)
    (hdom : DomF2 r.opts) (_hx : FlagsOkFor snap r.opts) (hfuel : fuelNeed snap r.opts rootE ≤ travFuel snap) :
    travM env p r s =
      (.ok (.trav ((entriesSpecF snap r.opts rootE).1.map (·.path)) (entriesSpecF snap r.opts rootE).2), s) :=
  travM_exact3 habs hent hwf hroot hfol hord hdom.kindOk hfuel

end Rivia.Lemmas.WalkCF
