/-
  Rivia.Lemmas.StdfsList — C02 §4 (continued): the six listing operations.  The sorted pre-order walk
  of `Stdfs` (`listKids`) and the reference (`sortP` of the selected keys) both produce a strictly
  increasing list (component-wise lexicographic order `pathLt`) with the same members, hence the same list.
-/
import Rivia.Lemmas.StdfsMove

namespace Rivia.Lemmas.StdfsL
open Rivia Rivia.Memfs Rivia.File Rivia.Spec Rivia.Spec.TreeFs Rivia.Posix Rivia.Stdfs
open Rivia.Lemmas.RefineA (TEquiv ResMatch get_put alLookup_alInsert mem_of_alLookup)
open Rivia.Stdfs.SM

variable {env : Env} {t : T}

/-! ### the orders -/

theorem strLt_cons (a b : Char) (as bs : Str) :
    strLt (a :: as) (b :: bs) =
      if a.val.toNat < b.val.toNat then true else if b.val.toNat < a.val.toNat then false else strLt as bs := by
  simp only [strLt, GT.gt, UInt32.lt_iff_toNat_lt]

theorem strLt_irrefl : ∀ a : Str, strLt a a = false := by
  intro a
  induction a with
  | nil => rfl
  | cons x xs ih => rw [strLt_cons, if_neg (by omega), if_neg (by omega)]; exact ih

theorem strLt_asymm : ∀ (a b : Str), strLt a b = true → strLt b a = false := by
  intro a
  induction a with
  | nil => intro b _; cases b <;> rfl
  | cons x xs ih =>
    intro b h
    cases b with
    | nil => simp [strLt] at h
    | cons y ys =>
      rw [strLt_cons] at h ⊢
      split at h
      · rename_i h1
        rw [if_neg (by omega), if_pos h1]
      · split at h
        · cases h
        · rename_i h1 h2
          rw [if_neg h2, if_neg h1]; exact ih ys h

theorem strLt_trans : ∀ (a b c : Str), strLt a b = true → strLt b c = true → strLt a c = true := by
  intro a
  induction a with
  | nil =>
    intro b c h1 h2
    cases b with
    | nil => simp [strLt] at h1
    | cons y ys =>
      cases c with
      | nil => simp [strLt] at h2
      | cons z zs => rfl
  | cons x xs ih =>
    intro b c h1 h2
    cases b with
    | nil => simp [strLt] at h1
    | cons y ys =>
      cases c with
      | nil => simp [strLt] at h2
      | cons z zs =>
        rw [strLt_cons] at h1 h2 ⊢
        split at h1
        · split at h2
          · rw [if_pos (by omega)]
          · split at h2
            · cases h2
            · rw [if_pos (by omega)]
        · split at h1
          · cases h1
          · split at h2
            · rw [if_pos (by omega)]
            · split at h2
              · cases h2
              · rw [if_neg (by omega), if_neg (by omega)]; exact ih ys zs h1 h2

theorem strLt_tricho : ∀ (a b : Str), strLt a b = true ∨ a = b ∨ strLt b a = true := by
  intro a
  induction a with
  | nil => intro b; cases b with
    | nil => right; left; rfl
    | cons y ys => left; rfl
  | cons x xs ih =>
    intro b
    cases b with
    | nil => right; right; rfl
    | cons y ys =>
      rw [strLt_cons, strLt_cons]
      by_cases h1 : x.val.toNat < y.val.toNat
      · left; rw [if_pos h1]
      · by_cases h2 : y.val.toNat < x.val.toNat
        · right; right; rw [if_pos h2]
        · rw [if_neg h1, if_neg h2, if_neg h2, if_neg h1]
          have hxy : x = y := by
            apply Char.ext
            apply UInt32.toNat_inj.1
            omega
          subst hxy
          rcases ih ys with h | h | h
          · left; exact h
          · right; left; rw [h]
          · right; right; exact h

theorem pathLt_cons (a b : Str) (as bs : FsPath) :
    pathLt (a :: as) (b :: bs) = if strLt a b then true else if strLt b a then false else pathLt as bs := rfl

theorem pathLt_irrefl : ∀ a : FsPath, pathLt a a = false := by
  intro a
  induction a with
  | nil => rfl
  | cons x xs ih => rw [pathLt_cons]; simp [strLt_irrefl, ih]

theorem pathLt_trans : ∀ (a b c : FsPath), pathLt a b = true → pathLt b c = true → pathLt a c = true := by
  intro a
  induction a with
  | nil =>
    intro b c h1 h2
    cases b with
    | nil => simp [pathLt] at h1
    | cons y ys => cases c with
      | nil => simp [pathLt] at h2
      | cons z zs => rfl
  | cons x xs ih =>
    intro b c h1 h2
    cases b with
    | nil => simp [pathLt] at h1
    | cons y ys =>
      cases c with
      | nil => simp [pathLt] at h2
      | cons z zs =>
        rw [pathLt_cons] at h1 h2 ⊢
        by_cases hxy : strLt x y = true
        · by_cases hyz : strLt y z = true
          · rw [if_pos (strLt_trans _ _ _ hxy hyz)]
          · rw [if_neg hyz] at h2
            by_cases hzy : strLt z y = true
            · rw [if_pos hzy] at h2; cases h2
            · -- y = z
              rcases strLt_tricho y z with h | h | h
              · exact absurd h hyz
              · subst h; rw [if_pos hxy]
              · exact absurd h hzy
        · rw [if_neg hxy] at h1
          by_cases hyx : strLt y x = true
          · rw [if_pos hyx] at h1; cases h1
          · rw [if_neg hyx] at h1
            rcases strLt_tricho x y with h | h | h
            · exact absurd h hxy
            · subst h
              by_cases hxz : strLt x z = true
              · rw [if_pos hxz]
              · rw [if_neg hxz] at h2 ⊢
                by_cases hzx : strLt z x = true
                · rw [if_pos hzx] at h2; cases h2
                · rw [if_neg hzx] at h2 ⊢; exact ih ys zs h1 h2
            · exact absurd h hyx

theorem pathLt_tricho : ∀ (a b : FsPath), pathLt a b = true ∨ a = b ∨ pathLt b a = true := by
  intro a
  induction a with
  | nil => intro b; cases b with
    | nil => right; left; rfl
    | cons y ys => left; rfl
  | cons x xs ih =>
    intro b
    cases b with
    | nil => right; right; rfl
    | cons y ys =>
      rw [pathLt_cons, pathLt_cons]
      rcases strLt_tricho x y with h | h | h
      · left; rw [if_pos h]
      · subst h
        simp only [strLt_irrefl, Bool.false_eq_true, if_false]
        rcases ih ys with h | h | h
        · left; exact h
        · right; left; rw [h]
        · right; right; exact h
      · right; right; rw [if_pos h]

theorem pathLt_asymm (a b : FsPath) (h : pathLt a b = true) : pathLt b a = false := by
  cases hb : pathLt b a with
  | false => rfl
  | true =>
    have := pathLt_trans _ _ _ h hb
    rw [pathLt_irrefl] at this; cases this

/-- a proper extension comes after its prefix -/
theorem pathLt_append (a : FsPath) {x : FsPath} (hx : x ≠ []) : pathLt a (a ++ x) = true := by
  induction a with
  | nil => cases x with
    | nil => exact absurd rfl hx
    | cons y ys => rfl
  | cons z zs ih => rw [List.cons_append, pathLt_cons]; simp [strLt_irrefl, ih]

/-- below a common prefix the order is decided by what follows -/
theorem pathLt_append_left (a x y : FsPath) : pathLt (a ++ x) (a ++ y) = pathLt x y := by
  induction a with
  | nil => rfl
  | cons z zs ih => rw [List.cons_append, List.cons_append, pathLt_cons]; simp [strLt_irrefl, ih]

/-! ### strictly increasing lists are determined by their members -/

theorem sorted_unique : ∀ (l1 l2 : List FsPath), l1.Pairwise (fun a b => pathLt a b = true) →
    l2.Pairwise (fun a b => pathLt a b = true) → (∀ x, x ∈ l1 ↔ x ∈ l2) → l1 = l2 := by
  intro l1
  induction l1 with
  | nil =>
    intro l2 _ _ hm
    cases l2 with
    | nil => rfl
    | cons y ys => exact absurd ((hm y).2 List.mem_cons_self) (by simp)
  | cons x xs ih =>
    intro l2 h1 h2 hm
    cases l2 with
    | nil => exact absurd ((hm x).1 List.mem_cons_self) (by simp)
    | cons y ys =>
      rw [List.pairwise_cons] at h1 h2
      have hxy : x = y := by
        have hx := (hm x).1 List.mem_cons_self
        have hy := (hm y).2 List.mem_cons_self
        rw [List.mem_cons] at hx hy
        rcases hx with hx | hx
        · exact hx
        · rcases hy with hy | hy
          · exact hy.symm
          · have a1 := h2.1 x hx
            have a2 := h1.1 y hy
            rw [pathLt_asymm _ _ a1] at a2; cases a2
      subst hxy
      congr 1
      apply ih ys h1.2 h2.2
      intro z
      constructor
      · intro hz
        have := (hm z).1 (List.mem_cons_of_mem _ hz)
        rw [List.mem_cons] at this
        rcases this with h | h
        · subst h; have := h1.1 z hz; rw [pathLt_irrefl] at this; cases this
        · exact h
      · intro hz
        have := (hm z).2 (List.mem_cons_of_mem _ hz)
        rw [List.mem_cons] at this
        rcases this with h | h
        · subst h; have := h2.1 z hz; rw [pathLt_irrefl] at this; cases this
        · exact h

/-! ### `sortP` -/

theorem mem_insertP (x y : FsPath) : ∀ l : List FsPath, y ∈ insertP x l ↔ y = x ∨ y ∈ l := by
  intro l
  induction l with
  | nil => simp [insertP]
  | cons z zs ih =>
    simp only [insertP]
    split
    · simp
    · simp only [List.mem_cons, ih]
      constructor
      · rintro (h | h | h)
        · exact Or.inr (Or.inl h)
        · exact Or.inl h
        · exact Or.inr (Or.inr h)
      · rintro (h | h | h)
        · exact Or.inr (Or.inl h)
        · exact Or.inl h
        · exact Or.inr (Or.inr h)

theorem mem_sortP (y : FsPath) : ∀ l : List FsPath, y ∈ sortP l ↔ y ∈ l := by
  intro l
  induction l with
  | nil => simp [sortP]
  | cons x xs ih =>
    have : sortP (x :: xs) = insertP x (sortP xs) := rfl
    rw [this, mem_insertP, ih]; simp

theorem sorted_insertP (x : FsPath) : ∀ l : List FsPath, l.Pairwise (fun a b => pathLt a b = true) → x ∉ l →
    (insertP x l).Pairwise (fun a b => pathLt a b = true) := by
  intro l
  induction l with
  | nil => intro _ _; simp [insertP]
  | cons z zs ih =>
    intro hs hx
    simp only [insertP]
    rw [List.pairwise_cons] at hs
    simp only [List.mem_cons, not_or] at hx
    split
    · rename_i hlt
      rw [List.pairwise_cons]
      refine ⟨?_, List.pairwise_cons.2 hs⟩
      intro y hy
      rw [List.mem_cons] at hy
      rcases hy with h | h
      · subst h; exact hlt
      · exact pathLt_trans _ _ _ hlt (hs.1 y h)
    · rename_i hlt
      have hzx : pathLt z x = true := by
        rcases pathLt_tricho x z with h | h | h
        · exact absurd h hlt
        · exact absurd h hx.1
        · exact h
      rw [List.pairwise_cons]
      refine ⟨?_, ih hs.2 hx.2⟩
      intro y hy
      rw [mem_insertP] at hy
      rcases hy with h | h
      · subst h; exact hzx
      · exact hs.1 y h

theorem sorted_sortP : ∀ l : List FsPath, l.Nodup → (sortP l).Pairwise (fun a b => pathLt a b = true) := by
  intro l
  induction l with
  | nil => intro _; simp [sortP]
  | cons x xs ih =>
    intro hn
    rw [List.nodup_cons] at hn
    have : sortP (x :: xs) = insertP x (sortP xs) := rfl
    rw [this]
    exact sorted_insertP x _ (ih hn.2) (by rw [mem_sortP]; exact hn.1)

/-! ### `sortByName` -/

def nameOf (e : SEntry) : Str := baseName e.path
def leName (a b : SEntry) : Bool := strLe (baseName a.path) (baseName b.path)

theorem sortByName_eq (l : List SEntry) : sortByName l = l.foldr (insertBy leName) [] := rfl

theorem mem_insertBy (le : SEntry → SEntry → Bool) (x y : SEntry) : ∀ l : List SEntry,
    y ∈ insertBy le x l ↔ y = x ∨ y ∈ l := by
  intro l
  induction l with
  | nil => simp [insertBy]
  | cons z zs ih =>
    simp only [insertBy]
    split
    · simp
    · simp only [List.mem_cons, ih]
      constructor
      · rintro (h | h | h)
        · exact Or.inr (Or.inl h)
        · exact Or.inl h
        · exact Or.inr (Or.inr h)
      · rintro (h | h | h)
        · exact Or.inr (Or.inl h)
        · exact Or.inl h
        · exact Or.inr (Or.inr h)

theorem mem_sortByName (y : SEntry) : ∀ l : List SEntry, y ∈ sortByName l ↔ y ∈ l := by
  intro l
  induction l with
  | nil => simp [sortByName]
  | cons x xs ih =>
    have : sortByName (x :: xs) = insertBy leName x (sortByName xs) := rfl
    rw [this, mem_insertBy, ih]; simp

def ltName (a b : SEntry) : Prop := strLt (nameOf a) (nameOf b) = true

theorem sorted_insertBy (x : SEntry) : ∀ l : List SEntry, l.Pairwise ltName →
    (∀ y ∈ l, nameOf y ≠ nameOf x) → (insertBy leName x l).Pairwise ltName := by
  intro l
  induction l with
  | nil => intro _ _; simp [insertBy]
  | cons z zs ih =>
    intro hs hx
    simp only [insertBy]
    rw [List.pairwise_cons] at hs
    have hzx : nameOf z ≠ nameOf x := hx z List.mem_cons_self
    split
    · rename_i hle
      have hlt : ltName x z := by
        unfold leName strLe at hle
        simp only [Bool.not_eq_true'] at hle
        rcases strLt_tricho (nameOf x) (nameOf z) with h | h | h
        · exact h
        · exact absurd h.symm hzx
        · unfold nameOf at h; rw [h] at hle; cases hle
      rw [List.pairwise_cons]
      refine ⟨?_, List.pairwise_cons.2 hs⟩
      intro y hy
      rw [List.mem_cons] at hy
      rcases hy with h | h
      · subst h; exact hlt
      · exact strLt_trans _ _ _ hlt (hs.1 y h)
    · rename_i hle
      have hlt : ltName z x := by
        unfold leName strLe at hle
        simp only [Bool.not_eq_true', Bool.not_eq_false] at hle
        exact hle
      rw [List.pairwise_cons]
      refine ⟨?_, ih hs.2 (fun y hy => hx y (List.mem_cons_of_mem _ hy))⟩
      intro y hy
      rw [mem_insertBy] at hy
      rcases hy with h | h
      · subst h; exact hlt
      · exact hs.1 y h

theorem sorted_sortByName : ∀ l : List SEntry, (l.map nameOf).Nodup → (sortByName l).Pairwise ltName := by
  intro l
  induction l with
  | nil => intro _; simp [sortByName]
  | cons x xs ih =>
    intro hn
    rw [List.map_cons, List.nodup_cons] at hn
    have : sortByName (x :: xs) = insertBy leName x (sortByName xs) := rfl
    rw [this]
    apply sorted_insertBy x _ (ih hn.2)
    intro y hy he
    rw [mem_sortByName] at hy
    exact hn.1 (he ▸ List.mem_map.2 ⟨y, hy, rfl⟩)

/-! ### prefixes as appends -/

theorem isProperPrefix_iff (a k : FsPath) :
    isProperPrefix a k = true ↔ ∃ x, x ≠ [] ∧ k = a ++ x := by
  unfold isProperPrefix
  simp only [Bool.and_eq_true, decide_eq_true_eq, beq_iff_eq]
  constructor
  · rintro ⟨h1, h2⟩
    refine ⟨k.drop a.length, ?_, ?_⟩
    · intro h0
      have := congrArg List.length h0
      simp only [List.length_drop, List.length_nil] at this
      omega
    · conv => lhs; rw [← List.take_append_drop a.length k]
      rw [h2]
  · rintro ⟨x, hx, rfl⟩
    have : 0 < x.length := List.length_pos_iff.mpr hx
    refine ⟨by simp; omega, by simp⟩

theorem isProperPrefix_append (a : FsPath) {x : FsPath} (hx : x ≠ []) : isProperPrefix a (a ++ x) = true :=
  (isProperPrefix_iff a _).2 ⟨x, hx, rfl⟩

theorem baseName_snoc (a : FsPath) (x : Str) : baseName (a ++ [x]) = x := by simp [baseName]

/-! ### the entries of a directory -/

/-- what `StdfsEntry::from` records about the node `n` stored at `k` (as far as listings care) -/
structure EntryFor (k : FsPath) (n : Node) (e : SEntry) : Prop where
  path : e.path = k
  link : e.link = isLinkKind n.kind
  dir : e.dir = (decide (n.kind = .dir) || decide (n.kind = .link true))
  file : e.file = (decide (n.kind = .file) || decide (n.kind = .link false))

theorem keysRT_lookup (hrt : keysRT env t = true) {k : FsPath} {n : Node} (hg : get t k = some n) :
    resolve env t (renderP k) = .ok k := by
  unfold keysRT at hrt
  rw [List.all_eq_true] at hrt
  simpa using hrt _ (mem_of_alLookup hg)

theorem entryFrom_key (h : Ctx env t) (hrt : keysRT env t = true) {k : FsPath} {n : Node}
    (hg : get t k = some n) : ∃ e, entryFrom env t (renderP k) = .ok e ∧ EntryFor k n e := by
  have ha := keysRT_lookup hrt hg
  cases hk : n.kind with
  | dir =>
    refine ⟨_, entryFrom_nonlink h ha hg (by simp [hk, isLinkKind]), rfl, by simp [hk, isLinkKind], by simp [hk], by simp [hk]⟩
  | file =>
    refine ⟨_, entryFrom_nonlink h ha hg (by simp [hk, isLinkKind]), rfl, by simp [hk, isLinkKind], by simp [hk], by simp [hk]⟩
  | link b =>
    obtain ⟨alt, m, tg, _, _, _, he⟩ := entryFrom_link h ha hg hk
    refine ⟨_, he, rfl, by simp [hk, isLinkKind], ?_, ?_⟩ <;> cases b <;> simp [hk]

/-- the nodes directly below `a` -/
def childNodes (t : T) (a : FsPath) : List (FsPath × Node) :=
  t.nodes.filter (fun kv => kv.1.length = a.length + 1 && isProperPrefix a kv.1)

theorem mem_childNodes {t : T} {a : FsPath} {kv : FsPath × Node} :
    kv ∈ childNodes t a ↔ kv ∈ t.nodes ∧ ∃ x, kv.1 = a ++ [x] := by
  unfold childNodes
  rw [List.mem_filter]
  simp only [Bool.and_eq_true, decide_eq_true_eq]
  constructor
  · rintro ⟨hm, hl, hp⟩
    refine ⟨hm, ?_⟩
    obtain ⟨x, hx, he⟩ := (isProperPrefix_iff a kv.1).1 hp
    have hlen := congrArg List.length he
    rw [List.length_append, hl] at hlen
    match x, hx, hlen with
    | [y], _, _ => exact ⟨y, he⟩
    | [], hx, _ => exact absurd rfl hx
    | _ :: _ :: _, _, hlen => simp at hlen
  · rintro ⟨hm, x, hx⟩
    refine ⟨hm, by rw [hx]; simp, ?_⟩
    rw [hx]; exact isProperPrefix_append a (by simp)

theorem readDir_dir (h : Ctx env t) {a : FsPath} (hd : isDir t a = true) :
    readDir t a = .ok ((childNodes t a).map (fun kv => baseName kv.1)) := by
  obtain ⟨n, hn, hk⟩ := isDir_iff.1 hd
  unfold readDir linkFuel
  rw [followFinal_nonlink h.wf hn (by simp [hk, isLinkKind])]
  simp only [hn, hk, ne_eq, not_true_eq_false, if_false]
  rfl

theorem sequenceO_map {α β γ : Type} (f : α → Outcome β) (ga : α → γ) (gb : β → γ) (P : α → β → Prop) :
    ∀ l : List α, (∀ x ∈ l, ∃ e, f x = .ok e ∧ gb e = ga x ∧ P x e) →
      ∃ es, sequenceO (l.map f) = .ok es ∧ es.map gb = l.map ga ∧ ∀ e ∈ es, ∃ x ∈ l, P x e := by
  intro l
  induction l with
  | nil => intro _; exact ⟨[], rfl, rfl, by simp⟩
  | cons x xs ih =>
    intro hall
    obtain ⟨e, he, hg, hp⟩ := hall x List.mem_cons_self
    obtain ⟨es, h1, h2, h3⟩ := ih (fun y hy => hall y (List.mem_cons_of_mem _ hy))
    refine ⟨e :: es, ?_, ?_, ?_⟩
    · simp only [List.map_cons, sequenceO, he, h1]
    · simp only [List.map_cons, hg, h2]
    · intro e' he'
      rw [List.mem_cons] at he'
      rcases he' with h0 | h0
      · subst h0; exact ⟨x, List.mem_cons_self, hp⟩
      · obtain ⟨y, hy, hpy⟩ := h3 e' h0
        exact ⟨y, List.mem_cons_of_mem _ hy, hpy⟩

theorem alLookup_of_mem_nodup {β} : ∀ {l : List (FsPath × β)} {kv : FsPath × β}, (l.map (·.1)).Nodup → kv ∈ l →
    alLookup kv.1 l = some kv.2
  | [], _, _, hm => by cases hm
  | (k0, v0) :: r, kv, hn, hm => by
    simp only [List.map_cons, List.nodup_cons] at hn
    rw [List.mem_cons] at hm
    simp only [alLookup]
    by_cases h0 : k0 = kv.1
    · rcases hm with h1 | h1
      · rw [h1]; simp
      · exact absurd (List.mem_map.2 ⟨kv, h1, rfl⟩) (h0 ▸ hn.1)
    · rcases hm with h1 | h1
      · rw [h1] at h0; exact absurd rfl h0
      · simp only [h0, if_false]; exact alLookup_of_mem_nodup hn.2 h1

/-- the cached, error-free iterator over a real directory -/
theorem childEntries_dir (h : Ctx env t) (hrt : keysRT env t = true) {a : FsPath} (hd : isDir t a = true) :
    ∃ es, childEntries env t a = .ok es ∧ es.map (·.path) = (childNodes t a).map (·.1) ∧
      ∀ e ∈ es, ∃ kv ∈ childNodes t a, EntryFor kv.1 kv.2 e := by
  unfold childEntries
  rw [readDir_dir h hd]
  simp only [List.map_map]
  apply sequenceO_map _ (fun kv : FsPath × Node => kv.1) (·.path) (fun kv e => EntryFor kv.1 kv.2 e)
  intro kv hkv
  obtain ⟨hm, x, hx⟩ := mem_childNodes.1 hkv
  have hg : get t kv.1 = some kv.2 := alLookup_of_mem_nodup h.wf.nodup hm
  obtain ⟨e, he, hef⟩ := entryFrom_key h hrt hg
  refine ⟨e, ?_, hef.path, hef⟩
  simp only [Function.comp, hx, baseName_snoc]
  rw [← hx]; exact he

/-! ### the walk -/

def okOr (o : Outcome (List FsPath)) : List FsPath := match o with | .ok l => l | _ => []

/-- what one entry contributes to the listing -/
def block (want : SEntry → Bool) (below : SEntry → Outcome (List FsPath)) (c : SEntry) : List FsPath :=
  (if want c then [c.path] else []) ++ okOr (below c)

theorem foldl_listStep (want : SEntry → Bool) (below : SEntry → Outcome (List FsPath)) :
    ∀ (cs : List SEntry) (acc : List FsPath), (∀ c ∈ cs, ∃ L, below c = .ok L) →
      cs.foldl (listStep want below) (.ok acc) = .ok (acc ++ cs.flatMap (block want below)) := by
  intro cs
  induction cs with
  | nil => intro acc _; simp
  | cons c cs ih =>
    intro acc hall
    obtain ⟨L, hL⟩ := hall c List.mem_cons_self
    simp only [List.foldl_cons, listStep, hL, List.flatMap_cons, block, okOr]
    rw [ih _ (fun c' hc' => hall c' (List.mem_cons_of_mem _ hc'))]
    simp only [List.append_assoc]

theorem pairwise_flatMap {α : Type} {R : α → α → Prop} (g : α → List FsPath) : ∀ cs : List α, cs.Pairwise R →
    (∀ c ∈ cs, (g c).Pairwise (fun a b => pathLt a b = true)) →
    (∀ c ∈ cs, ∀ c' ∈ cs, R c c' → ∀ x ∈ g c, ∀ y ∈ g c', pathLt x y = true) →
    (cs.flatMap g).Pairwise (fun a b => pathLt a b = true) := by
  intro cs
  induction cs with
  | nil => intro _ _ _; simp
  | cons c cs ih =>
    intro hp hs hx
    rw [List.pairwise_cons] at hp
    rw [List.flatMap_cons, List.pairwise_append]
    refine ⟨hs c List.mem_cons_self, ih hp.2 (fun c' hc' => hs c' (List.mem_cons_of_mem _ hc'))
      (fun c1 h1 c2 h2 => hx c1 (List.mem_cons_of_mem _ h1) c2 (List.mem_cons_of_mem _ h2)), ?_⟩
    intro x hxm y hym
    rw [List.mem_flatMap] at hym
    obtain ⟨c', hc', hy⟩ := hym
    exact hx c List.mem_cons_self c' (List.mem_cons_of_mem _ hc') (hp.1 c' hc') x hxm y hy

theorem nodup_map_of_inj_on {α β : Type} (f : α → β) : ∀ l : List α, l.Nodup →
    (∀ x ∈ l, ∀ y ∈ l, f x = f y → x = y) → (l.map f).Nodup := by
  intro l
  induction l with
  | nil => intro _ _; simp
  | cons x xs ih =>
    intro hn hinj
    rw [List.nodup_cons] at hn
    rw [List.map_cons, List.nodup_cons]
    refine ⟨?_, ih hn.2 (fun a ha b hb => hinj a (List.mem_cons_of_mem _ ha) b (List.mem_cons_of_mem _ hb))⟩
    intro hm
    rw [List.mem_map] at hm
    obtain ⟨y, hy, he⟩ := hm
    have := hinj y (List.mem_cons_of_mem _ hy) x List.mem_cons_self he
    subst this; exact hn.1 hy

/-- the depth window of the traversal, seen from an entry at depth `d`: a descendant `j` levels below -/
def inDepth (M : Option Nat) (d j : Nat) : Prop :=
  match M with
  | none => True
  | some mx => d + j ≤ mx

theorem belowMax_iff (M : Option Nat) (d : Nat) : belowMax d M = true ↔ inDepth M d 1 := by
  cases M with
  | none => simp [belowMax, inDepth]
  | some mx => simp [belowMax, inDepth]; omega

/-- the members of the listing below `a` for an entry at depth `d` -/
def Desc (t : T) (wk : Kind → Bool) (M : Option Nat) (a : FsPath) (d : Nat) (k : FsPath) : Prop :=
  ∃ m, get t k = some m ∧ isProperPrefix a k = true ∧ inDepth M d (k.length - a.length) ∧ wk m.kind = true

/-- what the walk below one entry is expected to deliver -/
def WalkOk (t : T) (wk : Kind → Bool) (M : Option Nat) (a : FsPath) (d : Nat) (o : Outcome (List FsPath)) : Prop :=
  ∃ L, o = .ok L ∧ L.Pairwise (fun x y => pathLt x y = true) ∧ ∀ k, k ∈ L ↔ Desc t wk M a d k

theorem entry_real_dir {k : FsPath} {n : Node} {e : SEntry} (he : EntryFor k n e) :
    (e.dir && !e.link) = decide (n.kind = .dir) := by
  rw [he.dir, he.link]
  cases hk : n.kind with
  | dir => simp [isLinkKind]
  | file => simp [isLinkKind]
  | link b => cases b <;> simp [isLinkKind]

/-- the walk stops at anything that is not a real directory and at the depth limit -/
theorem listKids_stop (h : Ctx env t) (want : SEntry → Bool) (wk : Kind → Bool) (M : Option Nat) (f d : Nat)
    {a : FsPath} {n : Node} {e : SEntry} (hg : get t a = some n) (he : EntryFor a n e)
    (hstop : ¬ (n.kind = .dir ∧ belowMax d M = true)) :
    WalkOk t wk M a d (listKids env t want M (f + 1) d e) := by
  refine ⟨[], ?_, List.Pairwise.nil, ?_⟩
  · simp only [listKids, entry_real_dir he]
    by_cases hk : n.kind = .dir
    · have : belowMax d M = false := by
        cases hb : belowMax d M with
        | false => rfl
        | true => exact absurd ⟨hk, hb⟩ hstop
      simp [hk, this]
    · simp [hk]
  · intro k
    simp only [List.not_mem_nil, false_iff]
    rintro ⟨m, hm, hp, hin, _⟩
    by_cases hk : n.kind = .dir
    · have hb : ¬ belowMax d M = true := fun hb => hstop ⟨hk, hb⟩
      rw [belowMax_iff] at hb
      obtain ⟨x, hx, rfl⟩ := (isProperPrefix_iff a k).1 hp
      have hl : 0 < x.length := List.length_pos_iff.mpr hx
      cases M with
      | none => exact hb trivial
      | some mx =>
        simp only [inDepth, List.length_append] at hin hb
        omega
    · have := get_below_none h.wf (isDir_false_of_kind hg hk) hp
      rw [hm] at this; cases this

theorem child_get (h : Ctx env t) {a : FsPath} {kv : FsPath × Node} (hkv : kv ∈ childNodes t a) :
    get t kv.1 = some kv.2 ∧ ∃ x, kv.1 = a ++ [x] := by
  obtain ⟨hm, hx⟩ := mem_childNodes.1 hkv
  exact ⟨alLookup_of_mem_nodup h.wf.nodup hm, hx⟩

theorem childNodes_names_nodup (h : Ctx env t) (a : FsPath) :
    ((childNodes t a).map (fun kv => baseName kv.1)).Nodup := by
  have hk : ((childNodes t a).map (·.1)).Nodup :=
    List.Nodup.sublist (List.Sublist.map _ List.filter_sublist) h.wf.nodup
  have : (childNodes t a).map (fun kv => baseName kv.1) = ((childNodes t a).map (·.1)).map baseName := by
    rw [List.map_map]; rfl
  rw [this]
  apply nodup_map_of_inj_on baseName _ hk
  intro x hx y hy hb
  rw [List.mem_map] at hx hy
  obtain ⟨kx, hkx, rfl⟩ := hx
  obtain ⟨ky, hky, rfl⟩ := hy
  obtain ⟨_, x1, h1⟩ := child_get h hkx
  obtain ⟨_, y1, h2⟩ := child_get h hky
  rw [h1, h2, baseName_snoc, baseName_snoc] at hb
  rw [h1, h2, hb]

/-- one level of the walk, given what the walks below the children deliver -/
theorem listKids_go (h : Ctx env t) (hrt : keysRT env t = true) (want : SEntry → Bool) (wk : Kind → Bool)
    (hw : ∀ k n e, EntryFor k n e → want e = wk n.kind) (M : Option Nat) (f d : Nat)
    {a : FsPath} {n : Node} {e : SEntry} (hg : get t a = some n) (he : EntryFor a n e)
    (hk : n.kind = .dir) (hbm : belowMax d M = true)
    (hch : ∀ kv ∈ childNodes t a, ∀ c, EntryFor kv.1 kv.2 c →
      WalkOk t wk M kv.1 (d + 1) (listKids env t want M f (d + 1) c)) :
    WalkOk t wk M a d (listKids env t want M (f + 1) d e) := by
  have hd : isDir t a = true := isDir_of_get hg hk
  obtain ⟨es, hes, hpaths, hents⟩ := childEntries_dir h hrt hd
  -- every sorted entry is the entry of a child node, with a good walk below it
  have hsorted : ∀ c ∈ sortByName es, ∃ kv ∈ childNodes t a, EntryFor kv.1 kv.2 c ∧
      WalkOk t wk M kv.1 (d + 1) (listKids env t want M f (d + 1) c) := by
    intro c hc
    rw [mem_sortByName] at hc
    obtain ⟨kv, hkv, hef⟩ := hents c hc
    exact ⟨kv, hkv, hef, hch kv hkv c hef⟩
  have hfold := foldl_listStep want (listKids env t want M f (d + 1)) (sortByName es) []
    (fun c hc => by obtain ⟨_, _, _, L, hL, _⟩ := hsorted c hc; exact ⟨L, hL⟩)
  refine ⟨(sortByName es).flatMap (block want (listKids env t want M f (d + 1))), ?_, ?_, ?_⟩
  · simp only [listKids, entry_real_dir he, hk, decide_true, hbm, Bool.and_self, if_true, he.path, hes]
    rw [hfold]; rfl
  · -- strictly increasing
    have hnames : (es.map nameOf).Nodup := by
      have : es.map nameOf = (childNodes t a).map (fun kv => baseName kv.1) := by
        have h1 : es.map nameOf = (es.map (·.path)).map baseName := by rw [List.map_map]; rfl
        rw [h1, hpaths, List.map_map]; rfl
      rw [this]; exact childNodes_names_nodup h a
    apply pairwise_flatMap (R := ltName) _ _ (sorted_sortByName es hnames)
    · intro c hc
      obtain ⟨kv, hkv, hef, L, hL, hLs, hLm⟩ := hsorted c hc
      unfold block
      rw [hL]; simp only [okOr]
      rw [List.pairwise_append]
      refine ⟨by split <;> simp, hLs, ?_⟩
      intro x hx y hy
      have hxp : x = c.path := by split at hx <;> simp_all
      obtain ⟨m, _, hp, _⟩ := (hLm y).1 hy
      obtain ⟨z, hz, rfl⟩ := (isProperPrefix_iff kv.1 y).1 hp
      rw [hxp, hef.path]; exact pathLt_append _ hz
    · intro c hc c' hc' hlt x hx y hy
      -- members of a block extend the child's key
      have hmem : ∀ c0 ∈ sortByName es, ∀ x0 ∈ block want (listKids env t want M f (d + 1)) c0,
          ∃ z, x0 = a ++ (nameOf c0 :: z) := by
        intro c0 hc0 x0 hx0
        obtain ⟨kv, hkv, hef, L, hL, _, hLm⟩ := hsorted c0 hc0
        obtain ⟨_, w, hw'⟩ := child_get h hkv
        have hn0 : nameOf c0 = w := by unfold nameOf; rw [hef.path, hw', baseName_snoc]
        unfold block at hx0
        rw [hL] at hx0; simp only [okOr, List.mem_append] at hx0
        rcases hx0 with h1 | h1
        · have : x0 = c0.path := by split at h1 <;> simp_all
          exact ⟨[], by rw [this, hef.path, hw', hn0]⟩
        · obtain ⟨m, _, hp, _⟩ := (hLm x0).1 h1
          obtain ⟨z, _, hz⟩ := (isProperPrefix_iff kv.1 x0).1 hp
          exact ⟨z, by rw [hz, hw', hn0]; simp⟩
      obtain ⟨z, rfl⟩ := hmem c hc x hx
      obtain ⟨z', rfl⟩ := hmem c' hc' y hy
      rw [pathLt_append_left, pathLt_cons]
      unfold ltName at hlt
      rw [if_pos hlt]
  · -- members
    intro k
    rw [List.mem_flatMap]
    constructor
    · rintro ⟨c, hc, hkb⟩
      obtain ⟨kv, hkv, hef, L, hL, _, hLm⟩ := hsorted c hc
      obtain ⟨hgc, w, hw'⟩ := child_get h hkv
      unfold block at hkb
      rw [hL] at hkb; simp only [okOr, List.mem_append] at hkb
      rcases hkb with h1 | h1
      · have hwant : want c = true := by
          by_cases hwc : want c = true
          · exact hwc
          · simp [hwc] at h1
        have hkc : k = c.path := by simp [hwant] at h1; exact h1
        refine ⟨kv.2, by rw [hkc, hef.path]; exact hgc, by rw [hkc, hef.path, hw']; exact isProperPrefix_append a (by simp),
          ?_, by rw [← hw _ _ _ hef]; exact hwant⟩
        rw [hkc, hef.path, hw']
        have := (belowMax_iff M d).1 hbm
        simpa using this
      · obtain ⟨m, hm, hp, hin, hwk⟩ := (hLm k).1 h1
        obtain ⟨z, hz, hkz⟩ := (isProperPrefix_iff kv.1 k).1 hp
        refine ⟨m, hm, ?_, ?_, hwk⟩
        · rw [hkz, hw', List.append_assoc]; exact isProperPrefix_append a (by simp)
        · rw [hkz, hw'] at hin ⊢
          cases M with
          | none => trivial
          | some mx =>
            simp only [inDepth, List.length_append, List.length_cons, List.length_nil] at hin ⊢
            omega
    · rintro ⟨m, hm, hp, hin, hwk⟩
      obtain ⟨x, hx, hkx⟩ := (isProperPrefix_iff a k).1 hp
      match x, hx, hkx with
      | w :: z, _, hkx =>
        -- the child of `a` on the way to `k`
        have hck : ∃ nc, get t (a ++ [w]) = some nc := by
          by_cases hz : z = []
          · subst hz; exact ⟨m, by rw [← hkx]; exact hm⟩
          · have hpp : isProperPrefix (a ++ [w]) k = true := by
              rw [hkx, show a ++ w :: z = (a ++ [w]) ++ z by simp]
              exact isProperPrefix_append _ hz
            obtain ⟨nc, hnc, _⟩ := isDir_iff.1 (ancestor_isDir h.wf hm hpp)
            exact ⟨nc, hnc⟩
        obtain ⟨nc, hnc⟩ := hck
        have hcn : (a ++ [w], nc) ∈ childNodes t a := mem_childNodes.2 ⟨mem_of_alLookup hnc, w, rfl⟩
        have hin_es : a ++ [w] ∈ es.map (·.path) := by
          rw [hpaths]; exact List.mem_map.2 ⟨_, hcn, rfl⟩
        rw [List.mem_map] at hin_es
        obtain ⟨c, hces, hcp⟩ := hin_es
        have hcs : c ∈ sortByName es := (mem_sortByName c es).2 hces
        obtain ⟨kv, hkv, hef, L, hL, _, hLm⟩ := hsorted c hcs
        obtain ⟨hgc, _⟩ := child_get h hkv
        have hkv1 : kv.1 = a ++ [w] := by rw [← hef.path, hcp]
        have hkv2 : kv.2 = nc := by rw [hkv1, hnc] at hgc; cases hgc; rfl
        refine ⟨c, hcs, ?_⟩
        unfold block
        rw [hL]; simp only [okOr, List.mem_append]
        by_cases hz : z = []
        · left
          subst hz
          have hmn : m = nc := by rw [hkx, hnc] at hm; cases hm; rfl
          have hwant : want c = true := by rw [hw _ _ _ hef, hkv2, ← hmn]; exact hwk
          simp only [hwant, if_true, List.mem_singleton]
          rw [hkx, hcp]
        · right
          apply (hLm k).2
          refine ⟨m, hm, ?_, ?_, hwk⟩
          · rw [hkv1, hkx, show a ++ w :: z = (a ++ [w]) ++ z by simp]
            exact isProperPrefix_append _ hz
          · rw [hkv1]; rw [hkx] at hin ⊢
            cases M with
            | none => trivial
            | some mx =>
              simp only [inDepth, List.length_append, List.length_cons, List.length_nil] at hin ⊢
              omega

/-- the sorted pre-order walk below an existing node: strictly increasing, exactly the descendants in
    the depth window that the filter accepts -/
theorem listKids_spec (h : Ctx env t) (hrt : keysRT env t = true) (want : SEntry → Bool) (wk : Kind → Bool)
    (hw : ∀ k n e, EntryFor k n e → want e = wk n.kind) (M : Option Nat) :
    ∀ (f d : Nat) (a : FsPath) (n : Node) (e : SEntry), get t a = some n → EntryFor a n e →
      (∀ k m, get t k = some m → isProperPrefix a k = true → k.length ≤ a.length + f) →
      WalkOk t wk M a d (listKids env t want M (f + 1) d e) := by
  intro f
  induction f with
  | zero =>
    intro d a n e hg he hfuel
    by_cases hgo : n.kind = .dir ∧ belowMax d M = true
    · apply listKids_go h hrt want wk hw M 0 d hg he hgo.1 hgo.2
      intro kv hkv c _
      exfalso
      obtain ⟨hgc, x, hx⟩ := child_get h hkv
      have := hfuel kv.1 kv.2 hgc (by rw [hx]; exact isProperPrefix_append a (by simp))
      rw [hx] at this; simp at this; omega
    · exact listKids_stop h want wk M 0 d hg he hgo
  | succ f ih =>
    intro d a n e hg he hfuel
    by_cases hgo : n.kind = .dir ∧ belowMax d M = true
    · apply listKids_go h hrt want wk hw M (f + 1) d hg he hgo.1 hgo.2
      intro kv hkv c hef
      obtain ⟨hgc, x, hx⟩ := child_get h hkv
      apply ih (d + 1) kv.1 kv.2 c hgc hef
      intro k m hm hp
      obtain ⟨z, hz, hkz⟩ := (isProperPrefix_iff kv.1 k).1 hp
      have := hfuel k m hm (by rw [hkz, hx, List.append_assoc]; exact isProperPrefix_append a (by simp))
      rw [hx]; simp only [List.length_append, List.length_cons, List.length_nil]; omega
    · exact listKids_stop h want wk M (f + 1) d hg he hgo

theorem foldl_max_ge (l : List (FsPath × Node)) : ∀ init : Nat,
    init ≤ l.foldl (fun m kv => max m kv.1.length) init ∧
    ∀ kv ∈ l, kv.1.length ≤ l.foldl (fun m kv => max m kv.1.length) init := by
  induction l with
  | nil => intro init; simp
  | cons x xs ih =>
    intro init
    simp only [List.foldl_cons]
    obtain ⟨h1, h2⟩ := ih (max init x.1.length)
    refine ⟨by omega, ?_⟩
    intro kv hkv
    rw [List.mem_cons] at hkv
    rcases hkv with h0 | h0
    · subst h0; omega
    · exact h2 kv h0

theorem walkFuel_ok {t : T} {k : FsPath} {m : Node} (hm : get t k = some m) :
    ∃ f, walkFuel t = f + 1 ∧ k.length ≤ f := by
  refine ⟨t.nodes.foldl (fun m kv => max m kv.1.length) 0 + 1, rfl, ?_⟩
  have := (foldl_max_ge t.nodes 0).2 _ (mem_of_alLookup hm)
  simp only at this; omega

/-! ### the six listing operations -/

/-- the depth window of the two families of listings -/
def listDepth (all : Bool) : Option Nat := if all then none else some 1

/-- membership in the reference's selection -/
theorem mem_spec_keys (h : Ctx env t) (a : FsPath) (all : Bool) (wantN : Node → Bool) (k : FsPath) :
    k ∈ (t.nodes.filter (fun kv => isProperPrefix a kv.1 && (all || kv.1.length = a.length + 1) && wantN kv.2)).map (·.1) ↔
      ∃ m, get t k = some m ∧ isProperPrefix a k = true ∧ (all = true ∨ k.length = a.length + 1) ∧ wantN m = true := by
  rw [List.mem_map]
  constructor
  · rintro ⟨kv, hkv, rfl⟩
    rw [List.mem_filter] at hkv
    simp only [Bool.and_eq_true, Bool.or_eq_true, decide_eq_true_eq] at hkv
    exact ⟨kv.2, alLookup_of_mem_nodup h.wf.nodup hkv.1, hkv.2.1.1, hkv.2.1.2, hkv.2.2⟩
  · rintro ⟨m, hm, hp, hal, hwn⟩
    refine ⟨(k, m), ?_, rfl⟩
    rw [List.mem_filter]
    simp only [Bool.and_eq_true, Bool.or_eq_true, decide_eq_true_eq]
    exact ⟨mem_of_alLookup hm, ⟨hp, hal⟩, hwn⟩

theorem inDepth_listDepth (all : Bool) {a k : FsPath} (hp : isProperPrefix a k = true) :
    inDepth (listDepth all) 0 (k.length - a.length) ↔ (all = true ∨ k.length = a.length + 1) := by
  obtain ⟨x, hx, rfl⟩ := (isProperPrefix_iff a k).1 hp
  have hl : 0 < x.length := List.length_pos_iff.mpr hx
  cases all with
  | true => simp [listDepth, inDepth]
  | false => simp [listDepth, inDepth]; omega

/-- the walk from an existing directory returns the reference's listing -/
theorem walk_eq_listing (h : Ctx env t) (hrt : keysRT env t = true) (want : SEntry → Bool) (wk : Kind → Bool)
    (hw : ∀ k n e, EntryFor k n e → want e = wk n.kind) (all : Bool) (wantN : Node → Bool)
    {a : FsPath} {n : Node} {e : SEntry} (hg : get t a = some n) (he : EntryFor a n e)
    (hagree : ∀ k m, get t k = some m → isProperPrefix a k = true → (all = true ∨ k.length = a.length + 1) →
      wk m.kind = wantN m) :
    listKids env t want (listDepth all) (walkFuel t) 0 e =
      .ok (sortP ((t.nodes.filter (fun kv => isProperPrefix a kv.1 && (all || kv.1.length = a.length + 1) && wantN kv.2)).map (·.1))) := by
  obtain ⟨f, hf, hmax⟩ := walkFuel_ok hg
  rw [hf]
  have hfuel : ∀ k m, get t k = some m → isProperPrefix a k = true → k.length ≤ a.length + f := by
    intro k m hm _
    obtain ⟨f', hf', hmax'⟩ := walkFuel_ok hm
    rw [hf] at hf'; have : f = f' := by omega
    omega
  obtain ⟨L, hL, hsorted, hmem⟩ := listKids_spec h hrt want wk hw (listDepth all) f 0 a n e hg he hfuel
  rw [hL]
  congr 1
  apply sorted_unique _ _ hsorted
  · apply sorted_sortP
    exact List.Nodup.sublist (List.Sublist.map _ List.filter_sublist) h.wf.nodup
  · intro k
    rw [hmem, mem_sortP, mem_spec_keys h]
    constructor
    · rintro ⟨m, hm, hp, hin, hwk⟩
      have hal := (inDepth_listDepth all hp).1 hin
      exact ⟨m, hm, hp, hal, by rw [← hagree k m hm hp hal]; exact hwk⟩
    · rintro ⟨m, hm, hp, hal, hwn⟩
      exact ⟨m, hm, hp, (inDepth_listDepth all hp).2 hal, by rw [hagree k m hm hp hal]; exact hwn⟩

theorem entryFor_nonlink {a : FsPath} {n : Node} (hk : isLinkKind n.kind = false) :
    EntryFor a n ⟨a, [], n.kind = .dir, n.kind = .file, false, n.mode⟩ := by
  refine ⟨rfl, hk.symm, ?_, ?_⟩ <;> cases hkk : n.kind <;> simp_all [isLinkKind]

/-- `paths` / `dirs` / `files` -/
theorem sim_listing1 (h : Ctx env t) (hrt : keysRT env t = true) (p : Str) (want : SEntry → Bool)
    (wk : Kind → Bool) (hw : ∀ k n e, EntryFor k n e → want e = wk n.kind) (wantN : Node → Bool)
    (hagree : ∀ a, resolve env t p = .ok a → ∀ k m, get t k = some m → isProperPrefix a k = true →
      (false = true ∨ k.length = a.length + 1) → wk m.kind = wantN m) :
    Sim (Stdfs.mapVal .paths (listing1 env p want) t) (listQ env t p false wantN) := by
  unfold listing1 listQ isDirS Stdfs.mapVal
  simp only [absK_eq h.cwd]
  cases hr : resolve env t p with
  | ok a =>
    simp only [isDirK_eq h.wf]
    unfold TreeFs.listing
    by_cases hd : isDir t a = true
    · obtain ⟨n, hg, hk⟩ := isDir_iff.1 hd
      have hnl : isLinkKind n.kind = false := by simp [hk, isLinkKind]
      rw [entryFrom_nonlink h hr hg hnl]
      have hwalk := walk_eq_listing h hrt want wk hw false wantN hg (entryFor_nonlink hnl) (hagree a hr)
      have hdep : listDepth false = some 1 := rfl
      rw [hdep] at hwalk
      simp only [hd, Bool.not_true, Bool.false_eq_true, if_false, hwalk, liftR]
      exact sim_same (by simp)
    · have hd' : isDir t a = false := by simpa using hd
      simp only [hd', Bool.not_false, if_true, liftR]
      exact sim_err _ _ (TEquiv.refl _)
  | err e => exact sim_err _ _ (TEquiv.refl _)
  | panic => exact sim_unspec _ _
  | hang => exact sim_unspec _ _

/-- `all_paths` / `all_dirs` / `all_files` -/
theorem sim_listingAll (h : Ctx env t) (hrt : keysRT env t = true) (p : Str) (want : SEntry → Bool)
    (wk : Kind → Bool) (hw : ∀ k n e, EntryFor k n e → want e = wk n.kind) (wantN : Node → Bool)
    (hagree : ∀ a, resolve env t p = .ok a → ∀ k m, get t k = some m → isProperPrefix a k = true →
      (true = true ∨ k.length = a.length + 1) → wk m.kind = wantN m) :
    Sim (Stdfs.mapVal .paths (listingAll env p want) t) (listQ env t p true wantN) := by
  unfold listingAll listQ Stdfs.mapVal
  dsimp only
  cases hr : resolve env t p with
  | ok a =>
    unfold TreeFs.listing
    cases hg : get t a with
    | none =>
      have hd' : isDir t a = false := by unfold isDir; rw [hg]
      rw [entryFrom_missing h hr hg]
      simp only [hd', Bool.not_false, if_true, liftR]
      exact sim_err _ _ (TEquiv.refl _)
    | some n =>
      cases hk : n.kind with
      | dir =>
        have hd : isDir t a = true := isDir_of_get hg hk
        have hnl : isLinkKind n.kind = false := by simp [hk, isLinkKind]
        obtain ⟨e, he, hef⟩ := entryFrom_key h hrt hg
        have hwalk := walk_eq_listing h hrt want wk hw true wantN hg hef (hagree a hr)
        have hdep : listDepth true = none := rfl
        rw [hdep] at hwalk
        rw [entryFrom_nonlink h hr hg hnl]
        simp only [hk, decide_true, Bool.not_true, Bool.or_self, Bool.false_eq_true, if_false, he, hwalk, hd, liftR]
        exact sim_same (by simp)
      | file =>
        have hd' : isDir t a = false := isDir_false_of_kind hg (by simp [hk])
        rw [entryFrom_nonlink h hr hg (by simp [hk, isLinkKind])]
        simp only [hk, reduceCtorEq, decide_false, Bool.not_false, Bool.or_false, Bool.true_or, if_true, hd', liftR]
        exact sim_err _ _ (TEquiv.refl _)
      | link b =>
        have hd' : isDir t a = false := isDir_false_of_kind hg (by simp [hk])
        obtain ⟨alt, m, tg, _, _, _, he⟩ := entryFrom_link h hr hg hk
        rw [he]
        simp only [Bool.or_true, if_true, Bool.not_false, hd', liftR]
        exact sim_err _ _ (TEquiv.refl _)
  | err e =>
    have : entryFrom env t p = .err e := by unfold entryFrom; rw [absK_eq h.cwd, hr]
    rw [this]; exact sim_err _ _ (TEquiv.refl _)
  | panic => exact sim_unspec _ _
  | hang => exact sim_unspec _ _

theorem listOk_facts (ho : listOkB env t = true) : keysRT env t = true := ho

/-- node kinds the entry filters of `dirs` / `files` select: `is_dir()` / `is_file()` of the entry AND not a
    link (the collecting loop skips links), i.e. exactly the node kind the reference selects -/
def wkDirs (k : Kind) : Bool := decide (k = .dir)
def wkFiles (k : Kind) : Bool := decide (k = .file)

theorem hw_all : ∀ (k : FsPath) (n : Node) (e : SEntry), EntryFor k n e → wantAll e = (fun _ => true) n.kind :=
  fun _ _ _ _ => rfl
theorem hw_dirs : ∀ (k : FsPath) (n : Node) (e : SEntry), EntryFor k n e → wantDirs e = wkDirs n.kind := by
  intro _ n e he
  unfold wantDirs wkDirs
  rw [he.dir, he.link]
  cases hk : n.kind <;> simp [isLinkKind]
theorem hw_files : ∀ (k : FsPath) (n : Node) (e : SEntry), EntryFor k n e → wantFiles e = wkFiles n.kind := by
  intro _ n e he
  unfold wantFiles wkFiles
  rw [he.file, he.link]
  cases hk : n.kind <;> simp [isLinkKind]

end Rivia.Lemmas.StdfsL
