/-
  Rivia.Lemmas.Protocol — `trimProtocol` drops exactly one leading `<scheme>://`.
-/
import Rivia.Model.Path
import Rivia.Spec.PathLaws

namespace Rivia.Lemmas
open Rivia Rivia.Str Rivia.Spec

/-- the separator `//` searched for by `trimProtocol` -/
abbrev SS : Str := ['/', '/']

/-! ### lower-casing never creates or destroys a `/` -/

theorem ofNat_ne_slash : ∀ k : Fin 26, Char.ofNat (65 + k.val + 32) ≠ '/' := by decide

theorem lowerChar_eq_slash {c : Char} : lowerChar c = '/' ↔ c = '/' := by
  unfold lowerChar
  split
  · next h =>
    have h1 : 65 ≤ c.toNat := h.1
    have h2 : c.toNat ≤ 90 := h.2
    constructor
    · intro e
      have := ofNat_ne_slash ⟨c.toNat - 65, by omega⟩
      simp only at this
      rw [show 65 + (c.toNat - 65) + 32 = c.toNat + 32 by omega] at this
      exact absurd e this
    · rintro rfl
      revert h1; decide
  · exact Iff.rfl

theorem isPrefixOf_SS_cons_cons (c1 c2 : Char) (r : Str) :
    SS.isPrefixOf (c1 :: c2 :: r) = (decide (c1 = '/') && decide (c2 = '/')) := by
  have e : ∀ c : Char, ('/' == c) = decide (c = '/') := by
    intro c
    by_cases h : c = '/'
    · subst h; rfl
    · have h' : ¬ '/' = c := fun e => h e.symm
      simp [h, h']
  simp only [List.isPrefixOf, e, Bool.and_true]

theorem isPrefixOf_SS_single (c : Char) : SS.isPrefixOf [c] = false := by
  simp [List.isPrefixOf]

theorem isPrefixOf_SS_nil : SS.isPrefixOf ([] : Str) = false := rfl

theorem isPrefixOf_SS_lower (s : Str) : SS.isPrefixOf (lower s) = SS.isPrefixOf s := by
  match s with
  | [] => rfl
  | [c] => simp [lower, isPrefixOf_SS_single]
  | c1 :: c2 :: r =>
    simp only [lower, List.map_cons, isPrefixOf_SS_cons_cons]
    by_cases h1 : c1 = '/' <;> by_cases h2 : c2 = '/' <;>
      simp [lowerChar_eq_slash, h1, h2]

theorem length_lower (s : Str) : (lower s).length = s.length := by simp [lower]

/-! ### findIdx for `//` -/

theorem findIdx_nil_SS : findIdx [] SS = none := rfl

theorem findIdx_cons_SS (c : Char) (cs : Str) :
    findIdx (c :: cs) SS =
      if SS.isPrefixOf (c :: cs) then some 0 else (findIdx cs SS).map (· + 1) := rfl

theorem findIdx_lower (s : Str) : findIdx (lower s) SS = findIdx s SS := by
  induction s with
  | nil => rfl
  | cons c cs ih =>
    have := isPrefixOf_SS_lower (c :: cs)
    simp only [lower, List.map_cons] at this ih ⊢
    rw [findIdx_cons_SS, findIdx_cons_SS, this, ih]

theorem findIdx_append {a : Str} {i : Nat} (h : findIdx a SS = some i) (b : Str) :
    findIdx (a ++ b) SS = some i := by
  induction a generalizing i with
  | nil => cases h
  | cons c cs ih =>
    cases cs with
    | nil =>
      rw [findIdx_cons_SS, isPrefixOf_SS_single] at h
      simp [findIdx_nil_SS] at h
    | cons c2 r =>
      rw [findIdx_cons_SS, isPrefixOf_SS_cons_cons] at h
      rw [List.cons_append, List.cons_append, findIdx_cons_SS, isPrefixOf_SS_cons_cons]
      split
      · next hp => rw [if_pos hp] at h; exact h
      · next hp =>
        rw [if_neg hp] at h
        cases hj : findIdx (c2 :: r) SS with
        | none => rw [hj] at h; cases h
        | some j =>
          rw [hj] at h
          have := ih hj
          rw [List.cons_append] at this
          rw [this]; exact h

theorem findIdx_noslash_prefix {q : Str} (hq : '/' ∉ q) (r : Str) :
    findIdx (q ++ '/' :: '/' :: r) SS = some q.length := by
  induction q with
  | nil => simp [findIdx_cons_SS]
  | cons c q ih =>
    simp only [List.mem_cons, not_or] at hq
    have hc : c ≠ '/' := fun e => hq.1 e.symm
    have ih' := ih hq.2
    rw [List.cons_append, findIdx_cons_SS]
    have hp : SS.isPrefixOf (c :: (q ++ '/' :: '/' :: r)) = false := by
      cases q with
      | nil => simp [isPrefixOf_SS_cons_cons, hc]
      | cons c2 q' => simp [isPrefixOf_SS_cons_cons, hc]
    rw [hp, ih']
    simp

theorem findIdx_take {s : Str} {i : Nat} (h : findIdx s SS = some i) :
    findIdx (s.take (i + 2)) SS = some i ∧ (s.take (i + 2)).length = i + 2 := by
  induction s generalizing i with
  | nil => cases h
  | cons c cs ih =>
    cases cs with
    | nil =>
      rw [findIdx_cons_SS, isPrefixOf_SS_single] at h
      simp [findIdx_nil_SS] at h
    | cons c2 r =>
      rw [findIdx_cons_SS, isPrefixOf_SS_cons_cons] at h
      split at h
      · next hp =>
        simp only [Option.some.injEq] at h
        subst h
        simp only [Nat.zero_add, List.take_succ_cons, List.take_zero, List.length_cons,
          List.length_nil, and_true]
        rw [findIdx_cons_SS, isPrefixOf_SS_cons_cons, if_pos hp]
      · next hp =>
        cases hj : findIdx (c2 :: r) SS with
        | none => rw [hj] at h; cases h
        | some j =>
          rw [hj] at h
          simp only [Option.map_some, Option.some.injEq] at h
          subst h
          obtain ⟨h1, h2⟩ := ih hj
          rw [show j + 1 + 2 = (j + 2) + 1 by omega, List.take_succ_cons]
          refine ⟨?_, by simp only [List.length_cons, h2]⟩
          have h3 : List.take (j + 2) (c2 :: r) = c2 :: List.take (j + 1) r := by
            rw [List.take_succ_cons]
          rw [h3] at h1 ⊢
          rw [findIdx_cons_SS, isPrefixOf_SS_cons_cons, if_neg hp, h1]
          rfl

/-! ### trimStartMatches -/

theorem tsmAux_nil {pat : Str} (hp : pat ≠ []) (k : Nat) : trimStartMatchesAux pat k [] = [] := by
  cases k with
  | zero => rfl
  | succ k =>
    cases pat with
    | nil => exact absurd rfl hp
    | cons a b => simp [trimStartMatchesAux, List.isPrefixOf]

theorem tsm_nil (pat : Str) : trimStartMatches [] pat = [] := by
  unfold trimStartMatches
  split
  · rfl
  · rfl

theorem tsm_not_prefix {pat l : Str} (h : pat.isPrefixOf l = false) : trimStartMatches l pat = l := by
  unfold trimStartMatches
  split
  · rfl
  · cases l.length with
    | zero => rfl
    | succ k => simp [trimStartMatchesAux, h]

theorem tsm_self {pat : Str} (hp : pat ≠ []) : trimStartMatches pat pat = [] := by
  unfold trimStartMatches
  rw [if_neg (by simpa using hp)]
  cases hk : pat.length with
  | zero => exact absurd (List.eq_nil_of_length_eq_zero hk) hp
  | succ k =>
    have hpp : pat.isPrefixOf pat = true := List.isPrefixOf_iff_prefix.2 (List.prefix_refl _)
    simp only [trimStartMatchesAux, hpp, if_true]
    rw [List.drop_length]
    exact tsmAux_nil hp k

/-- `l` ends with its first `//`. -/
def EndsAtFirstSS (l : Str) : Prop := findIdx l SS = some (l.length - 2) ∧ 2 ≤ l.length

theorem eq_of_prefix_of_endsAtFirstSS {l q : Str} (hl : EndsAtFirstSS l) (hq : '/' ∉ q)
    (hp : (q ++ SS).isPrefixOf l = true) : l = q ++ SS := by
  obtain ⟨r, hr⟩ := List.isPrefixOf_iff_prefix.1 hp
  have h1 : findIdx l SS = some q.length := by
    rw [← hr]
    simpa using findIdx_noslash_prefix hq r
  rw [hl.1] at h1
  simp only [Option.some.injEq] at h1
  have h2 : l.length = q.length + 2 + r.length := by
    rw [← hr]; simp only [List.length_append, List.length_cons, List.length_nil]
  have : r = [] := List.eq_nil_of_length_eq_zero (by have := hl.2; omega)
  rw [← hr, this]; simp

theorem tsm_of_ne {l q : Str} (hl : EndsAtFirstSS l) (hq : '/' ∉ q) (hne : l ≠ q ++ SS) :
    trimStartMatches l (q ++ SS) = l := by
  apply tsm_not_prefix
  cases h : (q ++ SS).isPrefixOf l with
  | false => rfl
  | true => exact absurd (eq_of_prefix_of_endsAtFirstSS hl hq h) hne

/-- the four `trim_start_matches` calls of `trim_protocol` -/
def stripSchemes (l : Str) : Str :=
  trimStartMatches (trimStartMatches (trimStartMatches (trimStartMatches l (proto "file://"))
    (proto "ftp://")) (proto "http://")) (proto "https://")

theorem proto_file : proto "file://" = "file:".toList ++ SS := by decide
theorem proto_ftp : proto "ftp://" = "ftp:".toList ++ SS := by decide
theorem proto_http : proto "http://" = "http:".toList ++ SS := by decide
theorem proto_https : proto "https://" = "https:".toList ++ SS := by decide

theorem stripSchemes_eq_nil {l : Str} (hl : EndsAtFirstSS l) (h : stripSchemes l = []) :
    ∃ sc ∈ schemes, l = sc ++ "://".toList := by
  by_cases h1 : l = "file:".toList ++ SS
  · exact ⟨"file".toList, by simp [schemes], by rw [h1]; decide⟩
  by_cases h2 : l = "ftp:".toList ++ SS
  · exact ⟨"ftp".toList, by simp [schemes], by rw [h2]; decide⟩
  by_cases h3 : l = "http:".toList ++ SS
  · exact ⟨"http".toList, by simp [schemes], by rw [h3]; decide⟩
  by_cases h4 : l = "https:".toList ++ SS
  · exact ⟨"https".toList, by simp [schemes], by rw [h4]; decide⟩
  exfalso
  unfold stripSchemes at h
  rw [proto_file, tsm_of_ne hl (by decide) h1, proto_ftp, tsm_of_ne hl (by decide) h2,
    proto_http, tsm_of_ne hl (by decide) h3, proto_https, tsm_of_ne hl (by decide) h4] at h
  have := hl.2
  rw [h] at this
  simp at this

theorem stripSchemes_scheme {sc : Str} (h : sc ∈ schemes) :
    stripSchemes (sc ++ "://".toList) = [] := by
  simp only [schemes, List.mem_cons, List.not_mem_nil, or_false] at h
  rcases h with rfl | rfl | rfl | rfl <;> decide

theorem findIdx_scheme {sc : Str} (h : sc ∈ schemes) :
    findIdx (sc ++ "://".toList) SS = some (sc.length + 1) := by
  simp only [schemes, List.mem_cons, List.not_mem_nil, or_false] at h
  rcases h with rfl | rfl | rfl | rfl <;> decide

/-- a matching scheme prefix pins down the first `//` -/
theorem findIdx_of_scheme_prefix {p sc : Str} (h : sc ∈ schemes)
    (hm : lower (p.take (sc.length + 3)) = sc ++ "://".toList) :
    findIdx p SS = some (sc.length + 1) := by
  have h1 : findIdx (p.take (sc.length + 3)) SS = some (sc.length + 1) := by
    rw [← findIdx_lower, hm]; exact findIdx_scheme h
  have := findIdx_append h1 (p.drop (sc.length + 3))
  rwa [List.take_append_drop] at this

theorem trimProtocol_unfold (s : Str) :
    trimProtocol s = match findIdx s SS with
      | none => s
      | some i =>
        if stripSchemes (lower (s.take (i + 2))) ≠ [] then s.take (i + 2) ++ s.drop (i + 2)
        else s.drop (i + 2) := rfl

theorem trimProtocol_eq_spec (p : Str) : trimProtocol p = trimProtocolSpec p := by
  rw [trimProtocol_unfold]
  unfold trimProtocolSpec
  cases hf : findIdx p SS with
  | none =>
    cases hs : schemes.find? (fun sc => lower (p.take (sc.length + 3)) == sc ++ "://".toList) with
    | none => rfl
    | some sc =>
      have hmem := List.mem_of_find?_eq_some hs
      have hm := List.find?_some hs
      have := findIdx_of_scheme_prefix hmem (by simpa using hm)
      rw [hf] at this; cases this
  | some i =>
    obtain ⟨ht1, ht2⟩ := findIdx_take hf
    have hN : EndsAtFirstSS (lower (p.take (i + 2))) := by
      refine ⟨?_, ?_⟩
      · rw [findIdx_lower, ht1, length_lower, ht2]; rfl
      · rw [length_lower, ht2]; omega
    cases hs : schemes.find? (fun sc => lower (p.take (sc.length + 3)) == sc ++ "://".toList) with
    | none =>
      have hne : stripSchemes (lower (p.take (i + 2))) ≠ [] := by
        intro h0
        obtain ⟨sc, hmem, hl⟩ := stripSchemes_eq_nil hN h0
        have hlen : i + 2 = sc.length + 3 := by
          have := congrArg List.length hl
          rw [length_lower, ht2] at this
          simp at this
          omega
        have := List.find?_eq_none.1 hs sc hmem
        rw [← hlen, hl] at this
        simp at this
      simp only [hne, ne_eq, not_false_eq_true, if_true, List.take_append_drop]
    | some sc =>
      have hmem := List.mem_of_find?_eq_some hs
      have hm : lower (p.take (sc.length + 3)) = sc ++ "://".toList := by
        simpa using List.find?_some hs
      have hi := findIdx_of_scheme_prefix hmem hm
      rw [hf] at hi
      simp only [Option.some.injEq] at hi
      subst hi
      have : stripSchemes (lower (p.take (sc.length + 1 + 2))) = [] := by
        rw [show sc.length + 1 + 2 = sc.length + 3 by omega, hm]
        exact stripSchemes_scheme hmem
      simp only [this, ne_eq, not_true_eq_false, if_false]

end Rivia.Lemmas
