/-
  Rivia.Lemmas.Total — totality lemmas for C12: no `.panic` / `.hang` / `none`-as-panic branch of
  the path helpers is reachable; fuel of `expandSeg` / `absLoop` suffices; the `M` computations of
  the simple Memfs operations are total on every state.
-/
import Rivia.Model.MemfsOps
import Rivia.Lemmas.Clean
import Rivia.Lemmas.PathLaws

namespace Rivia.Lemmas
open Rivia Rivia.Str

/-- an outcome that is a return (`Ok`/`Err`), not a panic and not a hang -/
def Fine {α} (o : Outcome α) : Prop := o ≠ .panic ∧ o ≠ .hang

theorem fine_ok {α} (a : α) : Fine (Outcome.ok a) := ⟨by simp, by simp⟩
theorem fine_err {α} (k : ErrKind) : Fine (Outcome.err k : Outcome α) := ⟨by simp, by simp⟩

theorem fine_cases {α} {o : Outcome α} (h : Fine o) : (∃ a, o = .ok a) ∨ ∃ k, o = .err k := by
  cases o with
  | ok a => exact .inl ⟨a, rfl⟩
  | err k => exact .inr ⟨k, rfl⟩
  | panic => exact absurd rfl h.1
  | hang => exact absurd rfl h.2

/-! ### clean / trim -/

theorem cleanO_ne_none (s : Str) : cleanO s ≠ none := by
  rw [cleanO_eq_goClean]; simp

theorem trimPrefixO_ne_none (p s : Str) : trimPrefixO p s ≠ none := by
  rw [trimPrefixO_eq_spec]; simp

theorem trimSuffixO_ne_none (p s : Str) : trimSuffixO p s ≠ none := by
  rw [trimSuffixO_eq_spec]; simp

theorem trimExt_ok (s : Str) : ∃ t, trimExt s = .ok t := by
  unfold trimExt
  cases extension s with
  | none => exact ⟨s, rfl⟩
  | some e =>
    simp only
    rw [trimSuffixO_eq_spec]
    exact ⟨_, rfl⟩

theorem trimExt_fine (s : Str) : Fine (trimExt s) := by
  obtain ⟨t, h⟩ := trimExt_ok s
  rw [h]; exact fine_ok t

theorem base_fine (s : Str) : Fine (base s) := by
  unfold base
  cases (components s).getLast? with
  | none => exact fine_err _
  | some c => exact fine_ok _

theorem name_fine (s : Str) : Fine (name s) := by
  unfold name
  obtain ⟨t, h⟩ := trimExt_ok s
  rw [h]
  exact base_fine t

theorem dir_fine (s : Str) : Fine (dir s) := by
  unfold dir
  cases parentStr s with
  | none => exact fine_err _
  | some c => exact fine_ok _

/-! ### expand -/

theorem homeDir_fine (env : Env) : Fine (homeDir env) := by
  unfold homeDir
  cases env (proto "HOME") with
  | none => exact fine_err _
  | some c => exact fine_ok _

theorem expandSeg_fine (env : Env) (f : Nat) (cs acc : Str) : Fine (expandSeg env f cs acc) := by
  induction f generalizing cs acc with
  | zero => unfold expandSeg; exact fine_ok _
  | succ f ih =>
    cases cs with
    | nil => unfold expandSeg; exact fine_ok _
    | cons c cs =>
      unfold expandSeg
      simp only
      repeat' split
      all_goals first | exact fine_ok _ | exact fine_err _ | exact ih _ _

theorem expandComps_fine (env : Env) (cs : List Comp) (buf : Str) : Fine (expandComps env cs buf) := by
  induction cs generalizing buf with
  | nil => unfold expandComps; exact fine_ok _
  | cons c cs ih =>
    cases c with
    | normal y =>
      unfold expandComps
      rcases fine_cases (expandSeg_fine env (y.length + 1) y []) with ⟨a, h⟩ | ⟨k, h⟩
      · rw [h]; exact ih _
      · rw [h]; exact fine_err _
    | root => unfold expandComps; exact ih _
    | cur => unfold expandComps; exact ih _
    | parent => unfold expandComps; exact ih _

theorem dropBytes_tilde_slash (r : Str) : dropBytes ('~' :: '/' :: r) 2 = some r := by
  have h1 : ('~' : Char).utf8Size = 1 := by decide
  have h2 : ('/' : Char).utf8Size = 1 := by decide
  simp [dropBytes, h1, h2]

theorem hasPrefix_tilde_slash {s : Str} (h : hasPrefix s ['~', '/'] = true) :
    ∃ r, s = '~' :: '/' :: r := by
  obtain ⟨b, hb⟩ := (hasPrefix_iff s ['~', '/']).1 h
  exact ⟨b, by simpa using hb⟩

/-- `expand` never reaches its `dropBytes` panic branch and has no hang -/
theorem expand_fine (env : Env) (s : Str) : Fine (expand env s) := by
  unfold expand
  have hstage : ∀ o : Outcome Str, Fine o →
      Fine (match o with
        | .ok p => if p.any (· == '$') then expandComps env (components p) [] else .ok p
        | o => o) := by
    intro o ho
    rcases fine_cases ho with ⟨a, h⟩ | ⟨k, h⟩
    · subst h
      simp only
      split
      · exact expandComps_fine _ _ _
      · exact fine_ok _
    · subst h; exact fine_err _
  apply hstage
  split
  · exact fine_err _
  · split
    · exact fine_err _
    · split
      · exact homeDir_fine env
      · split
        · rename_i h1 h2 h3 h4
          -- the prefix `~/` is present, so the byte slice at 2 is on a char boundary
          have hp : hasPrefix s ['~', '/'] = true := by
            cases hh : hasPrefix s ['~', '/'] with
            | true => rfl
            | false =>
              exfalso
              apply h2
              refine ⟨h4, by simp [hh], ?_⟩
              intro hs
              exact h3 ⟨h4, hs⟩
          obtain ⟨r, rfl⟩ := hasPrefix_tilde_slash hp
          rcases fine_cases (homeDir_fine env) with ⟨a, h⟩ | ⟨k, h⟩
          · rw [h]; simp only [dropBytes_tilde_slash]; exact fine_ok _
          · rw [h]; exact fine_err _
        · exact fine_ok _

theorem length_dropWhile_le {α} (p : α → Bool) (l : List α) : (l.dropWhile p).length ≤ l.length :=
  (List.dropWhile_sublist p).length_le

/-- the fuel of `expandSeg` is never exhausted with input left: any fuel above the length of the
    input gives the same result -/
theorem expandSeg_fuel (env : Env) (f g : Nat) (cs acc : Str) (hf : cs.length < f) (hg : cs.length < g) :
    expandSeg env f cs acc = expandSeg env g cs acc := by
  induction f generalizing g cs acc with
  | zero => omega
  | succ f ih =>
    cases g with
    | zero => omega
    | succ g =>
      cases cs with
      | nil => simp [expandSeg]
      | cons c cs =>
        unfold expandSeg
        simp only
        have h0 := length_dropWhile_le (fun x => decide (x ≠ '$')) (c :: cs)
        generalize List.dropWhile (fun x => decide (x ≠ '$')) (c :: cs) = d at h0
        cases d with
        | nil => rfl
        | cons x rest =>
          have h1 := length_dropWhile_le isVarChar rest
          have h2 := length_dropWhile_le isVarChar rest.tail
          simp only [List.length_tail, List.length_cons] at h0 h1 h2 hf hg
          simp only
          repeat' split
          all_goals first
            | rfl
            | (apply ih <;> (try simp only [List.length_tail]) <;> omega)

/-! ### abs -/

theorem absLoop_fine (f : Nat) (curr p : Str) : Fine (absLoop f curr p) := by
  induction f generalizing curr p with
  | zero => unfold absLoop; exact fine_ok _
  | succ f ih =>
    unfold absLoop
    split
    · exact fine_ok _
    · exact ih _ _
    · split
      · exact fine_err _
      · rcases fine_cases (dir_fine curr) with ⟨a, h⟩ | ⟨k, h⟩
        · rw [h]; exact ih _ _
        · rw [h]; exact fine_err _
    · exact fine_ok _

/-- the fuel of `absLoop` is never exhausted with components left -/
theorem absLoop_fuel (f g : Nat) (curr p : Str) (hf : (components p).length < f)
    (hg : (components p).length < g) : absLoop f curr p = absLoop g curr p := by
  induction f generalizing g curr p with
  | zero => omega
  | succ f ih =>
    cases g with
    | zero => omega
    | succ g =>
      have ht := trimFirst_is_tail p
      have hl : (components (trimFirst p)).length = (components p).length - 1 := by
        rw [ht, List.length_tail]
      unfold absLoop
      split
      · rfl
      · rename_i hh
        have : (components p).length ≠ 0 := by
          intro h0; rw [List.length_eq_zero_iff.1 h0] at hh; cases hh
        exact ih _ _ _ (by omega) (by omega)
      · rename_i hh
        have : (components p).length ≠ 0 := by
          intro h0; rw [List.length_eq_zero_iff.1 h0] at hh; cases hh
        split
        · rfl
        · split
          · exact ih _ _ _ (by omega) (by omega)
          all_goals rfl
      · rfl

theorem absWith_fine (env : Env) (cwd s : Str) : Fine (absWith env cwd s) := by
  unfold absWith
  split
  · exact fine_err _
  · rcases fine_cases (expand_fine env s) with ⟨a, h⟩ | ⟨k, h⟩
    · rw [h]
      simp only [cleanO_eq_goClean]
      split
      · exact fine_ok _
      · exact absLoop_fine _ _ _
    · rw [h]; exact fine_err _

/-! ### Memfs: the state monad computations of the simple operations are total -/

open Rivia.Memfs Rivia.Memfs.M Rivia.File

/-- `m` returns (`Ok`/`Err`) from every state -/
structure Safe {α} (m : M α) : Prop where
  out : ∀ s, Fine (m s).1

theorem Safe.pure {α} (a : α) : Safe (Pure.pure a : M α) := ⟨fun _ => fine_ok a⟩
theorem Safe.mpure {α} (a : α) : Safe (M.pure a : M α) := ⟨fun _ => fine_ok a⟩
theorem Safe.bind {α β} {m : M α} {f : α → M β} (hm : Safe m) (hf : ∀ a, Safe (f a)) :
    Safe (m >>= f) := by
  refine ⟨fun s => ?_⟩
  show Fine (M.bind m f s).1
  unfold M.bind
  have := hm.out s
  split
  · exact (hf _).out _
  · exact fine_err _
  · rename_i h; rw [h] at this; exact absurd rfl this.1
  · rename_i h; rw [h] at this; exact absurd rfl this.2
theorem Safe.mbind {α β} {m : M α} {f : α → M β} (hm : Safe m) (hf : ∀ a, Safe (f a)) :
    Safe (M.bind m f) := Safe.bind hm hf
theorem Safe.ite {α} {c : Prop} [Decidable c] {a b : M α} (ha : c → Safe a) (hb : ¬ c → Safe b) :
    Safe (if c then a else b) := by
  split
  · exact ha ‹_›
  · exact hb ‹_›
theorem Safe.fail {α} (k : ErrKind) : Safe (M.fail k : M α) := ⟨fun _ => fine_err k⟩
theorem Safe.get : Safe M.get := ⟨fun s => fine_ok s⟩
theorem Safe.modify (f : State → State) : Safe (M.modify f) := ⟨fun _ => fine_ok ()⟩
theorem Safe.liftO {α} {o : Outcome α} (h : Fine o) : Safe (M.liftO o) := ⟨fun _ => h⟩
theorem Safe.getEntry (p : FsPath) : Safe (getEntry p) := ⟨fun _ => fine_ok _⟩
theorem Safe.setEntry (p : FsPath) (e : Entry) : Safe (setEntry p e) := ⟨fun _ => fine_ok _⟩
theorem Safe.removeEntry (p : FsPath) : Safe (removeEntry p) := ⟨fun _ => fine_ok _⟩
theorem Safe.getFile (p : FsPath) : Safe (getFile p) := ⟨fun _ => fine_ok _⟩
theorem Safe.setFile (p : FsPath) (b : Bytes) : Safe (setFile p b) := ⟨fun _ => fine_ok _⟩
theorem Safe.removeFile (p : FsPath) : Safe (removeFile p) := ⟨fun _ => fine_ok _⟩
theorem Safe.dirOf (p : FsPath) : Safe (dirOf p) := by
  unfold Memfs.dirOf; split
  · exact Safe.fail _
  · exact Safe.mpure _
theorem Safe.absM (env : Env) (p : Str) : Safe (absM env p) := by
  refine ⟨fun s => ?_⟩
  unfold Memfs.absM
  rcases fine_cases (absWith_fine env (renderP s.cwd) p) with ⟨a, h⟩ | ⟨k, h⟩
  · rw [h]; exact fine_ok _
  · rw [h]; exact fine_err _

theorem addChild_fine (e : Entry) (n : Str) : Fine (e.addChild n) := by
  unfold Entry.addChild
  split
  · exact fine_err _
  · split <;> exact fine_ok _
theorem removeChild_fine (e : Entry) (n : Str) : Fine (e.removeChild n) := by
  unfold Entry.removeChild
  split
  · exact fine_err _
  · split <;> exact fine_ok _

theorem Safe.ignoreSync (p : FsPath) (d : Bytes) :
    Safe (fun s => let (_, s') := syncM p d s; ((.ok () : Outcome Unit), s')) := ⟨fun _ => fine_ok _⟩

syntax "safe_prim" : tactic
macro_rules | `(tactic| safe_prim) => `(tactic| exact Safe.ignoreSync _ _)
syntax "safe_tac" : tactic
macro_rules
  | `(tactic| safe_tac) => `(tactic| repeat' (first
      | with_reducible exact Safe.pure _ | with_reducible exact Safe.mpure _
      | with_reducible exact Safe.fail _ | with_reducible exact Safe.get
      | with_reducible exact Safe.modify _ | with_reducible exact Safe.getEntry _
      | with_reducible exact Safe.setEntry _ _
      | with_reducible exact Safe.removeEntry _ | with_reducible exact Safe.getFile _
      | with_reducible exact Safe.setFile _ _
      | with_reducible exact Safe.removeFile _ | with_reducible exact Safe.dirOf _
      | with_reducible exact Safe.absM _ _
      | with_reducible exact Safe.liftO (addChild_fine _ _)
      | with_reducible exact Safe.liftO (removeChild_fine _ _)
      | with_reducible safe_prim
      | with_reducible apply Safe.bind
      | with_reducible apply Safe.mbind
      | with_reducible apply Safe.ite
      | intro _
      | split
      | dsimp only))

theorem Safe.add (e : Entry) : Safe (add e) := by
  unfold Memfs.add
  safe_tac
macro_rules | `(tactic| safe_prim) => `(tactic| exact Safe.add _)


theorem Safe.forM {α} (l : List α) (f : α → M PUnit) (h : ∀ a, Safe (f a)) : Safe (l.forM f) := by
  induction l with
  | nil => unfold List.forM; exact Safe.pure _
  | cons a l ih => unfold List.forM; exact Safe.bind (h a) (fun _ => ih)

theorem Safe.mkdirM (p : FsPath) (mode : Option Nat) : Safe (mkdirM p mode) := by
  unfold Memfs.mkdirM
  apply Safe.forM
  intro a
  safe_tac
macro_rules | `(tactic| safe_prim) => `(tactic| exact Safe.mkdirM _ _)

theorem Safe.symlinkM (env : Env) (l t : Str) : Safe (symlinkM env l t) := by
  unfold Memfs.symlinkM
  safe_tac


theorem Safe.mkfileM (env : Env) (p : Str) : Safe (mkfileM env p) := by
  unfold Memfs.mkfileM
  safe_tac
theorem Safe.mkdirOp (env : Env) (p : Str) (mode : Option Nat) : Safe (mkdirOp env p mode) := by
  unfold Memfs.mkdirOp
  safe_tac
theorem Safe.removeM (env : Env) (p : Str) : Safe (removeM env p) := by
  unfold Memfs.removeM
  safe_tac
theorem Safe.setCwdM (env : Env) (p : Str) : Safe (setCwdM env p) := by
  unfold Memfs.setCwdM
  safe_tac
theorem Safe.syncM (p : FsPath) (d : Bytes) : Safe (syncM p d) := by
  unfold Memfs.syncM
  safe_tac
macro_rules | `(tactic| safe_prim) => `(tactic| exact Safe.syncM _ _)
theorem Safe.openWriteM (env : Env) (p : Str) (id : Nat) : Safe (openWriteM env p id) := by
  unfold Memfs.openWriteM
  safe_tac
theorem Safe.openAppendM (env : Env) (p : Str) (id : Nat) : Safe (openAppendM env p id) := by
  unfold Memfs.openAppendM
  safe_tac
theorem Safe.handleWriteM (id : Nat) (d : Bytes) : Safe (handleWriteM id d) := by
  unfold Memfs.handleWriteM
  safe_tac
theorem Safe.handleFlushM (id : Nat) : Safe (handleFlushM id) := by
  unfold Memfs.handleFlushM
  safe_tac
theorem Safe.handleDropM (id : Nat) : Safe (handleDropM id) := by
  refine ⟨fun s => ?_⟩
  unfold Memfs.handleDropM
  split <;> exact fine_ok _
theorem Safe.writeAllM (env : Env) (p : Str) (d : Bytes) : Safe (writeAllM env p d) := by
  unfold Memfs.writeAllM
  safe_tac
macro_rules | `(tactic| safe_prim) => `(tactic| exact Safe.writeAllM _ _ _)
theorem Safe.appendAllM (env : Env) (p : Str) (d : Bytes) : Safe (appendAllM env p d) := by
  unfold Memfs.appendAllM
  safe_tac
macro_rules | `(tactic| safe_prim) => `(tactic| exact Safe.appendAllM _ _ _)
theorem Safe.writeLinesM (env : Env) (p : Str) (ls : List Str) : Safe (writeLinesM env p ls) := by
  unfold Memfs.writeLinesM
  safe_tac
theorem Safe.appendLinesM (env : Env) (p : Str) (ls : List Str) : Safe (appendLinesM env p ls) := by
  unfold Memfs.appendLinesM
  safe_tac
theorem Safe.appendLineM (env : Env) (p : Str) (l : Str) : Safe (appendLineM env p l) := by
  unfold Memfs.appendLineM
  safe_tac
theorem Safe.cloneFileM (env : Env) (p : Str) : Safe (cloneFileM env p) := by
  unfold Memfs.cloneFileM
  safe_tac
macro_rules | `(tactic| safe_prim) => `(tactic| exact Safe.cloneFileM _ _)
theorem Safe.readAllM (env : Env) (p : Str) : Safe (readAllM env p) := by
  unfold Memfs.readAllM
  safe_tac
theorem Safe.readLinesM (env : Env) (p : Str) : Safe (readLinesM env p) := by
  unfold Memfs.readLinesM
  safe_tac
theorem Safe.entryQuery {α} (env : Env) (p : Str) (f : Entry → α) : Safe (entryQuery env p f) := by
  unfold Memfs.entryQuery
  safe_tac
theorem Safe.boolQuery (env : Env) (p : Str) (f : Entry → Bool) : Safe (boolQuery env p f) := by
  refine ⟨fun s => ?_⟩
  unfold Memfs.boolQuery
  have := (Safe.absM env p).out s
  split
  · exact fine_ok _
  · rename_i h; rw [h] at this; exact absurd rfl this.1
  · exact fine_ok _
theorem Safe.mapVal {α} (f : α → Val) {m : M α} (h : Safe m) : Safe (mapVal f m) := by
  refine ⟨fun s => ?_⟩
  unfold Memfs.mapVal
  have := h.out s
  split
  · exact fine_ok _
  · exact fine_err _
  · rename_i h; rw [h] at this; exact absurd rfl this.1
  · rename_i h; rw [h] at this; exact absurd rfl this.2

end Rivia.Lemmas

namespace Rivia.Lemmas
open Rivia Rivia.Memfs Rivia.Memfs.M Rivia.File

/-- the operations without a fuelled loop (no traversal, no `remove_all`, no `move_p`) -/
def SimpleOp : Op → Bool
  | .mkfileM .. | .removeAll .. | .moveP ..
  | .paths .. | .dirs .. | .files .. | .allPaths .. | .allDirs .. | .allFiles ..
  | .chmod .. | .chmodB .. | .chown .. | .chownB .. | .copy .. | .copyB .. | .entries .. => false
  | _ => true

theorem step_simple_fine (env : Env) (s : State) (op : Op) (h : SimpleOp op = true) :
    Fine (step env s op).1 := by
  cases op
  all_goals try (simp [SimpleOp] at h; done)
  all_goals simp only [step]
  all_goals first
    | exact fine_ok _
    | exact (Safe.boolQuery _ _ _).out s
    | (refine (Safe.mapVal _ ?_).out s; first | safe_prim | skip)
  all_goals first
    | exact Safe.mkfileM _ _ | exact Safe.mkdirOp _ _ _ | exact Safe.appendLinesM _ _ _
    | exact Safe.writeLinesM _ _ _ | exact Safe.appendLineM _ _ _ | exact Safe.readAllM _ _
    | exact Safe.readLinesM _ _ | exact Safe.removeM _ _ | exact Safe.symlinkM _ _ _
    | exact Safe.setCwdM _ _ | exact Safe.entryQuery _ _ _ | exact Safe.openWriteM _ _ _
    | exact Safe.openAppendM _ _ _ | exact Safe.handleWriteM _ _ | exact Safe.handleFlushM _
    | exact Safe.handleDropM _
    | safe_tac

end Rivia.Lemmas
