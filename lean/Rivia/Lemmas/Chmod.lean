import Rivia.Model.Chmod
import Rivia.Spec.ChmodGrammar
namespace Rivia.Lemmas
open Rivia Rivia.Chmod Rivia.Spec

/-! ### character classes -/

theorem isTargetCh_iff (c : Char) : isTargetCh c = true ↔ c = 'd' ∨ c = 'f' ∨ c = 'a' := by
  simp [isTargetCh, or_assoc]
theorem isWhoCh_iff (c : Char) : isWhoCh c = true ↔ c = 'u' ∨ c = 'g' ∨ c = 'o' ∨ c = 'a' := by
  simp [isWhoCh, or_assoc]
theorem isOpCh_iff (c : Char) : isOpCh c = true ↔ c = '-' ∨ c = '+' ∨ c = '=' := by
  simp [isOpCh, or_assoc]
theorem isPermCh_iff (c : Char) : isPermCh c = true ↔ c = 'r' ∨ c = 'w' ∨ c = 'x' := by
  simp [isPermCh, or_assoc]

/-- a target letter letterOk the entry kind -/
def letterOk (k : EKind) (t : Char) : Bool := t = 'a' || (t = 'd' && k.dir) || (t = 'f' && k.file)

theorem appliesTo_eq (c : Clause) (k : EKind) :
    c.appliesTo k = (!k.link && c.targets.all (letterOk k)) := rfl

/-- the accumulator steps of `whoBits` / `permBits` -/
def whoStep (acc : Nat) (c : Char) : Nat :=
  acc ||| (if c = 'u' then 0o700 else if c = 'g' then 0o070 else if c = 'o' then 0o007 else 0o777)
def permStep (acc : Nat) (c : Char) : Nat :=
  acc ||| (if c = 'r' then 0o444 else if c = 'w' then 0o222 else 0o111)

theorem whoBits_eq (w : List Char) : whoBits w = w.foldl whoStep 0 := rfl
theorem permBits_eq (p : List Char) : permBits p = p.foldl permStep 0 := rfl

/-! ### forward: the loops over a parsed clause -/

theorem targetLoop_applies (k : EKind) (mode : Nat) (t r : List Char)
    (hl : k.link = false) (ht : ∀ x ∈ t, isTargetCh x = true) (ha : ∀ x ∈ t, letterOk k x = true) :
    targetLoop k mode (t ++ ':' :: r) = .toGroup r := by
  induction t with
  | nil => simp [targetLoop, hl]
  | cons x t ih =>
    have hx := (isTargetCh_iff x).1 (ht x (by simp))
    have hax := ha x (by simp)
    have ih' := ih (fun y hy => ht y (by simp [hy])) (fun y hy => ha y (by simp [hy]))
    rcases hx with rfl | rfl | rfl
    · have : k.dir = true := by simpa [letterOk] using hax
      simp [targetLoop, hl, this, ih']
    · have : k.file = true := by simpa [letterOk] using hax
      simp [targetLoop, hl, this, ih']
    · simp [targetLoop, hl, ih']

/-! ### skipping a clause (`skipClause`) -/

theorem skipClause_no_comma (a : List Char) (h : ',' ∉ a) : skipClause a = [] := by
  induction a with
  | nil => rfl
  | cons c a ih =>
    simp only [List.mem_cons, not_or] at h
    have hc : ¬ c = ',' := fun hc => h.1 hc.symm
    simp only [skipClause, if_neg hc, ih h.2]

theorem skipClause_append (a r : List Char) (h : ',' ∉ a) : skipClause (a ++ r) = skipClause r := by
  induction a with
  | nil => rfl
  | cons c a ih =>
    simp only [List.mem_cons, not_or] at h
    have hc : ¬ c = ',' := fun hc => h.1 hc.symm
    simp only [List.cons_append, skipClause, if_neg hc, ih h.2]

theorem skipClause_append_comma (a r : List Char) (h : ',' ∉ a) :
    skipClause (a ++ ',' :: r) = r := by
  rw [skipClause_append a _ h]; simp [skipClause]

theorem skipClause_length_le (r : List Char) : (skipClause r).length ≤ r.length := by
  induction r with
  | nil => exact Nat.le_refl _
  | cons c r ih =>
    simp only [skipClause]
    split
    · simp
    · simp only [List.length_cons]; omega

theorem targetCh_no_comma (t : List Char) (ht : ∀ x ∈ t, isTargetCh x = true) : ',' ∉ t :=
  fun h => absurd (ht _ h) (by decide)

/-- a link: the first target letter returns the mode unchanged -/
theorem targetLoop_link (k : EKind) (mode : Nat) (x : Char) (r : List Char)
    (hl : k.link = true) (hx : isTargetCh x = true) :
    targetLoop k mode (x :: r) = .ret (.ok mode) := by
  rcases (isTargetCh_iff x).1 hx with rfl | rfl | rfl <;> simp [targetLoop, hl]

/-- the first target letter that does not admit the entry kind skips the clause, whatever
    follows it -/
theorem targetLoop_skip_at (k : EKind) (mode : Nat) (t : List Char) (x : Char) (r : List Char)
    (hl : k.link = false) (ht : ∀ y ∈ t, isTargetCh y = true ∧ letterOk k y = true)
    (hx : x = 'd' ∨ x = 'f') (hbad : letterOk k x = false) :
    targetLoop k mode (t ++ x :: r) = .skip (skipClause r) := by
  induction t with
  | nil =>
    rcases hx with rfl | rfl
    · have : k.dir = false := by simpa [letterOk] using hbad
      simp [targetLoop, hl, this]
    · have : k.file = false := by simpa [letterOk] using hbad
      simp [targetLoop, hl, this]
  | cons y t ih =>
    have hy := (isTargetCh_iff y).1 (ht y (by simp)).1
    have hay := (ht y (by simp)).2
    have ih' := ih (fun z hz => ht z (by simp [hz]))
    rcases hy with rfl | rfl | rfl
    · have : k.dir = true := by simpa [letterOk] using hay
      simp [targetLoop, hl, this, ih']
    · have : k.file = true := by simpa [letterOk] using hay
      simp [targetLoop, hl, this, ih']
    · simp [targetLoop, hl, ih']

theorem targetLoop_skips (k : EKind) (mode : Nat) (t r : List Char)
    (hl : k.link = false) (ht : ∀ x ∈ t, isTargetCh x = true)
    (hb : ∃ x ∈ t, letterOk k x = false) :
    targetLoop k mode (t ++ r) = .skip (skipClause r) := by
  induction t with
  | nil => simp at hb
  | cons x t ih =>
    have hx := (isTargetCh_iff x).1 (ht x (by simp))
    have hcomma : ',' ∉ t := targetCh_no_comma t (fun y hy => ht y (by simp [hy]))
    by_cases hax : letterOk k x = true
    · have hb' : ∃ y ∈ t, letterOk k y = false := by
        obtain ⟨y, hy, hy'⟩ := hb
        rcases List.mem_cons.1 hy with rfl | hy
        · simp [hax] at hy'
        · exact ⟨y, hy, hy'⟩
      have ih' := ih (fun y hy => ht y (by simp [hy])) hb'
      rcases hx with rfl | rfl | rfl
      · have : k.dir = true := by simpa [letterOk] using hax
        simp [targetLoop, hl, this, ih']
      · have : k.file = true := by simpa [letterOk] using hax
        simp [targetLoop, hl, this, ih']
      · simp [targetLoop, hl, ih']
    · rcases hx with rfl | rfl | rfl
      · have : k.dir = false := by simpa [letterOk] using hax
        simp [targetLoop, hl, this, skipClause_append _ _ hcomma]
      · have : k.file = false := by simpa [letterOk] using hax
        simp [targetLoop, hl, this, skipClause_append _ _ hcomma]
      · simp [letterOk] at hax

theorem groupLoop_who (w r : List Char) (op : Char) (g : Nat)
    (hw : ∀ x ∈ w, isWhoCh x = true) (ho : isOpCh op = true) :
    groupLoop (w ++ op :: r) g = .toPerms op (w.foldl whoStep g) r := by
  induction w generalizing g with
  | nil =>
    rcases (isOpCh_iff op).1 ho with rfl | rfl | rfl <;> simp [groupLoop]
  | cons x w ih =>
    have ih' := fun g => ih g (fun y hy => hw y (by simp [hy]))
    rcases (isWhoCh_iff x).1 (hw x (by simp)) with rfl | rfl | rfl | rfl <;>
      simp [groupLoop, ih', whoStep]

theorem permsLoop_perms_comma (p r : List Char) (a : Nat)
    (hp : ∀ x ∈ p, isPermCh x = true) :
    permsLoop (p ++ ',' :: r) a = .done (p.foldl permStep a) r := by
  induction p generalizing a with
  | nil => simp [permsLoop]
  | cons x p ih =>
    have ih' := fun a => ih a (fun y hy => hp y (by simp [hy]))
    rcases (isPermCh_iff x).1 (hp x (by simp)) with rfl | rfl | rfl <;>
      simp [permsLoop, ih', permStep]

theorem permsLoop_perms_end (p : List Char) (a : Nat)
    (hp : ∀ x ∈ p, isPermCh x = true) :
    permsLoop p a = .done (p.foldl permStep a) [] := by
  induction p generalizing a with
  | nil => simp [permsLoop]
  | cons x p ih =>
    have ih' := fun a => ih a (fun y hy => hp y (by simp [hy]))
    rcases (isPermCh_iff x).1 (hp x (by simp)) with rfl | rfl | rfl <;>
      simp [permsLoop, ih', permStep]

theorem foldl_whoStep_ne_zero (w : List Char) (g : Nat) (hg : g ≠ 0) : w.foldl whoStep g ≠ 0 := by
  induction w generalizing g with
  | nil => exact hg
  | cons x w ih =>
    apply ih
    simp only [whoStep, ne_eq, Nat.or_eq_zero_iff]
    exact fun h => hg h.1

theorem whoBits_ne_zero (w : List Char) (hw : w ≠ []) : whoBits w ≠ 0 := by
  cases w with
  | nil => exact absurd rfl hw
  | cons x w =>
    rw [whoBits_eq, List.foldl_cons]
    apply foldl_whoStep_ne_zero
    simp only [whoStep, ne_eq, Nat.or_eq_zero_iff]
    intro h
    have := h.2
    split at this <;> try split at this <;> try split at this
    all_goals simp at this

theorem foldl_permStep_ne_zero (p : List Char) (g : Nat) (hg : g ≠ 0) : p.foldl permStep g ≠ 0 := by
  induction p generalizing g with
  | nil => exact hg
  | cons x p ih =>
    apply ih
    simp only [permStep, ne_eq, Nat.or_eq_zero_iff]
    exact fun h => hg h.1

theorem permBits_ne_zero (p : List Char) (hp : p ≠ []) : permBits p ≠ 0 := by
  cases p with
  | nil => exact absurd rfl hp
  | cons x p =>
    rw [permBits_eq, List.foldl_cons]
    apply foldl_permStep_ne_zero
    simp only [permStep, ne_eq, Nat.or_eq_zero_iff]
    intro h
    have := h.2
    split at this <;> try split at this
    all_goals simp at this

/-! ### the grammar: shape of a parsed clause, of a parsed expression -/

theorem parseClause_some {s : List Char} {c : Clause} (h : parseClause s = some c) :
    s = c.targets ++ ':' :: (c.who ++ c.op :: c.perms) ∧
    c.targets ≠ [] ∧ (∀ x ∈ c.targets, isTargetCh x = true) ∧
    c.who ≠ [] ∧ (∀ x ∈ c.who, isWhoCh x = true) ∧ isOpCh c.op = true ∧
    c.perms ≠ [] ∧ (∀ x ∈ c.perms, isPermCh x = true) := by
  unfold parseClause at h
  split at h
  · rename_i r1 h1
    split at h
    · rename_i o r2 h2
      dsimp only at h
      split at h
      · rename_i hc
        obtain ⟨ht, hw, ho, hr, hall⟩ := hc
        cases h
        refine ⟨?_, ht, ?_, hw, ?_, ho, hr, ?_⟩
        · show s = s.takeWhile isTargetCh ++ ':' :: (r1.takeWhile isWhoCh ++ o :: r2)
          rw [← h2, List.takeWhile_append_dropWhile, ← h1, List.takeWhile_append_dropWhile]
        · exact List.all_eq_true.1 List.all_takeWhile
        · exact List.all_eq_true.1 List.all_takeWhile
        · exact List.all_eq_true.1 hall
      · cases h
    · cases h
  · cases h

theorem parseClause_build (t w p : List Char) (op : Char)
    (ht : t ≠ []) (htc : ∀ x ∈ t, isTargetCh x = true)
    (hw : w ≠ []) (hwc : ∀ x ∈ w, isWhoCh x = true) (ho : isOpCh op = true)
    (hp : p ≠ []) (hpc : ∀ x ∈ p, isPermCh x = true) :
    parseClause (t ++ ':' :: (w ++ op :: p)) = some ⟨t, w, op, p⟩ := by
  have h1 : (t ++ ':' :: (w ++ op :: p)).takeWhile isTargetCh = t := by
    rw [List.takeWhile_append_of_pos htc, List.takeWhile_cons_of_neg (by decide), List.append_nil]
  have h2 : (t ++ ':' :: (w ++ op :: p)).dropWhile isTargetCh = ':' :: (w ++ op :: p) := by
    rw [List.dropWhile_append_of_pos htc, List.dropWhile_cons_of_neg (by decide)]
  have hop : ¬ isWhoCh op = true := by
    rcases (isOpCh_iff op).1 ho with rfl | rfl | rfl <;> decide
  have h3 : (w ++ op :: p).takeWhile isWhoCh = w := by
    rw [List.takeWhile_append_of_pos hwc, List.takeWhile_cons_of_neg hop, List.append_nil]
  have h4 : (w ++ op :: p).dropWhile isWhoCh = op :: p := by
    rw [List.dropWhile_append_of_pos hwc, List.dropWhile_cons_of_neg hop]
  unfold parseClause
  simp only [h1, h2, h3, h4]
  rw [if_pos ⟨ht, hw, ho, hp, List.all_eq_true.2 hpc⟩]

/-- shape of `splitComma`: a first comma-free segment, then either nothing or a comma and the
    rest -/
theorem splitComma_shape (s : List Char) :
    ∃ seg segs, splitComma s = seg :: segs ∧ ',' ∉ seg ∧
      ((segs = [] ∧ s = seg) ∨ ∃ s', s = seg ++ ',' :: s' ∧ splitComma s' = segs) := by
  induction s with
  | nil => exact ⟨[], [], rfl, by simp, .inl ⟨rfl, rfl⟩⟩
  | cons c cs ih =>
    by_cases hc : c = ','
    · subst hc
      exact ⟨[], splitComma cs, by simp [splitComma], by simp, .inr ⟨cs, rfl, rfl⟩⟩
    · obtain ⟨seg, segs, h1, h2, h3⟩ := ih
      refine ⟨c :: seg, segs, by simp [splitComma, hc, h1], ?_, ?_⟩
      · simp only [List.mem_cons, not_or]; exact ⟨fun h => hc h.symm, h2⟩
      · rcases h3 with ⟨h3, h4⟩ | ⟨s', h3, h4⟩
        · exact .inl ⟨h3, by rw [h4]⟩
        · exact .inr ⟨s', by rw [h3]; rfl, h4⟩

theorem mapM_cons_some {α β} (f : α → Option β) (a : α) (l : List α) (r : List β)
    (h : (a :: l).mapM f = some r) :
    ∃ b bs, f a = some b ∧ l.mapM f = some bs ∧ r = b :: bs := by
  simp only [List.mapM_cons] at h
  cases hb : f a with
  | none => simp [hb] at h
  | some b =>
    cases hbs : l.mapM f with
    | none => simp [hb, hbs] at h
    | some bs => simp [hb, hbs] at h; exact ⟨b, bs, rfl, rfl, h.symm⟩

/-- shape of a parsed expression -/
theorem parseExpr_shape {s : List Char} {cs : List Clause} (h : parseExpr s = some cs) :
    ∃ c cs' seg, cs = c :: cs' ∧ parseClause seg = some c ∧
      ((cs' = [] ∧ s = seg) ∨ ∃ s', s = seg ++ ',' :: s' ∧ parseExpr s' = some cs') := by
  obtain ⟨seg, segs, h1, _, h3⟩ := splitComma_shape s
  unfold parseExpr at h
  rw [h1] at h
  obtain ⟨c, cs', hc, hcs, rfl⟩ := mapM_cons_some _ _ _ _ h
  refine ⟨c, cs', seg, rfl, hc, ?_⟩
  rcases h3 with ⟨rfl, h4⟩ | ⟨s', h3, h4⟩
  · left
    simp at hcs
    exact ⟨hcs, h4⟩
  · right
    exact ⟨s', h3, by unfold parseExpr; rw [h4]; exact hcs⟩

/-! ### commas -/

theorem splitComma_no_comma (seg : List Char) (h : ',' ∉ seg) : splitComma seg = [seg] := by
  induction seg with
  | nil => rfl
  | cons c seg ih =>
    simp only [List.mem_cons, not_or] at h
    have hc : ¬ c = ',' := fun hc => h.1 hc.symm
    simp only [splitComma, if_neg hc, ih h.2]

theorem splitComma_append_comma (seg r : List Char) (h : ',' ∉ seg) :
    splitComma (seg ++ ',' :: r) = seg :: splitComma r := by
  induction seg with
  | nil => simp [splitComma]
  | cons c seg ih =>
    simp only [List.mem_cons, not_or] at h
    have hc : ¬ c = ',' := fun hc => h.1 hc.symm
    simp only [List.cons_append, splitComma, if_neg hc, ih h.2]

theorem comma_not_mem_clause (t w ps : List Char) (op : Char)
    (htc : ∀ x ∈ t, isTargetCh x = true) (hwc : ∀ x ∈ w, isWhoCh x = true)
    (ho : isOpCh op = true) (hpc : ∀ x ∈ ps, isPermCh x = true) :
    ',' ∉ t ++ ':' :: (w ++ op :: ps) := by
  simp only [List.mem_append, List.mem_cons, not_or]
  refine ⟨fun h => ?_, by decide, fun h => ?_, fun h => ?_, fun h => ?_⟩
  · exact absurd (htc _ h) (by decide)
  · exact absurd (hwc _ h) (by decide)
  · subst h; exact absurd ho (by decide)
  · exact absurd (hpc _ h) (by decide)

/-! ### one iteration of the outer loop -/

theorem symLoop_nil (k : EKind) (f mode : Nat) : symLoop k f mode [] = .ok mode := by
  cases f <;> rfl

theorem symLoop_ret (k : EKind) (f mode : Nat) (cs : List Char) (o : Outcome Nat)
    (hcs : cs ≠ []) (hT : targetLoop k mode cs = .ret o) : symLoop k (f + 1) mode cs = o := by
  cases cs with
  | nil => exact absurd rfl hcs
  | cons c cs => simp only [symLoop, hT]

theorem symLoop_skip (k : EKind) (f mode : Nat) (cs R : List Char)
    (hcs : cs ≠ []) (hT : targetLoop k mode cs = .skip R) :
    symLoop k (f + 1) mode cs = symLoop k f mode R := by
  cases cs with
  | nil => exact absurd rfl hcs
  | cons c cs => simp only [symLoop, hT]

theorem symLoop_step (k : EKind) (f mode : Nat) (cs R R' rest' : List Char) (op : Char) (g p : Nat)
    (hcs : cs ≠ []) (hT : targetLoop k mode cs = .toGroup R) (hR : R ≠ [])
    (hG : groupLoop R 0 = .toPerms op g R') (hg : g ≠ 0) (hR' : R' ≠ [])
    (hP : permsLoop R' 0 = .done p rest') (hp : p ≠ 0) :
    symLoop k (f + 1) mode cs = symLoop k f (applyOp op g p mode) rest' := by
  cases cs with
  | nil => exact absurd rfl hcs
  | cons c cs =>
    cases R with
    | nil => exact absurd rfl hR
    | cons x R =>
      cases R' with
      | nil => exact absurd rfl hR'
      | cons y R' => simp only [symLoop, hT, hG, hP, if_neg hg, if_neg hp]

theorem applyOp_eq_apply (c : Clause) (m : Nat) :
    applyOp c.op (whoBits c.who) (permBits c.perms) m = c.apply m := rfl

theorem applyExpr_cons (k : EKind) (c : Clause) (l : List Clause) (m : Nat) :
    applyExpr k (c :: l) m = applyExpr k l (if c.appliesTo k then c.apply m else m) := by
  simp only [applyExpr, List.foldl_cons]

theorem applyExpr_link (k : EKind) (cs : List Clause) (m : Nat) (hl : k.link = true) :
    applyExpr k cs m = m := by
  induction cs with
  | nil => rfl
  | cons c cs ih =>
    have : c.appliesTo k = false := by simp [Clause.appliesTo, hl]
    rw [applyExpr_cons, this]; exact ih

/-- the (repaired) code's meaning of a well-formed expression is the grammar's: every clause that
    applies to the entry is applied, in order; the others are skipped -/
theorem symLoop_parsed (k : EKind) (cs : List Clause) :
    ∀ (sym : List Char) (fuel mode : Nat), parseExpr sym = some cs → sym.length < fuel →
      symLoop k fuel mode sym = .ok (applyExpr k cs mode) := by
  induction cs with
  | nil =>
    intro sym fuel mode hp _
    obtain ⟨c, cs', seg, h, _⟩ := parseExpr_shape hp
    cases h
  | cons c0 cs0 ih =>
    intro sym fuel mode hp hf
    obtain ⟨c, cs', seg, h, hc, hshape⟩ := parseExpr_shape hp
    cases h
    obtain ⟨hseg, ht, htc, hw, hwc, ho, hpn, hpc⟩ := parseClause_some hc
    obtain ⟨f, rfl⟩ : ∃ f, fuel = f + 1 := ⟨fuel - 1, by omega⟩
    -- the text after the clause
    obtain ⟨tail, hsym, htail⟩ : ∃ tail, sym = seg ++ tail ∧
        ((cs0 = [] ∧ tail = []) ∨ ∃ s', tail = ',' :: s' ∧ parseExpr s' = some cs0) := by
      rcases hshape with ⟨h1, h2⟩ | ⟨s', h1, h2⟩
      · exact ⟨[], by simp [h2], .inl ⟨h1, rfl⟩⟩
      · exact ⟨',' :: s', h1, .inr ⟨s', rfl, h2⟩⟩
    have hsne : sym ≠ [] := by
      rw [hsym, hseg]; cases hc' : c0.targets with
      | nil => exact absurd hc' ht
      | cons x t => simp
    by_cases happ : c0.appliesTo k = true
    · -- the clause applies: it is executed, then the loop goes on after the comma
      have happ' := happ
      rw [appliesTo_eq] at happ
      simp only [Bool.and_eq_true, Bool.not_eq_true', List.all_eq_true] at happ
      have hT : targetLoop k mode sym =
          .toGroup (c0.who ++ c0.op :: (c0.perms ++ tail)) := by
        rw [hsym, hseg]
        simp only [List.append_assoc, List.cons_append]
        exact targetLoop_applies k mode _ _ happ.1 htc happ.2
      have hG : groupLoop (c0.who ++ c0.op :: (c0.perms ++ tail)) 0 =
          .toPerms c0.op (whoBits c0.who) (c0.perms ++ tail) := groupLoop_who _ _ _ _ hwc ho
      have hR : c0.who ++ c0.op :: (c0.perms ++ tail) ≠ [] := by simp
      have hR' : c0.perms ++ tail ≠ [] := by simp [hpn]
      have hstep := fun rest' hP => symLoop_step k f mode sym _ _ rest' c0.op _ (permBits c0.perms)
        hsne hT hR hG (whoBits_ne_zero _ hw) hR' hP (permBits_ne_zero _ hpn)
      rw [applyExpr_cons, happ', if_pos rfl]
      rcases htail with ⟨rfl, rfl⟩ | ⟨s', rfl, hs'⟩
      · rw [hstep [] (by rw [List.append_nil]; exact permsLoop_perms_end _ _ hpc), symLoop_nil]
        rfl
      · rw [hstep s' (permsLoop_perms_comma _ _ _ hpc)]
        rw [applyOp_eq_apply]
        apply ih s' f _ hs'
        rw [hsym] at hf
        simp only [List.length_append, List.length_cons] at hf
        omega
    · have happ' : c0.appliesTo k = false := by simpa using happ
      rw [applyExpr_cons, happ']
      by_cases hl : k.link = true
      · -- a link: the call returns the mode at the first target letter
        have hT : targetLoop k mode sym = .ret (.ok mode) := by
          rw [hsym, hseg]
          cases hc' : c0.targets with
          | nil => exact absurd hc' ht
          | cons x t => exact targetLoop_link k mode x _ hl (htc x (by simp [hc']))
        rw [symLoop_ret k f mode sym _ hsne hT]
        exact congrArg _ (applyExpr_link k cs0 mode hl).symm
      · -- the clause is for another kind: it is skipped, the loop goes on after the comma
        have hl' : k.link = false := by simpa using hl
        have hb : ∃ x ∈ c0.targets, letterOk k x = false := by
          rw [appliesTo_eq] at happ
          simp only [hl', Bool.not_false, Bool.true_and, List.all_eq_true] at happ
          apply Classical.byContradiction
          intro hne
          apply happ
          intro x hx
          cases hax : letterOk k x with
          | true => rfl
          | false => exact absurd ⟨x, hx, hax⟩ hne
        have hcomma : ',' ∉ ':' :: (c0.who ++ c0.op :: c0.perms) :=
          comma_not_mem_clause [] c0.who c0.perms c0.op (by simp) hwc ho hpc
        have hT : targetLoop k mode sym =
            .skip (skipClause (':' :: (c0.who ++ c0.op :: c0.perms) ++ tail)) := by
          rw [hsym, hseg, List.append_assoc]
          exact targetLoop_skips k mode _ _ hl' htc hb
        rw [symLoop_skip k f mode sym _ hsne hT]
        rcases htail with ⟨rfl, rfl⟩ | ⟨s', rfl, hs'⟩
        · rw [List.append_nil, skipClause_no_comma _ hcomma, symLoop_nil]
          rfl
        · rw [skipClause_append_comma _ _ hcomma]
          apply ih s' f _ hs'
          rw [hsym] at hf
          simp only [List.length_append, List.length_cons] at hf
          omega

/-! ### `Chmod.mode` on well-formed expressions -/

theorem parseExpr_ne_nil {s : List Char} {cs : List Clause} (h : parseExpr s = some cs) : s ≠ [] := by
  intro hs; subst hs
  have : parseExpr [] = none := by decide
  rw [this] at h; cases h

theorem mode_parsed (k : EKind) (cur : Nat) (sym : List Char) (cs : List Clause)
    (hp : parseExpr sym = some cs) :
    Chmod.mode k cur 0 sym = .ok (applyExpr k cs cur) := by
  unfold Chmod.mode
  rw [if_neg (by simp), if_neg (parseExpr_ne_nil hp)]
  exact symLoop_parsed k cs sym _ cur hp (Nat.lt_succ_self _)

theorem mode_parsed_link (k : EKind) (cur : Nat) (sym : List Char) (cs : List Clause)
    (hl : k.link = true) (hp : parseExpr sym = some cs) : Chmod.mode k cur 0 sym = .ok cur := by
  rw [mode_parsed k cur sym cs hp, applyExpr_link k cs cur hl]

theorem revokingMode_iff (old new : Nat) :
    revokingMode old new = true ↔
      (new &&& 0o500 < old &&& 0o500 ∨ new &&& 0o050 < old &&& 0o050 ∨ new &&& 0o005 < old &&& 0o005) := by
  simp [revokingMode, or_assoc]
/-! ### bit facts: permission masks only touch the low 9 bits -/

theorem shift9_small (x : Nat) (h : x ≤ 511) : x >>> 9 = 0 := by
  rw [Nat.shiftRight_eq_div_pow]; omega

theorem not32_shift9 (x : Nat) (h : x ≤ 511) : not32 x >>> 9 = 2 ^ 23 - 1 := by
  unfold not32
  rw [Nat.shiftRight_xor_distrib, shift9_small x h, Nat.xor_zero]
  decide

theorem not32_lt (x : Nat) (h : x ≤ 511) : not32 x < 2 ^ 32 := by
  unfold not32
  exact Nat.xor_lt_two_pow (by decide) (by omega)

theorem and_mask23 (a : Nat) (h : a < 2 ^ 32) : a >>> 9 &&& (2 ^ 23 - 1) = a >>> 9 := by
  rw [Nat.and_two_pow_sub_one_eq_mod, Nat.shiftRight_eq_div_pow]
  apply Nat.mod_eq_of_lt
  omega

theorem div512 (a : Nat) : a / 512 = a >>> 9 := by
  rw [Nat.shiftRight_eq_div_pow]

theorem applyOp_keeps (op : Char) (g p mode : Nat) (hg : g ≤ 511)
    (hm : mode < 2 ^ 32) :
    applyOp op g p mode / 512 = mode / 512 ∧ applyOp op g p mode < 2 ^ 32 := by
  have hx : g &&& p ≤ 511 := Nat.le_trans Nat.and_le_left hg
  have hx32 : g &&& p < 2 ^ 32 := by omega
  unfold applyOp
  split
  · constructor
    · rw [div512, div512, Nat.shiftRight_and_distrib, not32_shift9 _ hx, and_mask23 _ hm]
    · exact Nat.lt_of_le_of_lt Nat.and_le_left hm
  · split
    · constructor
      · rw [div512, div512, Nat.shiftRight_or_distrib, shift9_small _ hx, Nat.or_zero]
      · exact Nat.or_lt_two_pow hm hx32
    · constructor
      · rw [div512, div512, Nat.shiftRight_or_distrib, shift9_small _ hx, Nat.or_zero,
          Nat.shiftRight_and_distrib, not32_shift9 _ hg, Nat.and_comm, and_mask23 _ hm]
      · exact Nat.or_lt_two_pow (Nat.lt_of_le_of_lt Nat.and_le_right hm) hx32

/-! ### converse: what the loops have consumed when they succeed (arbitrary input) -/

theorem targetLoop_ret_cases (k : EKind) (mode : Nat) (cs : List Char) (o : Outcome Nat)
    (h : targetLoop k mode cs = .ret o) : (∃ e, o = .err e) ∨ o = .ok mode := by
  induction cs with
  | nil => simp only [targetLoop] at h; cases h; exact .inl ⟨_, rfl⟩
  | cons c cs ih =>
    simp only [targetLoop] at h
    split at h
    · cases h; exact .inl ⟨_, rfl⟩
    · split at h
      · cases h; exact .inr rfl
      · split at h
        · cases h
        · split at h
          · cases h
          · exact ih h

/-- what the head letter of a non-skipped, non-final step of the Target loop is -/
theorem target_head_ok (k : EKind) (c : Char)
    (hc : ¬ (c ≠ 'd' ∧ c ≠ 'f' ∧ c ≠ 'a' ∧ c ≠ ':'))
    (hm : ¬ ((c = 'd' ∧ (!k.dir) = true) ∨ (c = 'f' ∧ (!k.file) = true))) (hc' : ¬ c = ':') :
    isTargetCh c = true ∧ letterOk k c = true := by
  by_cases h1 : c = 'd'
  · subst h1
    have : k.dir = true := by
      cases hd : k.dir with
      | true => rfl
      | false => exact absurd (.inl ⟨rfl, by simp [hd]⟩) hm
    exact ⟨by decide, by simp [letterOk, this]⟩
  · by_cases h2 : c = 'f'
    · subst h2
      have : k.file = true := by
        cases hd : k.file with
        | true => rfl
        | false => exact absurd (.inr ⟨rfl, by simp [hd]⟩) hm
      exact ⟨by decide, by simp [letterOk, this]⟩
    · by_cases h3 : c = 'a'
      · subst h3; exact ⟨by decide, by simp [letterOk]⟩
      · exact absurd ⟨h1, h2, h3, hc'⟩ hc

theorem targetLoop_toGroup_shape (k : EKind) (mode : Nat) (cs r : List Char)
    (h : targetLoop k mode cs = .toGroup r) :
    ∃ t, cs = t ++ ':' :: r ∧ ∀ x ∈ t, isTargetCh x = true := by
  induction cs with
  | nil => simp only [targetLoop] at h; cases h
  | cons c cs ih =>
    simp only [targetLoop] at h
    split at h
    · cases h
    · rename_i hc
      split at h
      · cases h
      · split at h
        · cases h
        · rename_i hm
          split at h
          · rename_i hc'
            cases h
            exact ⟨[], by simp [hc'], by simp⟩
          · rename_i hc'
            obtain ⟨t, ht, htc⟩ := ih h
            refine ⟨c :: t, by simp [ht], ?_⟩
            intro x hx
            rcases List.mem_cons.1 hx with rfl | hx
            · exact (target_head_ok k x hc hm hc').1
            · exact htc x hx

/-- a skip happens at the first target letter that does not admit the entry kind: before it only
    admitting target letters; what follows it is NOT inspected, only searched for the next comma -/
theorem targetLoop_skip_shape (k : EKind) (mode : Nat) (cs R : List Char)
    (h : targetLoop k mode cs = .skip R) :
    k.link = false ∧ ∃ t x r, cs = t ++ x :: r ∧
      (∀ y ∈ t, isTargetCh y = true ∧ letterOk k y = true) ∧
      (x = 'd' ∨ x = 'f') ∧ letterOk k x = false ∧ R = skipClause r := by
  induction cs with
  | nil => simp only [targetLoop] at h; cases h
  | cons c cs ih =>
    simp only [targetLoop] at h
    split at h
    · cases h
    · rename_i hc
      split at h
      · cases h
      · rename_i hl
        split at h
        · rename_i hm
          cases h
          refine ⟨by simpa using hl, [], c, cs, rfl, by simp, ?_, ?_, rfl⟩
          · rcases hm with ⟨h1, _⟩ | ⟨h1, _⟩
            · exact .inl h1
            · exact .inr h1
          · rcases hm with ⟨h1, h2⟩ | ⟨h1, h2⟩
            · subst h1
              have : k.dir = false := by simpa using h2
              simp [letterOk, this]
            · subst h1
              have : k.file = false := by simpa using h2
              simp [letterOk, this]
        · rename_i hm
          split at h
          · cases h
          · rename_i hc'
            obtain ⟨hl', t, x, r, h1, h2, h3, h4, h5⟩ := ih h
            refine ⟨hl', c :: t, x, r, by simp [h1], ?_, h3, h4, h5⟩
            intro y hy
            rcases List.mem_cons.1 hy with rfl | hy
            · exact target_head_ok k y hc hm hc'
            · exact h2 y hy

theorem groupLoop_ret_err (cs : List Char) (g : Nat) (o : Outcome Nat)
    (h : groupLoop cs g = .ret o) : ∃ e, o = .err e := by
  induction cs generalizing g with
  | nil => simp only [groupLoop] at h; cases h; exact ⟨_, rfl⟩
  | cons c cs ih =>
    simp only [groupLoop] at h
    repeat' split at h
    all_goals first | exact ih _ h | (cases h; done) | (cases h; exact ⟨_, rfl⟩)

theorem groupLoop_toPerms_shape (cs : List Char) (g : Nat) (op : Char) (g' : Nat) (r : List Char)
    (h : groupLoop cs g = .toPerms op g' r) :
    ∃ w, cs = w ++ op :: r ∧ (∀ x ∈ w, isWhoCh x = true) ∧ isOpCh op = true ∧
      g' = w.foldl whoStep g := by
  induction cs generalizing g with
  | nil => simp only [groupLoop] at h; cases h
  | cons c cs ih =>
    simp only [groupLoop] at h
    split at h
    · rename_i hc; subst hc
      obtain ⟨w, h1, h2, h3, h4⟩ := ih _ h
      exact ⟨'u' :: w, by simp [h1], by
        intro x hx; rcases List.mem_cons.1 hx with rfl | hx
        · decide
        · exact h2 x hx, h3, by simp [h4, whoStep]⟩
    · split at h
      · rename_i hc; subst hc
        obtain ⟨w, h1, h2, h3, h4⟩ := ih _ h
        exact ⟨'g' :: w, by simp [h1], by
          intro x hx; rcases List.mem_cons.1 hx with rfl | hx
          · decide
          · exact h2 x hx, h3, by simp [h4, whoStep]⟩
      · split at h
        · rename_i hc; subst hc
          obtain ⟨w, h1, h2, h3, h4⟩ := ih _ h
          exact ⟨'o' :: w, by simp [h1], by
            intro x hx; rcases List.mem_cons.1 hx with rfl | hx
            · decide
            · exact h2 x hx, h3, by simp [h4, whoStep]⟩
        · split at h
          · rename_i hc; subst hc
            obtain ⟨w, h1, h2, h3, h4⟩ := ih _ h
            exact ⟨'a' :: w, by simp [h1], by
              intro x hx; rcases List.mem_cons.1 hx with rfl | hx
              · decide
              · exact h2 x hx, h3, by simp [h4, whoStep]⟩
          · split at h
            · rename_i hc
              cases h
              exact ⟨[], rfl, by simp, (isOpCh_iff _).2 hc, rfl⟩
            · cases h

theorem permsLoop_ret_err (cs : List Char) (p : Nat) (o : Outcome Nat)
    (h : permsLoop cs p = .ret o) : ∃ e, o = .err e := by
  induction cs generalizing p with
  | nil => simp only [permsLoop] at h; cases h
  | cons c cs ih =>
    simp only [permsLoop] at h
    repeat' split at h
    all_goals first | exact ih _ h | (cases h; done) | (cases h; exact ⟨_, rfl⟩)

theorem permsLoop_done_shape (cs : List Char) (p p' : Nat) (r : List Char)
    (h : permsLoop cs p = .done p' r) :
    ∃ ps, (∀ x ∈ ps, isPermCh x = true) ∧ p' = ps.foldl permStep p ∧
      ((cs = ps ∧ r = []) ∨ cs = ps ++ ',' :: r) := by
  induction cs generalizing p with
  | nil => simp only [permsLoop] at h; cases h; exact ⟨[], by simp, rfl, .inl ⟨rfl, rfl⟩⟩
  | cons c cs ih =>
    have key : ∀ q, (c = 'r' ∨ c = 'w' ∨ c = 'x') → permStep p c = q → permsLoop cs q = .done p' r →
        ∃ ps, (∀ x ∈ ps, isPermCh x = true) ∧ p' = ps.foldl permStep p ∧
          ((c :: cs = ps ∧ r = []) ∨ c :: cs = ps ++ ',' :: r) := by
      intro q hc hq h
      obtain ⟨ps, h1, h2, h3⟩ := ih _ h
      refine ⟨c :: ps, ?_, by simp [h2, hq], ?_⟩
      · intro x hx; rcases List.mem_cons.1 hx with rfl | hx
        · exact (isPermCh_iff _).2 hc
        · exact h1 x hx
      · rcases h3 with ⟨h3, h4⟩ | h3
        · exact .inl ⟨by rw [h3], h4⟩
        · exact .inr (by rw [h3]; rfl)
    simp only [permsLoop] at h
    split at h
    · rename_i hc; exact key _ (.inl hc) (by simp [permStep, hc]) h
    · split at h
      · rename_i hc; exact key _ (.inr (.inl hc)) (by subst hc; simp [permStep]) h
      · split at h
        · rename_i hc; exact key _ (.inr (.inr hc)) (by subst hc; simp [permStep]) h
        · split at h
          · rename_i hc; cases h
            exact ⟨[], by simp, rfl, .inr (by simp [hc])⟩
          · cases h

theorem foldl_whoStep_le (w : List Char) (g : Nat) (hg : g ≤ 511) : w.foldl whoStep g ≤ 511 := by
  induction w generalizing g with
  | nil => exact hg
  | cons x w ih =>
    apply ih
    have : whoStep g x < 2 ^ 9 := by
      unfold whoStep
      apply Nat.or_lt_two_pow (by omega)
      split
      · decide
      · split
        · decide
        · split <;> decide
    omega

/-- One iteration of the outer loop on ARBITRARY non-empty input (the same for every amount of
    fuel): it reports an error, or returns the mode unchanged, or has read a complete well-formed
    clause (with a possibly empty target list), applied it, and continues after the comma (or stops
    at the end of the text), or has met a target letter for another kind of entry and continues
    after the next comma without looking at what it skips. -/
theorem symLoop_iter_cases (k : EKind) (mode : Nat) (cs : List Char) (hcs : cs ≠ []) :
    (∃ e, ∀ f, symLoop k (f + 1) mode cs = .err e) ∨ (∀ f, symLoop k (f + 1) mode cs = .ok mode) ∨
    (∃ t w op ps rest', (∀ x ∈ t, isTargetCh x = true) ∧ w ≠ [] ∧ (∀ x ∈ w, isWhoCh x = true) ∧
      isOpCh op = true ∧ ps ≠ [] ∧ (∀ x ∈ ps, isPermCh x = true) ∧
      ((cs = t ++ ':' :: (w ++ op :: ps) ∧ rest' = []) ∨
        cs = t ++ ':' :: (w ++ op :: (ps ++ ',' :: rest'))) ∧
      ∀ f, symLoop k (f + 1) mode cs =
        symLoop k f (applyOp op (whoBits w) (permBits ps) mode) rest') ∨
    (k.link = false ∧ ∃ t x r, cs = t ++ x :: r ∧
      (∀ y ∈ t, isTargetCh y = true ∧ letterOk k y = true) ∧
      (x = 'd' ∨ x = 'f') ∧ letterOk k x = false ∧
      ∀ f, symLoop k (f + 1) mode cs = symLoop k f mode (skipClause r)) := by
  cases hT : targetLoop k mode cs with
  | ret o =>
    rcases targetLoop_ret_cases k mode cs o hT with ⟨e, rfl⟩ | rfl
    · exact .inl ⟨e, fun f => symLoop_ret k f mode cs _ hcs hT⟩
    · exact .inr (.inl fun f => symLoop_ret k f mode cs _ hcs hT)
  | skip R =>
    obtain ⟨hl, t, x, r, h1, h2, h3, h4, rfl⟩ := targetLoop_skip_shape k mode cs R hT
    exact .inr (.inr (.inr ⟨hl, t, x, r, h1, h2, h3, h4,
      fun f => symLoop_skip k f mode cs _ hcs hT⟩))
  | toGroup R =>
    obtain ⟨t, hcs', htc⟩ := targetLoop_toGroup_shape k mode cs R hT
    obtain ⟨c, cs1, rfl⟩ : ∃ c cs1, cs = c :: cs1 := by
      cases cs with
      | nil => exact absurd rfl hcs
      | cons c cs1 => exact ⟨c, cs1, rfl⟩
    cases R with
    | nil => right; left; intro f; simp only [symLoop, hT]
    | cons x R =>
      cases hG : groupLoop (x :: R) 0 with
      | ret o =>
        obtain ⟨e, rfl⟩ := groupLoop_ret_err _ _ _ hG
        left; exact ⟨e, fun f => by simp only [symLoop, hT, hG]⟩
      | toPerms op g R' =>
        obtain ⟨w, hR, hwc, ho, hg⟩ := groupLoop_toPerms_shape _ _ _ _ _ hG
        by_cases hg0 : g = 0
        · left; exact ⟨.invalidChmodGroup, fun f => by simp only [symLoop, hT, hG, if_pos hg0]⟩
        · have hw : w ≠ [] := by
            intro hw; subst hw; exact hg0 hg
          cases R' with
          | nil => right; left; intro f; simp only [symLoop, hT, hG, if_neg hg0]
          | cons y R' =>
            cases hP : permsLoop (y :: R') 0 with
            | ret o =>
              obtain ⟨e, rfl⟩ := permsLoop_ret_err _ _ _ hP
              left; exact ⟨e, fun f => by simp only [symLoop, hT, hG, hP, if_neg hg0]⟩
            | done p rest' =>
              obtain ⟨ps, hpc, hp, hshape⟩ := permsLoop_done_shape _ _ _ _ hP
              by_cases hp0 : p = 0
              · left; exact ⟨.invalidChmodPermissions,
                  fun f => by simp only [symLoop, hT, hG, hP, if_neg hg0, if_pos hp0]⟩
              · have hps : ps ≠ [] := by
                  intro hps; subst hps; exact hp0 hp
                right; right; left
                refine ⟨t, w, op, ps, rest', htc, hw, hwc, ho, hps, hpc, ?_, ?_⟩
                · rcases hshape with ⟨h1, h2⟩ | h1
                  · left; exact ⟨by rw [hcs', hR, h1], h2⟩
                  · right; rw [hcs', hR, h1]
                · intro f
                  rw [symLoop_step k f mode _ _ _ rest' op g p hcs hT (by simp) hG hg0 (by simp)
                    hP hp0, whoBits_eq, permBits_eq, ← hg, ← hp]

/-- `symLoop_iter_cases` for one given amount of fuel -/
theorem symLoop_succ_cases (k : EKind) (f mode : Nat) (cs : List Char) (hcs : cs ≠ []) :
    (∃ e, symLoop k (f + 1) mode cs = .err e) ∨ symLoop k (f + 1) mode cs = .ok mode ∨
    (∃ t w op ps rest', (∀ x ∈ t, isTargetCh x = true) ∧ w ≠ [] ∧ (∀ x ∈ w, isWhoCh x = true) ∧
      isOpCh op = true ∧ ps ≠ [] ∧ (∀ x ∈ ps, isPermCh x = true) ∧
      ((cs = t ++ ':' :: (w ++ op :: ps) ∧ rest' = []) ∨
        cs = t ++ ':' :: (w ++ op :: (ps ++ ',' :: rest'))) ∧
      symLoop k (f + 1) mode cs =
        symLoop k f (applyOp op (whoBits w) (permBits ps) mode) rest') ∨
    (∃ R, symLoop k (f + 1) mode cs = symLoop k f mode R) := by
  rcases symLoop_iter_cases k mode cs hcs with ⟨e, he⟩ | he |
    ⟨t, w, op, ps, rest', h1, h2, h3, h4, h5, h6, h7, he⟩ | ⟨_, _, _, r, _, _, _, _, he⟩
  · exact .inl ⟨e, he f⟩
  · exact .inr (.inl (he f))
  · exact .inr (.inr (.inl ⟨t, w, op, ps, rest', h1, h2, h3, h4, h5, h6, h7, he f⟩))
  · exact .inr (.inr (.inr ⟨_, he f⟩))

/-- every accepted run keeps the bits above the nine permission bits, for arbitrary text -/
theorem symLoop_keeps (k : EKind) (cur : Nat) :
    ∀ (f mode : Nat) (cs : List Char) (m : Nat), mode / 512 = cur / 512 → mode < 2 ^ 32 →
      symLoop k f mode cs = .ok m → m / 512 = cur / 512 ∧ m < 2 ^ 32 := by
  intro f
  induction f with
  | zero =>
    intro mode cs m h1 h2 h
    simp only [symLoop] at h; cases h; exact ⟨h1, h2⟩
  | succ f ih =>
    intro mode cs m h1 h2 h
    by_cases hcs : cs = []
    · subst hcs; rw [symLoop_nil] at h; cases h; exact ⟨h1, h2⟩
    · rcases symLoop_succ_cases k f mode cs hcs with ⟨e, he⟩ | he |
        ⟨t, w, op, ps, rest', _, _, hwc, _, _, _, _, he⟩ | ⟨R, he⟩
      · rw [he] at h; cases h
      · rw [he] at h; cases h; exact ⟨h1, h2⟩
      · rw [he] at h
        have hk := applyOp_keeps op (whoBits w) (permBits ps) mode
          (by rw [whoBits_eq]; exact foldl_whoStep_le w 0 (by omega)) h2
        exact ih _ rest' m (by rw [hk.1, h1]) hk.2 h
      · rw [he] at h
        exact ih _ R m h1 h2 h

theorem mode_keeps (k : EKind) (cur : Nat) (sym : List Char) (m : Nat)
    (hcur : cur < 2 ^ 32) (h : Chmod.mode k cur 0 sym = .ok m) (hne : sym ≠ []) :
    m / 512 = cur / 512 ∧ m < 2 ^ 32 := by
  unfold Chmod.mode at h
  rw [if_neg (by simp), if_neg hne] at h
  exact symLoop_keeps k cur _ cur sym m rfl hcur h

/-! ### the fuel is irrelevant once it exceeds the length of the text -/

theorem symLoop_fuel (k : EKind) :
    ∀ (f f' mode : Nat) (cs : List Char), cs.length < f → cs.length < f' →
      symLoop k f mode cs = symLoop k f' mode cs := by
  intro f
  induction f with
  | zero => intro f' mode cs h; omega
  | succ f ih =>
    intro f' mode cs h h'
    obtain ⟨g, rfl⟩ : ∃ g, f' = g + 1 := ⟨f' - 1, by omega⟩
    by_cases hcs : cs = []
    · subst hcs; rw [symLoop_nil, symLoop_nil]
    · rcases symLoop_iter_cases k mode cs hcs with ⟨e, he⟩ | he |
        ⟨t, w, op, ps, rest', _, _, _, _, _, _, hshape, he⟩ | ⟨_, t, x, r, hshape, _, _, _, he⟩
      · rw [he f, he g]
      · rw [he f, he g]
      · rw [he f, he g]
        have hlen : rest'.length < cs.length := by
          rcases hshape with ⟨h1, h2⟩ | h1
          · subst h2; cases cs with
            | nil => exact absurd rfl hcs
            | cons _ _ => simp
          · rw [h1]; simp only [List.length_append, List.length_cons]; omega
        exact ih g _ rest' (by omega) (by omega)
      · rw [he f, he g]
        have hlen : (skipClause r).length < cs.length := by
          have := skipClause_length_le r
          rw [hshape]; simp only [List.length_append, List.length_cons]; omega
        exact ih g _ _ (by omega) (by omega)

/-- `Chmod.mode` as a run of the loop with any sufficient fuel -/
theorem mode_eq_symLoop (k : EKind) (cur : Nat) (sym : List Char) (hne : sym ≠ []) (f : Nat)
    (hf : sym.length < f) : Chmod.mode k cur 0 sym = symLoop k f cur sym := by
  unfold Chmod.mode
  rw [if_neg (by simp), if_neg hne]
  exact symLoop_fuel k _ _ cur sym (Nat.lt_succ_self _) hf

/-! ### a first clause for another kind is skipped unread -/

/-- Exact behaviour on a skipped first clause, for ARBITRARY text after the offending target
    letter: the call means what the text after the next comma means (nothing when there is no
    comma, or nothing after it). -/
theorem mode_skip_first (k : EKind) (cur : Nat) (t : List Char) (x : Char) (r : List Char)
    (hl : k.link = false) (ht : ∀ y ∈ t, isTargetCh y = true ∧ letterOk k y = true)
    (hx : x = 'd' ∨ x = 'f') (hbad : letterOk k x = false) :
    Chmod.mode k cur 0 (t ++ x :: r) =
      if skipClause r = [] then .ok cur else Chmod.mode k cur 0 (skipClause r) := by
  have hne : t ++ x :: r ≠ [] := by simp
  have hlen := skipClause_length_le r
  rw [mode_eq_symLoop k cur _ hne ((t ++ x :: r).length + 1) (Nat.lt_succ_self _),
    symLoop_skip k _ cur _ _ hne (targetLoop_skip_at k cur t x r hl ht hx hbad)]
  split
  · rename_i h; rw [h, symLoop_nil]
  · rename_i h
    rw [mode_eq_symLoop k cur _ h (t ++ x :: r).length]
    simp only [List.length_append, List.length_cons]; omega

/-! ### malformed first clause -/

/-- a malformed first clause is reported, or nothing is changed, or the text starts with `:`
    (empty target list, which the code accepts as "all"), or the clause is skipped unread at a
    target letter for another kind and the call means what the text after the next comma means -/
theorem mode_malformed_any (k : EKind) (cur : Nat) (sym : List Char) (hne : sym ≠ [])
    (hmal : parseClause ((splitComma sym).headD []) = none) :
    (∃ e, Chmod.mode k cur 0 sym = .err e) ∨ Chmod.mode k cur 0 sym = .ok cur ∨
      (∃ rest, sym = ':' :: rest) ∨
      (k.link = false ∧ ∃ t x r, sym = t ++ x :: r ∧
        (∀ y ∈ t, isTargetCh y = true ∧ letterOk k y = true) ∧ (x = 'd' ∨ x = 'f') ∧
        letterOk k x = false ∧ skipClause r ≠ [] ∧
        Chmod.mode k cur 0 sym = Chmod.mode k cur 0 (skipClause r)) := by
  rcases symLoop_iter_cases k cur sym hne with ⟨e, he⟩ | he |
    ⟨t, w, op, ps, rest', htc, hw, hwc, ho, hps, hpc, hshape, _⟩ | ⟨hl, t, x, r, h1, h2, h3, h4, _⟩
  · left; refine ⟨e, ?_⟩
    unfold Chmod.mode; rw [if_neg (by simp), if_neg hne]; exact he _
  · right; left
    unfold Chmod.mode; rw [if_neg (by simp), if_neg hne]; exact he _
  · by_cases ht : t = []
    · subst ht
      right; right; left
      rcases hshape with ⟨h1, _⟩ | h1 <;> exact ⟨_, by rw [h1]; rfl⟩
    · exfalso
      have hcomma := comma_not_mem_clause t w ps op htc hwc ho hpc
      have hhead : (splitComma sym).headD [] = t ++ ':' :: (w ++ op :: ps) := by
        rcases hshape with ⟨h1, _⟩ | h1
        · rw [h1, splitComma_no_comma _ hcomma]; rfl
        · have : sym = (t ++ ':' :: (w ++ op :: ps)) ++ ',' :: rest' := by
            rw [h1]; simp
          rw [this, splitComma_append_comma _ _ hcomma]; rfl
      rw [hhead, parseClause_build t w ps op ht htc hw hwc ho hps hpc] at hmal
      cases hmal
  · have hm := mode_skip_first k cur t x r hl h2 h3 h4
    rw [← h1] at hm
    by_cases hs : skipClause r = []
    · right; left; rw [hm, if_pos hs]
    · right; right; right
      exact ⟨hl, t, x, r, h1, h2, h3, h4, hs, by rw [hm, if_neg hs]⟩

/-- a malformed first clause whose (non-empty) run of leading target letters admits the entry kind
    is reported, or nothing is changed -/
theorem mode_malformed (k : EKind) (cur : Nat) (sym : List Char)
    (hmal : parseClause ((splitComma sym).headD []) = none)
    (htl : ∃ c rest, sym = c :: rest ∧ (c = 'd' ∨ c = 'f' ∨ c = 'a'))
    (hok : ∀ y ∈ sym.takeWhile isTargetCh, letterOk k y = true) :
    (∃ e, Chmod.mode k cur 0 sym = .err e) ∨ Chmod.mode k cur 0 sym = .ok cur := by
  obtain ⟨c, rest, hsym, hc⟩ := htl
  rcases mode_malformed_any k cur sym (by rw [hsym]; simp) hmal with h | h | ⟨r, h⟩ |
    ⟨_, t, x, r, h1, h2, h3, h4, _⟩
  · exact .inl h
  · exact .inr h
  · rw [hsym] at h
    have : c = ':' := (List.cons.inj h).1
    subst this
    exact absurd hc (by decide)
  · exfalso
    have hxt : isTargetCh x = true := by rcases h3 with rfl | rfl <;> decide
    have hmem : x ∈ sym.takeWhile isTargetCh := by
      rw [h1, List.takeWhile_append_of_pos (fun y hy => (h2 y hy).1),
        List.takeWhile_cons_of_pos hxt]
      simp
    rw [hok x hmem] at h4
    cases h4

/-- a link is never altered, whatever the text: error or unchanged -/
theorem mode_link (k : EKind) (cur : Nat) (sym : List Char) (hl : k.link = true) (hne : sym ≠ []) :
    (∃ e, Chmod.mode k cur 0 sym = .err e) ∨ Chmod.mode k cur 0 sym = .ok cur := by
  obtain ⟨c, cs, rfl⟩ : ∃ c cs, sym = c :: cs := by
    cases sym with
    | nil => exact absurd rfl hne
    | cons c cs => exact ⟨c, cs, rfl⟩
  unfold Chmod.mode
  rw [if_neg (by simp), if_neg hne]
  by_cases hc : c ≠ 'd' ∧ c ≠ 'f' ∧ c ≠ 'a' ∧ c ≠ ':'
  · left; exact ⟨.invalidChmodTarget, by simp only [symLoop, targetLoop, if_pos hc]⟩
  · right; simp only [symLoop, targetLoop, if_neg hc, hl, if_true]

end Rivia.Lemmas
