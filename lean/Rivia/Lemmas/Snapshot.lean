/-
  Rivia.Lemmas.Snapshot — `_clone_entries` (model `cloneLoop` / `cloneEntries` / `entriesOf`) produces
  a correct snapshot on every well-formed state.

  Loop invariant `LI ents a W acc` (worklist `W`, snapshot so far `acc`, traversal root `a`):
    sub    every pair of `acc` is a pair of the state's entry list (so it sits under its own key);
    kids   every child listed by a snapshot entry is in the snapshot or on the worklist;
    reach  every existing key at or below `a` is in the snapshot or below a worklist path;
    wex    every worklist path exists (so the loop never fails with `DoesNotExist`).
  Together with the potential of SnapshotFuel (the worklist is empty before the fuel is) this gives
  `snapshot_correct`.

  The snapshot also contains the existing targets of the links it meets, and the subtrees of those
  targets (they go through the same worklist), also when they lie outside the subtree of `a`;
  `SnapOf` only speaks about keys at or below `a`, and all snapshot pairs are state pairs anyway
  (`snapshot_sub`), so `SnapOf` holds as defined.
-/
import Rivia.Lemmas.SnapshotFuel
import Rivia.Lemmas.Walk

namespace Rivia.Lemmas.Snap
open Rivia Rivia.Memfs Rivia.Spec Rivia.Lemmas

/-! ### the name order is total -/

theorem strLt_cons (a b : Char) (as bs : Str) :
    strLt (a :: as) (b :: bs) =
      if a.val.toNat < b.val.toNat then true else if b.val.toNat < a.val.toNat then false else strLt as bs := by
  simp only [strLt, GT.gt, UInt32.lt_iff_toNat_lt]

theorem strLt_tricho : ∀ (a b : Str), strLt a b = true ∨ a = b ∨ strLt b a = true := by
  intro a
  induction a with
  | nil => intro b; cases b with
    | nil => right; left; rfl
    | cons y ys => left; rfl
  | cons x xs ih =>
    intro b
    cases b with
    | nil => right; right; rfl
    | cons y ys =>
      rw [strLt_cons, strLt_cons]
      by_cases h1 : x.val.toNat < y.val.toNat
      · left; rw [if_pos h1]
      · by_cases h2 : y.val.toNat < x.val.toNat
        · right; right; rw [if_pos h2]
        · rw [if_neg h1, if_neg h2, if_neg h2, if_neg h1]
          have hxy : x = y := by
            apply Char.ext
            apply UInt32.toNat_inj.1
            omega
          subst hxy
          rcases ih ys with h | h | h
          · left; exact h
          · right; left; rw [h]
          · right; right; exact h

/-- a list in `insertName` order (no later name below an earlier one) without duplicates is
    strictly increasing -/
theorem strict_of_sorted_nodup {fs : List Str} (hs : fs.Pairwise (fun a b => strLt b a = false))
    (hn : fs.Nodup) : fs.Pairwise (fun a b => strLt a b = true) := by
  have hn' := List.nodup_iff_pairwise_ne.1 hn
  have := hs.and hn'
  refine this.imp ?_
  intro a b ⟨h1, h2⟩
  rcases strLt_tricho a b with h | h | h
  · exact h
  · exact absurd h h2
  · rw [h1] at h; cases h

/-! ### association lists -/

theorem mem_alInsert {β : Type} {kv : FsPath × β} {k0 : FsPath} {v0 : β} {l : List (FsPath × β)}
    (h : kv ∈ alInsert k0 v0 l) : kv = (k0, v0) ∨ kv ∈ l := by
  induction l with
  | nil => simp [alInsert] at h; exact .inl h
  | cons x r ih =>
    obtain ⟨k1, v1⟩ := x
    unfold alInsert at h
    split at h
    · rcases List.mem_cons.1 h with h | h
      · exact .inl h
      · exact .inr (List.mem_cons_of_mem _ h)
    · rcases List.mem_cons.1 h with h | h
      · exact .inr (h ▸ List.mem_cons_self)
      · rcases ih h with h | h
        · exact .inl h
        · exact .inr (List.mem_cons_of_mem _ h)

/-! ### what the tree invariant gives about the entry list -/

structure Tree (ents : Ents) : Prop where
  /-- every listed child exists -/
  listed : ∀ k e, (k, e) ∈ ents → ∀ n ∈ names e, (alLookup (k ++ [n]) ents).isSome = true
  /-- the first step towards an existing key below `p` is a name `p` lists -/
  chain : ∀ p n t, (alLookup (p ++ n :: t) ents).isSome = true →
    ∃ e, alLookup p ents = some e ∧ n ∈ names e

theorem tree_of_inv {s : State} (hinv : Spec.Inv s) : Tree s.entries := by
  have hf := invF_of_inv hinv
  constructor
  · intro k e hke n hn
    unfold names at hn
    cases hfs : e.files with
    | none => rw [hfs] at hn; simp at hn
    | some fs =>
      rw [hfs] at hn
      obtain ⟨c, hc⟩ := hf.child k e fs n (alLookup_of_mem hf.nodup hke) hfs (by simpa using hn)
      rw [hc]; rfl
  · intro p n t h
    obtain ⟨x, hx⟩ := Option.isSome_iff_exists.1 h
    obtain ⟨pe, hpe, _, _, hn⟩ := Walk.chain_of_inv hinv (p := p) (t := n :: t) hx [] n t rfl
    exact ⟨pe, by simpa using hpe, hn⟩

/-! ### the loop invariant -/

structure LI (ents : Ents) (a : FsPath) (W : List FsPath) (acc : Snap) : Prop where
  sub : ∀ kv ∈ acc, kv ∈ ents
  kids : ∀ k e, (k, e) ∈ acc → ∀ n ∈ names e,
    (alLookup (k ++ [n]) acc).isSome = true ∨ (k ++ [n]) ∈ W
  reach : ∀ k, a <+: k → (alLookup k ents).isSome = true →
    (alLookup k acc).isSome = true ∨ ∃ w ∈ W, w <+: k
  wex : ∀ w ∈ W, (alLookup w ents).isSome = true

theorem li_init {ents : Ents} {a : FsPath} (ha : (alLookup a ents).isSome = true) : LI ents a [a] [] := by
  refine ⟨fun _ h => (nomatch h), fun _ _ h => (nomatch h), fun k hk _ => Or.inr ⟨a, by simp, hk⟩, ?_⟩
  intro w hw
  rw [List.mem_singleton] at hw
  subst hw; exact ha

/-- a proper extension of `p` is `p ++ n :: t` -/
theorem prefix_ne_split {p k : FsPath} (h : p <+: k) (hne : k ≠ p) : ∃ n t, k = p ++ n :: t := by
  obtain ⟨t, rfl⟩ := h
  cases t with
  | nil => simp at hne
  | cons n t => exact ⟨n, t, rfl⟩

theorem li_step {ents : Ents} (ok : EntsOK ents) (tr : Tree ents) {a p : FsPath} {W : List FsPath}
    {acc : Snap} {e : Entry} (li : LI ents a (p :: W) acc) (hp : alLookup p ents = some e) :
    LI ents a (cloneNext ents e W acc).1 (cloneNext ents e W acc).2 := by
  have hm := alLookup_mem hp
  have hpath : e.path = p := ok.path p e hm
  have hsup := cloneNext_fst_sup ents e W acc
  have hsub := cloneNext_fst_sub ents e W acc
  rw [hpath] at hsup hsub
  rw [cloneNext_snd, hpath]
  refine ⟨?_, ?_, ?_, ?_⟩
  · intro kv hkv
    rcases mem_alInsert hkv with h | h
    · rw [h]; exact hm
    · exact li.sub kv h
  · intro k e' hke n hn
    rcases mem_alInsert hke with h | h
    · cases h
      exact .inr (hsup _ (.inl (List.mem_map.2 ⟨n, hn, rfl⟩)))
    · rcases li.kids k e' h n hn with h1 | h1
      · exact .inl ((isSome_alInsert _ p e acc).2 (.inr h1))
      · rcases List.mem_cons.1 h1 with h2 | h2
        · exact .inl ((isSome_alInsert _ p e acc).2 (.inl h2.symm))
        · exact .inr (hsup _ (.inr h2))
  · intro k hak hk
    rcases li.reach k hak hk with h | ⟨w, hw, hwk⟩
    · exact .inl ((isSome_alInsert _ p e acc).2 (.inr h))
    · rcases List.mem_cons.1 hw with h2 | h2
      · subst h2
        by_cases hkp : k = w
        · exact .inl ((isSome_alInsert _ w e acc).2 (.inl hkp.symm))
        · obtain ⟨n, t, rfl⟩ := prefix_ne_split hwk hkp
          obtain ⟨e0, he0, hn⟩ := tr.chain w n t hk
          rw [hp] at he0; cases he0
          refine .inr ⟨w ++ [n], hsup _ (.inl (List.mem_map.2 ⟨n, hn, rfl⟩)), ?_⟩
          exact ⟨t, by simp⟩
      · exact .inr ⟨w, hsup _ (.inr h2), hwk⟩
  · intro w hw
    rcases hsub w hw with h | h | h
    · obtain ⟨n, hn, rfl⟩ := List.mem_map.1 h
      exact tr.listed p e hm n hn
    · exact li.wex w (List.mem_cons_of_mem _ h)
    · exact h

/-- with enough fuel the loop ends with an empty worklist, without error -/
theorem cloneLoop_li {ents : Ents} (ok : EntsOK ents) (tr : Tree ents) (a : FsPath) :
    ∀ (f : Nat) (W : List FsPath) (acc : Snap), CI ents W acc → PhiC ents W acc < f →
      LI ents a W acc → ∃ snap, cloneLoop ents f W acc = .ok snap ∧ LI ents a [] snap := by
  intro f
  induction f with
  | zero => intro W acc _ h; omega
  | succ f ih =>
    intro W acc ci hf li
    cases W with
    | nil => exact ⟨acc, by simp [cloneLoop], li⟩
    | cons p W =>
      rw [cloneLoop_succ]
      obtain ⟨e, he⟩ := Option.isSome_iff_exists.1 (li.wex p List.mem_cons_self)
      rw [he]
      obtain ⟨ci', hlt⟩ := clone_step ok ci he
      exact ih _ _ ci' (by omega) (li_step ok tr li he)

/-! ### the final snapshot -/

/-- the state's child-name lists are in `insertName` order (= `C03_SortedKids`, `InvB.SortedKids`) -/
def Sorted (ents : Ents) : Prop :=
  ∀ kv ∈ ents, ∀ fs, kv.2.files = some fs → fs.Pairwise (fun a b => strLt b a = false)

theorem snapWf_of_li {ents : Ents} (ok : EntsOK ents) (hs : Sorted ents) {a : FsPath} {snap : Snap}
    (li : LI ents a [] snap) : SnapWf snap := by
  intro kv hkv
  obtain ⟨k, e⟩ := kv
  have hm := li.sub _ hkv
  refine ⟨ok.path k e hm, ?_, ?_⟩
  · have hnd := ok.namesNodup k e hm
    unfold names at hnd
    cases hfs : e.files with
    | none => simp
    | some fs =>
      rw [hfs] at hnd
      simp only [Option.getD_some] at hnd ⊢
      exact strict_of_sorted_nodup (hs _ hm fs hfs) hnd
  · intro n hn
    rcases li.kids k e hkv n hn with h | h
    · exact h
    · cases h

theorem lookup_of_li {ents : Ents} (ok : EntsOK ents) {a : FsPath} {snap : Snap}
    (li : LI ents a [] snap) (k : FsPath) (hak : a <+: k) (hk : (alLookup k ents).isSome = true) :
    alLookup k snap = alLookup k ents := by
  rcases li.reach k hak hk with h | ⟨w, hw, _⟩
  · obtain ⟨x, hx⟩ := Option.isSome_iff_exists.1 h
    rw [hx, alLookup_of_mem ok.nodup (li.sub _ (alLookup_mem hx))]
  · cases hw

theorem snapOf_of_li {s : State} (ok : EntsOK s.entries) {a : FsPath} {snap : Snap}
    (li : LI s.entries a [] snap) : SnapOf s a snap := by
  constructor
  · intro kv hkv hak
    exact lookup_of_li ok li kv.1 hak (by rw [alLookup_of_mem ok.nodup (k := kv.1) (v := kv.2) hkv]; rfl)
  · intro kv hkv hak
    have hm := li.sub _ hkv
    exact lookup_of_li ok li kv.1 hak (by rw [alLookup_of_mem ok.nodup (k := kv.1) (v := kv.2) hm]; rfl)

/-! ### the theorem -/

/-- `_clone_entries` on a well-formed state: it succeeds (no error, not a fuel-truncated result),
    every pair of the snapshot is a pair of the state, the snapshot is well-formed, holds the root
    entry under its key, and agrees with the state on every key at or below the root -/
theorem snapshot_correct_core {s : State} (hinv : Spec.Inv s) (hs : Sorted s.entries)
    {a : FsPath} {rootE : Entry} (hroot : alLookup a s.entries = some rootE) :
    ∃ snap, entriesOf s a = .ok (rootE, snap) ∧ SnapWf snap ∧ InSnap snap rootE ∧ SnapOf s a snap ∧
      (∀ kv ∈ snap, kv ∈ s.entries) := by
  have hf := invF_of_inv hinv
  have ok := entsOK_of_invF hf
  have tr := tree_of_inv hinv
  obtain ⟨snap, hcl, li⟩ := cloneLoop_li ok tr a _ [a] [] (ci_init _ _) (phiC_init_lt s.entries a)
    (li_init (by rw [hroot]; rfl))
  refine ⟨snap, ?_, snapWf_of_li ok hs li, ?_, snapOf_of_li ok li, li.sub⟩
  · unfold entriesOf cloneEntries
    rw [hroot]
    simp only [hcl]
  · unfold InSnap
    rw [hf.path a rootE hroot, lookup_of_li ok li a (List.prefix_refl _) (by rw [hroot]; rfl), hroot]

/-- when the root key does not exist `entriesOf` fails with `DoesNotExist` (restates the definition) -/
theorem entriesOf_missing {s : State} {a : FsPath} (h : alLookup a s.entries = none) :
    entriesOf s a = .err .doesNotExist := by
  unfold entriesOf; rw [h]

end Rivia.Lemmas.Snap
