/-
  Rivia.Lemmas.StdfsWfStepWalk — the traversals of the Stdfs model (`_chmod`, `_chown`, `_copy`) keep the
  tree well-formed, and with them EVERY operation: `stdfs_step_wf`.
-/
import Rivia.Lemmas.StdfsWfStepOps

namespace Rivia.Lemmas.StdfsWf
open Rivia Rivia.Memfs Rivia.File Rivia.Spec Rivia.Spec.TreeFs Rivia.Posix Rivia.Stdfs
open Rivia.Lemmas.StdfsL
open Rivia.Stdfs.SM

/-! ### `_chmod` -/

theorem wf_setPerm {t : T} (hw : StdfsL.Wf t) (k : FsPath) (m : Nat) : StdfsL.Wf (setPerm t k m).2 := by
  unfold setPerm
  cases e : Posix.chmod t k m with
  | ok t' => exact wf_of_facts (wf_chmod (wf_facts hw) e)
  | error er => exact hw

theorem wf_chmodPre (c : ChmodOpts) (x : SEntry) {t : T} (hw : StdfsL.Wf t) : StdfsL.Wf (chmodPre c x t).2 := by
  unfold chmodPre
  split
  · split
    · exact wf_setPerm hw _ _
    · exact hw
  all_goals exact hw

theorem wf_chmodPost (c : ChmodOpts) (x : SEntry) {t : T} (hw : StdfsL.Wf t) : StdfsL.Wf (chmodPost c x t).2 := by
  unfold chmodPost
  dsimp only
  split
  · split
    · exact wf_setPerm hw _ _
    · exact hw
  all_goals exact hw

theorem wf_visitFold (below : SEntry → T → Outcome Unit × T)
    (hb : ∀ k t, StdfsL.Wf t → StdfsL.Wf (below k t).2) :
    ∀ (l : List SEntry) (acc : Outcome Unit × T), StdfsL.Wf acc.2 →
      StdfsL.Wf (l.foldl (visitStep below) acc).2 := by
  intro l
  induction l with
  | nil => intro acc h; exact h
  | cons x r ih =>
    intro acc h
    rw [List.foldl_cons]
    apply ih
    unfold visitStep
    split
    · exact hb _ _ h
    · exact h

theorem wf_chmodVisit (env : Env) (c : ChmodOpts) (md : Option Nat) :
    ∀ (f depth : Nat) (e : SEntry) (t : T), StdfsL.Wf t → StdfsL.Wf (chmodVisit env c md f depth e t).2 := by
  intro f
  induction f with
  | zero => intro depth e t hw; exact hw
  | succ f ih =>
    intro depth e t hw
    simp only [chmodVisit]
    split
    · have h1 := wf_chmodPre c e hw
      split
      · rename_i t1 heq
        rw [heq] at h1
        split
        · rename_i kids _
          have h2 := wf_visitFold (chmodVisit env c md f (depth + 1)) (fun k t h => ih _ k t h)
            (sortByName (kids.filter (·.dir)) ++ sortByName (kids.filter (fun x => !x.dir)))
            ((.ok (), t1) : Outcome Unit × T) h1
          split
          · rename_i t2 heq2
            rw [heq2] at h2
            exact wf_chmodPost c e h2
          · exact h2
        all_goals exact h1
      · exact h1
    · exact wf_chmodPost c e hw

theorem pres_chmod (env : Env) (p : Str) (c : ChmodOpts) : Pres (Stdfs.chmod env p c) := by
  intro t hw
  unfold Stdfs.chmod
  split
  · exact hw
  · split
    · split
      · exact wf_chmodVisit _ _ _ _ _ _ _ hw
      all_goals exact hw
    all_goals exact hw

/-! ### `_chown` -/

theorem wf_walkFold (env : Env) (below : SEntry → SM Unit) (hb : ∀ k, Pres (below k)) (dir : FsPath) :
    ∀ (l : List Str) (acc : Outcome Unit × T), StdfsL.Wf acc.2 →
      StdfsL.Wf (l.foldl (walkStep env below dir) acc).2 := by
  intro l
  induction l with
  | nil => intro acc h; exact h
  | cons x r ih =>
    intro acc h
    rw [List.foldl_cons]
    apply ih
    unfold walkStep
    split
    · split
      · exact hb _ _ h
      all_goals exact h
    · exact h

theorem pres_walkPre (env : Env) (stepf : SEntry → SM Unit) (hs : ∀ x, Pres (stepf x)) (md : Option Nat) :
    ∀ (f depth : Nat) (e : SEntry), Pres (walkPre env stepf md f depth e) := by
  intro f
  induction f with
  | zero => intro depth e t hw; exact hw
  | succ f ih =>
    intro depth e t hw
    simp only [walkPre]
    split
    · split
      · exact hw
      · have h1 := hs e t hw
        split
        · rename_i t1 heq
          rw [heq] at h1
          exact wf_walkFold env _ (fun k => ih _ k) _ _ _ h1
        · exact h1
    · exact hs e t hw

theorem pres_chown (env : Env) (p : Str) (c : ChownOpts) : Pres (Stdfs.chown env p c) := by
  intro t hw
  unfold Stdfs.chown
  split
  · exact hw
  · split
    · split
      · exact pres_walkPre env _ (fun x => pres_sysM (fun _ _ h e => wf_chown h e)) _ _ _ _ t hw
      all_goals exact hw
    all_goals exact hw

/-! ### `_copy` -/

/-- `pres_auto` with the operations `_copy` calls -/
macro "pres_auto2" : tactic => `(tactic| repeat' (first
  | with_reducible exact pres_symlink _ _ _ | with_reducible exact pres_mkdirM _ _ _
  | with_reducible exact pres_pure _ | with_reducible exact pres_pure' _ | with_reducible exact pres_fail _
  | with_reducible exact pres_getT | with_reducible exact pres_liftO _
  | with_reducible exact pres_qry _ | with_reducible exact pres_absM _ _ | with_reducible exact pres_dirOf _
  | with_reducible exact pres_sysM (fun _ _ h e => wf_chmod h e)
  | with_reducible exact pres_sysM (fun _ _ h e => wf_copyFile h e)
  | with_reducible refine pres_forM (fun _ => ?_) _
  | with_reducible refine pres_bind ?_ (fun _ => ?_)
  | split
  | dsimp only))

theorem pres_copyStep (env : Env) (srcRoot dstRoot : FsPath) (copyInto : Bool) (dm fm : Option Nat)
    (src : SEntry) : Pres (Stdfs.copyStep env srcRoot dstRoot copyInto dm fm src) := by
  unfold Stdfs.copyStep
  pres_auto2

theorem pres_copy (env : Env) (a b : Str) (c : CopyOpts) : Pres (Stdfs.copy env a b c) := by
  unfold Stdfs.copy
  pres_auto2
  all_goals exact pres_copyStep _ _ _ _ _ _ _

/-! ### every operation -/

/-- **one step of the Stdfs model keeps the tree well-formed** — every operation, every argument, no
    domain hypothesis -/
theorem stdfs_step_wf (env : Env) (t : T) (op : Op) (hw : StdfsL.Wf t) : StdfsL.Wf (Stdfs.step env t op).2 := by
  cases op with
  | mkfile p => exact pres_mapVal (pres_mkfile _ _) t hw
  | mkfileM p m => exact pres_mapVal (pres_mkfileM _ _ _) t hw
  | mkdirP p => exact pres_mapVal (pres_mkdirP _ _) t hw
  | mkdirM p m => exact pres_mapVal (pres_mkdirM _ _ _) t hw
  | writeAll p d => exact pres_mapVal (pres_writeAll _ _ _) t hw
  | appendAll p d => exact pres_mapVal (pres_appendAll _ _ _) t hw
  | writeLines p ls => exact pres_mapVal (pres_writeLines _ _ _) t hw
  | appendLines p ls => exact pres_mapVal (pres_appendLines _ _ _) t hw
  | appendLine p l => exact pres_mapVal (pres_appendLine _ _ _) t hw
  | readAll p => exact pres_mapVal (pres_readAll _ _) t hw
  | readLines p => exact pres_mapVal (pres_readLines _ _) t hw
  | read p => exact pres_mapVal (pres_read _ _) t hw
  | remove p => exact pres_mapVal (pres_remove _ _) t hw
  | removeAll p => exact pres_mapVal (pres_removeAll _ _) t hw
  | symlink l tg => exact pres_mapVal (pres_symlink _ _ _) t hw
  | readlink p => exact pres_mapVal (pres_readlinkS _ _) t hw
  | readlinkAbs p => exact pres_readlinkAbs _ _ t hw
  | setCwd p => exact pres_mapVal (pres_setCwd _ _) t hw
  | abs p => exact pres_mapVal (pres_absM _ _) t hw
  | mode p => exact pres_mapVal (by pres_auto) t hw
  | uid p => exact pres_mapVal (by pres_auto) t hw
  | gid p => exact pres_mapVal (by pres_auto) t hw
  | owner p => exact pres_mapVal (by pres_auto) t hw
  | paths p => exact pres_mapVal (pres_listing1 _ _ _) t hw
  | dirs p => exact pres_mapVal (pres_listing1 _ _ _) t hw
  | files p => exact pres_mapVal (pres_listing1 _ _ _) t hw
  | allPaths p => exact pres_mapVal (pres_listingAll _ _ _) t hw
  | allDirs p => exact pres_mapVal (pres_listingAll _ _ _) t hw
  | allFiles p => exact pres_mapVal (pres_listingAll _ _ _) t hw
  | chmod p m => exact pres_mapVal (pres_chmod _ _ _) t hw
  | chmodB p c => exact pres_mapVal (pres_chmod _ _ _) t hw
  | chown p u g => exact pres_mapVal (pres_chown _ _ _) t hw
  | chownB p c => exact pres_mapVal (pres_chown _ _ _) t hw
  | copy a b => exact pres_mapVal (pres_copy _ _ _ _) t hw
  | copyB a b c => exact pres_mapVal (pres_copy _ _ _ _) t hw
  | moveP a b => exact pres_mapVal (pres_moveP _ _ _) t hw
  | _ => exact hw

theorem stdfs_run_wf (env : Env) : ∀ (ops : List Op) (t : T), StdfsL.Wf t → StdfsL.Wf (Stdfs.run env t ops)
  | [], _, h => h
  | op :: ops, t, h => stdfs_run_wf env ops _ (stdfs_step_wf env t op h)

end Rivia.Lemmas.StdfsWf
