/-
  Rivia.Lemmas.MoveP — `move_p` on the Memfs model: validation precedes mutation, the relocation
  loop cannot fail after validation, and its effect on the abstract tree.
-/
import Rivia.Lemmas.CopyMove
import Rivia.Lemmas.MovedEntry

set_option linter.unusedSimpArgs false

namespace Rivia.Lemmas
open Rivia Rivia.Str Rivia.Memfs Rivia.Spec Rivia.Memfs.M

/-! ### path resolution never touches the state -/

theorem absM_cases (env : Env) (p : Str) (s : State) :
    (∃ k, absM env p s = (.ok k, s)) ∨
    (∃ r : Outcome FsPath, absM env p s = (r, s) ∧ ∀ a, r ≠ .ok a) := by
  unfold absM
  cases absWith env (renderP s.cwd) p with
  | ok a => exact Or.inl ⟨_, rfl⟩
  | err k => exact Or.inr ⟨.err k, rfl, by intro a h; cases h⟩
  | panic => exact Or.inr ⟨.panic, rfl, by intro a h; cases h⟩
  | hang => exact Or.inr ⟨.hang, rfl, by intro a h; cases h⟩

theorem bind_not_ok {α β} {m : M α} {f : α → M β} {s : State} {r : Outcome α}
    (h : m s = (r, s)) (hr : ∀ a, r ≠ .ok a) :
    ∃ r' : Outcome β, (m >>= f) s = (r', s) ∧ ∀ b, r' ≠ .ok b := by
  rw [bind_apply, h]
  cases r with
  | ok a => exact absurd rfl (hr a)
  | err k => exact ⟨.err k, rfl, by intro a h; cases h⟩
  | panic => exact ⟨.panic, rfl, by intro a h; cases h⟩
  | hang => exact ⟨.hang, rfl, by intro a h; cases h⟩

/-- the final destination key of `move_p` -/
def moveDst (s : State) (sk dk : FsPath) : FsPath :=
  if isDirP s dk then toPath (mash (renderP dk) (baseName sk)) else dk

theorem moveDst_def (s : State) (sk dk : FsPath) :
    (if isDirP s dk = true then toPath (mash (renderP dk) (baseName sk)) else dk) = moveDst s sk dk := rfl

/-- what the validation phase of `move_p` has established when the relocation loop starts -/
structure MoveValid (s : State) (sk dk : FsPath) (srcE : Entry) : Prop where
  src : alLookup sk s.entries = some srcE
  ne : moveDst s sk dk ≠ sk
  notUnder : sk.isPrefixOf (moveDst s sk dk) = false
  dstNe : moveDst s sk dk ≠ []
  parent : ∃ pe, alLookup (moveDst s sk dk).dropLast s.entries = some pe ∧ pe.dir = true ∧ pe.link = false
  dst : alLookup (moveDst s sk dk) s.entries = none ∨
    ∃ x, alLookup (moveDst s sk dk) s.entries = some x ∧ x.file = true ∧ x.link = false ∧
      srcE.file = true ∧ srcE.link = false

/-- `move_p` either leaves without touching the state (every validation failure and the
    `src == dst` shortcut) or enters the relocation loop on the unchanged state -/
theorem moveM_cases (env : Env) (a b : Str) (s : State) :
    (∃ r : Outcome Unit, moveM env a b s = (r, s) ∧ ∀ u, r ≠ .ok u) ∨
    (∃ sk dk srcE, absM env a s = (.ok sk, s) ∧ absM env b s = (.ok dk, s) ∧
      alLookup sk s.entries = some srcE ∧ moveDst s sk dk = sk ∧ moveM env a b s = (.ok (), s)) ∨
    (∃ sk dk srcE, absM env a s = (.ok sk, s) ∧ absM env b s = (.ok dk, s) ∧
      MoveValid s sk dk srcE ∧
      moveM env a b s = moveLoop sk dk (isDirP s dk) (8 * (s.entries.length + 2)) [sk] s) := by
  unfold moveM
  rcases absM_cases env a s with ⟨sk, ha⟩ | ⟨r, ha, hr⟩
  · rw [bind_ok ha]
    rcases absM_cases env b s with ⟨dk, hb⟩ | ⟨r, hb, hr⟩
    · rw [bind_ok hb]
      simp only [get_bind_apply, getEntry_bind_apply]
      cases hs : alLookup sk s.entries with
      | none => exact Or.inl ⟨.err .doesNotExist, by simp, by intro u h; cases h⟩
      | some srcE =>
        simp only [mpure_bind]
        have hDdef : moveDst s sk dk =
            (if isDirP s dk = true then toPath (mash (renderP dk) (baseName sk)) else dk) := rfl
        generalize hD : (if isDirP s dk = true then toPath (mash (renderP dk) (baseName sk)) else dk) = D
        rw [hD] at hDdef
        by_cases h1 : D = sk
        · refine Or.inr (Or.inl ⟨sk, dk, srcE, ha, hb, hs, hDdef.trans h1, ?_⟩)
          simp only [h1, if_true, pure_apply]
        simp only [h1, if_false]
        cases h2 : sk.isPrefixOf D with
        | true => exact Or.inl ⟨.err .ioInvalidInput, by simp, by intro u h; cases h⟩
        | false =>
          simp only [Bool.false_eq_true, if_false]
          by_cases h3 : D = []
          · exact Or.inl ⟨.err .parentNotFound, by simp [h3, dirOf_nil], by intro u h; cases h⟩
          simp only [dirOf_ne_nil h3, mpure_bind, getEntry_bind_apply]
          cases h4 : alLookup D.dropLast s.entries with
          | none => exact Or.inl ⟨.err .doesNotExist, by simp, by intro u h; cases h⟩
          | some pe =>
            by_cases h5 : (pe.dir && !pe.link) = true
            · simp only [h5, if_true, mpure_bind, getEntry_bind_apply]
              have hpe : pe.dir = true ∧ pe.link = false := by simpa using h5
              cases h6 : alLookup D s.entries with
              | none =>
                refine Or.inr (Or.inr ⟨sk, dk, srcE, ha, hb, ?_, ?_⟩)
                · rw [← hDdef] at h1 h2 h3 h4 h6
                  exact ⟨hs, h1, h2, h3, ⟨pe, h4, hpe.1, hpe.2⟩, Or.inl h6⟩
                · simp only [mpure_bind]
              | some x =>
                by_cases h7 : (x.file && !x.link && srcE.file && !srcE.link) = true
                · have hx : ((x.file = true ∧ x.link = false) ∧ srcE.file = true) ∧ srcE.link = false := by
                    simpa using h7
                  refine Or.inr (Or.inr ⟨sk, dk, srcE, ha, hb, ?_, ?_⟩)
                  · rw [← hDdef] at h1 h2 h3 h4 h6
                    exact ⟨hs, h1, h2, h3, ⟨pe, h4, hpe.1, hpe.2⟩, Or.inr ⟨x, h6, hx.1.1.1, hx.1.1.2, hx.1.2, hx.2⟩⟩
                  · simp only [h7, if_true, mpure_bind]
                · exact Or.inl ⟨.err .existsAlready, by simp [h7], by intro u h; cases h⟩
            · exact Or.inl ⟨.err .isNotDir, by simp [h5], by intro u h; cases h⟩
    · exact Or.inl (bind_not_ok hb hr)
  · exact Or.inl (bind_not_ok ha hr)

/-! ### tree facts from the invariant -/

/-- no entry is both a directory and a file (holds in every reachable state; `Spec.Inv` does not
    state it) -/
def KindWf (s : State) : Prop := ∀ kv ∈ s.entries, (kv.2.dir && kv.2.file) = false

instance (s : State) : Decidable (KindWf s) := by unfold KindWf; infer_instance

theorem KindWf.at {s : State} (h : KindWf s) {k : FsPath} {e : Entry}
    (hk : alLookup k s.entries = some e) : (e.dir && e.file) = false := h (k, e) (alLookup_mem hk)

/-- every proper ancestor of an existing key is an existing real directory -/
theorem ancestor_is_dir {s : State} (hi : InvF s) :
    ∀ (c p : FsPath) (e : Entry), alLookup (p ++ c) s.entries = some e → c ≠ [] →
      ∃ pe, alLookup p s.entries = some pe ∧ pe.dir = true ∧ pe.link = false := by
  intro c
  induction hn : c.length generalizing c with
  | zero =>
    intro p e _ hc
    exact absurd (List.eq_nil_of_length_eq_zero hn) hc
  | succ n ih =>
    intro p e he hc
    rcases eq_nil_or_snoc c with rfl | ⟨c', t, rfl⟩
    · exact absurd rfl hc
    · have hne : p ++ (c' ++ [t]) ≠ [] := by simp
      obtain ⟨pe, fs, hpe, hd, hl, _, _⟩ := hi.parent _ _ he hne
      have hdl : (p ++ (c' ++ [t])).dropLast = p ++ c' := by
        rw [← List.append_assoc, List.dropLast_concat]
      rw [hdl] at hpe
      by_cases hc' : c' = []
      · subst hc'
        rw [List.append_nil] at hpe
        exact ⟨pe, hpe, hd, hl⟩
      · have hlen : c'.length = n := by simp at hn; exact hn
        exact ih c' hlen p pe hpe hc'

/-- nothing lives below a key that is absent or not a directory -/
theorem nothing_below {s : State} (hi : InvF s) {D : FsPath}
    (hD : alLookup D s.entries = none ∨ ∃ x, alLookup D s.entries = some x ∧ x.dir = false)
    {r : FsPath} (hr : r ≠ []) : alLookup (D ++ r) s.entries = none := by
  cases h : alLookup (D ++ r) s.entries with
  | none => rfl
  | some e =>
    obtain ⟨pe, hpe, hd, _⟩ := ancestor_is_dir hi r D e h hr
    rcases hD with hD | ⟨x, hx, hxd⟩
    · rw [hD] at hpe; cases hpe
    · rw [hx] at hpe; cases hpe; rw [hd] at hxd; cases hxd

theorem no_data_without_entry {s : State} (hi : InvF s) {k : FsPath}
    (h : alLookup k s.entries = none) : alLookup k s.files = none := by
  cases hb : alLookup k s.files with
  | none => rfl
  | some b =>
    obtain ⟨e, he⟩ := hi.dangling k b hb
    rw [h] at he; cases he

/-! ### the abstract node at a key -/

def nodeAt (σ : State) (k : FsPath) : Option TreeFs.Node := (alLookup k σ.entries).map (absNode σ k)

theorem absNode_eq_of {σ σ' : State} {k k' : FsPath} {e e' : Entry}
    (hl : e'.link = e.link) (hd : e'.dir = e.dir) (hm : e'.mode = e.mode) (hu : e'.uid = e.uid)
    (hg : e'.gid = e.gid) (ha : e'.alt = e.alt)
    (hdata : (alLookup k' σ'.files).getD [] = (alLookup k σ.files).getD []) :
    absNode σ' k' e' = absNode σ k e := by
  unfold absNode kindOf
  rw [hl, hd, hm, hu, hg, ha, hdata]

theorem nodeAt_eq_of_lookup {σ σ' : State} {k : FsPath}
    (he : alLookup k σ'.entries = alLookup k σ.entries)
    (hf : alLookup k σ'.files = alLookup k σ.files) : nodeAt σ' k = nodeAt σ k := by
  unfold nodeAt
  rw [he]
  cases alLookup k σ.entries with
  | none => rfl
  | some e => exact congrArg some (absNode_eq_of rfl rfl rfl rfl rfl rfl (by rw [hf]))

/-! ### one relocation step -/

/-- re-key one entry (and its data) from `w` to `dst` (a link gets its `rel` recomputed against the
    directory of `dst`, see `movedEntry`) -/
def relocate (σ : State) (w dst : FsPath) (e : Entry) : State :=
  { σ with entries := alInsert dst (movedEntry e dst) (alErase w σ.entries),
           files := match alLookup w σ.files with
             | some b => alInsert dst b (alErase w σ.files)
             | none => alErase w σ.files }

def kidsOf (e : Entry) : List FsPath :=
  match e.files with | some fs => fs.map (fun n => e.path ++ [n]) | none => []

theorem relocate_entries {σ : State} (hn : (σ.entries.map (·.1)).Nodup) (w dst : FsPath) (e : Entry)
    (k : FsPath) :
    alLookup k (relocate σ w dst e).entries =
      if dst = k then some (movedEntry e dst) else if w = k then none else alLookup k σ.entries := by
  unfold relocate
  simp only [alLookup_alInsert, alLookup_alErase hn]

theorem relocate_files {σ : State} (hn : (σ.files.map (·.1)).Nodup) (w dst : FsPath) (e : Entry)
    (k : FsPath) :
    alLookup k (relocate σ w dst e).files =
      match alLookup w σ.files with
      | some b => if dst = k then some b else if w = k then none else alLookup k σ.files
      | none => if w = k then none else alLookup k σ.files := by
  unfold relocate
  cases alLookup w σ.files with
  | none => simp only [alLookup_alErase hn]
  | some b => simp only [alLookup_alInsert, alLookup_alErase hn]

theorem relocate_nodupE {σ : State} (hn : (σ.entries.map (·.1)).Nodup) (w dst : FsPath) (e : Entry) :
    ((relocate σ w dst e).entries.map (·.1)).Nodup := nodup_alInsert (nodup_alErase hn)

theorem relocate_nodupF {σ : State} (hn : (σ.files.map (·.1)).Nodup) (w dst : FsPath) (e : Entry) :
    ((relocate σ w dst e).files.map (·.1)).Nodup := by
  unfold relocate
  cases alLookup w σ.files with
  | none => exact nodup_alErase hn
  | some b => exact nodup_alInsert (nodup_alErase hn)

/-- the abstract node arrives unchanged at the destination key -/
theorem nodeAt_relocate_dst {σ : State} (hnE : (σ.entries.map (·.1)).Nodup)
    (hnF : (σ.files.map (·.1)).Nodup) {w dst : FsPath} {e : Entry}
    (hw : alLookup w σ.entries = some e) (hne : w ≠ dst)
    (hfree : alLookup w σ.files = none → alLookup dst σ.files = none) :
    nodeAt (relocate σ w dst e) dst = nodeAt σ w := by
  unfold nodeAt
  rw [relocate_entries hnE, if_pos rfl, hw]
  refine congrArg some (absNode_eq_of rfl rfl rfl rfl rfl rfl ?_)
  rw [relocate_files hnF]
  cases hb : alLookup w σ.files with
  | none => simp only [if_neg hne, hfree hb]
  | some b => simp only [if_true]

theorem nodeAt_relocate_src {σ : State} (hnE : (σ.entries.map (·.1)).Nodup)
    {w dst : FsPath} {e : Entry} (hne : w ≠ dst) : nodeAt (relocate σ w dst e) w = none := by
  unfold nodeAt
  rw [relocate_entries hnE, if_neg (Ne.symm hne), if_pos rfl]
  rfl

theorem nodeAt_relocate_other {σ : State} (hnE : (σ.entries.map (·.1)).Nodup)
    (hnF : (σ.files.map (·.1)).Nodup) {w dst k : FsPath} {e : Entry}
    (h1 : w ≠ k) (h2 : dst ≠ k) : nodeAt (relocate σ w dst e) k = nodeAt σ k := by
  apply nodeAt_eq_of_lookup
  · rw [relocate_entries hnE, if_neg h2, if_neg h1]
  · rw [relocate_files hnF]
    cases alLookup w σ.files with
    | none => simp only [if_neg h1]
    | some b => simp only [if_neg h1, if_neg h2]

/-- one iteration of the loop on an entry whose old parent is already gone -/
theorem moveLoop_child {sk dk : FsPath} {ci : Bool} {pre : FsPath} {σ : State} {w dst : FsPath} {e : Entry}
    (f : Nat) (W : List FsPath)
    (hpre : if ci = true then sk ≠ [] ∧ pre = sk.dropLast else pre = sk)
    (hw : alLookup w σ.entries = some e) (hne : w ≠ [])
    (hdst : dstOf dk w pre = dst) (hok : MovedOk e dst)
    (hpar : alLookup w.dropLast (relocate σ w dst e).entries = none) :
    moveLoop sk dk ci (f + 1) (w :: W) σ =
      moveLoop sk dk ci f ((kidsOf e).reverse ++ W) (relocate σ w dst e) := by
  rw [moveLoop_succ_cons]
  have hpar' : alLookup w.dropLast (alInsert dst { e with path := dst, rel := movedRel e dst } (alErase w σ.entries)) = none := hpar
  have hrel := movedRelM_eq_pure hok
  cases ci with
  | true =>
    simp only [if_true] at hpre
    obtain ⟨h1, h2⟩ := hpre
    subst h2
    simp only [if_true, dirOf_ne_nil h1, dirOf_ne_nil hne, mpure_bind, hdst, removeEntry_bind_apply,
      hw, hrel, setEntry_bind_apply, removeFile_bind_apply]
    cases hb : alLookup w σ.files with
    | none =>
      simp only [getEntry_bind_apply, hpar']
      simp only [relocate, hb, kidsOf]; rfl
    | some b =>
      simp only [setFile_bind_apply, getEntry_bind_apply, hpar']
      simp only [relocate, hb, kidsOf]; rfl
  | false =>
    simp only [Bool.false_eq_true, if_false] at hpre
    subst hpre
    simp only [Bool.false_eq_true, if_false, dirOf_ne_nil hne, mpure_bind, hdst,
      removeEntry_bind_apply, hw, hrel, setEntry_bind_apply, removeFile_bind_apply]
    cases hb : alLookup w σ.files with
    | none =>
      simp only [getEntry_bind_apply, hpar']
      simp only [relocate, hb, kidsOf]; rfl
    | some b =>
      simp only [setFile_bind_apply, getEntry_bind_apply, hpar']
      simp only [relocate, hb, kidsOf]; rfl

/-! ### the relocation loop below the source root -/

/-- loop invariant once the source root itself has been re-keyed -/
structure ChildInv (sk D : FsPath) (σ : State) (W : List FsPath) : Prop where
  nodupE : (σ.entries.map (·.1)).Nodup
  nodupF : (σ.files.map (·.1)).Nodup
  nodupW : W.Nodup
  srcGone : alLookup sk σ.entries = none
  work : ∀ w ∈ W, ∃ r e, w = sk ++ r ∧ r ≠ [] ∧ alLookup (sk ++ r.dropLast) σ.entries = none ∧
    alLookup w σ.entries = some e
  keys : ∀ r e, alLookup (sk ++ r) σ.entries = some e →
    WfKey r ∧ e.path = sk ++ r ∧
    (∀ fs, e.files = some fs → fs.Nodup ∧ ∀ n ∈ fs, ∃ c, alLookup (sk ++ (r ++ [n])) σ.entries = some c) ∧
    (sk ++ r ∈ W ∨ ∃ pe fs, alLookup (sk ++ r.dropLast) σ.entries = some pe ∧ pe.files = some fs ∧
      baseName r ∈ fs) ∧
    alLookup (D ++ r) σ.entries = none ∧ alLookup (D ++ r) σ.files = none
  data : ∀ r b, alLookup (sk ++ r) σ.files = some b → ∃ e, alLookup (sk ++ r) σ.entries = some e

theorem nodup_reverse' {α} {l : List α} (h : l.Nodup) : l.reverse.Nodup := by
  unfold List.Nodup at *
  rw [List.pairwise_reverse]
  exact h.imp (fun hab => Ne.symm hab)

theorem nodup_map_inj {α β} {f : α → β} (hf : ∀ a b, f a = f b → a = b) {l : List α}
    (h : l.Nodup) : (l.map f).Nodup := by
  unfold List.Nodup at *
  rw [List.pairwise_map]
  exact h.imp (fun hab hfab => hab (hf _ _ hfab))

theorem snoc_dropLast (r : FsPath) (n : Str) : (r ++ [n]).dropLast = r := List.dropLast_concat

theorem append_ne_self_snoc (sk r : FsPath) (n : Str) : sk ++ (r ++ [n]) ≠ sk ++ r := by
  intro h
  have := congrArg List.length h
  simp at this

theorem childInv_step {sk D : FsPath} (hinc : ∀ r r', sk ++ r ≠ D ++ r')
    {σ : State} {w : FsPath} {W : List FsPath} (h : ChildInv sk D σ (w :: W))
    {r0 : FsPath} {e : Entry} (hw : w = sk ++ r0) (hr0 : r0 ≠ [])
    (he : alLookup w σ.entries = some e) :
    ChildInv sk D (relocate σ w (D ++ r0) e) ((kidsOf e).reverse ++ W) := by
  subst hw
  have hnE := h.nodupE
  have hnF := h.nodupF
  obtain ⟨hwf0, hpath, hch0, _, hfreeE0, hfreeF0⟩ := h.keys r0 e he
  have hpar0 : alLookup (sk ++ r0.dropLast) σ.entries = none := by
    obtain ⟨r, e', hr, hrne, hp, _⟩ := h.work (sk ++ r0) (by simp)
    have : r = r0 := List.append_cancel_left hr.symm
    subst this; exact hp
  -- lookups in the new state at keys below the source root
  have hE : ∀ r, alLookup (sk ++ r) (relocate σ (sk ++ r0) (D ++ r0) e).entries =
      if r0 = r then none else alLookup (sk ++ r) σ.entries := by
    intro r
    rw [relocate_entries hnE, if_neg (fun hh => hinc r r0 hh.symm)]
    by_cases hr : r0 = r
    · subst hr; simp
    · rw [if_neg hr, if_neg (fun hh => hr (List.append_cancel_left hh))]
  have hF : ∀ r, alLookup (sk ++ r) (relocate σ (sk ++ r0) (D ++ r0) e).files =
      if r0 = r then none else alLookup (sk ++ r) σ.files := by
    intro r
    rw [relocate_files hnF]
    have h1 : ¬ D ++ r0 = sk ++ r := fun hh => hinc r r0 hh.symm
    by_cases hr : r0 = r
    · subst hr; cases alLookup (sk ++ r0) σ.files <;> simp [h1]
    · have h2 : ¬ sk ++ r0 = sk ++ r := fun hh => hr (List.append_cancel_left hh)
      cases alLookup (sk ++ r0) σ.files <;> simp [h1, h2, hr]
  have hkids : ∀ x, x ∈ kidsOf e ↔ ∃ fs n, e.files = some fs ∧ n ∈ fs ∧ x = sk ++ (r0 ++ [n]) := by
    intro x
    unfold kidsOf
    cases hf : e.files with
    | none => simp
    | some fs =>
      simp only [List.mem_map, hpath, List.append_assoc]
      constructor
      · rintro ⟨n, hn, rfl⟩; exact ⟨fs, n, rfl, hn, rfl⟩
      · rintro ⟨fs', n, hfs, hn, rfl⟩
        cases hfs; exact ⟨n, hn, rfl⟩
  refine ⟨relocate_nodupE hnE _ _ _, relocate_nodupF hnF _ _ _, ?_, ?_, ?_, ?_, ?_⟩
  · -- the work list stays duplicate free
    rw [List.nodup_append]
    refine ⟨?_, (List.nodup_cons.1 h.nodupW).2, ?_⟩
    · apply nodup_reverse'
      unfold kidsOf
      cases hf : e.files with
      | none => simp
      | some fs =>
        refine nodup_map_inj ?_ (hch0 fs hf).1
        intro a b hab
        have := List.append_cancel_left hab
        simpa using this
    · intro a ha b hb hab
      subst hab
      rw [List.mem_reverse, hkids] at ha
      obtain ⟨fs, n, _, _, rfl⟩ := ha
      obtain ⟨r, e', hr, _, hp, _⟩ := h.work _ (List.mem_cons_of_mem _ hb)
      have : r = r0 ++ [n] := (List.append_cancel_left hr).symm
      subst this
      rw [snoc_dropLast, he] at hp
      cases hp
  · -- the source root stays absent
    have := hE []
    rw [List.append_nil] at this
    rw [this, h.srcGone]; simp
  · -- every work item is present and its parent is gone
    intro x hx
    rcases List.mem_append.1 hx with hx | hx
    · rw [List.mem_reverse, hkids] at hx
      obtain ⟨fs, n, hfs, hn, rfl⟩ := hx
      obtain ⟨c, hc⟩ := (hch0 fs hfs).2 n hn
      refine ⟨r0 ++ [n], c, rfl, by simp, ?_, ?_⟩
      · rw [snoc_dropLast, hE, if_pos rfl]
      · rw [hE, if_neg (by intro hh; have := congrArg List.length hh; simp at this), hc]
    · obtain ⟨r, e', hr, hrne, hp, hpres⟩ := h.work x (List.mem_cons_of_mem _ hx)
      subst hr
      refine ⟨r, e', rfl, hrne, ?_, ?_⟩
      · rw [hE, hp]; simp
      · have hne : r0 ≠ r := by
          intro hh; subst hh
          exact (List.nodup_cons.1 h.nodupW).1 hx
        rw [hE, if_neg hne, hpres]
  · -- every remaining key below the source root
    intro r e' hr
    rw [hE] at hr
    by_cases hr0r : r0 = r
    · rw [if_pos hr0r] at hr; cases hr
    rw [if_neg hr0r] at hr
    obtain ⟨hwf, hp, hch, hmem, hfE, hfF⟩ := h.keys r e' hr
    have hrne : r ≠ [] := by
      intro hh; subst hh
      rw [List.append_nil, h.srcGone] at hr; cases hr
    refine ⟨hwf, hp, ?_, ?_, ?_, ?_⟩
    · intro fs hfs
      refine ⟨(hch fs hfs).1, ?_⟩
      intro n hn
      obtain ⟨c, hc⟩ := (hch fs hfs).2 n hn
      refine ⟨c, ?_⟩
      rw [hE, if_neg ?_, hc]
      intro hh
      rw [hh, snoc_dropLast, hr] at hpar0
      cases hpar0
    · rcases hmem with hmem | ⟨pe, fs, hpe, hfs, hb⟩
      · left
        rcases List.mem_cons.1 hmem with hmem | hmem
        · exact absurd (List.append_cancel_left hmem).symm hr0r
        · exact List.mem_append_right _ hmem
      · by_cases hpw : r0 = r.dropLast
        · left
          apply List.mem_append_left
          rw [List.mem_reverse, hkids]
          rw [← hpw, he] at hpe
          cases hpe
          refine ⟨fs, baseName r, hfs, hb, ?_⟩
          rw [hpw, dropLast_append_baseName hrne]
        · right
          exact ⟨pe, fs, by rw [hE, if_neg hpw, hpe], hfs, hb⟩
    · rw [relocate_entries hnE, if_neg (fun hh => hr0r (List.append_cancel_left hh)),
        if_neg (fun hh => hinc r0 r hh), hfE]
    · rw [relocate_files hnF]
      have h1 : ¬ D ++ r0 = D ++ r := fun hh => hr0r (List.append_cancel_left hh)
      have h2 : ¬ sk ++ r0 = D ++ r := fun hh => hinc r0 r hh
      cases alLookup (sk ++ r0) σ.files <;> simp [h1, h2, hfF]
  · -- data keys below the source root still have entries
    intro r b hb
    rw [hF] at hb
    by_cases hr0r : r0 = r
    · rw [if_pos hr0r] at hb; cases hb
    rw [if_neg hr0r] at hb
    obtain ⟨e', he'⟩ := h.data r b hb
    exact ⟨e', by rw [hE, if_neg hr0r, he']⟩

theorem isPrefixOf_append (sk r : FsPath) : sk.isPrefixOf (sk ++ r) = true := by
  rw [List.isPrefixOf_iff_prefix]; exact List.prefix_append _ _

theorem isPrefixOf_false_of_inc {sk D : FsPath} (hinc : ∀ r r', sk ++ r ≠ D ++ r') (r' : FsPath) :
    sk.isPrefixOf (D ++ r') = false := by
  cases h : sk.isPrefixOf (D ++ r') with
  | false => rfl
  | true =>
    rw [List.isPrefixOf_iff_prefix] at h
    obtain ⟨t, ht⟩ := h
    exact absurd ht (hinc t r')

/-- with an empty work list nothing is left below the source root -/
theorem childInv_nil_no_keys {sk D : FsPath} {σ : State} (h : ChildInv sk D σ []) :
    ∀ r, alLookup (sk ++ r) σ.entries = none := by
  intro r
  induction hn : r.length using Nat.strongRecOn generalizing r with
  | _ n ih =>
    cases hl : alLookup (sk ++ r) σ.entries with
    | none => rfl
    | some e =>
      obtain ⟨_, _, _, hmem, _, _⟩ := h.keys r e hl
      rcases hmem with hmem | ⟨pe, fs, hpe, _, _⟩
      · simp at hmem
      · have hrne : r ≠ [] := by
          intro hh; subst hh
          rw [List.append_nil, h.srcGone] at hl; cases hl
        have hlen : r.dropLast.length < n := by
          rw [List.length_dropLast, ← hn]
          have : r.length ≠ 0 := fun h0 => hrne (List.eq_nil_of_length_eq_zero h0)
          omega
        rw [ih _ hlen r.dropLast rfl] at hpe
        cases hpe

/-- **the relocation loop below the source root**: it terminates successfully within the fuel,
    nothing is left below the source root, every abstract node that was below the source root is
    found at the corresponding destination key, everything else is untouched -/
theorem moveLoop_children {sk dk D pre : FsPath} {ci : Bool}
    (hpre : if ci = true then sk ≠ [] ∧ pre = sk.dropLast else pre = sk)
    (hinc : ∀ r r', sk ++ r ≠ D ++ r')
    (hdst : ∀ r, WfKey r → dstOf dk (sk ++ r) pre = D ++ r) :
    ∀ (f : Nat) (σ : State) (W : List FsPath), ChildInv sk D σ W →
      keyCount (fun k => sk.isPrefixOf k) σ.entries < f →
      ∃ σ', moveLoop sk dk ci f W σ = (.ok (), σ') ∧ σ'.cwd = σ.cwd ∧
        (∀ r, alLookup (sk ++ r) σ'.entries = none) ∧
        (∀ r, nodeAt σ' (D ++ r) = (nodeAt σ (sk ++ r)).or (nodeAt σ (D ++ r))) ∧
        (∀ k, (∀ r, k ≠ sk ++ r) → (∀ r, k ≠ D ++ r) → nodeAt σ' k = nodeAt σ k) := by
  intro f
  induction f with
  | zero => intro σ W _ hc; omega
  | succ f ih =>
    intro σ W h hc
    cases W with
    | nil =>
      refine ⟨σ, by rw [moveLoop]; rfl, rfl, childInv_nil_no_keys h, ?_, fun _ _ _ => rfl⟩
      intro r
      have : nodeAt σ (sk ++ r) = none := by
        unfold nodeAt; rw [childInv_nil_no_keys h r]; rfl
      rw [this]; rfl
    | cons w W =>
      obtain ⟨r0, e, hw, hr0, hpar0, he⟩ := h.work w (by simp)
      subst hw
      have hnE := h.nodupE
      have hnF := h.nodupF
      obtain ⟨hwf0, _, _, _, hfreeE0, hfreeF0⟩ := h.keys r0 e he
      have hne : sk ++ r0 ≠ [] := by simp [hr0]
      have hdl : (sk ++ r0).dropLast = sk ++ r0.dropLast := List.dropLast_append_of_ne_nil hr0
      have hstep := moveLoop_child (sk := sk) (dk := dk) (ci := ci) f W hpre he hne (hdst r0 hwf0)
        (movedOk_of_ne (by simp [hr0]))
        (by
          rw [hdl, relocate_entries hnE, if_neg (fun hh => hinc _ _ hh.symm), hpar0]
          simp)
      have hinv' := childInv_step hinc h rfl hr0 he
      have hcount : keyCount (fun k => sk.isPrefixOf k) (relocate σ (sk ++ r0) (D ++ r0) e).entries < f := by
        have h1 := keyCount_alInsert_false (p := fun k => sk.isPrefixOf k) (k := D ++ r0)
          (isPrefixOf_false_of_inc hinc r0) (movedEntry e (D ++ r0)) (alErase (sk ++ r0) σ.entries)
        have h2 := keyCount_alErase_true (p := fun k => sk.isPrefixOf k) (k := sk ++ r0)
          (isPrefixOf_append sk r0) (l := σ.entries)
          (alLookup_isSome_iff_mem_keys.1 (by rw [he]; rfl))
        show keyCount _ (alInsert (D ++ r0) _ (alErase (sk ++ r0) σ.entries)) < f
        rw [h1]; omega
      obtain ⟨σ', hrun, hcwd, hnone, hview, hother⟩ := ih _ _ hinv' hcount
      refine ⟨σ', by rw [hstep, hrun], hcwd, hnone, ?_, ?_⟩
      · intro r
        rw [hview r]
        by_cases hr : r0 = r
        · subst hr
          rw [nodeAt_relocate_src hnE (hinc r0 r0),
            nodeAt_relocate_dst hnE hnF he (hinc r0 r0) (fun _ => hfreeF0)]
          have : nodeAt σ (sk ++ r0) = some (absNode σ (sk ++ r0) e) := by
            unfold nodeAt; rw [he]; rfl
          rw [this]; rfl
        · have h1 : sk ++ r0 ≠ sk ++ r := fun hh => hr (List.append_cancel_left hh)
          have h2 : D ++ r0 ≠ D ++ r := fun hh => hr (List.append_cancel_left hh)
          rw [nodeAt_relocate_other hnE hnF h1 (fun hh => hinc r r0 hh.symm),
            nodeAt_relocate_other hnE hnF (hinc r0 r) h2]
      · intro k hk1 hk2
        rw [hother k hk1 hk2]
        exact nodeAt_relocate_other hnE hnF (fun hh => hk1 r0 hh.symm) (fun hh => hk2 r0 hh.symm)

/-! ### the first iteration: the source root itself -/

/-- `MemfsEntry::remove(name)` on a directory -/
def rmChild (e : Entry) (n : Str) : Entry :=
  match e.files with
  | some fs => { e with files := some (fs.filter (· ≠ n)) }
  | none => e

/-- `MemfsEntry::add(name)` on a directory -/
def plusChild (e : Entry) (n : Str) : Entry :=
  match e.files with
  | some fs => { e with files := some (insertName n fs).2 }
  | none => { e with files := some [n] }

theorem removeChild_dir {e : Entry} (h : e.dir = true) (n : Str) : e.removeChild n = .ok (rmChild e n) := by
  unfold Entry.removeChild rmChild
  rw [h]
  cases e.files <;> rfl

theorem addChild_dir {e : Entry} (h : e.dir = true) (n : Str) :
    ∃ b, e.addChild n = .ok (b, plusChild e n) := by
  unfold Entry.addChild plusChild
  rw [h]
  cases e.files with
  | none => exact ⟨true, rfl⟩
  | some fs => exact ⟨(insertName n fs).1, rfl⟩

/-- the fields the abstraction looks at -/
def EqModFiles (a b : Entry) : Prop :=
  a.link = b.link ∧ a.dir = b.dir ∧ a.mode = b.mode ∧ a.uid = b.uid ∧ a.gid = b.gid ∧ a.alt = b.alt

theorem EqModFiles.rfl' (a : Entry) : EqModFiles a a := ⟨rfl, rfl, rfl, rfl, rfl, rfl⟩

theorem rmChild_eqMod (e : Entry) (n : Str) : EqModFiles (rmChild e n) e := by
  unfold rmChild; cases e.files <;> exact ⟨rfl, rfl, rfl, rfl, rfl, rfl⟩

theorem plusChild_eqMod (e : Entry) (n : Str) : EqModFiles (plusChild e n) e := by
  unfold plusChild; cases e.files <;> exact ⟨rfl, rfl, rfl, rfl, rfl, rfl⟩

theorem rmChild_dir (e : Entry) (n : Str) : (rmChild e n).dir = e.dir := (rmChild_eqMod e n).2.1

/-- replacing an entry by one that differs only in its child set is invisible to the abstraction -/
theorem nodeAt_alInsert_eqMod {σ : State} {p : FsPath} {x y : Entry}
    (hx : alLookup p σ.entries = some x) (hy : EqModFiles y x) (k : FsPath) :
    nodeAt { σ with entries := alInsert p y σ.entries } k = nodeAt σ k := by
  unfold nodeAt
  simp only [alLookup_alInsert]
  by_cases hk : p = k
  · subst hk
    rw [if_pos rfl, hx]
    exact congrArg some (absNode_eq_of hy.1 hy.2.1 hy.2.2.1 hy.2.2.2.1 hy.2.2.2.2.1 hy.2.2.2.2.2 rfl)
  · rw [if_neg hk]
    cases alLookup k σ.entries with
    | none => rfl
    | some e => exact congrArg some (absNode_eq_of rfl rfl rfl rfl rfl rfl rfl)

/-- the state after the first iteration -/
def rootStep (σ : State) (sk dst : FsPath) (e op np : Entry) : State :=
  let σ1 := relocate σ sk dst e
  let σ2 : State := { σ1 with entries := alInsert sk.dropLast (rmChild op (baseName sk)) σ1.entries }
  { σ2 with entries := alInsert dst.dropLast (plusChild np (baseName dst)) σ2.entries }

theorem moveLoop_root {sk dk : FsPath} {ci : Bool} {pre : FsPath} {σ : State} {dst : FsPath}
    {e op np : Entry} (f : Nat) (W : List FsPath)
    (hpre : if ci = true then sk ≠ [] ∧ pre = sk.dropLast else pre = sk)
    (hw : alLookup sk σ.entries = some e) (hne : sk ≠ []) (hdne : dst ≠ [])
    (hdst : dstOf dk sk pre = dst)
    (hop : alLookup sk.dropLast (relocate σ sk dst e).entries = some op) (hopd : op.dir = true)
    (hnp : alLookup dst.dropLast
      (alInsert sk.dropLast (rmChild op (baseName sk)) (relocate σ sk dst e).entries) = some np)
    (hnpd : np.dir = true) :
    moveLoop sk dk ci (f + 1) (sk :: W) σ =
      moveLoop sk dk ci f ((kidsOf e).reverse ++ W) (rootStep σ sk dst e op np) := by
  rw [moveLoop_succ_cons]
  have hrel : movedRelM e dst = M.pure (movedRel e dst) := movedRelM_eq_pure (movedOk_of_ne hdne)
  obtain ⟨b, hb⟩ := addChild_dir hnpd (baseName dst)
  cases ci with
  | true =>
    simp only [if_true] at hpre
    obtain ⟨_, h2⟩ := hpre
    rw [h2] at hdst
    subst hdst
    have hop' : alLookup sk.dropLast (alInsert _ { e with path := _, rel := movedRel e _ } (alErase sk σ.entries)) = some op := hop
    have hnp' : alLookup _ (alInsert sk.dropLast (rmChild op (baseName sk))
        (alInsert _ { e with path := _, rel := movedRel e _ } (alErase sk σ.entries))) = some np := hnp
    simp only [if_true, dirOf_ne_nil hne, dirOf_ne_nil hdne, mpure_bind, removeEntry_bind_apply,
      hw, hrel, setEntry_bind_apply, removeFile_bind_apply]
    cases hfb : alLookup sk σ.files with
    | none =>
      simp only [getEntry_bind_apply, hop', removeChild_dir hopd, liftO_ok_bind, setEntry_bind_apply,
        hnp', hb]
      simp only [rootStep, relocate, hfb, kidsOf]; rfl
    | some bts =>
      simp only [setFile_bind_apply, getEntry_bind_apply, hop', removeChild_dir hopd, liftO_ok_bind,
        setEntry_bind_apply, hnp', hb]
      simp only [rootStep, relocate, hfb, kidsOf]; rfl
  | false =>
    simp only [Bool.false_eq_true, if_false] at hpre
    rw [hpre] at hdst
    subst hdst
    have hop' : alLookup sk.dropLast (alInsert _ { e with path := _, rel := movedRel e _ } (alErase sk σ.entries)) = some op := hop
    have hnp' : alLookup _ (alInsert sk.dropLast (rmChild op (baseName sk))
        (alInsert _ { e with path := _, rel := movedRel e _ } (alErase sk σ.entries))) = some np := hnp
    simp only [Bool.false_eq_true, if_false, dirOf_ne_nil hne, dirOf_ne_nil hdne, mpure_bind,
      removeEntry_bind_apply, hw, hrel, setEntry_bind_apply, removeFile_bind_apply]
    cases hfb : alLookup sk σ.files with
    | none =>
      simp only [getEntry_bind_apply, hop', removeChild_dir hopd, liftO_ok_bind, setEntry_bind_apply,
        hnp', hb]
      simp only [rootStep, relocate, hfb, kidsOf]; rfl
    | some bts =>
      simp only [setFile_bind_apply, getEntry_bind_apply, hop', removeChild_dir hopd, liftO_ok_bind,
        setEntry_bind_apply, hnp', hb]
      simp only [rootStep, relocate, hfb, kidsOf]; rfl

theorem append_ne_dropLast (p r : FsPath) (hp : p ≠ []) : p ++ r ≠ p.dropLast := by
  intro h
  have := congrArg List.length h
  rw [List.length_append, List.length_dropLast] at this
  have : p.length ≠ 0 := fun h0 => hp (List.eq_nil_of_length_eq_zero h0)
  omega

theorem baseName_mem {p : FsPath} (hp : p ≠ []) : baseName p ∈ p := by
  rcases eq_nil_or_snoc p with rfl | ⟨mid, t, rfl⟩
  · exact absurd rfl hp
  · simp [baseName]

theorem baseName_append {p r : FsPath} (hr : r ≠ []) : baseName (p ++ r) = baseName r := by
  rcases eq_nil_or_snoc r with rfl | ⟨mid, t, rfl⟩
  · exact absurd rfl hr
  · rw [← List.append_assoc]; simp [baseName]

/-- facts established by validation, in the form the loop analysis uses -/
structure MoveSetup (s0 : State) (sk dk D pre : FsPath) (srcE : Entry) : Prop where
  skne : sk ≠ []
  dne : D ≠ []
  src : alLookup sk s0.entries = some srcE
  hpre : if isDirP s0 dk = true then sk ≠ [] ∧ pre = sk.dropLast else pre = sk
  hinc : ∀ r r', sk ++ r ≠ D ++ r'
  hdst : ∀ r, WfKey r → dstOf dk (sk ++ r) pre = D ++ r
  dform : D = if isDirP s0 dk = true then dk ++ [baseName sk] else dk
  dparent : ∃ pe, alLookup D.dropLast s0.entries = some pe ∧ pe.dir = true ∧ pe.link = false
  dfree : alLookup D s0.entries = none ∨ ∃ x, alLookup D s0.entries = some x ∧ x.dir = false ∧
      x.file = true ∧ x.link = false ∧ srcE.file = true ∧ srcE.link = false

theorem moveSetup_of_valid {s0 : State} {sk dk : FsPath} {srcE : Entry} (hi : InvF s0)
    (hk : KeysWf s0) (hkind : KindWf s0) (hdk : WfKey dk) (hv : MoveValid s0 sk dk srcE) :
    MoveSetup s0 sk dk (moveDst s0 sk dk) (if isDirP s0 dk = true then sk.dropLast else sk) srcE := by
  have hskne : sk ≠ [] := by
    intro h; subst h
    have := hv.notUnder
    simp at this
  have hwsk : WfKey sk := hk.key hv.src
  have hwb : Wf (baseName sk) := hwsk _ (baseName_mem hskne)
  have hD : moveDst s0 sk dk = if isDirP s0 dk = true then dk ++ [baseName sk] else dk := by
    unfold moveDst
    cases isDirP s0 dk with
    | false => rfl
    | true => simp only [if_true]; exact mash_renderP_name hdk hwb
  have hdfree : alLookup (moveDst s0 sk dk) s0.entries = none ∨
      ∃ x, alLookup (moveDst s0 sk dk) s0.entries = some x ∧ x.dir = false ∧
        x.file = true ∧ x.link = false ∧ srcE.file = true ∧ srcE.link = false := by
    rcases hv.dst with h | ⟨x, hx, h1, h2, h3, h4⟩
    · exact Or.inl h
    · refine Or.inr ⟨x, hx, ?_, h1, h2, h3, h4⟩
      have := hkind.at hx
      rw [h1] at this
      simpa using this
  refine ⟨hskne, hv.dstNe, hv.src, ?_, ?_, ?_, hD, hv.parent, hdfree⟩
  · cases isDirP s0 dk with
    | false => simp
    | true => simp [hskne]
  · -- source and destination are incomparable
    intro r r' h
    rcases List.append_eq_append_iff.1 h with ⟨a, ha, _⟩ | ⟨c, hc, _⟩
    · have : sk.isPrefixOf (moveDst s0 sk dk) = true := by
        rw [List.isPrefixOf_iff_prefix, ha]; exact List.prefix_append _ _
      rw [hv.notUnder] at this; cases this
    · by_cases hc0 : c = []
      · subst hc0
        rw [List.append_nil] at hc
        exact hv.ne hc.symm
      · rw [hc] at hv
        obtain ⟨pe, hpe, hd, _⟩ := ancestor_is_dir hi c _ srcE hv.src hc0
        rcases hdfree with h | ⟨x, hx, hxd, _⟩
        · rw [h] at hpe; cases hpe
        · rw [hx] at hpe; cases hpe; rw [hd] at hxd; cases hxd
  · intro r hr
    rw [hD]
    cases isDirP s0 dk with
    | false =>
      simp only [Bool.false_eq_true, if_false]
      exact dstOf_append hdk hr
    | true =>
      simp only [if_true]
      have h1 : sk ++ r = sk.dropLast ++ ([baseName sk] ++ r) := by
        rw [← List.append_assoc, dropLast_append_baseName hskne]
      have h2 : WfKey ([baseName sk] ++ r) :=
        WfKey.append (by intro n hn; simp at hn; subst hn; exact hwb) hr
      rw [h1, dstOf_append hdk h2, List.append_assoc]

/-- after the first iteration the child-phase invariant holds and, for the abstraction, the state
    is the one obtained by re-keying the source root alone -/
theorem root_establishes {s0 : State} {sk dk D pre : FsPath} {srcE : Entry} (hi : InvF s0)
    (hk : KeysWf s0) (hs : MoveSetup s0 sk dk D pre srcE) :
    ∃ op np,
      alLookup sk.dropLast (relocate s0 sk D srcE).entries = some op ∧ op.dir = true ∧
      alLookup D.dropLast (alInsert sk.dropLast (rmChild op (baseName sk))
        (relocate s0 sk D srcE).entries) = some np ∧ np.dir = true ∧
      ChildInv sk D (rootStep s0 sk D srcE op np) (kidsOf srcE).reverse ∧
      (∀ k, nodeAt (rootStep s0 sk D srcE op np) k = nodeAt (relocate s0 sk D srcE) k) ∧
      keyCount (fun k => sk.isPrefixOf k) (rootStep s0 sk D srcE op np).entries + 1 =
        keyCount (fun k => sk.isPrefixOf k) s0.entries := by
  have hnE := hi.nodup
  have hnF := hi.fnodup
  have hinc := hs.hinc
  have hskne := hs.skne
  have hdne := hs.dne
  -- the two parents are neither below the source root nor at or below the destination
  have hsd_sk : ∀ r, sk ++ r ≠ sk.dropLast := fun r => append_ne_dropLast sk r hskne
  have hdd_D : ∀ r, D ++ r ≠ D.dropLast := fun r => append_ne_dropLast D r hdne
  have hdd_sk : ∀ r, sk ++ r ≠ D.dropLast := by
    intro r h
    have := dropLast_append_baseName hdne
    rw [← h, List.append_assoc] at this
    exact hinc (r ++ [baseName D]) [] (by rw [List.append_nil]; exact this)
  have hsd_D : ∀ r, D ++ r ≠ sk.dropLast := by
    intro r h
    have := dropLast_append_baseName hskne
    rw [← h, List.append_assoc] at this
    exact hinc [] (r ++ [baseName sk]) (by rw [List.append_nil]; exact this.symm)
  obtain ⟨op, opfs, hop0, hopd, _, _, _⟩ := hi.parent sk srcE hs.src hskne
  have hop : alLookup sk.dropLast (relocate s0 sk D srcE).entries = some op := by
    rw [relocate_entries hnE, if_neg (by have := hsd_D []; rwa [List.append_nil] at this),
      if_neg (by have := hsd_sk []; rwa [List.append_nil] at this), hop0]
  obtain ⟨dp, hdp0, hdpd, _⟩ := hs.dparent
  have hdp : alLookup D.dropLast (relocate s0 sk D srcE).entries = some dp := by
    rw [relocate_entries hnE, if_neg (by have := hdd_D []; rwa [List.append_nil] at this),
      if_neg (by have := hdd_sk []; rwa [List.append_nil] at this), hdp0]
  have hnp : ∃ np, alLookup D.dropLast (alInsert sk.dropLast (rmChild op (baseName sk))
      (relocate s0 sk D srcE).entries) = some np ∧ np.dir = true := by
    rw [alLookup_alInsert]
    by_cases h : sk.dropLast = D.dropLast
    · rw [if_pos h]; exact ⟨_, rfl, by rw [rmChild_dir]; exact hopd⟩
    · rw [if_neg h, hdp]; exact ⟨_, rfl, hdpd⟩
  obtain ⟨np, hnp, hnpd⟩ := hnp
  refine ⟨op, np, hop, hopd, hnp, hnpd, ?_, ?_, ?_⟩
  · -- the invariant
    have hR : ∀ k, sk.dropLast ≠ k → D.dropLast ≠ k →
        alLookup k (rootStep s0 sk D srcE op np).entries = alLookup k (relocate s0 sk D srcE).entries := by
      intro k h1 h2
      show alLookup k (alInsert _ _ (alInsert _ _ _)) = _
      rw [alLookup_alInsert_ne h2, alLookup_alInsert_ne h1]
    have hEsk : ∀ r, alLookup (sk ++ r) (rootStep s0 sk D srcE op np).entries =
        if r = [] then none else alLookup (sk ++ r) s0.entries := by
      intro r
      rw [hR _ (hsd_sk r).symm (hdd_sk r).symm, relocate_entries hnE, if_neg (fun h => hinc r [] (by rw [List.append_nil]; exact h.symm))]
      by_cases hr : r = []
      · subst hr; simp
      · rw [if_neg hr, if_neg]
        intro h
        have := congrArg List.length h
        simp at this
        exact hr this
    have hbelowE : ∀ r, r ≠ [] → alLookup (D ++ r) s0.entries = none := by
      intro r hr
      refine nothing_below hi ?_ hr
      rcases hs.dfree with h | ⟨x, hx, hxd, _⟩
      · exact Or.inl h
      · exact Or.inr ⟨x, hx, hxd⟩
    have hED : ∀ r, r ≠ [] → alLookup (D ++ r) (rootStep s0 sk D srcE op np).entries = none := by
      intro r hr
      rw [hR _ (hsd_D r).symm (hdd_D r).symm, relocate_entries hnE, if_neg, if_neg (fun h => hinc [] r (by rw [List.append_nil]; exact h)),
        hbelowE r hr]
      intro h
      have := congrArg List.length h
      simp at this
      exact hr this
    have hFiles : (rootStep s0 sk D srcE op np).files = (relocate s0 sk D srcE).files := rfl
    have hFsk : ∀ r, r ≠ [] → alLookup (sk ++ r) (rootStep s0 sk D srcE op np).files =
        alLookup (sk ++ r) s0.files := by
      intro r hr
      rw [hFiles, relocate_files hnF]
      have h1 : ¬ D = sk ++ r := fun h => hinc r [] (by rw [List.append_nil]; exact h.symm)
      have h2 : ¬ sk = sk ++ r := by
        intro h
        have := congrArg List.length h
        simp at this
        exact hr this
      cases alLookup sk s0.files <;> simp [h1, h2]
    have hFD : ∀ r, r ≠ [] → alLookup (D ++ r) (rootStep s0 sk D srcE op np).files = none := by
      intro r hr
      rw [hFiles, relocate_files hnF]
      have h1 : ¬ D = D ++ r := by
        intro h
        have := congrArg List.length h
        simp at this
        exact hr this
      have h2 : ¬ sk = D ++ r := fun h => hinc [] r (by rw [List.append_nil]; exact h)
      have h3 := no_data_without_entry hi (hbelowE r hr)
      cases alLookup sk s0.files <;> simp [h1, h2, h3]
    have hkids : ∀ x, x ∈ kidsOf srcE ↔ ∃ fs n, srcE.files = some fs ∧ n ∈ fs ∧ x = sk ++ [n] := by
      intro x
      unfold kidsOf
      cases hf : srcE.files with
      | none => simp
      | some fs =>
        simp only [List.mem_map, hi.path sk srcE hs.src]
        constructor
        · rintro ⟨n, hn, rfl⟩; exact ⟨fs, n, rfl, hn, rfl⟩
        · rintro ⟨fs', n, hfs, hn, rfl⟩
          cases hfs; exact ⟨n, hn, rfl⟩
    refine ⟨nodup_alInsert (nodup_alInsert (relocate_nodupE hnE sk D srcE)), relocate_nodupF hnF sk D srcE, ?_, ?_, ?_, ?_, ?_⟩
    · apply nodup_reverse'
      unfold kidsOf
      cases hf : srcE.files with
      | none => simp
      | some fs =>
        refine nodup_map_inj ?_ (hi.childnodup sk srcE fs hs.src hf)
        intro a b hab
        have := List.append_cancel_left hab
        simpa using this
    · have := hEsk []
      rw [List.append_nil] at this
      rw [this]; rfl
    · intro x hx
      rw [List.mem_reverse, hkids] at hx
      obtain ⟨fs, n, hfs, hn, rfl⟩ := hx
      obtain ⟨c, hc⟩ := hi.child sk srcE fs n hs.src hfs hn
      refine ⟨[n], c, rfl, by simp, ?_, ?_⟩
      · have := hEsk []
        rw [List.append_nil] at this
        simpa using this
      · rw [hEsk, if_neg (by simp), hc]
    · intro r e hr
      rw [hEsk] at hr
      by_cases hr0 : r = []
      · rw [if_pos hr0] at hr; cases hr
      rw [if_neg hr0] at hr
      have hne : sk ++ r ≠ [] := by simp [hr0]
      refine ⟨(hk.key hr).right, hi.path _ _ hr, ?_, ?_, hED r hr0, hFD r hr0⟩
      · intro fs hfs
        refine ⟨hi.childnodup _ _ _ hr hfs, ?_⟩
        intro n hn
        obtain ⟨c, hc⟩ := hi.child _ _ _ n hr hfs hn
        rw [List.append_assoc] at hc
        exact ⟨c, by rw [hEsk, if_neg (by simp), hc]⟩
      · obtain ⟨pe, fs, hpe, _, _, hfs, hb⟩ := hi.parent _ _ hr hne
        rw [List.dropLast_append_of_ne_nil hr0] at hpe
        rw [baseName_append hr0] at hb
        by_cases hd : r.dropLast = []
        · left
          rw [List.mem_reverse, hkids]
          rw [hd, List.append_nil, hs.src] at hpe
          cases hpe
          refine ⟨fs, baseName r, hfs, hb, ?_⟩
          have := dropLast_append_baseName hr0
          rw [hd] at this
          rw [← this]; rfl
        · right
          exact ⟨pe, fs, by rw [hEsk, if_neg hd, hpe], hfs, hb⟩
    · intro r b hb
      by_cases hr0 : r = []
      · subst hr0
        exfalso
        rw [List.append_nil, hFiles, relocate_files hnF] at hb
        have h1 : ¬ D = sk := fun h => hinc [] [] (by simp [h])
        cases hsf : alLookup sk s0.files <;> simp [hsf, h1] at hb
      · rw [hFsk r hr0] at hb
        obtain ⟨e, he⟩ := hi.dangling _ _ hb
        exact ⟨e, by rw [hEsk, if_neg hr0, he]⟩
  · intro k
    have h2 := nodeAt_alInsert_eqMod
      (σ := { relocate s0 sk D srcE with entries := alInsert sk.dropLast (rmChild op (baseName sk)) (relocate s0 sk D srcE).entries })
      (p := D.dropLast) hnp (plusChild_eqMod np (baseName D)) k
    have h1 := nodeAt_alInsert_eqMod (σ := relocate s0 sk D srcE) (p := sk.dropLast) hop
      (rmChild_eqMod op (baseName sk)) k
    exact h2.trans h1
  · have hf : (fun k : FsPath => sk.isPrefixOf k) D.dropLast = false := by
      cases h : sk.isPrefixOf D.dropLast with
      | false => exact h
      | true =>
        rw [List.isPrefixOf_iff_prefix] at h
        obtain ⟨t, ht⟩ := h
        exact absurd ht (hdd_sk t)
    have hf2 : (fun k : FsPath => sk.isPrefixOf k) sk.dropLast = false := by
      cases h : sk.isPrefixOf sk.dropLast with
      | false => exact h
      | true =>
        rw [List.isPrefixOf_iff_prefix] at h
        obtain ⟨t, ht⟩ := h
        exact absurd ht (hsd_sk t)
    have hf3 : (fun k : FsPath => sk.isPrefixOf k) D = false := by
      have := isPrefixOf_false_of_inc hinc []
      rwa [List.append_nil] at this
    show keyCount _ (alInsert _ _ (alInsert _ _ (alInsert _ _ (alErase sk s0.entries)))) + 1 = _
    rw [keyCount_alInsert_false hf, keyCount_alInsert_false hf2, keyCount_alInsert_false hf3]
    refine keyCount_alErase_true ?_ (alLookup_isSome_iff_mem_keys.1 (by rw [hs.src]; rfl))
    have := isPrefixOf_append sk []
    rwa [List.append_nil] at this

/-- **`move_p` after validation**: the relocation loop succeeds; afterwards nothing is left at or
    below the source key, the abstract node of every `sk ++ r` is found at `D ++ r`, and every
    key that is neither below the source nor at/below the destination keeps its abstract node -/
theorem moveLoop_spec {s0 : State} {sk dk D pre : FsPath} {srcE : Entry} (hi : InvF s0)
    (hk : KeysWf s0) (hs : MoveSetup s0 sk dk D pre srcE) :
    ∃ σ', moveLoop sk dk (isDirP s0 dk) (8 * (s0.entries.length + 2)) [sk] s0 = (.ok (), σ') ∧
      σ'.cwd = s0.cwd ∧
      (∀ r, alLookup (sk ++ r) σ'.entries = none) ∧
      (∀ r, nodeAt σ' (D ++ r) = nodeAt s0 (sk ++ r)) ∧
      (∀ k, (∀ r, k ≠ sk ++ r) → (∀ r, k ≠ D ++ r) → nodeAt σ' k = nodeAt s0 k) := by
  obtain ⟨op, np, hop, hopd, hnp, hnpd, hinv, hnode, hcount⟩ := root_establishes hi hk hs
  have hinc := hs.hinc
  have hnE := hi.nodup
  have hnF := hi.fnodup
  have hfuel : 8 * (s0.entries.length + 2) = (8 * (s0.entries.length + 2) - 1) + 1 := by omega
  have hdst0 : dstOf dk sk pre = D := by
    have := hs.hdst [] (by intro n hn; simp at hn)
    simpa using this
  rw [hfuel, moveLoop_root _ [] hs.hpre hs.src hs.skne hs.dne hdst0 hop hopd hnp hnpd, List.append_nil]
  have hc : keyCount (fun k => sk.isPrefixOf k) (rootStep s0 sk D srcE op np).entries <
      8 * (s0.entries.length + 2) - 1 := by
    have := keyCount_le (fun k => sk.isPrefixOf k) s0.entries
    omega
  obtain ⟨σ', hrun, hcwd, hnone, hview, hother⟩ :=
    moveLoop_children hs.hpre hinc hs.hdst _ _ _ hinv hc
  have hbelow : ∀ r, r ≠ [] → nodeAt s0 (D ++ r) = none := by
    intro r hr
    unfold nodeAt
    rw [nothing_below hi ?_ hr]; rfl
    rcases hs.dfree with h | ⟨x, hx, hxd, _⟩
    · exact Or.inl h
    · exact Or.inr ⟨x, hx, hxd⟩
  have hfree : alLookup sk s0.files = none → alLookup D s0.files = none := by
    intro hnf
    rcases hs.dfree with h | ⟨x, hx, _, _, _, hf, hl⟩
    · exact no_data_without_entry hi h
    · have := hi.data sk srcE hs.src
      rw [hnf, hf, hl] at this
      simp at this
  have hskD : sk ≠ D := fun h => hinc [] [] (by simp [h])
  refine ⟨σ', hrun, hcwd, hnone, ?_, ?_⟩
  · intro r
    rw [hview r, hnode, hnode]
    by_cases hr : r = []
    · subst hr
      simp only [List.append_nil]
      rw [nodeAt_relocate_src hnE hskD, nodeAt_relocate_dst hnE hnF hs.src hskD hfree]
      rfl
    · have h1 : sk ≠ sk ++ r := by
        intro h
        have := congrArg List.length h
        simp at this
        exact hr this
      have h2 : D ≠ D ++ r := by
        intro h
        have := congrArg List.length h
        simp at this
        exact hr this
      rw [nodeAt_relocate_other hnE hnF h1 (fun h => hinc r [] (by rw [List.append_nil]; exact h.symm)),
        nodeAt_relocate_other hnE hnF (fun h => hinc [] r (by rw [List.append_nil]; exact h)) h2,
        hbelow r hr, Option.or_none]
  · intro k hk1 hk2
    rw [hother k hk1 hk2, hnode]
    refine nodeAt_relocate_other hnE hnF ?_ ?_
    · intro h; exact hk1 [] (by rw [List.append_nil]; exact h.symm)
    · intro h; exact hk2 [] (by rw [List.append_nil]; exact h.symm)

end Rivia.Lemmas
