/-
  Rivia.Lemmas.Noop — lemmas for C01 (second sentence): a single-target call that reports failure
  leaves the state exactly as it was.
-/
import Rivia.Spec.MemfsJudge
import Rivia.Lemmas.PathBasics
import Rivia.Lemmas.MovedEntry
namespace Rivia.Lemmas.Noop
open Rivia Rivia.Memfs Rivia.Spec Rivia.Memfs.M

variable {α β : Type}

@[simp] theorem pure_apply (a : α) (s : State) : (Pure.pure a : M α) s = (.ok a, s) := rfl
@[simp] theorem mpure_apply (a : α) (s : State) : (M.pure a : M α) s = (.ok a, s) := rfl
@[simp] theorem fail_apply (k : ErrKind) (s : State) : (M.fail k : M α) s = (.err k, s) := rfl
@[simp] theorem hang_apply (s : State) : (M.hang : M α) s = (.hang, s) := rfl

theorem bind_apply (m : M α) (f : α → M β) (s : State) :
    (m >>= f) s = match m s with
      | (.ok a, s') => f a s'
      | (.err k, s') => (.err k, s')
      | (.panic, s') => (.panic, s')
      | (.hang, s') => (.hang, s') := rfl

theorem bind_ok {m : M α} {s s' : State} {a : α} (h : m s = (.ok a, s')) (f : α → M β) :
    (m >>= f) s = f a s' := by rw [bind_apply, h]
theorem bind_err {m : M α} {s s' : State} {k} (h : m s = (.err k, s')) (f : α → M β) :
    (m >>= f) s = (.err k, s') := by rw [bind_apply, h]
theorem bind_panic {m : M α} {s s' : State} (h : m s = (.panic, s')) (f : α → M β) :
    (m >>= f) s = (.panic, s') := by rw [bind_apply, h]
theorem bind_hang {m : M α} {s s' : State} (h : m s = (.hang, s')) (f : α → M β) :
    (m >>= f) s = (.hang, s') := by rw [bind_apply, h]

@[simp] theorem pure_bind_apply (a : α) (f : α → M β) (s : State) : ((Pure.pure a : M α) >>= f) s = f a s := rfl
@[simp] theorem mpure_bind_apply (a : α) (f : α → M β) (s : State) : ((M.pure a : M α) >>= f) s = f a s := rfl
@[simp] theorem fail_bind_apply (k) (f : α → M β) (s : State) : ((M.fail k : M α) >>= f) s = (.err k, s) := rfl
@[simp] theorem getEntry_bind_apply (p) (f : Option Entry → M β) (s : State) :
    (getEntry p >>= f) s = f (alLookup p s.entries) s := rfl
@[simp] theorem getFile_bind_apply (p) (f : Option File.Bytes → M β) (s : State) :
    (getFile p >>= f) s = f (alLookup p s.files) s := rfl
@[simp] theorem setEntry_bind_apply (p e) (f : Unit → M β) (s : State) :
    (setEntry p e >>= f) s = f () { s with entries := alInsert p e s.entries } := rfl
@[simp] theorem setFile_bind_apply (p b) (f : Unit → M β) (s : State) :
    (setFile p b >>= f) s = f () { s with files := alInsert p b s.files } := rfl
@[simp] theorem removeEntry_bind_apply (p) (f : Option Entry → M β) (s : State) :
    (removeEntry p >>= f) s = f (alLookup p s.entries) { s with entries := alErase p s.entries } := rfl
@[simp] theorem removeFile_bind_apply (p) (f : Option File.Bytes → M β) (s : State) :
    (removeFile p >>= f) s = f (alLookup p s.files) { s with files := alErase p s.files } := rfl
@[simp] theorem modify_bind_apply (g) (f : Unit → M β) (s : State) :
    (M.modify g >>= f) s = f () (g s) := rfl
@[simp] theorem get_bind_apply (f : State → M β) (s : State) :
    (M.get >>= f) s = f s s := rfl
@[simp] theorem liftO_ok_bind_apply (a : α) (f : α → M β) (s : State) :
    (M.liftO (.ok a) >>= f) s = f a s := rfl
@[simp] theorem liftO_err_bind_apply (k) (f : α → M β) (s : State) :
    (M.liftO (.err k : Outcome α) >>= f) s = (.err k, s) := rfl



/-! ### the invariant as propositions -/

theorem mem_of_alLookup {β} {k : FsPath} {v : β} : ∀ {l : List (FsPath × β)}, alLookup k l = some v → (k, v) ∈ l
  | [], h => by simp [alLookup] at h
  | (k', v') :: r, h => by
    simp only [alLookup] at h
    split at h
    · next hk => cases h; subst hk; simp
    · exact List.mem_cons_of_mem _ (mem_of_alLookup h)

/-- the clauses of `Inv` as propositions -/
structure InvP (s : State) : Prop where
  keysNodup : (s.entries.map (·.1)).Nodup
  root : ∃ e, alLookup [] s.entries = some e ∧ e.dir = true ∧ e.link = false
  rootNil : s.root = []
  parent : ∀ kv ∈ s.entries, kv.1 ≠ [] → ∃ pe fs, alLookup kv.1.dropLast s.entries = some pe ∧ pe.dir = true ∧
      pe.link = false ∧ pe.files = some fs ∧ baseName kv.1 ∈ fs
  listed : ∀ kv ∈ s.entries, ∀ fs, kv.2.files = some fs → ∀ n ∈ fs, (alLookup (kv.1 ++ [n]) s.entries).isSome = true
  data : ∀ kv ∈ s.entries, (kv.2.file && !kv.2.link) = (alLookup kv.1 s.files).isSome
  dangling : ∀ kv ∈ s.files, (alLookup kv.1 s.entries).isSome = true
  filesNodup : (s.files.map (·.1)).Nodup
  pathField : ∀ kv ∈ s.entries, kv.2.path = kv.1
  dirFlag : ∀ kv ∈ s.entries, kv.2.files.isSome = kv.2.dir
  childNodup : ∀ kv ∈ s.entries, ∀ fs, kv.2.files = some fs → fs.Nodup

theorem invP_of_inv {s : State} (h : Spec.Inv s) : InvP s := by
  unfold Spec.Inv invViolation at h
  simp only [] at h
  split at h; · cases h
  next h1 =>
  split at h; · cases h
  next h2 =>
  split at h; · cases h
  next h3 =>
  split at h; · cases h
  next h4 =>
  split at h; · cases h
  next h5 =>
  split at h; · cases h
  next h6 =>
  split at h; · cases h
  next h7 =>
  split at h; · cases h
  next h8 =>
  split at h; · cases h
  next h9 =>
  split at h; · cases h
  next h10 =>
  split at h; · cases h
  next h11 =>
  clear h
  simp only [List.find?_eq_none] at h4 h5 h6 h7 h9 h10 h11
  refine ⟨by simpa using h1, ?_, by simpa using h3, ?_, ?_, ?_, ?_, by simpa using h8, ?_, ?_, ?_⟩
  · cases hr : alLookup [] s.entries with
    | none => simp [hr] at h2
    | some e => simp [hr] at h2; exact ⟨e, rfl, by simpa using h2⟩
  · intro kv hkv hne
    have := h4 kv hkv
    simp only [hne, ne_eq, not_false_eq_true, decide_true, Bool.true_and] at this
    cases hp : alLookup kv.1.dropLast s.entries with
    | none => simp [hp] at this
    | some pe =>
      simp only [hp] at this
      cases hf : pe.files with
      | none => simp [hf] at this
      | some fs =>
        simp [hf] at this
        exact ⟨pe, fs, rfl, this.1.1, this.1.2, hf, this.2⟩
  · intro kv hkv fs hfs n hn
    have := h5 kv hkv
    simp [hfs] at this
    have := this n hn
    cases h : alLookup (kv.1 ++ [n]) s.entries <;> simp_all
  · intro kv hkv
    have := h6 kv hkv
    simpa using this
  · intro kv hkv
    have := h7 kv hkv
    cases h : alLookup kv.1 s.entries <;> simp_all
  · intro kv hkv
    have := h9 kv hkv
    simpa using this
  · intro kv hkv
    have := h10 kv hkv
    simpa using this
  · intro kv hkv fs hfs
    have := h11 kv hkv
    simpa [hfs] using this

/-! ### association lists -/

theorem alLookup_alInsert_self {β} (k : FsPath) (v : β) : ∀ l : List (FsPath × β), alLookup k (alInsert k v l) = some v
  | [] => by simp [alInsert, alLookup]
  | (k', v') :: r => by
    simp only [alInsert]
    split
    · simp [alLookup]
    · next h => simp [alLookup, h, alLookup_alInsert_self k v r]

theorem alLookup_alInsert_ne {β} {k k' : FsPath} (h : k' ≠ k) (v : β) :
    ∀ l : List (FsPath × β), alLookup k' (alInsert k v l) = alLookup k' l
  | [] => by simp [alInsert, alLookup, Ne.symm h]
  | (k'', v'') :: r => by
    simp only [alInsert]
    split
    · next h2 => subst h2; simp [alLookup, Ne.symm h]
    · simp only [alLookup, alLookup_alInsert_ne h v r]

theorem dropLast_ne_self {α} {p : List α} (h : p ≠ []) : p.dropLast ≠ p := by
  intro he
  have := congrArg List.length he
  simp at this
  have : p.length ≠ 0 := by simpa using h
  omega

theorem dropLast_append_baseName {p : FsPath} (h : p ≠ []) : p.dropLast ++ [baseName p] = p := by
  unfold baseName
  rw [List.getLast?_eq_some_getLast h]
  exact List.dropLast_concat_getLast h

theorem baseName_snoc (q : FsPath) (n : Str) : baseName (q ++ [n]) = n := by
  simp [baseName]

/-! ### `insertName` -/

theorem insertName_fst_of_not_mem (n : Str) : ∀ fs : List Str, n ∉ fs → (insertName n fs).1 = true
  | [], _ => by simp [insertName]
  | x :: xs, h => by
    simp only [List.mem_cons, not_or] at h
    simp only [insertName, h.1, if_false]
    split
    · rfl
    · exact insertName_fst_of_not_mem n xs h.2

theorem addChild_new {d : Entry} {name : Str} (hd : d.dir = true)
    (hnew : ∀ fs, d.files = some fs → name ∉ fs) :
    ∃ d', d.addChild name = .ok (true, d') ∧ d'.dir = true ∧ d'.link = d.link := by
  unfold Entry.addChild
  rw [if_neg (by simp [hd])]
  cases hf : d.files with
  | none => exact ⟨_, rfl, hd, rfl⟩
  | some fs =>
    have := insertName_fst_of_not_mem name fs (hnew fs hf)
    refine ⟨{ d with files := some (insertName name fs).2 }, ?_, hd, rfl⟩
    dsimp only
    generalize insertName name fs = r at this
    obtain ⟨b, r⟩ := r
    simp only at this
    subst this
    rfl

/-! ### `add` -/

/-- the state after `add e` created the entry under the parent entry `d'` -/
def addedState (e d' : Entry) (s : State) : State :=
  { s with files := if (!e.link && e.file) = true then alInsert e.path [] s.files else s.files,
           entries := alInsert e.path.dropLast d' (alInsert e.path e s.entries) }

theorem add_root {e : Entry} (s : State) (hp : e.path = []) : add e s = (.ok e.path, s) := by
  simp [add, hp]

theorem add_noParent {e : Entry} {s : State} (hp : e.path ≠ [])
    (hd : alLookup e.path.dropLast s.entries = none) : add e s = (.err .doesNotExist, s) := by
  simp [add, hp, hd]

theorem add_badParent {e d : Entry} {s : State} (hp : e.path ≠ [])
    (hd : alLookup e.path.dropLast s.entries = some d) (hb : (!d.dir || d.link) = true) :
    add e s = (.err .isNotDir, s) := by
  simp only [Bool.or_eq_true, Bool.not_eq_eq_eq_not, Bool.not_true] at hb
  simp [add, hp, hd, hb]

theorem add_existing {e d x : Entry} {s : State} (hp : e.path ≠ [])
    (hd : alLookup e.path.dropLast s.entries = some d) (hb : (!d.dir || d.link) = false)
    (hx : alLookup e.path s.entries = some x) :
    add e s = (.ok e.path, s) ∨ ∃ k, add e s = (.err k, s) := by
  simp only [Bool.or_eq_false_iff, Bool.not_eq_eq_eq_not, Bool.not_false] at hb
  simp only [add, hp, if_false, getEntry_bind_apply, hd, hb.1, hb.2, hx, Bool.not_true, Bool.or_false,
    Bool.false_eq_true]
  split
  · exact .inr ⟨_, rfl⟩
  · split
    · exact .inr ⟨_, rfl⟩
    · split
      · exact .inr ⟨_, rfl⟩
      · exact .inl rfl

theorem add_new {e d : Entry} {s : State} (hp : e.path ≠ [])
    (hd : alLookup e.path.dropLast s.entries = some d) (hdd : d.dir = true) (hdl : d.link = false)
    (hx : alLookup e.path s.entries = none)
    (hnew : ∀ fs, d.files = some fs → baseName e.path ∉ fs) :
    ∃ d', d.addChild (baseName e.path) = .ok (true, d') ∧ d'.dir = true ∧ d'.link = false ∧
      add e s = (.ok e.path, addedState e d' s) := by
  obtain ⟨d', h1, h2, h3⟩ := addChild_new hdd hnew
  refine ⟨d', h1, h2, h3.trans hdl, ?_⟩
  have hne := dropLast_ne_self hp
  simp only [add, hp, if_false, getEntry_bind_apply, hd, hdd, hdl, hx, Bool.not_true, Bool.or_false,
    Bool.false_eq_true]
  unfold addedState
  split
  · next hc =>
    simp only [setFile_bind_apply, setEntry_bind_apply, getEntry_bind_apply,
      alLookup_alInsert_ne hne, hd, h1, liftO_ok_bind_apply]
    simp
  · next hc =>
    simp only [setEntry_bind_apply, getEntry_bind_apply,
      alLookup_alInsert_ne hne, hd, h1, liftO_ok_bind_apply]
    simp

/-! ### consequences of the invariant for lookups -/

theorem InvP.parent' {s : State} (h : InvP s) {k : FsPath} {e : Entry} (hk : alLookup k s.entries = some e)
    (hne : k ≠ []) : ∃ pe fs, alLookup k.dropLast s.entries = some pe ∧ pe.dir = true ∧
      pe.link = false ∧ pe.files = some fs ∧ baseName k ∈ fs :=
  h.parent (k, e) (mem_of_alLookup hk) hne

theorem InvP.listed' {s : State} (h : InvP s) {k : FsPath} {e : Entry} (hk : alLookup k s.entries = some e)
    {fs : List Str} (hf : e.files = some fs) {n : Str} (hn : n ∈ fs) :
    (alLookup (k ++ [n]) s.entries).isSome = true :=
  h.listed (k, e) (mem_of_alLookup hk) fs hf n hn

theorem InvP.newName {s : State} (h : InvP s) {p : FsPath} {d : Entry} (hp : p ≠ [])
    (hd : alLookup p.dropLast s.entries = some d) (hx : alLookup p s.entries = none) :
    ∀ fs, d.files = some fs → baseName p ∉ fs := by
  intro fs hf hn
  have := h.listed' hd hf hn
  rw [dropLast_append_baseName hp, hx] at this
  cases this

/-- an existing key has all its prefixes -/
theorem InvP.prefix_exists {s : State} (h : InvP s) (p : FsPath) :
    ∀ r : FsPath, (alLookup (p ++ r) s.entries).isSome = true → (alLookup p s.entries).isSome = true := by
  intro r
  generalize hn : r.length = n
  induction n generalizing r with
  | zero =>
    have : r = [] := List.eq_nil_of_length_eq_zero hn
    subst this; simp
  | succ n ih =>
    rcases eq_nil_or_snoc r with rfl | ⟨r', x, rfl⟩
    · simp
    intro hx
    cases hl : alLookup (p ++ (r' ++ [x])) s.entries with
    | none => rw [hl] at hx; cases hx
    | some e =>
      obtain ⟨pe, _, hpe, _⟩ := h.parent' hl (by simp)
      rw [← List.append_assoc, List.dropLast_concat] at hpe
      exact ih r' (by simpa using hn) (by rw [hpe]; rfl)

/-- the three ways `add` can go on a state satisfying the invariant -/
theorem add_cases {s : State} (h : InvP s) (e : Entry) :
    (∃ k, add e s = (.err k, s)) ∨
    (add e s = (.ok e.path, s) ∧ (alLookup e.path s.entries).isSome = true) ∨
    (∃ d d', e.path ≠ [] ∧ alLookup e.path.dropLast s.entries = some d ∧ d.dir = true ∧ d.link = false ∧
      alLookup e.path s.entries = none ∧ d.addChild (baseName e.path) = .ok (true, d') ∧
      d'.dir = true ∧ d'.link = false ∧ add e s = (.ok e.path, addedState e d' s)) := by
  by_cases hp : e.path = []
  · obtain ⟨r, hr, _⟩ := h.root
    exact .inr (.inl ⟨add_root s hp, by rw [hp, hr]; rfl⟩)
  cases hd : alLookup e.path.dropLast s.entries with
  | none => exact .inl ⟨_, add_noParent hp hd⟩
  | some d =>
    cases hb : (!d.dir || d.link) with
    | true => exact .inl ⟨_, add_badParent hp hd hb⟩
    | false =>
      cases hx : alLookup e.path s.entries with
      | some x =>
        rcases add_existing hp hd hb hx with h1 | h1
        · exact .inr (.inl ⟨h1, by simp⟩)
        · exact .inl h1
      | none =>
        simp only [Bool.or_eq_false_iff, Bool.not_eq_eq_eq_not, Bool.not_false] at hb
        obtain ⟨d', h1, h2, h3, h4⟩ := add_new hp hd hb.1 hb.2 hx (h.newName hp hd hx)
        exact .inr (.inr ⟨d, d', hp, rfl, hb.1, hb.2, rfl, h1, h2, h3, h4⟩)

/-! ### "a reported failure leaves the state as it was" -/

/-- `m` run on `s`: every `Err` outcome comes with the unchanged state -/
def NoopM {α} (m : M α) (s : State) : Prop := ∀ k s', m s = (.err k, s') → s' = s

theorem absM_snd (env : Env) (p : Str) (s : State) : (absM env p s).2 = s := by
  unfold absM; split <;> rfl

theorem absM_bind_apply (env : Env) (p : Str) (f : FsPath → M β) (s : State) :
    (absM env p >>= f) s = match absWith env (renderP s.cwd) p with
      | .ok a => f (toPath a) s
      | .err k => (.err k, s)
      | .panic => (.panic, s)
      | .hang => (.hang, s) := by
  rw [bind_apply]; unfold absM; cases absWith env (renderP s.cwd) p <;> rfl

theorem NoopM.absM_bind {env : Env} {p : Str} {f : FsPath → M β} {s : State}
    (h : ∀ a, NoopM (f a) s) : NoopM (absM env p >>= f) s := by
  intro k s' he
  rw [absM_bind_apply] at he
  split at he
  · exact h _ k s' he
  · cases he; rfl
  · cases he
  · cases he

theorem noop_of_mapVal {f : α → Val} {m : M α} {s : State} (h : NoopM m s) {k : ErrKind}
    (he : (mapVal f m s).1 = .err k) : (mapVal f m s).2 = s := by
  unfold mapVal at he ⊢
  rcases hm : m s with ⟨o, s'⟩
  rw [hm] at he
  cases o with
  | err k' => exact h k' s' hm
  | _ => cases he

@[simp] theorem ite_app {c : Prop} [Decidable c] (m1 m2 : M α) (s : State) :
    (if c then m1 else m2) s = if c then m1 s else m2 s := by split <;> rfl

theorem addedState_files_file (a : FsPath) (d' : Entry) (s : State) :
    alLookup a (addedState (mkFileEntry a) d' s).files = some [] := by
  simp [addedState, mkFileEntry, alLookup_alInsert_self]

theorem addedState_entry {e d' : Entry} {s : State} (hp : e.path ≠ []) :
    alLookup e.path (addedState e d' s).entries = some e := by
  simp only [addedState]
  rw [alLookup_alInsert_ne (Ne.symm (dropLast_ne_self hp)), alLookup_alInsert_self]

theorem noop_mkfileM {s : State} (h : InvP s) (env : Env) (p : Str) : NoopM (mkfileM env p) s := by
  unfold mkfileM
  apply NoopM.absM_bind; intro a k s' he
  rcases add_cases h (mkFileEntry a) with ⟨k', h1⟩ | ⟨h1, _⟩ | ⟨d, d', _, _, _, _, _, _, _, _, h1⟩
  · rw [bind_err h1] at he; cases he; rfl
  · rw [bind_ok h1] at he
    simp only [getFile_bind_apply, ite_app, fail_apply, pure_apply] at he
    split at he <;> cases he <;> rfl
  · rw [bind_ok h1] at he
    simp only [getFile_bind_apply, ite_app, fail_apply, pure_apply] at he
    have : (mkFileEntry a).path = a := rfl
    rw [this, addedState_files_file] at he
    simp at he

theorem syncM_ok {p : FsPath} {s : State} (h : (alLookup p s.entries).isSome = true) (data : File.Bytes) :
    ∃ s', syncM p data s = (.ok (), s') := by
  cases he : alLookup p s.entries with
  | none => rw [he] at h; cases h
  | some e =>
    unfold syncM
    simp only [getEntry_bind_apply, he, getFile_bind_apply]
    cases alLookup p s.files with
    | none => exact ⟨_, rfl⟩
    | some b => exact ⟨_, rfl⟩

theorem noop_writeAllM {s : State} (h : InvP s) (env : Env) (p : Str) (data : File.Bytes) :
    NoopM (writeAllM env p data) s := by
  unfold writeAllM
  apply NoopM.absM_bind; intro a k s' he
  rcases add_cases h (mkFileEntry a) with ⟨k', h1⟩ | ⟨h1, _⟩ | ⟨d, d', _, _, _, _, _, _, _, _, h1⟩
  · rw [bind_err h1] at he; cases he; rfl
  · rw [bind_ok h1] at he
    simp only [getFile_bind_apply, ite_app, fail_apply] at he
    split at he <;> cases he <;> rfl
  · rw [bind_ok h1] at he
    simp only [getFile_bind_apply, ite_app, fail_apply] at he
    rw [addedState_files_file] at he
    simp at he

theorem noop_appendAllM {s : State} (h : InvP s) (env : Env) (p : Str) (data : File.Bytes) :
    NoopM (appendAllM env p data) s := by
  unfold appendAllM
  apply NoopM.absM_bind; intro a k s' he
  have key : ∀ s1, (alLookup a s1.entries).isSome = true → (s1 = s ∨ (alLookup a s1.files).isSome = true) →
      (getFile a >>= fun x => match x with
        | some b => (do
          syncM a (b ++ data)
          fun s => let (_, s') := syncM a (b ++ data) s; (.ok (), s') : M Unit)
        | none => M.fail .doesNotExist) s1 = (.err k, s') → s' = s := by
    intro s1 hex hs he'
    clear he
    simp only [getFile_bind_apply] at he'
    cases hf : alLookup a s1.files with
    | none =>
      rw [hf] at he' hs
      simp only [fail_apply] at he'
      rcases hs with rfl | hs
      · cases he'; rfl
      · cases hs
    | some b =>
      rw [hf] at he'
      obtain ⟨s2, h2⟩ := syncM_ok hex (b ++ data)
      simp only [] at he'
      rw [bind_ok h2] at he'
      cases he'
  rcases add_cases h (mkFileEntry a) with ⟨k', h1⟩ | ⟨h1, hex⟩ | ⟨d, d', hp, _, _, _, _, _, _, _, h1⟩
  · rw [bind_err h1] at he; cases he; rfl
  · rw [bind_ok h1] at he
    exact key s hex (.inl rfl) he
  · rw [bind_ok h1] at he
    refine key _ ?_ (.inr ?_) he
    · have := addedState_entry (e := mkFileEntry a) (d' := d') (s := s) hp
      rw [show (mkFileEntry a).path = a from rfl] at this
      rw [this]; rfl
    · rw [addedState_files_file]; rfl

/-! ### structural rules -/

/-- `m` never reports an error, whatever the state -/
def NeverErr (m : M α) : Prop := ∀ s k s', m s ≠ (.err k, s')

theorem NeverErr.pure (a : α) : NeverErr (Pure.pure a : M α) := fun _ _ _ h => by cases h
theorem NeverErr.mpure (a : α) : NeverErr (M.pure a : M α) := fun _ _ _ h => by cases h
theorem NeverErr.getEntry (p : FsPath) : NeverErr (getEntry p) := fun _ _ _ h => by cases h
theorem NeverErr.getFile (p : FsPath) : NeverErr (getFile p) := fun _ _ _ h => by cases h
theorem NeverErr.setEntry (p : FsPath) (e : Entry) : NeverErr (setEntry p e) := fun _ _ _ h => by cases h
theorem NeverErr.setFile (p : FsPath) (b : File.Bytes) : NeverErr (setFile p b) := fun _ _ _ h => by cases h
theorem NeverErr.removeEntry (p : FsPath) : NeverErr (removeEntry p) := fun _ _ _ h => by cases h
theorem NeverErr.removeFile (p : FsPath) : NeverErr (removeFile p) := fun _ _ _ h => by cases h
theorem NeverErr.modify (g : State → State) : NeverErr (M.modify g) := fun _ _ _ h => by cases h

theorem NeverErr.bind {m : M α} {f : α → M β} (hm : NeverErr m) (hf : ∀ a, NeverErr (f a)) :
    NeverErr (m >>= f) := by
  intro s k s' he
  rw [bind_apply] at he
  split at he
  · exact hf _ _ _ _ he
  · next heq => exact hm _ _ _ heq
  · cases he
  · cases he

theorem NeverErr.ite {c : Prop} [Decidable c] {m1 m2 : M α} (h1 : NeverErr m1) (h2 : NeverErr m2) :
    NeverErr (if c then m1 else m2) := by split <;> assumption

theorem NoopM.of_neverErr {m : M α} (h : NeverErr m) (s : State) : NoopM m s :=
  fun k s' he => absurd he (h s k s')

theorem NoopM.fail (k : ErrKind) (s : State) : NoopM (M.fail k : M α) s := fun _ _ h => by cases h; rfl
theorem NoopM.fail_bind (k : ErrKind) (f : α → M β) (s : State) : NoopM (M.fail k >>= f) s :=
  fun _ _ h => by cases h; rfl
theorem NoopM.pure (a : α) (s : State) : NoopM (Pure.pure a : M α) s := fun _ _ h => by cases h
theorem NoopM.mpure (a : α) (s : State) : NoopM (M.pure a : M α) s := fun _ _ h => by cases h
theorem NoopM.pure_bind {a : α} {f : α → M β} {s : State} (h : NoopM (f a) s) :
    NoopM (Pure.pure a >>= f) s := h
theorem NoopM.mpure_bind {a : α} {f : α → M β} {s : State} (h : NoopM (f a) s) :
    NoopM (M.pure a >>= f) s := h
theorem NoopM.getEntry_bind {p : FsPath} {f : Option Entry → M β} {s : State}
    (h : NoopM (f (alLookup p s.entries)) s) : NoopM (getEntry p >>= f) s := h
theorem NoopM.getFile_bind {p : FsPath} {f : Option File.Bytes → M β} {s : State}
    (h : NoopM (f (alLookup p s.files)) s) : NoopM (getFile p >>= f) s := h
theorem NoopM.get_bind {f : State → M β} {s : State} (h : NoopM (f s) s) : NoopM (M.get >>= f) s := h
theorem NoopM.liftO_bind {o : Outcome α} {f : α → M β} {s : State}
    (h : ∀ a, o = .ok a → NoopM (f a) s) : NoopM (M.liftO o >>= f) s := by
  cases o with
  | ok a => exact h a rfl
  | err k => exact fun _ _ h => by cases h; rfl
  | panic => exact fun _ _ h => by cases h
  | hang => exact fun _ _ h => by cases h
theorem NoopM.ite {c : Prop} [Decidable c] {m1 m2 : M α} {s : State} (h1 : c → NoopM m1 s)
    (h2 : ¬c → NoopM m2 s) : NoopM (if c then m1 else m2) s := by
  split
  · exact h1 ‹_›
  · exact h2 ‹_›
/-- a step that cannot fail followed by steps that never fail -/
theorem NoopM.neverErr_bind {m : M α} {f : α → M β} {s : State} (hm : NeverErr m) (hf : ∀ a, NeverErr (f a)) :
    NoopM (m >>= f) s := NoopM.of_neverErr (hm.bind hf) s

theorem NoopM.dirOf_bind {p : FsPath} {f : FsPath → M β} {s : State}
    (h : p ≠ [] → NoopM (f p.dropLast) s) : NoopM (dirOf p >>= f) s := by
  unfold dirOf
  split
  · exact NoopM.fail_bind _ _ _
  · exact h ‹_›

theorem noop_removeM (s : State) (env : Env) (p : Str) : NoopM (removeM env p) s := by
  unfold removeM
  apply NoopM.absM_bind; intro a
  apply NoopM.getEntry_bind
  extract_lets jp3 jp2 jp1
  have hjp3 : ∀ r, NeverErr (jp3 r) := fun r =>
    NeverErr.bind (NeverErr.removeEntry _) (fun _ => NeverErr.pure _)
  have hjp2 : ∀ r, NeverErr (jp2 r) := by
    intro r
    apply NeverErr.bind (NeverErr.getEntry _)
    intro x
    cases x with
    | none => exact NeverErr.bind (NeverErr.mpure _) hjp3
    | some e => exact NeverErr.ite (NeverErr.bind (NeverErr.removeFile _) (fun _ => hjp3 ())) (hjp3 ())
  have hjp1 : ∀ r, NoopM (jp1 r) s := by
    intro r
    apply NoopM.getEntry_bind
    apply NoopM.ite
    · intro _; exact NoopM.pure _ _
    intro _
    apply NoopM.dirOf_bind
    intro _
    apply NoopM.getEntry_bind
    cases alLookup a.dropLast s.entries with
    | none => exact NoopM.mpure_bind (NoopM.of_neverErr (hjp2 ()) _)
    | some pe =>
      apply NoopM.liftO_bind
      intro pe' _
      exact NoopM.neverErr_bind (NeverErr.setEntry _ _) hjp2
  cases alLookup a s.entries with
  | none => exact NoopM.mpure_bind (hjp1 ())
  | some e =>
    dsimp only
    cases e.files with
    | none => exact NoopM.mpure_bind (hjp1 ())
    | some fs =>
      dsimp only
      apply NoopM.ite
      · intro _; exact NoopM.fail_bind _ _ _
      · intro _; exact NoopM.mpure_bind (hjp1 ())


theorem noop_setCwdM (s : State) (env : Env) (p : Str) : NoopM (setCwdM env p) s := by
  unfold setCwdM
  apply NoopM.absM_bind; intro a
  apply NoopM.getEntry_bind
  cases alLookup a s.entries with
  | none => exact NoopM.fail _ _
  | some e =>
    dsimp only
    apply NoopM.ite
    · intro _; exact NoopM.fail _ _
    · intro _; exact NoopM.neverErr_bind (NeverErr.modify _) (fun _ => NeverErr.pure _)

theorem NoopM.add_bind {e : Entry} {f : FsPath → M β} {s : State} (h : InvP s)
    (hf : ∀ a, NeverErr (f a)) : NoopM (add e >>= f) s := by
  intro k s' he
  rcases add_cases h e with ⟨k', h1⟩ | ⟨h1, _⟩ | ⟨d, d', _, _, _, _, _, _, _, _, h1⟩
  · rw [bind_err h1] at he; cases he; rfl
  · rw [bind_ok h1] at he; exact absurd he (hf _ _ _ _)
  · rw [bind_ok h1] at he; exact absurd he (hf _ _ _ _)

theorem noop_symlinkM {s : State} (h : InvP s) (env : Env) (l t : Str) : NoopM (symlinkM env l t) s := by
  unfold symlinkM
  apply NoopM.absM_bind; intro a
  apply NoopM.getEntry_bind
  apply NoopM.ite
  · intro _; exact NoopM.fail _ _
  intro _
  extract_lets jp
  have hjp : ∀ r, NoopM (jp r) s := by
    intro r
    apply NoopM.absM_bind; intro t'
    apply NoopM.dirOf_bind; intro _
    apply NoopM.getEntry_bind
    exact NoopM.add_bind h (fun _ => NeverErr.pure _)
  apply NoopM.ite
  · intro _; exact NoopM.mpure_bind (hjp _)
  · intro _
    apply NoopM.dirOf_bind; intro _
    exact NoopM.mpure_bind (hjp _)

/-! ### `mkdirM` -/

/-- the proper extensions of `q` along `rest`, shortest first -/
def extsFrom (q : FsPath) : List Str → List FsPath
  | [] => []
  | n :: rest => (q ++ [n]) :: extsFrom (q ++ [n]) rest

theorem prefixes_cons (n : Str) (p : FsPath) : prefixes (n :: p) = [] :: (prefixes p).map (n :: ·) := by
  unfold prefixes
  simp only [List.length_cons]
  rw [List.range_succ_eq_map]
  simp [List.map_map, Function.comp_def]

theorem map_prefixes (rest : List Str) : ∀ q : FsPath, (prefixes rest).map (q ++ ·) = q :: extsFrom q rest := by
  induction rest with
  | nil => intro q; simp [prefixes, extsFrom]
  | cons n rest ih =>
    intro q
    rw [prefixes_cons]
    simp only [List.map_cons, List.append_nil, List.map_map, extsFrom]
    have := ih (q ++ [n])
    rw [← this]
    simp [Function.comp_def]

theorem prefixes_eq (p : FsPath) : prefixes p = [] :: extsFrom [] p := by
  have := map_prefixes p []
  simpa using this

/-- the body of the `mkdir` loop -/
def mkStep (mode : Option Nat) : FsPath → M PUnit := fun p => do
  let _ ← add (mkDirEntry p mode)
  Pure.pure ()

theorem mkdirM_eq (abs : FsPath) (mode : Option Nat) : mkdirM abs mode = (prefixes abs).forM (mkStep mode) := rfl

theorem forM_cons_apply (f : FsPath → M PUnit) (a : FsPath) (l : List FsPath) (s : State) :
    ((a :: l).forM f) s = (f a >>= fun _ => l.forM f) s := rfl

theorem mkStep_ok {mode : Option Nat} {p r : FsPath} {s s' : State} (h : add (mkDirEntry p mode) s = (.ok r, s')) :
    mkStep mode p s = (.ok (), s') := by
  unfold mkStep; rw [bind_ok h]; rfl

theorem mkStep_err {mode : Option Nat} {p : FsPath} {k : ErrKind} {s s' : State}
    (h : add (mkDirEntry p mode) s = (.err k, s')) :
    mkStep mode p s = (.err k, s') := by
  unfold mkStep; rw [bind_err h]

/-- once a directory has been created, the remaining prefixes are all created without error -/
theorem mkdir_phaseB (mode : Option Nat) : ∀ (rest : List Str) (q : FsPath) (s1 : State) (d : Entry),
    alLookup q s1.entries = some d → d.dir = true → d.link = false → d.files = some [] →
    (∀ r, r ≠ [] → alLookup (q ++ r) s1.entries = none) →
    ∀ k s', ((extsFrom q rest).forM (mkStep mode)) s1 ≠ (.err k, s') := by
  intro rest
  induction rest with
  | nil => intro q s1 d _ _ _ _ _ k s' he; simp [extsFrom] at he
  | cons n rest ih =>
    intro q s1 d hq hdd hdl hdf hnone k s' he
    simp only [extsFrom] at he
    rw [forM_cons_apply] at he
    have hp : (mkDirEntry (q ++ [n]) mode).path ≠ [] := by simp [mkDirEntry]
    have hpath : (mkDirEntry (q ++ [n]) mode).path = q ++ [n] := rfl
    obtain ⟨d', _, _, _, h4⟩ := add_new (e := mkDirEntry (q ++ [n]) mode) (d := d) (s := s1) hp
      (by rw [hpath, List.dropLast_concat]; exact hq) hdd hdl (by rw [hpath]; exact hnone [n] (by simp))
      (by intro fs hfs; rw [hdf] at hfs; cases hfs; simp)
    rw [bind_ok (mkStep_ok h4)] at he
    refine ih (q ++ [n]) _ (mkDirEntry (q ++ [n]) mode) ?_ rfl rfl rfl ?_ k s' he
    · exact addedState_entry hp
    · intro r hr
      simp only [addedState, hpath, List.dropLast_concat]
      rw [alLookup_alInsert_ne, alLookup_alInsert_ne, List.append_assoc]
      · exact hnone _ (by simp)
      all_goals
        intro hc
        have h1 := congrArg List.length hc
        have h2 : r.length ≠ 0 := by simpa using hr
        simp only [List.length_append, List.length_cons, List.length_nil] at h1
        omega

theorem append_ne_of_ne_nil {α} (q r : List α) (hr : r ≠ []) : q ++ r ≠ q := by
  intro hc
  have h1 := congrArg List.length hc
  have h2 : r.length ≠ 0 := by simpa using hr
  simp only [List.length_append] at h1
  omega

/-- while every prefix met so far existed already the state is the initial one; the first
    creation switches to `mkdir_phaseB` -/
theorem mkdir_phaseA (mode : Option Nat) {s : State} (h : InvP s) : ∀ (rest : List Str) (q : FsPath),
    ∀ k s', ((extsFrom q rest).forM (mkStep mode)) s = (.err k, s') → s' = s := by
  intro rest
  induction rest with
  | nil => intro q k s' he; simp [extsFrom] at he
  | cons n rest ih =>
    intro q k s' he
    simp only [extsFrom] at he
    rw [forM_cons_apply] at he
    have hpath : (mkDirEntry (q ++ [n]) mode).path = q ++ [n] := rfl
    rcases add_cases h (mkDirEntry (q ++ [n]) mode) with ⟨k', h1⟩ | ⟨h1, _⟩ |
      ⟨d, d', hp, hd, _, _, hx, _, _, _, h1⟩
    · rw [bind_err (mkStep_err h1)] at he; cases he; rfl
    · rw [bind_ok (mkStep_ok h1)] at he; exact ih _ k s' he
    · rw [bind_ok (mkStep_ok h1)] at he
      exfalso
      refine mkdir_phaseB mode rest (q ++ [n]) _ (mkDirEntry (q ++ [n]) mode) (addedState_entry hp) rfl rfl rfl
        ?_ k s' he
      intro r hr
      simp only [addedState, hpath, List.dropLast_concat]
      rw [alLookup_alInsert_ne, alLookup_alInsert_ne]
      · cases hl : alLookup (q ++ [n] ++ r) s.entries with
        | none => rfl
        | some x =>
          have := h.prefix_exists (q ++ [n]) r (by rw [hl]; rfl)
          rw [hpath] at hx
          rw [hx] at this; cases this
      · exact append_ne_of_ne_nil _ _ hr
      · rw [List.append_assoc]; exact append_ne_of_ne_nil _ _ (by simp)

theorem noop_mkdirM {s : State} (h : InvP s) (abs : FsPath) (mode : Option Nat) : NoopM (mkdirM abs mode) s := by
  intro k s' he
  rw [mkdirM_eq, prefixes_eq, forM_cons_apply,
    bind_ok (mkStep_ok (add_root (e := mkDirEntry [] mode) s rfl))] at he
  exact mkdir_phaseA mode h abs [] k s' he

theorem noop_mkdirOp {s : State} (h : InvP s) (env : Env) (p : Str) (mode : Option Nat) :
    NoopM (mkdirOp env p mode) s := by
  unfold mkdirOp
  apply NoopM.absM_bind; intro a k s' he
  rw [bind_apply] at he
  split at he
  · cases he
  · next heq => cases he; exact noop_mkdirM h a mode _ _ heq
  · cases he
  · cases he


set_option linter.unusedSimpArgs false

/-! ### `moveLoop` -/

/-- the prefix `move_p` trims from every source path -/
def preOf (S : FsPath) (copyInto : Bool) : FsPath := if copyInto then S.dropLast else S

/-- children paths pushed by one iteration -/
def kidsOf (e : Entry) : List FsPath :=
  match e.files with | some fs => fs.map (fun n => e.path ++ [n]) | none => []

/-- the state after the entry `e` stored under `p` was re-inserted under `dst` -/
def movedState (p dst : FsPath) (e : Entry) (σ : State) : State :=
  { σ with entries := alInsert dst { e with path := dst, rel := movedRel e dst } (alErase p σ.entries),
           files := match alLookup p σ.files with
             | some b => alInsert dst b (alErase p σ.files)
             | none => alErase p σ.files }

theorem moveLoop_missing {S dR : FsPath} {ci : Bool} (hS : S ≠ []) {p : FsPath} {W : List FsPath} {σ : State}
    (f : Nat) (he : alLookup p σ.entries = none) :
    ∃ σ', moveLoop S dR ci (f + 1) (p :: W) σ = (.err .doesNotExist, σ') := by
  rw [moveLoop]
  cases ci <;> simp [dirOf, hS, he]

/-- an iteration whose source parent is gone (every path except the root of the move) -/
theorem moveLoop_child {S dR : FsPath} {ci : Bool} (hS : S ≠ []) {p : FsPath} {W : List FsPath} {σ : State}
    {e : Entry} (f : Nat) (hp : p ≠ []) (he : alLookup p σ.entries = some e)
    (hdne : dstOf dR p (preOf S ci) ≠ [])
    (hpar : alLookup p.dropLast (movedState p (dstOf dR p (preOf S ci)) e σ).entries = none) :
    moveLoop S dR ci (f + 1) (p :: W) σ =
      moveLoop S dR ci f ((kidsOf e).reverse ++ W) (movedState p (dstOf dR p (preOf S ci)) e σ) := by
  rw [moveLoop_succ_cons]
  unfold movedState at hpar ⊢
  cases ci <;>
  · simp only [preOf, Bool.false_eq_true, if_false, if_true] at hpar hdne ⊢
    simp only [mpure_bind_apply, removeEntry_bind_apply, he, movedRelM_eq_pure (movedOk_of_ne hdne),
      setEntry_bind_apply, removeFile_bind_apply, dirOf, hS, if_false]
    cases hb : alLookup p σ.files with
    | none =>
      simp only [mpure_bind_apply, dirOf, hp, if_false, getEntry_bind_apply, kidsOf]
      rw [hpar]; rfl
    | some b =>
      simp only [setFile_bind_apply, mpure_bind_apply, dirOf, hp, if_false, getEntry_bind_apply, kidsOf]
      rw [hpar]; rfl

/-- an iteration that updates both parents (the root of the move) -/
theorem moveLoop_root {S dR : FsPath} {ci : Bool} (hS : S ≠ []) {p : FsPath} {W : List FsPath} {σ : State}
    {e op op' np np' : Entry} {b : Bool} (f : Nat) (hp : p ≠ []) (he : alLookup p σ.entries = some e)
    (hdst : dstOf dR p (preOf S ci) ≠ [])
    (hpar : alLookup p.dropLast (movedState p (dstOf dR p (preOf S ci)) e σ).entries = some op)
    (hop : op.removeChild (baseName p) = .ok op')
    (hnp : alLookup (dstOf dR p (preOf S ci)).dropLast
      (alInsert p.dropLast op' (movedState p (dstOf dR p (preOf S ci)) e σ).entries) = some np)
    (hadd : np.addChild (baseName (dstOf dR p (preOf S ci))) = .ok (b, np')) :
    moveLoop S dR ci (f + 1) (p :: W) σ =
      moveLoop S dR ci f ((kidsOf e).reverse ++ W)
        { movedState p (dstOf dR p (preOf S ci)) e σ with
          entries := alInsert (dstOf dR p (preOf S ci)).dropLast np'
            (alInsert p.dropLast op' (movedState p (dstOf dR p (preOf S ci)) e σ).entries) } := by
  rw [moveLoop_succ_cons]
  unfold movedState at hpar hnp ⊢
  cases ci <;>
  · simp only [preOf, Bool.false_eq_true, if_false, if_true] at hpar hnp hadd hdst ⊢
    simp only [mpure_bind_apply, removeEntry_bind_apply, he, movedRelM_eq_pure (movedOk_of_ne hdst),
      setEntry_bind_apply, removeFile_bind_apply, dirOf, hS, if_false]
    cases hb : alLookup p σ.files with
    | none =>
      simp only [mpure_bind_apply, hp, hdst, if_false, getEntry_bind_apply, kidsOf]
      rw [hpar]
      simp only [hop, liftO_ok_bind_apply, setEntry_bind_apply, mpure_bind_apply, getEntry_bind_apply]
      rw [hnp]
      simp only [hadd, liftO_ok_bind_apply, setEntry_bind_apply]
      rfl
    | some b =>
      simp only [setFile_bind_apply, mpure_bind_apply, hp, hdst, if_false, getEntry_bind_apply, kidsOf]
      rw [hpar]
      simp only [hop, liftO_ok_bind_apply, setEntry_bind_apply, mpure_bind_apply, getEntry_bind_apply]
      rw [hnp]
      simp only [hadd, liftO_ok_bind_apply, setEntry_bind_apply]
      rfl

/-! ### association lists: erase, key uniqueness -/

def KeysNodup {β} (l : List (FsPath × β)) : Prop := (l.map (·.1)).Nodup

theorem alLookup_eq_none_iff {β} (k : FsPath) : ∀ l : List (FsPath × β), alLookup k l = none ↔ k ∉ l.map (·.1)
  | [] => by simp [alLookup]
  | (k', v) :: r => by
    simp only [alLookup, List.map_cons, List.mem_cons, not_or]
    split
    · next h => subst h; simp
    · next h => rw [alLookup_eq_none_iff k r]; simp [Ne.symm h]

theorem alLookup_alErase_ne {β} {k k' : FsPath} (h : k' ≠ k) :
    ∀ l : List (FsPath × β), alLookup k' (alErase k l) = alLookup k' l
  | [] => rfl
  | (k'', v) :: r => by
    simp only [alErase]
    split
    · next h2 => subst h2; simp [alLookup, Ne.symm h]
    · simp only [alLookup, alLookup_alErase_ne h r]

theorem alLookup_alErase_self {β} (k : FsPath) :
    ∀ l : List (FsPath × β), KeysNodup l → alLookup k (alErase k l) = none
  | [], _ => rfl
  | (k', v) :: r, h => by
    unfold KeysNodup at h
    simp only [List.map_cons, List.nodup_cons] at h
    simp only [alErase]
    split
    · next h2 => subst h2; exact (alLookup_eq_none_iff _ _).2 h.1
    · next h2 => simp only [alLookup, h2, if_false]; exact alLookup_alErase_self k r h.2

theorem keys_alErase_subset {β} (k : FsPath) :
    ∀ l : List (FsPath × β), ∀ x ∈ (alErase k l).map (·.1), x ∈ l.map (·.1)
  | [], x, hx => by simp [alErase] at hx
  | (k', v) :: r, x, hx => by
    simp only [alErase] at hx
    split at hx
    · simp only [List.map_cons, List.mem_cons]; exact .inr hx
    · simp only [List.map_cons, List.mem_cons] at hx ⊢
      rcases hx with h | h
      · exact .inl h
      · exact .inr (keys_alErase_subset k r x h)

theorem KeysNodup.alErase {β} (k : FsPath) : ∀ {l : List (FsPath × β)}, KeysNodup l → KeysNodup (alErase k l)
  | [], _ => by simp [Memfs.alErase, KeysNodup]
  | (k', v) :: r, h => by
    unfold KeysNodup at h ⊢
    simp only [List.map_cons, List.nodup_cons] at h
    simp only [Memfs.alErase]
    split
    · exact h.2
    · simp only [List.map_cons, List.nodup_cons]
      exact ⟨fun hm => h.1 (keys_alErase_subset k r _ hm), KeysNodup.alErase k (l := r) h.2⟩

theorem keys_alInsert_subset {β} (k : FsPath) (v : β) :
    ∀ l : List (FsPath × β), ∀ x ∈ (alInsert k v l).map (·.1), x = k ∨ x ∈ l.map (·.1)
  | [], x, hx => by simp [alInsert] at hx; exact .inl hx
  | (k', v') :: r, x, hx => by
    simp only [alInsert] at hx
    split at hx
    · next h => subst h; simp only [List.map_cons, List.mem_cons] at hx ⊢; exact .inr hx
    · simp only [List.map_cons, List.mem_cons] at hx ⊢
      rcases hx with h | h
      · exact .inr (.inl h)
      · rcases keys_alInsert_subset k v r x h with h | h
        · exact .inl h
        · exact .inr (.inr h)

theorem KeysNodup.alInsert {β} (k : FsPath) (v : β) :
    ∀ {l : List (FsPath × β)}, KeysNodup l → KeysNodup (alInsert k v l)
  | [], _ => by simp [Memfs.alInsert, KeysNodup]
  | (k', v') :: r, h => by
    unfold KeysNodup at h ⊢
    simp only [List.map_cons, List.nodup_cons] at h
    simp only [Memfs.alInsert]
    split
    · next h2 => subst h2; simp only [List.map_cons, List.nodup_cons]; exact h
    · next h2 =>
      simp only [List.map_cons, List.nodup_cons]
      refine ⟨fun hm => ?_, KeysNodup.alInsert k v (l := r) h.2⟩
      rcases keys_alInsert_subset k v r _ hm with h3 | h3
      · exact h2 h3
      · exact h.1 h3

/-! ### the loop invariant of `moveLoop` -/

theorem div_ne {S D : FsPath} (h1 : ¬ S <+: D) (h2 : ¬ D <+: S) (a b : FsPath) : S ++ a ≠ D ++ b := by
  intro h
  rcases List.append_eq_append_iff.1 h with ⟨c, hc, _⟩ | ⟨c, hc, _⟩
  · exact h1 ⟨c, hc.symm⟩
  · exact h2 ⟨c, hc.symm⟩

/-- what is fixed during one `move_p`: the pre-state `st`, the source key `S`, the final destination
    key `D` (neither a prefix of the other) and the fact that the string computation of the
    destination of `S ++ r` yields `D ++ r` -/
structure MoveCtx (st : State) (S D dR : FsPath) (ci : Bool) : Prop where
  inv : InvP st
  hS : S ≠ []
  hD : D ≠ []
  div1 : ¬ S <+: D
  div2 : ¬ D <+: S
  hdst : ∀ r, (alLookup (S ++ r) st.entries).isSome = true → dstOf dR (S ++ r) (preOf S ci) = D ++ r

/-- the loop invariant: every path of the worklist is a proper descendant of `S` whose subtree is
    still as in the pre-state and whose parent entry is gone -/
structure MoveInv (st σ : State) (S : FsPath) (W : List FsPath) : Prop where
  nodup : KeysNodup σ.entries
  child : ∀ p ∈ W, ∃ r, r ≠ [] ∧ p = S ++ r
  exist : ∀ p ∈ W, (alLookup p st.entries).isSome = true
  intact : ∀ p ∈ W, ∀ r, alLookup (p ++ r) σ.entries = alLookup (p ++ r) st.entries
  orphan : ∀ p ∈ W, alLookup p.dropLast σ.entries = none
  apart : W.Pairwise (fun p q => ¬ p <+: q ∧ ¬ q <+: p)

theorem kids_apart {p : FsPath} {fs : List Str} (h : fs.Nodup) :
    (fs.map (fun n => p ++ [n])).reverse.Pairwise (fun a b => ¬ a <+: b ∧ ¬ b <+: a) := by
  rw [List.pairwise_reverse, List.pairwise_map]
  refine List.Pairwise.imp ?_ h
  intro a b hab
  constructor
  · intro hp
    have := hp.eq_of_length (by simp)
    exact hab ((List.append_cancel_left this) |> List.singleton_inj.1).symm
  · intro hp
    have := hp.eq_of_length (by simp)
    exact hab ((List.append_cancel_left this) |> List.singleton_inj.1)

/-- one iteration preserves the invariant, whatever else it does outside the subtree of `S` -/
theorem moveInv_step {st σ σ' : State} {S D dR : FsPath} {ci : Bool} (ctx : MoveCtx st S D dR ci)
    {p : FsPath} {W : List FsPath} {e : Entry} (hpS : S <+: p) (hpe : alLookup p st.entries = some e)
    (hint : ∀ r, alLookup (p ++ r) σ.entries = alLookup (p ++ r) st.entries)
    (hW : MoveInv st σ S W) (hap : ∀ q ∈ W, ¬ p <+: q ∧ ¬ q <+: p)
    (hnd : KeysNodup σ'.entries)
    (hσ' : ∀ k, S <+: k → alLookup k σ'.entries = if k = p then none else alLookup k σ.entries) :
    MoveInv st σ' S ((kidsOf e).reverse ++ W) := by
  have hpath : e.path = p := ctx.inv.pathField (p, e) (mem_of_alLookup hpe)
  obtain ⟨rp, hrp⟩ := hpS
  have hkid : ∀ q ∈ kidsOf e, ∃ fs n, e.files = some fs ∧ n ∈ fs ∧ q = p ++ [n] := by
    intro q hq
    unfold kidsOf at hq
    cases hf : e.files with
    | none => rw [hf] at hq; cases hq
    | some fs =>
      rw [hf] at hq
      simp only [List.mem_map] at hq
      obtain ⟨n, hn, rfl⟩ := hq
      exact ⟨fs, n, rfl, hn, by rw [hpath]⟩
  refine ⟨hnd, ?_, ?_, ?_, ?_, ?_⟩
  · intro q hq
    simp only [List.mem_append, List.mem_reverse] at hq
    rcases hq with hq | hq
    · obtain ⟨fs, n, _, _, rfl⟩ := hkid q hq
      exact ⟨rp ++ [n], by simp, by rw [← hrp, List.append_assoc]⟩
    · exact hW.child q hq
  · intro q hq
    simp only [List.mem_append, List.mem_reverse] at hq
    rcases hq with hq | hq
    · obtain ⟨fs, n, hf, hn, rfl⟩ := hkid q hq
      exact ctx.inv.listed' hpe hf hn
    · exact hW.exist q hq
  · intro q hq r
    simp only [List.mem_append, List.mem_reverse] at hq
    rcases hq with hq | hq
    · obtain ⟨fs, n, hf, hn, rfl⟩ := hkid q hq
      rw [hσ' _ ⟨rp ++ [n] ++ r, by rw [← hrp]; simp⟩, if_neg, List.append_assoc, hint]
      rw [List.append_assoc]; exact append_ne_of_ne_nil _ _ (by simp)
    · obtain ⟨rq, _, hrq⟩ := hW.child q hq
      rw [hσ' _ ⟨rq ++ r, by rw [hrq]; simp⟩, if_neg, hW.intact q hq]
      intro hc
      exact (hap q hq).2 ⟨r, hc⟩
  · intro q hq
    simp only [List.mem_append, List.mem_reverse] at hq
    rcases hq with hq | hq
    · obtain ⟨fs, n, hf, hn, rfl⟩ := hkid q hq
      rw [List.dropLast_concat, hσ' _ ⟨rp, hrp⟩, if_pos rfl]
    · obtain ⟨rq, hne, hrq⟩ := hW.child q hq
      have hpre : S <+: q.dropLast := by
        rcases eq_nil_or_snoc rq with rfl | ⟨m, x, rfl⟩
        · exact absurd rfl hne
        · refine ⟨m, ?_⟩
          rw [hrq, ← List.append_assoc, List.dropLast_concat]
      rw [hσ' _ hpre]
      split
      · rfl
      · exact hW.orphan q hq
  · rw [List.pairwise_append]
    refine ⟨?_, hW.apart, ?_⟩
    · unfold kidsOf
      cases hf : e.files with
      | none => simp
      | some fs =>
        simp only
        rw [hpath]
        exact kids_apart (ctx.inv.childNodup (p, e) (mem_of_alLookup hpe) fs hf)
    · intro a ha b hb
      simp only [List.mem_reverse] at ha
      obtain ⟨fs, n, hf, hn, rfl⟩ := hkid a ha
      have := hap b hb
      constructor
      · intro hc
        exact this.1 ((List.prefix_append p [n]).trans hc)
      · intro hc
        rcases List.prefix_concat_iff.1 hc with h | h
        · exact this.1 ⟨[n], h.symm⟩
        · exact this.2 h

theorem movedState_lookup_sub {st : State} {S D dR : FsPath} {ci : Bool} (ctx : MoveCtx st S D dR ci)
    {σ : State} (hnd : KeysNodup σ.entries) {p : FsPath} {r : FsPath} (_hp : p = S ++ r) (e : Entry)
    (k : FsPath) (hk : S <+: k) :
    alLookup k (movedState p (D ++ r) e σ).entries = if k = p then none else alLookup k σ.entries := by
  obtain ⟨rk, rfl⟩ := hk
  unfold movedState
  simp only
  rw [alLookup_alInsert_ne (div_ne ctx.div1 ctx.div2 _ _)]
  split
  · next h => rw [h]; exact alLookup_alErase_self p _ hnd
  · next h => exact alLookup_alErase_ne h _

/-- from a state satisfying the loop invariant `moveLoop` never reports an error -/
theorem moveLoop_noerr {st : State} {S D dR : FsPath} {ci : Bool} (ctx : MoveCtx st S D dR ci) :
    ∀ (f : Nat) (W : List FsPath) (σ : State), MoveInv st σ S W →
      ∀ k s', moveLoop S dR ci f W σ ≠ (.err k, s') := by
  intro f
  induction f with
  | zero => intro W σ _ k s' he; rw [moveLoop] at he; cases he
  | succ f ih =>
    intro W σ hJ k s' he
    cases W with
    | nil => rw [moveLoop] at he; cases he
    | cons p W =>
      obtain ⟨r, hr, hp⟩ := hJ.child p (by simp)
      have hex := hJ.exist p (by simp)
      cases hpe : alLookup p st.entries with
      | none => rw [hpe] at hex; cases hex
      | some e =>
        have hint := hJ.intact p (by simp)
        have hpσ : alLookup p σ.entries = some e := by
          have := hint []; simpa [hpe] using this
        have hdst : dstOf dR p (preOf S ci) = D ++ r := by
          rw [hp]; apply ctx.hdst; rw [← hp, hpe]; rfl
        have hpne : p ≠ [] := by rw [hp]; simp [ctx.hS]
        have hpS : S <+: p := ⟨r, hp.symm⟩
        have hpar : S <+: p.dropLast := by
          rcases eq_nil_or_snoc r with rfl | ⟨m, x, rfl⟩
          · exact absurd rfl hr
          · exact ⟨m, by rw [hp, ← List.append_assoc, List.dropLast_concat]⟩
        have hsub := movedState_lookup_sub ctx hJ.nodup hp e
        have hJW : MoveInv st σ S W :=
          ⟨hJ.nodup, fun q hq => hJ.child q (by simp [hq]), fun q hq => hJ.exist q (by simp [hq]),
            fun q hq => hJ.intact q (by simp [hq]), fun q hq => hJ.orphan q (by simp [hq]),
            (List.pairwise_cons.1 hJ.apart).2⟩
        rw [moveLoop_child ctx.hS f hpne hpσ (by rw [hdst]; simp [ctx.hD]) (by
          rw [hdst, hsub _ hpar, if_neg (dropLast_ne_self hpne)]
          exact hJ.orphan p (by simp))] at he
        rw [hdst] at he
        refine ih _ _ (moveInv_step ctx hpS hpe hint hJW (List.pairwise_cons.1 hJ.apart).1 ?_ hsub) k s' he
        exact (hJ.nodup.alErase p).alInsert _ _

theorem removeChild_ok {e : Entry} (h : e.dir = true) (n : Str) :
    ∃ e', e.removeChild n = .ok e' ∧ e'.dir = true := by
  unfold Entry.removeChild
  rw [if_neg (by simp [h])]
  cases e.files with
  | none => exact ⟨_, rfl, h⟩
  | some fs => exact ⟨_, rfl, h⟩

theorem addChild_ok {e : Entry} (h : e.dir = true) (n : Str) :
    ∃ b e', e.addChild n = .ok (b, e') := by
  unfold Entry.addChild
  rw [if_neg (by simp [h])]
  cases e.files with
  | none => exact ⟨_, _, rfl⟩
  | some fs => exact ⟨_, _, rfl⟩

theorem not_prefix_dropLast {α} {S : List α} (h : S ≠ []) : ¬ S <+: S.dropLast := by
  intro hp
  have h1 := hp.length_le
  have h2 : S.length ≠ 0 := by simpa using h
  simp at h1; omega

/-- the whole loop started on the validated root never reports an error -/
theorem moveLoop_root_noerr {st : State} {S D dR : FsPath} {ci : Bool} (ctx : MoveCtx st S D dR ci)
    {e x : Entry} (hSe : alLookup S st.entries = some e)
    (hdd : alLookup D.dropLast st.entries = some x) (hxd : x.dir = true) :
    ∀ (f : Nat) k s', moveLoop S dR ci f [S] st ≠ (.err k, s') := by
  intro f k s' he
  cases f with
  | zero => rw [moveLoop] at he; cases he
  | succ f =>
    have hnd : KeysNodup st.entries := ctx.inv.keysNodup
    have hdst : dstOf dR S (preOf S ci) = D := by
      have := ctx.hdst [] (by rw [List.append_nil, hSe]; rfl)
      simpa using this
    have hsub : ∀ k, S <+: k →
        alLookup k (movedState S D e st).entries = if k = S then none else alLookup k st.entries := by
      have := movedState_lookup_sub ctx hnd (p := S) (r := []) (by simp) e
      simpa using this
    obtain ⟨pe, _, hpe, hped, _⟩ := ctx.inv.parent' hSe ctx.hS
    obtain ⟨op', hop, hopd⟩ := removeChild_ok hped (baseName S)
    have hSD : S.dropLast ≠ D := fun h => ctx.div2 (h ▸ List.dropLast_prefix S)
    have hDS : D.dropLast ≠ S := fun h => ctx.div1 (h ▸ List.dropLast_prefix D)
    have hpar : alLookup S.dropLast (movedState S D e st).entries = some pe := by
      unfold movedState; simp only
      rw [alLookup_alInsert_ne hSD, alLookup_alErase_ne (dropLast_ne_self ctx.hS), hpe]
    have hnp : ∃ np, alLookup D.dropLast (alInsert S.dropLast op' (movedState S D e st).entries) = some np ∧
        np.dir = true := by
      by_cases hc : D.dropLast = S.dropLast
      · rw [hc, alLookup_alInsert_self]; exact ⟨_, rfl, hopd⟩
      · rw [alLookup_alInsert_ne hc]
        unfold movedState; simp only
        rw [alLookup_alInsert_ne (dropLast_ne_self ctx.hD), alLookup_alErase_ne hDS, hdd]
        exact ⟨_, rfl, hxd⟩
    obtain ⟨np, hnp, hnpd⟩ := hnp
    obtain ⟨b, np', hadd⟩ := addChild_ok hnpd (baseName D)
    rw [moveLoop_root (op := pe) (op' := op') (np := np) (np' := np') (b := b) ctx.hS f ctx.hS hSe
      (by rw [hdst]; exact ctx.hD) (by rw [hdst]; exact hpar) hop (by rw [hdst]; exact hnp)
      (by rw [hdst]; exact hadd)] at he
    rw [hdst] at he
    refine moveLoop_noerr ctx f _ _ ?_ k s' he
    have hJ0 : MoveInv st st S [] :=
      ⟨hnd, (fun _ h => by cases h), (fun _ h => by cases h), (fun _ h => by cases h),
        (fun _ h => by cases h), List.Pairwise.nil⟩
    have := moveInv_step ctx (σ := st) (W := []) (List.prefix_refl S) hSe (fun _ => rfl) hJ0
      (fun _ h => by cases h)
      (σ' := { movedState S D e st with
        entries := alInsert D.dropLast np' (alInsert S.dropLast op' (movedState S D e st).entries) })
      ?_ ?_
    · simpa using this
    · simp only
      refine KeysNodup.alInsert _ _ (KeysNodup.alInsert _ _ ?_)
      unfold movedState; simp only
      exact (hnd.alErase S).alInsert _ _
    · intro k hk
      simp only
      rw [alLookup_alInsert_ne, alLookup_alInsert_ne, hsub k hk]
      · intro hc; exact not_prefix_dropLast ctx.hS (hc ▸ hk)
      · intro hc; exact ctx.div1 ((hc ▸ hk).trans (List.dropLast_prefix D))


/-! ### `moveM` -/

/-- no entry is flagged both as a directory and as a file -/
def FlagsWf (s : State) : Prop := ∀ kv ∈ s.entries, ¬ (kv.2.dir = true ∧ kv.2.file = true)

instance (s : State) : Decidable (FlagsWf s) := by unfold FlagsWf; infer_instance

theorem NoopM.absM_bind' {env : Env} {p : Str} {f : FsPath → M β} {s : State}
    (h : ∀ a, absWith env (renderP s.cwd) p = .ok a → NoopM (f (toPath a)) s) :
    NoopM (absM env p >>= f) s := by
  intro k s' he
  rw [absM_bind_apply] at he
  split at he
  · next heq => exact h _ heq k s' he
  · cases he; rfl
  · cases he
  · cases he

/-- every proper prefix of an existing key is a real directory -/
theorem InvP.proper_prefix_dir {s : State} (h : InvP s) (p : FsPath) :
    ∀ r : FsPath, r ≠ [] → (alLookup (p ++ r) s.entries).isSome = true →
      ∃ pe, alLookup p s.entries = some pe ∧ pe.dir = true ∧ pe.link = false := by
  intro r
  generalize hn : r.length = n
  induction n generalizing r with
  | zero => intro hr; exact absurd (List.eq_nil_of_length_eq_zero hn) hr
  | succ n ih =>
    intro hr hx
    rcases eq_nil_or_snoc r with rfl | ⟨r', x, rfl⟩
    · exact absurd rfl hr
    cases hl : alLookup (p ++ (r' ++ [x])) s.entries with
    | none => rw [hl] at hx; cases hx
    | some e =>
      obtain ⟨pe, _, hpe, hd, hk, _⟩ := h.parent' hl (by simp)
      rw [← List.append_assoc, List.dropLast_concat] at hpe
      by_cases hr' : r' = []
      · subst hr'; exact ⟨pe, by simpa using hpe, hd, hk⟩
      · exact ih r' (by simpa using hn) hr' (by rw [hpe]; rfl)

theorem noop_moveM_core {st : State} (h : InvP st) (hfl : FlagsWf st) (env : Env) (src dst : Str)
    (hdstOf : ∀ a, absWith env (renderP st.cwd) dst = .ok a → ∀ S, (alLookup S st.entries).isSome = true →
      S ≠ [] → ∀ D, D = (if isDirP st (toPath a) = true then toPath (mash (renderP (toPath a)) (baseName S))
          else toPath a) → D ≠ [] → (alLookup D.dropLast st.entries).isSome = true →
      ∀ r, (alLookup (S ++ r) st.entries).isSome = true →
        dstOf (toPath a) (S ++ r) (preOf S (isDirP st (toPath a))) = D ++ r) :
    NoopM (moveM env src dst) st := by
  unfold moveM
  apply NoopM.absM_bind; intro S
  apply NoopM.absM_bind'; intro a ha
  apply NoopM.get_bind
  extract_lets ci D jp4 jp1
  apply NoopM.getEntry_bind
  cases hSe : alLookup S st.entries with
  | none => exact NoopM.fail_bind _ _ _
  | some srcE =>
    apply NoopM.mpure_bind
    simp only [jp1]
    apply NoopM.ite
    · intro _; exact NoopM.pure _ _
    intro hDS
    apply NoopM.ite
    · intro _; exact NoopM.fail_bind _ _ _
    intro hpre
    apply NoopM.dirOf_bind; intro hDne
    apply NoopM.getEntry_bind
    cases hdd : alLookup D.dropLast st.entries with
    | none => exact NoopM.fail_bind _ _ _
    | some x =>
      dsimp only
      apply NoopM.ite
      case h2 => intro _; exact NoopM.fail_bind _ _ _
      intro hx
      apply NoopM.mpure_bind
      apply NoopM.getEntry_bind
      have hSne : S ≠ [] := by
        intro hc; apply hpre; rw [hc]; rfl
      have hfinal : (∀ y, alLookup D st.entries = some y → y.file = true) → NoopM (jp4 ()) st := by
        intro hy
        have hdiv1 : ¬ S <+: D := fun hc => hpre (List.isPrefixOf_iff_prefix.2 hc)
        have hdiv2 : ¬ D <+: S := by
          rintro ⟨r, hr⟩
          by_cases hr0 : r = []
          · subst hr0; exact hDS (by simpa using hr)
          · obtain ⟨pe, hpe, hped, _⟩ := h.proper_prefix_dir D r hr0 (by rw [hr, hSe]; rfl)
            exact hfl (D, pe) (mem_of_alLookup hpe) ⟨hped, hy pe hpe⟩
        have ctx : MoveCtx st S D (toPath a) ci :=
          ⟨h, hSne, hDne, hdiv1, hdiv2,
            hdstOf a ha S (by rw [hSe]; rfl) hSne D rfl hDne (by rw [hdd]; rfl)⟩
        have hxd : x.dir = true := by
          simp only [Bool.and_eq_true] at hx; exact hx.1
        intro k s' he
        exact absurd he (moveLoop_root_noerr ctx hSe hdd hxd _ k s')
      cases hDe : alLookup D st.entries with
      | none =>
        apply NoopM.mpure_bind
        exact hfinal (fun y hy => by rw [hDe] at hy; cases hy)
      | some y =>
        dsimp only
        apply NoopM.ite
        · intro hy
          apply NoopM.mpure_bind
          refine hfinal (fun y' hy' => ?_)
          rw [hDe] at hy'; cases hy'
          simp only [Bool.and_eq_true] at hy
          exact hy.1.1.1
        · intro _; exact NoopM.fail_bind _ _ _


end Rivia.Lemmas.Noop
