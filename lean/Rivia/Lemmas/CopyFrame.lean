/-
  Rivia.Lemmas.CopyFrame — what a traversal without `pre_op` can yield, the snapshot, and the frame
  property of a whole (no-follow) copy: nothing outside the destination changes.
-/
import Rivia.Lemmas.CopyP

namespace Rivia.Lemmas
open Rivia Rivia.Str Rivia.Memfs Rivia.Spec Rivia.Spec.TreeFs Rivia.Memfs.M

/-! ### what a traversal (without `pre_op`) can yield -/

/-- every entry waiting in the iterator stack / the deferred stack satisfies `Q` -/
def ItersOk (Q : Entry → Prop) (st : ISt) : Prop :=
  (∀ it ∈ st.iters, ∀ x ∈ it.items, Q x) ∧ (∀ d ∈ st.deferred, Q d.2)

/-- the `descend` step of `process` when there is no `pre_op` -/
def descendOf {σ} (snap : Snap) (o : Opts) (st : ISt) (e : Entry) (w : σ) :
    Option (Outcome Entry) × ISt × σ :=
  if e.dir ∧ (!e.link ∨ o.follow) then
    if e.link ∧ st.iters.any (fun x => x.path = e.path) then (some (.err .linkLooping), st, w)
    else if st.iters.length < o.maxDepth then
      match mkIter snap o e.path with
      | .ok it =>
        if o.sorted ∨ st.openDesc + 1 > o.maxDesc then
          (none, { st with iters := { it with cached := true } :: st.iters }, w)
        else (none, { st with iters := it :: st.iters, openDesc := st.openDesc + 1 }, w)
      | .err k => (some (.err k), st, w)
      | .panic => (some .panic, st, w)
      | .hang => (some .hang, st, w)
    else (none, st, w)
  else (none, st, w)

theorem descendOf_spec {σ} (Q : Entry → Prop) (snap : Snap) (o : Opts) (st : ISt) (e : Entry) (w : σ)
    (hst : ItersOk Q st)
    (hmk : ∀ it, mkIter snap o e.path = .ok it → ∀ x ∈ it.items, Q x) :
    (descendOf snap o st e w).2.2 = w ∧
    (∀ y, (descendOf snap o st e w).1 ≠ some (.ok y)) ∧
    ItersOk Q (descendOf snap o st e w).2.1 := by
  unfold descendOf
  obtain ⟨h1, h2⟩ := hst
  repeat' split
  all_goals (refine ⟨rfl, by simp, ?_⟩)
  all_goals (first | exact ⟨h1, h2⟩ | skip)
  · rename_i it heq _
    refine ⟨?_, h2⟩
    intro it' hit'
    rcases List.mem_cons.1 hit' with h | h
    · intro x hx; rw [h] at hx; exact hmk it heq x hx
    · exact h1 it' h
  · rename_i it heq _
    refine ⟨?_, h2⟩
    intro it' hit'
    rcases List.mem_cons.1 hit' with h | h
    · intro x hx; rw [h] at hx; exact hmk it heq x hx
    · exact h1 it' h

theorem process_eq_descendOf {σ} (snap : Snap) (o : Opts) (st : ISt) (e : Entry) (w : σ) :
    process snap o noPre st e w =
      match descendOf snap o st e w with
      | (some r, st', w') => (some r, st', w')
      | (none, st', w') =>
        if st.iters.length < o.minDepth then (none, st', w')
        else if (o.files ∧ !e.file) ∨ (!o.files ∧ o.dirs ∧ !e.dir) then (none, st', w')
        else if e.dir ∧ o.contentsFirst then (none, { st' with deferred := (st.iters.length, e) :: st'.deferred }, w')
        else (some (.ok e), st', w') := by
  unfold process descendOf
  rfl

theorem process_noPre_spec {σ} (Q : Entry → Prop) (snap : Snap) (o : Opts) (st : ISt) (e : Entry) (w : σ)
    (hst : ItersOk Q st) (he : Q e)
    (hmk : ∀ it, mkIter snap o e.path = .ok it → ∀ x ∈ it.items, Q x) :
    (process snap o noPre st e w).2.2 = w ∧
    (∀ y, (process snap o noPre st e w).1 = some (.ok y) → Q y) ∧
    ItersOk Q (process snap o noPre st e w).2.1 := by
  rw [process_eq_descendOf]
  obtain ⟨h1, h2, h3⟩ := descendOf_spec Q snap o st e w hst hmk
  generalize descendOf snap o st e w = d at h1 h2 h3
  obtain ⟨r, st', w'⟩ := d
  cases r with
  | some r =>
    refine ⟨h1, ?_, h3⟩
    intro y hy
    simp only [Option.some.injEq] at hy
    exact absurd (congrArg some hy) (h2 y)
  | none =>
    simp only
    repeat' split
    all_goals (refine ⟨h1, ?_, ?_⟩)
    all_goals (first | exact h3 | skip)
    all_goals (first
      | (intro y hy; simp only [Option.some.injEq, Outcome.ok.injEq] at hy; exact hy ▸ he)
      | (intro y hy; simp at hy; done)
      | exact ⟨h3.1, fun d hd => by
          rcases List.mem_cons.1 hd with h | h
          · exact h ▸ he
          · exact h3.2 d h⟩)

theorem nextLoop_noPre_spec {σ} (Q : Entry → Prop) (snap : Snap) (o : Opts)
    (hmk : ∀ e, Q e → ∀ it, mkIter snap o e.path = .ok it → ∀ x ∈ it.items, Q x)
    (hfol : ∀ x, Q x → Q (x.doFollow o.follow)) :
    ∀ (f : Nat) (st : ISt) (w : σ), ItersOk Q st →
      (nextLoop snap o noPre f st w).2.2 = w ∧
      (∀ y, (nextLoop snap o noPre f st w).1 = some (.ok y) → Q y) ∧
      ItersOk Q (nextLoop snap o noPre f st w).2.1 := by
  intro f
  induction f with
  | zero =>
    intro st w hst
    rw [nextLoop]
    exact ⟨rfl, by intro y hy; simp at hy, hst⟩
  | succ f ih =>
    intro st w hst
    rw [nextLoop]
    have hdef : ∀ (c : Prop) [Decidable c] (alt : Option (Outcome Entry) × ISt × σ),
        (alt.2.2 = w ∧ (∀ y, alt.1 = some (.ok y) → Q y) ∧ ItersOk Q alt.2.1) →
        let r := (if c then
            match st.deferred with
            | d :: ds => (some (.ok d.2), { st with deferred := ds }, w)
            | [] => (none, st, w)
          else alt)
        r.2.2 = w ∧ (∀ y, r.1 = some (.ok y) → Q y) ∧ ItersOk Q r.2.1 := by
      intro c _ alt ⟨a1, a2, a3⟩
      simp only
      split
      · split
        · rename_i d ds hd
          refine ⟨rfl, ?_, ⟨hst.1, fun x hx => hst.2 x (by rw [hd]; exact List.mem_cons_of_mem _ hx)⟩⟩
          intro y hy
          simp only [Option.some.injEq, Outcome.ok.injEq] at hy
          exact hy ▸ hst.2 d (by rw [hd]; simp)
        · exact ⟨rfl, by intro y hy; simp at hy, hst⟩
      · exact ⟨a1, a2, a3⟩
    split
    · rename_i hnil
      exact hdef _ (none, st, w) ⟨rfl, by intro y hy; simp at hy, hst⟩
    · rename_i top below hcons
      refine hdef _ _ ?_
      have hst_top : ∀ x ∈ top.items, Q x := hst.1 top (by rw [hcons]; simp)
      have hst_below : ∀ it ∈ below, ∀ x ∈ it.items, Q x :=
        fun it hit => hst.1 it (by rw [hcons]; exact List.mem_cons_of_mem _ hit)
      split
      · rename_i x xs hitems
        dsimp only
        have hst1 : ItersOk Q { st with iters := { top with items := xs } :: below } := by
          refine ⟨?_, hst.2⟩
          intro it hit
          rcases List.mem_cons.1 hit with h | h
          · intro y hy; rw [h] at hy
            exact hst_top y (by rw [hitems]; exact List.mem_cons_of_mem _ hy)
          · exact hst_below it h
        have hx : Q (x.doFollow o.follow) := hfol x (hst_top x (by rw [hitems]; simp))
        obtain ⟨p1, p2, p3⟩ := process_noPre_spec Q snap o
          { st with iters := { top with items := xs } :: below } (x.doFollow o.follow) w hst1 hx
          (hmk _ hx)
        generalize process snap o noPre { st with iters := { top with items := xs } :: below }
          (x.doFollow o.follow) w = pr at p1 p2 p3
        obtain ⟨r, st2, w2⟩ := pr
        simp only at p1 p2 p3
        subst p1
        cases r with
        | some r => exact ⟨rfl, p2, p3⟩
        | none => exact ih st2 w2 p3
      · dsimp only
        exact ih _ w ⟨hst_below, hst.2⟩

theorem nextE_noPre_spec {σ} (Q : Entry → Prop) (snap : Snap) (o : Opts) (rootE : Entry)
    (hmk : ∀ e, Q e → ∀ it, mkIter snap o e.path = .ok it → ∀ x ∈ it.items, Q x)
    (hfol : ∀ x, Q x → Q (x.doFollow o.follow)) (hroot : Q rootE)
    (f : Nat) (st : ISt) (w : σ) (hst : ItersOk Q st) :
    (nextE snap o noPre rootE f st w).2.2 = w ∧
    (∀ y, (nextE snap o noPre rootE f st w).1 = some (.ok y) → Q y) ∧
    ItersOk Q (nextE snap o noPre rootE f st w).2.1 := by
  unfold nextE
  split
  · have hst1 : ItersOk Q { st with started := true } := hst
    obtain ⟨p1, p2, p3⟩ := process_noPre_spec Q snap o { st with started := true }
      (rootE.doFollow o.follow) w hst1 (hfol _ hroot) (hmk _ (hfol _ hroot))
    generalize process snap o noPre { st with started := true } (rootE.doFollow o.follow) w = pr
      at p1 p2 p3
    obtain ⟨r, st2, w2⟩ := pr
    simp only at p1 p2 p3
    subst p1
    cases r with
    | some r => exact ⟨rfl, p2, p3⟩
    | none => exact nextLoop_noPre_spec Q snap o hmk hfol f st2 w2 p3
  · exact nextLoop_noPre_spec Q snap o hmk hfol f st w hst

/-- **traversal invariant**: if every yielded entry satisfies `Q` (because the root does and `Q` is
    inherited by the children the snapshot lists) and the consumer preserves `P` on such entries,
    then a whole run preserves `P` — whatever its outcome -/
theorem runIter_noPre_inv {σ} (Q : Entry → Prop) (P : σ → Prop) (snap : Snap) (o : Opts)
    (rootE : Entry) (step : Entry → σ → Outcome Unit × σ)
    (hmk : ∀ e, Q e → ∀ it, mkIter snap o e.path = .ok it → ∀ x ∈ it.items, Q x)
    (hfol : ∀ x, Q x → Q (x.doFollow o.follow)) (hroot : Q rootE)
    (hstep : ∀ e w, Q e → P w → P (step e w).2) :
    ∀ (f : Nat) (st : ISt) (w : σ), ItersOk Q st → P w →
      P (runIter snap o noPre rootE step f st w).2 := by
  intro f
  induction f with
  | zero => intro st w _ hw; rw [runIter]; exact hw
  | succ f ih =>
    intro st w hst hw
    rw [runIter]
    obtain ⟨p1, p2, p3⟩ := nextE_noPre_spec Q snap o rootE hmk hfol hroot (f + 1) st w hst
    generalize nextE snap o noPre rootE (f + 1) st w = nx at p1 p2 p3
    obtain ⟨r, st2, w2⟩ := nx
    simp only at p1 p2 p3
    subst p1
    cases r with
    | none => exact hw
    | some r =>
      cases r with
      | ok e =>
        have hq : Q e := p2 e rfl
        have hs := hstep e w2 hq hw
        simp only
        cases hse : step e w2 with
        | mk r2 w3 =>
          rw [hse] at hs
          cases r2 with
          | ok u => cases u; exact ih st2 w3 p3 hs
          | err k => exact hs
          | panic => exact hs
          | hang => exact hs
      | err k => exact hw
      | panic => exact hw
      | hang => exact hw

/-! ### the snapshot consists of entries of the state, keyed by their own path -/

theorem cloneLoop_sub (ents : List (FsPath × Entry))
    (hpath : ∀ k e, alLookup k ents = some e → e.path = k) :
    ∀ (f : Nat) (work : List FsPath) (acc snap : Snap),
      (∀ k x, alLookup k acc = some x → alLookup k ents = some x) →
      cloneLoop ents f work acc = .ok snap →
      ∀ k x, alLookup k snap = some x → alLookup k ents = some x := by
  intro f
  induction f with
  | zero =>
    intro work acc snap hacc h
    rw [cloneLoop] at h
    cases h; exact hacc
  | succ f ih =>
    intro work acc snap hacc h
    cases work with
    | nil => rw [cloneLoop] at h; cases h; exact hacc
    | cons p work =>
      rw [cloneLoop] at h
      cases he : alLookup p ents with
      | none => rw [he] at h; cases h
      | some e =>
        rw [he] at h
        simp only at h
        refine ih _ _ snap ?_ h
        intro k x hk
        rw [alLookup_alInsert] at hk
        split at hk
        · rename_i hkk
          cases hk
          rw [← hkk, hpath p e he]; exact he
        · exact hacc k x hk

theorem entriesOf_sub {s : State} (hi : InvF s) {abs : FsPath} {rootE : Entry} {snap : Snap}
    (h : entriesOf s abs = .ok (rootE, snap)) :
    alLookup abs s.entries = some rootE ∧
    ∀ k x, alLookup k snap = some x → alLookup k s.entries = some x := by
  unfold entriesOf at h
  cases he : alLookup abs s.entries with
  | none => rw [he] at h; cases h
  | some e =>
    rw [he] at h
    simp only at h
    cases hc : cloneEntries s abs with
    | ok sn =>
      rw [hc] at h
      simp only [Outcome.ok.injEq, Prod.mk.injEq] at h
      obtain ⟨h1, h2⟩ := h
      subst h1 h2
      refine ⟨rfl, ?_⟩
      unfold cloneEntries at hc
      exact cloneLoop_sub s.entries hi.path _ _ [] sn (by intro k x hk; simp [alLookup] at hk) hc
    | err k => rw [hc] at h; cases h
    | panic => rw [hc] at h; cases h
    | hang => rw [hc] at h; cases h

theorem mem_filterMap_takeWhile {α} {l : List (Option α)} {x : α}
    (h : x ∈ (l.takeWhile Option.isSome).filterMap id) : some x ∈ l := by
  rw [List.mem_filterMap] at h
  obtain ⟨o, ho, hx⟩ := h
  simp only [id] at hx
  subst hx
  exact (List.takeWhile_sublist _).subset ho

/-- the children an unsorted, non-following iterator yields are snapshot entries at `path/<name>` -/
theorem mkIter_items {snap : Snap} {path : FsPath} {it : EIter}
    (h : mkIter snap (copyOpts false) path = .ok it) :
    ∀ x ∈ it.items, ∃ n, alLookup (path ++ [n]) snap = some x := by
  unfold mkIter at h
  cases he : alLookup path snap with
  | none => rw [he] at h; cases h
  | some e =>
    rw [he] at h
    simp only [copyOpts, Bool.false_eq_true, if_false, Outcome.ok.injEq] at h
    subst h
    intro x hx
    simp only [List.mem_map] at hx
    obtain ⟨y, hy, rfl⟩ := hx
    rw [doFollow_false]
    have := mem_filterMap_takeWhile hy
    rw [List.mem_map] at this
    obtain ⟨k, hk, hky⟩ := this
    cases hf : e.files with
    | none => rw [hf] at hk; simp at hk
    | some fs =>
      rw [hf] at hk
      simp only [List.mem_map] at hk
      obtain ⟨n, _, rfl⟩ := hk
      exact ⟨n, hky⟩

/-! ### the frame of a whole (no-follow) copy -/

theorem liftO_panic_bind {α β : Type} (f : α → M β) (s : State) :
    ((M.liftO (.panic : Outcome α)) >>= f) s = (.panic, s) := rfl
theorem liftO_hang_bind {α β : Type} (f : α → M β) (s : State) :
    ((M.liftO (.hang : Outcome α)) >>= f) s = (.hang, s) := rfl

/-- **a copy touches nothing outside the destination**: every key that is neither below the
    destination root, nor the root itself, nor one of its ancestors keeps its entry and its data,
    and the cwd is unchanged — whatever the outcome of the call -/
theorem copyM_frame {env : Env} {a b : Str} {c : CopyOpts} {s : State} {sk dk : FsPath}
    (hi : InvF s) (hk : KeysWf s) (hfollow : c.follow = false)
    (ha : absM env a s = (.ok sk, s)) (hb : absM env b s = (.ok dk, s)) (hdk : WfKey dk) :
    (∀ k, ¬ Cmp (copyDst s sk dk) k →
      alLookup k (copyM env a b c s).2.entries = alLookup k s.entries ∧
      alLookup k (copyM env a b c s).2.files = alLookup k s.files) ∧
    (copyM env a b c s).2.cwd = s.cwd := by
  have hsame : (copyM env a b c s).2 = s →
      (∀ k, ¬ Cmp (copyDst s sk dk) k →
        alLookup k (copyM env a b c s).2.entries = alLookup k s.entries ∧
        alLookup k (copyM env a b c s).2.files = alLookup k s.files) ∧
      (copyM env a b c s).2.cwd = s.cwd := by
    intro h; rw [h]; exact ⟨fun _ _ => ⟨rfl, rfl⟩, rfl⟩
  by_cases hne : sk = dk
  · apply hsame
    unfold copyM
    rw [bind_ok ha, bind_ok hb]
    simp [hne]
  cases hsrc : alLookup sk s.entries with
  | none =>
    apply hsame
    unfold copyM
    rw [bind_ok ha, bind_ok hb]
    simp [hne, hsrc]
  | some rootE0 =>
    have hp : rootE0.path = sk := hi.path sk rootE0 hsrc
    cases hent : entriesOf s sk with
    | ok pr =>
      obtain ⟨travRoot, snap⟩ := pr
      have hent' : entriesOf s (rootE0.doFollow c.follow).path = .ok (travRoot, snap) := by
        rw [hfollow, doFollow_false, hp]; exact hent
      rw [copyM_resolved ha hb hne hsrc hent', hfollow, doFollow_false, hp]
      obtain ⟨hroot, hsub⟩ := entriesOf_sub hi hent
      have hwsk : WfKey sk := hk.key hsrc
      let Q : Entry → Prop := fun e => ∃ r, e.path = sk ++ r ∧ WfKey r ∧ alLookup (sk ++ r) s.entries = some e
      let P : State → Prop := fun σ =>
        (∀ k, ¬ Cmp (copyDst s sk dk) k →
          alLookup k σ.entries = alLookup k s.entries ∧ alLookup k σ.files = alLookup k s.files) ∧
        σ.cwd = s.cwd
      refine runIter_noPre_inv Q P snap (copyOpts false) travRoot _ ?_ ?_ ?_ ?_ _ {} s ?_ ?_
      · -- children of a `Q` entry are `Q`
        intro e ⟨r, hr, hwr, hl⟩ it hit x hx
        obtain ⟨n, hn⟩ := mkIter_items hit x hx
        rw [hr] at hn
        have hxs := hsub _ _ hn
        refine ⟨r ++ [n], ?_, ?_, ?_⟩
        · rw [hi.path _ _ hxs, List.append_assoc]
        · have := hk.key hxs
          rw [List.append_assoc] at this
          exact this.right
        · rw [← List.append_assoc]; exact hxs
      · intro x hx; rw [copyOpts_follow, doFollow_false]; exact hx
      · exact ⟨[], by rw [List.append_nil]; exact hi.path _ _ hroot, by intro n hn; simp at hn,
          by rw [List.append_nil]; exact hroot⟩
      · -- one step preserves the frame
        intro e w ⟨r, hr, hwr, _⟩ hw
        have hfr := frame_copyStep (dk := dk) (rootPath := sk) (D := copyDst s sk dk) (c := c)
          (ci := isDirP s dk) e (by
            intro pre hpre
            refine ⟨r, ?_⟩
            rw [hr]
            unfold copyDst
            cases hci : isDirP s dk with
            | false =>
              rw [hci] at hpre
              simp only [Bool.false_eq_true, if_false] at hpre ⊢
              rw [hpre]; exact dstOf_append hdk hwr
            | true =>
              rw [hci] at hpre
              simp only [if_true] at hpre ⊢
              obtain ⟨hskne, hpre⟩ := hpre
              have h1 : sk ++ r = sk.dropLast ++ ([baseName sk] ++ r) := by
                rw [← List.append_assoc, dropLast_append_baseName hskne]
              have h2 : WfKey ([baseName sk] ++ r) :=
                WfKey.append (by intro n hn; simp at hn; subst hn; exact hwsk _ (baseName_mem hskne)) hwr
              rw [hpre, h1, dstOf_append hdk h2, List.append_assoc])
        obtain ⟨f1, f2⟩ := hfr w
        refine ⟨fun k hk' => ?_, f2.trans hw.2⟩
        exact ⟨((f1 k hk').1).trans (hw.1 k hk').1, ((f1 k hk').2).trans (hw.1 k hk').2⟩
      · exact ⟨fun it hit => by simp at hit, fun d hd => by simp at hd⟩
      · exact ⟨fun _ _ => ⟨rfl, rfl⟩, rfl⟩
    | err k =>
      apply hsame
      unfold copyM
      rw [bind_ok ha, bind_ok hb]
      simp [hne, hsrc, hfollow, doFollow_false, hp, hent]
    | panic =>
      apply hsame
      unfold copyM
      rw [bind_ok ha, bind_ok hb]
      simp [hne, hsrc, hfollow, doFollow_false, hp, hent, liftO_panic_bind]
    | hang =>
      apply hsame
      unfold copyM
      rw [bind_ok ha, bind_ok hb]
      simp [hne, hsrc, hfollow, doFollow_false, hp, hent, liftO_hang_bind]

theorem mapVal_snd {α : Type} (f : α → Val) (m : M α) (s : State) : (mapVal f m s).2 = (m s).2 := by
  unfold mapVal
  cases h : m s with
  | mk r s' => cases r <;> rfl

end Rivia.Lemmas
