/- COPY of Rivia/Lemmas/NoPanic.lean in the namespace `Rivia.Lemmas.Ret` (nothing else changed): the original
   cannot be imported together with Rivia/Lemmas/CopyMove.lean (the C01R / C01C family), both declare
   `Rivia.Lemmas.alLookup_of_mem`, `WfKey`, ….  Used by Props/C12R only. -/
/-
  Rivia.Lemmas.NoPanic — no Memfs operation panics, on ANY state (no invariant needed): the only
  panic branches of the model are those of the path pipeline (unreachable, `absWith_fine`) and the
  ones that merely propagate a panic of a callee.
-/
import Rivia.Lemmas.ReturnsFuelTrav

namespace Rivia.Lemmas.Ret
open Rivia Rivia.Memfs Rivia.Memfs.M Rivia.File

/-- `m` never panics -/
structure NoPanic {α} (m : M α) : Prop where
  out : ∀ s, (m s).1 ≠ .panic

theorem NoPanic.of_safe {α} {m : M α} (h : Safe m) : NoPanic m := ⟨fun s => (h.out s).1⟩
theorem NoPanic.pure {α} (a : α) : NoPanic (Pure.pure a : M α) := .of_safe (Safe.pure a)
theorem NoPanic.mpure {α} (a : α) : NoPanic (M.pure a : M α) := .of_safe (Safe.mpure a)
theorem NoPanic.fail {α} (k : ErrKind) : NoPanic (M.fail k : M α) := .of_safe (Safe.fail k)
theorem NoPanic.hang {α} : NoPanic (M.hang : M α) := ⟨fun _ => by simp [M.hang]⟩
theorem NoPanic.mbind {α β} {m : M α} {f : α → M β} (hm : NoPanic m) (hf : ∀ a, NoPanic (f a)) :
    NoPanic (M.bind m f) := by
  refine ⟨fun s => ?_⟩
  unfold M.bind
  have := hm.out s
  split
  · exact (hf _).out _
  · simp
  · rename_i h; rw [h] at this; exact absurd rfl this
  · simp
theorem NoPanic.bind {α β} {m : M α} {f : α → M β} (hm : NoPanic m) (hf : ∀ a, NoPanic (f a)) :
    NoPanic (m >>= f) := NoPanic.mbind hm hf
theorem NoPanic.ite {α} {c : Prop} [Decidable c] {a b : M α} (ha : c → NoPanic a)
    (hb : ¬ c → NoPanic b) : NoPanic (if c then a else b) := by
  split
  · exact ha ‹_›
  · exact hb ‹_›
theorem NoPanic.liftO {α} {o : Outcome α} (h : o ≠ .panic) : NoPanic (M.liftO o) := ⟨fun _ => h⟩
theorem NoPanic.fn {α} {m : M α} (h : ∀ s, (m s).1 ≠ .panic) : NoPanic m := ⟨h⟩

/-- the primitives (all total) -/
syntax "np_prim" : tactic
macro_rules | `(tactic| np_prim) => `(tactic| with_reducible first
  | exact NoPanic.pure _ | exact NoPanic.mpure _ | exact NoPanic.fail _ | exact NoPanic.hang
  | exact NoPanic.of_safe Safe.get | exact NoPanic.of_safe (Safe.modify _)
  | exact NoPanic.of_safe (Safe.getEntry _) | exact NoPanic.of_safe (Safe.setEntry _ _)
  | exact NoPanic.of_safe (Safe.removeEntry _) | exact NoPanic.of_safe (Safe.getFile _)
  | exact NoPanic.of_safe (Safe.setFile _ _) | exact NoPanic.of_safe (Safe.removeFile _)
  | exact NoPanic.of_safe (Safe.dirOf _) | exact NoPanic.of_safe (Safe.absM _ _)
  | exact NoPanic.of_safe (Safe.liftO (addChild_fine _ _))
  | exact NoPanic.of_safe (Safe.liftO (removeChild_fine _ _))
  | exact NoPanic.of_safe (Safe.add _) | exact NoPanic.of_safe (Safe.mkdirM _ _)
  | exact NoPanic.of_safe (Safe.symlinkAbs _ _) | exact NoPanic.of_safe (Safe.mkfileM _ _))

syntax "np_tac_with " tactic : tactic
macro_rules
  | `(tactic| np_tac_with $t:tactic) => `(tactic| repeat' (first
      | ($t:tactic)
      | np_prim
      | with_reducible apply NoPanic.bind
      | with_reducible apply NoPanic.mbind
      | with_reducible apply NoPanic.ite
      | intro _
      | split
      | dsimp only))

/-- like `np_tac_with`, but the extra tactic is the last resort -/
syntax "np_tac_last " tactic : tactic
macro_rules
  | `(tactic| np_tac_last $t:tactic) => `(tactic| repeat' (first
      | np_prim
      | with_reducible apply NoPanic.bind
      | with_reducible apply NoPanic.mbind
      | with_reducible apply NoPanic.ite
      | intro _
      | split
      | dsimp only
      | ($t:tactic)))

/-! ### `remove_all`, `move_p` -/

theorem NoPanic.removeAllLoop : ∀ (f : Nat) (W : List FsPath), NoPanic (removeAllLoop f W) := by
  intro f
  induction f with
  | zero => intro W; unfold Memfs.removeAllLoop; exact NoPanic.hang
  | succ f ih =>
    intro W
    cases W with
    | nil => unfold Memfs.removeAllLoop; exact NoPanic.mpure _
    | cons p W =>
      unfold Memfs.removeAllLoop
      np_tac_with (exact ih _)

theorem NoPanic.removeAllM (env : Env) (p : Str) : NoPanic (removeAllM env p) := by
  unfold Memfs.removeAllM
  np_tac_with (exact NoPanic.removeAllLoop _ _)

theorem NoPanic.moveLoop (sr dr : FsPath) (ci : Bool) :
    ∀ (f : Nat) (W : List FsPath), NoPanic (moveLoop sr dr ci f W) := by
  intro f
  induction f with
  | zero => intro W; unfold Memfs.moveLoop; exact NoPanic.hang
  | succ f ih =>
    intro W
    cases W with
    | nil => unfold Memfs.moveLoop; exact NoPanic.mpure _
    | cons p W =>
      unfold Memfs.moveLoop
      np_tac_with (exact ih _)

theorem NoPanic.moveM (env : Env) (a b : Str) : NoPanic (moveM env a b) := by
  unfold Memfs.moveM
  np_tac_with (exact NoPanic.moveLoop _ _ _ _ _)

/-! ### traversal -/

theorem mkIter_fine (snap : Snap) (o : Opts) (path : FsPath) : Fine (mkIter snap o path) := by
  rw [mkIter_eq]
  cases alLookup path snap with
  | none => exact fine_err _
  | some e =>
    obtain ⟨it, hit, _⟩ := arrange_spec o path
      ((rawItems snap path (names e)).map (fun x => x.doFollow o.follow))
    simp only [hit]
    exact fine_ok _

theorem process_np {σ} (snap : Snap) (o : Opts) (preOp : Entry → σ → Outcome Unit × σ)
    (hpre : ∀ e w, (preOp e w).1 ≠ .panic) (st : ISt) (e : Entry) (w : σ) :
    (process snap o preOp st e w).1 ≠ some .panic := by
  rw [process_eq]
  have hd : (descendP snap o preOp st e w).1 ≠ some .panic := by
    have hmk := mkIter_fine snap o e.path
    have hp := hpre e w
    unfold descendP
    repeat' split
    all_goals first
      | (simp; done)
      | (rename_i h; rw [h] at hmk; exact absurd rfl hmk.1)
      | (rename_i h; rw [h] at hp; exact absurd rfl hp)
  generalize descendP snap o preOp st e w = d at hd
  obtain ⟨r, st', w'⟩ := d
  cases r with
  | some r => simpa [finishP] using hd
  | none =>
    simp only [finishP]
    repeat' split
    all_goals simp

theorem nextLoop_np {σ} (snap : Snap) (o : Opts) (preOp : Entry → σ → Outcome Unit × σ)
    (hpre : ∀ e w, (preOp e w).1 ≠ .panic) :
    ∀ (f : Nat) (st : ISt) (w : σ), (nextLoop snap o preOp f st w).1 ≠ some .panic := by
  intro f
  induction f with
  | zero => intro st w; simp [nextLoop]
  | succ f ih =>
    intro st w
    rw [nextLoop]
    split
    · repeat' split
      all_goals simp
    · split
      · repeat' split
        all_goals simp
      · split
        · dsimp only
          have hp := process_np snap o preOp hpre
          split
          · rename_i r st2 w2 heq
            have := congrArg (·.1) heq
            simp only at this
            show some r ≠ some .panic
            rw [← this]
            exact hp _ _ _
          · exact ih _ _
        · exact ih _ _

theorem nextE_np {σ} (snap : Snap) (o : Opts) (preOp : Entry → σ → Outcome Unit × σ)
    (hpre : ∀ e w, (preOp e w).1 ≠ .panic) (rootE : Entry) (f : Nat) (st : ISt) (w : σ) :
    (nextE snap o preOp rootE f st w).1 ≠ some .panic := by
  unfold nextE
  split
  · split
    · rename_i r st2 w2 heq
      have := process_np snap o preOp hpre { st with started := true } (rootE.doFollow o.follow) w
      rw [heq] at this
      exact this
    · exact nextLoop_np snap o preOp hpre _ _ _
  · exact nextLoop_np snap o preOp hpre _ _ _

theorem runIter_np {σ} (snap : Snap) (o : Opts) (preOp : Entry → σ → Outcome Unit × σ)
    (hpre : ∀ e w, (preOp e w).1 ≠ .panic) (rootE : Entry)
    (step : Entry → σ → Outcome Unit × σ) (hstep : ∀ e w, (step e w).1 ≠ .panic) :
    ∀ (f : Nat) (st : ISt) (w : σ), (runIter snap o preOp rootE step f st w).1 ≠ .panic := by
  intro f
  induction f with
  | zero => intro st w; simp [runIter]
  | succ f ih =>
    intro st w
    rw [runIter]
    have hn := nextE_np snap o preOp hpre rootE (f + 1) st w
    split
    · simp
    · split
      · exact ih _ _
      · exact hstep _ _
    · simp
    · rename_i heq; rw [heq] at hn; exact absurd rfl hn
    · simp

theorem entriesOf_fine (s : State) (abs : FsPath) : Fine (entriesOf s abs) := by
  unfold entriesOf
  cases alLookup abs s.entries with
  | none => exact fine_err _
  | some e =>
    simp only
    unfold cloneEntries
    rcases fine_cases (cloneLoop_fine s.entries
      (4 * (s.entries.length + 1) * (s.entries.length + 1)) [abs] []) with ⟨snap, h⟩ | ⟨k, h⟩
    · rw [h]; exact fine_ok _
    · rw [h]; exact fine_err _

theorem collectEntries_np (snap : Snap) (o : Opts) (rootE : Entry) :
    collectEntries snap o rootE ≠ .panic := by
  unfold collectEntries
  have := runIter_np snap o (noPre (σ := List Entry)) (fun _ _ => by simp [noPre]) rootE
    (fun e acc => (.ok (), e :: acc)) (fun _ _ => by simp) (travFuel snap) {} []
  split
  · simp
  · simp
  · rename_i h; rw [h] at this; exact absurd rfl this
  · simp

theorem NoPanic.listing (env : Env) (path : Str) (maxDepth : Option Nat) (dirs files : Bool) :
    NoPanic (listing env path maxDepth dirs files) := by
  unfold Memfs.listing
  np_tac_with first
    | exact NoPanic.liftO (entriesOf_fine _ _).1
    | exact NoPanic.liftO (collectEntries_np _ _ _)

theorem NoPanic.travM (env : Env) (p : Str) (r : TravReq) : NoPanic (travM env p r) := by
  unfold Memfs.travM
  apply NoPanic.bind (by np_prim)
  intro k
  apply NoPanic.bind (by np_prim)
  intro st
  apply NoPanic.bind (NoPanic.liftO (entriesOf_fine _ _).1)
  intro ⟨rootE, snap⟩
  have := runIter_np snap r.opts (noPre (σ := List FsPath)) (fun _ _ => by simp [noPre]) rootE
    (fun e acc => (.ok (), e.path :: acc)) (fun _ _ => by simp) (travFuel snap) {} []
  dsimp only
  split
  · exact NoPanic.pure _
  · exact NoPanic.pure _
  · rename_i h; rw [h] at this; exact absurd rfl this
  · exact NoPanic.fn (fun _ => by simp)

theorem NoPanic.chmodM (env : Env) (path : Str) (c : ChmodOpts) : NoPanic (chmodM env path c) := by
  unfold Memfs.chmodM
  apply NoPanic.bind (by np_prim)
  intro k
  apply NoPanic.bind (by np_prim)
  intro st
  apply NoPanic.bind (NoPanic.liftO (entriesOf_fine _ _).1)
  intro ⟨rootE, snap⟩
  dsimp only
  apply NoPanic.fn
  intro st'
  apply runIter_np
  · intro e w
    have := chmodMode_fine (ekind e) e.mode c.dirs c.sym
    rcases fine_cases this with ⟨a, h⟩ | ⟨kk, h⟩
    · simp only [h]; repeat' split
      all_goals simp
    · simp [h]
  · intro e w
    split
    · repeat' split
      all_goals simp
    · simp
    · rename_i h
      exfalso
      revert h
      split
      · exact (chmodMode_fine _ _ _ _).1
      · split
        · exact (chmodMode_fine _ _ _ _).1
        · simp
    · simp

theorem NoPanic.chownM (env : Env) (path : Str) (c : ChownOpts) : NoPanic (chownM env path c) := by
  unfold Memfs.chownM
  apply NoPanic.bind (by np_prim)
  intro k
  apply NoPanic.bind (by np_prim)
  intro st
  apply NoPanic.bind (NoPanic.liftO (entriesOf_fine _ _).1)
  intro ⟨rootE, snap⟩
  dsimp only
  apply NoPanic.fn
  intro st'
  apply runIter_np
  · intro e w; simp [noPre]
  · intro e w
    split <;> simp

theorem NoPanic.copyM (env : Env) (a b : Str) (c : CopyOpts) : NoPanic (copyM env a b c) := by
  unfold Memfs.copyM
  simp only [bindM_def]
  apply NoPanic.mbind (by np_prim)
  intro sk
  apply NoPanic.mbind (by np_prim)
  intro dk
  apply NoPanic.ite (fun _ => NoPanic.pure _)
  intro _
  apply NoPanic.mbind (by np_prim)
  intro s
  split
  · apply NoPanic.mbind (by np_prim)
    intro rootE0
    apply NoPanic.mbind (NoPanic.liftO (entriesOf_fine _ _).1)
    intro x
    apply NoPanic.fn
    intro st'
    apply runIter_np
    · intro e w; simp [noPre]
    · intro e w
      refine (Safe.out ?_ w).1
      safe_tac
  · exact NoPanic.fail _

theorem NoPanic.mapVal {α} (f : α → Val) {m : M α} (h : NoPanic m) : NoPanic (mapVal f m) := by
  refine ⟨fun s => ?_⟩
  unfold Memfs.mapVal
  have := h.out s
  split
  · simp
  · simp
  · rename_i h; rw [h] at this; exact absurd rfl this
  · simp

/-- no operation panics, whatever the state and the arguments -/
theorem step_no_panic (env : Env) (s : State) (op : Op) : (step env s op).1 ≠ .panic := by
  cases op
  all_goals first
    | (refine (step_simple_fine env s _ ?_).1; rfl)
    | skip
  all_goals simp only [step]
  all_goals first
    | exact (NoPanic.travM _ _ _).out s
    | refine (NoPanic.mapVal _ ?_).out s
  all_goals with_reducible first
    | exact NoPanic.removeAllM _ _ | exact NoPanic.moveM _ _ _ | exact NoPanic.listing _ _ _ _ _
    | exact NoPanic.chmodM _ _ _ | exact NoPanic.chownM _ _ _ | exact NoPanic.copyM _ _ _ _
    | (apply NoPanic.bind (NoPanic.of_safe (Safe.mkfileM _ _)); intro r;
       apply NoPanic.bind (NoPanic.chmodM _ _ _); intro _; exact NoPanic.pure _)

/-! ### decidable domains for `move_p`, and the combined statement -/

/-- the resolved source of a `move_p` has no listed children (file, link, empty directory) or does
    not exist -/
def MoveSourceIsLeaf (env : Env) (s : State) (a : Str) : Prop :=
  match absM env a s with
  | (.ok sk, _) => (match alLookup sk s.entries with
    | some e => names e = []
    | none => True)
  | _ => True

instance (env : Env) (s : State) (a : Str) : Decidable (MoveSourceIsLeaf env s a) := by
  unfold MoveSourceIsLeaf
  split
  · split <;> infer_instance
  · infer_instance

/-- for the resolved source `sk` and destination `dk`, every destination key that `move_p` computes
    for an entry at/under `sk` lies outside `sk` -/
def MoveOutside (env : Env) (s : State) (a b : Str) : Prop :=
  match absM env a s, absM env b s with
  | (.ok sk, _), (.ok dk, _) => MoveDstOutside s sk dk
  | _, _ => True

instance (env : Env) (s : State) (a b : Str) : Decidable (MoveOutside env s a b) := by
  unfold MoveOutside
  split <;> infer_instance

theorem step_moveP_leaf {env : Env} {s : State} {a : Str} (b : Str) (h : MoveSourceIsLeaf env s a) :
    (step env s (.moveP a b)).1 ≠ .hang := by
  apply step_moveP_leaf_no_hang
  intro sk e hsk he
  unfold MoveSourceIsLeaf at h
  rw [hsk] at h
  simp only [he] at h
  exact h

theorem step_moveP_outside {env : Env} {s : State} {a b : Str} (hinv : Spec.Inv s)
    (h : MoveOutside env s a b) : (step env s (.moveP a b)).1 ≠ .hang := by
  apply step_moveP_no_hang env a b s hinv
  intro sk dk hsk hdk
  unfold MoveOutside at h
  rw [hsk, hdk] at h
  exact h

/-- `mkfile_m` = `mkfile` then `chmod`: terminates if the state after the `mkfile` part is
    well-formed (preservation of `Inv` is C03) -/
theorem step_mkfileM_no_hang (env : Env) (p : Str) (mode : Nat) (s : State)
    (h : Spec.Inv (mkfileM env p s).2) : (step env s (.mkfileM p mode)).1 ≠ .hang := by
  simp only [step]
  apply mapVal_ne_hang
  simp only [bindM_def, M.bind]
  have hs := (Safe.mkfileM env p).out s
  split
  · rename_i r s' heq
    rw [heq] at h
    have := chmodM_no_hang env (renderP r) { dirs := mode, files := mode } s' h rfl
    split
    · simp [pureM_def, M.pure]
    · simp
    · simp
    · rename_i h2; rw [h2] at this; exact absurd rfl this
  · simp
  · simp
  · rename_i heq; rw [heq] at hs; exact absurd rfl hs.2

/-- operations whose termination on a well-formed state is proved here: everything except
    `move_p` and `mkfile_m` (separate statements) and the traversals that follow links -/
def TermOp : Op → Bool
  | .moveP .. | .mkfileM .. => false
  | .entries _ r => !r.follow
  | .chmodB _ c => !c.follow
  | .chownB _ c => !c.follow
  | .copyB _ _ c => !c.follow
  | _ => true

theorem step_term_no_hang (env : Env) (s : State) (op : Op) (hinv : Spec.Inv s)
    (h : TermOp op = true) : (step env s op).1 ≠ .hang := by
  by_cases hs : SimpleOp op = true
  · exact (step_simple_fine env s op hs).2
  · cases op
    all_goals first
      | (exfalso; apply hs; rfl)
      | skip
    all_goals first
      | (exfalso; revert h; simp [TermOp]; done)
      | skip
    · exact step_removeAll_no_hang env _ s hinv
    · exact (step_listing_no_hang env _ s hinv).1
    · exact (step_listing_no_hang env _ s hinv).2.1
    · exact (step_listing_no_hang env _ s hinv).2.2.1
    · exact (step_listing_no_hang env _ s hinv).2.2.2.1
    · exact (step_listing_no_hang env _ s hinv).2.2.2.2.1
    · exact (step_listing_no_hang env _ s hinv).2.2.2.2.2
    · simp only [step]; exact mapVal_ne_hang _ _ _ (chmodM_no_hang env _ _ s hinv rfl)
    · simp only [step]
      exact mapVal_ne_hang _ _ _ (chmodM_no_hang env _ _ s hinv (by simpa [TermOp] using h))
    · simp only [step]; exact mapVal_ne_hang _ _ _ (chownM_no_hang env _ _ s hinv rfl)
    · simp only [step]
      exact mapVal_ne_hang _ _ _ (chownM_no_hang env _ _ s hinv (by simpa [TermOp] using h))
    · simp only [step]; exact mapVal_ne_hang _ _ _ (copyM_no_hang env _ _ _ s hinv rfl)
    · simp only [step]
      exact mapVal_ne_hang _ _ _ (copyM_no_hang env _ _ _ s hinv (by simpa [TermOp] using h))
    · exact step_entries_no_hang env _ _ s hinv (by simpa [TermOp] using h)

end Rivia.Lemmas.Ret
