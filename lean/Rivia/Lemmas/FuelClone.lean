/-
  Rivia.Lemmas.FuelClone — the snapshot worklist (`_clone_entries`) never runs out of fuel with work
  left on a well-formed state: the model's `.ok acc` at fuel 0 is never a truncated snapshot.

  Potential: Φ(W, acc) = Σ over the worklist of the number of entries at/under that path
                        + (n+1) · #(entries not yet in the snapshot).
-/
import Rivia.Lemmas.FuelTrav

namespace Rivia.Lemmas
open Rivia Rivia.Memfs Rivia.Memfs.M Rivia.File

/-- one iteration of `cloneLoop` on an existing entry: new worklist and snapshot -/
def cloneNext (ents : Ents) (e : Entry) (work : List FsPath) (acc : Snap) : List FsPath × Snap :=
  let acc := alInsert e.path e acc
  let work := ((names e).map (fun n => e.path ++ [n])).reverse ++ work
  let work := match e.alt with
    | some a => if e.link ∧ (alLookup a ents).isSome ∧ (alLookup a acc).isNone then a :: work else work
    | none => work
  (work, acc)

theorem cloneLoop_succ (ents : Ents) (f : Nat) (p : FsPath) (work : List FsPath) (acc : Snap) :
    cloneLoop ents (f + 1) (p :: work) acc =
      match alLookup p ents with
      | none => .err .doesNotExist
      | some e => cloneLoop ents f (cloneNext ents e work acc).1 (cloneNext ents e work acc).2 := by
  rw [cloneLoop]
  cases alLookup p ents with
  | none => rfl
  | some e =>
    simp only [cloneNext, names]
    cases e.files <;> rfl

structure EntsOK (ents : Ents) : Prop where
  nodup : (ents.map (·.1)).Nodup
  path : ∀ k e, (k, e) ∈ ents → e.path = k
  namesNodup : ∀ k e, (k, e) ∈ ents → (names e).Nodup
  linkNoKids : ∀ k e, (k, e) ∈ ents → e.link = true → names e = []

theorem entsOK_of_inv {s : State} (hf : InvFacts s) : EntsOK s.entries := by
  refine ⟨hf.nodup, hf.pathField, hf.namesNodup, ?_⟩
  intro k e hke hl
  cases hn : names e with
  | nil => rfl
  | cons n ns =>
    exfalso
    have hmem : n ∈ names e := by rw [hn]; exact List.mem_cons_self
    have hkey := hf.listed k e hke n hmem
    obtain ⟨⟨k', e'⟩, hm', hk'⟩ := List.mem_map.1 hkey
    simp only at hk'
    subst hk'
    obtain ⟨pe, hpe, _, hlink, _⟩ := hf.parent (k ++ [n]) e' hm' (by simp)
    rw [List.dropLast_concat] at hpe
    have := alLookup_of_mem hf.nodup hke
    rw [this] at hpe
    cases hpe
    rw [hl] at hlink
    cases hlink

/-! ### potential -/

/-- number of entries that are not yet in the snapshot -/
def unseen (ents : Ents) (acc : Snap) : Nat :=
  (ents.map (fun kv => if (alLookup kv.1 acc).isNone then 1 else 0)).sum

def PhiC (ents : Ents) (W : List FsPath) (acc : Snap) : Nat :=
  (W.map (cnt ents)).sum + (ents.length + 1) * unseen ents acc

theorem alLookup_alInsert {β} (k k0 : FsPath) (v0 : β) (l : List (FsPath × β)) :
    alLookup k (alInsert k0 v0 l) = if k0 = k then some v0 else alLookup k l := by
  induction l with
  | nil => simp [alInsert, alLookup]
  | cons kv l ih =>
    obtain ⟨k', v'⟩ := kv
    simp only [alInsert]
    split
    · rename_i h; subst h
      simp only [alLookup]
      split <;> rfl
    · rename_i h
      simp only [alLookup, ih]
      split
      · rename_i h2; subst h2; rw [if_neg (fun h3 => h h3.symm)]
      · rfl

theorem unseen_le (ents : Ents) (acc : Snap) : unseen ents acc ≤ ents.length := by
  unfold unseen
  have := sum_map_le (fun kv : FsPath × Entry => if (alLookup kv.1 acc).isNone then 1 else 0)
    (fun _ => 1) ents (fun _ _ => by split <;> omega)
  rw [sum_map_const] at this
  omega

theorem unseen_insert_le (ents : Ents) (acc : Snap) (p : FsPath) (e : Entry) :
    unseen ents (alInsert p e acc) ≤ unseen ents acc := by
  unfold unseen
  apply sum_map_le
  intro kv _
  rw [alLookup_alInsert]
  split
  · simp
  · exact Nat.le_refl _

theorem unseen_insert_lt {ents : Ents} {acc : Snap} {p : FsPath} {e e' : Entry}
    (hm : (p, e') ∈ ents) (hnew : (alLookup p acc).isNone = true) :
    unseen ents (alInsert p e acc) < unseen ents acc := by
  unfold unseen
  apply sum_map_lt _ _ _ _ hm
  · simp only [alLookup_alInsert, if_true, hnew]
    simp
  · intro kv _
    rw [alLookup_alInsert]
    split
    · simp
    · exact Nat.le_refl _

/-! ### invariant -/

/-- every link already in the snapshot has its (existing) target in the snapshot or on top of the
    worklist -/
def CI (ents : Ents) (W : List FsPath) (acc : Snap) : Prop :=
  ∀ l e a, (alLookup l acc).isSome = true → alLookup l ents = some e → e.link = true →
    e.alt = some a → (alLookup a ents).isSome = true →
    (alLookup a acc).isSome = true ∨ W.head? = some a

theorem isSome_alInsert {β} (k k0 : FsPath) (v0 : β) (l : List (FsPath × β)) :
    (alLookup k (alInsert k0 v0 l)).isSome = true ↔ k0 = k ∨ (alLookup k l).isSome = true := by
  rw [alLookup_alInsert]
  split
  · rename_i h; simp [h]
  · rename_i h; simp [h]

theorem cnt_le_length (ents : Ents) (x : FsPath) : cnt ents x ≤ ents.length :=
  List.countP_le_length

theorem cnt_pos {ents : Ents} {p : FsPath} {e : Entry} (h : (p, e) ∈ ents) : 0 < cnt ents p :=
  List.countP_pos_iff.2 ⟨(p, e), h, by simp⟩

theorem clone_step {ents : Ents} (ok : EntsOK ents) {p : FsPath} {W : List FsPath} {acc : Snap}
    {e : Entry} (ci : CI ents (p :: W) acc) (hp : alLookup p ents = some e) :
    CI ents (cloneNext ents e W acc).1 (cloneNext ents e W acc).2 ∧
    PhiC ents (cloneNext ents e W acc).1 (cloneNext ents e W acc).2 < PhiC ents (p :: W) acc := by
  have hm := alLookup_some_mem hp
  have hpath : e.path = p := ok.path p e hm
  -- old snapshot members other than `p` keep their guarantee
  have hold : ∀ l e' a, l ≠ p → (alLookup l (alInsert p e acc)).isSome = true →
      alLookup l ents = some e' → e'.link = true → e'.alt = some a → (alLookup a ents).isSome = true →
      (alLookup a (alInsert p e acc)).isSome = true := by
    intro l e' a hne hl he' hlk halt ha
    rcases (isSome_alInsert l p e acc).1 hl with h | h
    · exact absurd h.symm hne
    · rcases ci l e' a h he' hlk halt ha with h2 | h2
      · exact (isSome_alInsert a p e acc).2 (.inr h2)
      · simp only [List.head?_cons, Option.some.injEq] at h2
        exact (isSome_alInsert a p e acc).2 (.inl h2)
  have hun := unseen_insert_le ents acc p e
  have hcp := cnt_pos hm
  unfold cloneNext
  simp only [hpath]
  by_cases hlink : e.link = true
  · -- a link: no children
    have hnk := ok.linkNoKids p e hm hlink
    simp only [hnk, List.map_nil, List.reverse_nil, List.nil_append]
    cases halt : e.alt with
    | none =>
      simp only
      constructor
      · intro l e' a hl he' hlk halt' ha
        by_cases hlp : l = p
        · subst hlp; rw [hp] at he'; cases he'; rw [halt] at halt'; cases halt'
        · exact .inl (hold l e' a hlp hl he' hlk halt' ha)
      · unfold PhiC
        simp only [List.map_cons, List.sum_cons]
        have := Nat.mul_le_mul_left (ents.length + 1) hun
        omega
    | some a =>
      simp only
      split
      · -- the target is pushed
        rename_i hcond
        constructor
        · intro l e' a' hl he' hlk halt' ha
          by_cases hlp : l = p
          · subst hlp; rw [hp] at he'; cases he'; rw [halt] at halt'; cases halt'
            exact .inr rfl
          · exact .inl (hold l e' a' hlp hl he' hlk halt' ha)
        · -- `p` was not in the snapshot yet
          have hnew : (alLookup p acc).isNone = true := by
            cases hpa : alLookup p acc with
            | none => rfl
            | some v =>
              exfalso
              have hnone := hcond.2.2
              rcases ci p e a (by rw [hpa]; rfl) hp hlink halt hcond.2.1 with h | h
              · have := (isSome_alInsert a p e acc).2 (.inr h)
                cases hx : alLookup a (alInsert p e acc) <;> simp_all
              · simp only [List.head?_cons, Option.some.injEq] at h
                have := (isSome_alInsert a p e acc).2 (.inl h)
                cases hx : alLookup a (alInsert p e acc) <;> simp_all
          have hlt := unseen_insert_lt (e := e) hm hnew
          unfold PhiC
          simp only [List.map_cons, List.sum_cons]
          have hca := cnt_le_length ents a
          have := Nat.mul_le_mul_left (ents.length + 1) (Nat.succ_le_of_lt hlt)
          rw [Nat.mul_succ] at this
          omega
      · -- the target is already there (or does not exist)
        rename_i hcond
        constructor
        · intro l e' a' hl he' hlk halt' ha
          by_cases hlp : l = p
          · subst hlp; rw [hp] at he'; cases he'; rw [halt] at halt'; cases halt'
            left
            cases hx : alLookup a (alInsert l e acc) with
            | some v => rfl
            | none => exact absurd ⟨hlink, ha, by rw [hx]; rfl⟩ hcond
          · exact .inl (hold l e' a' hlp hl he' hlk halt' ha)
        · unfold PhiC
          simp only [List.map_cons, List.sum_cons]
          have := Nat.mul_le_mul_left (ents.length + 1) hun
          omega
  · -- not a link: the children are pushed, never the target
    have hW : (match e.alt with
        | some a => if e.link = true ∧ (alLookup a ents).isSome = true ∧
            (alLookup a (alInsert p e acc)).isNone = true then
              a :: (((names e).map (fun n => p ++ [n])).reverse ++ W)
            else ((names e).map (fun n => p ++ [n])).reverse ++ W
        | none => ((names e).map (fun n => p ++ [n])).reverse ++ W) =
        ((names e).map (fun n => p ++ [n])).reverse ++ W := by
      cases e.alt with
      | none => rfl
      | some a => simp only; rw [if_neg (fun h => hlink h.1)]
    rw [hW]
    constructor
    · intro l e' a' hl he' hlk halt' ha
      by_cases hlp : l = p
      · subst hlp; rw [hp] at he'; cases he'; exact absurd hlk hlink
      · exact .inl (hold l e' a' hlp hl he' hlk halt' ha)
    · unfold PhiC
      simp only [List.map_cons, List.sum_cons, List.map_append, List.sum_append, List.map_reverse,
        sum_reverse, List.map_map]
      have h3 := kids_count_lt ents p (names e) (ok.namesNodup p e hm) hm
      have h4 : ((names e).map (cnt ents ∘ fun n => p ++ [n])).sum =
          ((names e).map (fun n => cnt ents (p ++ [n]))).sum := rfl
      have := Nat.mul_le_mul_left (ents.length + 1) hun
      omega

/-! ### the fuel is never exhausted with work left -/

theorem cloneLoop_fuel {ents : Ents} (ok : EntsOK ents) :
    ∀ (f g : Nat) (W : List FsPath) (acc : Snap), CI ents W acc →
      PhiC ents W acc < f → PhiC ents W acc < g →
      cloneLoop ents f W acc = cloneLoop ents g W acc := by
  intro f
  induction f with
  | zero => intro g W acc _ h; omega
  | succ f ih =>
    intro g W acc ci hf hg
    cases g with
    | zero => omega
    | succ g =>
      cases W with
      | nil => simp [cloneLoop]
      | cons p W =>
        rw [cloneLoop_succ, cloneLoop_succ]
        cases hp : alLookup p ents with
        | none => rfl
        | some e =>
          obtain ⟨ci', hlt⟩ := clone_step ok ci hp
          exact ih g _ _ ci' (by omega) (by omega)

theorem phiC_init_lt (ents : Ents) (abs : FsPath) :
    PhiC ents [abs] [] < 4 * (ents.length + 1) * (ents.length + 1) := by
  unfold PhiC
  have h1 := cnt_le_length ents abs
  have h2 := unseen_le ents []
  have h3 := Nat.mul_le_mul_left (ents.length + 1) h2
  have h4 : 4 * (ents.length + 1) * (ents.length + 1) =
      4 * ((ents.length + 1) * ents.length) + 4 * (ents.length + 1) := by
    rw [Nat.mul_assoc, ← Nat.mul_add, Nat.mul_succ]
  simp only [List.map_cons, List.map_nil, List.sum_cons, List.sum_nil]
  omega

/-- on a well-formed state the snapshot is the same for every fuel at least the model's: the
    worklist is always empty before the fuel is, so `.ok acc` at fuel 0 is never reached with work
    left -/
theorem cloneEntries_fuel {s : State} (hinv : Spec.Inv s) (abs : FsPath) (g : Nat)
    (hg : 4 * (s.entries.length + 1) * (s.entries.length + 1) ≤ g) :
    cloneLoop s.entries g [abs] [] = cloneEntries s abs := by
  unfold cloneEntries
  have ok := entsOK_of_inv (inv_facts hinv)
  have := phiC_init_lt s.entries abs
  refine cloneLoop_fuel ok _ _ _ _ ?_ (by omega) this
  intro l e a hl
  simp [alLookup] at hl

end Rivia.Lemmas
