/-
  Rivia.Lemmas.RefineCChmod — C01, group C (part 3): symbolic `chmod_b(p).sym(expr)` (no octal value,
  no follow) refines the reference `chmodSym`.

  The octal proof (Lemmas/RefineB/Chmod) is re-run with the per-entry target mode
  `symMode cs x = applyExpr (ekind x) cs x.mode` (what `sys::mode` returns for a well-formed
  expression, `Lemmas.mode_parsed`) in place of the constant `c.dirs` / `c.files`.  New ingredient:
  a clause only touches the low 9 bits, so the type bits of the mode survive (`applyExpr_testBit`);
  hence the computed mode is never 0 and `set_mode` stores it unchanged.
-/
import Rivia.Lemmas.RefineB.Chmod
import Rivia.Lemmas.Chmod
import Rivia.Lemmas.RefineA

namespace Rivia.Lemmas.RefineC
open Rivia Rivia.Memfs Rivia.File Rivia.Spec Rivia.Spec.TreeFs Rivia.Chmod Rivia.Lemmas.RefineB

/-! ### bits: clauses keep the type bits -/

theorem testBit_not32 (x i : Nat) (hx : x < 2 ^ i) (hi : i < 32) : (not32 x).testBit i = true := by
  unfold not32
  rw [Nat.testBit_xor, Nat.testBit_lt_two_pow hx]
  have : (0xFFFFFFFF : Nat) = 2 ^ 32 - 1 := by decide
  rw [this, Nat.testBit_two_pow_sub_one]
  simp [hi]

theorem and_pow_iff (m i : Nat) : m &&& 2 ^ i = 2 ^ i ↔ m.testBit i = true := by
  constructor
  · intro h
    have := congrArg (fun z => z.testBit i) h
    simp only [Nat.testBit_and, Nat.testBit_two_pow_self, Bool.and_true] at this
    exact this
  · intro h
    apply Nat.eq_of_testBit_eq
    intro j
    rw [Nat.testBit_and, Nat.testBit_two_pow]
    by_cases hj : i = j
    · subst hj; simp [h]
    · simp [hj]

theorem or_of_and_eq (m t : Nat) (h : m &&& t = t) : m ||| t = m := by
  apply Nat.eq_of_testBit_eq
  intro j
  have := congrArg (fun z => z.testBit j) h
  simp only [Nat.testBit_and] at this
  rw [Nat.testBit_or]
  cases hm : m.testBit j <;> cases ht : t.testBit j <;> simp_all

theorem whoBits_le (w : List Char) : whoBits w ≤ 511 := by
  rw [Lemmas.whoBits_eq]; exact Lemmas.foldl_whoStep_le w 0 (by omega)

theorem apply_testBit (c : Clause) (m i : Nat) (h9 : 9 ≤ i) (hi : i < 32) (h : m.testBit i = true) :
    (c.apply m).testBit i = true := by
  have hg : whoBits c.who < 2 ^ i :=
    Nat.lt_of_le_of_lt (whoBits_le _)
      (Nat.lt_of_lt_of_le (by decide : 511 < 2 ^ 9) (Nat.pow_le_pow_right (by omega) h9))
  have hgp : whoBits c.who &&& permBits c.perms < 2 ^ i := Nat.lt_of_le_of_lt Nat.and_le_left hg
  unfold Clause.apply
  simp only
  split
  · rw [Nat.testBit_and, h, testBit_not32 _ _ hgp hi]; rfl
  · split
    · rw [Nat.testBit_or, h]; rfl
    · rw [Nat.testBit_or, Nat.testBit_and, h, testBit_not32 _ _ hg hi]; rfl

theorem applyExpr_testBit (k : EKind) (cs : List Clause) (m i : Nat) (h9 : 9 ≤ i) (hi : i < 32)
    (h : m.testBit i = true) : (applyExpr k cs m).testBit i = true := by
  induction cs generalizing m with
  | nil => exact h
  | cons c cs ih =>
    rw [Lemmas.applyExpr_cons]
    apply ih
    split
    · exact apply_testBit c m i h9 hi h
    · exact h

/-- the type bits of a non-link kind are one bit between 9 and 31 -/
theorem typeBits_pow (e : Entry) (hl : e.link = false) :
    ∃ i, 9 ≤ i ∧ i < 32 ∧ typeBits (kindOf e) = 2 ^ i := by
  unfold kindOf
  rw [hl]
  cases e.dir
  · exact ⟨15, by omega, by omega, by decide⟩
  · exact ⟨14, by omega, by omega, by decide⟩

theorem applyExpr_typeBits (k : EKind) (cs : List Clause) (e : Entry) (hl : e.link = false) (m : Nat)
    (h : m &&& typeBits (kindOf e) = typeBits (kindOf e)) :
    applyExpr k cs m &&& typeBits (kindOf e) = typeBits (kindOf e) := by
  obtain ⟨i, h9, hi, ht⟩ := typeBits_pow e hl
  rw [ht] at h ⊢
  exact (and_pow_iff _ _).2 (applyExpr_testBit k cs m i h9 hi ((and_pow_iff _ _).1 h))

theorem typeBits_pos (k : Kind) : 0 < typeBits k := by cases k <;> simp [typeBits]

theorem ne_zero_of_typeBits {m : Nat} {k : Kind} (h : m &&& typeBits k = typeBits k) : m ≠ 0 := by
  intro h0
  rw [h0, Nat.zero_and] at h
  have := typeBits_pos k
  omega

/-! ### the Memfs side with the per-entry target mode -/

/-- the mode the expression prescribes for the entry -/
def symMode (cs : List Clause) (x : Entry) : Nat := applyExpr (ekind x) cs x.mode

def preValS (cs : List Clause) (x : Entry) : Option Nat :=
  if (!x.link) ∧ x.dir ∧ symMode cs x ≠ 0 ∧ !Chmod.revokingMode x.mode (symMode cs x) ∧ x.mode ≠ symMode cs x
  then some (symMode cs x) else none

def stepModeS (cs : List Clause) (x : Entry) : Nat :=
  if x.dir then symMode cs x else if x.file then symMode cs x else 0

def stepValS (cs : List Clause) (x : Entry) : Option Nat :=
  if (!x.link) ∧ stepModeS cs x ≠ x.mode ∧ stepModeS cs x ≠ 0 then some (stepModeS cs x) else none

def actValS (cs : List Clause) (a : Bool × Entry) : Option Nat :=
  if a.1 then stepValS cs a.2 else preValS cs a.2

theorem chmodPre_eqS {c : ChmodOpts} {cs : List Clause} (hd : c.dirs = 0) (hp : parseExpr c.sym = some cs)
    (hf : c.follow = false) (x : Entry) (w : State) :
    chmodPre c x w = (.ok (), applyVal (preValS cs x) x.path w) := by
  unfold chmodPre preValS applyVal setAt symMode
  rw [hd, Lemmas.mode_parsed _ _ _ _ hp]
  simp only [hf, Bool.false_eq_true, or_false]
  split
  · split <;> rfl
  · rfl

theorem chmodStepF_eqS {c : ChmodOpts} {cs : List Clause} (hd : c.dirs = 0) (hfz : c.files = 0)
    (hp : parseExpr c.sym = some cs) (hf : c.follow = false) (x : Entry) (w : State) :
    chmodStepF c x w = (.ok (), applyVal (stepValS cs x) x.path w) := by
  have hm : (if x.dir then Chmod.mode (ekind x) x.mode c.dirs c.sym
      else if x.file then Chmod.mode (ekind x) x.mode c.files c.sym else Outcome.ok 0) = .ok (stepModeS cs x) := by
    unfold stepModeS symMode
    rw [hd, hfz, Lemmas.mode_parsed _ _ _ _ hp]
    split
    · rfl
    · split <;> rfl
  unfold chmodStepF stepValS applyVal setAt
  simp only [hm, hf, Bool.false_eq_true, or_false]
  split
  · split <;> rfl
  · rfl

/-- `chmod_fold` for an arbitrary value function -/
theorem fold_av (av : Bool × Entry → Option Nat) (tm : FsPath → Nat) : ∀ (acts : List (Bool × Entry)) (w : State),
    (∀ a ∈ acts, ∀ m, av a = some m → m = tm a.2.path) →
    (acts.foldl (fun w a => applyVal (av a) a.2.path w) w).files = w.files ∧
    (acts.foldl (fun w a => applyVal (av a) a.2.path w) w).cwd = w.cwd ∧
    ∀ k, alLookup k (acts.foldl (fun w a => applyVal (av a) a.2.path w) w).entries =
      if acts.any (fun a => (av a).isSome && decide (a.2.path = k))
      then (alLookup k w.entries).map (fun e => e.setMode (tm k)) else alLookup k w.entries := by
  intro acts
  induction acts with
  | nil => intro w _; simp
  | cons a acts ih =>
    intro w hcons
    obtain ⟨i1, i2, i3⟩ := ih (applyVal (av a) a.2.path w) (fun b hb => hcons b (List.mem_cons_of_mem _ hb))
    simp only [List.foldl_cons]
    cases hv : av a with
    | none =>
      have h0 : applyVal (av a) a.2.path w = w := by rw [hv]; rfl
      rw [h0] at i1 i2 i3
      rw [show applyVal none a.2.path w = w from rfl]
      refine ⟨i1, i2, ?_⟩
      intro k
      rw [i3 k]
      simp only [List.any_cons, hv, Option.isSome_none, Bool.false_and, Bool.false_or]
    | some m =>
      have hm : m = tm a.2.path := hcons a (by simp) m hv
      have h0 : applyVal (av a) a.2.path w = setAt a.2.path m w := by rw [hv]; rfl
      rw [h0] at i1 i2 i3
      rw [show applyVal (some m) a.2.path w = setAt a.2.path m w from rfl]
      obtain ⟨f1, f2⟩ := setAt_files a.2.path m w
      refine ⟨by rw [i1, f1], by rw [i2, f2], ?_⟩
      intro k
      rw [i3 k, lookup_setAt]
      simp only [List.any_cons, hv, Option.isSome_some, Bool.true_and]
      by_cases hk : k = a.2.path
      · subst hk
        simp only [decide_true, Bool.true_or, if_true]
        split
        · cases alLookup a.2.path w.entries with
          | none => rfl
          | some e => simp [hm, setMode_idem]
        · rw [hm]
      · have : ¬ a.2.path = k := fun e => hk e.symm
        simp only [this, decide_false, Bool.false_or, hk, if_false]

theorem chmod_actsS {s : State} {p : FsPath} {c : ChmodOpts} {cs : List Clause} {e : Entry} {snap : Snap}
    (hP : InvP s) (hp : alLookup p s.entries = some e) (hS : SnapOk s p snap)
    (hd0 : c.dirs = 0) (hf0 : c.files = 0) (hpe : parseExpr c.sym = some cs) (hf : c.follow = false)
    (hD : c.recursive = true → DepthOk s) :
    ∃ acts : List (Bool × Entry),
      runIter snap (chmodOpts c) (chmodPre c) e (chmodStepF c) (travFuel snap) {} s =
        (.ok (), acts.foldl (fun w a => applyVal (actValS cs a) a.2.path w) s) ∧
      (∀ a ∈ acts, alLookup a.2.path s.entries = some a.2 ∧ selB (absS s) p c.recursive a.2.path = true) ∧
      ∀ k, (alLookup k s.entries).isSome →
        (selB (absS s) p c.recursive k = true ↔ ∃ a ∈ acts, a.1 = true ∧ a.2.path = k) := by
  have hpath : e.path = p := hP.pathField p e hp
  have hcf : cfAct (fun x w => applyVal (preValS cs x) x.path w) (fun x w => applyVal (stepValS cs x) x.path w) =
      fun w a => applyVal (actValS cs a) a.2.path w := by
    funext w a; unfold cfAct actValS; split <;> rfl
  cases hr : c.recursive with
  | true =>
    obtain ⟨acts, h1, h2, h3⟩ := runIter_cf_root (chmodPre c) (fun x w => applyVal (preValS cs x) x.path w)
      (chmodPre_eqS hd0 hpe hf) (fun x w => applyVal (stepValS cs x) x.path w) (chmodStepF c)
      (chmodStepF_eqS hd0 hf0 hpe hf)
      (chmodOpts_cf hP hS hf hr (hD hr)) hp (travFuel snap) (travFuel_ge3 hP hS) s
    rw [hcf] at h1
    refine ⟨acts, h1, ?_, ?_⟩
    · intro a ha
      have := h2 a ha
      exact ⟨this.1, (selB_true_iff hP (by rw [this.1]; rfl)).2 this.2⟩
    · intro k hk
      rw [selB_true_iff hP hk, ← h3 k]
      exact ⟨fun h => ⟨h, hk⟩, fun h => h.1⟩
  | false =>
    refine ⟨[(true, e)], ?_, ?_, ?_⟩
    · rw [runIter_cf_flat (chmodPre c) (chmodOpts_flat hf hr) e (fun x w => applyVal (stepValS cs x) x.path w)
        (chmodStepF c) (chmodStepF_eqS hd0 hf0 hpe hf) (travFuel snap) (by
          unfold travFuel
          have : 2 ≤ (snap.length + 2) * (snap.length + 2) :=
            Nat.le_trans (by omega) (Nat.le_mul_of_pos_left _ (by omega))
          have h3 : 64 * (snap.length + 2) * (snap.length + 2) = 64 * ((snap.length + 2) * (snap.length + 2)) :=
            Nat.mul_assoc _ _ _
          omega) s]
      rfl
    · intro a ha
      simp only [List.mem_singleton] at ha
      subst ha
      simp only [hpath, hp, selB, decide_true, Bool.true_or, and_self]
    · intro k _
      simp only [selB, Bool.false_and, Bool.or_false, decide_eq_true_eq, List.mem_singleton, exists_eq_left, true_and,
        hpath]
      exact eq_comm

/-! ### the reference side -/

def symFn (cs : List Clause) (n : Node) : Node :=
  match n.kind with
  | .dir => { n with perm := applyExpr ⟨true, false, false⟩ cs n.mode - typeBits .dir }
  | .file => { n with perm := applyExpr ⟨false, true, false⟩ cs n.mode - typeBits .file }
  | .link _ => n

theorem chmodSym_eq (t : T) (p : FsPath) (sym : List Char) (rec : Bool) :
    chmodSym t p sym rec = match get t p with
      | none => (.err (some .doesNotExist), t)
      | some _ => match parseExpr sym with
        | none => (.err none, t)
        | some cs => (.ok (), { t with nodes := t.nodes.map (fun kv =>
            if selB t p rec kv.1 then (kv.1, symFn cs kv.2) else kv) }) := by
  unfold chmodSym
  cases get t p with
  | none => rfl
  | some _ =>
    simp only
    cases parseExpr sym with
    | none => rfl
    | some cs =>
      simp only
      congr 3
      funext kv
      obtain ⟨k, n⟩ := kv
      obtain ⟨kind, perm, uid, gid, target, data⟩ := n
      unfold selB symFn
      cases kind <;> rfl

/-! ### one entry: what `set_mode` of the prescribed mode means for the node -/

theorem file_of_flags {x : Entry} (h : x.dir = !x.file) :
    (x.dir = true → x.file = false) ∧ (x.dir = false → x.file = true) := by
  revert h; cases x.dir <;> cases x.file <;> simp

/-- a clause only touches the low 9 bits: everything from bit 9 up is kept (on `u32` values) -/
theorem applyExpr_div512 (k : EKind) (cs : List Clause) (m : Nat) (hm : m < 2 ^ 32) :
    applyExpr k cs m / 512 = m / 512 ∧ applyExpr k cs m < 2 ^ 32 := by
  induction cs generalizing m with
  | nil => exact ⟨rfl, hm⟩
  | cons c cs ih =>
    rw [Lemmas.applyExpr_cons]
    split
    · have h1 : c.apply m = applyOp c.op (whoBits c.who) (permBits c.perms) m := rfl
      have h2 := Lemmas.applyOp_keeps c.op (whoBits c.who) (permBits c.perms) m (whoBits_le _) hm
      rw [← h1] at h2
      have h3 := ih (c.apply m) h2.2
      exact ⟨h3.1.trans h2.1, h3.2⟩
    · exact ih m hm

theorem perm_bound' (a b t : Nat) (hd : a / 512 = b / 512)
    (hp : b < 512 * t + 4096) : a < 512 * t + 4096 := by
  omega
theorem sub_lt_of (b T : Nat) (hp : b - T < 4096) : b < T + 4096 := by omega
theorem lt_sub_of (a T : Nat) (h : a < T + 4096) : a - T < 4096 := by omega
/-- same bits from bit 9 up, and `b` is `T` plus permission bits (`T` a directory/file type bit):
    so is `a` -/
theorem perm_bound (a b T : Nat) (hT : T = 16384 ∨ T = 32768) (hd : a / 512 = b / 512)
    (hp : b - T < 4096) : a - T < 4096 := by
  have hb := sub_lt_of b T hp
  apply lt_sub_of
  rcases hT with h | h
  · have e : T = 512 * 32 := by rw [h]
    rw [e] at hb ⊢; exact perm_bound' a b 32 hd hb
  · have e : T = 512 * 64 := by rw [h]
    rw [e] at hb ⊢; exact perm_bound' a b 64 hd hb

/-- `set_mode` stores a canonical mode (type bits of the kind, nothing else above the permission
    bits) unchanged; since the `mode_type_bits` repair the second condition is needed (foreign
    high bits are masked away) -/
theorem setMode_mode_sym (x : Entry) (m : Nat) (hl : x.link = false) (hfl : x.dir = !x.file)
    (hm : m &&& typeBits (kindOf x) = typeBits (kindOf x))
    (hp : m - typeBits (kindOf x) < 0o10000) : (x.setMode m).mode = m := by
  have h0 : typeBits (kindOf x) &&& 0o7777 = 0 := by cases kindOf x <;> simp [typeBits]
  have hc := RefineA.canon_of_wf m _ h0 hm hp
  unfold kindOf at hc
  rw [hl] at hc
  unfold Entry.setMode
  simp only [ModeBits.optsMode_some]
  cases hd : x.dir with
  | true =>
    have hfile : x.file = false := (file_of_flags hfl).1 hd
    rw [hd] at hc
    simp only [hl, hfile, Bool.false_eq_true, if_false, if_true]
    exact hc
  | false =>
    have hfile : x.file = true := (file_of_flags hfl).2 hd
    rw [hd] at hc
    simp only [hl, hfile, Bool.false_eq_true, if_false, if_true]
    exact hc

theorem node_perm_eta (s : State) (k : FsPath) (x : Entry) :
    absNode s k x = { absNode s k x with perm := x.mode - typeBits (kindOf x) } := rfl

theorem symFn_dir {n : Node} (h : n.kind = Kind.dir) (cs : List Clause) :
    symFn cs n = { n with perm := applyExpr ⟨true, false, false⟩ cs n.mode - typeBits .dir } := by
  unfold symFn; rw [h]

theorem symFn_file {n : Node} (h : n.kind = Kind.file) (cs : List Clause) :
    symFn cs n = { n with perm := applyExpr ⟨false, true, false⟩ cs n.mode - typeBits .file } := by
  unfold symFn; rw [h]

theorem symFn_link {n : Node} {b : Bool} (h : n.kind = Kind.link b) (cs : List Clause) : symFn cs n = n := by
  unfold symFn; rw [h]

theorem node_sym (s : State) (k : FsPath) (x : Entry) (cs : List Clause) (hEF : RefineA.EntryFacts k x)
    (hl : x.link = false) :
    absNode s k (x.setMode (symMode cs x)) = symFn cs (absNode s k x) ∧
    (symMode cs x = x.mode → absNode s k x = symFn cs (absNode s k x)) ∧ symMode cs x ≠ 0 := by
  have hmode : (absNode s k x).mode = x.mode := RefineA.absNode_mode hEF
  have htb : symMode cs x &&& typeBits (kindOf x) = typeBits (kindOf x) :=
    applyExpr_typeBits _ cs x hl _ hEF.modeWf
  have hperm : symMode cs x - typeBits (kindOf x) < 0o10000 := by
    have hw := hEF.modeWf
    have hp := hEF.permWf
    have hT : typeBits (kindOf x) = 0o40000 ∨ typeBits (kindOf x) = 0o100000 := by
      unfold kindOf; rw [hl]; cases x.dir <;> simp [typeBits]
    have hlt : x.mode < 2 ^ 32 := by
      have h1 := sub_lt_of _ _ hp
      have h2 : typeBits (kindOf x) ≤ 32768 := by rcases hT with h | h <;> rw [h] <;> decide
      have h3 : x.mode < 32768 + 4096 := Nat.lt_of_lt_of_le h1 (Nat.add_le_add_right h2 _)
      exact Nat.lt_trans h3 (by decide)
    have hd := (applyExpr_div512 (ekind x) cs x.mode hlt).1
    exact perm_bound _ _ _ hT hd hp
  have hsm : (x.setMode (symMode cs x)).mode = symMode cs x :=
    setMode_mode_sym x _ hl hEF.flags htb hperm
  have h1 : absNode s k (x.setMode (symMode cs x)) =
      { absNode s k x with perm := (x.setMode (symMode cs x)).mode - typeBits (kindOf x) } := rfl
  refine ⟨?_, ?_, ne_zero_of_typeBits htb⟩
  · rw [h1, hsm]
    cases hd : x.dir with
    | true =>
      have hfile : x.file = false := (file_of_flags hEF.flags).1 hd
      have hkd : (absNode s k x).kind = Kind.dir := (RefineB.kind_dir_iff s k x).2 ⟨hd, hl⟩
      have hko : kindOf x = Kind.dir := hkd
      have hek : ekind x = ⟨true, false, false⟩ := by unfold ekind; rw [hd, hfile, hl]
      rw [symFn_dir hkd, hmode, hko]
      unfold symMode; rw [hek]
    | false =>
      have hfile : x.file = true := (file_of_flags hEF.flags).2 hd
      have hkd : (absNode s k x).kind = Kind.file := (RefineB.kind_file_iff s k x).2 ⟨hd, hl⟩
      have hko : kindOf x = Kind.file := hkd
      have hek : ekind x = ⟨false, true, false⟩ := by unfold ekind; rw [hd, hfile, hl]
      rw [symFn_file hkd, hmode, hko]
      unfold symMode; rw [hek]
  · intro heq
    cases hd : x.dir with
    | true =>
      have hfile : x.file = false := (file_of_flags hEF.flags).1 hd
      have hkd : (absNode s k x).kind = Kind.dir := (RefineB.kind_dir_iff s k x).2 ⟨hd, hl⟩
      have hko : kindOf x = Kind.dir := hkd
      have hek : ekind x = ⟨true, false, false⟩ := by unfold ekind; rw [hd, hfile, hl]
      have h2 : symFn cs (absNode s k x) =
          { absNode s k x with perm := applyExpr ⟨true, false, false⟩ cs x.mode - typeBits .dir } := by
        rw [symFn_dir hkd, hmode]
      have e1 : applyExpr ⟨true, false, false⟩ cs x.mode = x.mode := by rw [← hek]; exact heq
      have e2 : typeBits Kind.dir = typeBits (kindOf x) := by rw [hko]
      rw [h2, e1, e2]
      exact node_perm_eta s k x
    | false =>
      have hfile : x.file = true := (file_of_flags hEF.flags).2 hd
      have hkd : (absNode s k x).kind = Kind.file := (RefineB.kind_file_iff s k x).2 ⟨hd, hl⟩
      have hko : kindOf x = Kind.file := hkd
      have hek : ekind x = ⟨false, true, false⟩ := by unfold ekind; rw [hd, hfile, hl]
      have h2 : symFn cs (absNode s k x) =
          { absNode s k x with perm := applyExpr ⟨false, true, false⟩ cs x.mode - typeBits .file } := by
        rw [symFn_file hkd, hmode]
      have e1 : applyExpr ⟨false, true, false⟩ cs x.mode = x.mode := by rw [← hek]; exact heq
      have e2 : typeBits Kind.file = typeBits (kindOf x) := by rw [hko]
      rw [h2, e1, e2]
      exact node_perm_eta s k x

/-! ### the simulation -/

/-- the mode every write at `k` uses -/
def tmS (s : State) (cs : List Clause) (k : FsPath) : Nat :=
  match alLookup k s.entries with | some x => symMode cs x | none => 0

theorem stepModeS_eq {cs : List Clause} {x : Entry} (h : stepModeS cs x ≠ 0) : stepModeS cs x = symMode cs x := by
  unfold stepModeS at h ⊢
  split
  · rfl
  · split
    · rfl
    · rename_i h1 h2; simp only [h1, h2] at h; exact absurd rfl h

theorem stepModeS_of_flags {cs : List Clause} {x : Entry} (hfl : x.dir = !x.file) : stepModeS cs x = symMode cs x := by
  unfold stepModeS
  cases hd : x.dir with
  | true => simp
  | false => rw [(file_of_flags hfl).2 hd]; simp

theorem actValS_some {cs : List Clause} {a : Bool × Entry} {m : Nat} (h : actValS cs a = some m) :
    m = symMode cs a.2 ∧ a.2.link = false := by
  unfold actValS at h
  split at h
  · unfold stepValS at h
    split at h
    · next hc =>
      have := stepModeS_eq hc.2.2
      exact ⟨by rw [← this]; exact (Option.some.inj h).symm, by simpa using hc.1⟩
    · cases h
  · unfold preValS at h
    split at h
    · next hc => exact ⟨(Option.some.inj h).symm, by simpa using hc.1⟩
    · cases h

theorem chmodK_simS {s : State} {p : FsPath} {c : ChmodOpts} {cs : List Clause} (hP : InvP s)
    (hOk : RefineA.EntriesOk s) (hd0 : c.dirs = 0) (hf0 : c.files = 0) (hpe : parseExpr c.sym = some cs)
    (hf : c.follow = false) (hD : c.recursive = true → DepthOk s) :
    Sim (mapVal (fun _ => Val.unit) (chmodK c p) s)
      (liftR (fun _ => Val.unit) (chmodSym (absS s) p c.sym c.recursive)) := by
  rw [chmodSym_eq, get_absS]
  unfold mapVal
  cases hp : alLookup p s.entries with
  | none =>
    rw [chmodK_err (entriesOf_none hp)]
    simp only [Option.map_none, liftR]
    exact sim_err_some (TEquiv.refl _)
  | some e =>
    obtain ⟨snap, hE, hS⟩ := entriesOf_ok hP hp
    rw [chmodK_ok hE]
    simp only [Option.map_some, hpe, liftR]
    obtain ⟨acts, h1, h2, h3⟩ := chmod_actsS hP hp hS hd0 hf0 hpe hf hD
    rw [h1]
    apply sim_ok
    have hcons : ∀ a ∈ acts, ∀ m, actValS cs a = some m → m = tmS s cs a.2.path := by
      intro a ha m hm
      unfold tmS
      rw [(h2 a ha).1]
      exact (actValS_some hm).1
    obtain ⟨f1, f2, f3⟩ := fold_av (actValS cs) (tmS s cs) acts s hcons
    refine ⟨f2, fun k => ?_⟩
    rw [get_absS, f3 k]
    show _ = alLookup k _
    simp only
    rw [alLookup_map_if (selB (absS s) p c.recursive) (symFn cs)]
    show _ = Option.map _ (get (absS s) k)
    rw [get_absS]
    cases hk : alLookup k s.entries with
    | none => simp
    | some x =>
      have hkp : (alLookup k s.entries).isSome := by rw [hk]; rfl
      have hEF := RefineA.entriesOk_lookup hOk hk
      have htm : tmS s cs k = symMode cs x := by unfold tmS; rw [hk]
      cases htouch : acts.any (fun a => (actValS cs a).isSome && decide (a.2.path = k)) with
      | true =>
        rw [List.any_eq_true] at htouch
        obtain ⟨a, ha, hav⟩ := htouch
        simp only [Bool.and_eq_true, decide_eq_true_eq] at hav
        obtain ⟨hav, hak⟩ := hav
        have hax : a.2 = x := by
          have := (h2 a ha).1
          rw [hak, hk] at this
          exact (Option.some.inj this).symm
        have hsel : selB (absS s) p c.recursive k = true := hak ▸ (h2 a ha).2
        have hl : x.link = false := by
          cases hv : actValS cs a with
          | none => rw [hv] at hav; cases hav
          | some m => rw [← hax]; exact (actValS_some hv).2
        simp only [if_true, Option.map_some, hsel, htm, absNode_files_congr f1]
        rw [(node_sym s k x cs hEF hl).1]
      | false =>
        simp only [Bool.false_eq_true, if_false, Option.map_some, absNode_files_congr f1]
        congr 1
        cases hsel : selB (absS s) p c.recursive k with
        | false => simp
        | true =>
          simp only [if_true]
          obtain ⟨a, ha, ha1, hak⟩ := (h3 k hkp).1 hsel
          have hax : a.2 = x := by
            have := (h2 a ha).1
            rw [hak, hk] at this
            exact (Option.some.inj this).symm
          -- the consumer step did not write
          have hnone : stepValS cs x = none := by
            have hnt : ((actValS cs a).isSome && decide (a.2.path = k)) = false := by
              cases hh : ((actValS cs a).isSome && decide (a.2.path = k)) with
              | false => rfl
              | true =>
                have : acts.any (fun a => (actValS cs a).isSome && decide (a.2.path = k)) = true :=
                  List.any_eq_true.2 ⟨a, ha, hh⟩
                rw [htouch] at this; cases this
            simp only [hak, decide_true, Bool.and_true] at hnt
            unfold actValS at hnt
            rw [ha1, if_pos rfl, hax] at hnt
            cases hv : stepValS cs x with
            | none => rfl
            | some _ => rw [hv] at hnt; cases hnt
          cases hxl : x.link with
          | true => exact (symFn_link (kind_link_of s k x hxl) cs).symm
          | false =>
            obtain ⟨_, n2, n3⟩ := node_sym s k x cs hEF hxl
            have hsm := stepModeS_of_flags (cs := cs) hEF.flags
            unfold stepValS at hnone
            split at hnone
            · cases hnone
            · next hc =>
              apply n2
              rw [hsm] at hc
              cases Nat.decEq (symMode cs x) x.mode with
              | isTrue h => exact h
              | isFalse h => exact absurd ⟨by simp [hxl], h, n3⟩ hc

/-- symbolic `chmod_b`: well-formed expression (class "-"), no octal value, no follow -/
theorem chmodB_sym_refines (env : Env) (s : State) (p : Str) (c : ChmodOpts) (hI : Inv s)
    (hOk : RefineA.EntriesOk s) (hc : classOf s env (.chmodB p c) = "-") (hsym : c.sym ≠ [])
    (hD : c.recursive = true → DepthOk s) : Refines env s (.chmodB p c) := by
  rw [refines_iff]
  intro y hy
  simp only [specStep, hsym, if_false] at hy
  split at hy
  · cases hy
  next hf =>
  split at hy
  next hz =>
    simp only [Option.some.injEq] at hy
    subst hy
    have hpe : ∃ cs, parseExpr c.sym = some cs := by
      simp only [classOf, hsym, hz.1, hz.2, ne_eq, not_false_eq_true, and_self, if_true] at hc
      cases hp : parseExpr c.sym with
      | none => rw [hp] at hc; exact absurd hc (by decide)
      | some cs => exact ⟨cs, rfl⟩
    obtain ⟨cs, hpe⟩ := hpe
    show Sim (mapVal (fun _ => Val.unit) (chmodM env p c) s) _
    rw [chmodM_eq]
    apply sim_withPath
    intro a _
    exact chmodK_simS (inv_props hI) hOk hz.1 hz.2 hpe (by simpa using hf) hD
  · cases hy

end Rivia.Lemmas.RefineC
