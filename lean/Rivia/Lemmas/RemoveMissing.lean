/-
  Rivia.Lemmas.RemoveMissing — `remove` of a path that does not exist, on both backend models
  (repair of finding `remove_below_file`, property C02).
-/
import Rivia.Lemmas.RefineB.Remove
import Rivia.Lemmas.RefineCList
import Rivia.Lemmas.StdfsMut

namespace Rivia.Lemmas.RemoveMissing
open Rivia Rivia.Memfs Rivia.Spec Rivia.Spec.TreeFs

/-! ### Memfs -/

/-- `Memfs::remove` of a resolved key that is not an entry: `Ok(())`, nothing is touched — whatever the
    parent of the key is (missing, a directory, a regular file, a link) -/
theorem removeM_absent {env : Env} {s : State} {p : Str} {k : FsPath}
    (ha : absM env p s = (.ok k, s)) (hk : alLookup k s.entries = none) :
    removeM env p s = (.ok (), s) := by
  rw [RefineB.removeM_eq]
  simp only [RefineB.bind_apply, ha]
  exact RefineB.removeK_absent hk

theorem step_remove_absent {env : Env} {s : State} {p : Str} {k : FsPath}
    (ha : absM env p s = (.ok k, s)) (hk : alLookup k s.entries = none) :
    step env s (.remove p) = (.ok .unit, s) := by
  show mapVal (fun _ => Val.unit) (removeM env p) s = _
  unfold mapVal
  rw [removeM_absent ha hk]

/-- `abs` never changes the state -/
theorem absM_snd (env : Env) (p : Str) (s : State) : (absM env p s).2 = s := by
  unfold absM; split <;> rfl

/-- what `absM … = (.ok k, s)` says about the string pipeline -/
theorem absWith_of_absM {env : Env} {s : State} {p : Str} {k : FsPath} (ha : absM env p s = (.ok k, s)) :
    ∃ a, absWith env (renderP s.cwd) p = .ok a ∧ toPath a = k := by
  unfold absM at ha
  cases h : absWith env (renderP s.cwd) p with
  | ok a => rw [h] at ha; exact ⟨a, rfl, by cases ha; rfl⟩
  | err e => rw [h] at ha; cases ha
  | panic => rw [h] at ha; cases ha
  | hang => rw [h] at ha; cases ha

/-! ### Stdfs -/

open Rivia.Stdfs Rivia.Posix Rivia.Lemmas.StdfsL in
/-- `Stdfs::remove`: when `symlink_metadata` of the resolved path fails (ANY errno: `ENOENT` for a missing
    path, `ENOTDIR` for a path below a regular file or a link to one, …) the call is `Ok(())` and the
    tree is unchanged.  No well-formedness hypothesis. -/
theorem stdfs_remove_lstat_err {env : Env} {t : T} {p : Str} {k : FsPath} {e : Errno}
    (ha : absK env t p = .ok k) (he : lstat t k = .error e) :
    Stdfs.step env t (.remove p) = (.ok .unit, t) := by
  simp only [Stdfs.step, Stdfs.remove]
  ssimp [ha, he]

open Rivia.Stdfs Rivia.Posix Rivia.Lemmas.StdfsL in
/-- in particular for a key that is not a node of the tree -/
theorem stdfs_remove_absent {env : Env} {t : T} {p : Str} {k : FsPath}
    (ha : absK env t p = .ok k) (hk : get t k = none) :
    Stdfs.step env t (.remove p) = (.ok .unit, t) := by
  obtain ⟨e, he⟩ := lstat_of_none hk
  exact stdfs_remove_lstat_err ha he

open Rivia.Stdfs Rivia.Lemmas.StdfsL in
/-- the Stdfs model started on the abstraction of a Memfs state whose cwd is a directory resolves user
    paths like Memfs does -/
theorem absK_absS {env : Env} {s : State} {p : Str} {k : FsPath}
    (ha : absM env p s = (.ok k, s)) (hc : isDirP s s.cwd = true) : absK env (absS s) p = .ok k := by
  obtain ⟨a, h1, h2⟩ := absWith_of_absM ha
  have hc' : isDir (absS s) (absS s).cwd = true := by
    rw [← RefineC.isDirP_eq_isDir]; exact hc
  unfold absK
  rw [absP_eq hc']
  show (match absWith env (renderP s.cwd) p with
    | .ok a => Outcome.ok (toPath a) | .err k => .err k | .panic => .panic | .hang => .hang) = _
  rw [h1]
  exact congrArg Outcome.ok h2

theorem get_absS_none {s : State} {k : FsPath} (hk : alLookup k s.entries = none) : get (absS s) k = none := by
  rw [RefineB.get_absS, hk]; rfl

end Rivia.Lemmas.RemoveMissing
