/-
  Rivia.Lemmas.File — helper lemmas for C07 (read/seek handles vs `std::io::Cursor`,
  write/append handles vs the concatenation of the chunks).
-/
import Rivia.Model.File
import Rivia.Spec.Cursor
namespace Rivia.Lemmas
open Rivia Rivia.File Rivia.Spec

/-- the cursor a read handle corresponds to (same as `Props.toCursor`) -/
def cur (f : MFile) : Cursor := ⟨f.pos, f.data⟩

/-- closed form of `File.read`: the early return for `k = 0` is not observable -/
theorem read_eq (f : MFile) (n : Nat) :
    File.read f n = ((f.data.drop f.pos).take n,
      { f with pos := f.pos + ((f.data.drop f.pos).take n).length }) := by
  obtain ⟨pos, data⟩ := f
  have hl : len ⟨pos, data⟩ = data.length - pos := rfl
  simp only [File.read]
  by_cases h : min n (len ⟨pos, data⟩) = 0
  · rw [if_pos h]
    have h1 : (data.drop pos).take n = [] := by
      rw [List.take_eq_nil_iff]
      rcases Nat.lt_or_ge 0 n with hn | hn
      · right; apply List.drop_eq_nil_of_le; omega
      · left; omega
    simp [h1]
  · rw [if_neg h]
    have h1 : (data.drop pos).take (min n (len ⟨pos, data⟩)) = (data.drop pos).take n := by
      rw [List.take_eq_take_iff]; simp [List.length_drop, hl]
    rw [hl] at h1
    simp only [hl, h1, List.length_take, List.length_drop]

theorem read_cursor (f : MFile) (n : Nat) :
    (File.read f n).1 = ((cur f).read n).1 ∧ cur (File.read f n).2 = ((cur f).read n).2 := by
  rw [read_eq]; exact ⟨rfl, rfl⟩

theorem readToEnd_cursor (f : MFile) :
    (File.readToEnd f).1 = ((cur f).readAll).1 ∧
      cur (File.readToEnd f).2 = ((cur f).readAll).2 := by
  simp [File.readToEnd, Cursor.readAll, cur, File.len, List.length_drop]

theorem seek_cursor (f : MFile) (w : Whence) (off : Int) :
    (File.seek f w off).map (fun r => (r.1, cur r.2)) = (cur f).seek w off := by
  obtain ⟨pos, data⟩ := f
  cases w
  · rfl
  · show (File.seek ⟨pos, data⟩ .current off).map _ = Cursor.seek ⟨pos, data⟩ .current off
    unfold File.seek Cursor.seek
    by_cases h : ((pos : Int) + off < 0 ∨ (pos : Int) + off ≥ 2 ^ 64)
    · simp only [if_pos h]; rfl
    · simp only [if_neg h]; rfl
  · show (File.seek ⟨pos, data⟩ .endw off).map _ = Cursor.seek ⟨pos, data⟩ .endw off
    unfold File.seek Cursor.seek
    by_cases h : ((data.length : Int) + off < 0 ∨ (data.length : Int) + off ≥ 2 ^ 64)
    · simp only [if_pos h]; rfl
    · simp only [if_neg h]; rfl

/-- `seek` returns a position or an error, never panics or hangs -/
theorem seek_ok_or_err (f : MFile) (w : Whence) (off : Int) :
    (∃ p f', File.seek f w off = .ok (p, f')) ∨ ∃ k, File.seek f w off = .err k := by
  cases w
  · exact .inl ⟨_, _, rfl⟩
  · simp only [File.seek]
    split
    · exact .inr ⟨_, rfl⟩
    · exact .inl ⟨_, _, rfl⟩
  · simp only [File.seek]
    split
    · exact .inr ⟨_, rfl⟩
    · exact .inl ⟨_, _, rfl⟩

theorem runOps_cursor (f : MFile) (ops : List HOp) :
    File.runOps f ops = Cursor.runOps (cur f) ops := by
  induction ops generalizing f with
  | nil => rfl
  | cons op ops ih =>
    cases op with
    | read n =>
      simp only [File.runOps, Cursor.runOps]
      rw [(read_cursor f n).1, ih, (read_cursor f n).2]
    | readAll =>
      simp only [File.runOps, Cursor.runOps]
      rw [(readToEnd_cursor f).1, ih, (readToEnd_cursor f).2]
    | seek w o =>
      simp only [File.runOps, Cursor.runOps]
      rw [← seek_cursor f w o]
      rcases seek_ok_or_err f w o with ⟨p, f', h⟩ | ⟨k, h⟩
      · rw [h]; simp only [Outcome.map]; rw [ih]
      · rw [h]; simp only [Outcome.map]; rw [ih]

theorem runOps_length (f : MFile) (ops : List HOp) : (File.runOps f ops).length = ops.length := by
  induction ops generalizing f with
  | nil => rfl
  | cons op ops ih =>
    cases op with
    | read n => simp only [File.runOps, List.length_cons, ih]
    | readAll => simp only [File.runOps, List.length_cons, ih]
    | seek w o =>
      simp only [File.runOps]
      rcases seek_ok_or_err f w o with ⟨p, f', h⟩ | ⟨k, h⟩
      · rw [h]; simp only [List.length_cons, ih]
      · rw [h]; simp only [List.length_cons, ih]

/-! ### write handles -/

theorem runW_data (h : WHandle) (st : Bytes) (ops : List WOp) :
    (runW h st ops).1.data = h.data ++ chunksOf ops := by
  induction ops generalizing h st with
  | nil => simp [runW, chunksOf]
  | cons op ops ih =>
    cases op with
    | write c => simp only [runW, chunksOf, ih, WHandle.write, List.append_assoc]
    | flush => simp only [runW, chunksOf, ih]

theorem runW_append (h : WHandle) (st : Bytes) (a b : List WOp) :
    runW h st (a ++ b) = runW (runW h st a).1 (runW h st a).2 b := by
  induction a generalizing h st with
  | nil => rfl
  | cons op a ih =>
    cases op with
    | write c => simp only [List.cons_append, runW, ih]
    | flush => simp only [List.cons_append, runW, ih]

theorem runW_flush_last (h : WHandle) (st : Bytes) (ops : List WOp) :
    (runW h st (ops ++ [.flush])).2 = h.data ++ chunksOf ops := by
  rw [runW_append]
  simp only [runW, WHandle.sync, runW_data]

theorem writeSession_eq (append : Bool) (stored : Bytes) (ops : List WOp) :
    writeSession append stored ops = (if append then stored else []) ++ chunksOf ops := by
  simp only [writeSession, WHandle.sync, runW_data]
  cases append <;> rfl

end Rivia.Lemmas
