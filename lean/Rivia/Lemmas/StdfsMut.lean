/-
  Rivia.Lemmas.StdfsMut — C02 §4 (continued): the mutating operations
  (`set_cwd`, `mkfile`, `write_all`, `append_all`, `remove`, `remove_all`, `symlink`).
-/
import Rivia.Lemmas.StdfsOps
import Rivia.Lemmas.Lines

namespace Rivia.Lemmas.StdfsL
open Rivia Rivia.Memfs Rivia.File Rivia.Spec Rivia.Spec.TreeFs Rivia.Posix Rivia.Stdfs
open Rivia.Lemmas.RefineA (TEquiv ResMatch get_put alLookup_alInsert mem_of_alLookup)
open Rivia.Stdfs.SM

variable {env : Env} {t : T}

/-! ### tree algebra -/

theorem alInsert_alInsert {β} (k : FsPath) (a b : β) (l : List (FsPath × β)) :
    alInsert k b (alInsert k a l) = alInsert k b l := by
  induction l with
  | nil => simp [alInsert]
  | cons kv r ih =>
    obtain ⟨k0, v0⟩ := kv
    by_cases h0 : k0 = k
    · simp [alInsert, h0]
    · simp [alInsert, h0, ih]

theorem put_put (t : T) (k : FsPath) (a b : Node) : put (put t k a) k b = put t k b := by
  simp only [put, alInsert_alInsert]

theorem alLookup_none_of_not_mem {β} {k : FsPath} {l : List (FsPath × β)}
    (h : k ∉ l.map (·.1)) : alLookup k l = none := by
  induction l with
  | nil => rfl
  | cons kv r ih =>
    obtain ⟨k0, v0⟩ := kv
    simp only [List.map_cons, List.mem_cons, not_or] at h
    simp [alLookup, Ne.symm h.1, ih h.2]

theorem alLookup_isSome_of_mem {β} {k : FsPath} {l : List (FsPath × β)}
    (h : k ∈ l.map (·.1)) : ∃ v, alLookup k l = some v := by
  induction l with
  | nil => simp at h
  | cons kv r ih =>
    obtain ⟨k0, v0⟩ := kv
    by_cases h0 : k0 = k
    · exact ⟨v0, by simp [alLookup, h0]⟩
    · simp only [List.map_cons, List.mem_cons] at h
      rcases h with h1 | h1
      · exact absurd h1.symm h0
      · obtain ⟨v, hv⟩ := ih h1
        exact ⟨v, by simp [alLookup, h0, hv]⟩

theorem alLookup_alErase_ne {β} {k k' : FsPath} (h : k' ≠ k) (l : List (FsPath × β)) :
    alLookup k' (alErase k l) = alLookup k' l := by
  induction l with
  | nil => rfl
  | cons kv r ih =>
    obtain ⟨k0, v0⟩ := kv
    by_cases h0 : k0 = k
    · subst h0; simp [alErase, alLookup, Ne.symm h]
    · by_cases h1 : k0 = k'
      · subst h1; simp [alErase, alLookup, h]
      · simp [alErase, alLookup, h0, h1, ih]

theorem alLookup_alErase_self {β} (k : FsPath) {l : List (FsPath × β)} (h : (l.map (·.1)).Nodup) :
    alLookup k (alErase k l) = none := by
  induction l with
  | nil => rfl
  | cons kv r ih =>
    obtain ⟨k0, v0⟩ := kv
    simp only [List.map_cons, List.nodup_cons] at h
    by_cases h0 : k0 = k
    · subst h0; simp only [alErase, if_true]; exact alLookup_none_of_not_mem h.1
    · simp [alErase, alLookup, h0, ih h.2]

theorem get_del {t : T} (h : WfFacts t) (k q : FsPath) :
    get (del t k) q = if q = k then none else get t q := by
  unfold TreeFs.get del
  by_cases hq : q = k
  · subst hq; simp only [if_true]; exact alLookup_alErase_self q h.nodup
  · simp only [hq, if_false]; exact alLookup_alErase_ne hq _

theorem alLookup_filter_key {β} (f : FsPath → Bool) (q : FsPath) (l : List (FsPath × β)) :
    alLookup q (l.filter (fun kv => f kv.1)) = if f q then alLookup q l else none := by
  induction l with
  | nil => simp [alLookup]
  | cons kv r ih =>
    obtain ⟨k0, v0⟩ := kv
    simp only [List.filter_cons]
    by_cases hf : f k0 = true
    · simp only [hf, if_true, alLookup]
      by_cases h0 : k0 = q
      · subst h0; simp [hf]
      · simp only [h0, if_false, ih]
    · simp only [hf, Bool.false_eq_true, if_false, ih, alLookup]
      by_cases h0 : k0 = q
      · subst h0; simp [hf]
      · simp [h0]

/-- an existing key has only directories above it -/
theorem ancestor_isDir {t : T} (h : WfFacts t) {a q : FsPath} {n : Node} (hq : get t q = some n)
    (hp : isProperPrefix a q = true) : isDir t a = true := by
  unfold isProperPrefix at hp
  simp only [Bool.and_eq_true, decide_eq_true_eq, beq_iff_eq] at hp
  have hne : q ≠ [] := by intro h0; subst h0; simp at hp
  have hpar := h.parent q n hq hne
  have := wf_take_dir h _ q.dropLast rfl hpar a.length
  rw [List.dropLast_eq_take, List.take_take] at this
  have hmin : min a.length (q.length - 1) = a.length := by omega
  rw [hmin, hp.2] at this
  exact this

theorem below_eq_nil_of_not_dir {t : T} (h : WfFacts t) {a : FsPath} (hd : isDir t a = false) :
    below t a = [] := by
  unfold below
  rw [List.filter_eq_nil_iff]
  intro q hq hp
  obtain ⟨n, hn⟩ := alLookup_isSome_of_mem hq
  have := ancestor_isDir h (q := q) hn hp
  rw [this] at hd
  cases hd

/-! ### set_cwd -/

theorem sim_setCwd (h : Ctx env t) (p : Str) :
    Sim (Stdfs.step env t (.setCwd p)) (withPath env t p fun a => liftR .path (TreeFs.setCwd t a)) := by
  simp only [Stdfs.step, Stdfs.setCwd]
  refine sim_withPath h.cwd p _ _ _ ?_
  intro a _
  ssimp [chdir, TreeFs.setCwd, linkFuel]
  cases hg : get t a with
  | none =>
    simp only [liftR]
    rcases followFinal_missing hg 39 with hf | ⟨e, hf⟩
    · simp only [hf, hg]; exact sim_err _ _ (TEquiv.refl _)
    · simp only [hf]; exact sim_err _ _ (TEquiv.refl _)
  | some n =>
    cases hk : n.kind with
    | dir =>
      simp only [followFinal_nonlink h.wf hg (by simp [hk, isLinkKind]), hg, hk, if_true, liftR]
      exact sim_same (by simp)
    | file =>
      simp only [followFinal_nonlink h.wf hg (by simp [hk, isLinkKind]), hg, hk, liftR]
      simp only [reduceCtorEq, if_false]
      exact sim_err _ _ (TEquiv.refl _)
    | link b =>
      cases b with
      | true => simp only [hk, reduceCtorEq, if_true, if_false, liftR]; exact sim_unspec _ _
      | false =>
        obtain ⟨tg, m, _, h2, _, h4, h5⟩ := followFinal_link h.wf h.links hg hk 38
        have hm : ¬ m.kind = .dir := by simpa using h4
        simp only [h5, h2, hm, hk, reduceCtorEq, if_false, liftR, Kind.link.injEq, Bool.false_eq_true]
        exact sim_err _ _ (TEquiv.refl _)

/-! ### File::create on a well-formed tree -/

theorem applyUmask_666 : ({ newFile with perm := applyUmask 0o666 } : Node) = newFile := by decide

theorem createFile_missing (h : Ctx env t) {k : FsPath} (hne : k ≠ []) (hg : get t k = none)
    (hd : isDir t k.dropLast = true) : createFile t k = .ok (k, put t k newFile) := by
  have hw : walkErr t k = none := (walkErr_none_iff h.wf k).2 (Or.inr hd)
  unfold createFile linkFuel
  rw [followFinal_missing_ok hg hw]
  simp only [hne, if_false, hg, applyUmask_666]

theorem ne_nil_of_not_dir (h : Ctx env t) {k : FsPath} {n : Node} (hg : get t k = some n)
    (hk : n.kind ≠ .dir) : k ≠ [] := by
  intro h0; subst h0; exact hk (root_not_link h hg)

theorem createFile_file (h : Ctx env t) {k : FsPath} {n : Node} (hg : get t k = some n)
    (hk : n.kind = .file) : createFile t k = .ok (k, put t k { n with data := [] }) := by
  have hne : k ≠ [] := ne_nil_of_not_dir h hg (by simp [hk])
  unfold createFile linkFuel
  rw [followFinal_nonlink h.wf hg (by simp [hk, isLinkKind])]
  simp only [hne, if_false, hg, hk, if_true]

theorem parentCheck_cases (t : T) {k : FsPath} (hne : k ≠ []) :
    (isDir t k.dropLast = true ∧ parentCheck t k = none) ∨
    (isDir t k.dropLast = false ∧ ∃ e, parentCheck t k = some e) := by
  unfold parentCheck isDir
  simp only [hne, if_false]
  cases get t k.dropLast with
  | none => right; exact ⟨rfl, _, rfl⟩
  | some n =>
    by_cases hk : n.kind = .dir
    · left; simp [hk]
    · right; simp [hk]

/-! ### mkfile -/

/-- `Stdfs::mkfile` after `abs` -/
def mkfileK (k : FsPath) : SM FsPath := do
  let d ← Stdfs.dirOf k
  let t ← getT
  match lstat t d with
  | .ok n => if n.kind ≠ .dir then SM.fail .isNotDir else SM.pure ()
  | .error _ => SM.fail .doesNotExist
  match lstat t k with
  | .ok n => if n.kind ≠ .file then SM.fail .isNotFile else SM.pure ()
  | .error _ => sysM (fun t => (createFile t k).map (·.2))
  return k

theorem mkfile_eq (p : Str) : Stdfs.mkfile env p = Stdfs.absM env p >>= mkfileK := rfl

theorem lstat_dir_cases (h : Ctx env t) (d : FsPath) :
    (isDir t d = true ∧ ∃ n, lstat t d = .ok n ∧ n.kind = .dir) ∨
    (isDir t d = false ∧ ((∃ n, lstat t d = .ok n ∧ n.kind ≠ .dir) ∨ ∃ e, lstat t d = .error e)) := by
  cases hg : get t d with
  | none =>
    right; refine ⟨by unfold isDir; rw [hg], Or.inr (lstat_of_none hg)⟩
  | some n =>
    by_cases hk : n.kind = .dir
    · left; exact ⟨isDir_of_get hg hk, n, lstat_of_get h.wf hg, hk⟩
    · right; refine ⟨by unfold isDir; simp [hg, hk], Or.inl ⟨n, lstat_of_get h.wf hg, hk⟩⟩

/-- what `mkfile` does to a key, case by case -/
theorem mkfileK_cases (h : Ctx env t) (k : FsPath) :
    (k = [] ∧ ∃ e, mkfileK k t = (.err e, t)) ∨
    (k ≠ [] ∧ isDir t k.dropLast = false ∧ ∃ e, mkfileK k t = (.err e, t)) ∨
    (k ≠ [] ∧ isDir t k.dropLast = true ∧
      ((∃ n, get t k = some n ∧ n.kind = .file ∧ mkfileK k t = (.ok k, t)) ∨
       (∃ n, get t k = some n ∧ n.kind ≠ .file ∧ ∃ e, mkfileK k t = (.err e, t)) ∨
       (get t k = none ∧ mkfileK k t = (.ok k, put t k newFile)))) := by
  by_cases hne : k = []
  · left; refine ⟨hne, .parentNotFound, ?_⟩
    subst hne; rfl
  · right
    unfold mkfileK
    ssimp [hne]
    rcases lstat_dir_cases h k.dropLast with ⟨hd, n, hl, hk⟩ | ⟨hd, ⟨n, hl, hk⟩ | ⟨e, hl⟩⟩
    · right; refine ⟨hne, hd, ?_⟩
      ssimp [hl, hk, ne_eq, not_true_eq_false]
      cases hg : get t k with
      | none =>
        right; right
        obtain ⟨e, he⟩ := lstat_of_none hg
        refine ⟨rfl, ?_⟩
        ssimp [he, createFile_missing h hne hg hd, Except.map]
      | some m =>
        by_cases hm : m.kind = .file
        · left; refine ⟨m, rfl, hm, ?_⟩
          ssimp [lstat_of_get h.wf hg, hm, ne_eq, not_true_eq_false]
        · right; left; refine ⟨m, rfl, hm, .isNotFile, ?_⟩
          ssimp [lstat_of_get h.wf hg, hm, ne_eq, not_false_eq_true]
    · left; refine ⟨hne, hd, .isNotDir, ?_⟩
      ssimp [hl, hk, ne_eq, not_false_eq_true]
    · left; refine ⟨hne, hd, .doesNotExist, ?_⟩
      ssimp [hl]

theorem sim_mkfile (h : Ctx env t) (p : Str) :
    Sim (Stdfs.step env t (.mkfile p)) (withPath env t p fun a => liftR .path (TreeFs.mkfile t a)) := by
  simp only [Stdfs.step, mkfile_eq]
  refine sim_withPath h.cwd p _ _ _ ?_
  intro a _
  unfold TreeFs.mkfile Stdfs.mapVal
  rcases mkfileK_cases h a with ⟨h0, e, he⟩ | ⟨hne, hd, e, he⟩ | ⟨hne, hd, hc⟩
  · simp only [h0, if_true, liftR]; exact sim_unspec _ _
  · rcases parentCheck_cases t hne with ⟨hd', _⟩ | ⟨_, e', hp⟩
    · rw [hd] at hd'; cases hd'
    · simp only [hne, if_false, hp, liftR, he]; exact sim_err _ _ (TEquiv.refl _)
  · rcases parentCheck_cases t hne with ⟨_, hp⟩ | ⟨hd', _⟩
    · simp only [hne, if_false, hp]
      rcases hc with ⟨n, hg, hk, hm⟩ | ⟨n, hg, hk, e, hm⟩ | ⟨hg, hm⟩
      · simp only [hg, hk, if_true, liftR, hm]; exact sim_same (by simp)
      · simp only [hg, hk, if_false, liftR, hm]; exact sim_err _ _ (TEquiv.refl _)
      · simp only [hg, liftR, hm]; exact sim_same (by simp)
    · rw [hd] at hd'; cases hd'

/-! ### write_all / append_all -/

theorem writeFd_put (t : T) (k : FsPath) (x : Node) (d : Bytes) :
    writeFd (put t k x) k d = put t k { x with data := x.data ++ d } := by
  unfold writeFd
  rw [get_put_self]
  simp only [put_put]

theorem isSome_of_isDir {t : T} {k : FsPath} (h : isDir t k = true) : (get t k).isSome = true := by
  obtain ⟨n, hn, _⟩ := isDir_iff.1 h
  rw [hn]; rfl

theorem sim_writeAll (h : Ctx env t) (p : Str) (d : Bytes) :
    Sim (Stdfs.step env t (.writeAll p d))
      (withPath env t p fun a => liftR (fun _ => .unit) (TreeFs.writeAll t a d false)) := by
  simp only [Stdfs.step, Stdfs.writeAll]
  refine sim_withPath h.cwd p _ _ _ ?_
  intro a _
  unfold TreeFs.writeAll
  by_cases hne : a = []
  · subst hne; ssimp [liftR]; exact sim_err _ _ (TEquiv.refl _)
  · ssimp [hne, exists_eq_isSome h.wf h.links, isDirK_eq h.wf, isFileK_eq h.wf]
    rcases parentCheck_cases t hne with ⟨hd, hp⟩ | ⟨hd, e, hp⟩
    · simp only [hp, isSome_of_isDir hd, hd]
      ssimp
      cases hg : get t a with
      | none =>
        ssimp [Option.isSome_none, Bool.false_and, createFile_missing h hne hg hd, writeFd_put, liftR]
        exact sim_same (by simp)
      | some n =>
        by_cases hk : n.kind = .file
        · have hf : isFile t a = true := by unfold isFile; simp [hg, hk]
          ssimp [Option.isSome_some, hf, Bool.and_false, createFile_file h hg hk, writeFd_put, hk, liftR]
          exact sim_same (by simp)
        · have hf : isFile t a = false := by unfold isFile; simp [hg, hk]
          ssimp [Option.isSome_some, hf, Bool.and_self, hk]
          split <;> exact sim_err _ _ (TEquiv.refl _)
    · simp only [hp, hd, liftR]
      cases (get t a.dropLast).isSome <;> ssimp <;> exact sim_err _ _ (TEquiv.refl _)

theorem absK_congr (t t' : T) (hc : t'.cwd = t.cwd) (hd : isDir t' t'.cwd = isDir t t.cwd) (p : Str) :
    absK env t' p = absK env t p := by
  unfold absK absP
  rw [hd, hc]

theorem isDir_put_new {t : T} {k q : FsPath} {x : Node} (hk : get t k = none) (hq : isDir t q = true) :
    isDir (put t k x) q = true := by
  obtain ⟨n, hn, hkd⟩ := isDir_iff.1 hq
  have hne : k ≠ q := by intro h0; subst h0; rw [hk] at hn; cases hn
  exact isDir_iff.2 ⟨n, by rw [get_put, if_neg hne]; exact hn, hkd⟩

theorem openAppend_file (h : Ctx env t) {k : FsPath} {n : Node} (hg : get t k = some n)
    (hk : n.kind = .file) : Posix.openAppend t k = .ok k := by
  unfold Posix.openAppend linkFuel
  rw [followFinal_nonlink h.wf hg (by simp [hk, isLinkKind])]
  simp only [hg, hk, if_true]

theorem followFinal_nonlink' {t : T} {k : FsPath} {n : Node} (hw : walkErr t k = none)
    (hg : get t k = some n) (hk : isLinkKind n.kind = false) (f : Nat) :
    followFinal t (f + 1) k = .ok k := by
  simp only [followFinal, hw, hg]
  cases hkk : n.kind with
  | link b => simp [hkk, isLinkKind] at hk
  | dir => rfl
  | file => rfl

/-- `open(O_APPEND)` of the file `mkfile` has just created -/
theorem openAppend_new (h : Ctx env t) {k : FsPath} (_hne : k ≠ []) (hg : get t k = none)
    (hd : isDir t k.dropLast = true) : Posix.openAppend (put t k newFile) k = .ok k := by
  have hd' : isDir (put t k newFile) k.dropLast = true := isDir_put_new hg hd
  obtain ⟨n, hn, hnk⟩ := isDir_iff.1 hd'
  -- the walk to `k` only looks at proper prefixes, which `put` at `k` leaves alone
  have hw : walkErr (put t k newFile) k = none := by
    unfold walkErr
    rw [walkFrom_none_iff]
    intro i hi
    have hw0 : walkErr t k = none := (walkErr_none_iff h.wf k).2 (Or.inr hd)
    unfold walkErr at hw0
    rw [walkFrom_none_iff] at hw0
    exact isDir_put_new hg (hw0 i hi)
  unfold Posix.openAppend linkFuel
  rw [followFinal_nonlink' hw (get_put_self t k newFile) rfl]
  simp only [get_put_self]
  rfl

theorem sim_appendAll (h : Ctx env t) (p : Str) (d : Bytes) :
    Sim (Stdfs.step env t (.appendAll p d))
      (withPath env t p fun a => liftR (fun _ => .unit) (TreeFs.writeAll t a d true)) := by
  simp only [Stdfs.step, Stdfs.appendAll, mkfile_eq]
  unfold withPath Stdfs.mapVal
  simp only [SM_bind_apply, Stdfs.absM, absK_eq h.cwd]
  cases hr : resolve env t p with
  | ok a =>
    dsimp only
    unfold TreeFs.writeAll
    rcases mkfileK_cases h a with ⟨h0, e, he⟩ | ⟨hne, hd, e, he⟩ | ⟨hne, hd, hc⟩
    · rw [he]; simp only [h0, if_true, liftR]; exact sim_err _ _ (TEquiv.refl _)
    · rcases parentCheck_cases t hne with ⟨hd', _⟩ | ⟨_, e', hp⟩
      · rw [hd] at hd'; cases hd'
      · rw [he]; simp only [hne, if_false, hp, liftR]; exact sim_err _ _ (TEquiv.refl _)
    · rcases parentCheck_cases t hne with ⟨_, hp⟩ | ⟨hd', _⟩
      · simp only [hne, if_false, hp]
        rcases hc with ⟨n, hg, hk, hm⟩ | ⟨n, hg, hk, e, hm⟩ | ⟨hg, hm⟩
        · rw [hm]
          simp only [absK_eq h.cwd, hr, openAppend_file h hg hk, hg, hk, if_true, liftR]
          unfold writeFd
          rw [hg]; simp only [hk]
          exact sim_same (by simp)
        · rw [hm]
          by_cases hkd : n.kind = .dir <;> simp only [hg, hk, hkd, if_false, if_true, liftR] <;>
            exact sim_err _ _ (TEquiv.refl _)
        · have hcw : isDir (put t a newFile) (put t a newFile).cwd = isDir t t.cwd := by
            rw [h.cwd]; exact isDir_put_new hg h.cwd
          rw [hm]
          simp only [absK_congr t (put t a newFile) rfl hcw, absK_eq h.cwd, hr,
            openAppend_new h hne hg hd, writeFd_put, hg, liftR]
          exact sim_same (by simp)
      · rw [hd] at hd'; cases hd'
  | err e => exact sim_err _ _ (TEquiv.refl _)
  | panic => exact sim_unspec _ _
  | hang => exact sim_unspec _ _

/-! ### remove -/

theorem isDir_false_of_kind {t : T} {a : FsPath} {n : Node} (hg : get t a = some n) (hk : n.kind ≠ .dir) :
    isDir t a = false := by
  unfold isDir; simp [hg, hk]

theorem sim_remove (h : Ctx env t) (p : Str) :
    Sim (Stdfs.step env t (.remove p))
      (withPath env t p fun a => liftR (fun _ => .unit) (TreeFs.remove t a)) := by
  simp only [Stdfs.step, Stdfs.remove]
  refine sim_withPath h.cwd p _ _ _ ?_
  intro a _
  unfold TreeFs.remove
  ssimp
  cases hg : get t a with
  | none =>
    obtain ⟨e, he⟩ := lstat_of_none hg
    simp only [he]
    by_cases hne : a = []
    · simp only [hne, if_true, liftR]; exact sim_unspec _ _
    · simp only [hne, if_false]
      cases get t a.dropLast with
      | none => exact sim_same (by simp)
      | some m =>
        by_cases hm : m.kind = .dir
        · simp only [hm, if_true, liftR]; exact sim_same (by simp)
        · simp only [hm, if_false, liftR]; exact sim_unspec _ _
  | some n =>
    have hw := walkErr_of_get h.wf hg
    simp only [lstat_of_get h.wf hg]
    by_cases hk : n.kind = .dir
    · simp only [hk, ne_eq, not_true_eq_false, if_false, rmdir]
      by_cases hne : a = []
      · simp only [hne, if_true, liftR]; exact sim_err _ _ (TEquiv.refl _)
      · simp only [hne, if_false, hw, hg, hk, not_true_eq_false]
        cases hb : (below t a).isEmpty with
        | true => simp only [Bool.not_true, Bool.false_eq_true, if_false, if_true, liftR]; exact sim_same (by simp)
        | false => simp only [Bool.not_false, if_true, Bool.false_eq_true, if_false, liftR]; exact sim_err _ _ (TEquiv.refl _)
    · have hne : a ≠ [] := ne_nil_of_not_dir h hg hk
      have hb : below t a = [] := below_eq_nil_of_not_dir h.wf (isDir_false_of_kind hg hk)
      simp only [hk, ne_eq, not_false_eq_true, if_true, hne, if_false, hb, List.isEmpty_nil, liftR]
      ssimp [unlink, hne, hw, hg, hk]
      exact sim_same (by simp)

/-! ### symlink -/

theorem resolve_cases (env : Env) (t : T) (p : Str) :
    (∃ a, resolve env t p = .ok a) ∨ (∃ e, resolve env t p = .err e) := by
  have := Rivia.Lemmas.absWith_total env (renderP t.cwd) p
  unfold resolve
  cases hr : absWith env (renderP t.cwd) p with
  | ok a => exact Or.inl ⟨_, rfl⟩
  | err e => exact Or.inr ⟨_, rfl⟩
  | panic => rw [hr] at this; exact absurd rfl this.1
  | hang => rw [hr] at this; exact absurd rfl this.2

/-- what `stat(target).is_dir()` records = what the reference records -/
theorem statIsDir_eq (h : Ctx env t) (tg : FsPath) :
    statIsDir t tg = (match get t tg with
      | some n => decide (n.kind = .dir) || decide (n.kind = .link true)
      | none => false) := by
  unfold statIsDir
  cases hg : get t tg with
  | none => obtain ⟨e, he⟩ := stat_missing hg; rw [he]
  | some n =>
    cases hk : n.kind with
    | dir => rw [stat_nonlink h.wf hg (by simp [hk, isLinkKind])]; simp [hk]
    | file => rw [stat_nonlink h.wf hg (by simp [hk, isLinkKind])]; simp [hk]
    | link b =>
      obtain ⟨_, m, _, _, _, h4, hs⟩ := stat_link h.wf h.links hg hk
      rw [hs]; simp only [hk, reduceCtorEq, decide_false, Bool.false_or, Kind.link.injEq]
      rw [h4]; cases decide (m.kind = Kind.dir) <;> rfl

/-- `symlinkat` on a well-formed tree -/
theorem symlinkat_cases (h : Ctx env t) (l tg : FsPath) :
    (symlinkat t l tg = .ok (put t l ⟨.link (statIsDir t tg), 0o777, 1000, 1000, some tg, []⟩) ∧
      l ≠ [] ∧ isDir t l.dropLast = true ∧ get t l = none) ∨
    ((∃ e, symlinkat t l tg = .error e) ∧ (l = [] ∨ isDir t l.dropLast = false ∨ (get t l).isSome = true)) := by
  unfold symlinkat
  by_cases hne : l = []
  · right; simp [hne]
  · simp only [hne, if_false]
    by_cases hd : isDir t l.dropLast = true
    · rw [(walkErr_none_iff h.wf l).2 (Or.inr hd)]
      cases hg : get t l with
      | none => left; exact ⟨rfl, hne, hd, rfl⟩
      | some n => right; simp
    · right
      have hd' : isDir t l.dropLast = false := by simpa using hd
      cases hw : walkErr t l with
      | none =>
        rcases (walkErr_none_iff h.wf l).1 hw with h0 | h0
        · exact absurd h0 hne
        · rw [h0] at hd'; cases hd'
      | some e => exact ⟨⟨e, rfl⟩, Or.inr (Or.inl hd')⟩

/-- `Stdfs::symlink` once the link is resolved and the target string is chosen -/
def symlinkK (env : Env) (la : FsPath) (tstr : Str) : SM FsPath := do
  let tg ← Stdfs.absM env tstr
  let _ ← Stdfs.dirOf la
  sysM (symlinkat · la tg)
  return la

theorem sim_symlinkK (h : Ctx env t) {la : FsPath} (hne : la ≠ []) (tstr : Str) :
    Sim (Stdfs.mapVal Val.path (symlinkK env la tstr) t)
      (if la = [] ∨ (get t la).isSome then (.err none, t) else
        withPath env t tstr fun ta => liftR .path (TreeFs.symlink t la ta)) := by
  unfold symlinkK
  by_cases hex : (get t la).isSome = true
  · -- the link path exists: `symlinkat` fails whatever the target resolves to
    simp only [hex, or_true, if_true]
    ssimp [absK_eq h.cwd, hne]
    rcases resolve_cases env t tstr with ⟨a, ha⟩ | ⟨e, ha⟩
    · simp only [ha]
      rcases symlinkat_cases h la a with ⟨_, _, _, hg⟩ | ⟨⟨e, he⟩, _⟩
      · rw [hg] at hex; cases hex
      · simp only [he]; exact sim_err _ _ (TEquiv.refl _)
    · simp only [ha]; exact sim_err _ _ (TEquiv.refl _)
  · simp only [hne, hex]
    refine sim_withPath h.cwd _ _ _ _ ?_
    intro ta _
    ssimp [hne]
    unfold TreeFs.symlink
    simp only [hne, if_false]
    rcases symlinkat_cases h la ta with ⟨hok, _, hd, hg⟩ | ⟨⟨e, he⟩, hwhy⟩
    · rcases parentCheck_cases t hne with ⟨_, hp⟩ | ⟨hd', _⟩
      · simp only [hok, hp, hg, liftR, statIsDir_eq h]
        exact sim_same (by simp)
      · rw [hd] at hd'; cases hd'
    · simp only [he]
      rcases hwhy with h0 | hd | hs
      · exact absurd h0 hne
      · rcases parentCheck_cases t hne with ⟨hd', _⟩ | ⟨_, e', hp⟩
        · rw [hd] at hd'; cases hd'
        · simp only [hp, liftR]; exact sim_err _ _ (TEquiv.refl _)
      · exact absurd hs hex

theorem sim_symlink (h : Ctx env t) (l tg : Str) :
    Sim (Stdfs.step env t (.symlink l tg)) (withPath env t l fun la =>
      if la = [] ∨ (get t la).isSome then (.err none, t) else
      let tstr := if isAbsolute tg then tg else mash (renderP la.dropLast) tg
      withPath env t tstr fun ta => liftR .path (TreeFs.symlink t la ta)) := by
  simp only [Stdfs.step, Stdfs.symlink]
  refine sim_withPath h.cwd l _ _ _ ?_
  intro la _
  by_cases hne : la = []
  · -- `link.dir()?` fails for `/`, before or after the target is resolved
    subst hne
    simp only [true_or, if_true]
    by_cases habs : isAbsolute tg = true
    · ssimp [habs, absK_eq h.cwd]
      rcases resolve_cases env t tg with ⟨a, ha⟩ | ⟨e, ha⟩ <;> simp only [ha] <;>
        exact sim_err _ _ (TEquiv.refl _)
    · ssimp [habs]
      exact sim_err _ _ (TEquiv.refl _)
  · by_cases habs : isAbsolute tg = true
    · simp only [habs, if_true]
      exact sim_symlinkK h hne tg
    · have key := sim_symlinkK h hne (mash (renderP la.dropLast) tg)
      unfold symlinkK at key
      simp only [habs, Bool.false_eq_true, if_false, Stdfs.dirOf, hne] at key ⊢
      exact key

/-! ### remove_all -/

theorem isPrefixOrEq_iff (a q : FsPath) :
    isPrefixOrEq a q = true ↔ (q = a ∨ isProperPrefix a q = true) := by
  unfold isPrefixOrEq isProperPrefix
  simp only [Bool.and_eq_true, decide_eq_true_eq, beq_iff_eq]
  constructor
  · rintro ⟨h1, h2⟩
    by_cases hl : a.length = q.length
    · left; rw [← h2, hl, List.take_length]
    · right; exact ⟨by omega, h2⟩
  · rintro (h | ⟨h1, h2⟩)
    · subst h; simp
    · exact ⟨by omega, h2⟩

/-- nothing exists below a key that is not a directory -/
theorem get_below_none {t : T} (h : WfFacts t) {a q : FsPath} (hd : isDir t a = false)
    (hp : isProperPrefix a q = true) : get t q = none := by
  cases hg : get t q with
  | none => rfl
  | some n => rw [ancestor_isDir h hg hp] at hd; cases hd

theorem get_filter_prefix (t : T) (a q : FsPath) :
    get { t with nodes := t.nodes.filter (fun kv => !(isPrefixOrEq a kv.1)) } q =
      if isPrefixOrEq a q = true then none else get t q := by
  unfold TreeFs.get
  simp only
  rw [alLookup_filter_key (fun k => !(isPrefixOrEq a k))]
  cases isPrefixOrEq a q <;> simp

/-- removing the subtree of a key that is not a directory = removing the key -/
theorem tequiv_filter_nonDir {t : T} (h : WfFacts t) {a : FsPath} (hd : isDir t a = false) (t0 : T)
    (hc : t0.cwd = t.cwd) (h0 : ∀ q, get t0 q = if q = a then none else get t q) :
    TEquiv t0 { t with nodes := t.nodes.filter (fun kv => !(isPrefixOrEq a kv.1)) } := by
  refine ⟨hc, fun q => ?_⟩
  rw [get_filter_prefix, h0]
  by_cases hq : q = a
  · subst hq
    have : isPrefixOrEq q q = true := (isPrefixOrEq_iff q q).2 (Or.inl rfl)
    simp [this]
  · simp only [hq, if_false]
    by_cases hp : isPrefixOrEq a q = true
    · rcases (isPrefixOrEq_iff a q).1 hp with h1 | h1
      · exact absurd h1 hq
      · simp only [hp, if_true]; exact get_below_none h hd h1
    · simp only [hp]; rfl

theorem sim_removeAll (h : Ctx env t) (p : Str) :
    Sim (Stdfs.step env t (.removeAll p))
      (withPath env t p fun a => liftR (fun _ => .unit) (TreeFs.removeAll t a)) := by
  simp only [Stdfs.step, Stdfs.removeAll]
  refine sim_withPath h.cwd p _ _ _ ?_
  intro a _
  unfold TreeFs.removeAll
  by_cases hne : a = []
  · simp only [hne, if_true, liftR]; exact sim_unspec _ _
  · ssimp [hne, liftR]
    cases hg : get t a with
    | none =>
      obtain ⟨e, he⟩ := lstat_of_none hg
      ssimp [he]
      refine ⟨by simp, fun _ => ?_⟩
      exact tequiv_filter_nonDir h.wf (by unfold isDir; rw [hg]) t rfl
        (fun q => by by_cases hq : q = a <;> simp [hq, hg])
    | some n =>
      by_cases hk : n.kind = .dir
      · ssimp [lstat_of_get h.wf hg, hk, removeDirAll, hne]
        exact sim_same (by simp)
      · have hw := walkErr_of_get h.wf hg
        ssimp [lstat_of_get h.wf hg, hk, unlink, hne, hw, hg]
        refine ⟨by simp, fun _ => ?_⟩
        exact tequiv_filter_nonDir h.wf (isDir_false_of_kind hg hk) (del t a) rfl
          (fun q => get_del h.wf a q)

/-! ### write_lines / append_lines / append_line -/

theorem joinLines_some {ls : List Str} (h : (joinLines ls).isSome = true) :
    joinLines ls = some (ls.flatMap (fun l => utf8 l ++ [10])) := by
  have hne : Str.joinWith '\n' ls ≠ [] := by
    intro h0; rw [Rivia.Lemmas.joinLines_eq, if_pos h0] at h; cases h
  exact Rivia.Lemmas.joinLines_of_ne hne

theorem sim_writeLines (h : Ctx env t) (p : Str) (ls : List Str) (hdom : (joinLines ls).isSome = true) :
    Sim (Stdfs.step env t (.writeLines p ls)) (withPath env t p fun a =>
      liftR (fun _ => .unit) (TreeFs.writeAll t a (ls.flatMap (fun l => utf8 l ++ [10])) false)) := by
  simp only [Stdfs.step, Stdfs.writeLines, joinLines_some hdom]
  exact sim_writeAll h p _

theorem sim_appendLines (h : Ctx env t) (p : Str) (ls : List Str) (hdom : (joinLines ls).isSome = true) :
    Sim (Stdfs.step env t (.appendLines p ls)) (withPath env t p fun a =>
      liftR (fun _ => .unit) (TreeFs.writeAll t a (ls.flatMap (fun l => utf8 l ++ [10])) true)) := by
  simp only [Stdfs.step, Stdfs.appendLines, joinLines_some hdom]
  exact sim_appendAll h p _

theorem sim_appendLine (h : Ctx env t) (p : Str) (l : Str) (hdom : l ≠ []) :
    Sim (Stdfs.step env t (.appendLine p l)) (withPath env t p fun a =>
      liftR (fun _ => .unit) (TreeFs.writeAll t a (utf8 l ++ [10]) true)) := by
  simp only [Stdfs.step, Stdfs.appendLine, hdom, if_false]
  exact sim_appendAll h p _

/-! ### read_lines -/

theorem stripCr_eq (l : Str) :
    Rivia.Lemmas.stripCr l = (if l.getLast? = some '\r' then l.dropLast else l) := by
  unfold Rivia.Lemmas.stripCr
  split
  · rename_i r hr
    have hl : l = r.reverse ++ ['\r'] := by
      have := congrArg List.reverse hr
      simpa using this
    subst hl; simp
  · rename_i hno
    have : l.getLast? ≠ some '\r' := by
      intro hg
      rw [List.getLast?_eq_head?_reverse] at hg
      cases hr : l.reverse with
      | nil => rw [hr] at hg; cases hg
      | cons c r =>
        rw [hr] at hg; simp only [List.head?_cons, Option.some.injEq] at hg
        subst hg; exact hno r hr
    rw [if_neg this]

/-- `BufRead::lines` as transcribed = the reference's description of "the lines of a text" -/
theorem splitLines_eq_specLines (s : Str) : splitLines s = specLines s := by
  rw [Rivia.Lemmas.splitLines_eq]
  unfold specLines
  simp only
  generalize Str.splitOn '\n' s = ps
  cases hr : ps.reverse with
  | nil =>
    have : ps = [] := by simpa using hr
    subst this; rfl
  | cons lastp initRev =>
    have hp : ps = initRev.reverse ++ [lastp] := by
      have := congrArg List.reverse hr
      simpa using this
    subst hp
    simp only [List.length_append, List.length_cons, List.length_nil, Nat.zero_add, Nat.add_sub_cancel,
      List.take_left', List.getLast?_append, List.getLast?_singleton, Option.some_or]
    have hm : ∀ (l : List Str), l.map Rivia.Lemmas.stripCr =
        l.map (fun l => if l.getLast? = some '\r' then l.dropLast else l) :=
      fun l => List.map_congr_left (fun x _ => stripCr_eq x)
    rw [hm]
    cases lastp with
    | nil => simp
    | cons c cs => simp

theorem SM_bind_assoc {α β γ} (m : SM α) (f : α → SM β) (g : β → SM γ) :
    (m >>= f) >>= g = m >>= fun a => f a >>= g := by
  funext t
  simp only [SM_bind_apply]
  cases h : m t with
  | mk o t' => cases o <;> rfl

/-- `Stdfs::read` after `abs` -/
def readK (k : FsPath) : SM Bytes := do
  let t ← getT
  if Posix.exists t k then (if !(isFileK t k) then SM.fail .isNotFile else SM.pure ())
  else SM.fail .doesNotExist
  qry (readFile · k)

theorem read_eq (p : Str) : Stdfs.read env p = Stdfs.absM env p >>= readK := rfl

theorem sim_readLines (h : Ctx env t) (p : Str) :
    Sim (Stdfs.step env t (.readLines p)) (withPath env t p fun a =>
      match get t a with
      | none => (.err (some .doesNotExist), t)
      | some n => if n.kind = .file then
          (match decodeUtf8 n.data with | some s => (.ok (.strs (specLines s)), t) | none => (.err none, t))
        else if n.kind = .dir then (.err (some .isNotFile), t) else (.err none, t)) := by
  simp only [Stdfs.step, Stdfs.readLines, read_eq, SM_bind_assoc]
  refine sim_withPath h.cwd p _ _ _ ?_
  intro a _
  unfold readK
  ssimp [exists_eq_isSome h.wf h.links, isFileK_eq h.wf]
  cases hg : get t a with
  | none => ssimp [Option.isSome_none]; exact sim_err _ _ (TEquiv.refl _)
  | some n =>
    by_cases hk : n.kind = .file
    · have hf : isFile t a = true := by unfold isFile; simp [hg, hk]
      ssimp [Option.isSome_some, hf, hk, readFile_of_file h hg hk]
      cases decodeUtf8 n.data with
      | some s => ssimp; exact sim_same (by simp [splitLines_eq_specLines])
      | none => ssimp; exact sim_err _ _ (TEquiv.refl _)
    · have hf : isFile t a = false := by unfold isFile; simp [hg, hk]
      ssimp [Option.isSome_some, hf, hk]
      split <;> exact sim_err _ _ (TEquiv.refl _)

end Rivia.Lemmas.StdfsL
