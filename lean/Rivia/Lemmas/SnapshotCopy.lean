/-
  Rivia.Lemmas.SnapshotCopy — the traversal hypothesis of the tree-copy theorem (C09 f) discharged:

  * `runIter_walk`: with `follow = false`, parents first, for ANY consumer `step` (it may fail and
    stop the loop, like the `?` in `for e in it`), the stack machine feeds the consumer exactly
    the recursive walk: `runIter … step … = runList step (entriesSpec …)`;
  * `preOrder_walk`: on a correct snapshot of a well-formed state the walk with the options of
    `copy` (`copyOpts false`: no filter, no sort, depth limit `u64::MAX`) is a `PreOrder` listing of
    the subtree — provided no key is `2^64` names deep (`DepthOk`, the model's `max_depth`);
  * `copy_tree_refines_strong`: `copy_tree_refines` without `entriesOf` / `PreOrder` / traversal
    hypotheses.
-/
import Rivia.Lemmas.Snapshot
import Rivia.Lemmas.CopyTree

namespace Rivia.Lemmas.Snap
open Rivia Rivia.Memfs Rivia.Spec Rivia.Spec.TreeFs Rivia.Lemmas

/-! ### the machine feeds any consumer the walk -/

theorem runIter_rem {σ : Type} {snap : Snap} (hwf : SnapWf snap) {o : Opts} (hfol : o.follow = false)
    (hcf : o.contentsFirst = false) (hord : OrdOk o) (hk : KindOk o) {rootE : Entry}
    (hr : InSnap snap rootE) (step : Entry → σ → Outcome Unit × σ) :
    ∀ (f : Nat) (st : ISt) (w : σ), Walk.StOk snap st → Walk.workS snap o rootE st < f →
      runIter snap o noPre rootE step f st w = runList step (Walk.remS snap o rootE st) w
  | 0, _, _, _, h => by omega
  | f + 1, st, w, hok, hwork => by
    unfold runIter
    rcases Walk.nextE_pre hwf hfol hcf hord hk hr (f + 1) st w hok hwork with
      ⟨h1, st', h2⟩ | ⟨e, r, st', h1, h2, h3, h4, h5⟩
    · rw [h2, h1]; rfl
    · rw [h2, h1]
      simp only [runList]
      cases hs : step e w with
      | mk res w' =>
        cases res with
        | ok u =>
          cases u
          simp only []
          rw [runIter_rem hwf hfol hcf hord hk hr step f st' w' h3 (by omega), h4]
        | err k => rfl
        | panic => rfl
        | hang => rfl

theorem runIter_walk {σ : Type} {snap : Snap} (hwf : SnapWf snap) {o : Opts} (hfol : o.follow = false)
    (hcf : o.contentsFirst = false) (hord : OrdOk o) (hk : KindOk o) {rootE : Entry}
    (hr : InSnap snap rootE) (step : Entry → σ → Outcome Unit × σ) (w : σ) :
    runIter snap o noPre rootE step (travFuel snap) {} w = runList step (entriesSpec snap o rootE) w := by
  have hw : Walk.workS snap o rootE {} < travFuel snap := by
    have := Walk.W_length_le hwf (Walk.oM o) 0 hr
    have := Walk.travFuel_gt snap
    simp only [Walk.workS]; simp; omega
  rw [runIter_rem hwf hfol hcf hord hk hr step (travFuel snap) {} w
    ⟨by simp [Walk.FramesOk, Walk.frames], fun _ => rfl⟩ hw]
  simp [Walk.remS, Walk.entriesSpec_eq_W hwf o hr]

/-! ### the walk of `copy` lists the subtree in pre-order -/

/-- no key is `2^64` or more names deep (the traversal's default `max_depth` is `u64::MAX`) -/
def DepthOk (s : State) : Prop := ∀ kv ∈ s.entries, kv.1.length < 2 ^ 64

instance (s : State) : Decidable (DepthOk s) := by unfold DepthOk; infer_instance

theorem copyOpts_facts : (copyOpts false).follow = false ∧ (copyOpts false).contentsFirst = false ∧
    OrdOk (copyOpts false) ∧ KindOk (copyOpts false) := by decide

theorem mem_copyWalk {s : State} (hinv : Spec.Inv s) (hd : DepthOk s) {sk : FsPath} {rootE : Entry}
    {snap : Snap} (hwf : SnapWf snap) (hr : InSnap snap rootE) (hso : SnapOf s sk snap)
    (hp : rootE.path = sk) (y : Entry) :
    y ∈ entriesSpec snap (copyOpts false) rootE ↔ ∃ r, y.path = sk ++ r ∧ alLookup (sk ++ r) s.entries = some y := by
  have hlk := Walk.snapOf_lookup hso
  rw [entriesSpec, Walk.mem_walk_iff hwf _ _ rootE 0 y hr (Nat.lt_succ_of_le (Walk.pot_le _ _)), hp]
  constructor
  · rintro ⟨hy, t, ht, _, _, _⟩
    refine ⟨t, ht, ?_⟩
    rw [← hlk _ (List.prefix_append sk t), ← ht]
    exact hy
  · rintro ⟨r, hyp, hy⟩
    have hys : alLookup (sk ++ r) snap = some y := by rw [hlk _ (List.prefix_append sk r)]; exact hy
    refine ⟨by unfold InSnap; rw [hyp]; exact hys, r, hyp, ?_, ?_, ?_⟩
    · right
      have := hd _ (Walk.alLookup_mem hy)
      simp only [List.length_append] at this
      simp only [copyOpts, Nat.zero_add]
      omega
    · intro t1 n t2 ht
      obtain ⟨pe, h1, h2, h3, h4⟩ := Walk.chain_of_inv hinv hy t1 n t2 ht
      exact ⟨pe, by rw [hlk _ (List.prefix_append sk t1)]; exact h1, h2, h3, h4⟩
    · simp [selected, copyOpts]

theorem preOrder_walk {s : State} (hinv : Spec.Inv s) (hd : DepthOk s) {sk : FsPath} {rootE : Entry}
    {snap : Snap} (hwf : SnapWf snap) (hr : InSnap snap rootE) (hso : SnapOf s sk snap)
    (hp : rootE.path = sk) : PreOrder s sk (entriesSpec snap (copyOpts false) rootE) := by
  have hmem := mem_copyWalk hinv hd hwf hr hso hp
  have hf := invF_of_inv hinv
  refine ⟨fun e he => ?_, fun r e he => (hmem e).2 ⟨r, hf.path _ _ he, he⟩,
    Walk.walk_nodup hwf _ _ rootE 0 hr, ?_⟩
  · exact (hmem e).1 he
  · intro L1 e L2 hL r r' her hpre hne
    have he : e ∈ entriesSpec snap (copyOpts false) rootE := by rw [hL]; simp
    obtain ⟨r0, h0, hlk⟩ := (hmem e).1 he
    have hr0 : r0 = r := List.append_cancel_left (h0.symm.trans her)
    subst hr0
    obtain ⟨t, rfl⟩ := hpre
    -- the ancestor exists, hence is listed
    obtain ⟨pe, hpe⟩ := Walk.inv_prefix hinv (sk ++ r') t.length t e rfl (by rw [List.append_assoc]; exact hlk)
    have hpp : pe.path = sk ++ r' := hf.path _ _ hpe
    have hpeL : pe ∈ entriesSpec snap (copyOpts false) rootE := (hmem pe).2 ⟨r', hpp, hpe⟩
    have hpw := Walk.walk_parents_first hwf (copyOpts false) rfl (snap.length + 1) rootE 0 hr
    have hpw' : (L1 ++ e :: L2).Pairwise (fun a b => ¬ (b.path <+: a.path ∧ b.path ≠ a.path)) := by
      rw [← hL]; exact hpw
    have hanc : pe.path <+: e.path ∧ pe.path ≠ e.path := by
      rw [hpp, her]
      refine ⟨⟨t, by simp⟩, ?_⟩
      intro h
      have := List.append_cancel_left h
      exact hne this
    rw [hL] at hpeL
    rcases List.mem_append.1 hpeL with h | h
    · exact ⟨pe, h, hpp⟩
    · exfalso
      rcases List.mem_cons.1 h with h | h
      · subst h; exact hanc.2 rfl
      · have h2 := (List.pairwise_append.1 hpw').2.1
        exact (List.pairwise_cons.1 h2).1 pe h hanc

/-! ### the tree copy without traversal hypotheses -/

theorem copy_tree_refines_strong {env : Env} {a b : Str} {c : CopyOpts} {s : State} {sk dk : FsPath}
    {rootE : Entry}
    (hinv : Spec.Inv s) (hs : Sorted s.entries) (hd : DepthOk s)
    (ctx : TreeCtx s sk dk c)
    (ha : absM env a s = (.ok sk, s)) (hb : absM env b s = (.ok dk, s)) (hne : sk ≠ dk)
    (hsrc : alLookup sk s.entries = some rootE) :
    ∃ s', copyM env a b c s = (.ok (), s') ∧
      (copySpec (absS s) sk dk c.mode c.cdirs c.cfiles).1 = .ok () ∧
      TEquiv (absS s') (copySpec (absS s) sk dk c.mode c.cdirs c.cfiles).2 := by
  obtain ⟨snap, hent, hwf, hr, hso, _⟩ := snapshot_correct_core hinv hs hsrc
  have hp : rootE.path = sk := ctx.hi.path sk rootE hsrc
  obtain ⟨f1, f2, f3, f4⟩ := copyOpts_facts
  exact copy_tree_refines ctx ha hb hne hsrc hent (preOrder_walk hinv hd hwf hr hso hp)
    (fun step w => runIter_walk hwf f1 f2 f3 f4 hr step w)

end Rivia.Lemmas.Snap
