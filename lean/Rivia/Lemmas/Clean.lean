/-
  Rivia.Lemmas.Clean — the model of `sys::clean` equals Go's `path.Clean` (spec `goClean`),
  plus the normal-form / idempotence / rootedness corollaries.
-/
import Rivia.Model.Path
import Rivia.Spec.GoClean
import Rivia.Lemmas.PathBasics

namespace Rivia.Lemmas
open Rivia Rivia.Str Rivia.Spec

/-! ### pieces and rendered buffers -/

/-- A `/`-piece that is a real path element: non-empty, not `.`, and slash-free. -/
def BodyPiece (p : Str) : Prop := p ≠ [] ∧ p ≠ ['.'] ∧ '/' ∉ p

/-- The string whose `/`-pieces (after the root marker, if any) are `ps`. -/
def bufOf (rooted : Bool) (ps : List Str) : Str :=
  (if rooted then ['/'] else []) ++ joinWith '/' ps

theorem goRooted_eq (s : Str) : goRooted s = isRooted s := by
  cases s with
  | nil => rfl
  | cons c cs =>
    by_cases h : c = '/'
    · subst h; rfl
    · rw [isRooted_cons]
      unfold goRooted
      split
      · rename_i heq
        simp only [List.cons.injEq] at heq
        exact absurd heq.1 h
      · simp [h]

theorem bodyComp_of_bodyPiece {p : Str} (h : BodyPiece p) :
    bodyComp p = some (if p = ['.', '.'] then .parent else .normal p) := by
  simp only [bodyComp, h.1, h.2.1, or_self, if_false]
  split <;> rfl

theorem bodyPiece_of_bodyComp {p : Str} {c : Comp} (hp : '/' ∉ p) (hc : bodyComp p = some c) :
    BodyPiece p := by
  refine ⟨?_, ?_, hp⟩
  · rintro rfl; simp [bodyComp] at hc
  · rintro rfl; simp [bodyComp] at hc

theorem bodyComp_eq_none {p : Str} (h : bodyComp p = none) : p = [] ∨ p = ['.'] := by
  unfold bodyComp at h
  split at h
  · assumption
  · split at h <;> simp at h

theorem joinWith_snoc_eq_append (sep : Char) (mid : List Str) (t : Str) :
    ∃ X, joinWith sep (mid ++ [t]) = X ++ t := by
  by_cases h : mid = []
  · subst h; exact ⟨[], rfl⟩
  · exact ⟨joinWith sep mid ++ [sep], by rw [joinWith_append_singleton sep h]; simp⟩

theorem joinWith_cons_eq_append (sep : Char) (x : Str) (r : List Str) :
    ∃ X, joinWith sep (x :: r) = x ++ X := by
  by_cases h : r = []
  · subst h; exact ⟨[], by simp [joinWith]⟩
  · exact ⟨sep :: joinWith sep r, joinWith_cons_of_ne_nil sep x h⟩

theorem bufOf_nil (rooted : Bool) : bufOf rooted [] = if rooted then ['/'] else [] := by
  simp [bufOf, joinWith]

theorem bufOf_snoc_ne_nil {rooted : Bool} {mid : List Str} {t : Str} (ht : t ≠ []) :
    bufOf rooted (mid ++ [t]) ≠ [] := by
  obtain ⟨X, hX⟩ := joinWith_snoc_eq_append '/' mid t
  simp [bufOf, hX, ht]

theorem endsWithSlash_bufOf_snoc {rooted : Bool} {mid : List Str} {t : Str} (ht : BodyPiece t) :
    endsWithSlash (bufOf rooted (mid ++ [t])) = false := by
  obtain ⟨X, hX⟩ := joinWith_snoc_eq_append '/' mid t
  unfold bufOf
  rw [hX, ← List.append_assoc, endsWithSlash_append _ ht.1]
  exact endsWithSlash_of_not_mem ht.2.2

theorem isRooted_bufOf {rooted : Bool} {ps : List Str} (h : ∀ p ∈ ps, BodyPiece p) :
    isRooted (bufOf rooted ps) = rooted := by
  cases rooted with
  | true => simp [bufOf, isRooted_cons]
  | false =>
    cases ps with
    | nil => rfl
    | cons x r =>
      obtain ⟨X, hX⟩ := joinWith_cons_eq_append '/' x r
      have hx := h x (by simp)
      simp only [bufOf, Bool.false_eq_true, if_false, List.nil_append, hX]
      rw [isRooted_append hx.1]
      exact isRooted_of_not_mem hx.2.2

theorem splitSlash_bufOf {rooted : Bool} {ps : List Str} (hne : ps ≠ [])
    (h : ∀ p ∈ ps, BodyPiece p) :
    splitSlash (bufOf rooted ps) = (if rooted then [[]] else []) ++ ps := by
  have hs : splitOn '/' (joinWith '/' ps) = ps := splitOn_joinWith hne (fun p hp => (h p hp).2.2)
  cases rooted with
  | true => simp [splitSlash, bufOf, splitOn_cons_sep, hs]
  | false => simp [splitSlash, bufOf, hs]

theorem push_bufOf {rooted : Bool} {ps : List Str} {p : Str} (hp : BodyPiece p)
    (h : ∀ q ∈ ps, BodyPiece q) : push (bufOf rooted ps) p = bufOf rooted (ps ++ [p]) := by
  rcases eq_nil_or_snoc ps with rfl | ⟨mid, t, rfl⟩
  · cases rooted with
    | true => simpa [bufOf, joinWith] using push_root hp.2.2
    | false => simpa [bufOf, joinWith] using push_nil hp.2.2
  · have ht : BodyPiece t := h t (by simp)
    rw [push_of_not_endsWithSlash hp.2.2 (bufOf_snoc_ne_nil ht.1) (endsWithSlash_bufOf_snoc ht)]
    unfold bufOf
    rw [joinWith_append_singleton '/' (by simp) p]
    simp

theorem pop_bufOf {rooted : Bool} {ps : List Str} {top : Str}
    (h : ∀ q ∈ ps ++ [top], BodyPiece q) : pop (bufOf rooted (ps ++ [top])) = bufOf rooted ps := by
  have hbody : ∀ q ∈ ps ++ [top], isBody q = true :=
    fun q hq => isBody_eq_true (h q hq).1 (h q hq).2.1
  have hsplit := splitSlash_bufOf (rooted := rooted) (ps := ps ++ [top]) (by simp) h
  have hroot := isRooted_bufOf (rooted := rooted) h
  cases rooted with
  | true =>
    have := parentStr_of_split (s := bufOf true (ps ++ [top])) (p0 := []) (mid := ps) (top := top)
      (by simpa using hsplit) (fun x hx => hbody x (by simp [hx])) (hbody top (by simp))
    unfold pop
    rw [this, hroot]
    by_cases hps : ps = []
    · subst hps; simp [bufOf, joinWith]
    · simp [hps, bufOf, joinWith_cons_of_ne_nil '/' [] hps]
  | false =>
    cases ps with
    | nil =>
      have htop := h top (by simp)
      have := parentStr_single (s := bufOf false [top]) (p0 := top) (by simpa using hsplit)
        (by simpa using hroot) htop.1
      unfold pop
      simp only [List.nil_append] at this ⊢
      rw [this]; rfl
    | cons p0 mid =>
      have := parentStr_of_split (s := bufOf false (p0 :: mid ++ [top])) (p0 := p0) (mid := mid)
        (top := top) (by simpa using hsplit)
        (fun x hx => hbody x (by simp [hx])) (hbody top (by simp))
      unfold pop
      rw [this, hroot]
      simp [bufOf]

theorem components_bufOf_snoc {rooted : Bool} {ps : List Str} {top : Str}
    (h : ∀ q ∈ ps ++ [top], BodyPiece q) :
    (components (bufOf rooted (ps ++ [top]))).getLast? = bodyComp top := by
  have hsplit := splitSlash_bufOf (rooted := rooted) (ps := ps ++ [top]) (by simp) h
  have htop := bodyComp_of_bodyPiece (h top (by simp))
  have hf : ∀ pre : List Str, List.filterMap bodyComp (pre ++ (ps ++ [top])) =
      List.filterMap bodyComp (pre ++ ps) ++ [if top = ['.', '.'] then .parent else .normal top] := by
    intro pre
    rw [← List.append_assoc, List.filterMap_append]
    simp [htop]
  unfold components
  rw [hsplit, htop, hf]
  split
  · rw [← List.cons_append]; exact List.getLast?_concat
  · rw [← List.append_assoc]; exact List.getLast?_concat

theorem components_bufOf_nil (rooted : Bool) :
    (components (bufOf rooted [])).getLast? = if rooted then some .root else none := by
  cases rooted <;> decide

/-! ### the simulation invariant -/

/-- `prev` of the model state for a (reversed) stack of pieces. -/
def topComp (rooted : Bool) : List Str → Option Comp
  | [] => if rooted then some .root else none
  | top :: _ => bodyComp top

/-- The model's loop state corresponding to Go's reversed stack `st`. -/
def mkSt (rooted : Bool) (st : List Str) : CleanSt :=
  { cnt := st.length + (if rooted then 1 else 0)
    prev := topComp rooted st
    buf := bufOf rooted st.reverse }

theorem cleanStep_push {s : CleanSt} {c : Comp} (h1 : c ≠ .cur)
    (h2 : c = .parent → s.cnt = 0 ∨ s.prev = some .parent) :
    cleanStep s c = some { cnt := s.cnt + 1, prev := some c, buf := push s.buf c.str } := by
  unfold cleanStep
  rw [if_neg (fun h => h1 h.1), if_neg]
  rintro ⟨hc, hcnt, hprev⟩
  rcases h2 hc with h | h
  · omega
  · exact hprev h

theorem mkSt_push {rooted : Bool} {st : List Str} {p : Str} (hst : ∀ q ∈ st, BodyPiece q)
    (hp : BodyPiece p) :
    ({ cnt := (mkSt rooted st).cnt + 1
       prev := bodyComp p
       buf := push (mkSt rooted st).buf p } : CleanSt) = mkSt rooted (p :: st) := by
  have := push_bufOf (rooted := rooted) (ps := st.reverse) hp (by simpa using hst)
  simp only [mkSt, this, List.length_cons, List.reverse_cons, topComp, CleanSt.mk.injEq, and_true]
  omega

theorem comp_str_of_bodyPiece {p : Str} :
    (if p = ['.', '.'] then Comp.parent else Comp.normal p).str = p := by
  split
  · next h => rw [h]; rfl
  · rfl

/-- One loop iteration of the model on a real piece = one `goStep`. -/
theorem cleanStep_mkSt {rooted : Bool} {st : List Str} {p : Str} {c : Comp}
    (hst : ∀ q ∈ st, BodyPiece q) (hp : '/' ∉ p) (hc : bodyComp p = some c) :
    cleanStep (mkSt rooted st) c = some (mkSt rooted (goStep rooted st p)) := by
  have hbp : BodyPiece p := bodyPiece_of_bodyComp hp hc
  have hc' := bodyComp_of_bodyPiece hbp
  rw [hc] at hc'
  have hc'' : c = if p = ['.', '.'] then Comp.parent else Comp.normal p := by simpa using hc'
  have hstr : c.str = p := by rw [hc'']; exact comp_str_of_bodyPiece
  have hcur : c ≠ .cur := by rw [hc'']; split <;> simp
  have hgo1 : ¬ (p = [] ∨ p = ['.']) := by simp [hbp.1, hbp.2.1]
  by_cases hdd : p = ['.', '.']
  · -- `..`
    have hcp : c = .parent := by simp [hc'', hdd]
    cases st with
    | nil =>
      subst hdd hcp
      cases rooted <;> decide
    | cons top below =>
      have htop : BodyPiece top := hst top (by simp)
      by_cases ht : top = ['.', '.']
      · -- top is `..`: push
        have hgo : goStep rooted (top :: below) p = p :: top :: below := by
          simp [goStep, hdd, dotdot, ht]
        rw [hgo, cleanStep_push hcur, hstr, ← hc, mkSt_push hst hbp]
        intro _
        right
        simp [mkSt, topComp, ht, bodyComp]
      · -- top is a normal element: pop
        have hgo : goStep rooted (top :: below) p = below := by
          simp [goStep, hdd, dotdot, ht]
        have hprev : (mkSt rooted (top :: below)).prev = some (.normal top) := by
          simp [mkSt, topComp, bodyComp_of_bodyPiece htop, ht]
        have hall : ∀ q ∈ below.reverse ++ [top], BodyPiece q := by
          intro q hq
          apply hst
          simp only [List.mem_append, List.mem_reverse, List.mem_singleton] at hq
          simp only [List.mem_cons]
          exact hq.symm
        have hpop : pop (mkSt rooted (top :: below)).buf = bufOf rooted below.reverse := by
          simp only [mkSt, List.reverse_cons]
          exact pop_bufOf hall
        have hlast : (components (bufOf rooted below.reverse)).getLast? = topComp rooted below := by
          cases below with
          | nil => simpa [topComp] using components_bufOf_nil rooted
          | cons t2 b2 =>
            simp only [List.reverse_cons, topComp]
            apply components_bufOf_snoc
            intro q hq
            apply hst
            simp only [List.mem_append, List.mem_reverse, List.mem_singleton] at hq
            simp only [List.mem_cons]
            exact Or.inr hq.symm
        rw [hgo, hcp]
        unfold cleanStep
        rw [if_neg (by simp), if_pos ⟨rfl, by simp only [mkSt, List.length_cons]; omega, by simp [hprev]⟩, hprev]
        simp only [hpop, hlast]
        simp [mkSt]
  · -- normal element: push
    have hgo : goStep rooted st p = p :: st := by
      simp [goStep, hgo1, hdd, dotdot]
    rw [hgo, cleanStep_push hcur, hstr, ← hc, mkSt_push hst hbp]
    intro h
    rw [hc'', if_neg hdd] at h
    cases h

theorem goStep_bodyPiece {rooted : Bool} {st : List Str} {p : Str}
    (hst : ∀ q ∈ st, BodyPiece q) (hp : '/' ∉ p) : ∀ q ∈ goStep rooted st p, BodyPiece q := by
  unfold goStep
  split
  · exact hst
  · next h =>
    have hbp : BodyPiece p := ⟨fun e => h (Or.inl e), fun e => h (Or.inr e), hp⟩
    have hcons : ∀ q ∈ p :: st, BodyPiece q := by
      intro q hq
      rcases List.mem_cons.1 hq with rfl | hq
      · exact hbp
      · exact hst q hq
    split
    · split
      · split
        · exact hcons
        · intro q hq; exact hst q (by simp [hq])
      · split
        · simp
        · simpa using hbp
    · exact hcons

/-- The model's fold over the body components = Go's fold over the pieces. -/
theorem cleanFold_mkSt (rooted : Bool) (pieces : List Str) :
    ∀ st : List Str, (∀ q ∈ st, BodyPiece q) → (∀ p ∈ pieces, '/' ∉ p) →
      cleanFold (mkSt rooted st) (pieces.filterMap bodyComp)
        = some (mkSt rooted (pieces.foldl (goStep rooted) st)) := by
  induction pieces with
  | nil => intro st _ _; rfl
  | cons p ps ih =>
    intro st hst hps
    have hp : '/' ∉ p := hps p (by simp)
    have hps' : ∀ q ∈ ps, '/' ∉ q := fun q hq => hps q (by simp [hq])
    cases hc : bodyComp p with
    | none =>
      have hgo : goStep rooted st p = st := by
        simp [goStep, bodyComp_eq_none hc]
      rw [List.filterMap_cons_none hc, List.foldl_cons, hgo]
      exact ih st hst hps'
    | some c =>
      rw [List.filterMap_cons_some hc, List.foldl_cons]
      simp only [cleanFold, cleanStep_mkSt hst hp hc]
      exact ih _ (goStep_bodyPiece hst hp) hps'

/-- The final stack of `goClean`. -/
def goStack (s : Str) : List Str := (splitOn '/' s).foldl (goStep (isRooted s)) []

theorem goStack_bodyPiece (s : Str) : ∀ q ∈ goStack s, BodyPiece q := by
  have : ∀ (pieces : List Str) (st : List Str), (∀ q ∈ st, BodyPiece q) →
      (∀ p ∈ pieces, '/' ∉ p) → ∀ q ∈ pieces.foldl (goStep (isRooted s)) st, BodyPiece q := by
    intro pieces
    induction pieces with
    | nil => intro st hst _; exact hst
    | cons p ps ih =>
      intro st hst hps
      rw [List.foldl_cons]
      exact ih _ (goStep_bodyPiece hst (hps p (by simp))) (fun q hq => hps q (by simp [hq]))
  exact this _ [] (by simp) (not_mem_of_mem_splitOn '/' s)

theorem goClean_eq (s : Str) :
    goClean s =
      if bufOf (isRooted s) (goStack s).reverse = [] then ['.']
      else bufOf (isRooted s) (goStack s).reverse := by
  unfold goClean
  simp only [goRooted_eq, bufOf, goStack]
  by_cases h : isRooted s = true <;> simp [h]

theorem cleanFold_components (s : Str) :
    cleanFold ⟨0, none, []⟩ (components s) = some (mkSt (isRooted s) (goStack s)) := by
  have hmain : cleanFold (mkSt (isRooted s) []) ((splitSlash s).filterMap bodyComp)
      = some (mkSt (isRooted s) (goStack s)) :=
    cleanFold_mkSt (isRooted s) (splitOn '/' s) [] (by simp) (not_mem_of_mem_splitOn '/' s)
  unfold components
  cases hr : isRooted s with
  | true =>
    rw [hr] at hmain
    simp only [if_true]
    have h0 : cleanStep ⟨0, none, []⟩ .root = some (mkSt true []) := by decide
    simp only [cleanFold, h0]
    exact hmain
  | false =>
    rw [hr] at hmain
    simp only [Bool.false_eq_true, if_false]
    have h0 : cleanStep ⟨0, none, []⟩ .cur = some (mkSt false []) := by decide
    have h1 : (⟨0, none, []⟩ : CleanSt) = mkSt false [] := by decide
    split
    · simp only [List.cons_append, List.nil_append, cleanFold, h0]
      exact hmain
    · rw [List.nil_append, h1]
      exact hmain

/-- **Main theorem**: the model of `sys::clean` never panics and equals Go's `path.Clean`. -/
theorem cleanO_eq_goClean (s : Str) : cleanO s = some (goClean s) := by
  unfold cleanO
  rw [cleanFold_components, goClean_eq]
  simp only [mkSt]
  by_cases h : bufOf (isRooted s) (goStack s).reverse = [] <;> simp [h]

/-! ### corollaries about `goClean` -/

theorem goClean_ne_nil (s : Str) : goClean s ≠ [] := by
  rw [goClean_eq]
  split
  · simp
  · assumption

theorem goStack_rev_bodyPiece (s : Str) : ∀ q ∈ (goStack s).reverse, BodyPiece q := by
  intro q hq
  exact goStack_bodyPiece s q (List.mem_reverse.1 hq)

theorem goClean_rooted (s : Str) : isRooted (goClean s) = isRooted s := by
  rw [goClean_eq]
  split
  · next h =>
    cases hr : isRooted s with
    | true => rw [hr] at h; simp [bufOf] at h
    | false => rfl
  · exact isRooted_bufOf (goStack_rev_bodyPiece s)

/-! ### normal form -/

/-- The `/`-pieces of `t`, without the empty root-marker piece in front when `t` is rooted. -/
def bodyPieces (t : Str) : List Str :=
  if isRooted t then (splitOn '/' t).drop 1 else splitOn '/' t

/-- `t` is a fully cleaned path: it is `.` or `/`, or else its `/`-pieces (after the root marker)
    are all non-empty (no `//`, no trailing `/`, not the empty string), none is `.`, none is `..`
    when `t` is rooted, and every piece preceding a `..` piece is itself `..` (so `..` only occurs
    as a leading run: no inner `..`). -/
def NormalForm (t : Str) : Prop :=
  t = ['.'] ∨ t = ['/'] ∨
    ((∀ p ∈ bodyPieces t, p ≠ [] ∧ p ≠ ['.']) ∧
     (isRooted t = true → ∀ p ∈ bodyPieces t, p ≠ dotdot) ∧
     (bodyPieces t).Pairwise (fun a b => b = dotdot → a = dotdot))

instance (t : Str) : Decidable (NormalForm t) := by
  unfold NormalForm; infer_instance

-- sanity checks of the definition (tests)
example : NormalForm "/a/b".toList := by decide
example : NormalForm "../../a/b".toList := by decide
example : NormalForm "..".toList := by decide
example : NormalForm "/".toList := by decide
example : NormalForm ".".toList := by decide
example : ¬ NormalForm "".toList := by decide
example : ¬ NormalForm "a//b".toList := by decide
example : ¬ NormalForm "//".toList := by decide
example : ¬ NormalForm "//a".toList := by decide
example : ¬ NormalForm "a/".toList := by decide
example : ¬ NormalForm "/a/".toList := by decide
example : ¬ NormalForm "a/./b".toList := by decide
example : ¬ NormalForm "./a".toList := by decide
example : ¬ NormalForm "a/..".toList := by decide
example : ¬ NormalForm "../a/../b".toList := by decide
example : ¬ NormalForm "/..".toList := by decide
example : ¬ NormalForm "/../a".toList := by decide

/-- Invariant of Go's reversed stack: no `..` under a root, and below a `..` only `..`. -/
def StackOK (rooted : Bool) (st : List Str) : Prop :=
  (rooted = true → ∀ q ∈ st, q ≠ dotdot) ∧ st.Pairwise (fun a b => a = dotdot → b = dotdot)

theorem goStep_stackOK {rooted : Bool} {st : List Str} (p : Str) (h : StackOK rooted st) :
    StackOK rooted (goStep rooted st p) := by
  unfold goStep
  split
  · exact h
  · split
    · next hdd =>
      split
      · next top below =>
        split
        · next ht =>
          refine ⟨?_, ?_⟩
          · intro hr
            exact absurd ht (h.1 hr top (by simp))
          · refine List.pairwise_cons.2 ⟨?_, h.2⟩
            intro b hb _
            rcases List.mem_cons.1 hb with rfl | hb
            · exact ht
            · exact (List.pairwise_cons.1 h.2).1 b hb ht
        · exact ⟨fun hr q hq => h.1 hr q (by simp [hq]), (List.pairwise_cons.1 h.2).2⟩
      · split
        · exact ⟨by simp, List.Pairwise.nil⟩
        · next hr => exact ⟨fun hr' => absurd hr' hr, List.pairwise_singleton _ _⟩
    · next hdd =>
      refine ⟨?_, ?_⟩
      · intro hr q hq
        rcases List.mem_cons.1 hq with rfl | hq
        · exact hdd
        · exact h.1 hr q hq
      · refine List.pairwise_cons.2 ⟨?_, h.2⟩
        intro b _ hp
        exact absurd hp hdd

theorem goStack_stackOK (s : Str) : StackOK (isRooted s) (goStack s) := by
  have : ∀ (pieces : List Str) (st : List Str), StackOK (isRooted s) st →
      StackOK (isRooted s) (pieces.foldl (goStep (isRooted s)) st) := by
    intro pieces
    induction pieces with
    | nil => intro st hst; exact hst
    | cons p ps ih =>
      intro st hst
      rw [List.foldl_cons]
      exact ih _ (goStep_stackOK p hst)
  exact this _ [] ⟨by simp, List.Pairwise.nil⟩

theorem bodyPieces_bufOf {rooted : Bool} {ps : List Str} (hne : ps ≠ [])
    (h : ∀ p ∈ ps, BodyPiece p) : bodyPieces (bufOf rooted ps) = ps := by
  have h1 := splitSlash_bufOf (rooted := rooted) hne h
  have h2 := isRooted_bufOf (rooted := rooted) h
  unfold bodyPieces
  unfold splitSlash at h1
  rw [h1, h2]
  cases rooted <;> simp

theorem goClean_normalForm (s : Str) : NormalForm (goClean s) := by
  rw [goClean_eq]
  split
  · exact Or.inl rfl
  · next hne =>
    cases hst : goStack s with
    | nil =>
      rw [hst] at hne
      cases hr : isRooted s with
      | true => exact Or.inr (Or.inl (by simp [bufOf, joinWith]))
      | false => rw [hr] at hne; simp [bufOf, joinWith] at hne
    | cons top below =>
      have hbp := goStack_rev_bodyPiece s
      have hok := goStack_stackOK s
      rw [hst] at hbp hok
      have hne' : (top :: below).reverse ≠ [] := by simp
      refine Or.inr (Or.inr ?_)
      rw [bodyPieces_bufOf hne' hbp, isRooted_bufOf hbp]
      refine ⟨fun p hp => ⟨(hbp p hp).1, (hbp p hp).2.1⟩, ?_, ?_⟩
      · intro hr p hp
        exact hok.1 hr p (List.mem_reverse.1 hp)
      · exact List.pairwise_reverse.2 hok.2

/-! ### `goClean` fixes normal forms; idempotence -/

theorem foldl_goStep_normal (rooted : Bool) (ps : List Str) :
    ∀ st : List Str, (∀ p ∈ ps, p ≠ [] ∧ p ≠ ['.']) →
      (rooted = true → ∀ p ∈ ps, p ≠ dotdot) →
      ps.Pairwise (fun a b => b = dotdot → a = dotdot) →
      (dotdot ∈ ps → ∀ q ∈ st, q = dotdot) →
      ps.foldl (goStep rooted) st = ps.reverse ++ st := by
  induction ps with
  | nil => intro st _ _ _ _; rfl
  | cons p ps ih =>
    intro st h1 h2 h3 h4
    have hp := h1 p (by simp)
    have hstep : goStep rooted st p = p :: st := by
      unfold goStep
      rw [if_neg (by simp [hp.1, hp.2])]
      split
      · next hdd =>
        have hall := h4 (by simp [hdd])
        have hr : rooted = false := by
          cases rooted with
          | false => rfl
          | true => exact absurd hdd (h2 rfl p (by simp))
        cases st with
        | nil => simp [hr]
        | cons top below => simp [hall top (by simp)]
      · rfl
    rw [List.foldl_cons, hstep,
      ih (p :: st) (fun q hq => h1 q (by simp [hq])) (fun hr q hq => h2 hr q (by simp [hq]))
        (List.pairwise_cons.1 h3).2 ?_]
    · simp
    · intro hmem q hq
      have hpd : p = dotdot := (List.pairwise_cons.1 h3).1 dotdot hmem rfl
      rcases List.mem_cons.1 hq with rfl | hq
      · exact hpd
      · exact h4 (by simp [hmem]) q hq

theorem splitOn_eq_bodyPieces (t : Str) :
    splitOn '/' t = (if isRooted t then [[]] else []) ++ bodyPieces t := by
  unfold bodyPieces
  cases t with
  | nil => rfl
  | cons c cs =>
    by_cases h : c = '/'
    · subst h
      simp [isRooted_cons, splitOn_cons_sep]
    · simp [isRooted_cons, h]

theorem bufOf_bodyPieces (t : Str) : bufOf (isRooted t) (bodyPieces t) = t := by
  unfold bodyPieces bufOf
  cases t with
  | nil => rfl
  | cons c cs =>
    by_cases h : c = '/'
    · subst h
      simp [isRooted_cons, splitOn_cons_sep, joinWith_splitOn]
    · simp [isRooted_cons, h, joinWith_splitOn]

/-- `goClean` is the identity on normal forms. -/
theorem goClean_of_normalForm {t : Str} (h : NormalForm t) : goClean t = t := by
  rcases h with rfl | rfl | ⟨h1, h2, h3⟩
  · decide
  · decide
  · have hstack : goStack t = (bodyPieces t).reverse := by
      unfold goStack
      rw [splitOn_eq_bodyPieces, List.foldl_append]
      have h0 : List.foldl (goStep (isRooted t)) [] (if isRooted t = true then [[]] else []) = [] := by
        cases isRooted t <;> simp [goStep]
      rw [h0, foldl_goStep_normal (isRooted t) (bodyPieces t) [] h1 h2 h3 (by simp)]
      simp
    have hne : t ≠ [] := by
      rintro rfl
      exact (h1 [] (by decide)).1 rfl
    rw [goClean_eq, hstack, List.reverse_reverse, bufOf_bodyPieces, if_neg hne]

theorem goClean_idem (s : Str) : goClean (goClean s) = goClean s :=
  goClean_of_normalForm (goClean_normalForm s)

/-- Characterisation: the fixed points of `goClean` are exactly the normal forms. -/
theorem goClean_eq_self_iff (t : Str) : goClean t = t ↔ NormalForm t :=
  ⟨fun h => h ▸ goClean_normalForm t, goClean_of_normalForm⟩

end Rivia.Lemmas
