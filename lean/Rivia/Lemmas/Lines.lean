/-
  Rivia.Lemmas.Lines — helper lemmas for the line helpers of C06:
  * `utf8` is the per-character encoding (`utf8_eq_flatMap`), hence additive; `decodeUtf8 ∘ utf8 = some`
  * `joinWith '\n' ls ++ ['\n']` is "each line followed by one newline"
  * `splitLines` inverts it (for lines without `\n` that do not end in `\r`)
-/
import Rivia.Model.Memfs
import Rivia.Lemmas.PathBasics
import Rivia.Lemmas.Components

namespace Rivia.Lemmas
open Rivia Rivia.Memfs Rivia.File

/-! ### `ByteArray.toList` -/

theorem byteArray_toList_loop (bs : ByteArray) (i : Nat) (r : List UInt8) :
    ByteArray.toList.loop bs i r = r.reverse ++ bs.data.toList.drop i := by
  induction h : bs.size - i generalizing i r with
  | zero =>
    unfold ByteArray.toList.loop
    have hi : ¬ i < bs.size := by omega
    rw [if_neg hi]
    have : bs.data.toList.length ≤ i := by
      have : bs.size = bs.data.toList.length := by rw [Array.length_toList]; rfl
      omega
    rw [List.drop_eq_nil_of_le this]; simp
  | succ n ih =>
    unfold ByteArray.toList.loop
    have hi : i < bs.size := by omega
    rw [if_pos hi, ih (i + 1) _ (by omega)]
    have hlen : i < bs.data.toList.length := by
      have : bs.size = bs.data.toList.length := by rw [Array.length_toList]; rfl
      omega
    rw [List.drop_eq_getElem_cons hlen]
    have hget : bs.get! i = bs.data.toList[i] := by
      cases bs with
      | mk arr =>
        show arr[i]! = arr.toList[i]
        have hi' : i < arr.size := by simpa using hlen
        rw [getElem!_pos arr i hi']
        simp
    simp [hget]

theorem byteArray_toList (bs : ByteArray) : bs.toList = bs.data.toList := by
  unfold ByteArray.toList
  rw [byteArray_toList_loop]; simp

/-! ### `utf8` -/

/-- `utf8` is the concatenation of the per-character encodings -/
theorem utf8_eq_flatMap (s : Str) : utf8 s = s.flatMap String.utf8EncodeChar := by
  unfold utf8
  rw [byteArray_toList, String.toUTF8_eq_toByteArray, String.toByteArray_ofList]
  unfold List.utf8Encode
  exact List.toList_data_toByteArray

theorem utf8_append (a b : Str) : utf8 (a ++ b) = utf8 a ++ utf8 b := by
  simp only [utf8_eq_flatMap, List.flatMap_append]

theorem utf8_nil : utf8 [] = [] := by simp [utf8_eq_flatMap]

theorem utf8_newline : utf8 ['\n'] = [nl] := by
  rw [utf8_eq_flatMap]; decide

theorem toArray_utf8 (s : Str) : (⟨(utf8 s).toArray⟩ : ByteArray) = (String.ofList s).toByteArray := by
  unfold utf8
  rw [byteArray_toList, String.toUTF8_eq_toByteArray]

/-- decoding what `utf8` produced gives the text back -/
theorem decodeUtf8_utf8 (s : Str) : decodeUtf8 (utf8 s) = some s := by
  unfold decodeUtf8
  rw [toArray_utf8]
  unfold String.fromUTF8?
  rw [dif_pos (String.ofList s).isValidUTF8]
  show Option.map String.toList (some (String.ofList s)) = some s
  simp

theorem decodeUtf8_utf8_append_nl (s : Str) : decodeUtf8 (utf8 s ++ [nl]) = some (s ++ ['\n']) := by
  rw [← utf8_newline, ← utf8_append, decodeUtf8_utf8]

/-! ### joining lines -/

/-- "exactly one newline per line", on text -/
theorem joinWith_append_nl {ls : List Str} (h : ls ≠ []) :
    Str.joinWith '\n' ls ++ ['\n'] = ls.flatMap (· ++ ['\n']) := by
  induction ls with
  | nil => exact absurd rfl h
  | cons x r ih =>
    cases r with
    | nil => simp [Str.joinWith]
    | cons y r' =>
      have := ih (by simp)
      simp only [Str.joinWith, List.flatMap_cons, List.append_assoc, List.cons_append] at this ⊢
      rw [this]; simp

theorem utf8_flatMap_lines (ls : List Str) :
    utf8 (ls.flatMap (· ++ ['\n'])) = ls.flatMap (fun l => utf8 l ++ [nl]) := by
  induction ls with
  | nil => exact utf8_nil
  | cons x r ih =>
    simp only [List.flatMap_cons, utf8_append, ih, utf8_newline]

/-- "exactly one newline per line", on bytes -/
theorem utf8_joinWith_nl {ls : List Str} (h : ls ≠ []) :
    utf8 (Str.joinWith '\n' ls) ++ [nl] = ls.flatMap (fun l => utf8 l ++ [nl]) := by
  rw [← utf8_flatMap_lines, ← joinWith_append_nl h, utf8_append, utf8_newline]

theorem joinLines_eq (ls : List Str) :
    joinLines ls = if Str.joinWith '\n' ls = [] then none
      else some (utf8 (Str.joinWith '\n' ls) ++ [nl]) := rfl

theorem joinLines_of_ne {ls : List Str} (h : Str.joinWith '\n' ls ≠ []) :
    joinLines ls = some (ls.flatMap (fun l => utf8 l ++ [nl])) := by
  have hne : ls ≠ [] := by rintro rfl; exact h rfl
  rw [joinLines_eq, if_neg h, utf8_joinWith_nl hne]

/-! ### splitting lines -/

theorem splitOn_flatMap_lines {ls : List Str} (h : ∀ l ∈ ls, '\n' ∉ l) :
    Str.splitOn '\n' (ls.flatMap (· ++ ['\n'])) = ls ++ [[]] := by
  induction ls with
  | nil => rfl
  | cons x r ih =>
    have hx : '\n' ∉ x := h x (by simp)
    have hr := ih (fun l hl => h l (by simp [hl]))
    simp only [List.flatMap_cons, List.append_assoc, List.cons_append, List.nil_append]
    rw [splitOn_append_sep hx, hr]

/-- the `\r` stripping of `BufRead::lines` -/
def stripCr (l : Str) : Str := match l.reverse with | '\r' :: r => r.reverse | _ => l

theorem stripCr_of_not_cr {l : Str} (h : l.getLast? ≠ some '\r') : stripCr l = l := by
  unfold stripCr
  split
  · rename_i r hr
    exfalso; apply h
    have : l = r.reverse ++ ['\r'] := by
      have := congrArg List.reverse hr
      simpa using this
    rw [this]; simp
  · rfl

theorem splitLines_eq (s : Str) :
    splitLines s =
      (let ps := Str.splitOn '\n' s
       let body := (ps.take (ps.length - 1)).map stripCr
       match ps.getLast? with
       | some [] => body
       | some lastp => body ++ [lastp]
       | none => body) := rfl

/-- the text of `write_lines ls` read back by `read_lines` -/
theorem splitLines_lines {ls : List Str} (hnl : ∀ l ∈ ls, '\n' ∉ l)
    (hcr : ∀ l ∈ ls, l.getLast? ≠ some '\r') :
    splitLines (ls.flatMap (· ++ ['\n'])) = ls := by
  rw [splitLines_eq, splitOn_flatMap_lines hnl]
  simp only [List.length_append, List.length_cons, List.length_nil, Nat.add_sub_cancel,
    List.take_left', List.getLast?_append, List.getLast?_singleton, Option.some_or]
  have : List.map stripCr ls = List.map id ls :=
    List.map_congr_left (fun l hl => stripCr_of_not_cr (hcr l hl))
  rw [this, List.map_id]

theorem splitLines_join {ls : List Str} (hne : ls ≠ []) (hnl : ∀ l ∈ ls, '\n' ∉ l)
    (hcr : ∀ l ∈ ls, l.getLast? ≠ some '\r') :
    splitLines (Str.joinWith '\n' ls ++ ['\n']) = ls := by
  rw [joinWith_append_nl hne, splitLines_lines hnl hcr]

/-! ### the side conditions of the round trip are exact -/

section
open Rivia.Str

theorem splitOn_length (sep : Char) (s : Str) : (splitOn sep s).length = s.count sep + 1 := by
  induction s with
  | nil => rfl
  | cons c cs ih =>
    by_cases h : c = sep
    · subst h; simp [splitOn, ih]
    · obtain ⟨hd, tl, h1, h2⟩ := splitOn_cons_of_ne h cs
      rw [h2, List.count_cons_of_ne (by simpa using h), ← ih, h1]; rfl

/-- text that ends in a newline: the lines are the `\n`-pieces of what precedes it, each stripped
    of one trailing `\r` -/
theorem splitLines_append_nl (t : Str) :
    splitLines (t ++ ['\n']) = (splitOn '\n' t).map stripCr := by
  rw [splitLines_eq]
  have : splitOn '\n' (t ++ ['\n']) = splitOn '\n' t ++ [[]] := splitOn_append_cons_sep '\n' t []
  rw [this]
  simp only [List.length_append, List.length_cons, List.length_nil, Nat.add_sub_cancel,
    List.take_left', List.getLast?_append, List.getLast?_singleton, Option.some_or]

theorem count_joinWith (sep : Char) (ls : List Str) (h : ls ≠ []) :
    (joinWith sep ls).count sep + 1 = (ls.map (·.count sep)).sum + ls.length := by
  induction ls with
  | nil => exact absurd rfl h
  | cons x r ih =>
    cases r with
    | nil => simp [joinWith]
    | cons y r' =>
      have := ih (by simp)
      simp only [joinWith, List.count_append, List.count_cons_self, List.map_cons, List.sum_cons,
        List.length_cons] at this ⊢
      omega

theorem stripCr_eq_self {l : Str} (h : stripCr l = l) : l.getLast? ≠ some '\r' := by
  intro hl
  obtain ⟨r, rfl⟩ : ∃ r, l = r ++ ['\r'] := by
    rcases List.getLast?_eq_some_iff.1 hl with ⟨r, hr⟩
    exact ⟨r, hr⟩
  have : stripCr (r ++ ['\r']) = r := by simp [stripCr]
  rw [this] at h
  have := congrArg List.length h
  simp at this

theorem sum_eq_zero_forall {l : List Nat} (h : l.sum = 0) : ∀ n ∈ l, n = 0 := by
  induction l with
  | nil => intro n hn; cases hn
  | cons a r ih =>
    simp only [List.sum_cons] at h
    intro n hn
    rcases List.mem_cons.1 hn with rfl | hn
    · omega
    · exact ih (by omega) n hn

theorem forall_of_map_eq_self {α} {f : α → α} {l : List α} (h : l.map f = l) : ∀ x ∈ l, f x = x := by
  induction l with
  | nil => intro x hx; cases hx
  | cons a r ih =>
    simp only [List.map_cons, List.cons.injEq] at h
    intro x hx
    rcases List.mem_cons.1 hx with rfl | hx
    · exact h.1
    · exact ih h.2 x hx

theorem splitLines_join_iff (ls : List Str) :
    splitLines (joinWith '\n' ls ++ ['\n']) = ls ↔
      ls ≠ [] ∧ (∀ l ∈ ls, '\n' ∉ l) ∧ (∀ l ∈ ls, l.getLast? ≠ some '\r') := by
  constructor
  · intro h
    have hne : ls ≠ [] := by
      rintro rfl
      revert h; decide
    rw [splitLines_append_nl] at h
    have hlen := congrArg List.length h
    rw [List.length_map, splitOn_length] at hlen
    have hc := count_joinWith '\n' ls hne
    have hsum : (ls.map (·.count '\n')).sum = 0 := by omega
    have hnl : ∀ l ∈ ls, '\n' ∉ l := by
      intro l hl
      have := sum_eq_zero_forall hsum (l.count '\n') (List.mem_map.2 ⟨l, hl, rfl⟩)
      exact List.count_eq_zero.1 this
    refine ⟨hne, hnl, ?_⟩
    rw [splitOn_joinWith hne hnl] at h
    intro l hl
    exact stripCr_eq_self (forall_of_map_eq_self h l hl)
  · rintro ⟨hne, hnl, hcr⟩
    exact splitLines_join hne hnl hcr
end

end Rivia.Lemmas
