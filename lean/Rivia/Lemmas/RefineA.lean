/-
  Rivia.Lemmas.RefineA — C01 (group A): the Memfs model refines the reference tree filesystem for
  the queries and the simple creators (`cwd … readlinkAbs, setCwd, mkfile, mkdirP, mkdirM,
  writeAll, appendAll`).

  Statement shape, per op:
    Inv s → EntriesOk s → specStep env (absS s) op = some (r, t') →
      ResMatch (step env s op).1 r ∧ (r ≠ .unspecified → TEquiv (absS (step env s op).2) t')

  `EntriesOk` is an extra per-entry invariant that `Inv` (C03) does not contain and without which
  the statement is false (concrete counterexamples: `Rivia/Props/C01A.lean`, `C01_cex_*`).
  `KeysWf` is defined here as requested but no group-A proof needs it.
-/
import Rivia.Spec.MemfsJudge
import Rivia.Lemmas.ModeBits

namespace Rivia.Lemmas.RefineA
open Rivia Rivia.Memfs Rivia.File Rivia.Spec Rivia.Spec.TreeFs Rivia.Lemmas.ModeBits

/-! ### association lists -/

theorem alLookup_alInsert {β} (k k' : FsPath) (v : β) (l : List (FsPath × β)) :
    alLookup k (alInsert k' v l) = if k' = k then some v else alLookup k l := by
  induction l with
  | nil => simp [alInsert, alLookup]
  | cons h t ih =>
    obtain ⟨a, b⟩ := h
    simp only [alInsert]
    by_cases h1 : a = k'
    · subst h1; simp only [if_true, alLookup]; split <;> simp_all
    · simp only [h1, if_false, alLookup, ih]
      by_cases h2 : a = k
      · subst h2; simp [Ne.symm h1]
      · simp [h2]

theorem mem_of_alLookup {β} {k : FsPath} {v : β} {l : List (FsPath × β)}
    (h : alLookup k l = some v) : (k, v) ∈ l := by
  induction l with
  | nil => simp [alLookup] at h
  | cons x t ih =>
    obtain ⟨a, b⟩ := x
    simp only [alLookup] at h
    by_cases h1 : a = k
    · subst h1; simp only [if_true, Option.some.injEq] at h; subst h; exact List.mem_cons_self
    · simp only [h1, if_false] at h; exact List.mem_cons_of_mem _ (ih h)

/-! ### the abstraction, pointwise -/

/-- key fact (2): looking a key up in the abstraction = looking it up in the entry map, then `absNode` -/
theorem get_absS (s : State) (k : FsPath) :
    TreeFs.get (absS s) k = (alLookup k s.entries).map (absNode s k) := by
  unfold TreeFs.get absS
  simp only
  generalize s.entries = l
  induction l with
  | nil => rfl
  | cons h t ih =>
    obtain ⟨a, b⟩ := h
    simp only [List.map, alLookup]
    by_cases h1 : a = k
    · subst h1; simp
    · simp [h1, ih]

theorem get_put (t : T) (p : FsPath) (n : Node) (k : FsPath) :
    TreeFs.get (put t p n) k = if p = k then some n else TreeFs.get t k := by
  simp only [TreeFs.get, put, alLookup_alInsert]

theorem absNode_congr {s1 s2 : State} {k : FsPath} (e : Entry)
    (h : alLookup k s1.files = alLookup k s2.files) : absNode s1 k e = absNode s2 k e := by
  simp only [absNode, h]

/-! ### the relations of the refinement statement -/

/-- extensional equality of reference states (the order of the node list is irrelevant) -/
def TEquiv (a b : T) : Prop := a.cwd = b.cwd ∧ ∀ k, TreeFs.get a k = TreeFs.get b k

theorem TEquiv.refl (a : T) : TEquiv a a := ⟨rfl, fun _ => rfl⟩

/-- a model outcome is allowed by a reference result -/
def ResMatch : Outcome Val → R Val → Prop
  | _, .unspecified => True
  | .ok v, .ok w => v = w
  | .err k, .err (some k') => k = k'
  | .err _, .err none => True
  | _, _ => False

@[simp] theorem resMatch_unspec (o : Outcome Val) : ResMatch o .unspecified := by
  cases o <;> simp [ResMatch]
@[simp] theorem resMatch_ok (v w : Val) : ResMatch (.ok v) (.ok w) ↔ v = w := by simp [ResMatch]
@[simp] theorem resMatch_err_some (k k' : ErrKind) : ResMatch (.err k) (.err (some k')) ↔ k = k' := by
  simp [ResMatch]
@[simp] theorem resMatch_err_none (k : ErrKind) : ResMatch (.err k) (.err none) := by simp [ResMatch]

/-- names of keys: non-empty, no `/`, not `.` or `..` -/
def nameOk (n : Str) : Bool := decide (n ≠ []) && decide ('/' ∉ n) && decide (n ≠ ['.']) && decide (n ≠ ['.', '.'])
def keyOk (k : FsPath) : Bool := k.all nameOk
def KeysWf (s : State) : Prop :=
  (s.entries.all (fun kv => keyOk kv.1) && s.files.all (fun kv => keyOk kv.1) && keyOk s.cwd) = true
instance (s : State) : Decidable (KeysWf s) := by unfold KeysWf; infer_instance

/-- per-entry well-formedness that `Inv` does not state: exactly one of `dir`/`file`; the mode is
    canonical: it carries the type bits of the kind and, beyond them, permission bits only (true of
    every `optsMode` result since the `mode_type_bits` repair); a link has a target and `rel` is that
    target relative to the link's directory -/
def entryOkB (k : FsPath) (e : Entry) : Bool :=
  decide (e.dir = !e.file) &&
  (decide (e.mode &&& typeBits (kindOf e) = typeBits (kindOf e)) &&
    decide (e.mode - typeBits (kindOf e) < 0o10000)) &&
  (!e.link || match e.alt with
    | some t => decide (e.rel = relative (renderP t) (renderP k.dropLast))
    | none => false)

def EntriesOk (s : State) : Prop := s.entries.all (fun kv => entryOkB kv.1 kv.2) = true
instance (s : State) : Decidable (EntriesOk s) := by unfold EntriesOk; infer_instance

structure EntryFacts (k : FsPath) (e : Entry) : Prop where
  flags : e.dir = !e.file
  modeWf : e.mode &&& typeBits (kindOf e) = typeBits (kindOf e)
  permWf : e.mode - typeBits (kindOf e) < 0o10000
  link : e.link = true → ∃ t, e.alt = some t ∧ e.rel = relative (renderP t) (renderP k.dropLast)

theorem entriesOk_lookup {s : State} (h : EntriesOk s) {k : FsPath} {e : Entry}
    (hk : alLookup k s.entries = some e) : EntryFacts k e := by
  have hm := mem_of_alLookup hk
  have h1 := List.all_eq_true.mp h _ hm
  simp only [entryOkB, Bool.and_eq_true, decide_eq_true_eq, Bool.or_eq_true, Bool.not_eq_true'] at h1
  obtain ⟨⟨h1, h2⟩, h3⟩ := h1
  refine ⟨h1, h2.1, h2.2, ?_⟩
  intro hl
  rcases h3 with h3 | h3
  · rw [hl] at h3; cases h3
  · cases ha : e.alt with
    | none => rw [ha] at h3; cases h3
    | some t => rw [ha] at h3; exact ⟨t, rfl, by simpa using h3⟩

/-! ### what `Inv` gives -/

structure InvFacts (s : State) : Prop where
  rootAbs : s.root = []
  rootDir : ∃ e, alLookup [] s.entries = some e ∧ e.dir = true ∧ e.link = false
  parent : ∀ k e, alLookup k s.entries = some e → k ≠ [] →
    ∃ pe fs, alLookup k.dropLast s.entries = some pe ∧ pe.dir = true ∧ pe.link = false ∧
      pe.files = some fs ∧ baseName k ∈ fs
  listed : ∀ k e fs n, alLookup k s.entries = some e → e.files = some fs → n ∈ fs →
    ∃ x, alLookup (k ++ [n]) s.entries = some x
  data : ∀ k e, alLookup k s.entries = some e → (alLookup k s.files).isSome = (e.file && !e.link)
  dangling : ∀ k, alLookup k s.entries = none → alLookup k s.files = none

theorem inv_facts {s : State} (h : Spec.Inv s) : InvFacts s := by
  unfold Spec.Inv invViolation at h
  simp only at h
  split at h
  · cases h
  split at h
  · cases h
  split at h
  · cases h
  split at h
  · cases h
  split at h
  · cases h
  split at h
  · cases h
  split at h
  · cases h
  split at h
  · cases h
  split at h
  · cases h
  split at h
  · cases h
  split at h
  · cases h
  rename_i _ hroot hrabs _ hpar _ hlist _ hdata _ hdang _ _ _ _ _ _ _
  refine ⟨by simpa using hrabs, ?_, ?_, ?_, ?_, ?_⟩
  · cases hr : alLookup [] s.entries with
    | none => simp [hr] at hroot
    | some e =>
      refine ⟨e, rfl, ?_⟩
      simp [hr] at hroot
      exact hroot
  · intro k e hk hne
    have hm := mem_of_alLookup hk
    have := List.find?_eq_none.mp hpar _ hm
    simp only [hne, ne_eq, not_false_eq_true, decide_true, Bool.true_and] at this
    cases hp : alLookup k.dropLast s.entries with
    | none => simp [hp] at this
    | some pe =>
      simp only [hp, Bool.not_eq_true'] at this
      replace this := Bool.of_not_eq_false this
      simp only [Bool.and_eq_true, Bool.not_eq_true'] at this
      obtain ⟨⟨h1, h2⟩, h3⟩ := this
      cases hf : pe.files with
      | none => simp [hf] at h3
      | some fs =>
        simp only [hf, List.contains_eq_mem, decide_eq_true_eq] at h3
        exact ⟨pe, fs, rfl, h1, h2, hf, h3⟩
  · intro k e fs n hk hf hn
    have hm := mem_of_alLookup hk
    have := List.find?_eq_none.mp hlist _ hm
    simp only [hf, List.any_eq_true, not_exists, not_and, Bool.not_eq_true, Option.isNone_eq_false_iff] at this
    have h2 := this n hn
    cases hx : alLookup (k ++ [n]) s.entries with
    | none => simp [hx] at h2
    | some x => exact ⟨x, rfl⟩
  · intro k e hk
    have hm := mem_of_alLookup hk
    have := List.find?_eq_none.mp hdata _ hm
    simp only [bne_iff_ne, ne_eq, Decidable.not_not] at this
    exact this.symm
  · intro k hk
    cases hf : alLookup k s.files with
    | none => rfl
    | some b =>
      have hm := mem_of_alLookup hf
      have := List.find?_eq_none.mp hdang _ hm
      simp [hk] at this

/-! ### evaluating the state monad -/

theorem M_bind_apply {α β} (m : M α) (f : α → M β) (s : State) :
    (m >>= f) s = match m s with
      | (.ok a, s') => f a s'
      | (.err k, s') => (.err k, s')
      | (.panic, s') => (.panic, s')
      | (.hang, s') => (.hang, s') := rfl
theorem M_pure_apply {α} (a : α) (s : State) : (Pure.pure a : M α) s = (.ok a, s) := rfl

/-- unfold the monad plumbing -/
macro "msimp" : tactic => `(tactic| simp only [mapVal, M_bind_apply, M_pure_apply, M.pure, M.fail, M.liftO, M.modify, M.get,
  getEntry, getFile, setFile, setEntry, Bool.not_true, Bool.not_false, Bool.false_eq_true, if_true, if_false])
macro "msimp" "[" ls:Lean.Parser.Tactic.simpLemma,* "]" : tactic =>
  `(tactic| simp only [mapVal, M_bind_apply, M_pure_apply, M.pure, M.fail, M.liftO, M.modify, M.get,
  getEntry, getFile, setFile, setEntry, Bool.not_true, Bool.not_false, Bool.false_eq_true, if_true, if_false, $ls,*])

/-- key fact (1): both sides resolve the user path with the same function -/
theorem absM_eq (env : Env) (p : Str) (s : State) : absM env p s = (resolve env (absS s) p, s) := by
  unfold absM resolve
  have hc : (absS s).cwd = s.cwd := rfl
  rw [hc]
  generalize absWith env (renderP s.cwd) p = o
  cases o <;> rfl

/-- one step of the model simulates one step of the reference -/
def Sim (m : Outcome Val × State) (x : SR) : Prop :=
  ResMatch m.1 x.1 ∧ (x.1 ≠ .unspecified → TEquiv (absS m.2) x.2)

theorem sim_same {s : State} {o : Outcome Val} {r : R Val} (h : ResMatch o r) : Sim (o, s) (r, absS s) :=
  ⟨h, fun _ => TEquiv.refl _⟩

theorem sim_unspec (m : Outcome Val × State) (t : T) : Sim m (.unspecified, t) :=
  ⟨resMatch_unspec _, fun h => absurd rfl h⟩

/-- model `abs` then `m`, reference `withPath` then `k` -/
theorem sim_withPath {α} (env : Env) (p : Str) (s : State) (v : α → Val) (m : FsPath → M α)
    (k : FsPath → SR) (h : ∀ a, Sim (mapVal v (m a) s) (k a)) :
    Sim (mapVal v (absM env p >>= m) s) (withPath env (absS s) p k) := by
  unfold withPath mapVal
  simp only [M_bind_apply, absM_eq]
  cases hr : resolve env (absS s) p with
  | ok a => exact h a
  | err e => exact sim_same (by simp)
  | panic => exact sim_unspec _ _
  | hang => exact sim_unspec _ _

/-! ### queries -/

theorem sim_boolQ (env : Env) (p : Str) (s : State) (f : Entry → Bool) (g : FsPath → Bool)
    (h : ∀ a, g a = match alLookup a s.entries with | some e => f e | none => false) :
    Sim (boolQuery env p f s) (boolQ env (absS s) p g) := by
  unfold boolQuery boolQ
  simp only [absM_eq]
  cases hr : resolve env (absS s) p with
  | ok a => exact sim_same (by rw [resMatch_ok, h]; cases alLookup a s.entries <;> rfl)
  | err e => exact sim_same (by simp)
  | panic => exact sim_unspec _ _
  | hang => exact sim_unspec _ _

theorem sim_nodeQ {α} (env : Env) (p : Str) (s : State) (f : Entry → α) (v : α → Val) (g : Node → Val)
    (h : ∀ a e, alLookup a s.entries = some e → g (absNode s a e) = v (f e)) :
    Sim (mapVal v (entryQuery env p f) s) (nodeQ env (absS s) p g) := by
  unfold nodeQ
  refine sim_withPath env p s v _ _ ?_
  intro a
  simp only [mapVal, M_bind_apply, getEntry, get_absS]
  cases he : alLookup a s.entries with
  | none => exact sim_same (by simp)
  | some e => exact sim_same (by simp [h a e he])


/-! ### kind / mode of the abstraction of an entry -/

theorem or_sub_of_and_eq (t : Nat) : ∀ m, m &&& t = t → t ||| (m - t) = m := by
  induction t using Nat.strongRecOn with
  | ind t ih =>
    intro m h
    by_cases ht : t = 0
    · subst ht; simp
    · have hd : m / 2 &&& t / 2 = t / 2 := by rw [← Nat.and_div_two, h]
      have hm : t % 2 = 1 → m % 2 = 1 := by
        intro h1
        have : (m &&& t) % 2 = 1 := by rw [h]; exact h1
        exact (Nat.and_mod_two_eq_one.mp this).1
      have hle : t ≤ m := by rw [← h]; exact Nat.and_le_left
      have ih' := ih (t / 2) (by omega) (m / 2) hd
      have hle2 : t / 2 ≤ m / 2 := by omega
      have e1 : (m - t) / 2 = m / 2 - t / 2 := by omega
      have hdiv : (t ||| (m - t)) / 2 = m / 2 := by rw [Nat.or_div_two, e1, ih']
      have hmod : (t ||| (m - t)) % 2 = m % 2 := by
        have hor := @Nat.or_mod_two_eq_one t (m - t)
        rcases Nat.mod_two_eq_zero_or_one (t ||| (m - t)) with h0 | h1
        · rcases Nat.mod_two_eq_zero_or_one m with g0 | g1
          · omega
          · exfalso
            have : t % 2 = 1 ∨ (m - t) % 2 = 1 := by omega
            have := hor.mpr this
            omega
        · have := hor.mp h1
          omega
      omega

/-- a mode that carries the type bits `T` and nothing else above the permission bits is canonical -/
theorem canon_of_wf (m T : Nat) (hT0 : T &&& 0o7777 = 0) (hw : m &&& T = T) (hp : m - T < 0o10000) :
    (m &&& 0o7777) ||| T = m := by
  have hm := or_sub_of_and_eq _ _ hw
  generalize hq : m - T = q at *
  have hq' := and_perm_of_lt q hp
  have h1 : m &&& 0o7777 = q := by rw [← hm, Nat.and_or_distrib_right, hT0, hq']; simp
  rw [h1, Nat.or_comm]; exact hm

theorem absNode_mode {s : State} {k : FsPath} {e : Entry} (h : EntryFacts k e) :
    (absNode s k e).mode = e.mode := by
  simp only [Node.mode, absNode]
  exact or_sub_of_and_eq _ _ h.modeWf

theorem kind_dir_iff (e : Entry) : (kindOf e = .dir) ↔ (e.dir = true ∧ e.link = false) := by
  unfold kindOf; cases e.link <;> cases e.dir <;> simp

theorem kind_file_iff {k : FsPath} {e : Entry} (h : EntryFacts k e) :
    (kindOf e = .file) ↔ (e.file = true ∧ e.link = false) := by
  have := h.flags
  unfold kindOf; cases hl : e.link <;> cases hd : e.dir <;> cases hf : e.file <;> simp_all

theorem kind_link_iff (e : Entry) (b : Bool) : (kindOf e = .link b) ↔ (e.link = true ∧ e.dir = b) := by
  unfold kindOf; cases e.link <;> cases e.dir <;> simp

/-! ### the group-A queries -/

variable (env : Env) (s : State)

theorem sim_cwd : Sim (step env s .cwd) (.ok (.path (absS s).cwd), absS s) := sim_same (by simp [absS])

theorem sim_root (hI : InvFacts s) : Sim (step env s .root) (.ok (.path []), absS s) :=
  sim_same (by simp [hI.rootAbs])

theorem sim_abs (p : Str) :
    Sim (step env s (.abs p)) (withPath env (absS s) p fun a => (.ok (.path a), absS s)) := by
  simp only [step, mapVal, withPath, absM_eq]
  cases hr : resolve env (absS s) p with
  | ok a => exact sim_same (by simp)
  | err e => exact sim_same (by simp)
  | panic => exact sim_unspec _ _
  | hang => exact sim_unspec _ _

section
variable (p : Str)

theorem sim_exists : Sim (step env s (.exists p)) (boolQ env (absS s) p fun a => (TreeFs.get (absS s) a).isSome) := by
  refine sim_boolQ env p s _ _ fun a => ?_
  rw [get_absS]; cases alLookup a s.entries <;> rfl

theorem sim_isDir : Sim (step env s (.isDir p)) (boolQ env (absS s) p (TreeFs.isDir (absS s))) := by
  refine sim_boolQ env p s _ _ fun a => ?_
  simp only [TreeFs.isDir, get_absS]
  cases he : alLookup a s.entries with
  | none => rfl
  | some e =>
    have := kind_dir_iff e
    simp only [Option.map, absNode]
    cases hd : e.dir <;> cases hl : e.link <;> simp_all

theorem sim_isFile (hOk : EntriesOk s) : Sim (step env s (.isFile p)) (boolQ env (absS s) p (TreeFs.isFile (absS s))) := by
  refine sim_boolQ env p s _ _ fun a => ?_
  simp only [TreeFs.isFile, get_absS]
  cases he : alLookup a s.entries with
  | none => rfl
  | some e =>
    have := kind_file_iff (entriesOk_lookup hOk he)
    simp only [Option.map, absNode]
    cases hd : e.file <;> cases hl : e.link <;> simp_all

theorem sim_isSymlink : Sim (step env s (.isSymlink p)) (boolQ env (absS s) p (TreeFs.isLink (absS s))) := by
  refine sim_boolQ env p s _ _ fun a => ?_
  simp only [TreeFs.isLink, get_absS]
  cases he : alLookup a s.entries with
  | none => rfl
  | some e =>
    simp only [Option.map, absNode, kindOf]
    cases hd : e.dir <;> cases hl : e.link <;> simp

theorem sim_isSymlinkDir : Sim (step env s (.isSymlinkDir p))
    (boolQ env (absS s) p fun a => match TreeFs.get (absS s) a with | some n => n.kind = .link true | none => false) := by
  refine sim_boolQ env p s _ _ fun a => ?_
  simp only [get_absS]
  cases he : alLookup a s.entries with
  | none => rfl
  | some e =>
    simp only [Option.map, absNode, kindOf]
    cases hd : e.dir <;> cases hl : e.link <;> simp

theorem sim_isSymlinkFile (hOk : EntriesOk s) : Sim (step env s (.isSymlinkFile p))
    (boolQ env (absS s) p fun a => match TreeFs.get (absS s) a with | some n => n.kind = .link false | none => false) := by
  refine sim_boolQ env p s _ _ fun a => ?_
  simp only [get_absS]
  cases he : alLookup a s.entries with
  | none => rfl
  | some e =>
    have := (entriesOk_lookup hOk he).flags
    simp only [Option.map, absNode, kindOf]
    cases hd : e.dir <;> cases hl : e.link <;> cases hf : e.file <;> simp_all

theorem sim_isExec (hOk : EntriesOk s) : Sim (step env s (.isExec p))
    (boolQ env (absS s) p fun a => match TreeFs.get (absS s) a with | some n => n.mode &&& 0o111 != 0 | none => false) := by
  refine sim_boolQ env p s _ _ fun a => ?_
  simp only [get_absS]
  cases he : alLookup a s.entries with
  | none => rfl
  | some e => simp only [Option.map, absNode_mode (entriesOk_lookup hOk he), isExecE]

theorem sim_isReadonly (hOk : EntriesOk s) : Sim (step env s (.isReadonly p))
    (boolQ env (absS s) p fun a => match TreeFs.get (absS s) a with | some n => n.mode &&& 0o222 == 0 | none => false) := by
  refine sim_boolQ env p s _ _ fun a => ?_
  simp only [get_absS]
  cases he : alLookup a s.entries with
  | none => rfl
  | some e => simp only [Option.map, absNode_mode (entriesOk_lookup hOk he), isReadonlyE]

theorem sim_mode (hOk : EntriesOk s) : Sim (step env s (.mode p)) (nodeQ env (absS s) p fun n => .nat n.mode) :=
  sim_nodeQ env p s _ _ _ fun _ _ he => by rw [absNode_mode (entriesOk_lookup hOk he)]

theorem sim_uid : Sim (step env s (.uid p)) (nodeQ env (absS s) p fun n => .nat n.uid) :=
  sim_nodeQ env p s _ _ _ fun _ _ _ => rfl

theorem sim_gid : Sim (step env s (.gid p)) (nodeQ env (absS s) p fun n => .nat n.gid) :=
  sim_nodeQ env p s _ _ _ fun _ _ _ => rfl

theorem sim_owner : Sim (step env s (.owner p)) (nodeQ env (absS s) p fun n => .pair n.uid n.gid) :=
  sim_nodeQ env p s _ _ _ fun _ _ _ => rfl

end


section
variable (p : Str)

/-- `_clone_file` after path resolution -/
def cloneK (p : FsPath) : M Bytes := do
  match (← getEntry p) with
  | some e => if !e.file then M.fail .isNotFile else M.pure ()
  | none => M.pure ()
  match (← getFile p) with
  | some b => return b
  | none => M.fail .doesNotExist

theorem cloneFileM_eq : cloneFileM env p = absM env p >>= cloneK := rfl

theorem cloneK_spec (hI : InvFacts s) (hOk : EntriesOk s) (a : FsPath) :
    ∃ o, cloneK a s = (o, s) ∧
      match TreeFs.get (absS s) a with
      | none => o = .err .doesNotExist
      | some n => if n.kind = .file then o = .ok n.data
        else if n.kind = .dir then o = .err .isNotFile else ∃ k, o = .err k := by
  simp only [get_absS, cloneK]
  cases he : alLookup a s.entries with
  | none =>
    msimp [he, hI.dangling a he, Option.map]
    exact ⟨_, rfl, rfl⟩
  | some e =>
    have hf := entriesOk_lookup hOk he
    have hdata := hI.data a e he
    have hk : (absNode s a e).kind = kindOf e := rfl
    simp only [hk, Option.map]
    by_cases hkf : kindOf e = .file
    · obtain ⟨h1, h2⟩ := (kind_file_iff hf).mp hkf
      rw [h1, h2] at hdata
      cases hb : alLookup a s.files with
      | none => simp [hb] at hdata
      | some b =>
        msimp [he, h1, hkf, if_true, Bool.not_true, Bool.false_eq_true, if_false, hb, absNode, h2, Option.getD]
        exact ⟨_, rfl, rfl⟩
    · simp only [hkf, if_false]
      by_cases hkd : kindOf e = .dir
      · obtain ⟨h1, h2⟩ := (kind_dir_iff e).mp hkd
        have h3 : e.file = false := by
          have := hf.flags; rw [h1] at this
          cases hh : e.file with
          | false => rfl
          | true => rw [hh] at this; exact absurd this (by decide)
        msimp [he, h3, hkd, if_true, Bool.not_false]
        exact ⟨_, rfl, rfl⟩
      · simp only [hkd, if_false]
        have h2 : e.link = true := by
          cases hl : e.link
          · exfalso; have := hf.flags
            unfold kindOf at hkf hkd
            cases hd : e.dir <;> simp_all
          · rfl
        cases h3 : e.file
        · msimp [he, h3, Bool.not_false, if_true]
          exact ⟨_, rfl, _, rfl⟩
        · rw [h2, h3] at hdata
          have hb : alLookup a s.files = none := by cases hb : alLookup a s.files <;> simp_all
          msimp [he, h3, Bool.not_true, Bool.false_eq_true, if_false, hb]
          exact ⟨_, rfl, _, rfl⟩

theorem sim_read (hI : InvFacts s) (hOk : EntriesOk s) : Sim (step env s (.read p))
    (withPath env (absS s) p fun a =>
      match TreeFs.get (absS s) a with
      | none => (.err (some .doesNotExist), absS s)
      | some n => if n.kind = .file then (.ok (.bytes n.data), absS s)
        else if n.kind = .dir then (.err (some .isNotFile), absS s) else (.err none, absS s)) := by
  refine sim_withPath env p s Val.bytes cloneK _ ?_
  intro a
  obtain ⟨o, h1, h2⟩ := cloneK_spec s hI hOk a
  simp only [mapVal, h1]
  cases hg : TreeFs.get (absS s) a with
  | none => rw [hg] at h2; subst h2; exact sim_same (by simp)
  | some n =>
    rw [hg] at h2
    simp only at h2 ⊢
    by_cases hk : n.kind = .file
    · rw [if_pos hk] at h2 ⊢; subst h2; exact sim_same (by simp)
    · rw [if_neg hk] at h2 ⊢
      by_cases hk2 : n.kind = .dir
      · rw [if_pos hk2] at h2 ⊢; subst h2; exact sim_same (by simp)
      · rw [if_neg hk2] at h2 ⊢; obtain ⟨k, rfl⟩ := h2; exact sim_same (by simp)

theorem sim_readAll (hI : InvFacts s) (hOk : EntriesOk s) : Sim (step env s (.readAll p))
    (withPath env (absS s) p fun a =>
      match TreeFs.get (absS s) a with
      | none => (.err (some .doesNotExist), absS s)
      | some n => if n.kind = .file then
          (match decodeUtf8 n.data with | some x => (.ok (.str x), absS s) | none => (.err none, absS s))
        else if n.kind = .dir then (.err (some .isNotFile), absS s) else (.err none, absS s)) := by
  simp only [step, readAllM, cloneFileM_eq, mapVal, M_bind_apply, absM_eq, withPath]
  cases hr : resolve env (absS s) p with
  | err e => exact sim_same (by simp)
  | panic => exact sim_unspec _ _
  | hang => exact sim_unspec _ _
  | ok a =>
    obtain ⟨o, h1, h2⟩ := cloneK_spec s hI hOk a
    simp only [h1]
    cases hg : TreeFs.get (absS s) a with
    | none => rw [hg] at h2; subst h2; exact sim_same (by simp)
    | some n =>
      rw [hg] at h2
      simp only at h2 ⊢
      by_cases hk : n.kind = .file
      · rw [if_pos hk] at h2 ⊢; subst h2
        simp only
        cases decodeUtf8 n.data with
        | none => exact sim_same (by simp)
        | some x => exact sim_same (by simp)
      · rw [if_neg hk] at h2 ⊢
        by_cases hk2 : n.kind = .dir
        · rw [if_pos hk2] at h2 ⊢; subst h2; exact sim_same (by simp)
        · rw [if_neg hk2] at h2 ⊢; obtain ⟨k, rfl⟩ := h2; exact sim_same (by simp)


theorem sim_readlinkAbs (hOk : EntriesOk s) : Sim (step env s (.readlinkAbs p))
    (withPath env (absS s) p fun a =>
      match TreeFs.get (absS s) a with
      | some n => (match n.kind, n.target with
        | .link _, some tg => (.ok (.path tg), absS s)
        | _, _ => (.err none, absS s))
      | none => (.err none, absS s)) := by
  refine sim_withPath env p s Val.path _ _ ?_
  intro a
  simp only [get_absS]
  cases he : alLookup a s.entries with
  | none => msimp [he, Option.map]; exact sim_same (by simp)
  | some e =>
    have hf := entriesOk_lookup hOk he
    cases hl : e.link with
    | false =>
      msimp [he, hl, Option.map, absNode, kindOf]
      cases e.dir <;> exact sim_same (by simp)
    | true =>
      obtain ⟨tg, h1, h2⟩ := hf.link hl
      msimp [he, hl, Option.map, absNode, kindOf, h1]
      exact sim_same (by simp)

theorem sim_readlink (hOk : EntriesOk s) : Sim (step env s (.readlink p))
    (withPath env (absS s) p fun a =>
      match TreeFs.get (absS s) a with
      | some n => (match n.kind, n.target with
        | .link _, some tg => (.ok (.str (relative (renderP tg) (renderP a.dropLast))), absS s)
        | _, _ => (.err none, absS s))
      | none => (.err none, absS s)) := by
  refine sim_withPath env p s Val.str _ _ ?_
  intro a
  simp only [get_absS]
  cases he : alLookup a s.entries with
  | none => msimp [he, Option.map]; exact sim_same (by simp)
  | some e =>
    have hf := entriesOk_lookup hOk he
    cases hl : e.link with
    | false =>
      msimp [he, hl, Option.map, absNode, kindOf]
      cases e.dir <;> exact sim_same (by simp)
    | true =>
      obtain ⟨tg, h1, h2⟩ := hf.link hl
      msimp [he, hl, Option.map, absNode, kindOf, h1]
      exact sim_same (by simp [h2])

theorem sim_setCwd : Sim (step env s (.setCwd p))
    (withPath env (absS s) p fun a => liftR .path (setCwd (absS s) a)) := by
  refine sim_withPath env p s Val.path _ _ ?_
  intro a
  simp only [TreeFs.setCwd, get_absS]
  cases he : alLookup a s.entries with
  | none => msimp [he, Option.map, liftR]; exact sim_same (by simp)
  | some e =>
    have hk : (absNode s a e).kind = kindOf e := rfl
    simp only [Option.map, hk]
    by_cases hkd : kindOf e = .dir
    · obtain ⟨h1, h2⟩ := (kind_dir_iff e).mp hkd
      msimp [he, h1, hkd, liftR]
      refine ⟨by simp, fun _ => ⟨rfl, fun k => ?_⟩⟩
      rfl
    · simp only [hkd, if_false]
      by_cases hkl : kindOf e = .link true
      · simp only [hkl, if_true, liftR]; exact sim_unspec _ _
      · simp only [hkl, if_false, liftR]
        have hd : e.dir = false := by
          unfold kindOf at hkd hkl
          cases hl : e.link <;> cases hd : e.dir <;> simp_all
        msimp [he, hd]
        exact sim_same (by simp)

end

/-! ### `_add` in closed form -/

def addSpec (e : Entry) (s : State) : Outcome FsPath × State :=
  if e.path = [] then (.ok [], s) else
  match alLookup e.path.dropLast s.entries with
  | none => (.err .doesNotExist, s)
  | some d => if !d.dir || d.link then (.err .isNotDir, s) else
    match alLookup e.path s.entries with
    | some x =>
      if e.file && !x.file then (.err .isNotFile, s)
      else if e.link && !x.link then (.err .isNotSymlink, s)
      else if e.dir && !x.dir then (.err .isNotDir, s)
      else (.ok e.path, s)
    | none =>
      let files' := if !e.link && e.file then alInsert e.path [] s.files else s.files
      let ents2 := alInsert e.path e s.entries
      match alLookup e.path.dropLast ents2 with
      | some parent =>
        match parent.addChild (baseName e.path) with
        | .ok (isNew, parent') =>
          (if !isNew then .err .existsAlready else .ok e.path,
           { s with entries := alInsert e.path.dropLast parent' ents2, files := files' })
        | .err k => (.err k, { s with entries := ents2, files := files' })
        | .panic => (.panic, { s with entries := ents2, files := files' })
        | .hang => (.hang, { s with entries := ents2, files := files' })
      | none => (.ok e.path, { s with entries := ents2, files := files' })

theorem add_eq (e : Entry) (s : State) : add e s = addSpec e s := by
  unfold add addSpec
  by_cases h0 : e.path = []
  · simp [h0, M_pure_apply]
  · simp only [h0, if_false]
    simp only [M_bind_apply, getEntry]
    cases hd : alLookup e.path.dropLast s.entries with
    | none => rfl
    | some d =>
      simp only
      by_cases hdd : (!d.dir || d.link) = true
      · simp only [hdd, if_true]; rfl
      · simp only [hdd, if_false, M_bind_apply, getEntry, Bool.false_eq_true]
        cases hx : alLookup e.path s.entries with
        | some x =>
          simp only
          split
          · rfl
          · split
            · rfl
            · split <;> rfl
        | none =>
          simp only
          by_cases hf : (!e.link && e.file) = true
          · simp only [hf, if_true, M_bind_apply, setFile, setEntry, M.modify, getEntry]
            cases hp : alLookup e.path.dropLast (alInsert e.path e s.entries) with
            | none => rfl
            | some parent =>
              simp only [M_bind_apply, M.liftO]
              cases ha : parent.addChild (baseName e.path) with
              | ok r =>
                obtain ⟨b, p'⟩ := r
                simp only [M.modify]
                cases b <;> rfl
              | err k => rfl
              | panic => rfl
              | hang => rfl
          · simp only [hf, if_false, M_bind_apply, setFile, setEntry, M.modify, getEntry, Bool.false_eq_true]
            cases hp : alLookup e.path.dropLast (alInsert e.path e s.entries) with
            | none => rfl
            | some parent =>
              simp only [M_bind_apply, M.liftO]
              cases ha : parent.addChild (baseName e.path) with
              | ok r =>
                obtain ⟨b, p'⟩ := r
                simp only [M.modify]
                cases b <;> rfl
              | err k => rfl
              | panic => rfl
              | hang => rfl

/-! ### keys -/

theorem dropLast_ne {p : FsPath} (h : p ≠ []) : p.dropLast ≠ p := by
  intro h1
  have := congrArg List.length h1
  simp only [List.length_dropLast] at this
  have : 0 < p.length := List.length_pos_iff.mpr h
  omega

theorem dropLast_append_baseName {p : FsPath} (h : p ≠ []) : p.dropLast ++ [baseName p] = p := by
  unfold baseName
  rw [List.getLast?_eq_some_getLast h]
  exact List.dropLast_concat_getLast h

theorem insertName_new (n : Str) (fs : List Str) (h : n ∉ fs) : (insertName n fs).1 = true := by
  induction fs with
  | nil => rfl
  | cons x xs ih =>
    simp only [List.mem_cons, not_or] at h
    simp only [insertName, h.1, if_false]
    split
    · rfl
    · exact ih h.2

/-- creating a fresh entry under a real directory that does not list the name yet -/
theorem add_create (e : Entry) (s : State) (d : Entry) (hne : e.path ≠ [])
    (hd : alLookup e.path.dropLast s.entries = some d) (hdir : d.dir = true) (hlink : d.link = false)
    (hx : alLookup e.path s.entries = none)
    (hfresh : ∀ fs, d.files = some fs → baseName e.path ∉ fs) :
    ∃ fs', add e s = (.ok e.path,
      { s with entries := alInsert e.path.dropLast { d with files := some fs' } (alInsert e.path e s.entries),
               files := if !e.link && e.file then alInsert e.path [] s.files else s.files }) := by
  have hc : (!d.dir || d.link) = false := by rw [hdir, hlink]; rfl
  have hc2 : (!d.dir) = false := by rw [hdir]; rfl
  rw [add_eq]
  unfold addSpec
  simp only [hne, if_false, hd, hc, Bool.false_eq_true, hx, alLookup_alInsert, dropLast_ne hne |>.symm]
  unfold Entry.addChild
  simp only [hc2, Bool.false_eq_true, if_false]
  cases hf : d.files with
  | none => exact ⟨_, rfl⟩
  | some fs =>
    simp only
    have := insertName_new _ _ (hfresh fs hf)
    generalize insertName (baseName e.path) fs = r at this
    obtain ⟨b, fs'⟩ := r
    simp only at this
    subst this
    exact ⟨_, rfl⟩


/-- what the abstraction sees of a creation: one new node; the parent's child list is forgotten -/
theorem absS_create (s : State) (q : FsPath) (e d : Entry) (fs' : List Str) (files' : List (FsPath × Bytes))
    (hne : q ≠ []) (hd : alLookup q.dropLast s.entries = some d)
    (hfiles : ∀ k, k ≠ q → alLookup k files' = alLookup k s.files) (k : FsPath) :
    TreeFs.get (absS { s with entries := alInsert q.dropLast { d with files := some fs' } (alInsert q e s.entries),
                              files := files' }) k =
      if q = k then some (absNode { s with files := files' } q e) else TreeFs.get (absS s) k := by
  simp only [get_absS, alLookup_alInsert]
  by_cases h1 : q.dropLast = k
  · subst h1
    simp only [if_true, dropLast_ne hne |>.symm, if_false, hd, Option.map]
    congr 1
    simp only [absNode, kindOf, hfiles _ (dropLast_ne hne)]
  · simp only [h1, if_false]
    by_cases h2 : q = k
    · subst h2; simp only [if_true, Option.map]; rfl
    · simp only [h2, if_false]
      cases alLookup k s.entries with
      | none => rfl
      | some x =>
        simp only [Option.map]
        congr 1
        exact absNode_congr x (hfiles k (Ne.symm h2))

/-- overwriting the bytes stored for `p` -/
theorem absS_setFile (s : State) (p : FsPath) (b : Bytes) (k : FsPath) :
    TreeFs.get (absS { s with files := alInsert p b s.files }) k =
      if p = k then (alLookup p s.entries).map (fun e => { absNode s p e with data := if e.link then [] else b })
      else TreeFs.get (absS s) k := by
  simp only [get_absS]
  by_cases h : p = k
  · subst h
    simp only [if_true]
    cases alLookup p s.entries with
    | none => rfl
    | some e => simp only [Option.map, absNode, alLookup_alInsert, if_true, Option.getD]
  · simp only [h, if_false]
    cases alLookup k s.entries with
    | none => rfl
    | some e =>
      simp only [Option.map]
      congr 1
      apply absNode_congr
      simp only [alLookup_alInsert, h, if_false]

theorem parentCheck_eq (s : State) (p : FsPath) (hne : p ≠ []) :
    parentCheck (absS s) p = match alLookup p.dropLast s.entries with
      | none => some (some .doesNotExist)
      | some d => if d.dir = true ∧ d.link = false then none else some (some .isNotDir) := by
  simp only [parentCheck, hne, if_false, get_absS]
  cases hd : alLookup p.dropLast s.entries with
  | none => rfl
  | some d =>
    have hk : (absNode s p.dropLast d).kind = kindOf d := rfl
    simp only [Option.map, hk, kind_dir_iff]

theorem absNode_mkFileEntry (s : State) (p : FsPath) :
    absNode s p (mkFileEntry p) = { newFile with data := (alLookup p s.files).getD [] } := by
  simp [absNode, mkFileEntry, kindOf, optsMode, defaultMode, typeBits, newFile]

theorem bool_flag {a b : Bool} (h : a = !b) (ha : a = true) : b = false := by cases b <;> simp_all

theorem isSome_false_eq_none {α} {o : Option α} (h : o.isSome = false) : o = none := by
  cases o <;> simp_all

/-- the cases of `_add(file entry at p)` against the reference's checks -/
inductive AddFile (s : State) (p : FsPath) : Prop
  | root : p = [] → add (mkFileEntry p) s = (.ok p, s) → alLookup p s.files = none → AddFile s p
  | parentErr (k : ErrKind) : p ≠ [] → parentCheck (absS s) p = some (some k) →
      add (mkFileEntry p) s = (.err k, s) → AddFile s p
  | isFile (x : Entry) (b : Bytes) : p ≠ [] → parentCheck (absS s) p = none →
      alLookup p s.entries = some x → kindOf x = .file → x.link = false → alLookup p s.files = some b →
      add (mkFileEntry p) s = (.ok p, s) → AddFile s p
  | notFile (x : Entry) : p ≠ [] → parentCheck (absS s) p = none →
      alLookup p s.entries = some x → kindOf x ≠ .file → alLookup p s.files = none →
      (add (mkFileEntry p) s = (.err .isNotFile, s) ∨ (add (mkFileEntry p) s = (.ok p, s) ∧ kindOf x ≠ .dir)) →
      AddFile s p
  | create (s' : State) : p ≠ [] → parentCheck (absS s) p = none → alLookup p s.entries = none →
      add (mkFileEntry p) s = (.ok p, s') → s'.files = alInsert p [] s.files → s'.cwd = s.cwd →
      alLookup p s'.entries = some (mkFileEntry p) →
      (∀ k, TreeFs.get (absS s') k = if p = k then some newFile else TreeFs.get (absS s) k) → AddFile s p

theorem addFile_cases (s : State) (hI : InvFacts s) (hOk : EntriesOk s) (p : FsPath) : AddFile s p := by
  have hpath : (mkFileEntry p).path = p := rfl
  by_cases hne : p = []
  · subst hne
    obtain ⟨e, he, hd, hl⟩ := hI.rootDir
    have hfl := (entriesOk_lookup hOk he).flags
    have hdata := hI.data [] e he
    refine .root rfl (by rw [add_eq]; rfl) ?_
    have : e.file = false := bool_flag hfl hd
    rw [this] at hdata
    exact isSome_false_eq_none hdata
  · have hpc := parentCheck_eq s p hne
    cases hd : alLookup p.dropLast s.entries with
    | none =>
      rw [hd] at hpc
      refine .parentErr _ hne hpc ?_
      rw [add_eq]; unfold addSpec
      simp only [hpath, hne, if_false, hd]
    | some d =>
      rw [hd] at hpc
      by_cases hdd : d.dir = true ∧ d.link = false
      · simp only [hdd, and_self, if_true] at hpc
        have hc : (!d.dir || d.link) = false := by rw [hdd.1, hdd.2]; rfl
        cases hx : alLookup p s.entries with
        | none =>
          obtain ⟨fs', hadd⟩ := add_create (mkFileEntry p) s d (by rw [hpath]; exact hne) (by rw [hpath]; exact hd)
            hdd.1 hdd.2 (by rw [hpath]; exact hx) (by
              intro fs hfs hmem
              rw [hpath] at hmem
              obtain ⟨x, hx'⟩ := hI.listed _ d fs _ hd hfs hmem
              rw [dropLast_append_baseName hne, hx] at hx'
              cases hx')
          replace hadd : add (mkFileEntry p) s = (.ok p, { s with
              entries := alInsert p.dropLast { d with files := some fs' } (alInsert p (mkFileEntry p) s.entries),
              files := alInsert p [] s.files }) := hadd
          refine .create _ hne hpc hx hadd rfl rfl ?_ ?_
          · simp only [alLookup_alInsert, dropLast_ne hne, if_false, if_true]
          · intro k
            have := absS_create s p (mkFileEntry p) d fs' (alInsert p [] s.files) hne hd
              (by intro k hk; simp only [alLookup_alInsert, Ne.symm hk, if_false]) k
            rw [this]
            by_cases hpk : p = k
            · simp only [hpk, if_true, absNode_mkFileEntry, alLookup_alInsert, Option.getD]
              rfl
            · simp only [hpk, if_false]
        | some x =>
          have hfx := entriesOk_lookup hOk hx
          have hdata := hI.data p x hx
          have hadd : add (mkFileEntry p) s =
              if !x.file then (.err .isNotFile, s) else (.ok p, s) := by
            rw [add_eq]; unfold addSpec
            simp only [hpath, hne, if_false, hd, hc, Bool.false_eq_true, hx]
            cases x.file <;> rfl
          by_cases hkf : kindOf x = .file
          · obtain ⟨h1, h2⟩ := (kind_file_iff hfx).mp hkf
            rw [h1, h2] at hdata
            cases hb : alLookup p s.files with
            | none => simp [hb] at hdata
            | some b =>
              refine .isFile x b hne hpc hx hkf h2 hb ?_
              rw [hadd, h1]; rfl
          · have hnf : ¬ (x.file = true ∧ x.link = false) := fun h => hkf ((kind_file_iff hfx).mpr h)
            have hb : alLookup p s.files = none := by
              cases hb : alLookup p s.files with
              | none => rfl
              | some b =>
                rw [hb] at hdata
                exfalso; apply hnf
                cases hf : x.file <;> cases hl : x.link <;> simp_all
            refine .notFile x hne hpc hx hkf hb ?_
            rw [hadd]
            cases hf : x.file with
            | false => left; rfl
            | true =>
              right
              refine ⟨rfl, ?_⟩
              intro hkd
              obtain ⟨h1, h2⟩ := (kind_dir_iff x).mp hkd
              exact hnf ⟨hf, h2⟩
      · simp only [hdd, if_false] at hpc
        refine .parentErr _ hne hpc ?_
        have hc : (!d.dir || d.link) = true := by
          cases h1 : d.dir <;> cases h2 : d.link <;> simp_all
        rw [add_eq]; unfold addSpec
        simp only [hpath, hne, if_false, hd, hc, if_true]



theorem sim_mkfile (hI : InvFacts s) (hOk : EntriesOk s) (p : Str) : Sim (step env s (.mkfile p))
    (withPath env (absS s) p fun a => liftR .path (mkfile (absS s) a)) := by
  refine sim_withPath env p s Val.path _ _ ?_
  intro a
  unfold TreeFs.mkfile
  cases addFile_cases s hI hOk a with
  | root h0 hadd hb =>
    simp only [h0, if_true, liftR]; exact sim_unspec _ _
  | parentErr k hne hpc hadd =>
    msimp [hne, hpc, liftR, hadd]; exact sim_same (by simp)
  | isFile x b hne hpc hx hkf hl hb hadd =>
    have hk : (absNode s a x).kind = kindOf x := rfl
    msimp [hne, hpc, liftR, hadd, get_absS, hx, Option.map, hk, hkf, hb, Option.isNone]
    exact sim_same (by simp)
  | notFile x hne hpc hx hkf hb hadd =>
    have hk : (absNode s a x).kind = kindOf x := rfl
    rcases hadd with hadd | ⟨hadd, _⟩
    · msimp [hne, hpc, liftR, hadd, get_absS, hx, Option.map, hk, hkf]
      exact sim_same (by simp)
    · msimp [hne, hpc, liftR, hadd, get_absS, hx, Option.map, hk, hkf, hb, Option.isNone]
      exact sim_same (by simp)
  | create s' hne hpc hx hadd hfiles hcwd hent hget =>
    msimp [hne, hpc, liftR, hadd, get_absS, hx, Option.map, hfiles, alLookup_alInsert, Option.isNone]
    refine ⟨by simp, fun _ => ⟨hcwd, fun k => ?_⟩⟩
    simp only [hget, get_put]


theorem syncM_ok (p : FsPath) (data : Bytes) (s : State) (e : Entry) (b : Bytes)
    (he : alLookup p s.entries = some e) (hb : alLookup p s.files = some b) :
    syncM p data s = (.ok (), { s with files := alInsert p data s.files }) := by
  unfold syncM
  msimp [he, hb]

theorem sim_writeAll (hI : InvFacts s) (hOk : EntriesOk s) (p : Str) (d : Bytes) :
    Sim (step env s (.writeAll p d))
      (withPath env (absS s) p fun a => liftR (fun _ => .unit) (writeAll (absS s) a d false)) := by
  refine sim_withPath env p s (fun _ => Val.unit) _ _ ?_
  intro a
  unfold TreeFs.writeAll
  cases addFile_cases s hI hOk a with
  | root h0 hadd hb =>
    subst h0
    msimp [liftR, hadd, hb, Option.isNone]; exact sim_same (by simp)
  | parentErr k hne hpc hadd =>
    msimp [hne, hpc, liftR, hadd]; exact sim_same (by simp)
  | isFile x b hne hpc hx hkf hl hb hadd =>
    have hk : (absNode s a x).kind = kindOf x := rfl
    msimp [hne, hpc, liftR, hadd, get_absS, hx, Option.map, hk, hkf, hb, Option.isNone, syncM_ok a d s x b hx hb]
    refine ⟨by simp, fun _ => ⟨rfl, fun k => ?_⟩⟩
    simp only [absS_setFile, get_put, hx, Option.map, hl, Bool.false_eq_true, if_false, hk, hkf]
  | notFile x hne hpc hx hkf hb hadd =>
    have hk : (absNode s a x).kind = kindOf x := rfl
    rcases hadd with hadd | ⟨hadd, hnd⟩
    · msimp [hne, hpc, liftR, hadd, get_absS, hx, Option.map, hk, hkf]
      by_cases hkd : kindOf x = .dir
      · simp only [hkd, if_true]; exact sim_same (by simp)
      · simp only [hkd, if_false]; exact sim_same (by simp)
    · msimp [hne, hpc, liftR, hadd, get_absS, hx, Option.map, hk, hkf, hb, Option.isNone, hnd]
      exact sim_same (by simp)
  | create s' hne hpc hx hadd hfiles hcwd hent hget =>
    have hb : alLookup a s'.files = some [] := by rw [hfiles, alLookup_alInsert, if_pos rfl]
    msimp [hne, hpc, liftR, hadd, get_absS, hx, Option.map, hb, Option.isNone, syncM_ok a d s' _ _ hent hb]
    refine ⟨by simp, fun _ => ⟨hcwd, fun k => ?_⟩⟩
    simp only [absS_setFile, get_put, hent, Option.map, hget, absNode_mkFileEntry]
    by_cases hk : a = k
    · simp only [hk, if_true]; rfl
    · simp only [hk, if_false]


/-- two syncs of the same bytes (flush, then drop) -/
theorem absS_setFile2 (s : State) (p : FsPath) (b : Bytes) (k : FsPath) :
    TreeFs.get (absS { s with files := alInsert p b (alInsert p b s.files) }) k =
      TreeFs.get (absS { s with files := alInsert p b s.files }) k := by
  simp only [get_absS]
  cases alLookup k s.entries with
  | none => rfl
  | some e =>
    simp only [Option.map]
    congr 1
    apply absNode_congr
    simp only [alLookup_alInsert]
    split <;> rfl

theorem sim_appendAll (hI : InvFacts s) (hOk : EntriesOk s) (p : Str) (d : Bytes) :
    Sim (step env s (.appendAll p d))
      (withPath env (absS s) p fun a => liftR (fun _ => .unit) (writeAll (absS s) a d true)) := by
  refine sim_withPath env p s (fun _ => Val.unit) _ _ ?_
  intro a
  unfold TreeFs.writeAll
  cases addFile_cases s hI hOk a with
  | root h0 hadd hb =>
    subst h0
    msimp [liftR, hadd, hb]; exact sim_same (by simp)
  | parentErr k hne hpc hadd =>
    msimp [hne, hpc, liftR, hadd]; exact sim_same (by simp)
  | isFile x b hne hpc hx hkf hl hb hadd =>
    have hk : (absNode s a x).kind = kindOf x := rfl
    have hb2 : alLookup a ({ s with files := alInsert a (b ++ d) s.files } : State).files = some (b ++ d) := by
      simp only [alLookup_alInsert, if_true]
    msimp [hne, hpc, liftR, hadd, get_absS, hx, Option.map, hk, hkf, hb, syncM_ok a (b ++ d) s x b hx hb,
      syncM_ok a (b ++ d) { s with files := alInsert a (b ++ d) s.files } x (b ++ d) hx hb2]
    refine ⟨by simp, fun _ => ⟨rfl, fun k => ?_⟩⟩
    simp only [absS_setFile2, absS_setFile, get_put, hx, Option.map, hl, Bool.false_eq_true, if_false, hk, hkf]
    by_cases hak : a = k
    · simp only [hak, if_true, absNode, hl, Bool.false_eq_true, if_false]
      subst hak
      simp only [hb, Option.getD]
    · simp only [hak, if_false]
  | notFile x hne hpc hx hkf hb hadd =>
    have hk : (absNode s a x).kind = kindOf x := rfl
    rcases hadd with hadd | ⟨hadd, hnd⟩
    · msimp [hne, hpc, liftR, hadd, get_absS, hx, Option.map, hk, hkf]
      by_cases hkd : kindOf x = .dir
      · simp only [hkd, if_true]; exact sim_same (by simp)
      · simp only [hkd, if_false]; exact sim_same (by simp)
    · msimp [hne, hpc, liftR, hadd, get_absS, hx, Option.map, hk, hkf, hb, hnd]
      exact sim_same (by simp)
  | create s' hne hpc hx hadd hfiles hcwd hent hget =>
    have hb : alLookup a s'.files = some [] := by rw [hfiles, alLookup_alInsert, if_pos rfl]
    have hb2 : alLookup a ({ s' with files := alInsert a ([] ++ d) s'.files } : State).files = some ([] ++ d) := by
      simp only [alLookup_alInsert, if_true]
    msimp [hne, hpc, liftR, hadd, get_absS, hx, Option.map, hb, syncM_ok a ([] ++ d) s' _ _ hent hb,
      syncM_ok a ([] ++ d) { s' with files := alInsert a ([] ++ d) s'.files } _ ([] ++ d) hent hb2]
    refine ⟨by simp, fun _ => ⟨hcwd, fun k => ?_⟩⟩
    simp only [absS_setFile2, absS_setFile, get_put, hent, Option.map, hget, absNode_mkFileEntry, List.nil_append]
    by_cases hk : a = k
    · simp only [hk, if_true]; rfl
    · simp only [hk, if_false]


/-! ### `mkdir_p` / `mkdir_m` -/

theorem or_dirbit_sub (m : Nat) (h : m < 0o10000) : (m ||| 0o40000) - 0o40000 = m := by
  have h1 := Nat.two_pow_add_eq_or_of_lt (i := 14) (b := m) (by omega) 1
  simp only [Nat.reducePow, Nat.reduceMul] at h1
  rw [Nat.or_comm, ← h1]
  omega

theorem absNode_mkDirEntry_none (s : State) (q : FsPath) (h : alLookup q s.files = none) :
    absNode s q (mkDirEntry q none) = newDir 0o755 := by
  simp [absNode, mkDirEntry, kindOf, optsMode, defaultMode, typeBits, newDir, h]

theorem absNode_mkDirEntry_some (s : State) (q : FsPath) (m : Nat) (hm : m < 0o10000) (h0 : m ≠ 0)
    (h : alLookup q s.files = none) :
    absNode s q (mkDirEntry q (some m)) = newDir m := by
  simp [absNode, mkDirEntry, kindOf, optsMode, typeBits, newDir, h, h0, and_perm_of_lt m hm, or_dirbit_sub m hm]

/-- the keys `b/n1`, `b/n1/n2`, … -/
def chainFrom (b : FsPath) : List Str → List FsPath
  | [] => []
  | n :: ns => (b ++ [n]) :: chainFrom (b ++ [n]) ns

theorem prefixes_cons (a : Str) (p : FsPath) : prefixes (a :: p) = [] :: (prefixes p).map (a :: ·) := by
  unfold prefixes
  simp only [List.length_cons]
  rw [List.range_succ_eq_map]
  simp [List.map_map, Function.comp_def]

theorem map_prefixes (p : FsPath) : ∀ b : FsPath, (prefixes p).map (b ++ ·) = b :: chainFrom b p := by
  induction p with
  | nil => intro b; simp [prefixes, chainFrom]
  | cons a p ih =>
    intro b
    rw [prefixes_cons]
    simp only [List.map_cons, List.append_nil, List.map_map, chainFrom]
    congr 1
    rw [← ih (b ++ [a])]
    apply List.map_congr_left
    intro x _
    simp

theorem prefixes_eq (p : FsPath) : prefixes p = [] :: chainFrom [] p := by
  have := map_prefixes p []
  simpa using this


/-- one iteration of `_mkdir_m` -/
def mkStep (mode : Option Nat) (q : FsPath) : M Unit := do let _ ← add (mkDirEntry q mode)

theorem mkdirM_eq (p : FsPath) (mode : Option Nat) : mkdirM p mode = (prefixes p).forM (mkStep mode) := rfl

theorem forM_nil_apply (f : FsPath → M Unit) (s : State) : ([] : List FsPath).forM f s = (.ok (), s) := rfl

theorem forM_cons_apply (f : FsPath → M Unit) (q : FsPath) (qs : List FsPath) (s : State) :
    (q :: qs).forM f s = match f q s with
      | (.ok _, s') => qs.forM f s'
      | (.err k, s') => (.err k, s')
      | (.panic, s') => (.panic, s')
      | (.hang, s') => (.hang, s') := by
  show (f q >>= fun _ => qs.forM f) s = _
  rw [M_bind_apply]
  rcases f q s with ⟨o, s'⟩
  cases o <;> rfl

theorem mkStep_apply (mode : Option Nat) (q : FsPath) (s : State) :
    mkStep mode q s = match add (mkDirEntry q mode) s with
      | (.ok _, s') => (.ok (), s')
      | (.err k, s') => (.err k, s')
      | (.panic, s') => (.panic, s')
      | (.hang, s') => (.hang, s') := by
  unfold mkStep
  rw [M_bind_apply]
  rcases add (mkDirEntry q mode) s with ⟨o, s'⟩
  cases o <;> rfl

theorem baseName_concat (b : FsPath) (n : Str) : baseName (b ++ [n]) = n := by
  simp [baseName]

theorem mkdirLoop_cwd (perm : Nat) : ∀ (qs : List FsPath) (t : T), (mkdirLoop perm qs t).2.cwd = t.cwd := by
  intro qs
  induction qs with
  | nil => intro t; rfl
  | cons q qs ih =>
    intro t
    simp only [mkdirLoop]
    split
    · split
      · exact ih t
      · rfl
    · rw [ih]; rfl

/-- phase 2: every remaining prefix is missing, each iteration creates one directory -/
theorem mkdir_fresh (mode : Option Nat) (perm : Nat)
    (hperm : ∀ (q : FsPath) (s : State), alLookup q s.files = none → absNode s q (mkDirEntry q mode) = newDir perm) :
    ∀ (ns : List Str) (b : FsPath) (s : State) (t : T) (d : Entry),
      alLookup b s.entries = some d → d.dir = true → d.link = false →
      (∀ fs m, d.files = some fs → m ∈ fs → ∃ x, alLookup (b ++ [m]) s.entries = some x) →
      (∀ n, ns.head? = some n → ∀ ext, alLookup (b ++ n :: ext) s.entries = none ∧ alLookup (b ++ n :: ext) s.files = none) →
      (∀ k, TreeFs.get t k = TreeFs.get (absS s) k) →
      ∃ s' t', (chainFrom b ns).forM (mkStep mode) s = (.ok (), s') ∧
        mkdirLoop perm (chainFrom b ns) t = (none, t') ∧
        (∀ k, TreeFs.get t' k = TreeFs.get (absS s') k) ∧ t'.cwd = t.cwd ∧ s'.cwd = s.cwd := by
  intro ns
  induction ns with
  | nil =>
    intro b s t d _ _ _ _ _ hget
    exact ⟨s, t, rfl, rfl, hget, rfl, rfl⟩
  | cons n ns ih =>
    intro b s t d hd hdir hlink hlisted hmiss hget
    have hq : (mkDirEntry (b ++ [n]) mode).path = b ++ [n] := rfl
    have hne : b ++ [n] ≠ [] := by simp
    have hdl : (b ++ [n]).dropLast = b := by simp
    obtain ⟨hx, hxf⟩ := hmiss n rfl []
    have hx' : alLookup (b ++ [n]) s.entries = none := hx
    have hxf' : alLookup (b ++ [n]) s.files = none := hxf
    obtain ⟨fs', hadd⟩ := add_create (mkDirEntry (b ++ [n]) mode) s d (by rw [hq]; exact hne)
      (by rw [hq, hdl]; exact hd) hdir hlink (by rw [hq]; exact hx') (by
        intro fs hfs hmem
        rw [hq, baseName_concat] at hmem
        obtain ⟨x, hx2⟩ := hlisted fs n hfs hmem
        rw [hx'] at hx2; cases hx2)
    replace hadd : add (mkDirEntry (b ++ [n]) mode) s = (.ok (b ++ [n]), { s with
        entries := alInsert (b ++ [n]).dropLast { d with files := some fs' }
          (alInsert (b ++ [n]) (mkDirEntry (b ++ [n]) mode) s.entries),
        files := s.files }) := hadd
    have hgq : TreeFs.get t (b ++ [n]) = none := by rw [hget, get_absS, hx']; rfl
    have hcreate := absS_create s (b ++ [n]) (mkDirEntry (b ++ [n]) mode) d fs' s.files hne (by rw [hdl]; exact hd)
      (fun _ _ => rfl)
    obtain ⟨s', t', h1, h2, h3, h4, h5⟩ := ih (b ++ [n])
      { s with
        entries := alInsert (b ++ [n]).dropLast { d with files := some fs' }
          (alInsert (b ++ [n]) (mkDirEntry (b ++ [n]) mode) s.entries),
        files := s.files }
      (put t (b ++ [n]) (newDir perm)) (mkDirEntry (b ++ [n]) mode)
      (by
        simp only [alLookup_alInsert, hdl]
        have : b ≠ b ++ [n] := by intro h; have := congrArg List.length h; simp at this
        simp only [this, if_false, if_true])
      rfl rfl
      (by intro fs m hfs hm; cases hfs; cases hm)
      (by
        intro n' hn' ext
        have := hmiss n rfl (n' :: ext)
        have e1 : b ++ n :: n' :: ext = (b ++ [n]) ++ n' :: ext := by simp
        rw [e1] at this
        refine ⟨?_, this.2⟩
        simp only [alLookup_alInsert, hdl]
        have n1 : b ≠ (b ++ [n]) ++ n' :: ext := by intro h; have := congrArg List.length h; simp at this
        have n2 : b ++ [n] ≠ (b ++ [n]) ++ n' :: ext := by intro h; have := congrArg List.length h; simp at this
        simp only [n1, n2, if_false]
        exact this.1)
      (by
        intro k
        rw [get_put, hcreate k]
        by_cases hk : b ++ [n] = k
        · simp only [hk, if_true]
          rw [hperm]
          subst hk
          exact hxf'
        · simp only [hk, if_false]; exact hget k)
    refine ⟨s', t', ?_, ?_, h3, ?_, ?_⟩
    · simp only [chainFrom, forM_cons_apply, mkStep_apply, hadd]
      exact h1
    · simp only [chainFrom, mkdirLoop, hgq]
      exact h2
    · rw [h4]; rfl
    · rw [h5]


theorem exists_of_ext {s : State} (hI : InvFacts s) : ∀ (ext : List Str) (k : FsPath) (x : Entry),
    alLookup (k ++ ext) s.entries = some x → ∃ y, alLookup k s.entries = some y := by
  intro ext
  induction ext with
  | nil => intro k x h; exact ⟨x, by simpa using h⟩
  | cons a ext ih =>
    intro k x h
    have e1 : k ++ a :: ext = (k ++ [a]) ++ ext := by simp
    rw [e1] at h
    obtain ⟨y, hy⟩ := ih (k ++ [a]) x h
    obtain ⟨pe, _, hpe, _⟩ := hI.parent _ y hy (by simp)
    rw [List.dropLast_concat] at hpe
    exact ⟨pe, hpe⟩

theorem missing_ext {s : State} (hI : InvFacts s) (k : FsPath) (hk : alLookup k s.entries = none)
    (ext : List Str) : alLookup (k ++ ext) s.entries = none := by
  cases h : alLookup (k ++ ext) s.entries with
  | none => rfl
  | some x =>
    obtain ⟨y, hy⟩ := exists_of_ext hI ext k x h
    rw [hk] at hy; cases hy

theorem mem_chainFrom : ∀ (ns : List Str) (b q : FsPath), q ∈ chainFrom b ns →
    ∃ n ext, ns.head? = some n ∧ q = b ++ n :: ext := by
  intro ns
  induction ns with
  | nil => intro b q h; simp [chainFrom] at h
  | cons n ns ih =>
    intro b q h
    simp only [chainFrom, List.mem_cons] at h
    rcases h with h | h
    · exact ⟨n, [], rfl, by simp [h]⟩
    · obtain ⟨n', ext, _, h2⟩ := ih _ _ h
      exact ⟨n, n' :: ext, rfl, by simp [h2]⟩

/-- the reference's pre-check of `mkdir`: some prefix exists and is not a directory -/
def badP (t : T) : FsPath → Bool := fun q => match TreeFs.get t q with | some n => n.kind ≠ .dir | none => false

theorem add_dir_exists (s : State) (q : FsPath) (mode : Option Nat) (d x : Entry) (hne : q ≠ [])
    (hd : alLookup q.dropLast s.entries = some d) (hdir : d.dir = true) (hlink : d.link = false)
    (hx : alLookup q s.entries = some x) :
    add (mkDirEntry q mode) s = if x.dir then (.ok q, s) else (.err .isNotDir, s) := by
  have hq : (mkDirEntry q mode).path = q := rfl
  have h1 : (mkDirEntry q mode).file = false := rfl
  have h2 : (mkDirEntry q mode).link = false := rfl
  have h3 : (mkDirEntry q mode).dir = true := rfl
  have hc : (!d.dir || d.link) = false := by rw [hdir, hlink]; rfl
  rw [add_eq]; unfold addSpec
  simp only [hq, h1, h2, h3, hne, if_false, hd, hc, Bool.false_eq_true, hx, Bool.false_and, Bool.true_and]
  cases x.dir <;> rfl

theorem add_dir_parent_bad (s : State) (q : FsPath) (mode : Option Nat) (d : Entry) (hne : q ≠ [])
    (hd : alLookup q.dropLast s.entries = some d) (hbad : (!d.dir || d.link) = true) :
    add (mkDirEntry q mode) s = (.err .isNotDir, s) := by
  have hq : (mkDirEntry q mode).path = q := rfl
  rw [add_eq]; unfold addSpec
  simp only [hq, hne, if_false, hd, hbad, if_true]


theorem badP_none {s : State} {q : FsPath} (h : alLookup q s.entries = none) : badP (absS s) q = false := by
  simp only [badP, get_absS, h, Option.map]

theorem badP_some {s : State} {q : FsPath} {x : Entry} (h : alLookup q s.entries = some x) :
    badP (absS s) q = decide (kindOf x ≠ .dir) := by
  simp only [badP, get_absS, h, Option.map]
  rfl

/-- phase 1: walk down the existing prefixes (no mutation), then hand over to `mkdir_fresh` -/
theorem mkdir_walk {s : State} (hI : InvFacts s) (mode : Option Nat) (perm : Nat)
    (hperm : ∀ (q : FsPath) (s : State), alLookup q s.files = none → absNode s q (mkDirEntry q mode) = newDir perm) :
    ∀ (ns : List Str) (b : FsPath) (d : Entry),
      alLookup b s.entries = some d → d.dir = true → d.link = false →
      isLinkToDir (absS s) (b ++ ns) = false →
      (∃ q, (chainFrom b ns).find? (badP (absS s)) = some q ∧
        (chainFrom b ns).forM (mkStep mode) s = (.err .isNotDir, s)) ∨
      ((chainFrom b ns).find? (badP (absS s)) = none ∧
        ∃ s' t', (chainFrom b ns).forM (mkStep mode) s = (.ok (), s') ∧
          mkdirLoop perm (chainFrom b ns) (absS s) = (none, t') ∧
          (∀ k, TreeFs.get t' k = TreeFs.get (absS s') k) ∧ t'.cwd = (absS s).cwd ∧ s'.cwd = s.cwd) := by
  intro ns
  induction ns with
  | nil =>
    intro b d _ _ _ _
    exact .inr ⟨rfl, s, absS s, rfl, rfl, fun _ => rfl, rfl, rfl⟩
  | cons n ns ih =>
    intro b d hd hdir hlink hnl
    have hne : b ++ [n] ≠ [] := by simp
    have hdl : (b ++ [n]).dropLast = b := by simp
    cases hx : alLookup (b ++ [n]) s.entries with
    | none =>
      right
      have hmiss : ∀ ext, alLookup (b ++ n :: ext) s.entries = none ∧ alLookup (b ++ n :: ext) s.files = none := by
        intro ext
        have e1 : b ++ n :: ext = (b ++ [n]) ++ ext := by simp
        have := missing_ext hI _ hx ext
        rw [e1]
        exact ⟨this, hI.dangling _ this⟩
      refine ⟨?_, ?_⟩
      · apply List.find?_eq_none.mpr
        intro q hq
        obtain ⟨n', ext, hn', rfl⟩ := mem_chainFrom _ _ _ hq
        cases hn'
        rw [badP_none (hmiss ext).1]
        simp
      · exact mkdir_fresh mode perm hperm (n :: ns) b s (absS s) d hd hdir hlink
          (fun fs m hfs hm => hI.listed b d fs m hd hfs hm)
          (fun n' hn' ext => by cases hn'; exact hmiss ext)
          (fun _ => rfl)
    | some x =>
      have hadd := add_dir_exists s (b ++ [n]) mode d x hne (by rw [hdl]; exact hd) hdir hlink hx
      by_cases hxd : x.dir = true ∧ x.link = false
      · -- an existing real directory: nothing happens on either side
        have hk : kindOf x = .dir := (kind_dir_iff x).mpr hxd
        have hbad : badP (absS s) (b ++ [n]) = false := by rw [badP_some hx, hk]; simp
        have hg : TreeFs.get (absS s) (b ++ [n]) = some (absNode s (b ++ [n]) x) := by rw [get_absS, hx]; rfl
        have hk2 : (absNode s (b ++ [n]) x).kind = .dir := hk
        rw [hxd.1] at hadd
        have e1 : b ++ n :: ns = (b ++ [n]) ++ ns := by simp
        rw [e1] at hnl
        rcases ih (b ++ [n]) x hx hxd.1 hxd.2 hnl with ⟨q, h1, h2⟩ | ⟨h1, s', t', h2, h3, h4⟩
        · left
          refine ⟨q, ?_, ?_⟩
          · simp only [chainFrom, List.find?_cons, hbad]; exact h1
          · simp only [chainFrom, forM_cons_apply, mkStep_apply, hadd, if_true]; exact h2
        · right
          refine ⟨?_, s', t', ?_, ?_, h4⟩
          · simp only [chainFrom, List.find?_cons, hbad]; exact h1
          · simp only [chainFrom, forM_cons_apply, mkStep_apply, hadd, if_true]; exact h2
          · simp only [chainFrom, mkdirLoop, hg, hk2, if_true]; exact h3
      · left
        have hk : kindOf x ≠ .dir := fun h => hxd ((kind_dir_iff x).mp h)
        have hbad : badP (absS s) (b ++ [n]) = true := by rw [badP_some hx]; simpa using hk
        refine ⟨b ++ [n], by simp only [chainFrom, List.find?_cons, hbad], ?_⟩
        cases hxdir : x.dir with
        | false =>
          rw [hxdir] at hadd
          simp only [chainFrom, forM_cons_apply, mkStep_apply, hadd, Bool.false_eq_true, if_false]
        | true =>
          rw [hxdir] at hadd
          have hxl : x.link = true := by
            cases h : x.link with
            | true => rfl
            | false => exact absurd ⟨hxdir, h⟩ hxd
          cases ns with
          | nil =>
            exfalso
            have : isLinkToDir (absS s) (b ++ [n]) = true := by
              simp only [isLinkToDir, get_absS, hx, Option.map, absNode, kindOf, hxl, hxdir, if_true, decide_true]
            rw [this] at hnl; cases hnl
          | cons n' ns' =>
            have hadd2 := add_dir_parent_bad s (b ++ [n] ++ [n']) mode x (by simp)
              (by rw [List.dropLast_concat]; exact hx) (by rw [hxdir, hxl]; rfl)
            simp only [chainFrom, forM_cons_apply, mkStep_apply, hadd, if_true, hadd2]


theorem sim_mkdir_key (s : State) (hI : InvFacts s) (mode : Option Nat) (perm : Nat)
    (hperm : ∀ (q : FsPath) (s : State), alLookup q s.files = none → absNode s q (mkDirEntry q mode) = newDir perm)
    (a : FsPath) :
    Sim (mapVal Val.path (mkdirM a mode >>= fun _ => (Pure.pure a : M FsPath)) s)
      (liftR .path (mkdir (absS s) a perm)) := by
  unfold TreeFs.mkdir
  cases hl : isLinkToDir (absS s) a with
  | true => simp only [if_true, liftR]; exact sim_unspec _ _
  | false =>
    simp only [Bool.false_eq_true, if_false]
    obtain ⟨e0, he0, hd0, hl0⟩ := hI.rootDir
    have hbad0 : badP (absS s) [] = false := by
      rw [badP_some he0, (kind_dir_iff e0).mpr ⟨hd0, hl0⟩]; simp
    have hg0 : TreeFs.get (absS s) [] = some (absNode s [] e0) := by rw [get_absS, he0]; rfl
    have hk0 : (absNode s [] e0).kind = .dir := (kind_dir_iff e0).mpr ⟨hd0, hl0⟩
    have hadd0 : add (mkDirEntry [] mode) s = (.ok [], s) := by rw [add_eq]; rfl
    show Sim _ (liftR Val.path (match (prefixes a).find? (badP (absS s)) with
      | some _ => (R.err (some ErrKind.isNotDir), absS s)
      | none => match mkdirLoop perm (prefixes a) (absS s) with
        | (none, t') => (R.ok a, t')
        | (some e, _) => (R.err (some e), absS s)))
    rw [prefixes_eq, mkdirM_eq, prefixes_eq]
    simp only [List.find?_cons, hbad0, mkdirLoop, hg0, hk0, if_true, mapVal, M_bind_apply, forM_cons_apply,
      mkStep_apply, hadd0]
    rcases mkdir_walk hI mode perm hperm a [] e0 he0 hd0 hl0 (by simpa using hl) with
      ⟨q, h1, h2⟩ | ⟨h1, s', t', h2, h3, h4, h5, h6⟩
    · simp only [h1, h2, liftR]
      exact sim_same (by simp)
    · simp only [h1, h2, h3, liftR, M_pure_apply]
      exact ⟨by simp, fun _ => ⟨(show s'.cwd = t'.cwd by rw [h6, h5]; rfl), fun k => (h4 k).symm⟩⟩


theorem sim_mkdirP (hI : InvFacts s) (p : Str) : Sim (step env s (.mkdirP p))
    (withPath env (absS s) p fun a => liftR .path (mkdir (absS s) a 0o755)) := by
  refine sim_withPath env p s Val.path _ _ ?_
  intro a
  exact sim_mkdir_key s hI none 0o755 (fun q s h => absNode_mkDirEntry_none s q h) a

theorem sim_mkdirM (hI : InvFacts s) (p : Str) (m : Nat) (hm : permOk m = true) (h0 : m ≠ 0) :
    Sim (step env s (.mkdirM p m))
      (withPath env (absS s) p fun a => liftR .path (mkdir (absS s) a m)) := by
  refine sim_withPath env p s Val.path _ _ ?_
  intro a
  have hm' : m < 0o10000 := by simpa [permOk] using hm
  exact sim_mkdir_key s hI (some m) m (fun q s h => absNode_mkDirEntry_some s q m hm' h0 h) a


/-! ### the group-A theorem -/

/-- the read-only operations of group A -/
def GroupAQuery : Op → Bool
  | .cwd | .root | .abs _ | .exists _ | .isDir _ | .isFile _ | .isSymlink _ | .isSymlinkDir _
  | .isSymlinkFile _ | .isExec _ | .isReadonly _ | .mode _ | .uid _ | .gid _ | .owner _
  | .readAll _ | .read _ | .readlink _ | .readlinkAbs _ => true
  | _ => false

/-- queries and simple creators -/
def GroupA : Op → Bool
  | .setCwd _ | .mkfile _ | .mkdirP _ | .mkdirM _ _ | .writeAll _ _ | .appendAll _ _ => true
  | op => GroupAQuery op

theorem of_sim {m : Outcome Val × State} {x : SR} {r : R Val} {t' : T} (hs : Sim m x)
    (h : some x = some (r, t')) : ResMatch m.1 r ∧ (r ≠ .unspecified → TEquiv (absS m.2) t') := by
  cases h; exact hs

theorem refines_step_groupA (env : Env) (s : State) (op : Op) (hA : GroupA op = true)
    (hI : Spec.Inv s) (hOk : EntriesOk s) (r : R Val) (t' : T)
    (h : specStep env (absS s) op = some (r, t')) :
    ResMatch (step env s op).1 r ∧ (r ≠ .unspecified → TEquiv (absS (step env s op).2) t') := by
  have hF := inv_facts hI
  cases op with
  | cwd => exact of_sim (sim_cwd env s) h
  | root => exact of_sim (sim_root env s hF) h
  | abs p => exact of_sim (sim_abs env s p) h
  | «exists» p => exact of_sim (sim_exists env s p) h
  | isDir p => exact of_sim (sim_isDir env s p) h
  | isFile p => exact of_sim (sim_isFile env s p hOk) h
  | isSymlink p => exact of_sim (sim_isSymlink env s p) h
  | isSymlinkDir p => exact of_sim (sim_isSymlinkDir env s p) h
  | isSymlinkFile p => exact of_sim (sim_isSymlinkFile env s p hOk) h
  | isExec p => exact of_sim (sim_isExec env s p hOk) h
  | isReadonly p => exact of_sim (sim_isReadonly env s p hOk) h
  | mode p => exact of_sim (sim_mode env s p hOk) h
  | uid p => exact of_sim (sim_uid env s p) h
  | gid p => exact of_sim (sim_gid env s p) h
  | owner p => exact of_sim (sim_owner env s p) h
  | readAll p => exact of_sim (sim_readAll env s p hF hOk) h
  | read p => exact of_sim (sim_read env s p hF hOk) h
  | readlink p => exact of_sim (sim_readlink env s p hOk) h
  | readlinkAbs p => exact of_sim (sim_readlinkAbs env s p hOk) h
  | setCwd p => exact of_sim (sim_setCwd env s p) h
  | mkfile p => exact of_sim (sim_mkfile env s hF hOk p) h
  | mkdirP p => exact of_sim (sim_mkdirP env s hF p) h
  | mkdirM p m =>
    simp only [specStep] at h
    by_cases hm : permOk m = true ∧ m ≠ 0
    · rw [if_pos hm] at h
      exact of_sim (sim_mkdirM env s hF p m hm.1 hm.2) h
    · rw [if_neg hm] at h; cases h
  | writeAll p d => exact of_sim (sim_writeAll env s hF hOk p d) h
  | appendAll p d => exact of_sim (sim_appendAll env s hF hOk p d) h
  | _ => cases hA


/-! ### queries do not change the state -/

/-- a monadic action that never changes the state -/
def StatePure {α} (m : M α) : Prop := ∀ s, (m s).2 = s

theorem sp_pure {α} (a : α) : StatePure (Pure.pure a : M α) := fun _ => rfl
theorem sp_mpure {α} (a : α) : StatePure (M.pure a : M α) := fun _ => rfl
theorem sp_fail {α} (k : ErrKind) : StatePure (M.fail k : M α) := fun _ => rfl
theorem sp_getEntry (p : FsPath) : StatePure (getEntry p) := fun _ => rfl
theorem sp_getFile (p : FsPath) : StatePure (getFile p) := fun _ => rfl
theorem sp_absM (env : Env) (p : Str) : StatePure (absM env p) := fun s => by rw [absM_eq]

theorem sp_bind {α β} {m : M α} {f : α → M β} (hm : StatePure m) (hf : ∀ a, StatePure (f a)) :
    StatePure (m >>= f) := by
  intro s
  rw [M_bind_apply]
  have := hm s
  rcases h : m s with ⟨o, s'⟩
  rw [h] at this
  simp only at this
  subst this
  cases o with
  | ok a => exact hf a _
  | err k => rfl
  | panic => rfl
  | hang => rfl

theorem sp_mapVal {α} (v : α → Val) {m : M α} (hm : StatePure m) (s : State) : (mapVal v m s).2 = s := by
  unfold mapVal
  have := hm s
  rcases h : m s with ⟨o, s'⟩
  rw [h] at this
  cases o <;> exact this

theorem sp_entryQuery {α} (env : Env) (p : Str) (f : Entry → α) : StatePure (entryQuery env p f) := by
  unfold entryQuery
  refine sp_bind (sp_absM env p) fun a => sp_bind (sp_getEntry a) fun o => ?_
  cases o
  · exact sp_fail _
  · exact sp_pure _

theorem sp_cloneFileM (env : Env) (p : Str) : StatePure (cloneFileM env p) := by
  rw [cloneFileM_eq]
  refine sp_bind (sp_absM env p) fun a => ?_
  intro s
  unfold cloneK
  msimp
  cases alLookup a s.entries with
  | none => msimp; cases alLookup a s.files <;> rfl
  | some e =>
    cases hf : e.file
    · msimp [hf]
    · msimp [hf]; cases alLookup a s.files <;> rfl

theorem boolQuery_state (env : Env) (p : Str) (f : Entry → Bool) (s : State) : (boolQuery env p f s).2 = s := by
  unfold boolQuery
  rw [absM_eq]
  cases resolve env (absS s) p <;> rfl

/-- every group-A query leaves the state as it is (no hypothesis on the state) -/
theorem queries_pure (env : Env) (s : State) (op : Op) (hQ : GroupAQuery op = true) :
    (step env s op).2 = s := by
  cases op with
  | cwd => rfl
  | root => rfl
  | abs p => exact sp_mapVal _ (sp_absM env p) s
  | «exists» p => exact boolQuery_state ..
  | isDir p => exact boolQuery_state ..
  | isFile p => exact boolQuery_state ..
  | isSymlink p => exact boolQuery_state ..
  | isSymlinkDir p => exact boolQuery_state ..
  | isSymlinkFile p => exact boolQuery_state ..
  | isExec p => exact boolQuery_state ..
  | isReadonly p => exact boolQuery_state ..
  | mode p => exact sp_mapVal _ (sp_entryQuery env p _) s
  | uid p => exact sp_mapVal _ (sp_entryQuery env p _) s
  | gid p => exact sp_mapVal _ (sp_entryQuery env p _) s
  | owner p => exact sp_mapVal _ (sp_entryQuery env p _) s
  | read p => exact sp_mapVal _ (sp_cloneFileM env p) s
  | readAll p =>
    refine sp_mapVal _ (sp_bind (sp_cloneFileM env p) fun b => ?_) s
    cases decodeUtf8 b
    · exact sp_fail _
    · exact sp_pure _
  | readlink p =>
    refine sp_mapVal _ (sp_bind (sp_absM env p) fun a => sp_bind (sp_getEntry a) fun o => ?_) s
    cases o with
    | none => exact sp_fail _
    | some e => simp only; split; exact sp_fail _; exact sp_pure _
  | readlinkAbs p =>
    refine sp_mapVal _ (sp_bind (sp_absM env p) fun a => sp_bind (sp_getEntry a) fun o => ?_) s
    cases o with
    | none => exact sp_fail _
    | some e => simp only; split; exact sp_fail _; exact sp_pure _
  | _ => cases hQ


/-! ### group A preserves `EntriesOk` -/

theorem all_alInsert {β} (P : FsPath × β → Bool) (k : FsPath) (v : β) (l : List (FsPath × β))
    (hl : l.all P = true) (hv : P (k, v) = true) : (alInsert k v l).all P = true := by
  induction l with
  | nil => simp [alInsert, hv]
  | cons x xs ih =>
    obtain ⟨a, b⟩ := x
    simp only [List.all_cons, Bool.and_eq_true] at hl
    simp only [alInsert]
    split
    · simp only [List.all_cons, Bool.and_eq_true]; exact ⟨hv, hl.2⟩
    · simp only [List.all_cons, Bool.and_eq_true]; exact ⟨hl.1, ih hl.2⟩

theorem addChild_entryOk {d d' : Entry} {n : Str} {b : Bool} (k : FsPath)
    (h : d.addChild n = .ok (b, d')) : entryOkB k d' = entryOkB k d := by
  unfold Entry.addChild at h
  split at h
  · cases h
  · split at h
    · simp only [Outcome.ok.injEq, Prod.mk.injEq] at h
      rw [← h.2]; rfl
    · simp only [Outcome.ok.injEq, Prod.mk.injEq] at h
      rw [← h.2]; rfl

def EntriesStable {α} (m : M α) : Prop := ∀ s, EntriesOk s → EntriesOk (m s).2

theorem es_of_pure {α} {m : M α} (h : StatePure m) : EntriesStable m := fun s hs => by rw [h s]; exact hs

theorem es_bind {α β} {m : M α} {f : α → M β} (hm : EntriesStable m) (hf : ∀ a, EntriesStable (f a)) :
    EntriesStable (m >>= f) := by
  intro s hs
  rw [M_bind_apply]
  have := hm s hs
  rcases h : m s with ⟨o, s'⟩
  rw [h] at this
  cases o with
  | ok a => exact hf a _ this
  | err k => exact this
  | panic => exact this
  | hang => exact this

theorem es_mapVal {α} (v : α → Val) {m : M α} (hm : EntriesStable m) (s : State) (hs : EntriesOk s) :
    EntriesOk (mapVal v m s).2 := by
  unfold mapVal
  have := hm s hs
  rcases h : m s with ⟨o, s'⟩
  rw [h] at this
  cases o <;> exact this

theorem es_add (e : Entry) (he : entryOkB e.path e = true) : EntriesStable (add e) := by
  intro s hs
  rw [add_eq]
  unfold addSpec
  split
  · exact hs
  · split
    · exact hs
    · split
      · exact hs
      · split
        · split
          · exact hs
          · split
            · exact hs
            · split <;> exact hs
        · have h2 : (alInsert e.path e s.entries).all (fun kv => entryOkB kv.1 kv.2) = true :=
            all_alInsert _ _ _ _ hs he
          simp only
          split
          · rename_i parent hp
            have hpar := List.all_eq_true.mp h2 _ (mem_of_alLookup hp)
            split
            · rename_i isNew parent' hc
              have : entryOkB e.path.dropLast parent' = true := by rw [addChild_entryOk _ hc]; exact hpar
              exact all_alInsert _ _ _ _ h2 this
            · exact h2
            · exact h2
            · exact h2
          · exact h2

theorem entryOk_mkFileEntry (p : FsPath) : entryOkB (mkFileEntry p).path (mkFileEntry p) = true := by
  simp [entryOkB, mkFileEntry, kindOf, optsMode, defaultMode, typeBits]

theorem or_and_self (m t : Nat) : (m ||| t) &&& t = t := by
  apply Nat.eq_of_testBit_eq
  intro i
  simp only [Nat.testBit_and, Nat.testBit_or]
  cases m.testBit i <;> cases t.testBit i <;> rfl

theorem entryOk_mkDirEntry (p : FsPath) (mode : Option Nat) :
    entryOkB (mkDirEntry p mode).path (mkDirEntry p mode) = true := by
  have hk : kindOf (mkDirEntry p mode) = .dir := rfl
  simp only [entryOkB, hk, typeBits, Bool.and_eq_true, decide_eq_true_eq, Bool.or_eq_true, Bool.not_eq_true']
  refine ⟨⟨rfl, ?_, ?_⟩, Or.inl rfl⟩
  · simp only [mkDirEntry, optsMode, Bool.false_eq_true, if_false, if_true]
    exact or_and_self _ _
  · cases mode with
    | none =>
      have : (mkDirEntry p none).mode = 0o40755 := rfl
      rw [this]; decide
    | some m =>
      by_cases h0 : m = 0
      · subst h0
        have : (mkDirEntry p (some 0)).mode = 0o40755 := rfl
        rw [this]; decide
      · have : (mkDirEntry p (some m)).mode = (m &&& 0o7777) ||| 0o40000 := by
          unfold mkDirEntry; simp [optsMode_some, h0]
        rw [this, or_sub_typeBits _ _ (and_perm_lt m) (Or.inl rfl)]
        exact and_perm_lt m

theorem es_setFile (p : FsPath) (b : Bytes) : EntriesStable (setFile p b) := fun _ hs => hs

theorem es_syncM (p : FsPath) (b : Bytes) : EntriesStable (syncM p b) := by
  unfold syncM
  refine es_bind (es_of_pure (sp_getEntry p)) fun o => ?_
  cases o with
  | none => exact es_of_pure (sp_fail _)
  | some e =>
    refine es_bind (es_of_pure (sp_getFile p)) fun o => ?_
    cases o with
    | none => exact es_of_pure (sp_mpure _)
    | some _ => exact es_setFile p b

theorem es_mkdirM (p : FsPath) (mode : Option Nat) : EntriesStable (mkdirM p mode) := by
  rw [mkdirM_eq]
  generalize prefixes p = qs
  induction qs with
  | nil => exact fun s hs => hs
  | cons q qs ih =>
    intro s hs
    rw [forM_cons_apply, mkStep_apply]
    have := es_add (mkDirEntry q mode) (entryOk_mkDirEntry q mode) s hs
    rcases h : add (mkDirEntry q mode) s with ⟨o, s'⟩
    rw [h] at this
    cases o with
    | ok a => exact ih s' this
    | err k => exact this
    | panic => exact this
    | hang => exact this

/-- every group-A operation preserves the per-entry well-formedness -/
theorem groupA_preserves_entriesOk (env : Env) (s : State) (op : Op) (hA : GroupA op = true)
    (hs : EntriesOk s) : EntriesOk (step env s op).2 := by
  by_cases hQ : GroupAQuery op = true
  · rw [queries_pure env s op hQ]; exact hs
  · cases op with
    | setCwd p =>
      refine es_mapVal _ (es_bind (es_of_pure (sp_absM env p)) fun a =>
        es_bind (es_of_pure (sp_getEntry a)) fun o => ?_) s hs
      cases o with
      | none => exact es_of_pure (sp_fail _)
      | some e =>
        simp only
        split
        · exact es_of_pure (sp_fail _)
        · exact es_bind (fun _ h => h) fun _ => es_of_pure (sp_pure _)
    | mkfile p =>
      refine es_mapVal _ (es_bind (es_of_pure (sp_absM env p)) fun a =>
        es_bind (es_add _ (entryOk_mkFileEntry a)) fun r => es_bind (es_of_pure (sp_getFile r)) fun o => ?_) s hs
      split
      · exact es_of_pure (sp_fail _)
      · exact es_of_pure (sp_pure _)
    | mkdirP p =>
      exact es_mapVal _ (es_bind (es_of_pure (sp_absM env p)) fun a =>
        es_bind (es_mkdirM a none) fun _ => es_of_pure (sp_pure _)) s hs
    | mkdirM p m =>
      exact es_mapVal _ (es_bind (es_of_pure (sp_absM env p)) fun a =>
        es_bind (es_mkdirM a (some m)) fun _ => es_of_pure (sp_pure _)) s hs
    | writeAll p d =>
      refine es_mapVal _ (es_bind (es_of_pure (sp_absM env p)) fun a =>
        es_bind (es_add _ (entryOk_mkFileEntry a)) fun r => es_bind (es_of_pure (sp_getFile a)) fun o => ?_) s hs
      split
      · exact es_of_pure (sp_fail _)
      · exact fun s hs => es_syncM a d s hs
    | appendAll p d =>
      refine es_mapVal _ (es_bind (es_of_pure (sp_absM env p)) fun a =>
        es_bind (es_add _ (entryOk_mkFileEntry a)) fun r => es_bind (es_of_pure (sp_getFile a)) fun o => ?_) s hs
      cases o with
      | none => exact es_of_pure (sp_fail _)
      | some b =>
        exact es_bind (es_syncM a (b ++ d)) fun _ => fun s hs => es_syncM a (b ++ d) s hs
    | _ => first | exact absurd rfl hQ | cases hA


end Rivia.Lemmas.RefineA
