/-
  Rivia.Lemmas.MovedEntry — the entry that `move_p` inserts at the destination key.

  Since the repair of `moved_link_rel_stale` the loop of `Memfs::move_p` recomputes the relative
  target of a moved symlink against the directory of its new key
  (`dst_entry.rel = dst_entry.alt.relative(dst_path.dir()?)?`).  This file names the result
  (`movedEntry`) and evaluates the monadic `if` that `moveLoop` runs between `removeEntry` and
  `setEntry`, so that the step lemmas of the other files can be stated with `movedEntry`.
-/
import Rivia.Model.Memfs

namespace Rivia.Memfs
open Rivia Rivia.Memfs.M

/-- `rel` of an entry re-keyed to `dst`: recomputed for links, untouched otherwise -/
def movedRel (e : Entry) (dst : FsPath) : Str :=
  if e.link then relative (renderP (e.alt.getD [])) (renderP dst.dropLast) else e.rel

/-- the entry `moveLoop` stores at `dst` when it re-keys `e` -/
def movedEntry (e : Entry) (dst : FsPath) : Entry := { e with path := dst, rel := movedRel e dst }

/-- the computation `moveLoop` runs between `removeEntry` and `setEntry` -/
def movedRelM (e : Entry) (dst : FsPath) : M Str :=
  (if e.link then do
      let ld ← dirOf dst
      M.pure (relative (renderP (e.alt.getD [])) (renderP ld))
    else M.pure e.rel : M Str)

/-- the moved entry can only fail to be computed for a link sent to the root key -/
def MovedOk (e : Entry) (dst : FsPath) : Prop := e.link = true → dst ≠ []

instance (e : Entry) (dst : FsPath) : Decidable (MovedOk e dst) := by unfold MovedOk; infer_instance

theorem movedOk_of_ne {e : Entry} {dst : FsPath} (h : dst ≠ []) : MovedOk e dst := fun _ => h
theorem movedOk_of_not_link {e : Entry} {dst : FsPath} (h : e.link = false) : MovedOk e dst :=
  fun hl => by rw [h] at hl; cases hl

theorem movedRelM_ok {e : Entry} {dst : FsPath} (h : MovedOk e dst) (s : State) :
    movedRelM e dst s = (.ok (movedRel e dst), s) := by
  unfold movedRelM movedRel
  cases hl : e.link with
  | false => rfl
  | true =>
    have hne := h hl
    simp only [if_true]
    show (dirOf dst >>= fun ld => M.pure (relative (renderP (e.alt.getD [])) (renderP ld))) s = _
    unfold dirOf
    rw [if_neg hne]
    rfl

theorem movedRelM_eq_pure {e : Entry} {dst : FsPath} (h : MovedOk e dst) :
    movedRelM e dst = M.pure (movedRel e dst) := funext (movedRelM_ok h)

theorem movedRelM_fail {e : Entry} {dst : FsPath} (hl : e.link = true) (hd : dst = []) (s : State) :
    movedRelM e dst s = (.err .parentNotFound, s) := by
  unfold movedRelM
  subst hd
  simp only [hl, if_true]
  rfl

theorem movedRelM_eq_fail {e : Entry} {dst : FsPath} (hl : e.link = true) (hd : dst = []) :
    movedRelM e dst = M.fail .parentNotFound := funext (movedRelM_fail hl hd)

/-- the state is never touched -/
theorem movedRelM_state (e : Entry) (dst : FsPath) (s : State) : (movedRelM e dst s).2 = s := by
  by_cases h : MovedOk e dst
  · rw [movedRelM_ok h]
  · unfold MovedOk at h
    have hl : e.link = true := by
      cases hl : e.link with
      | true => rfl
      | false => exact absurd (fun h' => by rw [hl] at h'; cases h') h
    have hd : dst = [] := by
      cases dst with
      | nil => rfl
      | cons a as => exact absurd (fun _ => by simp) h
    rw [movedRelM_fail hl hd]

/-- the outcome is `ok` or the one error of `dir()` -/
theorem movedRelM_cases (e : Entry) (dst : FsPath) (s : State) :
    movedRelM e dst s = (.ok (movedRel e dst), s) ∨
    (e.link = true ∧ dst = [] ∧ movedRelM e dst s = (.err .parentNotFound, s)) := by
  by_cases h : MovedOk e dst
  · exact .inl (movedRelM_ok h s)
  · unfold MovedOk at h
    have hl : e.link = true := by
      cases hl : e.link with
      | true => rfl
      | false => exact absurd (fun h' => by rw [hl] at h'; cases h') h
    have hd : dst = [] := by
      cases dst with
      | nil => rfl
      | cons a as => exact absurd (fun _ => by simp) h
    exact .inr ⟨hl, hd, movedRelM_fail hl hd s⟩

/-- the loop body of `moveLoop` with the `rel` computation folded into `movedRelM`/`movedEntry` -/
theorem moveLoop_succ_cons (srcRoot dstRoot : FsPath) (copyInto : Bool) (f : Nat) (srcPath : FsPath)
    (work : List FsPath) :
    moveLoop srcRoot dstRoot copyInto (f + 1) (srcPath :: work) = (do
      let pre ← if copyInto then dirOf srcRoot else M.pure srcRoot
      let dstPath := dstOf dstRoot srcPath pre
      match (← removeEntry srcPath) with
      | none => fail .doesNotExist
      | some srcEntry =>
        let rel ← movedRelM srcEntry dstPath
        setEntry dstPath { srcEntry with path := dstPath, rel := rel }
        match (← removeFile srcPath) with
        | some b => setFile dstPath b
        | none => M.pure ()
        let sd ← dirOf srcPath
        match (← getEntry sd) with
        | some oldParent =>
          let op' ← liftO (oldParent.removeChild (baseName srcPath))
          setEntry sd op'
          let dd ← dirOf dstPath
          match (← getEntry dd) with
          | some newParent =>
            let (_, np') ← liftO (newParent.addChild (baseName dstPath))
            setEntry dd np'
          | none => fail .parentNotFound
        | none => M.pure ()
        let kids := match srcEntry.files with | some fs => fs.map (fun n => srcEntry.path ++ [n]) | none => []
        moveLoop srcRoot dstRoot copyInto f (kids.reverse ++ work)) := by
  rw [moveLoop]
  rfl

end Rivia.Memfs
