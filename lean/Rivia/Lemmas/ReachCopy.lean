/-
  Rivia.Lemmas.ReachCopy — `copy` / `copy_b` without `follow` keep `EntriesOk` and `KeysW`.

  The per-entry body re-reads the source entry from the LIVE state; that it is no link whenever the
  snapshot entry is none needs a two-state invariant (`LinkCoh`: every key of the pre-state is still
  there with the same `link` flag), threaded through the traversal with `runIter_noPre_inv`.
-/
import Rivia.Lemmas.ReachInv
import Rivia.Lemmas.CopyFrame

namespace Rivia.Lemmas.Reach
open Rivia Rivia.Memfs Rivia.Memfs.M Rivia.File Rivia.Spec Rivia.Spec.TreeFs Rivia.Lemmas
open Rivia.Lemmas.MoveLinkRel (AllEnts Tr tr_bind tr_pure tr_mpure tr_fail tr_hang tr_liftO tr_get tr_dirOf)

/-- every key of `s0` is still present, with the same `link` flag -/
def LinkCoh (s0 st : State) : Prop :=
  ∀ k e, alLookup k s0.entries = some e → ∃ e', alLookup k st.entries = some e' ∧ e'.link = e.link

/-- the invariant of the copy loop -/
def CI (s0 st : State) : Prop := KI EK st ∧ LinkCoh s0 st

variable {s0 : State}

theorem ci_congr {st st' : State} (he : st'.entries = st.entries) (hc : st'.cwd = st.cwd) (h : CI s0 st) :
    CI s0 st' := by
  unfold CI KI AllEnts LinkCoh at *
  rw [he, hc]; exact h

theorem c_same {α} {m : M α} (h : ∀ st, (m st).2.entries = st.entries ∧ (m st).2.cwd = st.cwd) :
    Tr (CI s0) m (fun _ => True) :=
  fun st hs => ⟨ci_congr (h st).1 (h st).2 hs, fun _ _ => trivial⟩

theorem c_getFile (p : FsPath) : Tr (CI s0) (getFile p) (fun _ => True) := c_same (fun _ => ⟨rfl, rfl⟩)
theorem c_setFile (p : FsPath) (b : Bytes) : Tr (CI s0) (setFile p b) (fun _ => True) :=
  c_same (fun _ => ⟨rfl, rfl⟩)

theorem c_getEntry (p : FsPath) : Tr (CI s0) (getEntry p)
    (fun o => ∀ e, o = some e → EK p e ∧ ∀ e0, alLookup p s0.entries = some e0 → e.link = e0.link) := by
  intro st h
  refine ⟨h, fun a ha => ?_⟩
  cases ha
  intro e he
  refine ⟨h.1.1 (p, e) (MoveLinkRel.mem_of_lookup he), fun e0 h0 => ?_⟩
  obtain ⟨e', h1, h2⟩ := h.2 p e0 h0
  rw [he] at h1; cases h1; exact h2

theorem c_add (e : Entry) (he : EK e.path e) : Tr (CI s0) (Memfs.add e) (fun _ => True) := by
  intro st hs
  refine ⟨?_, fun _ _ => trivial⟩
  rcases InvA.add_state_cases e st with h1 | ⟨d, b, d', hd, hnone, _, _, _, hac, h1⟩
  · rw [h1]; exact hs
  · rw [h1]
    refine ⟨⟨?_, hs.1.2⟩, ?_⟩
    · intro kv hkv
      rcases InvC.mem_alInsert hkv with rfl | hkv
      · exact entStable_EK.addChild _ d _ b d' (hs.1.1 _ (InvC.mem_of_alLookup hd)) hac
      · rcases InvC.mem_alInsert hkv with rfl | hkv
        · exact he
        · exact hs.1.1 kv hkv
    · intro k e0 h0
      obtain ⟨e', h1', h2'⟩ := hs.2 k e0 h0
      show ∃ e'', alLookup k (alInsert e.path.dropLast d' (alInsert e.path e st.entries)) = some e'' ∧ _
      rw [RefineA.alLookup_alInsert, RefineA.alLookup_alInsert]
      by_cases hk1 : e.path.dropLast = k
      · rw [if_pos hk1]
        subst hk1
        rw [hd] at h1'; cases h1'
        exact ⟨d', rfl, (MoveLinkRel.addChild_fields hac).1.trans h2'⟩
      · rw [if_neg hk1]
        by_cases hk2 : e.path = k
        · subst hk2; rw [hnone] at h1'; cases h1'
        · rw [if_neg hk2]; exact ⟨e', h1', h2'⟩

theorem entryOk_mkDir (q : FsPath) (mode : Option Nat) : RefineA.entryOkB q (mkDirEntry q mode) = true :=
  RefineA.entryOk_mkDirEntry q mode

theorem c_mkdirM (p : FsPath) (mode : Option Nat) (hp : WfKey p) :
    Tr (CI s0) (mkdirM p mode) (fun _ => True) := by
  unfold mkdirM
  have : ∀ qs : List FsPath, (∀ q ∈ qs, WfKey q) →
      Tr (CI s0) (qs.forM (fun p => do let _ ← Memfs.add (mkDirEntry p mode))) (fun _ => True) := by
    intro qs
    induction qs with
    | nil => intro _; exact tr_pure _ trivial
    | cons q qs ih =>
      intro hq
      exact tr_bind (Q := fun _ => True)
        (tr_bind (c_add _ ⟨entryOk_mkDir q mode, hq q List.mem_cons_self⟩) (fun _ _ => tr_pure _ trivial))
        (fun _ _ => ih (fun x hx => hq x (List.mem_cons_of_mem _ hx)))
  apply this
  intro q hq
  obtain ⟨n, rfl⟩ := InvA.mem_prefixes hq
  exact fun x hx => hp x (List.mem_of_mem_take hx)

theorem c_symlinkAbs (l t : FsPath) (hl : WfKey l) : Tr (CI s0) (symlinkAbs l t) (fun _ => True) := by
  unfold symlinkAbs
  refine tr_bind (c_getEntry _) ?_
  intro x _
  split
  · exact tr_fail _
  refine tr_bind (tr_dirOf _) ?_
  intro ldir hldir
  subst hldir
  refine tr_bind (c_getEntry _) ?_
  intro y _
  refine tr_bind (c_add _ ?_) (fun _ _ => tr_pure _ trivial)
  exact ⟨entryOk_linkEntry l t _, hl⟩

theorem entryOk_copied {k p : FsPath} {srcE : Entry} (m : Nat) (h : RefineA.entryOkB k srcE = true)
    (hl : srcE.link = false) : RefineA.entryOkB p (({ srcE with path := p }).setMode m) = true := by
  apply entryOk_setMode
  simp only [RefineA.entryOkB, Bool.and_eq_true, decide_eq_true_eq, Bool.or_eq_true,
    Bool.not_eq_true'] at h ⊢
  have hk : kindOf { srcE with path := p } = kindOf srcE := rfl
  exact ⟨⟨h.1.1, by rw [hk]; exact h.1.2⟩, Or.inl hl⟩

/-- one entry of a no-follow copy -/
theorem copyStep_tr {dk rootPath : FsPath} {c : CopyOpts} {ci : Bool} (hf : c.follow = false) (e : Entry)
    (he : alLookup e.path s0.entries = some e)
    (hD : ∀ pre, (if ci = true then rootPath ≠ [] ∧ pre = rootPath.dropLast else pre = rootPath) →
      WfKey (dstOf dk e.path pre)) :
    ∀ st, CI s0 st → CI s0 (copyStep dk c ci rootPath e st).2 := by
  suffices h : Tr (CI s0) (copyStep dk c ci rootPath e) (fun _ => True) from fun st hs => (h st hs).1
  unfold copyStep
  extract_lets dm fm d body
  clear_value dm fm
  have key : ∀ pre, WfKey (dstOf dk e.path pre) → Tr (CI s0) (d pre) (fun _ => True) := by
    intro pre hw
    simp -zeta only [d]
    extract_lets dstPath jp1
    have hdp : WfKey dstPath := hw
    have hdd : WfKey dstPath.dropLast := fun n hn => hdp n (List.dropLast_subset _ hn)
    split
    · exact tr_bind (c_symlinkAbs _ _ hdp) (fun _ _ => tr_pure _ trivial)
    · rename_i hnl
      have hel : e.link = false := by
        cases h : e.link with
        | false => rfl
        | true => exact absurd ⟨by simp [hf], h⟩ hnl
      refine tr_bind (c_getEntry _) ?_
      intro lift hlift
      have hjp1 : ∀ srcE, (EK e.path srcE ∧ srcE.link = false) → Tr (CI s0) (jp1 srcE) (fun _ => True) := by
        intro srcE ⟨hsk, hsl⟩
        simp -zeta only [jp1]
        split
        · exact c_mkdirM _ _ hdp
        · refine tr_bind (tr_dirOf _) ?_
          intro dd hddeq
          subst hddeq
          refine tr_bind (c_getEntry _) ?_
          intro lift2 _
          extract_lets dstE jpA jpB jpC jpD
          have hA : ∀ u, Tr (CI s0) (jpA u) (fun _ => True) := by
            intro u
            simp -zeta only [jpA]
            refine tr_bind (c_getFile _) ?_
            intro lift4 _
            split
            · exact c_setFile _ _
            · exact tr_fail _
          have hB : ∀ u, Tr (CI s0) (jpB u) (fun _ => True) := by
            intro u
            simp -zeta only [jpB]
            split
            · exact tr_bind (tr_fail (Q := fun _ => True) _) (fun r _ => hA r)
            · exact hA ()
          have hC : ∀ u, Tr (CI s0) (jpC u) (fun _ => True) := by
            intro u
            simp -zeta only [jpC]
            refine tr_bind (c_add dstE ⟨entryOk_copied _ hsk.1 hsl, hdp⟩) ?_
            intro _ _
            split
            · refine tr_bind (c_getFile _) ?_
              intro lift3 _
              split
              · exact tr_bind (tr_fail (Q := fun _ => True) _) (fun r _ => hB r)
              · exact hB ()
            · exact tr_pure _ trivial
          have hD' : ∀ pm, Tr (CI s0) (jpD pm) (fun _ => True) := by
            intro pm
            simp -zeta only [jpD]
            exact tr_bind (c_mkdirM _ _ hdd) (fun r _ => hC r)
          split
          · split
            · exact tr_bind (tr_mpure (Q := fun _ => True) _ trivial) (fun pm _ => hD' pm)
            · refine tr_bind (tr_dirOf _) ?_
              intro sd _
              refine tr_bind (c_getEntry _) ?_
              intro lift5 _
              split
              · exact tr_bind (tr_mpure (Q := fun _ => True) _ trivial) (fun pm _ => hD' pm)
              · exact tr_bind (tr_fail (Q := fun _ => True) _) (fun pm _ => hD' pm)
          · exact hC ()
      split
      · rename_i x
        have hx := hlift x rfl
        refine tr_bind (tr_mpure (Q := fun y => y = x) _ rfl) ?_
        intro y hy
        subst hy
        exact hjp1 y ⟨hx.1, (hx.2 e he).trans hel⟩
      · exact tr_bind (tr_fail (Q := fun _ => False) _) (fun x hx => hx.elim)
  show Tr (CI s0) body (fun _ => True)
  simp -zeta only [body]
  cases ci with
  | true =>
    simp only [if_true]
    by_cases hr : rootPath = []
    · subst hr
      rw [dirOf_nil, fail_bind]
      exact tr_fail _
    · rw [dirOf_ne_nil hr, mpure_bind]
      exact key _ (hD _ (by simp [hr]))
  | false =>
    simp only [Bool.false_eq_true, if_false, mpure_bind]
    exact key _ (hD _ (by simp))

theorem bind_snd_of_not_ok {α β} {m : M α} {f : α → M β} {s : State} {r : Outcome α}
    (h : m s = (r, s)) (hr : ∀ a, r ≠ .ok a) : ((m >>= f) s).2 = s := by
  obtain ⟨r', h', _⟩ := bind_not_ok (f := f) h hr
  rw [h']

theorem ci_refl (s : State) (h : EOk s ∧ KeysW s) : CI s s :=
  ⟨(ki_iff s).2 h, fun _ e he => ⟨e, he, rfl⟩⟩

/-- **a copy without `follow` keeps `EntriesOk` and the key well-formedness**, whatever its outcome -/
theorem copyM_ci (env : Env) (a b : Str) (c : CopyOpts) (s : State) (hI : Spec.Inv s)
    (hE : EOk s) (hk : KeysW s) (hfollow : c.follow = false) : CI s (copyM env a b c s).2 := by
  have hi := invF_of_inv hI
  have h0 : CI s s := ci_refl s ⟨hE, hk⟩
  have hsame : (copyM env a b c s).2 = s → CI s (copyM env a b c s).2 := fun h => by rw [h]; exact h0
  rcases absM_cases env a s with ⟨sk, ha⟩ | ⟨r, ha, hr⟩
  case inr => apply hsame; unfold copyM; exact bind_snd_of_not_ok ha hr
  rcases absM_cases env b s with ⟨dk, hb⟩ | ⟨r, hb, hr⟩
  case inr => apply hsame; unfold copyM; rw [bind_ok ha]; exact bind_snd_of_not_ok hb hr
  have hdk : WfKey dk := absM_wf hk.2 hb
  by_cases hne : sk = dk
  · apply hsame
    unfold copyM
    rw [bind_ok ha, bind_ok hb]
    simp [hne]
  cases hsrc : alLookup sk s.entries with
  | none =>
    apply hsame
    unfold copyM
    rw [bind_ok ha, bind_ok hb]
    simp [hne, hsrc]
  | some rootE0 =>
    have hp : rootE0.path = sk := hi.path sk rootE0 hsrc
    cases hent : entriesOf s sk with
    | ok pr =>
      obtain ⟨travRoot, snap⟩ := pr
      have hent' : entriesOf s (rootE0.doFollow c.follow).path = .ok (travRoot, snap) := by
        rw [hfollow, doFollow_false, hp]; exact hent
      rw [copyM_resolved ha hb hne hsrc hent', hfollow, doFollow_false, hp]
      obtain ⟨hroot, hsub⟩ := entriesOf_sub hi hent
      have hwsk : WfKey sk := hk.key hsrc
      let Q : Entry → Prop := fun e => ∃ r, e.path = sk ++ r ∧ WfKey r ∧ alLookup (sk ++ r) s.entries = some e
      refine runIter_noPre_inv Q (CI s) snap (copyOpts false) travRoot _ ?_ ?_ ?_ ?_ _ {} s ?_ h0
      · intro e ⟨r, hr, hwr, hl⟩ it hit x hx
        obtain ⟨n, hn⟩ := mkIter_items hit x hx
        rw [hr] at hn
        have hxs := hsub _ _ hn
        refine ⟨r ++ [n], ?_, ?_, ?_⟩
        · rw [hi.path _ _ hxs, List.append_assoc]
        · have := hk.key hxs
          rw [List.append_assoc] at this
          exact this.right
        · rw [← List.append_assoc]; exact hxs
      · intro x hx; rw [copyOpts_follow, doFollow_false]; exact hx
      · exact ⟨[], by rw [List.append_nil]; exact hi.path _ _ hroot, by intro n hn; simp at hn,
          by rw [List.append_nil]; exact hroot⟩
      · intro e w ⟨r, hr, hwr, hl⟩ hw
        refine copyStep_tr (dk := dk) (rootPath := sk) (ci := isDirP s dk) hfollow e (by rw [hr]; exact hl) ?_ w hw
        intro pre hpre
        rw [hr]
        cases hci : isDirP s dk with
        | false =>
          rw [hci] at hpre
          simp only [Bool.false_eq_true, if_false] at hpre
          rw [hpre, dstOf_append hdk hwr]
          exact WfKey.append hdk hwr
        | true =>
          rw [hci] at hpre
          simp only [if_true] at hpre
          obtain ⟨hskne, hpre⟩ := hpre
          have h1 : sk ++ r = sk.dropLast ++ ([baseName sk] ++ r) := by
            rw [← List.append_assoc, dropLast_append_baseName hskne]
          have h2 : WfKey ([baseName sk] ++ r) :=
            WfKey.append (by intro n hn; simp at hn; subst hn; exact hwsk _ (baseName_mem hskne)) hwr
          rw [hpre, h1, dstOf_append hdk h2]
          exact WfKey.append hdk h2
      · exact ⟨fun it hit => by simp at hit, fun d hd => by simp at hd⟩
    | err k =>
      apply hsame
      unfold copyM
      rw [bind_ok ha, bind_ok hb]
      simp [hne, hsrc, hfollow, doFollow_false, hp, hent]
    | panic =>
      apply hsame
      unfold copyM
      rw [bind_ok ha, bind_ok hb]
      simp [hne, hsrc, hfollow, doFollow_false, hp, hent, liftO_panic_bind]
    | hang =>
      apply hsame
      unfold copyM
      rw [bind_ok ha, bind_ok hb]
      simp [hne, hsrc, hfollow, doFollow_false, hp, hent, liftO_hang_bind]

/-- `copy` and `copy_b` without `follow` -/
def copyNoFollow : Op → Prop
  | .copy _ _ => True
  | .copyB _ _ c => c.follow = false
  | _ => False

instance : DecidablePred copyNoFollow := fun op => by unfold copyNoFollow; split <;> infer_instance

theorem step_copy_keeps (env : Env) (s : State) (op : Op) (hc : copyNoFollow op) (hI : Spec.Inv s)
    (hE : EOk s) (hk : KeysW s) : EOk (step env s op).2 ∧ KeysW (step env s op).2 := by
  cases op <;> try exact absurd hc id
  · rw [step, InvA.mapVal_snd]; exact (ki_iff _).1 (copyM_ci env _ _ {} s hI hE hk rfl).1
  · rw [step, InvA.mapVal_snd]; exact (ki_iff _).1 (copyM_ci env _ _ _ s hI hE hk hc).1

end Rivia.Lemmas.Reach
