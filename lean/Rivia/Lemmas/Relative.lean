/-
  Rivia.Lemmas.Relative — facts about `relLoop` / `relative` on clean absolute paths
  (`render (.root :: ns.map .normal)`), used by `Rivia.Props.C16`.
-/
import Rivia.Lemmas.PathBasics
import Rivia.Lemmas.Clean

namespace Rivia.Lemmas
open Rivia Rivia.Str Rivia.Spec

/-- a well-formed component name (same as `Props.WfName`) -/
def Wf (n : Str) : Prop := n ≠ [] ∧ '/' ∉ n ∧ n ≠ ['.'] ∧ n ≠ ['.', '.']

theorem Wf.bodyPiece {n : Str} (h : Wf n) : BodyPiece n := ⟨h.1, h.2.2.1, h.2.1⟩

theorem bodyPiece_dotdot : BodyPiece dotdot := by
  unfold BodyPiece dotdot; decide

/-- length of the common prefix (same as `Props.commonLen`) -/
def cLen : List Str → List Str → Nat
  | a :: as, b :: bs => if a = b then cLen as bs + 1 else 0
  | _, _ => 0

theorem cLen_le_left (ps bs : List Str) : cLen ps bs ≤ ps.length := by
  induction ps generalizing bs with
  | nil => simp [cLen]
  | cons a as ih =>
    cases bs with
    | nil => simp [cLen]
    | cons b bs =>
      simp only [cLen]
      split
      · simpa using ih bs
      · simp

theorem cLen_le_right (ps bs : List Str) : cLen ps bs ≤ bs.length := by
  induction ps generalizing bs with
  | nil => simp [cLen]
  | cons a as ih =>
    cases bs with
    | nil => simp [cLen]
    | cons b bs =>
      simp only [cLen]
      split
      · simpa using ih bs
      · simp

theorem take_cLen (ps bs : List Str) : ps.take (cLen ps bs) = bs.take (cLen ps bs) := by
  induction ps generalizing bs with
  | nil => simp [cLen]
  | cons a as ih =>
    cases bs with
    | nil => simp [cLen]
    | cons b bs =>
      simp only [cLen]
      split
      · next h => subst h; simp [ih bs]
      · simp

/-- the shape list is non-empty for different paths -/
theorem shape_ne_nil {ps bs : List Str} (hne : ps ≠ bs) :
    List.replicate (bs.length - cLen ps bs) dotdot ++ ps.drop (cLen ps bs) ≠ [] := by
  intro h
  have h1 := cLen_le_left ps bs
  have h2 := cLen_le_right ps bs
  have h3 := take_cLen ps bs
  simp only [List.append_eq_nil_iff, List.replicate_eq_nil_iff, List.drop_eq_nil_iff] at h
  have e1 : cLen ps bs = ps.length := by omega
  have e2 : cLen ps bs = bs.length := by omega
  apply hne
  have := h3
  rw [e1] at this
  rw [List.take_length] at this
  rw [this, ← e1, e2, List.take_length]

/-! ### rendering -/

theorem foldl_push_bufOf (r : Bool) (cs : List Comp) :
    ∀ ps : List Str, (∀ q ∈ ps, BodyPiece q) → (∀ c ∈ cs, BodyPiece c.str) →
      cs.foldl (fun b c => push b c.str) (bufOf r ps) = bufOf r (ps ++ cs.map Comp.str) := by
  induction cs with
  | nil => intro ps _ _; simp
  | cons c cs ih =>
    intro ps hps hcs
    have hc := hcs c (by simp)
    rw [List.foldl_cons, push_bufOf hc hps, ih (ps ++ [c.str])]
    · simp
    · intro q hq
      rcases List.mem_append.1 hq with hq | hq
      · exact hps q hq
      · simp only [List.mem_singleton] at hq; subst hq; exact hc
    · intro c' hc'; exact hcs c' (by simp [hc'])

theorem map_str_normal (ns : List Str) : (ns.map Comp.normal).map Comp.str = ns := by
  induction ns with
  | nil => rfl
  | cons a as ih => rw [List.map_cons, List.map_cons, ih]; rfl

/-- `absPath ns` is `/` followed by the names joined with `/`. -/
theorem render_root_normals {ns : List Str} (h : ∀ n ∈ ns, Wf n) :
    render (.root :: ns.map Comp.normal) = bufOf true ns := by
  unfold render
  rw [List.foldl_cons]
  have h0 : push [] Comp.root.str = bufOf true [] := by decide
  rw [h0, foldl_push_bufOf true _ [] (by simp), map_str_normal]
  · simp
  · intro c hc
    obtain ⟨n, hn, rfl⟩ := List.mem_map.1 hc
    exact (h n hn).bodyPiece

theorem render_shape (m : Nat) {qs : List Str} (h : ∀ n ∈ qs, Wf n) :
    render (List.replicate m Comp.parent ++ qs.map Comp.normal) =
      bufOf false (List.replicate m dotdot ++ qs) := by
  unfold render
  have h0 : ([] : Str) = bufOf false [] := by decide
  rw [h0, foldl_push_bufOf false _ [] (by simp)]
  · rw [List.nil_append, List.map_append, map_str_normal, List.map_replicate]; rfl
  · intro c hc
    rcases List.mem_append.1 hc with hc | hc
    · rw [(List.mem_replicate.1 hc).2]; exact bodyPiece_dotdot
    · obtain ⟨n, hn, rfl⟩ := List.mem_map.1 hc
      exact (h n hn).bodyPiece

theorem bodyPiece_shape {m : Nat} {qs : List Str} (h : ∀ n ∈ qs, Wf n) :
    ∀ q ∈ List.replicate m dotdot ++ qs, BodyPiece q := by
  intro q hq
  rcases List.mem_append.1 hq with hq | hq
  · rw [(List.mem_replicate.1 hq).2]; exact bodyPiece_dotdot
  · exact (h q hq).bodyPiece

/-! ### absolute clean paths -/

theorem bodyComp_of_wf {n : Str} (h : Wf n) : bodyComp n = some (.normal n) := by
  rw [bodyComp_of_bodyPiece h.bodyPiece, if_neg h.2.2.2]

theorem filterMap_bodyComp_wf {ns : List Str} (h : ∀ n ∈ ns, Wf n) :
    ns.filterMap bodyComp = ns.map Comp.normal := by
  induction ns with
  | nil => rfl
  | cons a as ih =>
    rw [List.filterMap_cons_some (bodyComp_of_wf (h a (by simp))), ih (fun n hn => h n (by simp [hn]))]
    rfl

theorem components_abs {ns : List Str} (h : ∀ n ∈ ns, Wf n) :
    components (bufOf true ns) = .root :: ns.map Comp.normal := by
  cases ns with
  | nil => decide
  | cons a as =>
    have hb : ∀ p ∈ a :: as, BodyPiece p := fun p hp => (h p hp).bodyPiece
    unfold components
    rw [isRooted_bufOf hb, splitSlash_bufOf (by simp) hb]
    simp only [if_true, List.cons_append, List.nil_append]
    rw [List.filterMap_cons_none (by decide), filterMap_bodyComp_wf h]

theorem normalForm_abs {ns : List Str} (h : ∀ n ∈ ns, Wf n) : NormalForm (bufOf true ns) := by
  cases ns with
  | nil => exact Or.inr (Or.inl (by decide))
  | cons a as =>
    have hb : ∀ p ∈ a :: as, BodyPiece p := fun p hp => (h p hp).bodyPiece
    refine Or.inr (Or.inr ?_)
    rw [bodyPieces_bufOf (by simp) hb]
    refine ⟨fun p hp => ⟨(h p hp).1, (h p hp).2.2.1⟩, fun _ p hp => (h p hp).2.2.2, ?_⟩
    exact List.pairwise_of_forall_mem_list (fun _ _ b hb' hd => absurd hd (h b hb').2.2.2)

theorem isRooted_abs (ns : List Str) : isRooted (bufOf true ns) = true := by
  simp [bufOf, isRooted_cons]

/-! ### relLoop -/

theorem relLoop_nil_left (ys acc : List Comp) :
    relLoop [] ys acc = acc ++ List.replicate ys.length Comp.parent := by
  induction ys generalizing acc with
  | nil => simp [relLoop]
  | cons y ys ih =>
    simp only [relLoop, ih, List.length_cons, List.replicate_succ, List.append_assoc,
      List.cons_append, List.nil_append]

theorem relLoop_normals (ps bs : List Str) :
    relLoop (ps.map Comp.normal) (bs.map Comp.normal) [] =
      List.replicate (bs.length - cLen ps bs) Comp.parent ++
        (ps.drop (cLen ps bs)).map Comp.normal := by
  induction ps generalizing bs with
  | nil =>
    simp [relLoop_nil_left, cLen]
  | cons a as ih =>
    cases bs with
    | nil => simp [relLoop, cLen]
    | cons b bs =>
      simp only [List.map_cons, relLoop, cLen]
      by_cases hab : a = b
      · subst hab
        simp only [List.isEmpty_nil, and_self, if_true, ih bs, List.length_cons, List.drop_succ_cons]
        congr 2
        omega
      · have : ¬ (([] : List Comp).isEmpty = true ∧ Comp.normal a = Comp.normal b) := by
          simp [hab]
        simp only [if_neg this, if_neg hab, List.nil_append, List.length_cons, Nat.sub_zero,
          List.drop_zero, List.map_cons, List.replicate_succ, List.cons_append, List.map_map]
        congr 1
        congr 1
        rw [← List.map_const']
        rfl

theorem relLoop_abs (ps bs : List Str) :
    relLoop (.root :: ps.map Comp.normal) (.root :: bs.map Comp.normal) [] =
      List.replicate (bs.length - cLen ps bs) Comp.parent ++
        (ps.drop (cLen ps bs)).map Comp.normal := by
  rw [← relLoop_normals]
  simp [relLoop]

theorem map_normal_injective {ps bs : List Str}
    (h : ps.map Comp.normal = bs.map Comp.normal) : ps = bs := by
  induction ps generalizing bs with
  | nil => cases bs <;> simp_all
  | cons a as ih =>
    cases bs with
    | nil => simp at h
    | cons b bs =>
      simp only [List.map_cons, List.cons.injEq, Comp.normal.injEq] at h
      rw [h.1, ih h.2]

/-- `relative` on two different clean absolute paths. -/
theorem relative_abs {ps bs : List Str} (hp : ∀ n ∈ ps, Wf n) (hb : ∀ n ∈ bs, Wf n)
    (hne : ps ≠ bs) :
    relative (bufOf true ps) (bufOf true bs) =
      bufOf false (List.replicate (bs.length - cLen ps bs) dotdot ++ ps.drop (cLen ps bs)) := by
  unfold relative
  rw [components_abs hp, components_abs hb, if_neg, relLoop_abs, render_shape]
  · intro n hn; exact hp n (List.mem_of_mem_drop hn)
  · intro h
    simp only [List.cons.injEq, true_and] at h
    exact hne (map_normal_injective h)

/-! ### joining and cleaning -/

theorem joinWith_append (sep : Char) {l1 l2 : List Str} (h1 : l1 ≠ []) (h2 : l2 ≠ []) :
    joinWith sep (l1 ++ l2) = joinWith sep l1 ++ sep :: joinWith sep l2 := by
  induction l1 with
  | nil => exact absurd rfl h1
  | cons x r ih =>
    cases r with
    | nil => simpa [joinWith] using joinWith_cons_of_ne_nil sep x h2
    | cons y r' =>
      have := ih (by simp)
      rw [List.cons_append, joinWith_cons_of_ne_nil sep x (by simp), this,
        joinWith_cons_of_ne_nil sep x (by simp)]
      simp

/-- pushing a non-empty relative body onto a clean absolute path concatenates the pieces -/
theorem push_abs_rel {bs rs : List Str} (hb : ∀ q ∈ bs, BodyPiece q) (hr : ∀ q ∈ rs, BodyPiece q)
    (hne : rs ≠ []) : push (bufOf true bs) (bufOf false rs) = bufOf true (bs ++ rs) := by
  have hroot : isRooted (bufOf false rs) = false := isRooted_bufOf hr
  rcases eq_nil_or_snoc bs with rfl | ⟨mid, t, rfl⟩
  · have hroot' : isRooted (joinWith '/' rs) = false := by simpa [bufOf] using hroot
    simp [push, hroot', bufOf, joinWith, endsWithSlash]
  · have ht : BodyPiece t := hb t (by simp)
    have h1 : bufOf true (mid ++ [t]) ≠ [] := bufOf_snoc_ne_nil ht.1
    have h2 : endsWithSlash (bufOf true (mid ++ [t])) = false := endsWithSlash_bufOf_snoc ht
    simp only [push, hroot, Bool.false_eq_true, if_false, h1, h2, ne_eq, not_false_eq_true,
      and_self, if_true]
    unfold bufOf
    rw [joinWith_append '/' (by simp) hne]
    simp

theorem goStep_wf (r : Bool) (st : List Str) {p : Str} (h : Wf p) : goStep r st p = p :: st := by
  unfold goStep
  rw [if_neg (by simp [h.1, h.2.2.1]), if_neg (by simpa [dotdot] using h.2.2.2)]

theorem foldl_goStep_wf (r : Bool) {ps : List Str} (h : ∀ n ∈ ps, Wf n) (st : List Str) :
    ps.foldl (goStep r) st = ps.reverse ++ st := by
  induction ps generalizing st with
  | nil => rfl
  | cons p ps ih =>
    rw [List.foldl_cons, goStep_wf r st (h p (by simp)), ih (fun n hn => h n (by simp [hn]))]
    simp

/-- under a root, `m` pieces `..` pop `m` elements of a `..`-free stack -/
theorem foldl_goStep_dotdots (m : Nat) (st : List Str) (h : ∀ q ∈ st, q ≠ dotdot) :
    (List.replicate m dotdot).foldl (goStep true) st = st.drop m := by
  induction m generalizing st with
  | zero => simp
  | succ m ih =>
    rw [List.replicate_succ, List.foldl_cons]
    cases st with
    | nil =>
      have : goStep true [] dotdot = [] := by decide
      rw [this, ih [] (by simp)]
      simp
    | cons top below =>
      have : goStep true (top :: below) dotdot = below := by
        unfold goStep
        rw [if_neg (by decide), if_pos rfl]
        simp [h top (by simp)]
      rw [this, ih below (fun q hq => h q (by simp [hq]))]
      simp

/-- cleaning `base/..^m/rest` -/
theorem goClean_navigate {ps bs : List Str} (hp : ∀ n ∈ ps, Wf n) (hb : ∀ n ∈ bs, Wf n)
    (hne : ps ≠ bs) :
    goClean (bufOf true
      (bs ++ (List.replicate (bs.length - cLen ps bs) dotdot ++ ps.drop (cLen ps bs)))) =
      bufOf true ps := by
  have hd : ∀ n ∈ ps.drop (cLen ps bs), Wf n := fun n hn => hp n (List.mem_of_mem_drop hn)
  have hall : ∀ q ∈ bs ++ (List.replicate (bs.length - cLen ps bs) dotdot ++ ps.drop (cLen ps bs)),
      BodyPiece q := by
    intro q hq
    rcases List.mem_append.1 hq with hq | hq
    · exact (hb q hq).bodyPiece
    · exact bodyPiece_shape hd q hq
  have hne' : bs ++ (List.replicate (bs.length - cLen ps bs) dotdot ++ ps.drop (cLen ps bs)) ≠ [] := by
    intro h
    exact shape_ne_nil hne (List.append_eq_nil_iff.1 h).2
  have hstack : goStack (bufOf true
      (bs ++ (List.replicate (bs.length - cLen ps bs) dotdot ++ ps.drop (cLen ps bs)))) =
      ps.reverse := by
    unfold goStack
    have hs := splitSlash_bufOf (rooted := true) hne' hall
    unfold splitSlash at hs
    rw [hs, isRooted_abs]
    simp only [if_true, List.cons_append, List.nil_append, List.foldl_cons, List.foldl_append]
    have h0 : goStep true [] [] = [] := by decide
    rw [h0, foldl_goStep_wf true hb, List.append_nil, foldl_goStep_dotdots, foldl_goStep_wf true hd,
      List.drop_reverse, ← List.reverse_append]
    · have hk := cLen_le_right ps bs
      have : bs.length - (bs.length - cLen ps bs) = cLen ps bs := by omega
      rw [this, ← take_cLen, List.take_append_drop]
    · intro q hq
      exact (hb q (List.mem_reverse.1 hq)).2.2.2
  rw [goClean_eq, hstack, isRooted_abs, List.reverse_reverse, if_neg]
  simp [bufOf]

end Rivia.Lemmas
