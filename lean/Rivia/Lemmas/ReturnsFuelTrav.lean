/- COPY of Rivia/Lemmas/FuelTrav.lean in the namespace `Rivia.Lemmas.Ret` (nothing else changed): the original
   cannot be imported together with Rivia/Lemmas/CopyMove.lean (the C01R / C01C family), both declare
   `Rivia.Lemmas.alLookup_of_mem`, `WfKey`, ….  Used by Props/C12R only. -/
/-
  Rivia.Lemmas.FuelTrav — the traversal (`EntriesIter`) never exhausts its fuel when links are not
  followed and the snapshot is well-formed.

  Potential of an iterator state: every open directory iterator counts 1, every pending item `x`
  counts 3 · (number of snapshot entries at/under `x.path`), every deferred entry counts 1.
  Each iteration of `nextLoop` decreases it.
-/
import Rivia.Lemmas.ReturnsFuelMove
import Rivia.Lemmas.Chmod

namespace Rivia.Lemmas.Ret
open Rivia Rivia.Memfs Rivia.Memfs.M Rivia.File

/-! ### sorting does not change sums or membership -/

theorem mem_insertSorted {le : Entry → Entry → Bool} {x y : Entry} {l : List Entry}
    (h : y ∈ insertSorted le x l) : y = x ∨ y ∈ l := by
  induction l with
  | nil => simp only [insertSorted, List.mem_singleton] at h; exact .inl h
  | cons a l ih =>
    simp only [insertSorted] at h
    split at h
    · rcases List.mem_cons.1 h with h | h
      · exact .inl h
      · exact .inr h
    · rcases List.mem_cons.1 h with h | h
      · exact .inr (h ▸ List.mem_cons_self)
      · rcases ih h with h | h
        · exact .inl h
        · exact .inr (List.mem_cons_of_mem _ h)

theorem sum_insertSorted (f : Entry → Nat) (le : Entry → Entry → Bool) (x : Entry) (l : List Entry) :
    ((insertSorted le x l).map f).sum = f x + (l.map f).sum := by
  induction l with
  | nil => simp [insertSorted]
  | cons a l ih =>
    simp only [insertSorted]
    split
    · simp
    · simp only [List.map_cons, List.sum_cons, ih]; omega

theorem mem_sortEntries {le : Entry → Entry → Bool} {y : Entry} {l : List Entry}
    (h : y ∈ sortEntries le l) : y ∈ l := by
  induction l with
  | nil => simp [sortEntries] at h
  | cons a l ih =>
    simp only [sortEntries, List.foldr_cons] at h ih
    rcases mem_insertSorted h with h | h
    · exact h ▸ List.mem_cons_self
    · exact List.mem_cons_of_mem _ (ih h)

theorem sum_sortEntries (f : Entry → Nat) (le : Entry → Entry → Bool) (l : List Entry) :
    ((sortEntries le l).map f).sum = (l.map f).sum := by
  induction l with
  | nil => simp [sortEntries]
  | cons a l ih =>
    simp only [sortEntries, List.foldr_cons] at ih ⊢
    rw [sum_insertSorted, ih]
    simp

theorem sum_filter_partition {α} (f : α → Nat) (p : α → Bool) (l : List α) :
    ((l.filter p).map f).sum + ((l.filter (fun x => !p x)).map f).sum = (l.map f).sum := by
  induction l with
  | nil => rfl
  | cons a l ih =>
    simp only [List.filter_cons]
    cases hp : p a <;> simp [ih] <;> omega

/-! ### cost -/

def cst (snap : Snap) (x : Entry) : Nat := 3 * cnt snap x.path

def itCost (snap : Snap) (it : EIter) : Nat := 1 + (it.items.map (cst snap)).sum

structure SnapWF (snap : Snap) : Prop where
  path : ∀ k e, (k, e) ∈ snap → e.path = k
  namesNodup : ∀ k e, (k, e) ∈ snap → (names e).Nodup

theorem doFollow_false (x : Entry) : x.doFollow false = x := by
  simp [Entry.doFollow]

/-- the entries `MemfsEntryIter` yields for the listed names `ns` of `path` -/
def rawItems (snap : Snap) (path : FsPath) (ns : List Str) : List Entry :=
  (((ns.map (fun n => path ++ [n])).map (fun k => alLookup k snap)).takeWhile Option.isSome).filterMap id

theorem rawItems_cons (snap : Snap) (path : FsPath) (n : Str) (ns : List Str) :
    rawItems snap path (n :: ns) =
      match alLookup (path ++ [n]) snap with
      | some y => y :: rawItems snap path ns
      | none => [] := by
  unfold rawItems
  simp only [List.map_cons, List.takeWhile_cons]
  cases alLookup (path ++ [n]) snap <;> simp

theorem rawItems_spec {snap : Snap} (wf : SnapWF snap) (path : FsPath) (ns : List Str) :
    (∀ x ∈ rawItems snap path ns, (x.path, x) ∈ snap) ∧
    ((rawItems snap path ns).map (cst snap)).sum ≤ (ns.map (fun n => 3 * cnt snap (path ++ [n]))).sum := by
  induction ns with
  | nil => simp [rawItems]
  | cons n ns ih =>
    rw [rawItems_cons]
    cases h : alLookup (path ++ [n]) snap with
    | none => simp
    | some y =>
      have hm := alLookup_some_mem h
      have hp := wf.path _ _ hm
      simp only
      constructor
      · intro x hx
        rcases List.mem_cons.1 hx with rfl | hx
        · rw [hp]; exact hm
        · exact ih.1 x hx
      · simp only [List.map_cons, List.sum_cons]
        have : cst snap y = 3 * cnt snap (path ++ [n]) := by unfold cst; rw [hp]
        have := ih.2
        omega

theorem three_mul_sum {α} (f : α → Nat) (l : List α) :
    (l.map (fun n => 3 * f n)).sum = 3 * (l.map f).sum := by
  induction l with
  | nil => rfl
  | cons a l ih => simp only [List.map_cons, List.sum_cons, ih]; omega

/-- the sort / dirs_first / files_first / cache step of `mkIter` -/
def arrange (o : Opts) (path : FsPath) (items : List Entry) : Outcome EIter :=
  if o.sorted then
    if o.dirsFirst then
      .ok ⟨path, true, sortEntries nameLe (items.filter (·.dir)) ++ sortEntries nameLe (items.filter (fun x => !x.dir))⟩
    else if o.filesFirst then
      .ok ⟨path, true, sortEntries nameLe (items.filter (fun x => !x.dir)) ++ sortEntries nameLe (items.filter (·.dir))⟩
    else .ok ⟨path, true, sortEntries nameLe items⟩
  else .ok ⟨path, false, items⟩

theorem mkIter_eq (snap : Snap) (o : Opts) (path : FsPath) :
    mkIter snap o path = match alLookup path snap with
      | none => .err .doesNotExist
      | some e => arrange o path ((rawItems snap path (names e)).map (fun x => x.doFollow o.follow)) := by
  unfold mkIter
  cases alLookup path snap with
  | none => rfl
  | some e =>
    simp only [arrange, rawItems, names]
    cases e.files <;> rfl

theorem arrange_spec (o : Opts) (path : FsPath) (items : List Entry) :
    ∃ it, arrange o path items = .ok it ∧ (∀ x ∈ it.items, x ∈ items) ∧
      ∀ f : Entry → Nat, (it.items.map f).sum = (items.map f).sum := by
  unfold arrange
  split
  · split
    · refine ⟨_, rfl, ?_, ?_⟩
      · intro x hx
        rcases List.mem_append.1 hx with hx | hx
        · exact (List.mem_filter.1 (mem_sortEntries hx)).1
        · exact (List.mem_filter.1 (mem_sortEntries hx)).1
      · intro f
        simp only
        rw [List.map_append, List.sum_append, sum_sortEntries, sum_sortEntries, sum_filter_partition]
    · split
      · refine ⟨_, rfl, ?_, ?_⟩
        · intro x hx
          rcases List.mem_append.1 hx with hx | hx
          · exact (List.mem_filter.1 (mem_sortEntries hx)).1
          · exact (List.mem_filter.1 (mem_sortEntries hx)).1
        · intro f
          simp only
          rw [List.map_append, List.sum_append, sum_sortEntries, sum_sortEntries, Nat.add_comm,
            sum_filter_partition]
      · exact ⟨_, rfl, fun x hx => mem_sortEntries hx, fun f => sum_sortEntries f _ _⟩
  · exact ⟨_, rfl, fun x hx => hx, fun f => rfl⟩

/-- what `mkIter` returns: never a hang or panic, and on success the items are snapshot entries whose
    total cost is at least 3 less than the cost of the directory -/
theorem mkIter_spec {snap : Snap} (wf : SnapWF snap) {o : Opts} (hfo : o.follow = false)
    (path : FsPath) :
    Fine (mkIter snap o path) ∧
    ∀ it, mkIter snap o path = .ok it →
      (∀ x ∈ it.items, (x.path, x) ∈ snap) ∧ (it.items.map (cst snap)).sum + 3 ≤ 3 * cnt snap path := by
  rw [mkIter_eq]
  cases h : alLookup path snap with
  | none => exact ⟨fine_err _, fun it hit => by cases hit⟩
  | some e =>
    have hm := alLookup_some_mem h
    simp only [hfo]
    have hdf : (rawItems snap path (names e)).map (fun x => x.doFollow false) =
        rawItems snap path (names e) := by
      rw [List.map_congr_left (g := id) (fun x _ => doFollow_false x), List.map_id]
    rw [hdf]
    obtain ⟨hmem, hsum⟩ := rawItems_spec wf path (names e)
    have hlt := kids_count_lt snap path (names e) (wf.namesNodup _ _ hm) hm
    rw [three_mul_sum] at hsum
    obtain ⟨it0, hit0, hmem0, hsum0⟩ := arrange_spec o path (rawItems snap path (names e))
    rw [hit0]
    refine ⟨fine_ok _, ?_⟩
    intro it hit
    cases hit
    refine ⟨fun x hx => hmem x (hmem0 x hx), ?_⟩
    rw [hsum0]
    omega

/-! ### `process` -/

def G0 (snap : Snap) (st : ISt) : Nat := (st.iters.map (itCost snap)).sum + st.deferred.length

/-- budget of processing the entry `e` -/
def B (snap : Snap) (e : Entry) : Nat := max (cst snap e) 2

def ItemsOk (snap : Snap) (st : ISt) : Prop := ∀ it ∈ st.iters, ∀ x ∈ it.items, (x.path, x) ∈ snap

/-- the `descend` part of `process` -/
def descendP {σ} (snap : Snap) (o : Opts) (preOp : Entry → σ → Outcome Unit × σ)
    (st : ISt) (e : Entry) (w : σ) : Option (Outcome Entry) × ISt × σ :=
  if e.dir ∧ (!e.link ∨ o.follow) then
    if e.link ∧ st.iters.any (fun x => x.path = e.path) then (some (.err .linkLooping), st, w)
    else if st.iters.length < o.maxDepth then
      match preOp e w with
      | (.ok (), w') =>
        match mkIter snap o e.path with
        | .ok it =>
          if o.sorted ∨ st.openDesc + 1 > o.maxDesc then
            (none, { st with iters := { it with cached := true } :: st.iters }, w')
          else (none, { st with iters := it :: st.iters, openDesc := st.openDesc + 1 }, w')
        | .err k => (some (.err k), st, w')
        | .panic => (some .panic, st, w')
        | .hang => (some .hang, st, w')
      | (.err k, w') => (some (.err k), st, w')
      | (.panic, w') => (some .panic, st, w')
      | (.hang, w') => (some .hang, st, w')
    else (none, st, w)
  else (none, st, w)

/-- the filter / defer part of `process` -/
def finishP {σ} (o : Opts) (depth : Nat) (e : Entry) :
    Option (Outcome Entry) × ISt × σ → Option (Outcome Entry) × ISt × σ
  | (some r, st', w') => (some r, st', w')
  | (none, st', w') =>
    if depth < o.minDepth then (none, st', w')
    else if (o.files ∧ !e.file) ∨ (!o.files ∧ o.dirs ∧ !e.dir) then (none, st', w')
    else if e.dir ∧ o.contentsFirst then (none, { st' with deferred := (depth, e) :: st'.deferred }, w')
    else (some (.ok e), st', w')

theorem process_eq {σ} (snap : Snap) (o : Opts) (preOp : Entry → σ → Outcome Unit × σ)
    (st : ISt) (e : Entry) (w : σ) :
    process snap o preOp st e w = finishP o st.iters.length e (descendP snap o preOp st e w) := by
  unfold process finishP descendP
  rfl

theorem B_ge_two (snap : Snap) (e : Entry) : 2 ≤ B snap e := Nat.le_max_right _ _
theorem B_ge_cst (snap : Snap) (e : Entry) : cst snap e ≤ B snap e := Nat.le_max_left _ _

theorem descend_spec {σ} {snap : Snap} (wf : SnapWF snap) {o : Opts} (hfo : o.follow = false)
    (preOp : Entry → σ → Outcome Unit × σ) (hpre : ∀ e w, (preOp e w).1 ≠ .hang)
    (st : ISt) (e : Entry) (w : σ) (hst : ItemsOk snap st) :
    (descendP snap o preOp st e w).1 ≠ some .hang ∧
    ItemsOk snap (descendP snap o preOp st e w).2.1 ∧
    G0 snap (descendP snap o preOp st e w).2.1 + 2 ≤ G0 snap st + B snap e ∧
    (descendP snap o preOp st e w).2.1.started = st.started ∧
    (descendP snap o preOp st e w).2.1.deferred = st.deferred := by
  have hB := B_ge_two snap e
  have hBc := B_ge_cst snap e
  have same : ∀ (r : Option (Outcome Entry)) (w' : σ), r ≠ some .hang →
      (r, st, w').1 ≠ some .hang ∧ ItemsOk snap (r, st, w').2.1 ∧
      G0 snap (r, st, w').2.1 + 2 ≤ G0 snap st + B snap e ∧
      (r, st, w').2.1.started = st.started ∧ (r, st, w').2.1.deferred = st.deferred :=
    fun r w' hr => ⟨hr, hst, by simp only; omega, rfl, rfl⟩
  obtain ⟨hmkFine, hmk⟩ := mkIter_spec wf hfo e.path
  unfold descendP
  split
  · split
    · exact same _ _ (by simp)
    · split
      · have hp := hpre e w
        split
        · rename_i w' hpo
          split
          · rename_i it hit
            obtain ⟨hitems, hcost⟩ := hmk it hit
            have hcst : cst snap e = 3 * cnt snap e.path := rfl
            split
            · refine ⟨by simp, ?_, ?_, rfl, rfl⟩
              · intro it' hit' x hx
                rcases List.mem_cons.1 hit' with rfl | hit'
                · exact hitems x hx
                · exact hst it' hit' x hx
              · simp only [G0, List.map_cons, List.sum_cons, itCost]
                omega
            · refine ⟨by simp, ?_, ?_, rfl, rfl⟩
              · intro it' hit' x hx
                rcases List.mem_cons.1 hit' with rfl | hit'
                · exact hitems x hx
                · exact hst it' hit' x hx
              · simp only [G0, List.map_cons, List.sum_cons, itCost]
                omega
          · exact same _ _ (by simp)
          · exact same _ _ (by simp)
          · rename_i hh; exact absurd hh hmkFine.2
        · exact same _ _ (by simp)
        · exact same _ _ (by simp)
        · rename_i hh; rw [hh] at hp; exact absurd rfl hp
      · exact same _ _ (by simp)
  · exact same _ _ (by simp)

theorem process_spec {σ} {snap : Snap} (wf : SnapWF snap) {o : Opts} (hfo : o.follow = false)
    (preOp : Entry → σ → Outcome Unit × σ) (hpre : ∀ e w, (preOp e w).1 ≠ .hang)
    (st : ISt) (e : Entry) (w : σ) (hst : ItemsOk snap st) :
    (process snap o preOp st e w).1 ≠ some .hang ∧
    ItemsOk snap (process snap o preOp st e w).2.1 ∧
    G0 snap (process snap o preOp st e w).2.1 + 1 ≤ G0 snap st + B snap e ∧
    (process snap o preOp st e w).2.1.started = st.started := by
  rw [process_eq]
  obtain ⟨h1, h2, h3, h4, h5⟩ := descend_spec wf hfo preOp hpre st e w hst
  generalize descendP snap o preOp st e w = d at h1 h2 h3 h4 h5
  obtain ⟨r, st', w'⟩ := d
  simp only at h1 h2 h3 h4 h5
  cases r with
  | some r => exact ⟨h1, h2, by simp only [finishP]; omega, h4⟩
  | none =>
    simp only [finishP]
    split
    · exact ⟨by simp, h2, by simp only; omega, h4⟩
    · split
      · exact ⟨by simp, h2, by simp only; omega, h4⟩
      · split
        · refine ⟨by simp, h2, ?_, h4⟩
          simp only [G0, List.length_cons] at h3 ⊢
          omega
        · exact ⟨by simp, h2, by simp only; omega, h4⟩

/-! ### `nextLoop` -/

theorem cst_ge_three {snap : Snap} {x : Entry} (h : (x.path, x) ∈ snap) : 3 ≤ cst snap x := by
  unfold cst cnt
  have : 0 < snap.countP (fun kv => decide (x.path <+: kv.1)) :=
    List.countP_pos_iff.2 ⟨(x.path, x), h, by simp⟩
  omega

theorem B_eq_cst {snap : Snap} {x : Entry} (h : (x.path, x) ∈ snap) : B snap x = cst snap x := by
  have := cst_ge_three h
  unfold B
  omega

/-- result of `nextLoop` / `nextE`: not a hang, and when an entry is yielded the new state is
    again well-formed with a strictly smaller potential -/
def YieldOk (snap : Snap) (bound : Nat) (started : Bool) (r : Option (Outcome Entry) × ISt) : Prop :=
  r.1 ≠ some .hang ∧
  ∀ e, r.1 = some (.ok e) → ItemsOk snap r.2 ∧ G0 snap r.2 < bound ∧ r.2.started = started

theorem nextLoop_spec {σ} {snap : Snap} (wf : SnapWF snap) {o : Opts} (hfo : o.follow = false)
    (preOp : Entry → σ → Outcome Unit × σ) (hpre : ∀ e w, (preOp e w).1 ≠ .hang) :
    ∀ (f : Nat) (st : ISt) (w : σ), ItemsOk snap st → G0 snap st < f →
      YieldOk snap (G0 snap st) st.started
        ((nextLoop snap o preOp f st w).1, (nextLoop snap o preOp f st w).2.1) := by
  intro f
  induction f with
  | zero => intro st w _ h; omega
  | succ f ih =>
    intro st w hst hG
    -- yielding a deferred entry
    have hdefer : ∀ (d : Nat × Entry) (ds : List (Nat × Entry)), st.deferred = d :: ds →
        YieldOk snap (G0 snap st) st.started
          (some (.ok d.2), { st with deferred := ds }) := by
      intro d ds hd
      refine ⟨by simp, fun e _ => ⟨hst, ?_, rfl⟩⟩
      simp only [G0, hd, List.length_cons]
      omega
    have hnone : YieldOk snap (G0 snap st) st.started ((none : Option (Outcome Entry)), st) :=
      ⟨by simp, fun e he => by cases he⟩
    rw [nextLoop]
    split
    · -- no open iterator
      split
      · split
        · rename_i d ds hd; exact hdefer d ds hd
        · exact hnone
      · exact hnone
    · rename_i top below hiters
      split
      · split
        · rename_i d ds hd; exact hdefer d ds hd
        · exact hnone
      · split
        · -- an item of the top iterator
          rename_i x xs hitems
          have hxmem : (x.path, x) ∈ snap :=
            hst top (by rw [hiters]; exact List.mem_cons_self) x (by rw [hitems]; exact List.mem_cons_self)
          have hst1 : ItemsOk snap { st with iters := { top with items := xs } :: below } := by
            intro it hit y hy
            rcases List.mem_cons.1 hit with rfl | hit
            · exact hst top (by rw [hiters]; exact List.mem_cons_self) y
                (by rw [hitems]; exact List.mem_cons_of_mem _ hy)
            · exact hst it (by rw [hiters]; exact List.mem_cons_of_mem _ hit) y hy
          have hG1 : G0 snap { st with iters := { top with items := xs } :: below } + cst snap x
              = G0 snap st := by
            simp only [G0, hiters, List.map_cons, List.sum_cons, itCost, hitems]
            omega
          dsimp only
          rw [hfo, doFollow_false]
          obtain ⟨p1, p2, p3, p4⟩ := process_spec wf hfo preOp hpre _ x w hst1
          rw [B_eq_cst hxmem] at p3
          generalize process snap o preOp { st with iters := { top with items := xs } :: below } x w = pr
            at p1 p2 p3 p4 ⊢
          obtain ⟨r, st2, w2⟩ := pr
          simp only at p1 p2 p3 p4
          cases r with
          | some r =>
            refine ⟨p1, fun e _ => ⟨p2, ?_, p4⟩⟩
            show G0 snap st2 < _
            omega
          | none =>
            obtain ⟨q1, q2⟩ := ih st2 w2 p2 (by omega)
            refine ⟨q1, fun e he => ?_⟩
            obtain ⟨a, b, c⟩ := q2 e he
            exact ⟨a, Nat.lt_of_lt_of_le b (by omega), c.trans p4⟩
        · -- the top iterator is exhausted
          rename_i hitems
          have hst1 : ItemsOk snap { st with iters := below, openDesc := (if top.cached then st.openDesc else st.openDesc - 1) } := by
            intro it hit y hy
            exact hst it (by rw [hiters]; exact List.mem_cons_of_mem _ hit) y hy
          have hG1 : G0 snap { st with iters := below, openDesc := (if top.cached then st.openDesc else st.openDesc - 1) } + 1 ≤ G0 snap st := by
            simp only [G0, hiters, List.map_cons, List.sum_cons, itCost]
            omega
          obtain ⟨q1, q2⟩ := ih _ w hst1 (by omega)
          refine ⟨q1, fun e he => ?_⟩
          obtain ⟨a, b, c⟩ := q2 e he
          exact ⟨a, Nat.lt_of_lt_of_le b (by omega), c⟩

/-! ### `nextE` and `runIter` -/

/-- potential including the not-yet-processed root -/
def G (snap : Snap) (rootE : Entry) (st : ISt) : Nat :=
  (if st.started then 0 else B snap rootE + 1) + G0 snap st

structure TInv (snap : Snap) (st : ISt) : Prop where
  items : ItemsOk snap st
  fresh : st.started = false → st.iters = [] ∧ st.deferred = []

theorem nextE_spec {σ} {snap : Snap} (wf : SnapWF snap) {o : Opts} (hfo : o.follow = false)
    (preOp : Entry → σ → Outcome Unit × σ) (hpre : ∀ e w, (preOp e w).1 ≠ .hang) (rootE : Entry)
    (f : Nat) (st : ISt) (w : σ) (inv : TInv snap st) (hG : G snap rootE st < f) :
    (nextE snap o preOp rootE f st w).1 ≠ some .hang ∧
    ∀ e, (nextE snap o preOp rootE f st w).1 = some (.ok e) →
      TInv snap (nextE snap o preOp rootE f st w).2.1 ∧
      G snap rootE (nextE snap o preOp rootE f st w).2.1 < G snap rootE st := by
  unfold nextE
  cases hs : st.started with
  | true =>
    simp only [Bool.not_true, Bool.false_eq_true, if_false]
    have hG' : G snap rootE st = G0 snap st := by unfold G; rw [hs]; simp
    obtain ⟨q1, q2⟩ := nextLoop_spec wf hfo preOp hpre f st w inv.items (by omega)
    refine ⟨q1, fun e he => ?_⟩
    obtain ⟨a, b, c⟩ := q2 e he
    have c' : (nextLoop snap o preOp f st w).2.1.started = true := c.trans hs
    refine ⟨⟨a, fun h => by rw [c'] at h; cases h⟩, ?_⟩
    unfold G
    rw [c', hs]
    simp only [if_true, Nat.zero_add]
    exact b
  | false =>
    simp only [Bool.not_false, if_true]
    obtain ⟨hi, hd⟩ := inv.fresh hs
    have hG' : G snap rootE st = B snap rootE + 1 := by
      unfold G G0; rw [hs, hi, hd]; simp
    have hst0 : ItemsOk snap { st with started := true } := by
      intro it hit; rw [hi] at hit; cases hit
    have hG0 : G0 snap { st with started := true } = 0 := by
      unfold G0; simp only [hi, hd]; rfl
    rw [hfo, doFollow_false]
    obtain ⟨p1, p2, p3, p4⟩ := process_spec wf hfo preOp hpre _ rootE w hst0
    generalize process snap o preOp { st with started := true } rootE w = pr at p1 p2 p3 p4 ⊢
    obtain ⟨r, st2, w2⟩ := pr
    simp only at p1 p2 p3 p4
    have hGst2 : G snap rootE st2 = G0 snap st2 := by unfold G; rw [p4]; simp
    cases r with
    | some r =>
      refine ⟨p1, fun e _ => ⟨⟨p2, fun h => ?_⟩, ?_⟩⟩
      · have : st2.started = false := h
        rw [p4] at this; cases this
      · show G snap rootE st2 < _
        omega
    | none =>
      obtain ⟨q1, q2⟩ := nextLoop_spec wf hfo preOp hpre f st2 w2 p2 (by omega)
      refine ⟨q1, fun e he => ?_⟩
      obtain ⟨a, b, c⟩ := q2 e he
      have c' : (nextLoop snap o preOp f st2 w2).2.1.started = true := c.trans p4
      refine ⟨⟨a, fun h => ?_⟩, ?_⟩
      · have h' : (nextLoop snap o preOp f st2 w2).2.1.started = false := h
        rw [c'] at h'; cases h'
      · show G snap rootE (nextLoop snap o preOp f st2 w2).2.1 < _
        have : G snap rootE (nextLoop snap o preOp f st2 w2).2.1 =
            G0 snap (nextLoop snap o preOp f st2 w2).2.1 := by unfold G; rw [c']; simp
        have b' : G0 snap (nextLoop snap o preOp f st2 w2).2.1 < G0 snap st2 := b
        omega

theorem runIter_no_hang {σ} {snap : Snap} (wf : SnapWF snap) {o : Opts} (hfo : o.follow = false)
    (preOp : Entry → σ → Outcome Unit × σ) (hpre : ∀ e w, (preOp e w).1 ≠ .hang) (rootE : Entry)
    (step : Entry → σ → Outcome Unit × σ) (hstep : ∀ e w, (step e w).1 ≠ .hang) :
    ∀ (f : Nat) (st : ISt) (w : σ), TInv snap st → G snap rootE st < f →
      (runIter snap o preOp rootE step f st w).1 ≠ .hang := by
  intro f
  induction f with
  | zero => intro st w _ h; omega
  | succ f ih =>
    intro st w inv hG
    obtain ⟨q1, q2⟩ := nextE_spec wf hfo preOp hpre rootE (f + 1) st w inv hG
    rw [runIter]
    generalize nextE snap o preOp rootE (f + 1) st w = nx at q1 q2 ⊢
    obtain ⟨r, st', w'⟩ := nx
    simp only at q1 q2
    split
    · simp
    · rename_i e st'' w'' heq
      cases heq
      obtain ⟨inv', hlt⟩ := q2 e rfl
      have hs := hstep e w'
      split
      · exact ih _ _ inv' (by omega)
      · rename_i r hr; exact hs
    · simp
    · simp
    · rename_i heq; cases heq; exact absurd rfl q1

/-! ### the snapshot -/

theorem cloneLoop_fine (ents : Ents) (f : Nat) (W : List FsPath) (acc : Snap) :
    Fine (cloneLoop ents f W acc) := by
  induction f generalizing W acc with
  | zero => unfold cloneLoop; exact fine_ok _
  | succ f ih =>
    cases W with
    | nil => unfold cloneLoop; exact fine_ok _
    | cons p W =>
      unfold cloneLoop
      split
      · exact fine_err _
      · exact ih _ _

theorem cloneLoop_wf {ents : Ents}
    (hents : ∀ k e, (k, e) ∈ ents → e.path = k ∧ (names e).Nodup) :
    ∀ (f : Nat) (W : List FsPath) (acc snap : Snap),
      (∀ k e, (k, e) ∈ acc → e.path = k ∧ (names e).Nodup) →
      cloneLoop ents f W acc = .ok snap → SnapWF snap := by
  intro f
  induction f with
  | zero =>
    intro W acc snap hacc h
    unfold cloneLoop at h
    cases h
    exact ⟨fun k e hm => (hacc k e hm).1, fun k e hm => (hacc k e hm).2⟩
  | succ f ih =>
    intro W acc snap hacc h
    cases W with
    | nil =>
      unfold cloneLoop at h
      cases h
      exact ⟨fun k e hm => (hacc k e hm).1, fun k e hm => (hacc k e hm).2⟩
    | cons p W =>
      unfold cloneLoop at h
      split at h
      · cases h
      · rename_i e he
        refine ih _ _ snap ?_ h
        intro k e' hm
        rcases mem_alInsert hm with heq | hm
        · cases heq
          have := hents p e (alLookup_some_mem he)
          exact ⟨rfl, this.2⟩
        · exact hacc k e' hm

theorem entriesOf_spec {s : State} (hf : InvFacts s) (abs : FsPath) :
    Fine (entriesOf s abs) ∧ ∀ rootE snap, entriesOf s abs = .ok (rootE, snap) → SnapWF snap := by
  unfold entriesOf
  cases alLookup abs s.entries with
  | none => exact ⟨fine_err _, fun _ _ h => by cases h⟩
  | some e =>
    simp only
    have hfine := cloneLoop_fine s.entries
      (4 * (s.entries.length + 1) * (s.entries.length + 1)) [abs] []
    have hwf := cloneLoop_wf (ents := s.entries)
      (fun k e hm => ⟨hf.pathField k e hm, hf.namesNodup k e hm⟩)
      (4 * (s.entries.length + 1) * (s.entries.length + 1)) [abs] []
    unfold cloneEntries
    rcases fine_cases hfine with ⟨snap, h⟩ | ⟨k, h⟩
    · rw [h]
      refine ⟨fine_ok _, fun rootE snap' heq => ?_⟩
      cases heq
      exact hwf snap (fun k e hm => by cases hm) h
    · rw [h]
      exact ⟨fine_err _, fun _ _ heq => by cases heq⟩

theorem G_init_lt (snap : Snap) (rootE : Entry) : G snap rootE {} < travFuel snap := by
  unfold G G0 B cst cnt travFuel
  have := List.countP_le_length (p := fun kv : FsPath × Entry => decide (rootE.path <+: kv.1)) (l := snap)
  simp only [Bool.false_eq_true, if_false, List.map_nil, List.sum_nil, List.length_nil]
  have h2 : (snap.length + 2) ≤ 64 * (snap.length + 2) * (snap.length + 2) := by
    have : 1 ≤ 64 * (snap.length + 2) := by omega
    calc snap.length + 2 = 1 * (snap.length + 2) := by omega
      _ ≤ 64 * (snap.length + 2) * (snap.length + 2) := Nat.mul_le_mul_right _ this
  have h3 : 64 * (snap.length + 2) ≤ 64 * (snap.length + 2) * (snap.length + 2) := by
    calc 64 * (snap.length + 2) = 64 * (snap.length + 2) * 1 := by omega
      _ ≤ 64 * (snap.length + 2) * (snap.length + 2) := Nat.mul_le_mul_left _ (by omega)
  omega

theorem TInv_init (snap : Snap) : TInv snap {} :=
  ⟨fun it hit => (by cases hit), fun _ => ⟨rfl, rfl⟩⟩

/-- a whole traversal from the initial iterator state with the model's fuel -/
theorem runIter_init_no_hang {σ} {snap : Snap} (wf : SnapWF snap) {o : Opts} (hfo : o.follow = false)
    (preOp : Entry → σ → Outcome Unit × σ) (hpre : ∀ e w, (preOp e w).1 ≠ .hang) (rootE : Entry)
    (step : Entry → σ → Outcome Unit × σ) (hstep : ∀ e w, (step e w).1 ≠ .hang) (w : σ) :
    (runIter snap o preOp rootE step (travFuel snap) {} w).1 ≠ .hang :=
  runIter_no_hang wf hfo preOp hpre rootE step hstep _ _ w (TInv_init snap) (G_init_lt snap rootE)

/-! ### the operations -/

theorem wp_liftO' {α} {o : Outcome α} {s : State} {Q : α → State → Prop} (hf : o ≠ .hang)
    (h : ∀ a, o = .ok a → Q a s) : wp (liftO o) s Q := by
  unfold wp M.liftO
  cases o with
  | ok a => exact h a rfl
  | err k => trivial
  | panic => trivial
  | hang => exact absurd rfl hf

theorem wp_ite {α} {c : Prop} [Decidable c] {a b : M α} {s : State} {Q : α → State → Prop}
    (ha : c → wp a s Q) (hb : ¬ c → wp b s Q) : wp (if c then a else b) s Q := by
  split
  · exact ha ‹_›
  · exact hb ‹_›

theorem travOpts_follow (r : TravReq) : r.opts.follow = r.follow := by
  unfold TravReq.opts
  simp only
  repeat' split
  all_goals rfl

theorem travM_no_hang (env : Env) (p : Str) (r : TravReq) (s : State) (hinv : Spec.Inv s)
    (hfo : r.follow = false) : (travM env p r s).1 ≠ .hang := by
  have hf := inv_facts hinv
  apply wp_ne_hang (Q := fun _ _ => True)
  unfold travM
  simp only [bindM_def, pureM_def]
  apply wp_bind
  apply wp_absM
  intro k _
  apply wp_bind
  apply wp_get
  apply wp_bind
  obtain ⟨hfine, hwf⟩ := entriesOf_spec hf k
  apply wp_liftO' hfine.2
  intro ⟨rootE, snap⟩ heq
  have wf := hwf rootE snap heq
  have hrun := runIter_init_no_hang wf (o := r.opts) (by rw [travOpts_follow]; exact hfo)
    (noPre (σ := List FsPath)) (fun _ _ => by simp [noPre]) rootE
    (fun e acc => (.ok (), e.path :: acc)) (fun _ _ => by simp) []
  simp only
  split
  · exact wp_pure trivial
  · exact wp_pure trivial
  · trivial
  · rename_i h; rw [h] at hrun; exact absurd rfl hrun

theorem step_entries_no_hang (env : Env) (p : Str) (r : TravReq) (s : State) (hinv : Spec.Inv s)
    (hfo : r.follow = false) : (step env s (.entries p r)).1 ≠ .hang := by
  simp only [step]
  exact travM_no_hang env p r s hinv hfo

theorem collectEntries_no_hang {snap : Snap} (wf : SnapWF snap) {o : Opts} (hfo : o.follow = false)
    (rootE : Entry) : collectEntries snap o rootE ≠ .hang := by
  unfold collectEntries
  have hrun := runIter_init_no_hang wf hfo (noPre (σ := List Entry)) (fun _ _ => by simp [noPre]) rootE
    (fun e acc => (.ok (), e :: acc)) (fun _ _ => by simp) []
  split
  · simp
  · simp
  · simp
  · rename_i h; rw [h] at hrun; exact absurd rfl hrun

theorem listing_no_hang (env : Env) (path : Str) (maxDepth : Option Nat) (dirs files : Bool)
    (s : State) (hinv : Spec.Inv s) : (listing env path maxDepth dirs files s).1 ≠ .hang := by
  have hf := inv_facts hinv
  apply wp_ne_hang (Q := fun _ _ => True)
  unfold listing
  simp only [bindM_def, pureM_def]
  apply wp_bind
  apply wp_get
  refine wp_ite (fun _ => wp_fail) (fun _ => ?_)
  apply wp_bind
  apply wp_absM
  intro k _
  apply wp_bind
  obtain ⟨hfine, hwf⟩ := entriesOf_spec hf k
  apply wp_liftO' hfine.2
  intro ⟨rootE, snap⟩ heq
  have wf := hwf rootE snap heq
  simp only
  apply wp_bind
  apply wp_liftO'
  · apply collectEntries_no_hang wf
    cases maxDepth <;> rfl
  · intro es _
    exact wp_pure trivial

theorem step_listing_no_hang (env : Env) (p : Str) (s : State) (hinv : Spec.Inv s) :
    (step env s (.paths p)).1 ≠ .hang ∧ (step env s (.dirs p)).1 ≠ .hang ∧
    (step env s (.files p)).1 ≠ .hang ∧ (step env s (.allPaths p)).1 ≠ .hang ∧
    (step env s (.allDirs p)).1 ≠ .hang ∧ (step env s (.allFiles p)).1 ≠ .hang := by
  simp only [step]
  exact ⟨mapVal_ne_hang _ _ _ (listing_no_hang env p _ _ _ s hinv),
    mapVal_ne_hang _ _ _ (listing_no_hang env p _ _ _ s hinv),
    mapVal_ne_hang _ _ _ (listing_no_hang env p _ _ _ s hinv),
    mapVal_ne_hang _ _ _ (listing_no_hang env p _ _ _ s hinv),
    mapVal_ne_hang _ _ _ (listing_no_hang env p _ _ _ s hinv),
    mapVal_ne_hang _ _ _ (listing_no_hang env p _ _ _ s hinv)⟩

/-! ### chmod / chown / copy without following links -/

theorem symLoop_fine (k : Chmod.EKind) (f mode : Nat) (cs : List Char) :
    Fine (Chmod.symLoop k f mode cs) := by
  induction f generalizing mode cs with
  | zero => unfold Chmod.symLoop; exact fine_ok _
  | succ f ih =>
    by_cases hcs : cs = []
    · subst hcs; unfold Chmod.symLoop; exact fine_ok _
    · rcases symLoop_succ_cases k f mode cs hcs with ⟨e, he⟩ | he |
        ⟨_, _, _, _, _, _, _, _, _, _, _, _, he⟩ | ⟨_, he⟩
      · rw [he]; exact fine_err _
      · rw [he]; exact fine_ok _
      · rw [he]; exact ih _ _
      · rw [he]; exact ih _ _

theorem chmodMode_fine (k : Chmod.EKind) (cur octal : Nat) (sym : List Char) :
    Fine (Chmod.mode k cur octal sym) := by
  unfold Chmod.mode
  split
  · exact fine_ok _
  · split
    · exact fine_ok _
    · exact symLoop_fine _ _ _ _

theorem chmodM_no_hang (env : Env) (path : Str) (c : ChmodOpts) (s : State) (hinv : Spec.Inv s)
    (hfo : c.follow = false) : (chmodM env path c s).1 ≠ .hang := by
  have hf := inv_facts hinv
  apply wp_ne_hang (Q := fun _ _ => True)
  unfold chmodM
  simp only [bindM_def]
  apply wp_bind
  apply wp_absM
  intro k _
  apply wp_bind
  apply wp_get
  apply wp_bind
  obtain ⟨hfine, hwf⟩ := entriesOf_spec hf k
  apply wp_liftO' hfine.2
  intro ⟨rootE, snap⟩ heq
  have wf := hwf rootE snap heq
  simp only
  apply wp_of_ne_hang
  apply runIter_init_no_hang wf
  · rw [← hfo]; rfl
  · intro e w
    have := chmodMode_fine (ekind e) e.mode c.dirs c.sym
    rcases fine_cases this with ⟨a, h⟩ | ⟨kk, h⟩
    · simp only [h]; repeat' split
      all_goals simp
    · simp [h]
  · intro e w
    split
    · repeat' split
      all_goals simp
    · simp
    · simp
    · rename_i h
      exfalso
      revert h
      split
      · exact (chmodMode_fine _ _ _ _).2
      · split
        · exact (chmodMode_fine _ _ _ _).2
        · simp

theorem chownM_no_hang (env : Env) (path : Str) (c : ChownOpts) (s : State) (hinv : Spec.Inv s)
    (hfo : c.follow = false) : (chownM env path c s).1 ≠ .hang := by
  have hf := inv_facts hinv
  apply wp_ne_hang (Q := fun _ _ => True)
  unfold chownM
  simp only [bindM_def]
  apply wp_bind
  apply wp_absM
  intro k _
  apply wp_bind
  apply wp_get
  apply wp_bind
  obtain ⟨hfine, hwf⟩ := entriesOf_spec hf k
  apply wp_liftO' hfine.2
  intro ⟨rootE, snap⟩ heq
  have wf := hwf rootE snap heq
  simp only
  apply wp_of_ne_hang
  apply runIter_init_no_hang wf
  · rw [← hfo]; rfl
  · intro e w; simp [noPre]
  · intro e w
    split <;> simp

theorem Safe.symlinkAbs (l t : FsPath) : Safe (symlinkAbs l t) := by
  unfold Memfs.symlinkAbs
  safe_tac
macro_rules | `(tactic| safe_prim) => `(tactic| exact Safe.symlinkAbs _ _)

theorem copyM_no_hang (env : Env) (src dst : Str) (c : CopyOpts) (s : State) (hinv : Spec.Inv s)
    (hfo : c.follow = false) : (copyM env src dst c s).1 ≠ .hang := by
  have hf := inv_facts hinv
  apply wp_ne_hang (Q := fun _ _ => True)
  unfold copyM
  simp only [bindM_def]
  apply wp_bind
  apply wp_absM
  intro sk _
  apply wp_bind
  apply wp_absM
  intro dk _
  refine wp_ite (fun _ => wp_pure trivial) (fun _ => ?_)
  apply wp_bind
  apply wp_get
  split
  · rename_i rootE0 _
    apply wp_bind
    apply wp_pure
    apply wp_bind
    obtain ⟨hfine, hwf⟩ := entriesOf_spec hf (rootE0.doFollow c.follow).path
    apply wp_liftO' hfine.2
    intro ⟨rootE, snap⟩ heq
    have wf := hwf rootE snap heq
    simp only
    apply wp_of_ne_hang
    apply runIter_init_no_hang wf
    · exact hfo
    · intro e w; simp [noPre]
    · intro e w
      refine (Safe.out ?_ w).2
      safe_tac
  · exact wp_fail

end Rivia.Lemmas.Ret
