/-
  Rivia.Lemmas.Stdfs — C02: the Stdfs model (`Rivia.Model.Stdfs` over the syscalls of
  `Rivia.Model.Posix`) refines the reference tree filesystem on well-formed trees.

  Layout
  * §1 well-formedness `Wf`, the link discipline `LinksOk`, the domain `D2`
  * §2 what the syscalls do on a well-formed tree (`lstat` = lookup, `stat` = lookup through one link …)
  * §3 evaluation of the `SM` monad, resolution (`absK` = `Spec.resolve`)
  * §4 one simulation lemma per covered operation
-/
import Rivia.Model.Stdfs
import Rivia.Spec.MemfsJudge
import Rivia.Lemmas.Abs
import Rivia.Lemmas.RefineA

namespace Rivia.Lemmas.StdfsL
open Rivia Rivia.Memfs Rivia.File Rivia.Spec Rivia.Spec.TreeFs Rivia.Posix Rivia.Stdfs
open Rivia.Lemmas.RefineA (TEquiv ResMatch get_put alLookup_alInsert mem_of_alLookup)

/-! ## §1 domains -/

/-- tree well-formedness: distinct keys, `/` is a directory, the parent of every other key is a directory -/
def wfB (t : T) : Bool :=
  decide (t.nodes.map (·.1)).Nodup && isDir t [] &&
    t.nodes.all (fun kv => decide (kv.1 = []) || isDir t kv.1.dropLast)

def Wf (t : T) : Prop := wfB t = true
instance (t : T) : Decidable (Wf t) := by unfold Wf; infer_instance

def isLinkKind : Kind → Bool
  | .link _ => true
  | _ => false

/-- every link has a target that exists and is not a link; its recorded flag says whether that
    target is a directory; nothing but links has a target -/
def linksOkB (t : T) : Bool :=
  t.nodes.all (fun kv =>
    match kv.2.kind with
    | .link b =>
      (match kv.2.target with
       | some tg => (match get t tg with
          | some m => !isLinkKind m.kind && decide (b = decide (m.kind = .dir))
          | none => false)
       | none => false)
    | _ => true)

def LinksOk (t : T) : Prop := linksOkB t = true
instance (t : T) : Decidable (LinksOk t) := by unfold LinksOk; infer_instance

/-- the text of every link leads `StdfsEntry::from` back to the target key
    (`abs(dir(link).mash(text))` = the target) -/
def linkTextOkB (env : Env) (t : T) : Bool :=
  t.nodes.all (fun kv =>
    match kv.2.kind, kv.2.target with
    | .link _, some tg =>
      let text := linkText kv.1 tg
      let tstr := if isAbsolute text then text else mash (renderP kv.1.dropLast) text
      (match absK env t tstr with
       | .ok a => decide (a = tg)
       | _ => false)
    | _, _ => true)

/-- no proper ancestor of the key is a link -/
def noLinkAncestor (t : T) (a : FsPath) : Bool :=
  ((prefixes a).dropLast).all (fun q => !isLink t q)

/-- a path argument, resolved lexically, does not pass through a link -/
def argOk (env : Env) (t : T) (p : Str) : Bool :=
  match resolve env t p with
  | .ok a => noLinkAncestor t a
  | _ => true

/-- the path arguments of an operation -/
def opArgs : Op → List Str
  | .mkfile p | .mkfileM p _ | .mkdirP p | .mkdirM p _ | .writeAll p _ | .appendAll p _
  | .writeLines p _ | .appendLines p _ | .appendLine p _ | .readAll p | .readLines p | .read p
  | .remove p | .removeAll p | .readlink p | .readlinkAbs p | .setCwd p | .abs p
  | .exists p | .isFile p | .isDir p | .isSymlink p | .isSymlinkDir p | .isSymlinkFile p
  | .isExec p | .isReadonly p | .mode p | .uid p | .gid p | .owner p | .entry p
  | .paths p | .dirs p | .files p | .allPaths p | .allDirs p | .allFiles p
  | .chmod p _ | .chmodB p _ | .chown p _ _ | .chownB p _ | .entries p _
  | .hWrite _ p | .hAppend _ p => [p]
  | .symlink l _ => [l]
  | .copy a b | .copyB a b _ | .moveP a b => [a, b]
  | .cwd | .root | .hPut _ _ | .hFlush _ | .hDrop _ => []

/-- the destination `move_p` computes, on keys -/
def moveDst (t : T) (sa da : FsPath) : FsPath := if isDir t da then da ++ [baseName sa] else da

/-- the part of the domain of `move_p` that concerns one (source, destination) pair:
    * the string computation `dst_root.mash(src.base())` yields the key `da ++ [base sa]`;
    * no link is moved (a moved relative link is re-resolved by the kernel: finding S8);
    * the process cwd is not inside the moved subtree (the kernel's cwd moves along: finding S14);
    * the destination is not a link (`rename` replaces it, the reference refuses: finding S13) -/
def moveOkB (t : T) (sa da : FsPath) : Bool :=
  decide (isDir t da = true → toPath (mash (renderP da) (baseName sa)) = da ++ [baseName sa]) &&
  t.nodes.all (fun kv => !(isPrefixOrEq sa kv.1) || !isLinkKind kv.2.kind) &&
  !(isPrefixOrEq sa t.cwd) &&
  !(isLink t (moveDst t sa da))

/-- every key of the tree, rendered, is resolved by `abs` to itself (`DirEntry::path()` goes through
    `Stdfs::abs` again: a name containing `~` or `$` would be re-expanded) -/
def keysRT (env : Env) (t : T) : Bool :=
  t.nodes.all (fun kv => decide (resolve env t (renderP kv.1) = .ok kv.1))

/-- the domain of a listing: keys round-trip through `abs`.  (The former second clause "no listed node is
    a link" for `dirs`/`files`/`all_dirs`/`all_files`, finding S7, is gone with the repair: the collecting
    loop skips link entries.) -/
def listOkB (env : Env) (t : T) : Bool := keysRT env t

/-- the keys the walk from `a` visits: `a` itself and, when recursing into a real directory, everything below -/
def vis (t : T) (rc : Bool) (a k : FsPath) : Bool := k == a || (rc && isDir t a && isProperPrefix a k)

/-- the domain of `chown` on one argument: `abs` is idempotent on the resolved path, keys round-trip,
    and no visited node is a link (`chown(2)` follows links: finding S16) -/
def chownOkB (env : Env) (t : T) (p : Str) (rc : Bool) : Bool :=
  keysRT env t &&
  (match resolve env t p with
   | .ok a =>
     decide (resolve env t (renderP a) = .ok a) &&
     t.nodes.all (fun kv => !(vis t rc a kv.1) || !isLinkKind kv.2.kind)
   | _ => true)

/-- the domain of an octal `chmod` on one argument: keys round-trip and `abs` is idempotent on the
    resolved path (links may be anywhere: they are skipped by both sides) -/
def chmodOkB (env : Env) (t : T) (p : Str) : Bool :=
  keysRT env t &&
  (match resolve env t p with
   | .ok a => decide (resolve env t (renderP a) = .ok a)
   | _ => true)

/-- the resolved argument is not a link -/
def notLinkArg (env : Env) (t : T) (p : Str) : Bool :=
  match resolve env t p with
  | .ok a => !isLink t a
  | _ => true

/-- operation-specific part of the domain (each clause excludes a documented finding; the clauses for
    S1–S5 are gone with the repairs 0b4a978, 07b9520, fb609ee, 65f3327, 1506af7) -/
def opOk (env : Env) (t : T) : Op → Bool
  -- S6: `is_exec` / `is_readonly` / `uid` / `gid` / `owner` go through `fs::metadata`, which follows links
  | .isExec p | .isReadonly p | .uid p | .gid p | .owner p => notLinkArg env t p
  -- S12 (shared with Memfs, class `empty_lines_noop`): an empty text is not written at all
  | .writeLines _ ls | .appendLines _ ls => (joinLines ls).isSome
  | .appendLine _ l => decide (l ≠ [])
  -- S11 (shared with Memfs, class `chmod_zero`): mode 0 is read as "not given"; symbolic modes: OPEN
  | .chmod p m => decide (m ≠ 0) && chmodOkB env t p
  | .chmodB p c => decide (c.sym = []) && chmodOkB env t p
  -- S16: `chown(2)` follows links
  | .chown p _ _ => chownOkB env t p true
  | .chownB p c => chownOkB env t p c.recursive
  -- listings: only `keysRT` (S7, listings of links, and S15 are repaired)
  | .paths _ | .dirs _ | .files _ | .allPaths _ | .allDirs _ | .allFiles _ => listOkB env t
  -- S8, S13, S14: `move_p` of links, onto links, of the directory the process is in
  | .moveP a b => (match resolve env t a, resolve env t b with
      | .ok sa, .ok da => moveOkB t sa da
      | _, _ => true)
  | _ => true

/-- the domain of the per-step theorem -/
def d2B (env : Env) (t : T) (op : Op) : Bool :=
  linksOkB t && linkTextOkB env t && isDir t t.cwd && (opArgs op).all (argOk env t) && opOk env t op

def D2 (env : Env) (t : T) (op : Op) : Prop := d2B env t op = true
instance (env : Env) (t : T) (op : Op) : Decidable (D2 env t op) := by unfold D2; infer_instance

/-- ok-vs-err agreement; on ok the value -/
def ResMatchOkErr : Outcome Val → R Val → Prop
  | _, .unspecified => True
  | .ok v, .ok w => v = w
  | .err _, .err _ => True
  | _, _ => False

@[simp] theorem rmoe_unspec (o : Outcome Val) : ResMatchOkErr o .unspecified := by
  cases o <;> simp [ResMatchOkErr]
@[simp] theorem rmoe_ok (v w : Val) : ResMatchOkErr (.ok v) (.ok w) ↔ v = w := by simp [ResMatchOkErr]
@[simp] theorem rmoe_err (k : ErrKind) (k' : Option ErrKind) : ResMatchOkErr (.err k) (.err k') := by
  simp [ResMatchOkErr]

/-- one step of the Stdfs model simulates one step of the reference -/
def Sim (m : Outcome Val × T) (x : SR) : Prop :=
  ResMatchOkErr m.1 x.1 ∧ (x.1 ≠ .unspecified → TEquiv m.2 x.2)

theorem sim_same {t : T} {o : Outcome Val} {r : R Val} (h : ResMatchOkErr o r) : Sim (o, t) (r, t) :=
  ⟨h, fun _ => TEquiv.refl _⟩

theorem sim_unspec (m : Outcome Val × T) (t : T) : Sim m (.unspecified, t) :=
  ⟨rmoe_unspec _, fun h => absurd rfl h⟩

theorem sim_err {t t' : T} (k : ErrKind) (k' : Option ErrKind) (h : TEquiv t t') :
    Sim (.err k, t) (.err k', t') := ⟨rmoe_err _ _, fun _ => h⟩

/-! ## §2 the syscalls on a well-formed tree -/

theorem isDir_iff {t : T} {k : FsPath} : isDir t k = true ↔ ∃ n, get t k = some n ∧ n.kind = .dir := by
  unfold isDir
  cases get t k with
  | none => simp
  | some n => simp

theorem isDir_of_get {t : T} {k : FsPath} {n : Node} (h : get t k = some n) (hk : n.kind = .dir) :
    isDir t k = true := isDir_iff.2 ⟨n, h, hk⟩

structure WfFacts (t : T) : Prop where
  nodup : (t.nodes.map (·.1)).Nodup
  root : isDir t [] = true
  parent : ∀ k n, get t k = some n → k ≠ [] → isDir t k.dropLast = true

theorem wf_facts {t : T} (h : Wf t) : WfFacts t := by
  unfold Wf wfB at h
  simp only [Bool.and_eq_true, decide_eq_true_eq, List.all_eq_true, Bool.or_eq_true] at h
  obtain ⟨⟨h1, h2⟩, h3⟩ := h
  refine ⟨h1, h2, ?_⟩
  intro k n hk hne
  rcases h3 _ (mem_of_alLookup hk) with h4 | h4
  · exact absurd h4 hne
  · exact h4

/-- every prefix of an existing directory is a directory -/
theorem wf_take_dir {t : T} (h : WfFacts t) : ∀ (n : Nat) (q : FsPath), q.length = n → isDir t q = true →
    ∀ i, isDir t (q.take i) = true := by
  intro n
  induction n with
  | zero =>
    intro q hq hd i
    have : q = [] := List.eq_nil_of_length_eq_zero hq
    subst this; simpa using hd
  | succ n ih =>
    intro q hq hd i
    by_cases hi : q.length ≤ i
    · rw [List.take_of_length_le hi]; exact hd
    · have hne : q ≠ [] := by intro h0; subst h0; simp at hq
      obtain ⟨nd, hg, _⟩ := isDir_iff.1 hd
      have hp := h.parent q nd hg hne
      have hlen : q.dropLast.length = n := by simp [hq]
      have := ih q.dropLast hlen hp i
      rw [List.dropLast_eq_take, List.take_take] at this
      have hmin : min i (q.length - 1) = i := by omega
      rw [hmin] at this
      exact this

theorem walkFrom_none_iff (t : T) : ∀ (rest : List Str) (cur : FsPath),
    walkFrom t cur rest = none ↔ ∀ i, i < rest.length → isDir t (cur ++ rest.take i) = true := by
  intro rest
  induction rest with
  | nil => intro cur; simp [walkFrom]
  | cons n rest ih =>
    intro cur
    simp only [walkFrom]
    constructor
    · intro h i hi
      cases hg : get t cur with
      | none => simp [hg] at h
      | some nd =>
        simp only [hg] at h
        by_cases hk : nd.kind = .dir
        · simp only [hk, if_true] at h
          cases i with
          | zero => simpa using isDir_of_get hg hk
          | succ j =>
            have := (ih (cur ++ [n])).1 h j (by simpa using hi)
            simpa using this
        · simp [hk] at h
    · intro h
      have h0 := h 0 (by simp)
      simp only [List.take_zero, List.append_nil] at h0
      obtain ⟨nd, hg, hk⟩ := isDir_iff.1 h0
      simp only [hg, hk, if_true]
      apply (ih (cur ++ [n])).2
      intro j hj
      have := h (j + 1) (by simpa using hj)
      simpa using this

/-- on a well-formed tree the walk to a key succeeds iff the key is `/` or its parent is a directory -/
theorem walkErr_none_iff {t : T} (h : WfFacts t) (k : FsPath) :
    walkErr t k = none ↔ (k = [] ∨ isDir t k.dropLast = true) := by
  unfold walkErr
  rw [walkFrom_none_iff]
  simp only [List.nil_append]
  constructor
  · intro hw
    by_cases hk : k = []
    · exact Or.inl hk
    · right
      have hl : 0 < k.length := List.length_pos_iff.mpr hk
      have := hw (k.length - 1) (by omega)
      rwa [← List.dropLast_eq_take] at this
  · rintro (hk | hd) i hi
    · subst hk; simp at hi
    · have := wf_take_dir h _ k.dropLast rfl hd i
      rw [List.dropLast_eq_take, List.take_take] at this
      have hmin : min i (k.length - 1) = i := by omega
      rwa [hmin] at this

theorem walkErr_of_get {t : T} (h : WfFacts t) {k : FsPath} {n : Node} (hg : get t k = some n) :
    walkErr t k = none := by
  rw [walkErr_none_iff h]
  by_cases hk : k = []
  · exact Or.inl hk
  · exact Or.inr (h.parent k n hg hk)

theorem lstat_of_get {t : T} (h : WfFacts t) {k : FsPath} {n : Node} (hg : get t k = some n) :
    lstat t k = .ok n := by
  unfold lstat
  rw [walkErr_of_get h hg, hg]

theorem lstat_of_none {t : T} {k : FsPath} (hg : get t k = none) : ∃ e, lstat t k = .error e := by
  unfold lstat
  cases walkErr t k with
  | some e => exact ⟨e, rfl⟩
  | none => exact ⟨.ENOENT, by simp [hg]⟩

theorem lstat_ok_iff {t : T} (h : WfFacts t) {k : FsPath} {n : Node} :
    lstat t k = .ok n ↔ get t k = some n := by
  constructor
  · intro hl
    unfold lstat at hl
    cases hw : walkErr t k with
    | some e => simp [hw] at hl
    | none =>
      simp only [hw] at hl
      cases hg : get t k with
      | none => simp [hg] at hl
      | some m => simp only [hg, Except.ok.injEq] at hl; rw [hl]
  · exact lstat_of_get h

/-- link discipline, pointwise -/
theorem linksOk_lookup {t : T} (h : LinksOk t) {k : FsPath} {n : Node} {b : Bool}
    (hg : get t k = some n) (hk : n.kind = .link b) :
    ∃ tg m, n.target = some tg ∧ get t tg = some m ∧ isLinkKind m.kind = false ∧
      b = decide (m.kind = .dir) := by
  unfold LinksOk linksOkB at h
  rw [List.all_eq_true] at h
  have := h _ (mem_of_alLookup hg)
  simp only [hk] at this
  cases ht : n.target with
  | none => simp [ht] at this
  | some tg =>
    simp only [ht] at this
    cases hm : get t tg with
    | none => simp [hm] at this
    | some m =>
      simp only [hm, Bool.and_eq_true, Bool.not_eq_true', decide_eq_true_eq] at this
      exact ⟨tg, m, rfl, hm, this.1, this.2⟩

theorem followFinal_nonlink {t : T} (h : WfFacts t) {k : FsPath} {n : Node} (hg : get t k = some n)
    (hk : isLinkKind n.kind = false) (f : Nat) : followFinal t (f + 1) k = .ok k := by
  simp only [followFinal, walkErr_of_get h hg, hg]
  cases hkk : n.kind with
  | link b => simp [hkk, isLinkKind] at hk
  | dir => rfl
  | file => rfl

theorem followFinal_link {t : T} (h : WfFacts t) (hl : LinksOk t) {k : FsPath} {n : Node} {b : Bool}
    (hg : get t k = some n) (hk : n.kind = .link b) (f : Nat) :
    ∃ tg m, n.target = some tg ∧ get t tg = some m ∧ isLinkKind m.kind = false ∧
      b = decide (m.kind = .dir) ∧ followFinal t (f + 2) k = .ok tg := by
  obtain ⟨tg, m, h1, h2, h3, h4⟩ := linksOk_lookup hl hg hk
  refine ⟨tg, m, h1, h2, h3, h4, ?_⟩
  rw [followFinal]
  simp only [walkErr_of_get h hg, hg, hk, h1]
  exact followFinal_nonlink h h2 h3 f

theorem followFinal_missing {t : T} {k : FsPath} (hg : get t k = none) (f : Nat) :
    followFinal t (f + 1) k = .ok k ∨ ∃ e, followFinal t (f + 1) k = .error e := by
  simp only [followFinal]
  cases walkErr t k with
  | some e => exact Or.inr ⟨e, rfl⟩
  | none => left; simp [hg]

theorem followFinal_missing_ok {t : T} {k : FsPath} (hg : get t k = none) (hw : walkErr t k = none)
    (f : Nat) : followFinal t (f + 1) k = .ok k := by
  simp [followFinal, hw, hg]

/-- `stat` on a well-formed tree with disciplined links: the node, or the target's node for a link -/
theorem stat_nonlink {t : T} (h : WfFacts t) {k : FsPath} {n : Node} (hg : get t k = some n)
    (hk : isLinkKind n.kind = false) : stat t k = .ok n := by
  unfold stat linkFuel
  rw [followFinal_nonlink h hg hk]
  simp only [hg]

theorem stat_link {t : T} (h : WfFacts t) (hl : LinksOk t) {k : FsPath} {n : Node} {b : Bool}
    (hg : get t k = some n) (hk : n.kind = .link b) :
    ∃ tg m, n.target = some tg ∧ get t tg = some m ∧ isLinkKind m.kind = false ∧
      b = decide (m.kind = .dir) ∧ stat t k = .ok m := by
  obtain ⟨tg, m, h1, h2, h3, h4, h5⟩ := followFinal_link h hl hg hk 38
  refine ⟨tg, m, h1, h2, h3, h4, ?_⟩
  unfold stat linkFuel
  rw [h5]
  simp only [h2]

theorem stat_missing {t : T} {k : FsPath} (hg : get t k = none) : ∃ e, stat t k = .error e := by
  unfold stat linkFuel
  rcases followFinal_missing hg 39 with h | ⟨e, h⟩
  · rw [h]; exact ⟨.ENOENT, by simp [hg]⟩
  · rw [h]; exact ⟨e, rfl⟩

theorem exists_eq_isSome {t : T} (h : WfFacts t) (hl : LinksOk t) (k : FsPath) :
    Posix.exists t k = (get t k).isSome := by
  unfold Posix.exists
  cases hg : get t k with
  | none => obtain ⟨e, he⟩ := stat_missing hg; rw [he]; rfl
  | some n =>
    cases hk : n.kind with
    | link b => obtain ⟨_, m, _, _, _, _, hs⟩ := stat_link h hl hg hk; rw [hs]; rfl
    | dir => rw [stat_nonlink h hg (by simp [hk, isLinkKind])]; rfl
    | file => rw [stat_nonlink h hg (by simp [hk, isLinkKind])]; rfl

theorem isDirK_eq {t : T} (h : WfFacts t) (k : FsPath) : isDirK t k = isDir t k := by
  unfold isDirK isDir
  cases hg : get t k with
  | none => obtain ⟨e, he⟩ := lstat_of_none hg; rw [he]
  | some n => rw [lstat_of_get h hg]

theorem isFileK_eq {t : T} (h : WfFacts t) (k : FsPath) : isFileK t k = isFile t k := by
  unfold isFileK isFile
  cases hg : get t k with
  | none => obtain ⟨e, he⟩ := lstat_of_none hg; rw [he]
  | some n => rw [lstat_of_get h hg]

/-! ## §3 the monad, resolution -/

theorem SM_bind_apply {α β} (m : SM α) (f : α → SM β) (t : T) :
    (m >>= f) t = match m t with
      | (.ok a, t') => f a t'
      | (.err k, t') => (.err k, t')
      | (.panic, t') => (.panic, t')
      | (.hang, t') => (.hang, t') := rfl
theorem SM_pure_apply {α} (a : α) (t : T) : (Pure.pure a : SM α) t = (.ok a, t) := rfl

/-- unfold the monad plumbing of the Stdfs model -/
macro "ssimp" : tactic => `(tactic| simp only [Stdfs.mapVal, SM_bind_apply, SM_pure_apply, SM.pure, SM.fail,
  SM.liftO, SM.getT, SM.qry, SM.sysM, Stdfs.absM, Stdfs.dirOf, Stdfs.io,
  Bool.not_true, Bool.not_false, Bool.false_eq_true, if_true, if_false])
macro "ssimp" "[" ls:Lean.Parser.Tactic.simpLemma,* "]" : tactic =>
  `(tactic| simp only [Stdfs.mapVal, SM_bind_apply, SM_pure_apply, SM.pure, SM.fail,
  SM.liftO, SM.getT, SM.qry, SM.sysM, Stdfs.absM, Stdfs.dirOf, Stdfs.io,
  Bool.not_true, Bool.not_false, Bool.false_eq_true, if_true, if_false, $ls,*])

theorem absP_eq {env : Env} {t : T} (hc : isDir t t.cwd = true) (p : Str) :
    absP env t p = absWith env (renderP t.cwd) p := by
  unfold absP
  rw [if_pos hc, Rivia.Lemmas.absStdWith_eq]

/-- both sides resolve the user path with the same function -/
theorem absK_eq {env : Env} {t : T} (hc : isDir t t.cwd = true) (p : Str) :
    absK env t p = resolve env t p := by
  unfold absK resolve
  rw [absP_eq hc]
  cases absWith env (renderP t.cwd) p <;> rfl

/-- model `abs` then `m`, reference `withPath` then `k` -/
theorem sim_withPath {α} {env : Env} {t : T} (hc : isDir t t.cwd = true) (p : Str) (v : α → Val)
    (m : FsPath → SM α) (k : FsPath → SR) (h : ∀ a, resolve env t p = .ok a → Sim (Stdfs.mapVal v (m a) t) (k a)) :
    Sim (Stdfs.mapVal v (Stdfs.absM env p >>= m) t) (withPath env t p k) := by
  unfold withPath Stdfs.mapVal
  simp only [SM_bind_apply, Stdfs.absM, absK_eq hc]
  cases hr : resolve env t p with
  | ok a => exact h a hr
  | err e => exact sim_err _ _ (TEquiv.refl _)
  | panic => exact sim_unspec _ _
  | hang => exact sim_unspec _ _

/-! ### TEquiv helpers -/

theorem tequiv_put_put (t : T) (k : FsPath) (a b : Node) : TEquiv (put (put t k a) k b) (put t k b) := by
  refine ⟨rfl, fun q => ?_⟩
  simp only [get_put]
  split <;> rfl

theorem get_put_self (t : T) (k : FsPath) (a : Node) : get (put t k a) k = some a := by
  rw [get_put]; simp

/-- the operations for which the refinement is proved -/
def CoveredS : Op → Bool
  | .cwd | .root | .abs _ | .exists _ | .isDir _ | .isFile _ | .isSymlink _ | .isSymlinkDir _
  | .isSymlinkFile _ | .isExec _ | .isReadonly _ | .mode _ | .uid _ | .gid _ | .owner _
  | .readAll _ | .read _ | .readlink _ | .readlinkAbs _
  | .setCwd _ | .mkfile _ | .writeAll _ _ | .appendAll _ _ | .remove _ | .removeAll _ | .symlink _ _
  | .writeLines _ _ | .appendLines _ _ | .appendLine _ _ | .readLines _ | .mkdirP _ | .mkdirM _ _ | .moveP _ _
  | .paths _ | .dirs _ | .files _ | .allPaths _ | .allDirs _ | .allFiles _
  | .chown _ _ _ | .chownB _ _ | .chmod _ _ | .chmodB _ _ => true
  | _ => false

end Rivia.Lemmas.StdfsL
