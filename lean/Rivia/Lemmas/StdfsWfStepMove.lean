/-
  Rivia.Lemmas.StdfsWfStepMove — `rename(2)` of the syscall model keeps the tree well-formed.

  `renameMove` differs from the re-keyed tree of the reference (`RefineB.movedNodes`) only in the TARGETS
  of moved links (and in the cwd); keys and kinds are the same, and `WfFacts` only looks at keys and kinds.
-/
import Rivia.Lemmas.StdfsWfStep

namespace Rivia.Lemmas.StdfsWf
open Rivia Rivia.Memfs Rivia.File Rivia.Spec Rivia.Spec.TreeFs Rivia.Posix Rivia.Stdfs
open Rivia.Lemmas.StdfsL
open Rivia.Lemmas.RefineA (get_put mem_of_alLookup)

/-! ### trees with the same keys and kinds -/

theorem isDir_of_shape {t t' : T} (hg : ∀ k, (get t' k).map (·.kind) = (get t k).map (·.kind)) (k : FsPath) :
    isDir t' k = isDir t k := by
  unfold isDir
  have := hg k
  cases h1 : get t' k <;> cases h2 : get t k <;> simp_all

theorem facts_of_shape {t t' : T} (h : WfFacts t) (hk : t'.nodes.map (·.1) = t.nodes.map (·.1))
    (hg : ∀ k, (get t' k).map (·.kind) = (get t k).map (·.kind)) : WfFacts t' := by
  refine ⟨by rw [hk]; exact h.nodup, by rw [isDir_of_shape hg]; exact h.root, ?_⟩
  intro k n hn hne
  rw [isDir_of_shape hg]
  have := hg k
  rw [hn] at this
  cases h2 : get t k with
  | none => rw [h2] at this; cases this
  | some m => exact h.parent k m h2 hne

/-! ### the moved part -/

/-- what `rename` does to a moved node: a link is re-targeted, nothing else changes -/
def reNode (s d : FsPath) (kv : FsPath × Node) : Node :=
  match kv.2.kind, kv.2.target with
  | .link _, some tg => { kv.2 with target := some (retarget kv.1 (d ++ kv.1.drop s.length) tg) }
  | _, _ => kv.2

theorem reNode_kind (s d : FsPath) (kv : FsPath × Node) : (reNode s d kv).kind = kv.2.kind := by
  unfold reNode; split <;> rfl

def movedG (g : FsPath × Node → Node) (s d : FsPath) (l : List (FsPath × Node)) : List (FsPath × Node) :=
  l.filterMap (fun kv => if isPrefixOrEq s kv.1 then some (d ++ kv.1.drop s.length, g kv) else none)

theorem renameMove_nodes (t : T) (s d : FsPath) : (renameMove t s d).nodes =
    t.nodes.filter (fun kv => !(isPrefixOrEq s kv.1) && kv.1 ≠ d) ++ movedG (reNode s d) s d t.nodes := rfl

theorem movedNodes_nodes (t : T) (s d : FsPath) : (RefineB.movedNodes t s d).nodes =
    t.nodes.filter (fun kv => !(isPrefixOrEq s kv.1) && kv.1 ≠ d) ++ movedG (fun kv => kv.2) s d t.nodes := rfl

theorem keys_movedG (g : FsPath × Node → Node) (s d : FsPath) (l : List (FsPath × Node)) :
    (movedG g s d l).map (·.1) = (movedG (fun kv => kv.2) s d l).map (·.1) := by
  unfold movedG
  induction l with
  | nil => rfl
  | cons x r ih =>
    simp only [List.filterMap_cons]
    by_cases h : isPrefixOrEq s x.1 = true
    · simp only [h, if_true, List.map_cons, ih]
    · simp only [h, Bool.false_eq_true, if_false, ih]

theorem kind_movedG (g : FsPath × Node → Node) (hgk : ∀ kv, (g kv).kind = kv.2.kind) (s d : FsPath)
    (l : List (FsPath × Node)) (k : FsPath) :
    (alLookup k (movedG g s d l)).map (·.kind) = (alLookup k (movedG (fun kv => kv.2) s d l)).map (·.kind) := by
  unfold movedG
  induction l with
  | nil => rfl
  | cons x r ih =>
    simp only [List.filterMap_cons]
    by_cases h : isPrefixOrEq s x.1 = true
    · simp only [h, if_true, alLookup]
      by_cases hk : d ++ List.drop s.length x.1 = k
      · simp only [hk, if_true, Option.map_some, hgk]
      · simp only [hk, if_false]; exact ih
    · simp only [h, Bool.false_eq_true, if_false]; exact ih

theorem keys_renameMove (t : T) (s d : FsPath) :
    (renameMove t s d).nodes.map (·.1) = (RefineB.movedNodes t s d).nodes.map (·.1) := by
  rw [renameMove_nodes, movedNodes_nodes, List.map_append, List.map_append, keys_movedG]

theorem kind_renameMove (t : T) (s d k : FsPath) :
    (get (renameMove t s d) k).map (·.kind) = (get (RefineB.movedNodes t s d) k).map (·.kind) := by
  unfold TreeFs.get
  rw [renameMove_nodes, movedNodes_nodes, RefineB.alLookup_append, RefineB.alLookup_append]
  cases alLookup k (t.nodes.filter (fun kv => !(isPrefixOrEq s kv.1) && kv.1 ≠ d)) with
  | some v => rfl
  | none =>
    simp only
    exact kind_movedG _ (reNode_kind s d) s d t.nodes k

/-! ### the re-keyed tree of the reference is well-formed -/

theorem prefix_dropLast_of {s q : FsPath} (h : s <+: q.dropLast) : s <+: q := h.trans (List.dropLast_prefix q)

theorem facts_movedNodes {t : T} (h : WfFacts t) {s d : FsPath} (hs0 : s ≠ []) (hd0 : d ≠ [])
    (hpd : isDir t d.dropLast = true) (hsd : ¬ s <+: d)
    (hnb : ∀ k, isProperPrefix d k = true → get t k = none) :
    WfFacts (RefineB.movedNodes t s d) := by
  have keep : ∀ p, isDir t p = true → ¬ s <+: p → p ≠ d → isDir (RefineB.movedNodes t s d) p = true := by
    intro p hp h1 h2
    obtain ⟨n, hn, hk⟩ := isDir_iff.1 hp
    refine isDir_iff.2 ⟨n, ?_, hk⟩
    rw [RefineB.get_movedNodes, if_pos ⟨h1, h2, by rw [hn]; rfl⟩]
    exact hn
  have moved : ∀ r, isDir t (s ++ r) = true → isDir (RefineB.movedNodes t s d) (d ++ r) = true := by
    intro r hp
    obtain ⟨n, hn, hk⟩ := isDir_iff.1 hp
    refine isDir_iff.2 ⟨n, ?_, hk⟩
    rw [RefineB.get_movedNodes, if_neg, if_pos (List.prefix_append d r), List.drop_left]
    · exact hn
    · rintro ⟨_, h2, h3⟩
      by_cases hr : r = []
      · subst hr; exact h2 (List.append_nil d)
      · rw [hnb _ (isProperPrefix_append d hr)] at h3; cases h3
  refine ⟨?_, ?_, ?_⟩
  · refine Sim.nodupK_movedNodes h.nodup s d ?_
    intro x r hsome
    rw [hnb _ (isProperPrefix_append d (List.cons_ne_nil x r))] at hsome
    cases hsome
  · refine keep [] h.root ?_ (Ne.symm hd0)
    intro hp
    exact hs0 (List.prefix_nil.1 hp)
  · intro q n hq hq0
    rw [RefineB.get_movedNodes] at hq
    by_cases hc : ¬ s <+: q ∧ q ≠ d ∧ (get t q).isSome
    · rw [if_pos hc] at hq
      refine keep _ (h.parent q n hq hq0) (fun hp => hc.1 (prefix_dropLast_of hp)) ?_
      intro e
      have := hnb q (e ▸ dropLast_properPrefix hq0)
      rw [this] at hq; cases hq
    · rw [if_neg hc] at hq
      by_cases hdq : d <+: q
      · rw [if_pos hdq] at hq
        obtain ⟨r, rfl⟩ := hdq
        rw [List.drop_left] at hq
        by_cases hr : r = []
        · subst hr
          rw [List.append_nil]
          refine keep _ hpd (fun hp => hsd (prefix_dropLast_of hp)) ?_
          intro e
          have := congrArg List.length e
          have hl : 0 < d.length := List.length_pos_iff.mpr hd0
          simp at this; omega
        · rw [List.dropLast_append_of_ne_nil hr]
          apply moved
          have := h.parent (s ++ r) n hq (by simp [hr])
          rwa [List.dropLast_append_of_ne_nil hr] at this
      · rw [if_neg hdq] at hq; cases hq

/-! ### `rename` -/

theorem nothing_below_of_clash {t : T} (h : WfFacts t) {sn : Node} {d : FsPath}
    (hc : renameClash t sn d = none) : ∀ k, isProperPrefix d k = true → get t k = none := by
  intro k hp
  cases hg : get t k with
  | none => rfl
  | some m =>
    exfalso
    obtain ⟨dn, hdn, hdk⟩ := isDir_iff.1 (ancestor_isDir h hg hp)
    unfold renameClash at hc
    rw [hdn] at hc
    simp only [hdk, if_true] at hc
    split at hc
    · split at hc
      · rename_i hb
        have := (Sim.below_isEmpty_iff t d).1 hb k (by rw [hg]; rfl)
        rw [this] at hp; cases hp
      · cases hc
    · cases hc

theorem wf_rename {t t' : T} {s d : FsPath} (h : WfFacts t) (e : rename t s d = .ok t') : WfFacts t' := by
  unfold rename at e
  split at e
  · cases e
  · rename_i h0
    have hs0 : s ≠ [] := fun x => h0 (Or.inl x)
    have hd0 : d ≠ [] := fun x => h0 (Or.inr x)
    split at e
    · cases e
    · cases e
    · rename_i hws hwd
      split at e
      · cases e
      · rename_i sn hgs
        split at e
        · cases e; exact h
        · split at e
          · cases e
          · rename_i hpre
            split at e
            · cases e
            · split at e
              · cases e
              · rename_i hcl
                cases e
                have hpd : isDir t d.dropLast = true := by
                  rcases (walkErr_none_iff h d).1 hwd with h1 | h1
                  · exact absurd h1 hd0
                  · exact h1
                have hsd : ¬ s <+: d := fun hp => hpre ((RefineB.isPrefixOrEq_iff s d).2 hp)
                refine facts_of_shape (facts_movedNodes h hs0 hd0 hpd hsd (nothing_below_of_clash h hcl))
                  (keys_renameMove t s d) (kind_renameMove t s d)

end Rivia.Lemmas.StdfsWf
