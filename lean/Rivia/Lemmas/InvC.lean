/-
  Rivia.Lemmas.InvC — invariant preservation (C03) for the `copy` operations of the Memfs model.

  * `InvP` / `inv_iff`: the invariant `Spec.Inv` as a structure of propositions over `alLookup`.
  * `add_cases` / `add_pres`: every exit of `_add` either leaves the state untouched or is the
    state `insState` (entry inserted, listed in its parent, empty data for regular files);
    `insState` keeps the invariant for every `AddOK` entry (child set present iff `dir`, and empty).
  * `Pres m`: the state left by `m` satisfies the invariant whatever the outcome (ok / err / panic /
    hang) — i.e. at every cut point of a failing call; closed under `bind`, `ite`, `forM`.
  * `runIter_pres`: the traversal only changes the threaded state through `pre_op` and the consumer.
  * `Pres.copyM`, `inv_step_C`: `copy` / `copy_b` keep the invariant for all arguments and options.
-/
import Rivia.Spec.MemfsJudge
import Rivia.Model.MemfsOps
open Rivia Rivia.Memfs Rivia.Spec

namespace Rivia.Lemmas.InvC

/-! ### association lists -/

theorem alLookup_alInsert {β} (k k' : FsPath) (v : β) (l : List (FsPath × β)) :
    alLookup k' (alInsert k v l) = if k = k' then some v else alLookup k' l := by
  induction l with
  | nil => simp [alInsert, alLookup]
  | cons x r ih =>
    obtain ⟨a, b⟩ := x
    simp only [alInsert]
    by_cases h : a = k
    · subst h; simp only [if_true, alLookup]; split <;> rfl
    · simp only [h, if_false, alLookup, ih]
      by_cases h2 : a = k'
      · subst h2; simp [Ne.symm h]
      · simp [h2]

theorem alLookup_isSome_iff {β} (k : FsPath) (l : List (FsPath × β)) :
    (alLookup k l).isSome = true ↔ k ∈ l.map (·.1) := by
  induction l with
  | nil => simp [alLookup]
  | cons x r ih =>
    obtain ⟨a, b⟩ := x
    simp only [alLookup, List.map_cons, List.mem_cons]
    by_cases h : a = k
    · simp [h]
    · simp only [h, if_false, ih]
      constructor
      · exact Or.inr
      · rintro (h' | h')
        · exact absurd h'.symm h
        · exact h'

theorem alLookup_eq_none_iff {β} (k : FsPath) (l : List (FsPath × β)) :
    alLookup k l = none ↔ k ∉ l.map (·.1) := by
  rw [← alLookup_isSome_iff]
  cases alLookup k l <;> simp

theorem mem_of_alLookup {β} {k : FsPath} {v : β} {l : List (FsPath × β)} (h : alLookup k l = some v) :
    (k, v) ∈ l := by
  induction l with
  | nil => simp [alLookup] at h
  | cons x r ih =>
    obtain ⟨a, b⟩ := x
    simp only [alLookup] at h
    split at h
    · rename_i hk; cases h; subst hk; exact List.mem_cons_self
    · exact List.mem_cons_of_mem _ (ih h)

theorem alLookup_of_mem {β} {k : FsPath} {v : β} {l : List (FsPath × β)} (hn : (l.map (·.1)).Nodup)
    (h : (k, v) ∈ l) : alLookup k l = some v := by
  induction l with
  | nil => cases h
  | cons x r ih =>
    obtain ⟨a, b⟩ := x
    simp only [List.map_cons, List.nodup_cons] at hn
    simp only [alLookup]
    rcases List.mem_cons.1 h with h | h
    · cases h; simp
    · have : k ∈ r.map (·.1) := List.mem_map.2 ⟨(k, v), h, rfl⟩
      have hne : a ≠ k := fun e => hn.1 (e ▸ this)
      simp only [hne, if_false]
      exact ih hn.2 h

theorem mem_keys_alInsert {β} (k x : FsPath) (v : β) (l : List (FsPath × β)) :
    x ∈ (alInsert k v l).map (·.1) ↔ x = k ∨ x ∈ l.map (·.1) := by
  rw [← alLookup_isSome_iff, ← alLookup_isSome_iff, alLookup_alInsert]
  by_cases h : k = x
  · simp [h]
  · simp [h, Ne.symm h]

theorem nodup_keys_alInsert {β} (k : FsPath) (v : β) (l : List (FsPath × β))
    (h : (l.map (·.1)).Nodup) : ((alInsert k v l).map (·.1)).Nodup := by
  induction l with
  | nil => simp [alInsert]
  | cons x r ih =>
    obtain ⟨a, b⟩ := x
    simp only [List.map_cons, List.nodup_cons] at h
    simp only [alInsert]
    split
    · rename_i hk; subst hk; simpa using h
    · rename_i hk
      simp only [List.map_cons, List.nodup_cons]
      refine ⟨?_, ih h.2⟩
      rw [mem_keys_alInsert]
      rintro (h' | h')
      · exact hk h'
      · exact h.1 h'

/-! ### the invariant as a structure of propositions -/

structure InvP (s : State) : Prop where
  nodupE : (s.entries.map (·.1)).Nodup
  root : ∃ e, alLookup [] s.entries = some e ∧ e.dir = true ∧ e.link = false
  rootAbs : s.root = []
  parent : ∀ k e, alLookup k s.entries = some e → k ≠ [] →
    ∃ pe fs, alLookup k.dropLast s.entries = some pe ∧ pe.dir = true ∧ pe.link = false ∧
      pe.files = some fs ∧ baseName k ∈ fs
  listed : ∀ k e fs, alLookup k s.entries = some e → e.files = some fs →
    ∀ n ∈ fs, (alLookup (k ++ [n]) s.entries).isSome = true
  data : ∀ k e, alLookup k s.entries = some e → (e.file && !e.link) = (alLookup k s.files).isSome
  dangling : ∀ k, (alLookup k s.files).isSome = true → (alLookup k s.entries).isSome = true
  nodupF : (s.files.map (·.1)).Nodup
  pathF : ∀ k e, alLookup k s.entries = some e → e.path = k
  childSet : ∀ k e, alLookup k s.entries = some e → e.files.isSome = e.dir
  nodupC : ∀ k e fs, alLookup k s.entries = some e → e.files = some fs → fs.Nodup

theorem inv_of_invP {s : State} (h : InvP s) : Spec.Inv s := by
  obtain ⟨h1, ⟨re, hr1, hr2, hr3⟩, h3, h4, h5, h6, h7, h8, h9, h10, h11⟩ := h
  unfold Spec.Inv invViolation
  simp only []
  split
  · rename_i hc; simp [h1] at hc
  split
  · rename_i hc; simp [hr1, hr2, hr3] at hc
  split
  · rename_i hc; exact absurd h3 hc
  split
  · rename_i kv hf
    exfalso
    have hp := List.find?_some hf
    have hl := alLookup_of_mem h1 (List.mem_of_find?_eq_some hf)
    obtain ⟨k, e⟩ := kv
    by_cases hk : k = []
    · simp [hk] at hp
    · obtain ⟨pe, fs, a, b, c, d, f⟩ := h4 k e hl hk
      simp [hk, a, b, c, d, f] at hp
  split
  · rename_i kv hf
    exfalso
    have hp := List.find?_some hf
    have hl := alLookup_of_mem h1 (List.mem_of_find?_eq_some hf)
    obtain ⟨k, e⟩ := kv
    cases hfs : e.files with
    | none => simp [hfs] at hp
    | some fs =>
      simp only [hfs, List.any_eq_true] at hp
      obtain ⟨n, hn, hx⟩ := hp
      have := h5 k e fs hl hfs n hn
      cases hy : alLookup (k ++ [n]) s.entries <;> simp_all
  split
  · rename_i kv hf
    exfalso
    have hp := List.find?_some hf
    have hl := alLookup_of_mem h1 (List.mem_of_find?_eq_some hf)
    obtain ⟨k, e⟩ := kv
    simp [h6 k e hl] at hp
  split
  · rename_i kv hf
    exfalso
    have hp := List.find?_some hf
    obtain ⟨k, b⟩ := kv
    have : (alLookup k s.files).isSome = true := by
      rw [alLookup_isSome_iff]; exact List.mem_map.2 ⟨(k, b), List.mem_of_find?_eq_some hf, rfl⟩
    have := h7 k this
    cases hx : alLookup k s.entries <;> simp_all
  split
  · rename_i hc; simp [h8] at hc
  split
  · rename_i kv hf
    exfalso
    have hp := List.find?_some hf
    have hl := alLookup_of_mem h1 (List.mem_of_find?_eq_some hf)
    obtain ⟨k, e⟩ := kv
    simp [h9 k e hl] at hp
  split
  · rename_i kv hf
    exfalso
    have hp := List.find?_some hf
    have hl := alLookup_of_mem h1 (List.mem_of_find?_eq_some hf)
    obtain ⟨k, e⟩ := kv
    simp [h10 k e hl] at hp
  split
  · rename_i kv hf
    exfalso
    have hp := List.find?_some hf
    have hl := alLookup_of_mem h1 (List.mem_of_find?_eq_some hf)
    obtain ⟨k, e⟩ := kv
    cases hfs : e.files with
    | none => simp [hfs] at hp
    | some fs => simp [hfs, h11 k e fs hl hfs] at hp
  rfl

theorem invP_of_inv {s : State} (h : Spec.Inv s) : InvP s := by
  unfold Spec.Inv invViolation at h
  simp only [] at h
  split at h
  · cases h
  rename_i c1
  split at h
  · cases h
  rename_i c2
  split at h
  · cases h
  rename_i c3
  split at h
  · cases h
  rename_i c4
  split at h
  · cases h
  rename_i c5
  split at h
  · cases h
  rename_i c6
  split at h
  · cases h
  rename_i c7
  split at h
  · cases h
  rename_i c8
  split at h
  · cases h
  rename_i c9
  split at h
  · cases h
  rename_i c10
  split at h
  · cases h
  rename_i c11
  have h1 : (s.entries.map (·.1)).Nodup := by simpa using c1
  rw [List.find?_eq_none] at c4 c5 c6 c7 c9 c10 c11
  refine ⟨h1, ?_, ?_, ?_, ?_, ?_, ?_, ?_, ?_, ?_, ?_⟩
  · cases hr : alLookup [] s.entries with
    | none => simp [hr] at c2
    | some e => exact ⟨e, rfl, by simpa [hr] using c2⟩
  · simpa using c3
  · intro k e hl hk
    have := c4 (k, e) (mem_of_alLookup hl)
    simp only [ne_eq, hk, not_false_eq_true, decide_true, Bool.true_and, Bool.not_eq_true] at this
    cases hp : alLookup k.dropLast s.entries with
    | none => simp [hp] at this
    | some pe =>
      cases hfs : pe.files with
      | none => simp [hp, hfs] at this
      | some fs =>
        simp [hp, hfs] at this
        exact ⟨pe, fs, rfl, this.1.1, this.1.2, hfs, this.2⟩
  · intro k e fs hl hfs n hn
    have := c5 (k, e) (mem_of_alLookup hl)
    simp only [hfs, List.any_eq_true, not_exists, not_and, Bool.not_eq_true] at this
    have := this n hn
    cases hx : alLookup (k ++ [n]) s.entries <;> simp_all
  · intro k e hl
    have := c6 (k, e) (mem_of_alLookup hl)
    simpa using this
  · intro k hk
    rw [alLookup_isSome_iff] at hk
    obtain ⟨⟨k', b⟩, hm, rfl⟩ := List.mem_map.1 hk
    have := c7 (k', b) hm
    cases hx : alLookup k' s.entries <;> simp_all
  · simpa using c8
  · intro k e hl
    have := c9 (k, e) (mem_of_alLookup hl)
    simpa using this
  · intro k e hl
    have := c10 (k, e) (mem_of_alLookup hl)
    simpa using this
  · intro k e fs hl hfs
    have := c11 (k, e) (mem_of_alLookup hl)
    simpa [hfs] using this

theorem inv_iff (s : State) : Spec.Inv s ↔ InvP s := ⟨invP_of_inv, inv_of_invP⟩

/-! ### names and keys -/

theorem insertName_snd_cons (n x : Str) (xs : List Str) :
    (insertName n (x :: xs)).2 =
      if n = x then x :: xs else if strLt n x = true then n :: x :: xs else x :: (insertName n xs).2 := by
  simp only [insertName]
  split
  · rfl
  · split <;> rfl

theorem mem_insertName (n m : Str) (l : List Str) : m ∈ (insertName n l).2 ↔ m = n ∨ m ∈ l := by
  induction l with
  | nil => simp [insertName]
  | cons x xs ih =>
    rw [insertName_snd_cons]
    split
    · rename_i h; subst h
      constructor
      · exact Or.inr
      · rintro (h | h)
        · subst h; exact List.mem_cons_self
        · exact h
    · split
      · simp
      · simp only [List.mem_cons, ih]
        constructor
        · rintro (h | h | h)
          · exact Or.inr (Or.inl h)
          · exact Or.inl h
          · exact Or.inr (Or.inr h)
        · rintro (h | h | h)
          · exact Or.inr (Or.inl h)
          · exact Or.inl h
          · exact Or.inr (Or.inr h)

theorem nodup_insertName (n : Str) (l : List Str) (hn : n ∉ l) (h : l.Nodup) : (insertName n l).2.Nodup := by
  induction l with
  | nil => simp [insertName]
  | cons x xs ih =>
    rw [insertName_snd_cons]
    simp only [List.mem_cons, not_or] at hn
    simp only [List.nodup_cons] at h
    rw [if_neg hn.1]
    split
    · simp only [List.nodup_cons, List.mem_cons, not_or]
      exact ⟨⟨hn.1, hn.2⟩, h.1, h.2⟩
    · simp only [List.nodup_cons, mem_insertName, not_or]
      exact ⟨⟨fun e => hn.1 e.symm, h.1⟩, ih hn.2 h.2⟩

theorem dropLast_ne {α} (p : List α) (h : p ≠ []) : p.dropLast ≠ p := by
  intro e
  have := congrArg List.length e
  simp only [List.length_dropLast] at this
  have : p.length ≠ 0 := by simpa using h
  omega

theorem dropLast_append_baseName (p : FsPath) (h : p ≠ []) : p.dropLast ++ [baseName p] = p := by
  unfold baseName
  cases hl : p.getLast? with
  | none => simp at hl; exact absurd hl h
  | some n =>
    simp only []
    rw [List.getLast?_eq_some_getLast h] at hl
    cases hl
    exact List.dropLast_concat_getLast h

theorem baseName_append (k : FsPath) (n : Str) : baseName (k ++ [n]) = n := by
  simp [baseName]

/-! ### inserting one fresh entry under an existing real directory -/

/-- the entries `_add` may insert without breaking the invariant: the child set is present exactly
    for `dir` entries and is empty -/
def AddOK (e : Entry) : Prop := e.files = if e.dir then some [] else none

instance (e : Entry) : Decidable (AddOK e) := by unfold AddOK; infer_instance

/-- the state `_add` leaves after a successful insertion -/
def insState (s : State) (e d : Entry) (fs : List Str) : State :=
  { s with
    files := if (!e.link && e.file) = true then alInsert e.path [] s.files else s.files
    entries := alInsert e.path.dropLast { d with files := some (insertName (baseName e.path) fs).2 }
                 (alInsert e.path e s.entries) }

theorem lookup_ins (s : State) (e d : Entry) (fs : List Str) (k : FsPath) :
    alLookup k (insState s e d fs).entries =
      if e.path.dropLast = k then some { d with files := some (insertName (baseName e.path) fs).2 }
      else if e.path = k then some e else alLookup k s.entries := by
  simp only [insState, alLookup_alInsert]

theorem lookup_ins_mono (s : State) (e d : Entry) (fs : List Str) (k : FsPath)
    (h : (alLookup k s.entries).isSome = true) : (alLookup k (insState s e d fs).entries).isSome = true := by
  rw [lookup_ins]; split
  · rfl
  · split
    · rfl
    · exact h

theorem invP_insState {s : State} (h : InvP s) (e d : Entry) (fs : List Str)
    (hp : e.path ≠ []) (hnone : alLookup e.path s.entries = none)
    (hd : alLookup e.path.dropLast s.entries = some d) (hdd : d.dir = true) (hdl : d.link = false)
    (hfs : d.files = some fs) (hok : AddOK e) : InvP (insState s e d fs) := by
  have hqp : e.path.dropLast ≠ e.path := dropLast_ne _ hp
  have hqb : e.path.dropLast ++ [baseName e.path] = e.path := dropLast_append_baseName _ hp
  have hbfs : baseName e.path ∉ fs := by
    intro hm
    have := h.listed _ d fs hd hfs _ hm
    rw [hqb, hnone] at this; cases this
  have hnodata : alLookup e.path s.files = none := by
    cases hx : alLookup e.path s.files with
    | none => rfl
    | some b =>
      have := h.dangling e.path (by rw [hx]; rfl)
      rw [hnone] at this; cases this
  have hfl : ∀ k, alLookup k (insState s e d fs).files =
      if (!e.link && e.file) = true ∧ e.path = k then some [] else alLookup k s.files := by
    intro k
    simp only [insState]
    split
    · rw [alLookup_alInsert]
      by_cases hk : e.path = k <;> simp [*]
    · simp [*]
  refine ⟨?_, ?_, h.rootAbs, ?_, ?_, ?_, ?_, ?_, ?_, ?_, ?_⟩
  · exact nodup_keys_alInsert _ _ _ (nodup_keys_alInsert _ _ _ h.nodupE)
  · obtain ⟨re, hr1, hr2, hr3⟩ := h.root
    rw [lookup_ins]
    split
    · exact ⟨_, rfl, hdd, hdl⟩
    · exact ⟨re, hr1, hr2, hr3⟩
  · intro k e' hl hk
    rw [lookup_ins] at hl
    split at hl
    · -- k = q
      rename_i hkq; subst hkq
      obtain ⟨pe, fs0, a, b, c, d0, f⟩ := h.parent _ d hd hk
      have h1 : e.path.dropLast ≠ e.path.dropLast.dropLast := (dropLast_ne _ hk).symm
      have h2 : e.path ≠ e.path.dropLast.dropLast := by
        intro e0
        have := congrArg List.length e0
        simp only [List.length_dropLast] at this
        have : e.path.length ≠ 0 := by simpa using hp
        omega
      refine ⟨pe, fs0, ?_, b, c, d0, f⟩
      rw [lookup_ins, if_neg h1, if_neg h2]; exact a
    · split at hl
      · rename_i _ hkp; subst hkp
        refine ⟨{ d with files := some (insertName (baseName e.path) fs).2 }, _, ?_, hdd, hdl, rfl, ?_⟩
        · rw [lookup_ins, if_pos rfl]
        · rw [mem_insertName]; exact Or.inl rfl
      · rename_i hkq hkp
        obtain ⟨pe, fs0, a, b, c, d0, f⟩ := h.parent k e' hl hk
        by_cases hq : e.path.dropLast = k.dropLast
        · rw [← hq, hd] at a; cases a
          rw [hfs] at d0; cases d0
          refine ⟨{ d with files := some (insertName (baseName e.path) fs).2 }, _, ?_, hdd, hdl, rfl, ?_⟩
          · rw [lookup_ins, if_pos hq]
          · rw [mem_insertName]; exact Or.inr f
        · have hpk : e.path ≠ k.dropLast := by
            intro e0; rw [← e0, hnone] at a; cases a
          refine ⟨pe, fs0, ?_, b, c, d0, f⟩
          rw [lookup_ins, if_neg hq, if_neg hpk]; exact a
  · intro k e' fs' hl hfs' n hn
    rw [lookup_ins] at hl
    split at hl
    · rename_i hkq; subst hkq
      cases hl
      simp only [Option.some.injEq] at hfs'
      subst hfs'
      rw [mem_insertName] at hn
      rcases hn with hn | hn
      · subst hn; rw [hqb, lookup_ins, if_neg hqp, if_pos rfl]; rfl
      · exact lookup_ins_mono _ _ _ _ _ (h.listed _ d fs hd hfs n hn)
    · split at hl
      · cases hl
        unfold AddOK at hok
        rw [hok] at hfs'
        split at hfs'
        · cases hfs'; cases hn
        · cases hfs'
      · exact lookup_ins_mono _ _ _ _ _ (h.listed k e' fs' hl hfs' n hn)
  · intro k e' hl
    rw [lookup_ins] at hl
    rw [hfl]
    split at hl
    · rename_i hkq; subst hkq; cases hl
      have := h.data _ d hd
      rw [if_neg (fun hc => hqp hc.2.symm)]
      exact this
    · split at hl
      · rename_i _ hkp; subst hkp; cases hl
        rw [hnodata]
        cases e.link <;> cases e.file <;> simp
      · rename_i _ hkp
        rw [if_neg (fun hc => hkp hc.2)]
        exact h.data k e' hl
  · intro k hk
    rw [hfl] at hk
    split at hk
    · rename_i hc; rw [← hc.2, lookup_ins, if_neg hqp, if_pos rfl]; rfl
    · exact lookup_ins_mono _ _ _ _ _ (h.dangling k hk)
  · simp only [insState]
    split
    · exact nodup_keys_alInsert _ _ _ h.nodupF
    · exact h.nodupF
  · intro k e' hl
    rw [lookup_ins] at hl
    split at hl
    · rename_i hkq; cases hl; rw [← hkq]; exact h.pathF _ d hd
    · split at hl
      · rename_i _ hkp; cases hl; exact hkp
      · exact h.pathF k e' hl
  · intro k e' hl
    rw [lookup_ins] at hl
    split at hl
    · cases hl; simp [hdd]
    · split at hl
      · cases hl; unfold AddOK at hok; rw [hok]; cases e.dir <;> rfl
      · exact h.childSet k e' hl
  · intro k e' fs' hl hfs'
    rw [lookup_ins] at hl
    split at hl
    · cases hl
      simp only [Option.some.injEq] at hfs'
      subst hfs'
      exact nodup_insertName _ _ hbfs (h.nodupC _ d fs hd hfs)
    · split at hl
      · cases hl
        unfold AddOK at hok
        rw [hok] at hfs'
        split at hfs'
        · cases hfs'; exact List.nodup_nil
        · cases hfs'
      · exact h.nodupC k e' fs' hl hfs'

/-! ### running the monad -/

theorem bind_getEntry {β} (p : FsPath) (f : Option Entry → M β) (s : State) :
    M.bind (getEntry p) f s = f (alLookup p s.entries) s := rfl
theorem bind_getFile {β} (p : FsPath) (f : Option File.Bytes → M β) (s : State) :
    M.bind (getFile p) f s = f (alLookup p s.files) s := rfl
theorem bind_pure {α β} (a : α) (f : α → M β) (s : State) : M.bind (M.pure a) f s = f a s := rfl
theorem bind_fail {α β} (k : ErrKind) (f : α → M β) (s : State) : M.bind (M.fail k) f s = (.err k, s) := rfl
theorem bind_modify {β} (g : State → State) (f : Unit → M β) (s : State) :
    M.bind (M.modify g) f s = f () (g s) := rfl
theorem bind_liftO_ok {α β} (a : α) (f : α → M β) (s : State) : M.bind (M.liftO (.ok a)) f s = f a s := rfl
theorem run_pure {α} (a : α) (s : State) : (M.pure a : M α) s = (.ok a, s) := rfl
theorem run_fail {α} (k : ErrKind) (s : State) : (M.fail k : M α) s = (.err k, s) := rfl

/-- every exit of `_add`: either nothing was touched or the entry was inserted and listed -/
theorem add_cases (e : Entry) (s : State) (h : InvP s) :
    (add e s).2 = s ∨ ∃ d fs, e.path ≠ [] ∧ alLookup e.path s.entries = none ∧
      alLookup e.path.dropLast s.entries = some d ∧ d.dir = true ∧ d.link = false ∧
      d.files = some fs ∧ (add e s).2 = insState s e d fs := by
  unfold add
  simp only [bind, pure, setEntry, setFile]
  by_cases hp : e.path = []
  · left; rw [if_pos hp]; rfl
  rw [if_neg hp, bind_getEntry]
  cases hd : alLookup e.path.dropLast s.entries with
  | none => left; rfl
  | some d =>
    simp only []
    by_cases hc : (!d.dir || d.link) = true
    · left; rw [if_pos hc]; rfl
    rw [if_neg hc, bind_getEntry]
    have hdd : d.dir = true := by cases hx : d.dir <;> simp_all
    have hdl : d.link = false := by cases hx : d.link <;> simp_all
    cases hx : alLookup e.path s.entries with
    | some x =>
      left; simp only []
      split
      · rfl
      · split
        · rfl
        · split <;> rfl
    | none =>
      right
      have hfs : ∃ fs, d.files = some fs := by
        have := h.childSet _ d hd
        rw [hdd] at this
        cases hf : d.files with
        | none => rw [hf] at this; cases this
        | some fs => exact ⟨fs, rfl⟩
      obtain ⟨fs, hfs⟩ := hfs
      refine ⟨d, fs, hp, rfl, rfl, hdd, hdl, hfs, ?_⟩
      have hac : d.addChild (baseName e.path) =
          .ok ((insertName (baseName e.path) fs).1, { d with files := some (insertName (baseName e.path) fs).2 }) := by
        simp only [Entry.addChild, hdd, hfs]; rfl
      have hne : e.path ≠ e.path.dropLast := (dropLast_ne _ hp).symm
      simp only []
      split
      · rename_i hcond
        rw [bind_modify, bind_modify, bind_getEntry]
        simp only [alLookup_alInsert, if_neg hne, hd, hac, bind_liftO_ok, bind_modify]
        simp only [insState, hcond, if_true]
        split <;> rfl
      · rename_i hcond
        rw [bind_modify, bind_getEntry]
        simp only [alLookup_alInsert, if_neg hne, hd, hac, bind_liftO_ok, bind_modify]
        simp only [insState, hcond]
        split <;> rfl

theorem add_pres (e : Entry) (hok : AddOK e) (s : State) (h : InvP s) : InvP (add e s).2 := by
  rcases add_cases e s h with h1 | ⟨d, fs, hp, hn, hd, hdd, hdl, hfs, h1⟩
  · rw [h1]; exact h
  · rw [h1]; exact invP_insState h e d fs hp hn hd hdd hdl hfs hok

/-! ### "every exit keeps the invariant" -/

/-- whatever the outcome (value, error, panic, hang), the state left behind satisfies the invariant -/
def Pres {α} (m : M α) : Prop := ∀ s, InvP s → InvP (m s).2

theorem bind_pres_at {α β} {m : M α} {f : α → M β} {s : State} (hm : InvP (m s).2)
    (hf : ∀ a s', m s = (.ok a, s') → InvP (f a s').2) : InvP (M.bind m f s).2 := by
  unfold M.bind
  cases hms : m s with
  | mk o s' =>
    rw [hms] at hm
    cases o with
    | ok a => exact hf a s' hms
    | err k => exact hm
    | panic => exact hm
    | hang => exact hm

theorem Pres.bind {α β} {m : M α} {f : α → M β} (hm : Pres m) (hf : ∀ a, Pres (f a)) :
    Pres (M.bind m f) := by
  intro s h
  refine bind_pres_at (hm s h) ?_
  intro a s' hms
  have := hm s h
  rw [hms] at this
  exact hf a s' this

theorem Pres.pure {α} (a : α) : Pres (M.pure a) := fun _ h => h
theorem Pres.fail {α} (k : ErrKind) : Pres (M.fail k : M α) := fun _ h => h
theorem Pres.getEntry (p : FsPath) : Pres (getEntry p) := fun _ h => h
theorem Pres.getFile (p : FsPath) : Pres (getFile p) := fun _ h => h
theorem Pres.liftO {α} (o : Outcome α) : Pres (M.liftO o) := fun _ h => h
theorem Pres.dirOf (p : FsPath) : Pres (dirOf p) := by
  unfold Memfs.dirOf; split
  · exact Pres.fail _
  · exact Pres.pure _
theorem Pres.ite {α} {c : Prop} [Decidable c] {a b : M α} (ha : Pres a) (hb : Pres b) :
    Pres (if c then a else b) := by
  split
  · exact ha
  · exact hb
theorem Pres.add (e : Entry) (hok : AddOK e) : Pres (add e) := add_pres e hok

theorem addOK_mkDirEntry (p : FsPath) (mode : Option Nat) : AddOK (mkDirEntry p mode) := rfl

theorem Pres.forM {α} (f : α → M PUnit) (hf : ∀ a, Pres (f a)) (l : List α) : Pres (l.forM f) := by
  induction l with
  | nil => exact Pres.pure _
  | cons q r ih => exact Pres.bind (hf q) (fun _ => ih)

theorem Pres.mkdirM (p : FsPath) (mode : Option Nat) : Pres (mkdirM p mode) := by
  unfold Memfs.mkdirM
  refine Pres.forM _ (fun q => ?_) _
  exact Pres.bind (Pres.add _ (addOK_mkDirEntry q mode)) (fun _ => Pres.pure _)

theorem Pres.symlinkAbs (l t : FsPath) : Pres (symlinkAbs l t) := by
  unfold Memfs.symlinkAbs
  refine Pres.bind (Pres.getEntry _) fun x => ?_
  refine Pres.ite (Pres.fail _) ?_
  refine Pres.bind (Pres.dirOf _) fun ld => ?_
  refine Pres.bind (Pres.getEntry _) fun tx => ?_
  refine Pres.bind (Pres.add _ ?_) fun _ => Pres.pure _
  unfold AddOK
  simp only []

/-! ### the traversal only touches the state through its two closures -/

section Trav
variable {σ : Type} (snap : Snap) (o : Opts) (preOp : Entry → σ → Outcome Unit × σ)

/-- the `descend` part of `process` (copied from the definition; `process_eq` checks it by `rfl`) -/
def descendOf (st : ISt) (e : Entry) (w : σ) : Option (Outcome Entry) × ISt × σ :=
    if e.dir ∧ (!e.link ∨ o.follow) then
      if e.link ∧ st.iters.any (fun x => x.path = e.path) then (some (.err .linkLooping), st, w)
      else if st.iters.length < o.maxDepth then
        match preOp e w with
        | (.ok (), w') =>
          match mkIter snap o e.path with
          | .ok it =>
            if o.sorted ∨ st.openDesc + 1 > o.maxDesc then
              (none, { st with iters := { it with cached := true } :: st.iters }, w')
            else (none, { st with iters := it :: st.iters, openDesc := st.openDesc + 1 }, w')
          | .err k => (some (.err k), st, w')
          | .panic => (some .panic, st, w')
          | .hang => (some .hang, st, w')
        | (.err k, w') => (some (.err k), st, w')
        | (.panic, w') => (some .panic, st, w')
        | (.hang, w') => (some .hang, st, w')
      else (none, st, w)
    else (none, st, w)

theorem process_eq (st : ISt) (e : Entry) (w : σ) :
    process snap o preOp st e w =
      match descendOf snap o preOp st e w with
      | (some r, st', w') => (some r, st', w')
      | (none, st', w') =>
        if st.iters.length < o.minDepth then (none, st', w')
        else if (o.files ∧ !e.file) ∨ (!o.files ∧ o.dirs ∧ !e.dir) then (none, st', w')
        else if e.dir ∧ o.contentsFirst then (none, { st' with deferred := (st.iters.length, e) :: st'.deferred }, w')
        else (some (.ok e), st', w') := rfl

theorem descendOf_w (st : ISt) (e : Entry) (w : σ) :
    (descendOf snap o preOp st e w).2.2 = w ∨ (descendOf snap o preOp st e w).2.2 = (preOp e w).2 := by
  unfold descendOf
  split
  · split
    · left; rfl
    · split
      · right
        cases hp : preOp e w with
        | mk r w' =>
          cases r with
          | ok u =>
            cases u
            simp only []
            cases mkIter snap o e.path with
            | ok it => simp only []; split <;> rfl
            | err k => rfl
            | panic => rfl
            | hang => rfl
          | err k => rfl
          | panic => rfl
          | hang => rfl
      · left; rfl
  · left; rfl

theorem process_w (st : ISt) (e : Entry) (w : σ) :
    (process snap o preOp st e w).2.2 = w ∨ (process snap o preOp st e w).2.2 = (preOp e w).2 := by
  have hd := descendOf_w snap o preOp st e w
  rw [process_eq]
  cases hx : descendOf snap o preOp st e w with
  | mk r x =>
    obtain ⟨st', w'⟩ := x
    rw [hx] at hd
    cases r with
    | some r => exact hd
    | none =>
      simp only []
      split
      · exact hd
      · split
        · exact hd
        · split <;> exact hd

theorem of_eq_triple {α β : Type} (P : σ → Prop) {t : α × β × σ} {a : α} {b : β} {w : σ}
    (heq : t = (a, b, w)) (h : P t.2.2) : P w := by subst heq; exact h

variable (P : σ → Prop) (hpre : ∀ e w, P w → P (preOp e w).2)
include hpre

theorem process_pres (st : ISt) (e : Entry) (w : σ) (h : P w) : P (process snap o preOp st e w).2.2 := by
  rcases process_w snap o preOp st e w with h1 | h1
  · rw [h1]; exact h
  · rw [h1]; exact hpre e w h

theorem nextLoop_pres (f : Nat) (st : ISt) (w : σ) (h : P w) : P (nextLoop snap o preOp f st w).2.2 := by
  induction f generalizing st w with
  | zero => exact h
  | succ f ih =>
    unfold nextLoop
    split
    · split
      · split <;> exact h
      · exact h
    · split
      · split <;> exact h
      · split
        · have hp := fun st1 e1 => process_pres snap o preOp P hpre st1 e1 w h
          simp only []
          split
          · rename_i r st2 w2 heq; exact of_eq_triple P heq (hp _ _)
          · rename_i st2 w2 heq; exact ih st2 w2 (of_eq_triple P heq (hp _ _))
        · exact ih _ _ h

theorem nextE_pres (rootE : Entry) (f : Nat) (st : ISt) (w : σ) (h : P w) :
    P (nextE snap o preOp rootE f st w).2.2 := by
  unfold nextE
  split
  · have hp := process_pres snap o preOp P hpre { st with started := true } (rootE.doFollow o.follow) w h
    split
    · rename_i r st2 w2 heq; rw [heq] at hp; exact hp
    · rename_i st2 w2 heq; rw [heq] at hp; exact nextLoop_pres snap o preOp P hpre f st2 w2 hp
  · exact nextLoop_pres snap o preOp P hpre f st w h

/-- the traversal keeps every state predicate that `pre_op` and the consumer keep at each exit -/
theorem runIter_pres (rootE : Entry) (step : Entry → σ → Outcome Unit × σ)
    (hstep : ∀ e w, P w → P (step e w).2) (f : Nat) (st : ISt) (w : σ) (h : P w) :
    P (runIter snap o preOp rootE step f st w).2 := by
  induction f generalizing st w with
  | zero => exact h
  | succ f ih =>
    unfold runIter
    have hn := nextE_pres snap o preOp P hpre rootE (f + 1) st w h
    split
    · rename_i st' w' heq; rw [heq] at hn; exact hn
    · rename_i e st' w' heq
      rw [heq] at hn
      have hs := hstep e w' hn
      split
      · rename_i w'' hse; rw [hse] at hs; exact ih st' w'' hs
      · exact hs
    · rename_i k st' w' heq; rw [heq] at hn; exact hn
    · rename_i st' w' heq; rw [heq] at hn; exact hn
    · rename_i st' w' heq; rw [heq] at hn; exact hn

end Trav

theorem noPre_pres {σ} (P : σ → Prop) : ∀ (e : Entry) (w : σ), P w → P (noPre e w).2 := fun _ _ h => h

/-! ### `insert_file` over existing data, and the `_copy` step -/

theorem setFile_pres (p : FsPath) (b : File.Bytes) (s : State) (h : InvP s)
    (hx : (alLookup p s.files).isSome = true) : InvP (setFile p b s).2 := by
  have hfl : ∀ k, (alLookup k (alInsert p b s.files)).isSome = (alLookup k s.files).isSome := by
    intro k
    rw [alLookup_alInsert]
    split
    · rename_i hk; subst hk; rw [hx]; rfl
    · rfl
  show InvP { s with files := alInsert p b s.files }
  refine ⟨h.nodupE, h.root, h.rootAbs, h.parent, h.listed, ?_, ?_, ?_, h.pathF, h.childSet, h.nodupC⟩
  · intro k e hl
    show _ = (alLookup k (alInsert p b s.files)).isSome
    rw [hfl]; exact h.data k e hl
  · intro k hk
    have : (alLookup k (alInsert p b s.files)).isSome = true := hk
    rw [hfl] at this; exact h.dangling k this
  · exact nodup_keys_alInsert _ _ _ h.nodupF

theorem Pres.absM (env : Env) (p : Str) : Pres (absM env p) := by
  intro s h
  unfold Memfs.absM
  split <;> exact h

theorem Pres.get : Pres M.get := fun _ h => h

theorem Pres.fail_bind {α β} (k : ErrKind) (f : α → M β) : Pres (M.bind (M.fail k) f) := fun _ h => h

theorem Pres.pure_bind {α β} (a : α) (f : α → M β) (h : Pres (f a)) : Pres (M.bind (M.pure a) f) := h

theorem Pres.getEntry_bind {β} (p : FsPath) (f : Option Entry → M β)
    (hf : ∀ x, (∀ e, x = some e → e.files.isSome = e.dir) → Pres (f x)) : Pres (M.bind (Memfs.getEntry p) f) := by
  intro s h
  rw [bind_getEntry]
  exact hf _ (fun e he => h.childSet p e he) s h

theorem Pres.getFile_bind_at {β} (p : FsPath) (f : Option File.Bytes → M β)
    (hf : ∀ s, InvP s → InvP (f (alLookup p s.files) s).2) : Pres (M.bind (Memfs.getFile p) f) := by
  intro s h
  rw [bind_getFile]
  exact hf s h

/-- the data part of copying one file: only ever overwrites bytes that are already there -/
theorem copyTail_pres (dstPath srcPath : FsPath) (srcFile : Bool) :
    Pres (M.bind (getFile dstPath) fun y =>
      if y.isNone = true then
        M.bind (M.fail ErrKind.isNotFile) fun (_ : Unit) =>
          if (!srcFile) = true then
            M.bind (M.fail ErrKind.isNotFile) fun (_ : Unit) =>
              M.bind (getFile srcPath) fun y2 =>
                match y2 with
                | some b => setFile dstPath b
                | none => M.fail ErrKind.doesNotExist
          else
            M.bind (getFile srcPath) fun y2 =>
              match y2 with
              | some b => setFile dstPath b
              | none => M.fail ErrKind.doesNotExist
      else
        if (!srcFile) = true then
          M.bind (M.fail ErrKind.isNotFile) fun (_ : Unit) =>
            M.bind (getFile srcPath) fun y2 =>
              match y2 with
              | some b => setFile dstPath b
              | none => M.fail ErrKind.doesNotExist
        else
          M.bind (getFile srcPath) fun y2 =>
            match y2 with
            | some b => setFile dstPath b
            | none => M.fail ErrKind.doesNotExist) := by
  refine Pres.getFile_bind_at _ _ fun s h => ?_
  split
  · exact h
  · rename_i hy
    split
    · exact h
    · rw [bind_getFile]
      cases alLookup srcPath s.files with
      | none => exact h
      | some b =>
        refine setFile_pres _ _ _ h ?_
        cases hz : alLookup dstPath s.files with
        | none => rw [hz] at hy; exact absurd rfl hy
        | some _ => rfl

theorem addOK_copy (srcE : Entry) (p : FsPath) (m : Nat) (hd : ¬ srcE.dir = true)
    (hc : srcE.files.isSome = srcE.dir) : AddOK (({ srcE with path := p }).setMode m) := by
  unfold AddOK Entry.setMode
  simp only []
  have : srcE.dir = false := by cases h : srcE.dir <;> simp_all
  rw [this] at hc ⊢
  cases hf : srcE.files with
  | none => rfl
  | some _ => rw [hf] at hc; cases hc

/-- the part of the `_copy` loop body after the parent directory has been taken care of -/
theorem copyFile_pres (srcE : Entry) (dstPath : FsPath) (m : Nat) (hd : ¬ srcE.dir = true)
    (hc : srcE.files.isSome = srcE.dir) {g : M Unit} (hg : Pres g) :
    Pres (M.bind (add (({ srcE with path := dstPath }).setMode m)) fun _ =>
      if (!srcE.link) = true then g else M.pure ()) := by
  refine Pres.bind (Pres.add _ (addOK_copy srcE dstPath m hd hc)) fun _ => ?_
  exact Pres.ite hg (Pres.pure _)

set_option linter.unusedSimpArgs false in
/-- `_copy` keeps the invariant at every exit, for all arguments and options -/
theorem Pres.copyM (env : Env) (src dst : Str) (c : CopyOpts) : Pres (Memfs.copyM env src dst c) := by
  unfold Memfs.copyM
  simp only [bind, pure]
  refine Pres.bind (Pres.absM _ _) fun srcRoot => ?_
  refine Pres.bind (Pres.absM _ _) fun dstRoot => ?_
  refine Pres.ite (Pres.pure _) ?_
  refine Pres.bind Pres.get fun s => ?_
  cases alLookup srcRoot s.entries with
  | none => exact Pres.fail_bind _ _
  | some rootE0 =>
    refine Pres.pure_bind _ _ ?_
    refine Pres.bind (Pres.liftO _) fun x => ?_
    intro st hst
    refine runIter_pres _ _ _ InvP (noPre_pres _) _ _ ?_ _ _ _ hst
    intro e
    show Pres _
    refine Pres.ite (Pres.bind (Pres.dirOf _) fun pre => ?_) (Pres.pure_bind _ _ ?_)
    all_goals
      refine Pres.ite (Pres.bind (Pres.symlinkAbs _ _) fun _ => Pres.pure _) ?_
      refine Pres.getEntry_bind _ _ fun y hy => ?_
      cases y with
      | none => exact Pres.fail_bind _ _
      | some srcE =>
        have hc := hy srcE rfl
        refine Pres.pure_bind _ _ ?_
        by_cases hd : srcE.dir = true
        · rw [if_pos hd]; exact Pres.mkdirM _ _
        · rw [if_neg hd]
          refine Pres.bind (Pres.dirOf _) fun dd => ?_
          refine Pres.bind (Pres.getEntry _) fun z => ?_
          have hfile := fun p m => copyFile_pres srcE p m hd hc (copyTail_pres p srcE.path srcE.file)
          refine Pres.ite ?_ (hfile _ _)
          split
          · exact Pres.pure_bind _ _ (Pres.bind (Pres.mkdirM _ _) fun _ => hfile _ _)
          · refine Pres.bind (Pres.dirOf _) fun sd => ?_
            refine Pres.bind (Pres.getEntry _) fun z2 => ?_
            cases z2 with
            | none => exact Pres.fail_bind _ _
            | some pe => exact Pres.pure_bind _ _ (Pres.bind (Pres.mkdirM _ _) fun _ => hfile _ _)

/-! ### the step function, group C -/

theorem mapVal_snd {α} (f : α → Val) (m : M α) (s : State) : (mapVal f m s).2 = (m s).2 := by
  unfold mapVal
  split <;> (rename_i h; rw [h])

/-- the operations of group C: `copy` and the `copy_b` builder with arbitrary options -/
def CoveredC : Op → Prop
  | .copy _ _ => True
  | .copyB _ _ _ => True
  | _ => False

instance : DecidablePred CoveredC := fun op => by
  cases op <;> unfold CoveredC <;> infer_instance

/-- invariant preservation for group C, every outcome included (`.hang` too) -/
theorem inv_step_C' (env : Env) (s : State) (op : Op) (hc : CoveredC op) (h : Spec.Inv s) :
    Spec.Inv (step env s op).2 := by
  rw [inv_iff] at h ⊢
  cases op <;> try exact absurd hc id
  · unfold step; rw [mapVal_snd]; exact Pres.copyM _ _ _ _ s h
  · unfold step; rw [mapVal_snd]; exact Pres.copyM _ _ _ _ s h

theorem inv_step_C (env : Env) (s : State) (op : Op) (hc : CoveredC op) (h : Spec.Inv s)
    (_hh : (step env s op).1 ≠ .hang) : Spec.Inv (step env s op).2 :=
  inv_step_C' env s op hc h

/-- a history of group-C calls, succeeding or failing, keeps the invariant -/
theorem inv_run_C (env : Env) (s : State) (ops : List Op) (hc : ∀ op ∈ ops, CoveredC op)
    (h : Spec.Inv s) : Spec.Inv (run env s ops) := by
  induction ops generalizing s with
  | nil => exact h
  | cons op ops ih =>
    unfold run
    exact ih _ (fun o ho => hc o (List.mem_cons_of_mem _ ho))
      (inv_step_C' env s op (hc op List.mem_cons_self) h)

/-! ### `AddOK` is needed for `_add` itself (not reachable through `_copy`)

  `_add` stores the entry it is given: a directory entry carrying a stale child list breaks
  clause (3). `_copy` never does this: directories are re-created by `_mkdir_m`, and the live source
  entry handed to `_add` in the file branch has `dir = false`, hence no child set (clause (6)). -/

def staleDir : Entry := { mkDirEntry [['a']] none with files := some [['b']] }

example : ¬ AddOK staleDir := by decide
example : (add staleDir Memfs.init).1 = .ok [['a']] := by decide
example : ¬ Spec.Inv (add staleDir Memfs.init).2 := by decide

/-! ### `strLt` is a strict order; `insertName` keeps child lists sorted -/

theorem strLt_cons (a b : Char) (as bs : Str) :
    strLt (a :: as) (b :: bs) =
      if a.val.toNat < b.val.toNat then true else if b.val.toNat < a.val.toNat then false else strLt as bs := by
  simp only [strLt, GT.gt, UInt32.lt_iff_toNat_lt]

theorem strLt_asymm : ∀ (a b : Str), strLt a b = true → strLt b a = false := by
  intro a
  induction a with
  | nil => intro b _; cases b <;> rfl
  | cons x xs ih =>
    intro b h
    cases b with
    | nil => simp [strLt] at h
    | cons y ys =>
      rw [strLt_cons] at h ⊢
      split at h
      · rename_i h1
        rw [if_neg (by omega), if_pos h1]
      · split at h
        · cases h
        · rename_i h1 h2
          rw [if_neg h2, if_neg h1]; exact ih ys h

theorem strLt_trans : ∀ (a b c : Str), strLt a b = true → strLt b c = true → strLt a c = true := by
  intro a
  induction a with
  | nil =>
    intro b c h1 h2
    cases b with
    | nil => simp [strLt] at h1
    | cons y ys =>
      cases c with
      | nil => simp [strLt] at h2
      | cons z zs => rfl
  | cons x xs ih =>
    intro b c h1 h2
    cases b with
    | nil => simp [strLt] at h1
    | cons y ys =>
      cases c with
      | nil => simp [strLt] at h2
      | cons z zs =>
        rw [strLt_cons] at h1 h2 ⊢
        split at h1
        · split at h2
          · rw [if_pos (by omega)]
          · split at h2
            · cases h2
            · rw [if_pos (by omega)]
        · split at h1
          · cases h1
          · split at h2
            · rw [if_pos (by omega)]
            · split at h2
              · cases h2
              · rw [if_neg (by omega), if_neg (by omega)]; exact ih ys zs h1 h2

/-- child names in increasing `strLt` order (no later name is smaller than an earlier one) -/
def SortedNames (fs : List Str) : Prop := fs.Pairwise (fun a b => strLt b a = false)

theorem sorted_insertName (n : Str) (l : List Str) (h : SortedNames l) : SortedNames (insertName n l).2 := by
  unfold SortedNames at h ⊢
  induction l with
  | nil => simp [insertName]
  | cons x xs ih =>
    rw [insertName_snd_cons]
    rw [List.pairwise_cons] at h
    split
    · exact List.pairwise_cons.2 h
    · split
      · rename_i hlt
        refine List.pairwise_cons.2 ⟨?_, List.pairwise_cons.2 h⟩
        intro b hb
        rcases List.mem_cons.1 hb with rfl | hb
        · exact strLt_asymm _ _ hlt
        · cases hbn : strLt b n with
          | false => rfl
          | true =>
            have := strLt_trans _ _ _ hbn hlt
            rw [h.1 b hb] at this; cases this
      · rename_i hlt
        refine List.pairwise_cons.2 ⟨?_, ih h.2⟩
        intro b hb
        rw [mem_insertName] at hb
        rcases hb with rfl | hb
        · cases hx : strLt b x with
          | false => rfl
          | true => exact absurd hx hlt
        · exact h.1 b hb

end Rivia.Lemmas.InvC
