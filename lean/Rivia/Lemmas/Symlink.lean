/-
  Rivia.Lemmas.Symlink — helper lemmas for `Rivia.Props.C10`: evaluation of the `M` state monad,
  association lists, what `Spec.Inv` gives, `symlinkM` / `removeM` / traversal of a link root.
-/
import Rivia.Model.MemfsOps
import Rivia.Spec.MemfsJudge
import Rivia.Lemmas.Relative
import Rivia.Lemmas.User

namespace Rivia.Lemmas
open Rivia Rivia.Str Rivia.Memfs Rivia.Memfs.M Rivia.Spec

/-! ### the state monad -/

@[simp] theorem M_bind_apply {α β} (m : M α) (f : α → M β) (s : State) :
    (m >>= f) s = (match m s with
      | (.ok a, s') => f a s'
      | (.err k, s') => (.err k, s')
      | (.panic, s') => (.panic, s')
      | (.hang, s') => (.hang, s')) := rfl

@[simp] theorem M_pure_apply {α} (a : α) (s : State) : (Pure.pure a : M α) s = (.ok a, s) := rfl
@[simp] theorem M_pure'_apply {α} (a : α) (s : State) : (M.pure a : M α) s = (.ok a, s) := rfl
@[simp] theorem M_fail_apply {α} (k : ErrKind) (s : State) : (M.fail k : M α) s = (.err k, s) := rfl
@[simp] theorem M_hang_apply {α} (s : State) : (M.hang : M α) s = (.hang, s) := rfl
@[simp] theorem M_get_apply (s : State) : M.get s = (.ok s, s) := rfl
@[simp] theorem M_modify_apply (f : State → State) (s : State) : M.modify f s = (.ok (), f s) := rfl
@[simp] theorem M_liftO_apply {α} (o : Outcome α) (s : State) : M.liftO o s = (o, s) := rfl
@[simp] theorem getEntry_apply (p : FsPath) (s : State) :
    getEntry p s = (.ok (alLookup p s.entries), s) := rfl
@[simp] theorem setEntry_apply (p : FsPath) (e : Entry) (s : State) :
    setEntry p e s = (.ok (), { s with entries := alInsert p e s.entries }) := rfl
@[simp] theorem removeEntry_apply (p : FsPath) (s : State) :
    removeEntry p s = (.ok (alLookup p s.entries), { s with entries := alErase p s.entries }) := rfl
@[simp] theorem getFile_apply (p : FsPath) (s : State) :
    getFile p s = (.ok (alLookup p s.files), s) := rfl
@[simp] theorem setFile_apply (p : FsPath) (b : File.Bytes) (s : State) :
    setFile p b s = (.ok (), { s with files := alInsert p b s.files }) := rfl
@[simp] theorem removeFile_apply (p : FsPath) (s : State) :
    removeFile p s = (.ok (alLookup p s.files), { s with files := alErase p s.files }) := rfl

theorem dirOf_nil (s : State) : dirOf [] s = (.err .parentNotFound, s) := rfl
theorem dirOf_ne_nil {p : FsPath} (h : p ≠ []) (s : State) : dirOf p s = (.ok p.dropLast, s) := by
  unfold dirOf; rw [if_neg h]; rfl

@[simp] theorem mapVal_apply {α} (f : α → Val) (m : M α) (s : State) :
    mapVal f m s = (match m s with
      | (.ok a, s') => (.ok (f a), s')
      | (.err k, s') => (.err k, s')
      | (.panic, s') => (.panic, s')
      | (.hang, s') => (.hang, s')) := rfl

/-- `absM` never changes the state -/
theorem absM_state (env : Env) (p : Str) (s : State) : (absM env p s).2 = s := by
  unfold absM; split <;> rfl

/-- `absM` reads nothing but the working directory -/
theorem absM_congr {env : Env} {p : Str} {s s' : State} {k : FsPath} (hc : s'.cwd = s.cwd)
    (h : absM env p s = (.ok k, s)) : absM env p s' = (.ok k, s') := by
  unfold absM at h ⊢
  rw [hc]
  split at h <;> simp_all

/-! ### association lists -/

theorem alLookup_alInsert_self {β} (k : FsPath) (v : β) (l : List (FsPath × β)) :
    alLookup k (alInsert k v l) = some v := by
  induction l with
  | nil => simp [alInsert, alLookup]
  | cons kv r ih =>
    obtain ⟨k', v'⟩ := kv
    by_cases h : k' = k
    · simp [alInsert, alLookup, h]
    · simp [alInsert, alLookup, h, ih]

theorem alLookup_alInsert_ne {β} {k k' : FsPath} (h : k' ≠ k) (v : β) (l : List (FsPath × β)) :
    alLookup k' (alInsert k v l) = alLookup k' l := by
  induction l with
  | nil => simp [alInsert, alLookup, Ne.symm h]
  | cons kv r ih =>
    obtain ⟨k0, v0⟩ := kv
    by_cases h0 : k0 = k
    · subst h0; simp [alInsert, alLookup, Ne.symm h]
    · by_cases h1 : k0 = k'
      · subst h1; simp [alInsert, alLookup, h]
      · simp [alInsert, alLookup, h0, h1, ih]

theorem alLookup_alErase_ne {β} {k k' : FsPath} (h : k' ≠ k) (l : List (FsPath × β)) :
    alLookup k' (alErase k l) = alLookup k' l := by
  induction l with
  | nil => rfl
  | cons kv r ih =>
    obtain ⟨k0, v0⟩ := kv
    by_cases h0 : k0 = k
    · subst h0; simp [alErase, alLookup, Ne.symm h]
    · by_cases h1 : k0 = k'
      · subst h1; simp [alErase, alLookup, h]
      · simp [alErase, alLookup, h0, h1, ih]

theorem alLookup_none_of_not_mem {β} {k : FsPath} {l : List (FsPath × β)}
    (h : k ∉ l.map (·.1)) : alLookup k l = none := by
  induction l with
  | nil => rfl
  | cons kv r ih =>
    obtain ⟨k0, v0⟩ := kv
    simp only [List.map_cons, List.mem_cons, not_or] at h
    simp [alLookup, Ne.symm h.1, ih h.2]

theorem alLookup_alErase_self {β} (k : FsPath) {l : List (FsPath × β)} (h : (l.map (·.1)).Nodup) :
    alLookup k (alErase k l) = none := by
  induction l with
  | nil => rfl
  | cons kv r ih =>
    obtain ⟨k0, v0⟩ := kv
    simp only [List.map_cons, List.nodup_cons] at h
    by_cases h0 : k0 = k
    · subst h0; simp only [alErase, if_true]; exact alLookup_none_of_not_mem h.1
    · simp [alErase, alLookup, h0, ih h.2]

theorem alErase_of_lookup_none {β} {k : FsPath} {l : List (FsPath × β)} (h : alLookup k l = none) :
    alErase k l = l := by
  induction l with
  | nil => rfl
  | cons kv r ih =>
    obtain ⟨k0, v0⟩ := kv
    by_cases h0 : k0 = k
    · simp [alLookup, h0] at h
    · simp only [alLookup, if_neg h0] at h
      simp [alErase, h0, ih h]

theorem mem_of_alLookup {β} {k : FsPath} {v : β} {l : List (FsPath × β)} (h : alLookup k l = some v) :
    (k, v) ∈ l := by
  induction l with
  | nil => simp [alLookup] at h
  | cons kv r ih =>
    obtain ⟨k0, v0⟩ := kv
    by_cases h0 : k0 = k
    · simp only [alLookup, if_pos h0, Option.some.injEq] at h
      subst h0; subst h; simp
    · simp only [alLookup, if_neg h0] at h
      exact List.mem_cons_of_mem _ (ih h)

theorem mem_keys_alInsert {β} (k : FsPath) (v : β) (l : List (FsPath × β)) (k' : FsPath) :
    k' ∈ (alInsert k v l).map (·.1) ↔ k' = k ∨ k' ∈ l.map (·.1) := by
  induction l with
  | nil => simp [alInsert]
  | cons kv r ih =>
    obtain ⟨k0, v0⟩ := kv
    by_cases h0 : k0 = k
    · subst h0; simp [alInsert]
    · simp only [alInsert, if_neg h0, List.map_cons, List.mem_cons, ih]
      constructor
      · rintro (h | h | h) <;> simp [h]
      · rintro (h | h | h) <;> simp [h]

theorem alInsert_keys_nodup {β} (k : FsPath) (v : β) {l : List (FsPath × β)}
    (h : (l.map (·.1)).Nodup) : ((alInsert k v l).map (·.1)).Nodup := by
  induction l with
  | nil => simp [alInsert]
  | cons kv r ih =>
    obtain ⟨k0, v0⟩ := kv
    simp only [List.map_cons, List.nodup_cons] at h
    by_cases h0 : k0 = k
    · subst h0; simp only [alInsert, if_true, List.map_cons, List.nodup_cons]; exact h
    · simp only [alInsert, if_neg h0, List.map_cons, List.nodup_cons]
      refine ⟨?_, ih h.2⟩
      intro hm
      rcases (mem_keys_alInsert k v r k0).1 hm with hm | hm
      · exact h0 hm
      · exact h.1 hm

/-! ### `_symlink` -/

theorem symlinkM_eq_symlinkAbs (env : Env) (s : State) (l t : Str) (lk tk : FsPath)
    (ha : absM env l s = (.ok lk, s))
    (ht : absM env (if isAbsolute t then t else mash (renderP lk.dropLast) t) s = (.ok tk, s)) :
    symlinkM env l t s = symlinkAbs lk tk s := by
  by_cases hnil : lk = []
  · subst hnil
    cases hiso : (alLookup [] s.entries).isSome <;> cases hab : isAbsolute t <;>
      simp [symlinkM, symlinkAbs, ha, hiso, hab, dirOf_nil] 
    · simp [hab] at ht
      simp [ht]
  · cases hiso : (alLookup lk s.entries).isSome <;> cases hab : isAbsolute t <;>
      simp [hab] at ht <;>
      simp [symlinkM, symlinkAbs, ha, hiso, hab, dirOf_ne_nil hnil, ht]

/-- the link entry `_symlink` builds -/
def linkEntry (s : State) (lk tk : FsPath) : Entry :=
  let tIsDir := match alLookup tk s.entries with | some x => x.dir | none => false
  { path := lk, alt := some tk, rel := relative (renderP tk) (renderP lk.dropLast), dir := tIsDir,
    file := !tIsDir, link := true, mode := optsMode true (!tIsDir) tIsDir none, uid := 1000,
    gid := 1000, follow := false, cached := false, files := if tIsDir then some [] else none }

theorem dropLast_ne_self {α} {l : List α} (h : l ≠ []) : l.dropLast ≠ l := by
  intro he
  have := congrArg List.length he
  simp at this
  have : l.length ≠ 0 := by simpa using h
  omega

theorem symlinkAbs_ok (s s' : State) (lk tk r : FsPath) (h : symlinkAbs lk tk s = (.ok r, s')) :
    r = lk ∧ lk ≠ [] ∧ alLookup lk s.entries = none ∧
    ∃ d d', alLookup lk.dropLast s.entries = some d ∧ d.dir = true ∧ d.link = false ∧
      d.addChild (baseName lk) = .ok (true, d') ∧
      s' = { s with entries := alInsert lk.dropLast d' (alInsert lk (linkEntry s lk tk) s.entries) } := by
  by_cases hnil : lk = []
  · subst hnil
    cases hiso : (alLookup [] s.entries).isSome <;> simp [symlinkAbs, hiso, dirOf_nil] at h
  · cases hlk : alLookup lk s.entries with
    | some x => simp [symlinkAbs, hlk] at h
    | none =>
      have hne := dropLast_ne_self hnil
      cases hd : alLookup lk.dropLast s.entries with
      | none => simp [symlinkAbs, hlk, dirOf_ne_nil hnil, add, hnil, hd] at h
      | some d =>
        cases hdd : d.dir <;> cases hdl : d.link <;>
          simp [symlinkAbs, hlk, dirOf_ne_nil hnil, add, hnil, hd, hdd, hdl] at h
        rw [alLookup_alInsert_ne hne, hd] at h
        simp only at h
        cases hac : d.addChild (baseName lk) with
        | ok bd =>
          obtain ⟨b, d'⟩ := bd
          rw [hac] at h
          cases b <;> simp at h
          refine ⟨h.1.symm, hnil, rfl, d, d', rfl, hdd, hdl, hac, ?_⟩
          rw [← h.2]; rfl
        | err k => rw [hac] at h; simp at h
        | panic => rw [hac] at h; simp at h
        | hang => rw [hac] at h; simp at h

/-! ### what the invariant gives; `remove` of a link -/

structure InvFacts (s : State) : Prop where
  nodup : (s.entries.map (·.1)).Nodup
  root : ∃ e0, alLookup [] s.entries = some e0 ∧ e0.dir = true ∧ e0.link = false
  parent : ∀ k e, (k, e) ∈ s.entries → k ≠ [] →
    ∃ pe fs, alLookup k.dropLast s.entries = some pe ∧ pe.dir = true ∧ pe.link = false ∧
      pe.files = some fs ∧ baseName k ∈ fs
  listed : ∀ k e fs, (k, e) ∈ s.entries → e.files = some fs → ∀ n ∈ fs,
    (alLookup (k ++ [n]) s.entries).isSome = true
  data : ∀ k e, (k, e) ∈ s.entries → (e.file && !e.link) = (alLookup k s.files).isSome
  path : ∀ k e, (k, e) ∈ s.entries → e.path = k

theorem inv_facts {s : State} (h : Spec.Inv s) : InvFacts s := by
  unfold Spec.Inv invViolation at h
  simp only at h
  split at h
  · cases h
  split at h
  · cases h
  split at h
  · cases h
  split at h
  · cases h
  rename_i h0 h1 h2 h3 h4
  split at h
  · cases h
  rename_i h5
  split at h
  · cases h
  rename_i h6
  split at h
  · cases h
  split at h
  · cases h
  split at h
  · cases h
  rename_i h7
  refine ⟨by simpa using h0, ?_, ?_, ?_, ?_, ?_⟩
  · cases hr : alLookup [] s.entries with
    | none => simp [hr] at h1
    | some e0 => 
      simp [hr] at h1
      exact ⟨e0, rfl, h1⟩
  · intro k e hm hk
    have := List.find?_eq_none.1 h4 (k, e) hm
    simp only [hk, ne_eq, not_false_eq_true, decide_true, Bool.true_and] at this
    cases hp : alLookup k.dropLast s.entries with
    | none => simp [hp] at this
    | some pe =>
      simp only [hp] at this
      cases hf : pe.files with
      | none => simp [hf] at this
      | some fs =>
        simp [hf] at this
        exact ⟨pe, fs, rfl, this.1.1, this.1.2, hf, this.2⟩
  · intro k e fs hm hf n hn
    have := List.find?_eq_none.1 h5 (k, e) hm
    simp [hf] at this
    have := this n hn
    cases hx : alLookup (k ++ [n]) s.entries with
    | none => exact absurd hx this
    | some _ => rfl
  · intro k e hm
    have := List.find?_eq_none.1 h6 (k, e) hm
    simpa using this
  · intro k e hm
    have := List.find?_eq_none.1 h7 (k, e) hm
    simpa using this

theorem dropLast_append_singleton' {α} (l : List α) (a : α) : (l ++ [a]).dropLast = l := by simp

/-- under the invariant a link has no children -/
theorem link_no_children {s : State} (hinv : Spec.Inv s) {lk : FsPath} {e : Entry}
    (he : alLookup lk s.entries = some e) (hl : e.link = true) :
    e.files = none ∨ e.files = some [] := by
  have F := inv_facts hinv
  cases hf : e.files with
  | none => exact Or.inl rfl
  | some fs =>
    cases fs with
    | nil => exact Or.inr rfl
    | cons n ns =>
      exfalso
      have h1 := F.listed lk e (n :: ns) (mem_of_alLookup he) hf n (by simp)
      cases hc : alLookup (lk ++ [n]) s.entries with
      | none => simp [hc] at h1
      | some c =>
        obtain ⟨pe, fs, hp, _, hpl, _, _⟩ := F.parent (lk ++ [n]) c (mem_of_alLookup hc) (by simp)
        rw [dropLast_append_singleton', he] at hp
        cases hp
        rw [hl] at hpl; cases hpl

theorem link_ne_root {s : State} (hinv : Spec.Inv s) {lk : FsPath} {e : Entry}
    (he : alLookup lk s.entries = some e) (hl : e.link = true) : lk ≠ [] := by
  intro h; subst h
  obtain ⟨e0, h0, _, h2⟩ := (inv_facts hinv).root
  rw [he] at h0; cases h0; rw [hl] at h2; cases h2

theorem link_no_data {s : State} (hinv : Spec.Inv s) {lk : FsPath} {e : Entry}
    (he : alLookup lk s.entries = some e) (hl : e.link = true) : alLookup lk s.files = none := by
  have := (inv_facts hinv).data lk e (mem_of_alLookup he)
  rw [hl] at this
  cases h : alLookup lk s.files with
  | none => rfl
  | some b => simp [h] at this

theorem removeM_link (env : Env) (s : State) (l : Str) (lk : FsPath) (e : Entry) (hinv : Spec.Inv s)
    (ha : absM env l s = (.ok lk, s)) (he : alLookup lk s.entries = some e) (hl : e.link = true) :
    ∃ pe fs, lk ≠ [] ∧ alLookup lk.dropLast s.entries = some pe ∧ pe.files = some fs ∧
      removeM env l s = (.ok (), { s with entries := (alErase lk
        (alInsert lk.dropLast { pe with files := some (fs.filter (· ≠ baseName lk)) } s.entries)) }) := by
  have hnil := link_ne_root hinv he hl
  have hne := dropLast_ne_self hnil
  obtain ⟨pe, fs, hp, hpd, _, hpf, _⟩ := (inv_facts hinv).parent lk e (mem_of_alLookup he) hnil
  have hdata := link_no_data hinv he hl
  refine ⟨pe, fs, hnil, hp, hpf, ?_⟩
  have hrc : pe.removeChild (baseName lk) = .ok { pe with files := some (fs.filter (· ≠ baseName lk)) } := by
    simp [Entry.removeChild, hpd, hpf]
  rcases link_no_children hinv he hl with hf | hf <;>
    cases hfile : e.file <;>
    simp [removeM, ha, he, hf, dirOf_ne_nil hnil, hp, hrc, alLookup_alInsert_ne (Ne.symm hne), hfile,
      alErase_of_lookup_none hdata]

/-! ### traversal rooted at a link that is not followed -/

theorem doFollow_false (e : Entry) : e.doFollow false = e := by simp [Entry.doFollow]

/-- first `next()` of a traversal rooted at a link that is not followed: the root is yielded,
    nothing is opened -/
theorem nextE_link_root {σ} (snap : Snap) (o : Opts) (preOp : Entry → σ → Outcome Unit × σ)
    (e : Entry) (w : σ) (n : Nat) (hl : e.link = true) (hf : o.follow = false)
    (hmin : o.minDepth = 0) (hfiles : o.files = false) (hdirs : o.dirs = false) :
    nextE snap o preOp e (n + 1) {} w = (some (.ok e), { started := true }, w) := by
  by_cases hc : e.dir = true ∧ o.contentsFirst = true
  · simp [nextE, process, hf, hl, hmin, hfiles, hdirs, hc, doFollow_false, nextLoop]
  · simp [nextE, process, hf, hl, hmin, hfiles, hdirs, hc, doFollow_false]

theorem nextE_done {σ} (snap : Snap) (o : Opts) (preOp : Entry → σ → Outcome Unit × σ)
    (e : Entry) (w : σ) (n : Nat) :
    nextE snap o preOp e (n + 1) { started := true } w = (none, { started := true }, w) := by
  simp [nextE, nextLoop]

theorem runIter_link_root {σ} (snap : Snap) (o : Opts) (preOp : Entry → σ → Outcome Unit × σ)
    (e : Entry) (stepf : Entry → σ → Outcome Unit × σ) (w : σ) (n : Nat)
    (hl : e.link = true) (hf : o.follow = false)
    (hmin : o.minDepth = 0) (hfiles : o.files = false) (hdirs : o.dirs = false) :
    runIter snap o preOp e stepf (n + 2) {} w = stepf e w := by
  rw [runIter, nextE_link_root snap o preOp e w (n + 1) hl hf hmin hfiles hdirs]
  simp only
  rcases hs : stepf e w with ⟨r, w'⟩
  cases r with
  | ok u => cases u; simp only; rw [runIter, nextE_done]
  | err k => rfl
  | panic => rfl
  | hang => rfl

/-! ### `_clone_entries` is total under the invariant -/

theorem cloneLoop_ok (ents : List (FsPath × Entry))
    (hclosed : ∀ k e, alLookup k ents = some e → ∀ fs, e.files = some fs → ∀ n ∈ fs,
      (alLookup (e.path ++ [n]) ents).isSome = true) :
    ∀ (f : Nat) (work : List FsPath) (acc : Snap), (∀ p ∈ work, (alLookup p ents).isSome = true) →
      ∃ snap, cloneLoop ents f work acc = .ok snap := by
  intro f
  induction f with
  | zero => intro work acc _; exact ⟨acc, rfl⟩
  | succ f ih =>
    intro work acc hw
    cases work with
    | nil => exact ⟨acc, rfl⟩
    | cons p work =>
      cases hp : alLookup p ents with
      | none => have := hw p (by simp); simp [hp] at this
      | some e =>
        simp only [cloneLoop, hp]
        apply ih
        have hk : ∀ q ∈ ((match e.files with | some fs => fs.map (fun n => e.path ++ [n]) | none => []).reverse ++ work),
            (alLookup q ents).isSome = true := by
          intro q hq
          rcases List.mem_append.1 hq with hq | hq
          · cases hf : e.files with
            | none => simp [hf] at hq
            | some fs =>
              simp only [hf, List.mem_reverse, List.mem_map] at hq
              obtain ⟨n, hn, rfl⟩ := hq
              exact hclosed p e hp fs hf n hn
          · exact hw q (by simp [hq])
        cases ha : e.alt with
        | none => exact hk
        | some a =>
          simp only
          split
          · rename_i hc
            intro q hq
            rcases List.mem_cons.1 hq with rfl | hq
            · exact hc.2.1
            · exact hk q hq
          · exact hk

/-! ### chown / chmod -/

theorem travFuel_succ2 (snap : Snap) : ∃ n, travFuel snap = n + 2 := by
  refine ⟨travFuel snap - 2, ?_⟩
  unfold travFuel
  have := Nat.mul_le_mul (show 1 ≤ 64 * (snap.length + 2) by omega) (show 2 ≤ snap.length + 2 by omega)
  omega

theorem chownM_link (env : Env) (s : State) (l : Str) (c : ChownOpts) (lk : FsPath) (e : Entry) (snap : Snap)
    (ha : absM env l s = (.ok lk, s)) (he : alLookup lk s.entries = some e) (hl : e.link = true)
    (hp : e.path = lk) (hc : c.follow = false) (hs : cloneEntries s lk = .ok snap) :
    chownM env l c s =
      (.ok (), { s with entries := alInsert lk (e.setOwner c.uid c.gid) s.entries }) := by
  obtain ⟨n, hn⟩ := travFuel_succ2 snap
  simp only [chownM, M_bind_apply, ha, M_get_apply, entriesOf, he, hs, M_liftO_apply, hn]
  rw [runIter_link_root _ _ _ _ _ _ _ hl (by simp [Opts.setMax, hc]) (by simp [Opts.setMax])
    (by simp [Opts.setMax]) (by simp [Opts.setMax])]
  simp [hp, he]

theorem chmodM_link (env : Env) (s : State) (l : Str) (c : ChmodOpts) (lk : FsPath) (e : Entry)
    (ha : absM env l s = (.ok lk, s)) (he : alLookup lk s.entries = some e) (hl : e.link = true)
    (hc : c.follow = false) : (chmodM env l c s).2 = s := by
  simp only [chmodM, M_bind_apply, ha, M_get_apply, entriesOf, he]
  cases hs : cloneEntries s lk with
  | ok snap =>
    obtain ⟨n, hn⟩ := travFuel_succ2 snap
    simp only [M_liftO_apply, hn]
    rw [runIter_link_root _ _ _ _ _ _ _ hl (by simp [Opts.setMax, hc]) (by simp [Opts.setMax])
      (by simp [Opts.setMax]) (by simp [Opts.setMax])]
    simp only [hl, hc]
    split <;> simp
  | err k => rfl
  | panic => rfl
  | hang => rfl

theorem chmodM_link_octal (env : Env) (s : State) (l : Str) (c : ChmodOpts) (lk : FsPath) (e : Entry)
    (snap : Snap)
    (ha : absM env l s = (.ok lk, s)) (he : alLookup lk s.entries = some e) (hl : e.link = true)
    (hc : c.follow = false) (hsym : c.sym = []) (hs : cloneEntries s lk = .ok snap) :
    chmodM env l c s = (.ok (), s) := by
  obtain ⟨n, hn⟩ := travFuel_succ2 snap
  simp only [chmodM, M_bind_apply, ha, M_get_apply, entriesOf, he, hs, M_liftO_apply, hn]
  rw [runIter_link_root _ _ _ _ _ _ _ hl (by simp [Opts.setMax, hc]) (by simp [Opts.setMax])
    (by simp [Opts.setMax]) (by simp [Opts.setMax])]
  have hm : ∀ k cur oct, Chmod.mode k cur oct [] = .ok (if oct = 0 then 0 else oct) := by
    intro k cur oct; unfold Chmod.mode; by_cases h : oct = 0 <;> simp [h]
  simp only [hl, hc, hsym, hm]
  cases e.dir <;> cases e.file <;> simp

theorem cloneEntries_ok_of_inv {s : State} (hinv : Spec.Inv s) {k : FsPath}
    (hk : (alLookup k s.entries).isSome = true) : ∃ snap, cloneEntries s k = .ok snap := by
  have F := inv_facts hinv
  unfold cloneEntries
  apply cloneLoop_ok
  · intro k e he fs hf n hn
    have hm := mem_of_alLookup he
    rw [F.path k e hm]
    exact F.listed k e fs hm hf n hn
  · intro p hp
    simp only [List.mem_singleton] at hp
    subst hp; exact hk

/-! ### keys as strings -/

theorem renderP_eq_bufOf (ns : FsPath) : renderP ns = bufOf true ns := by
  simp [renderP, bufOf]

theorem relative_renderP_self (ds : FsPath) : relative (renderP ds) (renderP ds) = renderP ds := by
  simp [relative]

theorem relative_renderP_navigates {ts ds : FsPath} (ht : ∀ n ∈ ts, Wf n) (hd : ∀ n ∈ ds, Wf n) :
    goClean (push (renderP ds) (relative (renderP ts) (renderP ds))) = renderP ts := by
  by_cases hne : ts = ds
  · subst hne
    rw [relative_renderP_self]
    have hr : isRooted (renderP ts) = true := rfl
    simp only [push, hr, if_true]
    rw [renderP_eq_bufOf]
    exact goClean_of_normalForm (normalForm_abs ht)
  · rw [renderP_eq_bufOf, renderP_eq_bufOf, relative_abs ht hd hne,
      push_abs_rel (fun q hq => Wf.bodyPiece (hd q hq))
        (bodyPiece_shape (fun n hn => ht n (List.mem_of_mem_drop hn))) (shape_ne_nil hne)]
    exact goClean_navigate ht hd hne

theorem relative_renderP_isRooted {ts ds : FsPath} (ht : ∀ n ∈ ts, Wf n) (hd : ∀ n ∈ ds, Wf n) :
    isRooted (relative (renderP ts) (renderP ds)) = decide (ts = ds) := by
  by_cases hne : ts = ds
  · subst hne; rw [relative_renderP_self]; simp [renderP, isRooted]
  · rw [renderP_eq_bufOf, renderP_eq_bufOf, relative_abs ht hd hne,
      isRooted_bufOf (bodyPiece_shape (fun n hn => ht n (List.mem_of_mem_drop hn)))]
    simp [hne]

theorem wf_dropLast {ns : FsPath} (h : ∀ n ∈ ns, Wf n) : ∀ n ∈ ns.dropLast, Wf n :=
  fun n hn => h n ((List.dropLast_sublist ns).subset hn)

/-! ### `_abs` produces well-formed keys -/

theorem wf_of_bodyPiece {q : Str} (h : BodyPiece q) (hd : q ≠ dotdot) : Wf q :=
  ⟨h.1, h.2.2, h.2.1, hd⟩

theorem toPath_bufOf {ns : List Str} (h : ∀ n ∈ ns, Wf n) : toPath (bufOf true ns) = ns := by
  cases ns with
  | nil => decide
  | cons a as =>
    unfold toPath
    rw [splitSlash_bufOf (by simp) (fun p hp => (h p hp).bodyPiece)]
    simp only [if_true, List.cons_append, List.nil_append]
    rw [List.filter_cons_of_neg (by simp)]
    exact List.filter_eq_self.2 (fun n hn => by simpa using (h n hn).1)

theorem dir_bufOf_snoc {ps : List Str} {top : Str} (h : ∀ q ∈ ps ++ [top], BodyPiece q) :
    dir (bufOf true (ps ++ [top])) = .ok (bufOf true ps) := by
  have hbody : ∀ q ∈ ps ++ [top], isBody q = true :=
    fun q hq => isBody_eq_true (h q hq).1 (h q hq).2.1
  have hsplit := splitSlash_bufOf (rooted := true) (ps := ps ++ [top]) (by simp) h
  have hroot := isRooted_bufOf (rooted := true) h
  have := parentStr_of_split (s := bufOf true (ps ++ [top])) (p0 := []) (mid := ps) (top := top)
    (by simpa using hsplit) (fun x hx => hbody x (by simp [hx])) (hbody top (by simp))
  unfold dir
  rw [this, hroot]
  by_cases hps : ps = []
  · subst hps; simp [bufOf, joinWith]
  · simp [hps, bufOf, joinWith_cons_of_ne_nil '/' [] hps]

theorem trimFirst_bufOf_cons {p : Str} {rest : List Str} (h : ∀ q ∈ p :: rest, BodyPiece q) :
    trimFirst (bufOf false (p :: rest)) = bufOf false rest := by
  have hsplit := splitSlash_bufOf (rooted := false) (ps := p :: rest) (by simp) h
  have hbody : ∀ q ∈ rest, (!isBody q) = false :=
    fun q hq => by simp [isBody_eq_true (h q (by simp [hq])).1 (h q (by simp [hq])).2.1]
  unfold trimFirst
  rw [hsplit]
  simp only [Bool.false_eq_true, if_false, List.nil_append]
  have h1 : rest.dropWhile (fun p => !isBody p) = rest := by
    cases rest with
    | nil => rfl
    | cons r rs => rw [List.dropWhile_cons_of_neg]; simp [hbody r (by simp)]
  rw [h1, dropTrailing_of_all_false _ hbody]
  simp [bufOf]

theorem stripSlashes_of_not_rooted {s : Str} (h : isRooted s = false) : stripSlashes s = s := by
  cases s with
  | nil => rfl
  | cons c cs =>
    have hc : c ≠ '/' := by
      intro hc; subst hc; simp [isRooted] at h
    unfold stripSlashes
    split
    · rename_i heq; simp only [List.cons.injEq] at heq; exact absurd heq.1 hc
    · rfl

theorem mash_bufOf {cw qs : List Str} (hc : ∀ n ∈ cw, Wf n) (hq : ∀ n ∈ qs, Wf n) (hne : qs ≠ []) :
    mash (bufOf true cw) (bufOf false qs) = bufOf true (cw ++ qs) := by
  have hqb : ∀ q ∈ qs, BodyPiece q := fun q h => (hq q h).bodyPiece
  have hall : ∀ n ∈ cw ++ qs, Wf n := by
    intro n hn
    rcases List.mem_append.1 hn with hn | hn
    · exact hc n hn
    · exact hq n hn
  unfold mash
  rw [stripSlashes_of_not_rooted (isRooted_bufOf hqb),
    push_abs_rel (fun q h => (hc q h).bodyPiece) hqb hne, components_abs hall,
    render_root_normals hall]

theorem bodyComp_dotdot : bodyComp dotdot = some .parent := by decide

theorem components_rel_shape (m : Nat) {qs : List Str} (hq : ∀ n ∈ qs, Wf n) :
    components (bufOf false (List.replicate m dotdot ++ qs)) =
      List.replicate m Comp.parent ++ qs.map Comp.normal := by
  rw [components_bufOf (bodyPiece_shape hq)]
  simp only [Bool.false_eq_true, if_false, List.nil_append, List.filterMap_append,
    filterMap_bodyComp_wf hq]
  congr 1
  induction m with
  | zero => rfl
  | succ m ih => rw [List.replicate_succ, List.filterMap_cons_some bodyComp_dotdot, ih]; rfl

theorem absLoop_nil (f : Nat) (curr : Str) : absLoop f curr [] = .ok curr := by
  cases f with
  | zero => rfl
  | succ f => simp [absLoop, components, isRooted, splitSlash, splitOn_nil, bodyComp]

theorem absLoop_dot (f : Nat) (curr : Str) : absLoop f curr ['.'] = .ok curr := by
  cases f with
  | zero => rfl
  | succ f =>
    have h1 : components ['.'] = [.cur] := by decide
    have h2 : trimFirst ['.'] = [] := by decide
    simp only [absLoop, h1, List.head?_cons, h2, absLoop_nil]

theorem bufOf_true_ne_root {ps : List Str} {t : Str} (ht : t ≠ []) : bufOf true (ps ++ [t]) ≠ ['/'] := by
  intro h
  have := congrArg List.length h
  cases ps with
  | nil =>
    simp [bufOf, joinWith] at this
    exact ht this
  | cons p ps =>
    rw [List.cons_append, bufOf, joinWith_cons_of_ne_nil '/' p (by simp)] at this
    simp at this

theorem absLoop_wf : ∀ (f m : Nat) (cw qs : List Str), (∀ n ∈ cw, Wf n) → (∀ n ∈ qs, Wf n) →
    ∀ a, absLoop f (bufOf true cw) (bufOf false (List.replicate m dotdot ++ qs)) = .ok a →
      ∃ ns, (∀ n ∈ ns, Wf n) ∧ a = bufOf true ns := by
  intro f
  induction f with
  | zero => intro m cw qs hc _ a h; simp only [absLoop, Outcome.ok.injEq] at h; exact ⟨cw, hc, h.symm⟩
  | succ f ih =>
    intro m cw qs hc hq a h
    unfold absLoop at h
    rw [components_rel_shape m hq] at h
    cases m with
    | zero =>
      cases qs with
      | nil => simp at h; exact ⟨cw, hc, h.symm⟩
      | cons q r =>
        simp only [List.replicate_zero, List.nil_append, List.map_cons, List.head?_cons,
          Outcome.ok.injEq] at h
        rw [mash_bufOf hc hq (by simp)] at h
        refine ⟨cw ++ q :: r, ?_, h.symm⟩
        intro n hn
        rcases List.mem_append.1 hn with hn | hn
        · exact hc n hn
        · exact hq n hn
    | succ m =>
      simp only [List.replicate_succ, List.cons_append, List.head?_cons] at h
      rcases eq_nil_or_snoc cw with rfl | ⟨cw', t, rfl⟩
      · simp [bufOf_nil] at h
      · have ht : Wf t := hc t (by simp)
        rw [if_neg (bufOf_true_ne_root ht.1),
          dir_bufOf_snoc (fun q hq' => (hc q hq').bodyPiece)] at h
        simp only at h
        have hb : ∀ q ∈ dotdot :: (List.replicate m dotdot ++ qs), BodyPiece q := by
          intro q hq'
          rcases List.mem_cons.1 hq' with rfl | hq'
          · exact bodyPiece_dotdot
          · exact bodyPiece_shape hq q hq'
        rw [trimFirst_bufOf_cons hb] at h
        exact ih m cw' qs (fun n hn => hc n (by simp [hn])) hq a h


/-- a list in which only `..` may precede a `..` is a run of `..` followed by `..`-free pieces -/
theorem leading_dotdots (L : List Str) (h : L.Pairwise (fun a b => b = dotdot → a = dotdot)) :
    ∃ m qs, L = List.replicate m dotdot ++ qs ∧ ∀ q ∈ qs, q ≠ dotdot := by
  induction L with
  | nil => exact ⟨0, [], rfl, by simp⟩
  | cons x L ih =>
    rw [List.pairwise_cons] at h
    by_cases hx : x = dotdot
    · obtain ⟨m, qs, hL, hqs⟩ := ih h.2
      exact ⟨m + 1, qs, by rw [hL, hx, List.replicate_succ, List.cons_append], hqs⟩
    · refine ⟨0, x :: L, rfl, ?_⟩
      intro q hq
      rcases List.mem_cons.1 hq with rfl | hq
      · exact hx
      · exact fun hd => hx (h.1 q hq hd)

theorem absWith_wf (env : Env) (cw : List Str) (hc : ∀ n ∈ cw, Wf n) (p a : Str)
    (h : absWith env (bufOf true cw) p = .ok a) : ∃ ns, (∀ n ∈ ns, Wf n) ∧ a = bufOf true ns := by
  unfold absWith at h
  split at h
  · cases h
  split at h
  · rename_i x hx
    rw [cleanO_eq_goClean] at h
    simp only at h
    have hge := goClean_eq (trimProtocol x)
    have hbp := goStack_rev_bodyPiece (trimProtocol x)
    have hok := goStack_stackOK (trimProtocol x)
    split at h
    · -- absolute
      rename_i hab
      simp only [Outcome.ok.injEq] at h
      subst h
      have hr : isRooted (trimProtocol x) = true := by
        rw [← goClean_rooted]; exact hab
      rw [hr] at hge hok
      have hne : bufOf true (goStack (trimProtocol x)).reverse ≠ [] := by simp [bufOf]
      rw [if_neg hne] at hge
      refine ⟨(goStack (trimProtocol x)).reverse, ?_, hge⟩
      intro n hn
      exact wf_of_bodyPiece (hbp n hn) (hok.1 rfl n (List.mem_reverse.1 hn))
    · rename_i hab
      have hr : isRooted (trimProtocol x) = false := by
        rw [← goClean_rooted]; simpa [isAbsolute] using hab
      rw [hr] at hge hok
      split at hge
      · rw [hge] at h
        rw [absLoop_dot] at h
        simp only [Outcome.ok.injEq] at h
        exact ⟨cw, hc, h.symm⟩
      · have hpw : ((goStack (trimProtocol x)).reverse).Pairwise (fun a b => b = dotdot → a = dotdot) := by
          rw [List.pairwise_reverse]; exact hok.2
        obtain ⟨m, qs, hL, hqs⟩ := leading_dotdots _ hpw
        have hq : ∀ n ∈ qs, Wf n := by
          intro n hn
          exact wf_of_bodyPiece (hbp n (by rw [hL]; simp [hn])) (hqs n hn)
        rw [hge, hL] at h
        exact absLoop_wf _ m cw qs hc hq a h
  all_goals cases h

/-- `_abs` returns keys made of well-formed names, and the key is a faithful parse: rendering it
    gives back the clean absolute string that `abs` computed -/
theorem absM_wf {env : Env} {p : Str} {s s' : State} {k : FsPath} (hc : ∀ n ∈ s.cwd, Wf n)
    (h : absM env p s = (.ok k, s')) :
    (∀ n ∈ k, Wf n) ∧ absWith env (renderP s.cwd) p = .ok (renderP k) := by
  unfold absM at h
  split at h
  · rename_i a ha
    simp only [Prod.mk.injEq, Outcome.ok.injEq] at h
    rw [renderP_eq_bufOf] at ha
    obtain ⟨ns, hns, rfl⟩ := absWith_wf env s.cwd hc p a ha
    rw [toPath_bufOf hns] at h
    rw [← h.1, renderP_eq_bufOf, renderP_eq_bufOf]
    exact ⟨hns, ha⟩
  all_goals simp at h

/-! ### when `_symlink` succeeds -/

theorem insertName_new {n : Str} {fs : List Str} (h : n ∉ fs) : (insertName n fs).1 = true := by
  induction fs with
  | nil => rfl
  | cons x xs ih =>
    simp only [List.mem_cons, not_or] at h
    unfold insertName
    rw [if_neg h.1]
    split
    · rfl
    · simp only; exact ih h.2

theorem dropLast_append_baseName {k : FsPath} (h : k ≠ []) : k.dropLast ++ [baseName k] = k := by
  rcases eq_nil_or_snoc k with rfl | ⟨m, t, rfl⟩
  · exact absurd rfl h
  · simp [baseName]

theorem symlinkAbs_succeeds {s : State} (hinv : Spec.Inv s) {lk : FsPath} (tk : FsPath) {d : Entry}
    (hfree : alLookup lk s.entries = none) (hd : alLookup lk.dropLast s.entries = some d)
    (hdd : d.dir = true) (hdl : d.link = false) :
    ∃ s', symlinkAbs lk tk s = (.ok lk, s') := by
  have F := inv_facts hinv
  have hnil : lk ≠ [] := by
    intro h; subst h
    obtain ⟨e0, h0, _⟩ := F.root
    rw [hfree] at h0; cases h0
  have hne := dropLast_ne_self hnil
  have hac : ∃ d', d.addChild (baseName lk) = .ok (true, d') := by
    unfold Entry.addChild
    simp only [hdd, Bool.not_true, Bool.false_eq_true, if_false]
    cases hf : d.files with
    | none => exact ⟨_, rfl⟩
    | some fs =>
      have hnm : baseName lk ∉ fs := by
        intro hm
        have := F.listed lk.dropLast d fs (mem_of_alLookup hd) hf _ hm
        rw [dropLast_append_baseName hnil, hfree] at this
        cases this
      have h1 := insertName_new hnm
      simp only
      rcases hi : insertName (baseName lk) fs with ⟨b, fs'⟩
      rw [hi] at h1
      simp only at h1
      subst h1
      exact ⟨_, rfl⟩
  obtain ⟨d', hd'⟩ := hac
  refine ⟨{ s with entries := alInsert lk.dropLast d' (alInsert lk (linkEntry s lk tk) s.entries) }, ?_⟩
  simp [symlinkAbs, hfree, dirOf_ne_nil hnil, add, hnil, hd, hdd, hdl,
    alLookup_alInsert_ne hne, hd']
  rfl
end Rivia.Lemmas
